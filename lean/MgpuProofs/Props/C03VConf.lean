import MgpuProofs.C03VConfBfe
import MgpuProofs.C03VConfExec
import MgpuProofs.C03VConfLoops
/-! # C03 (vector half) — conformance of the TRANSLATED integer lane bodies of both vector ALUs to the ISA specification

The scalar half (`Props/C03S.lean`) proves, per opcode and for all inputs, that the Go handler regenerated into Lean
equals a hand-written ISA specification.  This file does the same for the vector ALUs.  `translate/lanebody.go`
(property C06 owns the generated file `Gen/LaneBodies.lean`, regenerated from `amd/emu/aluvop*.go` and
`amd/emu/cdna3/*.go` on every run) translates the body of each handler's lane loop literally into
`raw_<arch>_<handler> : Uni → RawIn → RawOut` over `BitVec`.  For every INTEGER body, the theorem
`<arch>_<handler>_conforms` states `Conforms lh_<arch>_<handler> <table entry>` (`MgpuProofs/C03VConf.lean`):

* for EVERY lane index, every 64-bit pattern `state.ReadOperand` can return for SRC0/SRC1/SRC2 (VGPR, SGPR, literal,
  positive and NEGATIVE inline constant — whose upper 32 bits are ones —, register pair), every VCC / SGPR-pair mask
  value and accumulator value, and every instruction record the handler accepts (any ABS/NEG/CLAMP bits: integer
  opcodes have no modifiers, the proof shows the body ignores them),
* the value handed to `WriteOperand(inst.Dst, i, ·)`, at the destination width, is the `d` the specification
  `C03V.execVALU` computes for that lane from the operands truncated to the operand width (`execVALU_lane` ties
  `specLane` to `execVALU`), and
* bit `i` of the value later handed to `SetVCC` / `WriteOperand(inst.SDst|Dst, 0, ·)` is the specification's carry /
  borrow / compare result `co`, all other bits of the accumulator unchanged; handlers without mask result leave the
  accumulator alone.

One generic lemma per operation shape does the plumbing (`conf_un32`, `conf_bin32`, `conf_tri32`, `conf_co32`,
`conf_cio32`, `conf_cmp32/16/64`, `conf_plain`, `conf_carry`); `MgpuProofs/C03VConfOps.lean` and `C03VConfBfe.lean`
prove that each Go idiom equals the ISA function.  The loop around the body (EXEC guard, lane order, 64-bit
accumulator, write-back) is property C06's `handler_is_vexec`; operand fetch / write-back is C07 and the differential
tie.  `vector_integer_conformance_coverage` compares the proved rows with the REGENERATED opcode switches and lists
what remains covered by the differential tie only.

Third pass: the bodies `translate/lanedeep.go` translates since — the inner bit loops of `v_bfrev_b32` (both ALUs) and
`v_ffbh_u32` as `List.foldl`, the `sort.Ints` of `v_med3_i32` as `C06.Go.sortInts3`, CDNA3 `v_cmp_f_u64` as a handler
without lane loop writing the constant mask 0 — are proved conformant for all operands too (loop invariants and the sort
lemma in `MgpuProofs/C03VConfLoops.lean`), and the lane `v_readfirstlane_b32` reads is proved to be the specification's
(`readfirstlane_lane_conforms`, `readfirstlane_value_conforms`).  No float handler qualifies for a bit-level proof: every
float-class body (also compares, class tests and the ABS/NEG modifier helpers) goes through `Float32.ofBits` / `Float.ofBits`.

Findings of this proof round (see also `known_findings.d/C03V.json`, notes/C03V.md):
* `v_lshl_add_u64` (both ALUs) shifted by `S1[5:0]`, the ISA by `S1[2:0]`: REPAIRED (round R4) — `*_runVLSHLADDU64_conforms`
  for every shift count; the bodies before the repair are kept (`lh_*_runVLSHLADDU64Old`) with
  `*_runVLSHLADDU64_before_fix_refuted` and `_before_fix_partial`.
* GCN3 `v_lshrrev_b32` shifts the 64-bit operand value: correct only because SRC1 of VOP2 is a VGPR
  (`gcn3_runVLSHRREVB32_conforms` on `Src1IsVgpr`, `gcn3_runVLSHRREVB32_full_refuted`). -/
namespace C03V.Conf
open C03V C03V.I Gen.Lane
open C06 (Uni RawIn RawOut LaneHandler setBit)
set_option linter.unusedSimpArgs false

/-! ## per-handler conformance theorems -/

/-- `gcn3` `runVMOVB32` (aluvop1.go:62): unary 32-bit operation -/
theorem gcn3_runVMOVB32_conforms (n : String) : Conforms lh_gcn3_runVMOVB32 (un32 n id) :=
  conf_un32 _ _ (by conf_start [lh_gcn3_runVMOVB32, raw_gcn3_runVMOVB32]; conf_fin [])

/-- `gcn3` `runVNOTB32` (aluvop1.go:268): unary 32-bit operation -/
theorem gcn3_runVNOTB32_conforms (n : String) : Conforms lh_gcn3_runVNOTB32 (un32 n (~~~ ·)) :=
  conf_un32 _ _ (by conf_start [lh_gcn3_runVNOTB32, raw_gcn3_runVNOTB32]; conf_fin [sw32_not])

/-- `gcn3` `runVCNDMASKB32` (aluvop2.go:93): select by bit `i` of VCC -/
theorem gcn3_runVCNDMASKB32_conforms : Conforms lh_gcn3_runVCNDMASKB32 cndmaskOp :=
  conf_plain _ rfl (by
    conf_start_s [lh_gcn3_runVCNDMASKB32, raw_gcn3_runVCNDMASKB32, specLane, laneIn, cndmaskOp, maskOf, tr_32,
      ge_iff_le, Nat.le_refl, if_true, true_and]
    split <;> rfl)

/-- `gcn3` `runVMULI32I24` (aluvop2.go:190): binary 32-bit operation -/
theorem gcn3_runVMULI32I24_conforms (n : String) : Conforms lh_gcn3_runVMULI32I24 (bin32 n mulI24) :=
  conf_bin32 _ _ (by conf_start_s [lh_gcn3_runVMULI32I24, raw_gcn3_runVMULI32I24]; conf_fin [mulI24, sext24_go, sext24_or])

/-- `gcn3` `runVMULU32U24` (aluvop2.go:212): binary 32-bit operation -/
theorem gcn3_runVMULU32U24_conforms (n : String) : Conforms lh_gcn3_runVMULU32U24 (bin32 n mulU24) :=
  conf_bin32 _ _ (by conf_start [lh_gcn3_runVMULU32U24, raw_gcn3_runVMULU32U24]; conf_fin [mulU24, zext24_shifts, zext24_mask])

/-- `gcn3` `runVMINI32` (aluvop2.go:268): binary 32-bit operation -/
theorem gcn3_runVMINI32_conforms (n : String) : Conforms lh_gcn3_runVMINI32 (bin32 n minI) :=
  conf_bin32 _ _ (by conf_start [lh_gcn3_runVMINI32, raw_gcn3_runVMINI32]; conf_fin [minI])

/-- `gcn3` `runVMAXI32` (aluvop2.go:290): binary 32-bit operation -/
theorem gcn3_runVMAXI32_conforms (n : String) : Conforms lh_gcn3_runVMAXI32 (bin32 n maxI) :=
  conf_bin32 _ _ (by conf_start [lh_gcn3_runVMAXI32, raw_gcn3_runVMAXI32]; conf_fin [maxI_alt])

/-- `gcn3` `runVMINU32` (aluvop2.go:312): binary 32-bit operation -/
theorem gcn3_runVMINU32_conforms (n : String) : Conforms lh_gcn3_runVMINU32 (bin32 n minU) :=
  conf_bin32 _ _ (by conf_start [lh_gcn3_runVMINU32, raw_gcn3_runVMINU32]; conf_fin [minU])

/-- `gcn3` `runVMAXU32` (aluvop2.go:334): binary 32-bit operation -/
theorem gcn3_runVMAXU32_conforms (n : String) : Conforms lh_gcn3_runVMAXU32 (bin32 n maxU) :=
  conf_bin32 _ _ (by conf_start [lh_gcn3_runVMAXU32, raw_gcn3_runVMAXU32]; conf_fin [maxU_alt, maxU_alt_le])

/-- `gcn3` `runVLSHRREVB32` (aluvop2.go:356): binary 32-bit operation, on the operand domain of its encoding — the body shifts the 64-bit
    `ReadOperand` value of SRC1, which is a VGPR (zero-extended dword) in VOP2 -/
theorem gcn3_runVLSHRREVB32_conforms (n : String) : ConformsOn Src1IsVgpr lh_gcn3_runVLSHRREVB32 (bin32 n lshrrev) :=
  conf_bin32_on _ _ _ (by
    conf_start_s [lh_gcn3_runVLSHRREVB32, raw_gcn3_runVLSHRREVB32]
    intro hdom
    exact ⟨trivial, shr_rev64 _ _ hdom⟩)

/-- `gcn3` `runVASHRREVI32` (aluvop2.go:374): binary 32-bit operation -/
theorem gcn3_runVASHRREVI32_conforms (n : String) : Conforms lh_gcn3_runVASHRREVI32 (bin32 n ashrrev) :=
  conf_bin32 _ _ (by conf_start_s [lh_gcn3_runVASHRREVI32, raw_gcn3_runVASHRREVI32]; conf_fin [ashr_rev])

/-- `gcn3` `runVLSHLREVB32` (aluvop2.go:392): binary 32-bit operation -/
theorem gcn3_runVLSHLREVB32_conforms (n : String) : Conforms lh_gcn3_runVLSHLREVB32 (bin32 n lshlrev) :=
  conf_bin32 _ _ (by conf_start_s [lh_gcn3_runVLSHLREVB32, raw_gcn3_runVLSHLREVB32]; conf_fin [shl_rev])

/-- `gcn3` `runVANDB32` (aluvop2.go:410): binary 32-bit operation -/
theorem gcn3_runVANDB32_conforms (n : String) : Conforms lh_gcn3_runVANDB32 (bin32 n (· &&& ·)) :=
  conf_bin32 _ _ (by conf_start [lh_gcn3_runVANDB32, raw_gcn3_runVANDB32]; conf_fin [])

/-- `gcn3` `runVORB32` (aluvop2.go:424): binary 32-bit operation -/
theorem gcn3_runVORB32_conforms (n : String) : Conforms lh_gcn3_runVORB32 (bin32 n (· ||| ·)) :=
  conf_bin32 _ _ (by conf_start [lh_gcn3_runVORB32, raw_gcn3_runVORB32]; conf_fin [])

/-- `gcn3` `runVXORB32` (aluvop2.go:438): binary 32-bit operation -/
theorem gcn3_runVXORB32_conforms (n : String) : Conforms lh_gcn3_runVXORB32 (bin32 n (· ^^^ ·)) :=
  conf_bin32 _ _ (by conf_start [lh_gcn3_runVXORB32, raw_gcn3_runVXORB32]; conf_fin [])

/-- `gcn3` `runVADDI32` (aluvop2.go:493): binary operation with carry-out -/
theorem gcn3_runVADDI32_conforms (n : String) : Conforms lh_gcn3_runVADDI32 (co32 n addCo) :=
  conf_co32 _ _ (by conf_start [lh_gcn3_runVADDI32, raw_gcn3_runVADDI32]; conf_mask [addCo, subCo, add_carry64, add_dst64, sub_dst64, sub_borrow64, sw32_and_mask])

/-- `gcn3` `runVSUBI32` (aluvop2.go:515): binary operation with carry-out -/
theorem gcn3_runVSUBI32_conforms (n : String) : Conforms lh_gcn3_runVSUBI32 (co32 n subCo) :=
  conf_co32 _ _ (by conf_start_s [lh_gcn3_runVSUBI32, raw_gcn3_runVSUBI32]; conf_mask [addCo, subCo, add_carry64, add_dst64, sub_dst64, sub_borrow64, sw32_and_mask])

/-- `gcn3` `runVSUBREVI32` (aluvop2.go:540): binary operation with carry-out -/
theorem gcn3_runVSUBREVI32_conforms (n : String) : Conforms lh_gcn3_runVSUBREVI32 (co32 n (fun a b => subCo b a)) :=
  conf_co32 _ _ (by conf_start_s [lh_gcn3_runVSUBREVI32, raw_gcn3_runVSUBREVI32]; conf_mask [addCo, subCo, add_carry64, add_dst64, sub_dst64, sub_borrow64, sw32_and_mask])

/-- `gcn3` `runVADDCU32` (aluvop2.go:565): binary operation with carry-in and carry-out -/
theorem gcn3_runVADDCU32_conforms (n : String) : Conforms lh_gcn3_runVADDCU32 (cio32 n addcCo) :=
  conf_cio32 _ _ (by conf_start_s [lh_gcn3_runVADDCU32, raw_gcn3_runVADDCU32, maskOf]; conf_mask [addc_dst64, addc_carry64, subb_dst64, subb_borrow_lt, subb_borrow_wrap, sw32_and_mask])

/-- `gcn3` `runVSUBBU32` (aluvop2.go:594): binary operation with carry-in and carry-out -/
theorem gcn3_runVSUBBU32_conforms (n : String) : Conforms lh_gcn3_runVSUBBU32 (cio32 n subbCo) :=
  conf_cio32 _ _ (by conf_start_s [lh_gcn3_runVSUBBU32, raw_gcn3_runVSUBBU32, maskOf]; conf_mask [addc_dst64, addc_carry64, subb_dst64, subb_borrow_lt, subb_borrow_wrap, sw32_and_mask])

/-- `gcn3` `runVSUBBREVU32` (aluvop2.go:621): binary operation with carry-in and carry-out -/
theorem gcn3_runVSUBBREVU32_conforms (n : String) : Conforms lh_gcn3_runVSUBBREVU32 (cio32 n (fun a b c => subbCo b a c)) :=
  conf_cio32 _ _ (by conf_start_s [lh_gcn3_runVSUBBREVU32, raw_gcn3_runVSUBBREVU32, maskOf]; conf_mask [addc_dst64, addc_carry64, subb_dst64, subb_borrow_lt, subb_borrow_wrap, sw32_and_mask])

/-- `gcn3` `runVLSHLREVB16` (aluvop2.go:649): binary 32-bit operation -/
theorem gcn3_runVLSHLREVB16_conforms (n : String) : Conforms lh_gcn3_runVLSHLREVB16 (bin32 n lshlrev16) :=
  conf_bin32 _ _ (by conf_start_s [lh_gcn3_runVLSHLREVB16, raw_gcn3_runVLSHLREVB16]; conf_fin [shl16_rev])

/-- `gcn3` `runVCmpLtI32VOP3a` (aluvop3a.go:213): 32-bit compare writing one mask bit -/
theorem gcn3_runVCmpLtI32VOP3a_conforms (n : String) : Conforms lh_gcn3_runVCmpLtI32VOP3a (cmpOf n 32 .int (fun a b => cmpI 1 (w32 a) (w32 b))) :=
  conf_cmp32 _ _ _ (by conf_start [lh_gcn3_runVCmpLtI32VOP3a, raw_gcn3_runVCmpLtI32VOP3a]; conf_mask [cmpI_lt, cmpI_eq, cmpI_le, cmpI_gt, cmpI_ne, cmpI_ge, cmpU_f, cmpU_lt, cmpU_eq, cmpU_le, cmpU_gt, cmpU_ne, cmpU_ge, cmpU_t, ult64_zext, ule64_zext, beq64_zext, bne64_zext, sw16_and_mask])

/-- `gcn3` `runVCmpLeI32VOP3a` (aluvop3a.go:230): 32-bit compare writing one mask bit -/
theorem gcn3_runVCmpLeI32VOP3a_conforms (n : String) : Conforms lh_gcn3_runVCmpLeI32VOP3a (cmpOf n 32 .int (fun a b => cmpI 3 (w32 a) (w32 b))) :=
  conf_cmp32 _ _ _ (by conf_start [lh_gcn3_runVCmpLeI32VOP3a, raw_gcn3_runVCmpLeI32VOP3a]; conf_mask [cmpI_lt, cmpI_eq, cmpI_le, cmpI_gt, cmpI_ne, cmpI_ge, cmpU_f, cmpU_lt, cmpU_eq, cmpU_le, cmpU_gt, cmpU_ne, cmpU_ge, cmpU_t, ult64_zext, ule64_zext, beq64_zext, bne64_zext, sw16_and_mask])

/-- `gcn3` `runVCmpGtI32VOP3a` (aluvop3a.go:247): 32-bit compare writing one mask bit -/
theorem gcn3_runVCmpGtI32VOP3a_conforms (n : String) : Conforms lh_gcn3_runVCmpGtI32VOP3a (cmpOf n 32 .int (fun a b => cmpI 4 (w32 a) (w32 b))) :=
  conf_cmp32 _ _ _ (by conf_start [lh_gcn3_runVCmpGtI32VOP3a, raw_gcn3_runVCmpGtI32VOP3a]; conf_mask [cmpI_lt, cmpI_eq, cmpI_le, cmpI_gt, cmpI_ne, cmpI_ge, cmpU_f, cmpU_lt, cmpU_eq, cmpU_le, cmpU_gt, cmpU_ne, cmpU_ge, cmpU_t, ult64_zext, ule64_zext, beq64_zext, bne64_zext, sw16_and_mask])

/-- `gcn3` `runVCmpGEI32VOP3a` (aluvop3a.go:264): 32-bit compare writing one mask bit -/
theorem gcn3_runVCmpGEI32VOP3a_conforms (n : String) : Conforms lh_gcn3_runVCmpGEI32VOP3a (cmpOf n 32 .int (fun a b => cmpI 6 (w32 a) (w32 b))) :=
  conf_cmp32 _ _ _ (by conf_start [lh_gcn3_runVCmpGEI32VOP3a, raw_gcn3_runVCmpGEI32VOP3a]; conf_mask [cmpI_lt, cmpI_eq, cmpI_le, cmpI_gt, cmpI_ne, cmpI_ge, cmpU_f, cmpU_lt, cmpU_eq, cmpU_le, cmpU_gt, cmpU_ne, cmpU_ge, cmpU_t, ult64_zext, ule64_zext, beq64_zext, bne64_zext, sw16_and_mask])

/-- `gcn3` `runVCmpLtU32VOP3a` (aluvop3a.go:281): 32-bit compare writing one mask bit -/
theorem gcn3_runVCmpLtU32VOP3a_conforms (n : String) : Conforms lh_gcn3_runVCmpLtU32VOP3a (cmpOf n 32 .int (fun a b => cmpU 1 (w32 a) (w32 b))) :=
  conf_cmp32 _ _ _ (by conf_start [lh_gcn3_runVCmpLtU32VOP3a, raw_gcn3_runVCmpLtU32VOP3a]; conf_mask [cmpI_lt, cmpI_eq, cmpI_le, cmpI_gt, cmpI_ne, cmpI_ge, cmpU_f, cmpU_lt, cmpU_eq, cmpU_le, cmpU_gt, cmpU_ne, cmpU_ge, cmpU_t, ult64_zext, ule64_zext, beq64_zext, bne64_zext, sw16_and_mask])

/-- `gcn3` `runVCmpEqU32VOP3a` (aluvop3a.go:298): 32-bit compare writing one mask bit -/
theorem gcn3_runVCmpEqU32VOP3a_conforms (n : String) : Conforms lh_gcn3_runVCmpEqU32VOP3a (cmpOf n 32 .int (fun a b => cmpU 2 (w32 a) (w32 b))) :=
  conf_cmp32 _ _ _ (by conf_start [lh_gcn3_runVCmpEqU32VOP3a, raw_gcn3_runVCmpEqU32VOP3a]; conf_mask [cmpI_lt, cmpI_eq, cmpI_le, cmpI_gt, cmpI_ne, cmpI_ge, cmpU_f, cmpU_lt, cmpU_eq, cmpU_le, cmpU_gt, cmpU_ne, cmpU_ge, cmpU_t, ult64_zext, ule64_zext, beq64_zext, bne64_zext, sw16_and_mask])

/-- `gcn3` `runVCmpLeU32VOP3a` (aluvop3a.go:315): 32-bit compare writing one mask bit -/
theorem gcn3_runVCmpLeU32VOP3a_conforms (n : String) : Conforms lh_gcn3_runVCmpLeU32VOP3a (cmpOf n 32 .int (fun a b => cmpU 3 (w32 a) (w32 b))) :=
  conf_cmp32 _ _ _ (by conf_start [lh_gcn3_runVCmpLeU32VOP3a, raw_gcn3_runVCmpLeU32VOP3a]; conf_mask [cmpI_lt, cmpI_eq, cmpI_le, cmpI_gt, cmpI_ne, cmpI_ge, cmpU_f, cmpU_lt, cmpU_eq, cmpU_le, cmpU_gt, cmpU_ne, cmpU_ge, cmpU_t, ult64_zext, ule64_zext, beq64_zext, bne64_zext, sw16_and_mask])

/-- `gcn3` `runVCmpGtU32VOP3a` (aluvop3a.go:332): 32-bit compare writing one mask bit -/
theorem gcn3_runVCmpGtU32VOP3a_conforms (n : String) : Conforms lh_gcn3_runVCmpGtU32VOP3a (cmpOf n 32 .int (fun a b => cmpU 4 (w32 a) (w32 b))) :=
  conf_cmp32 _ _ _ (by conf_start [lh_gcn3_runVCmpGtU32VOP3a, raw_gcn3_runVCmpGtU32VOP3a]; conf_mask [cmpI_lt, cmpI_eq, cmpI_le, cmpI_gt, cmpI_ne, cmpI_ge, cmpU_f, cmpU_lt, cmpU_eq, cmpU_le, cmpU_gt, cmpU_ne, cmpU_ge, cmpU_t, ult64_zext, ule64_zext, beq64_zext, bne64_zext, sw16_and_mask])

/-- `gcn3` `runVCmpLgU32VOP3a` (aluvop3a.go:349): 32-bit compare writing one mask bit -/
theorem gcn3_runVCmpLgU32VOP3a_conforms (n : String) : Conforms lh_gcn3_runVCmpLgU32VOP3a (cmpOf n 32 .int (fun a b => cmpU 5 (w32 a) (w32 b))) :=
  conf_cmp32 _ _ _ (by conf_start [lh_gcn3_runVCmpLgU32VOP3a, raw_gcn3_runVCmpLgU32VOP3a]; conf_mask [cmpI_lt, cmpI_eq, cmpI_le, cmpI_gt, cmpI_ne, cmpI_ge, cmpU_f, cmpU_lt, cmpU_eq, cmpU_le, cmpU_gt, cmpU_ne, cmpU_ge, cmpU_t, ult64_zext, ule64_zext, beq64_zext, bne64_zext, sw16_and_mask])

/-- `gcn3` `runVCmpGeU32VOP3a` (aluvop3a.go:366): 32-bit compare writing one mask bit -/
theorem gcn3_runVCmpGeU32VOP3a_conforms (n : String) : Conforms lh_gcn3_runVCmpGeU32VOP3a (cmpOf n 32 .int (fun a b => cmpU 6 (w32 a) (w32 b))) :=
  conf_cmp32 _ _ _ (by conf_start [lh_gcn3_runVCmpGeU32VOP3a, raw_gcn3_runVCmpGeU32VOP3a]; conf_mask [cmpI_lt, cmpI_eq, cmpI_le, cmpI_gt, cmpI_ne, cmpI_ge, cmpU_f, cmpU_lt, cmpU_eq, cmpU_le, cmpU_gt, cmpU_ne, cmpU_ge, cmpU_t, ult64_zext, ule64_zext, beq64_zext, bne64_zext, sw16_and_mask])

/-- `gcn3` `runVCmpLtU64VOP3a` (aluvop3a.go:383): 64-bit compare writing one mask bit -/
theorem gcn3_runVCmpLtU64VOP3a_conforms (n : String) : Conforms lh_gcn3_runVCmpLtU64VOP3a (cmpOf n 64 .int (fun a b => cmpU 1 (w64 a) (w64 b))) :=
  conf_cmp64 _ _ _ (by conf_start [lh_gcn3_runVCmpLtU64VOP3a, raw_gcn3_runVCmpLtU64VOP3a]; conf_mask [cmpI_lt, cmpI_eq, cmpI_le, cmpI_gt, cmpI_ne, cmpI_ge, cmpU_f, cmpU_lt, cmpU_eq, cmpU_le, cmpU_gt, cmpU_ne, cmpU_ge, cmpU_t, ult64_zext, ule64_zext, beq64_zext, bne64_zext, sw16_and_mask])

/-- `gcn3` `runVCNDMASKB32VOP3a` (aluvop3a.go:400): select by bit `i` of the SRC2 SGPR pair -/
theorem gcn3_runVCNDMASKB32VOP3a_conforms : Conforms lh_gcn3_runVCNDMASKB32VOP3a cndmaskOp :=
  conf_plain _ rfl (by
    conf_start [lh_gcn3_runVCNDMASKB32VOP3a, raw_gcn3_runVCNDMASKB32VOP3a, specLane, laneIn, cndmaskOp, maskOf, tr_32,
      ge_iff_le, Nat.le_refl, if_true, true_and]
    split <;> rfl)

/-- `gcn3` `runVMADI32I24` (aluvop3a.go:447): ternary 32-bit operation -/
theorem gcn3_runVMADI32I24_conforms (n : String) : Conforms lh_gcn3_runVMADI32I24 (tri32 n madI24) :=
  conf_tri32 _ _ (by conf_start [lh_gcn3_runVMADI32I24, raw_gcn3_runVMADI32I24]; conf_fin [madI24, sext24_go])

/-- `gcn3` `runVMADU32U24` (aluvop3a.go:463): ternary 32-bit operation -/
theorem gcn3_runVMADU32U24_conforms (n : String) : Conforms lh_gcn3_runVMADU32U24 (tri32 n madU24) :=
  conf_tri32 _ _ (by conf_start [lh_gcn3_runVMADU32U24, raw_gcn3_runVMADU32U24]; conf_fin [madU24, zext24_mask])

/-- `gcn3` `runVBFEU32` (aluvop3a.go:478): ternary 32-bit operation -/
theorem gcn3_runVBFEU32_conforms (n : String) : Conforms lh_gcn3_runVBFEU32 (tri32 n bfeU) :=
  conf_tri32 _ _ (by conf_start [lh_gcn3_runVBFEU32, raw_gcn3_runVBFEU32]; conf_fin [bfeU_gcn3, bfeU_cdna3])

/-- `gcn3` `runVBFEI32` (aluvop3a.go:499): ternary 32-bit operation -/
theorem gcn3_runVBFEI32_conforms (n : String) : Conforms lh_gcn3_runVBFEI32 (tri32 n bfeI) :=
  conf_tri32 _ _ (by conf_start [lh_gcn3_runVBFEI32, raw_gcn3_runVBFEI32]; conf_fin [bfeI_gcn3, bfeI_cdna3])

/-- `gcn3` `runVADD3U32` (aluvop3a.go:528): ternary 32-bit operation -/
theorem gcn3_runVADD3U32_conforms (n : String) : Conforms lh_gcn3_runVADD3U32 (tri32 n add3) :=
  conf_tri32 _ _ (by conf_start [lh_gcn3_runVADD3U32, raw_gcn3_runVADD3U32]; conf_fin [add3])

/-- `gcn3` `runVLSHLADDU64` (aluvop3a.go:542): the FULL statement — conformance for every shift count -/
def gcn3_runVLSHLADDU64_full : Prop := Conforms lh_gcn3_runVLSHLADDU64 lshlAddU64Op

/-- … holds since the repair: the handler shifts by `S1[2:0]` as the ISA does -/
theorem gcn3_runVLSHLADDU64_conforms : gcn3_runVLSHLADDU64_full :=
  conf_plain _ rfl (by
    conf_start [lh_gcn3_runVLSHLADDU64, raw_gcn3_runVLSHLADDU64, specLane, laneIn, lshlAddU64Op, maskOf, tr_32, tr_64,
      ge_iff_le, Nat.le_refl, if_true, w32_lo32, w64_toNat, show (2:Nat) ≤ 3 from by decide, lshl_add64_eq, and_self])

/-- the same statement about the body before the repair (`& 0x3F`) -/
def gcn3_runVLSHLADDU64_before_fix : Prop := Conforms lh_gcn3_runVLSHLADDU64Old lshlAddU64Op

/-- … is FALSE: the handler shifted by `S1[5:0]`, the ISA by `S1[2:0]` (S0 = 1, S1 = 8, S2 = 0: code 0x100, ISA 1) -/
theorem gcn3_runVLSHLADDU64_before_fix_refuted : ¬ gcn3_runVLSHLADDU64_before_fix := by
  intro h
  have := (h C06.Uni.zero lshlAddWitness (by decide) rfl trivial).1
  revert this
  decide

/-- the body before the repair conformed for shift counts `S1[5:0] < 8` (compilers emit 0..4) -/
theorem gcn3_runVLSHLADDU64_before_fix_partial : ConformsOn ShiftBelow8 lh_gcn3_runVLSHLADDU64Old lshlAddU64Op :=
  conf_plain_on _ _ rfl (by
    conf_start [lh_gcn3_runVLSHLADDU64Old, raw_gcn3_runVLSHLADDU64Old, specLane, laneIn, lshlAddU64Op, maskOf, tr_32, tr_64,
      ge_iff_le, Nat.le_refl, if_true, w32_lo32, w64_toNat, show (2:Nat) ≤ 3 from by decide]
    intro hdom
    exact ⟨trivial, congrArg BitVec.toNat (lshl_add64_lt8 _ _ _ hdom)⟩)

/-- `gcn3` `runVMULLOU32` (aluvop3a.go:556): binary 32-bit operation -/
theorem gcn3_runVMULLOU32_conforms (n : String) : Conforms lh_gcn3_runVMULLOU32 (bin32 n mulLo) :=
  conf_bin32 _ _ (by conf_start [lh_gcn3_runVMULLOU32, raw_gcn3_runVMULLOU32]; conf_fin [mulLo, sw32_mul])

/-- `gcn3` `runVMULHIU32` (aluvop3a.go:569): binary 32-bit operation -/
theorem gcn3_runVMULHIU32_conforms (n : String) : Conforms lh_gcn3_runVMULHIU32 (bin32 n mulHiU) :=
  conf_bin32 _ _ (by conf_start [lh_gcn3_runVMULHIU32, raw_gcn3_runVMULHIU32]; conf_fin [mulhi64])

/-- `gcn3` `runVLSHLREVB64` (aluvop3a.go:582): 64-bit shift, count `S0[5:0]` -/
theorem gcn3_runVLSHLREVB64_conforms : Conforms lh_gcn3_runVLSHLREVB64 lshlrevB64Op :=
  conf_plain _ rfl (by
    conf_start [lh_gcn3_runVLSHLREVB64, raw_gcn3_runVLSHLREVB64, specLane, laneIn, lshlrevB64Op, maskOf, tr_32, tr_64,
      ge_iff_le, Nat.le_refl, if_true, w32_lo32, w64_toNat, shl_rev64, and_self])

/-- `gcn3` `runVASHRREVI64` (aluvop3a.go:595): 64-bit shift, count `S0[5:0]` -/
theorem gcn3_runVASHRREVI64_conforms : Conforms lh_gcn3_runVASHRREVI64 ashrrevI64Op :=
  conf_plain _ rfl (by
    conf_start [lh_gcn3_runVASHRREVI64, raw_gcn3_runVASHRREVI64, specLane, laneIn, ashrrevI64Op, maskOf, tr_32, tr_64,
      ge_iff_le, Nat.le_refl, if_true, w32_lo32, w64_toNat, ashr_rev64, and_self])

/-- `gcn3` `runVMIN3I32` (aluvop3a.go:661): ternary 32-bit operation -/
theorem gcn3_runVMIN3I32_conforms (n : String) : Conforms lh_gcn3_runVMIN3I32 (tri32 n min3I) :=
  conf_tri32 _ _ (by conf_start_s [lh_gcn3_runVMIN3I32, raw_gcn3_runVMIN3I32]; conf_fin [min3I_alt])

/-- `gcn3` `runVMIN3U32` (aluvop3a.go:685): ternary 32-bit operation -/
theorem gcn3_runVMIN3U32_conforms (n : String) : Conforms lh_gcn3_runVMIN3U32 (tri32 n min3U) :=
  conf_tri32 _ _ (by conf_start_s [lh_gcn3_runVMIN3U32, raw_gcn3_runVMIN3U32]; conf_fin [min3U_alt])

/-- `gcn3` `runVMAX3I32` (aluvop3a.go:727): ternary 32-bit operation -/
theorem gcn3_runVMAX3I32_conforms (n : String) : Conforms lh_gcn3_runVMAX3I32 (tri32 n max3I) :=
  conf_tri32 _ _ (by conf_start_s [lh_gcn3_runVMAX3I32, raw_gcn3_runVMAX3I32]; conf_fin [max3I_alt])

/-- `gcn3` `runVMAX3U32` (aluvop3a.go:751): ternary 32-bit operation -/
theorem gcn3_runVMAX3U32_conforms (n : String) : Conforms lh_gcn3_runVMAX3U32 (tri32 n max3U) :=
  conf_tri32 _ _ (by conf_start_s [lh_gcn3_runVMAX3U32, raw_gcn3_runVMAX3U32]; conf_fin [max3U_alt])

/-- `gcn3` `runVMED3U32` (aluvop3a.go:814): ternary 32-bit operation -/
theorem gcn3_runVMED3U32_conforms (n : String) : Conforms lh_gcn3_runVMED3U32 (tri32 n med3U) :=
  conf_tri32 _ _ (by conf_start_s [lh_gcn3_runVMED3U32, raw_gcn3_runVMED3U32]; conf_fin [fn_gcn3_median3Uint32, fn_cdna3_median3Uint32, med3U_clamp])

/-- `gcn3` `runVADDU32VOP3b` (aluvop3b.go:37): binary operation with carry-out -/
theorem gcn3_runVADDU32VOP3b_conforms (n : String) : Conforms lh_gcn3_runVADDU32VOP3b (co32 n addCo) :=
  conf_co32 _ _ (by conf_start [lh_gcn3_runVADDU32VOP3b, raw_gcn3_runVADDU32VOP3b]; conf_mask [addCo, subCo, add_carry64, add_dst64, sub_dst64, sub_borrow64, sw32_and_mask])

/-- `gcn3` `runVSUBU32VOP3b` (aluvop3b.go:56): binary operation with carry-out -/
theorem gcn3_runVSUBU32VOP3b_conforms (n : String) : Conforms lh_gcn3_runVSUBU32VOP3b (co32 n subCo) :=
  conf_co32 _ _ (by conf_start [lh_gcn3_runVSUBU32VOP3b, raw_gcn3_runVSUBU32VOP3b]; conf_mask [addCo, subCo, add_carry64, add_dst64, sub_dst64, sub_borrow64, sw32_and_mask])

/-- `gcn3` `runVSUBREVU32VOP3b` (aluvop3b.go:75): binary operation with carry-out -/
theorem gcn3_runVSUBREVU32VOP3b_conforms (n : String) : Conforms lh_gcn3_runVSUBREVU32VOP3b (co32 n (fun a b => subCo b a)) :=
  conf_co32 _ _ (by conf_start [lh_gcn3_runVSUBREVU32VOP3b, raw_gcn3_runVSUBREVU32VOP3b]; conf_mask [addCo, subCo, add_carry64, add_dst64, sub_dst64, sub_borrow64, sw32_and_mask])

/-- `gcn3` `runVADDCU32VOP3b` (aluvop3b.go:94): binary operation with carry-in and carry-out -/
theorem gcn3_runVADDCU32VOP3b_conforms (n : String) : Conforms lh_gcn3_runVADDCU32VOP3b (cio32 n addcCo) :=
  conf_cio32 _ _ (by conf_start [lh_gcn3_runVADDCU32VOP3b, raw_gcn3_runVADDCU32VOP3b, maskOf]; conf_mask [addc_dst64, addc_carry64, subb_dst64, subb_borrow_lt, subb_borrow_wrap, sw32_and_mask])

/-- `gcn3` `runVSUBBU32VOP3b` (aluvop3b.go:116): binary operation with carry-in and carry-out -/
theorem gcn3_runVSUBBU32VOP3b_conforms (n : String) : Conforms lh_gcn3_runVSUBBU32VOP3b (cio32 n subbCo) :=
  conf_cio32 _ _ (by conf_start [lh_gcn3_runVSUBBU32VOP3b, raw_gcn3_runVSUBBU32VOP3b, maskOf]; conf_mask [addc_dst64, addc_carry64, subb_dst64, subb_borrow_lt, subb_borrow_wrap, sw32_and_mask])

/-- `gcn3` `runVSUBBREVU32VOP3b` (aluvop3b.go:138): binary operation with carry-in and carry-out -/
theorem gcn3_runVSUBBREVU32VOP3b_conforms (n : String) : Conforms lh_gcn3_runVSUBBREVU32VOP3b (cio32 n (fun a b c => subbCo b a c)) :=
  conf_cio32 _ _ (by conf_start [lh_gcn3_runVSUBBREVU32VOP3b, raw_gcn3_runVSUBBREVU32VOP3b, maskOf]; conf_mask [addc_dst64, addc_carry64, subb_dst64, subb_borrow_lt, subb_borrow_wrap, sw32_and_mask])

/-- `gcn3` `runVMADU64U32` (aluvop3b.go:233): 32×32+64 multiply-add, carry-out of the 64-bit add to the SDST mask -/
theorem gcn3_runVMADU64U32_conforms : Conforms lh_gcn3_runVMADU64U32 madU64U32Op :=
  conf_carry _ rfl (by
    conf_start [lh_gcn3_runVMADU64U32, raw_gcn3_runVMADU64U32, specLane, laneIn, madU64U32Op, maskOf, tr_32, tr_64,
      ge_iff_le, Nat.le_refl, if_true, w32_lo32, w64_toNat, show (2:Nat) ≤ 3 from by decide]
    conf_mask [mad64_carry, madU64U32])

/-- `gcn3` `runVCmpLtI32` (aluvopc.go:283): 32-bit compare writing one mask bit -/
theorem gcn3_runVCmpLtI32_conforms (n : String) : Conforms lh_gcn3_runVCmpLtI32 (cmpOf n 32 .int (fun a b => cmpI 1 (w32 a) (w32 b))) :=
  conf_cmp32 _ _ _ (by conf_start [lh_gcn3_runVCmpLtI32, raw_gcn3_runVCmpLtI32]; conf_mask [cmpI_lt, cmpI_eq, cmpI_le, cmpI_gt, cmpI_ne, cmpI_ge, cmpU_f, cmpU_lt, cmpU_eq, cmpU_le, cmpU_gt, cmpU_ne, cmpU_ge, cmpU_t, ult64_zext, ule64_zext, beq64_zext, bne64_zext, sw16_and_mask])

/-- `gcn3` `runVCmpLeI32` (aluvopc.go:301): 32-bit compare writing one mask bit -/
theorem gcn3_runVCmpLeI32_conforms (n : String) : Conforms lh_gcn3_runVCmpLeI32 (cmpOf n 32 .int (fun a b => cmpI 3 (w32 a) (w32 b))) :=
  conf_cmp32 _ _ _ (by conf_start [lh_gcn3_runVCmpLeI32, raw_gcn3_runVCmpLeI32]; conf_mask [cmpI_lt, cmpI_eq, cmpI_le, cmpI_gt, cmpI_ne, cmpI_ge, cmpU_f, cmpU_lt, cmpU_eq, cmpU_le, cmpU_gt, cmpU_ne, cmpU_ge, cmpU_t, ult64_zext, ule64_zext, beq64_zext, bne64_zext, sw16_and_mask])

/-- `gcn3` `runVCmpGtI32` (aluvopc.go:319): 32-bit compare writing one mask bit -/
theorem gcn3_runVCmpGtI32_conforms (n : String) : Conforms lh_gcn3_runVCmpGtI32 (cmpOf n 32 .int (fun a b => cmpI 4 (w32 a) (w32 b))) :=
  conf_cmp32 _ _ _ (by conf_start [lh_gcn3_runVCmpGtI32, raw_gcn3_runVCmpGtI32]; conf_mask [cmpI_lt, cmpI_eq, cmpI_le, cmpI_gt, cmpI_ne, cmpI_ge, cmpU_f, cmpU_lt, cmpU_eq, cmpU_le, cmpU_gt, cmpU_ne, cmpU_ge, cmpU_t, ult64_zext, ule64_zext, beq64_zext, bne64_zext, sw16_and_mask])

/-- `gcn3` `runVCmpLgI32` (aluvopc.go:337): 32-bit compare writing one mask bit -/
theorem gcn3_runVCmpLgI32_conforms (n : String) : Conforms lh_gcn3_runVCmpLgI32 (cmpOf n 32 .int (fun a b => cmpI 5 (w32 a) (w32 b))) :=
  conf_cmp32 _ _ _ (by conf_start [lh_gcn3_runVCmpLgI32, raw_gcn3_runVCmpLgI32]; conf_mask [cmpI_lt, cmpI_eq, cmpI_le, cmpI_gt, cmpI_ne, cmpI_ge, cmpU_f, cmpU_lt, cmpU_eq, cmpU_le, cmpU_gt, cmpU_ne, cmpU_ge, cmpU_t, ult64_zext, ule64_zext, beq64_zext, bne64_zext, sw16_and_mask])

/-- `gcn3` `runVCmpGeI32` (aluvopc.go:355): 32-bit compare writing one mask bit -/
theorem gcn3_runVCmpGeI32_conforms (n : String) : Conforms lh_gcn3_runVCmpGeI32 (cmpOf n 32 .int (fun a b => cmpI 6 (w32 a) (w32 b))) :=
  conf_cmp32 _ _ _ (by conf_start [lh_gcn3_runVCmpGeI32, raw_gcn3_runVCmpGeI32]; conf_mask [cmpI_lt, cmpI_eq, cmpI_le, cmpI_gt, cmpI_ne, cmpI_ge, cmpU_f, cmpU_lt, cmpU_eq, cmpU_le, cmpU_gt, cmpU_ne, cmpU_ge, cmpU_t, ult64_zext, ule64_zext, beq64_zext, bne64_zext, sw16_and_mask])

/-- `gcn3` `runVCmpLtU32` (aluvopc.go:373): 32-bit compare writing one mask bit -/
theorem gcn3_runVCmpLtU32_conforms (n : String) : Conforms lh_gcn3_runVCmpLtU32 (cmpOf n 32 .int (fun a b => cmpU 1 (w32 a) (w32 b))) :=
  conf_cmp32 _ _ _ (by conf_start [lh_gcn3_runVCmpLtU32, raw_gcn3_runVCmpLtU32]; conf_mask [cmpI_lt, cmpI_eq, cmpI_le, cmpI_gt, cmpI_ne, cmpI_ge, cmpU_f, cmpU_lt, cmpU_eq, cmpU_le, cmpU_gt, cmpU_ne, cmpU_ge, cmpU_t, ult64_zext, ule64_zext, beq64_zext, bne64_zext, sw16_and_mask])

/-- `gcn3` `runVCmpEqU32` (aluvopc.go:391): 32-bit compare writing one mask bit -/
theorem gcn3_runVCmpEqU32_conforms (n : String) : Conforms lh_gcn3_runVCmpEqU32 (cmpOf n 32 .int (fun a b => cmpU 2 (w32 a) (w32 b))) :=
  conf_cmp32 _ _ _ (by conf_start [lh_gcn3_runVCmpEqU32, raw_gcn3_runVCmpEqU32]; conf_mask [cmpI_lt, cmpI_eq, cmpI_le, cmpI_gt, cmpI_ne, cmpI_ge, cmpU_f, cmpU_lt, cmpU_eq, cmpU_le, cmpU_gt, cmpU_ne, cmpU_ge, cmpU_t, ult64_zext, ule64_zext, beq64_zext, bne64_zext, sw16_and_mask])

/-- `gcn3` `runVCmpLeU32` (aluvopc.go:407): 32-bit compare writing one mask bit -/
theorem gcn3_runVCmpLeU32_conforms (n : String) : Conforms lh_gcn3_runVCmpLeU32 (cmpOf n 32 .int (fun a b => cmpU 3 (w32 a) (w32 b))) :=
  conf_cmp32 _ _ _ (by conf_start [lh_gcn3_runVCmpLeU32, raw_gcn3_runVCmpLeU32]; conf_mask [cmpI_lt, cmpI_eq, cmpI_le, cmpI_gt, cmpI_ne, cmpI_ge, cmpU_f, cmpU_lt, cmpU_eq, cmpU_le, cmpU_gt, cmpU_ne, cmpU_ge, cmpU_t, ult64_zext, ule64_zext, beq64_zext, bne64_zext, sw16_and_mask])

/-- `gcn3` `runVCmpGtU32` (aluvopc.go:424): 32-bit compare writing one mask bit -/
theorem gcn3_runVCmpGtU32_conforms (n : String) : Conforms lh_gcn3_runVCmpGtU32 (cmpOf n 32 .int (fun a b => cmpU 4 (w32 a) (w32 b))) :=
  conf_cmp32 _ _ _ (by conf_start [lh_gcn3_runVCmpGtU32, raw_gcn3_runVCmpGtU32]; conf_mask [cmpI_lt, cmpI_eq, cmpI_le, cmpI_gt, cmpI_ne, cmpI_ge, cmpU_f, cmpU_lt, cmpU_eq, cmpU_le, cmpU_gt, cmpU_ne, cmpU_ge, cmpU_t, ult64_zext, ule64_zext, beq64_zext, bne64_zext, sw16_and_mask])

/-- `gcn3` `runVCmpNeU32` (aluvopc.go:441): 32-bit compare writing one mask bit -/
theorem gcn3_runVCmpNeU32_conforms (n : String) : Conforms lh_gcn3_runVCmpNeU32 (cmpOf n 32 .int (fun a b => cmpU 5 (w32 a) (w32 b))) :=
  conf_cmp32 _ _ _ (by conf_start [lh_gcn3_runVCmpNeU32, raw_gcn3_runVCmpNeU32]; conf_mask [cmpI_lt, cmpI_eq, cmpI_le, cmpI_gt, cmpI_ne, cmpI_ge, cmpU_f, cmpU_lt, cmpU_eq, cmpU_le, cmpU_gt, cmpU_ne, cmpU_ge, cmpU_t, ult64_zext, ule64_zext, beq64_zext, bne64_zext, sw16_and_mask])

/-- `gcn3` `runVCmpGeU32` (aluvopc.go:458): 32-bit compare writing one mask bit -/
theorem gcn3_runVCmpGeU32_conforms (n : String) : Conforms lh_gcn3_runVCmpGeU32 (cmpOf n 32 .int (fun a b => cmpU 6 (w32 a) (w32 b))) :=
  conf_cmp32 _ _ _ (by conf_start [lh_gcn3_runVCmpGeU32, raw_gcn3_runVCmpGeU32]; conf_mask [cmpI_lt, cmpI_eq, cmpI_le, cmpI_gt, cmpI_ne, cmpI_ge, cmpU_f, cmpU_lt, cmpU_eq, cmpU_le, cmpU_gt, cmpU_ne, cmpU_ge, cmpU_t, ult64_zext, ule64_zext, beq64_zext, bne64_zext, sw16_and_mask])

/-- `gcn3` `runVCmpFU64` (aluvopc.go:475): 64-bit compare writing one mask bit -/
theorem gcn3_runVCmpFU64_conforms (n : String) : Conforms lh_gcn3_runVCmpFU64 (cmpOf n 64 .int (fun a b => cmpU 0 (w64 a) (w64 b))) :=
  conf_cmp64 _ _ _ (by conf_start [lh_gcn3_runVCmpFU64, raw_gcn3_runVCmpFU64]; conf_mask [cmpI_lt, cmpI_eq, cmpI_le, cmpI_gt, cmpI_ne, cmpI_ge, cmpU_f, cmpU_lt, cmpU_eq, cmpU_le, cmpU_gt, cmpU_ne, cmpU_ge, cmpU_t, ult64_zext, ule64_zext, beq64_zext, bne64_zext, sw16_and_mask])

/-- `gcn3` `runVCmpLtU64` (aluvopc.go:488): 64-bit compare writing one mask bit -/
theorem gcn3_runVCmpLtU64_conforms (n : String) : Conforms lh_gcn3_runVCmpLtU64 (cmpOf n 64 .int (fun a b => cmpU 1 (w64 a) (w64 b))) :=
  conf_cmp64 _ _ _ (by conf_start [lh_gcn3_runVCmpLtU64, raw_gcn3_runVCmpLtU64]; conf_mask [cmpI_lt, cmpI_eq, cmpI_le, cmpI_gt, cmpI_ne, cmpI_ge, cmpU_f, cmpU_lt, cmpU_eq, cmpU_le, cmpU_gt, cmpU_ne, cmpU_ge, cmpU_t, ult64_zext, ule64_zext, beq64_zext, bne64_zext, sw16_and_mask])

/-- `gcn3` `runVCmpEqU64` (aluvopc.go:505): 64-bit compare writing one mask bit -/
theorem gcn3_runVCmpEqU64_conforms (n : String) : Conforms lh_gcn3_runVCmpEqU64 (cmpOf n 64 .int (fun a b => cmpU 2 (w64 a) (w64 b))) :=
  conf_cmp64 _ _ _ (by conf_start [lh_gcn3_runVCmpEqU64, raw_gcn3_runVCmpEqU64]; conf_mask [cmpI_lt, cmpI_eq, cmpI_le, cmpI_gt, cmpI_ne, cmpI_ge, cmpU_f, cmpU_lt, cmpU_eq, cmpU_le, cmpU_gt, cmpU_ne, cmpU_ge, cmpU_t, ult64_zext, ule64_zext, beq64_zext, bne64_zext, sw16_and_mask])

/-- `gcn3` `runVCmpLeU64` (aluvopc.go:522): 64-bit compare writing one mask bit -/
theorem gcn3_runVCmpLeU64_conforms (n : String) : Conforms lh_gcn3_runVCmpLeU64 (cmpOf n 64 .int (fun a b => cmpU 3 (w64 a) (w64 b))) :=
  conf_cmp64 _ _ _ (by conf_start [lh_gcn3_runVCmpLeU64, raw_gcn3_runVCmpLeU64]; conf_mask [cmpI_lt, cmpI_eq, cmpI_le, cmpI_gt, cmpI_ne, cmpI_ge, cmpU_f, cmpU_lt, cmpU_eq, cmpU_le, cmpU_gt, cmpU_ne, cmpU_ge, cmpU_t, ult64_zext, ule64_zext, beq64_zext, bne64_zext, sw16_and_mask])

/-- `gcn3` `runVCmpGtU64` (aluvopc.go:539): 64-bit compare writing one mask bit -/
theorem gcn3_runVCmpGtU64_conforms (n : String) : Conforms lh_gcn3_runVCmpGtU64 (cmpOf n 64 .int (fun a b => cmpU 4 (w64 a) (w64 b))) :=
  conf_cmp64 _ _ _ (by conf_start [lh_gcn3_runVCmpGtU64, raw_gcn3_runVCmpGtU64]; conf_mask [cmpI_lt, cmpI_eq, cmpI_le, cmpI_gt, cmpI_ne, cmpI_ge, cmpU_f, cmpU_lt, cmpU_eq, cmpU_le, cmpU_gt, cmpU_ne, cmpU_ge, cmpU_t, ult64_zext, ule64_zext, beq64_zext, bne64_zext, sw16_and_mask])

/-- `gcn3` `runVCmpLgU64` (aluvopc.go:556): 64-bit compare writing one mask bit -/
theorem gcn3_runVCmpLgU64_conforms (n : String) : Conforms lh_gcn3_runVCmpLgU64 (cmpOf n 64 .int (fun a b => cmpU 5 (w64 a) (w64 b))) :=
  conf_cmp64 _ _ _ (by conf_start [lh_gcn3_runVCmpLgU64, raw_gcn3_runVCmpLgU64]; conf_mask [cmpI_lt, cmpI_eq, cmpI_le, cmpI_gt, cmpI_ne, cmpI_ge, cmpU_f, cmpU_lt, cmpU_eq, cmpU_le, cmpU_gt, cmpU_ne, cmpU_ge, cmpU_t, ult64_zext, ule64_zext, beq64_zext, bne64_zext, sw16_and_mask])

/-- `gcn3` `runVCmpGeU64` (aluvopc.go:573): 64-bit compare writing one mask bit -/
theorem gcn3_runVCmpGeU64_conforms (n : String) : Conforms lh_gcn3_runVCmpGeU64 (cmpOf n 64 .int (fun a b => cmpU 6 (w64 a) (w64 b))) :=
  conf_cmp64 _ _ _ (by conf_start [lh_gcn3_runVCmpGeU64, raw_gcn3_runVCmpGeU64]; conf_mask [cmpI_lt, cmpI_eq, cmpI_le, cmpI_gt, cmpI_ne, cmpI_ge, cmpU_f, cmpU_lt, cmpU_eq, cmpU_le, cmpU_gt, cmpU_ne, cmpU_ge, cmpU_t, ult64_zext, ule64_zext, beq64_zext, bne64_zext, sw16_and_mask])

/-- `gcn3` `runVCmpTruU64` (aluvopc.go:590): 64-bit compare writing one mask bit -/
theorem gcn3_runVCmpTruU64_conforms (n : String) : Conforms lh_gcn3_runVCmpTruU64 (cmpOf n 64 .int (fun a b => cmpU 7 (w64 a) (w64 b))) :=
  conf_cmp64 _ _ _ (by conf_start [lh_gcn3_runVCmpTruU64, raw_gcn3_runVCmpTruU64]; conf_mask [cmpI_lt, cmpI_eq, cmpI_le, cmpI_gt, cmpI_ne, cmpI_ge, cmpU_f, cmpU_lt, cmpU_eq, cmpU_le, cmpU_gt, cmpU_ne, cmpU_ge, cmpU_t, ult64_zext, ule64_zext, beq64_zext, bne64_zext, sw16_and_mask])

/-- `cdna3` `runVMOVB32` (cdna3/vop1.go:69): unary 32-bit operation -/
theorem cdna3_runVMOVB32_conforms (n : String) : Conforms lh_cdna3_runVMOVB32 (un32 n id) :=
  conf_un32 _ _ (by conf_start [lh_cdna3_runVMOVB32, raw_cdna3_runVMOVB32]; conf_fin [])

/-- `cdna3` `runVNOTB32` (cdna3/vop1.go:347): unary 32-bit operation -/
theorem cdna3_runVNOTB32_conforms (n : String) : Conforms lh_cdna3_runVNOTB32 (un32 n (~~~ ·)) :=
  conf_un32 _ _ (by conf_start [lh_cdna3_runVNOTB32, raw_cdna3_runVNOTB32]; conf_fin [sw32_not])

/-- `cdna3` `runVMOVB64` (cdna3/vop1.go:402): 64-bit move -/
theorem cdna3_runVMOVB64_conforms : Conforms lh_cdna3_runVMOVB64 movB64Op :=
  conf_plain _ rfl (by
    conf_start [lh_cdna3_runVMOVB64, raw_cdna3_runVMOVB64, specLane, laneIn, movB64Op, cvtOp, maskOf, tr_32, tr_64, id, and_self])

/-- `cdna3` `runVCNDMASKB32` (cdna3/vop2.go:92): select by bit `i` of VCC -/
theorem cdna3_runVCNDMASKB32_conforms : Conforms lh_cdna3_runVCNDMASKB32 cndmaskOp :=
  conf_plain _ rfl (by
    conf_start [lh_cdna3_runVCNDMASKB32, raw_cdna3_runVCNDMASKB32, specLane, laneIn, cndmaskOp, maskOf, tr_32,
      ge_iff_le, Nat.le_refl, if_true, true_and]
    split <;> rfl)

/-- `cdna3` `runVMULI32I24` (cdna3/vop2.go:164): binary 32-bit operation -/
theorem cdna3_runVMULI32I24_conforms (n : String) : Conforms lh_cdna3_runVMULI32I24 (bin32 n mulI24) :=
  conf_bin32 _ _ (by
    conf_start [lh_cdna3_runVMULI32I24, raw_cdna3_runVMULI32I24]
    refine ⟨trivial, ?_⟩
    rw [mulI24, ← sext24_or, ← sext24_or]
    split <;> split <;> rfl)

/-- `cdna3` `runVMULU32U24` (cdna3/vop2.go:184): binary 32-bit operation -/
theorem cdna3_runVMULU32U24_conforms (n : String) : Conforms lh_cdna3_runVMULU32U24 (bin32 n mulU24) :=
  conf_bin32 _ _ (by conf_start [lh_cdna3_runVMULU32U24, raw_cdna3_runVMULU32U24]; conf_fin [mulU24, zext24_shifts, zext24_mask])

/-- `cdna3` `runVMINI32` (cdna3/vop2.go:225): binary 32-bit operation -/
theorem cdna3_runVMINI32_conforms (n : String) : Conforms lh_cdna3_runVMINI32 (bin32 n minI) :=
  conf_bin32 _ _ (by conf_start [lh_cdna3_runVMINI32, raw_cdna3_runVMINI32]; conf_fin [minI])

/-- `cdna3` `runVMAXI32` (cdna3/vop2.go:242): binary 32-bit operation -/
theorem cdna3_runVMAXI32_conforms (n : String) : Conforms lh_cdna3_runVMAXI32 (bin32 n maxI) :=
  conf_bin32 _ _ (by conf_start [lh_cdna3_runVMAXI32, raw_cdna3_runVMAXI32]; conf_fin [maxI_alt])

/-- `cdna3` `runVMINU32` (cdna3/vop2.go:259): binary 32-bit operation -/
theorem cdna3_runVMINU32_conforms (n : String) : Conforms lh_cdna3_runVMINU32 (bin32 n minU) :=
  conf_bin32 _ _ (by conf_start [lh_cdna3_runVMINU32, raw_cdna3_runVMINU32]; conf_fin [minU])

/-- `cdna3` `runVMAXU32` (cdna3/vop2.go:276): binary 32-bit operation -/
theorem cdna3_runVMAXU32_conforms (n : String) : Conforms lh_cdna3_runVMAXU32 (bin32 n maxU) :=
  conf_bin32 _ _ (by conf_start [lh_cdna3_runVMAXU32, raw_cdna3_runVMAXU32]; conf_fin [maxU_alt, maxU_alt_le])

/-- `cdna3` `runVLSHRREVB32` (cdna3/vop2.go:293): binary 32-bit operation -/
theorem cdna3_runVLSHRREVB32_conforms (n : String) : Conforms lh_cdna3_runVLSHRREVB32 (bin32 n lshrrev) :=
  conf_bin32 _ _ (by conf_start [lh_cdna3_runVLSHRREVB32, raw_cdna3_runVLSHRREVB32]; conf_fin [shr_rev])

/-- `cdna3` `runVASHRREVI32` (cdna3/vop2.go:306): binary 32-bit operation -/
theorem cdna3_runVASHRREVI32_conforms (n : String) : Conforms lh_cdna3_runVASHRREVI32 (bin32 n ashrrev) :=
  conf_bin32 _ _ (by conf_start [lh_cdna3_runVASHRREVI32, raw_cdna3_runVASHRREVI32]; conf_fin [ashr_rev])

/-- `cdna3` `runVLSHLREVB32` (cdna3/vop2.go:319): binary 32-bit operation -/
theorem cdna3_runVLSHLREVB32_conforms (n : String) : Conforms lh_cdna3_runVLSHLREVB32 (bin32 n lshlrev) :=
  conf_bin32 _ _ (by conf_start [lh_cdna3_runVLSHLREVB32, raw_cdna3_runVLSHLREVB32]; conf_fin [shl_rev])

/-- `cdna3` `runVANDB32` (cdna3/vop2.go:332): binary 32-bit operation -/
theorem cdna3_runVANDB32_conforms (n : String) : Conforms lh_cdna3_runVANDB32 (bin32 n (· &&& ·)) :=
  conf_bin32 _ _ (by conf_start [lh_cdna3_runVANDB32, raw_cdna3_runVANDB32]; conf_fin [])

/-- `cdna3` `runVORB32` (cdna3/vop2.go:344): binary 32-bit operation -/
theorem cdna3_runVORB32_conforms (n : String) : Conforms lh_cdna3_runVORB32 (bin32 n (· ||| ·)) :=
  conf_bin32 _ _ (by conf_start [lh_cdna3_runVORB32, raw_cdna3_runVORB32]; conf_fin [])

/-- `cdna3` `runVXORB32` (cdna3/vop2.go:356): binary 32-bit operation -/
theorem cdna3_runVXORB32_conforms (n : String) : Conforms lh_cdna3_runVXORB32 (bin32 n (· ^^^ ·)) :=
  conf_bin32 _ _ (by conf_start [lh_cdna3_runVXORB32, raw_cdna3_runVXORB32]; conf_fin [])

/-- `cdna3` `runVADDI32` (cdna3/vop2.go:417): binary operation with carry-out -/
theorem cdna3_runVADDI32_conforms (n : String) : Conforms lh_cdna3_runVADDI32 (co32 n addCo) :=
  conf_co32 _ _ (by conf_start [lh_cdna3_runVADDI32, raw_cdna3_runVADDI32]; conf_mask [addCo, subCo, add_carry64, add_dst64, sub_dst64, sub_borrow64, sw32_and_mask])

/-- `cdna3` `runVSUBI32` (cdna3/vop2.go:436): binary operation with carry-out -/
theorem cdna3_runVSUBI32_conforms (n : String) : Conforms lh_cdna3_runVSUBI32 (co32 n subCo) :=
  conf_co32 _ _ (by conf_start [lh_cdna3_runVSUBI32, raw_cdna3_runVSUBI32]; conf_mask [addCo, subCo, add_carry64, add_dst64, sub_dst64, sub_borrow64, sw32_and_mask])

/-- `cdna3` `runVSUBREVI32` (cdna3/vop2.go:455): binary operation with carry-out -/
theorem cdna3_runVSUBREVI32_conforms (n : String) : Conforms lh_cdna3_runVSUBREVI32 (co32 n (fun a b => subCo b a)) :=
  conf_co32 _ _ (by conf_start [lh_cdna3_runVSUBREVI32, raw_cdna3_runVSUBREVI32]; conf_mask [addCo, subCo, add_carry64, add_dst64, sub_dst64, sub_borrow64, sw32_and_mask])

/-- `cdna3` `runVADDCU32` (cdna3/vop2.go:474): binary operation with carry-in and carry-out -/
theorem cdna3_runVADDCU32_conforms (n : String) : Conforms lh_cdna3_runVADDCU32 (cio32 n addcCo) :=
  conf_cio32 _ _ (by conf_start [lh_cdna3_runVADDCU32, raw_cdna3_runVADDCU32, maskOf]; conf_mask [addc_dst64, addc_carry64, subb_dst64, subb_borrow_lt, subb_borrow_wrap, sw32_and_mask])

/-- `cdna3` `runVSUBBU32` (cdna3/vop2.go:495): binary operation with carry-in and carry-out -/
theorem cdna3_runVSUBBU32_conforms (n : String) : Conforms lh_cdna3_runVSUBBU32 (cio32 n subbCo) :=
  conf_cio32 _ _ (by conf_start [lh_cdna3_runVSUBBU32, raw_cdna3_runVSUBBU32, maskOf]; conf_mask [addc_dst64, addc_carry64, subb_dst64, subb_borrow_lt, subb_borrow_wrap, sw32_and_mask])

/-- `cdna3` `runVSUBBREVU32` (cdna3/vop2.go:516): binary operation with carry-in and carry-out -/
theorem cdna3_runVSUBBREVU32_conforms (n : String) : Conforms lh_cdna3_runVSUBBREVU32 (cio32 n (fun a b c => subbCo b a c)) :=
  conf_cio32 _ _ (by conf_start [lh_cdna3_runVSUBBREVU32, raw_cdna3_runVSUBBREVU32, maskOf]; conf_mask [addc_dst64, addc_carry64, subb_dst64, subb_borrow_lt, subb_borrow_wrap, sw32_and_mask])

/-- `cdna3` `runVADDU16` (cdna3/vop2.go:538): binary 32-bit operation -/
theorem cdna3_runVADDU16_conforms (n : String) : Conforms lh_cdna3_runVADDU16 (bin32 n addU16) :=
  conf_bin32 _ _ (by conf_start [lh_cdna3_runVADDU16, raw_cdna3_runVADDU16]; conf_fin [add16])

/-- `cdna3` `runVLSHLREVB16` (cdna3/vop2.go:551): binary 32-bit operation -/
theorem cdna3_runVLSHLREVB16_conforms (n : String) : Conforms lh_cdna3_runVLSHLREVB16 (bin32 n lshlrev16) :=
  conf_bin32 _ _ (by conf_start [lh_cdna3_runVLSHLREVB16, raw_cdna3_runVLSHLREVB16]; conf_fin [shl16_rev])

/-- `cdna3` `runVSUBU32` (cdna3/vop2.go:565): binary 32-bit operation -/
theorem cdna3_runVSUBU32_conforms (n : String) : Conforms lh_cdna3_runVSUBU32 (bin32 n (· - ·)) :=
  conf_bin32 _ _ (by conf_start [lh_cdna3_runVSUBU32, raw_cdna3_runVSUBU32]; conf_fin [])

/-- `cdna3` `runVSUBREVU32` (cdna3/vop2.go:579): binary 32-bit operation -/
theorem cdna3_runVSUBREVU32_conforms (n : String) : Conforms lh_cdna3_runVSUBREVU32 (bin32 n (fun a b => b - a)) :=
  conf_bin32 _ _ (by conf_start [lh_cdna3_runVSUBREVU32, raw_cdna3_runVSUBREVU32]; conf_fin [])

/-- `cdna3` `runVADDU32` (cdna3/vop2.go:609): binary 32-bit operation -/
theorem cdna3_runVADDU32_conforms (n : String) : Conforms lh_cdna3_runVADDU32 (bin32 n (· + ·)) :=
  conf_bin32 _ _ (by conf_start [lh_cdna3_runVADDU32, raw_cdna3_runVADDU32]; conf_fin [])

/-- `cdna3` `runVBFEU32` (cdna3/vop3a.go:177): ternary 32-bit operation -/
theorem cdna3_runVBFEU32_conforms (n : String) : Conforms lh_cdna3_runVBFEU32 (tri32 n bfeU) :=
  conf_tri32 _ _ (by conf_start [lh_cdna3_runVBFEU32, raw_cdna3_runVBFEU32]; conf_fin [bfeU_gcn3, bfeU_cdna3])

/-- `cdna3` `runVBFEI32` (cdna3/vop3a.go:202): ternary 32-bit operation -/
theorem cdna3_runVBFEI32_conforms (n : String) : Conforms lh_cdna3_runVBFEI32 (tri32 n bfeI) :=
  conf_tri32 _ _ (by conf_start [lh_cdna3_runVBFEI32, raw_cdna3_runVBFEI32]; conf_fin [bfeI_gcn3, bfeI_cdna3])

/-- `cdna3` `runVLSHLADDU32` (cdna3/vop3a.go:235): ternary 32-bit operation -/
theorem cdna3_runVLSHLADDU32_conforms (n : String) : Conforms lh_cdna3_runVLSHLADDU32 (tri32 n lshlAdd) :=
  conf_tri32 _ _ (by conf_start [lh_cdna3_runVLSHLADDU32, raw_cdna3_runVLSHLADDU32]; conf_fin [lshlAdd])

/-- `cdna3` `runVLSHLORB32` (cdna3/vop3a.go:252): ternary 32-bit operation -/
theorem cdna3_runVLSHLORB32_conforms (n : String) : Conforms lh_cdna3_runVLSHLORB32 (tri32 n lshlOr) :=
  conf_tri32 _ _ (by conf_start [lh_cdna3_runVLSHLORB32, raw_cdna3_runVLSHLORB32]; conf_fin [lshlOr])

/-- `cdna3` `runVADDLSHLU32` (cdna3/vop3a.go:269): ternary 32-bit operation -/
theorem cdna3_runVADDLSHLU32_conforms (n : String) : Conforms lh_cdna3_runVADDLSHLU32 (tri32 n addLshl) :=
  conf_tri32 _ _ (by conf_start [lh_cdna3_runVADDLSHLU32, raw_cdna3_runVADDLSHLU32]; conf_fin [addLshl])

/-- `cdna3` `runVXADU32` (cdna3/vop3a.go:286): ternary 32-bit operation -/
theorem cdna3_runVXADU32_conforms (n : String) : Conforms lh_cdna3_runVXADU32 (tri32 n xad) :=
  conf_tri32 _ _ (by conf_start [lh_cdna3_runVXADU32, raw_cdna3_runVXADU32]; conf_fin [xad])

/-- `cdna3` `runVADD3U32` (cdna3/vop3a.go:303): ternary 32-bit operation -/
theorem cdna3_runVADD3U32_conforms (n : String) : Conforms lh_cdna3_runVADD3U32 (tri32 n add3) :=
  conf_tri32 _ _ (by conf_start [lh_cdna3_runVADD3U32, raw_cdna3_runVADD3U32]; conf_fin [add3])

/-- `cdna3` `runVLSHLADDU64` (cdna3/vop3a.go:320): the FULL statement — conformance for every shift count -/
def cdna3_runVLSHLADDU64_full : Prop := Conforms lh_cdna3_runVLSHLADDU64 lshlAddU64Op

/-- … holds since the repair: the handler shifts by `S1[2:0]` as the ISA does -/
theorem cdna3_runVLSHLADDU64_conforms : cdna3_runVLSHLADDU64_full :=
  conf_plain _ rfl (by
    conf_start [lh_cdna3_runVLSHLADDU64, raw_cdna3_runVLSHLADDU64, specLane, laneIn, lshlAddU64Op, maskOf, tr_32, tr_64,
      ge_iff_le, Nat.le_refl, if_true, w32_lo32, w64_toNat, show (2:Nat) ≤ 3 from by decide, and7_toNat, lshl_add64_eq, and_self])

/-- the same statement about the body before the repair (`& 0x3F`) -/
def cdna3_runVLSHLADDU64_before_fix : Prop := Conforms lh_cdna3_runVLSHLADDU64Old lshlAddU64Op

/-- … is FALSE: the handler shifted by `S1[5:0]`, the ISA by `S1[2:0]` (S0 = 1, S1 = 8, S2 = 0: code 0x100, ISA 1) -/
theorem cdna3_runVLSHLADDU64_before_fix_refuted : ¬ cdna3_runVLSHLADDU64_before_fix := by
  intro h
  have := (h C06.Uni.zero lshlAddWitness (by decide) rfl trivial).1
  revert this
  decide

/-- the body before the repair conformed for shift counts `S1[5:0] < 8` (compilers emit 0..4) -/
theorem cdna3_runVLSHLADDU64_before_fix_partial : ConformsOn ShiftBelow8 lh_cdna3_runVLSHLADDU64Old lshlAddU64Op :=
  conf_plain_on _ _ rfl (by
    conf_start [lh_cdna3_runVLSHLADDU64Old, raw_cdna3_runVLSHLADDU64Old, specLane, laneIn, lshlAddU64Op, maskOf, tr_32, tr_64,
      ge_iff_le, Nat.le_refl, if_true, w32_lo32, w64_toNat, show (2:Nat) ≤ 3 from by decide, and63_toNat]
    intro hdom
    exact ⟨trivial, congrArg BitVec.toNat (lshl_add64_lt8 _ _ _ hdom)⟩)

/-- `cdna3` `runVCmpLtI32VOP3a` (cdna3/vop3a.go:484): 32-bit compare writing one mask bit -/
theorem cdna3_runVCmpLtI32VOP3a_conforms (n : String) : Conforms lh_cdna3_runVCmpLtI32VOP3a (cmpOf n 32 .int (fun a b => cmpI 1 (w32 a) (w32 b))) :=
  conf_cmp32 _ _ _ (by conf_start [lh_cdna3_runVCmpLtI32VOP3a, raw_cdna3_runVCmpLtI32VOP3a]; conf_mask [cmpI_lt, cmpI_eq, cmpI_le, cmpI_gt, cmpI_ne, cmpI_ge, cmpU_f, cmpU_lt, cmpU_eq, cmpU_le, cmpU_gt, cmpU_ne, cmpU_ge, cmpU_t, ult64_zext, ule64_zext, beq64_zext, bne64_zext, sw16_and_mask])

/-- `cdna3` `runVCmpLeI32VOP3a` (cdna3/vop3a.go:501): 32-bit compare writing one mask bit -/
theorem cdna3_runVCmpLeI32VOP3a_conforms (n : String) : Conforms lh_cdna3_runVCmpLeI32VOP3a (cmpOf n 32 .int (fun a b => cmpI 3 (w32 a) (w32 b))) :=
  conf_cmp32 _ _ _ (by conf_start [lh_cdna3_runVCmpLeI32VOP3a, raw_cdna3_runVCmpLeI32VOP3a]; conf_mask [cmpI_lt, cmpI_eq, cmpI_le, cmpI_gt, cmpI_ne, cmpI_ge, cmpU_f, cmpU_lt, cmpU_eq, cmpU_le, cmpU_gt, cmpU_ne, cmpU_ge, cmpU_t, ult64_zext, ule64_zext, beq64_zext, bne64_zext, sw16_and_mask])

/-- `cdna3` `runVCmpGtI32VOP3a` (cdna3/vop3a.go:518): 32-bit compare writing one mask bit -/
theorem cdna3_runVCmpGtI32VOP3a_conforms (n : String) : Conforms lh_cdna3_runVCmpGtI32VOP3a (cmpOf n 32 .int (fun a b => cmpI 4 (w32 a) (w32 b))) :=
  conf_cmp32 _ _ _ (by conf_start [lh_cdna3_runVCmpGtI32VOP3a, raw_cdna3_runVCmpGtI32VOP3a]; conf_mask [cmpI_lt, cmpI_eq, cmpI_le, cmpI_gt, cmpI_ne, cmpI_ge, cmpU_f, cmpU_lt, cmpU_eq, cmpU_le, cmpU_gt, cmpU_ne, cmpU_ge, cmpU_t, ult64_zext, ule64_zext, beq64_zext, bne64_zext, sw16_and_mask])

/-- `cdna3` `runVCmpGEI32VOP3a` (cdna3/vop3a.go:535): 32-bit compare writing one mask bit -/
theorem cdna3_runVCmpGEI32VOP3a_conforms (n : String) : Conforms lh_cdna3_runVCmpGEI32VOP3a (cmpOf n 32 .int (fun a b => cmpI 6 (w32 a) (w32 b))) :=
  conf_cmp32 _ _ _ (by conf_start [lh_cdna3_runVCmpGEI32VOP3a, raw_cdna3_runVCmpGEI32VOP3a]; conf_mask [cmpI_lt, cmpI_eq, cmpI_le, cmpI_gt, cmpI_ne, cmpI_ge, cmpU_f, cmpU_lt, cmpU_eq, cmpU_le, cmpU_gt, cmpU_ne, cmpU_ge, cmpU_t, ult64_zext, ule64_zext, beq64_zext, bne64_zext, sw16_and_mask])

/-- `cdna3` `runVCmpLtU32VOP3a` (cdna3/vop3a.go:552): 32-bit compare writing one mask bit -/
theorem cdna3_runVCmpLtU32VOP3a_conforms (n : String) : Conforms lh_cdna3_runVCmpLtU32VOP3a (cmpOf n 32 .int (fun a b => cmpU 1 (w32 a) (w32 b))) :=
  conf_cmp32 _ _ _ (by conf_start [lh_cdna3_runVCmpLtU32VOP3a, raw_cdna3_runVCmpLtU32VOP3a]; conf_mask [cmpI_lt, cmpI_eq, cmpI_le, cmpI_gt, cmpI_ne, cmpI_ge, cmpU_f, cmpU_lt, cmpU_eq, cmpU_le, cmpU_gt, cmpU_ne, cmpU_ge, cmpU_t, ult64_zext, ule64_zext, beq64_zext, bne64_zext, sw16_and_mask])

/-- `cdna3` `runVCmpEqU32VOP3a` (cdna3/vop3a.go:569): 32-bit compare writing one mask bit -/
theorem cdna3_runVCmpEqU32VOP3a_conforms (n : String) : Conforms lh_cdna3_runVCmpEqU32VOP3a (cmpOf n 32 .int (fun a b => cmpU 2 (w32 a) (w32 b))) :=
  conf_cmp32 _ _ _ (by conf_start [lh_cdna3_runVCmpEqU32VOP3a, raw_cdna3_runVCmpEqU32VOP3a]; conf_mask [cmpI_lt, cmpI_eq, cmpI_le, cmpI_gt, cmpI_ne, cmpI_ge, cmpU_f, cmpU_lt, cmpU_eq, cmpU_le, cmpU_gt, cmpU_ne, cmpU_ge, cmpU_t, ult64_zext, ule64_zext, beq64_zext, bne64_zext, sw16_and_mask])

/-- `cdna3` `runVCmpLeU32VOP3a` (cdna3/vop3a.go:586): 32-bit compare writing one mask bit -/
theorem cdna3_runVCmpLeU32VOP3a_conforms (n : String) : Conforms lh_cdna3_runVCmpLeU32VOP3a (cmpOf n 32 .int (fun a b => cmpU 3 (w32 a) (w32 b))) :=
  conf_cmp32 _ _ _ (by conf_start [lh_cdna3_runVCmpLeU32VOP3a, raw_cdna3_runVCmpLeU32VOP3a]; conf_mask [cmpI_lt, cmpI_eq, cmpI_le, cmpI_gt, cmpI_ne, cmpI_ge, cmpU_f, cmpU_lt, cmpU_eq, cmpU_le, cmpU_gt, cmpU_ne, cmpU_ge, cmpU_t, ult64_zext, ule64_zext, beq64_zext, bne64_zext, sw16_and_mask])

/-- `cdna3` `runVCmpGtU32VOP3a` (cdna3/vop3a.go:603): 32-bit compare writing one mask bit -/
theorem cdna3_runVCmpGtU32VOP3a_conforms (n : String) : Conforms lh_cdna3_runVCmpGtU32VOP3a (cmpOf n 32 .int (fun a b => cmpU 4 (w32 a) (w32 b))) :=
  conf_cmp32 _ _ _ (by conf_start [lh_cdna3_runVCmpGtU32VOP3a, raw_cdna3_runVCmpGtU32VOP3a]; conf_mask [cmpI_lt, cmpI_eq, cmpI_le, cmpI_gt, cmpI_ne, cmpI_ge, cmpU_f, cmpU_lt, cmpU_eq, cmpU_le, cmpU_gt, cmpU_ne, cmpU_ge, cmpU_t, ult64_zext, ule64_zext, beq64_zext, bne64_zext, sw16_and_mask])

/-- `cdna3` `runVCmpLgU32VOP3a` (cdna3/vop3a.go:620): 32-bit compare writing one mask bit -/
theorem cdna3_runVCmpLgU32VOP3a_conforms (n : String) : Conforms lh_cdna3_runVCmpLgU32VOP3a (cmpOf n 32 .int (fun a b => cmpU 5 (w32 a) (w32 b))) :=
  conf_cmp32 _ _ _ (by conf_start [lh_cdna3_runVCmpLgU32VOP3a, raw_cdna3_runVCmpLgU32VOP3a]; conf_mask [cmpI_lt, cmpI_eq, cmpI_le, cmpI_gt, cmpI_ne, cmpI_ge, cmpU_f, cmpU_lt, cmpU_eq, cmpU_le, cmpU_gt, cmpU_ne, cmpU_ge, cmpU_t, ult64_zext, ule64_zext, beq64_zext, bne64_zext, sw16_and_mask])

/-- `cdna3` `runVCmpGeU32VOP3a` (cdna3/vop3a.go:637): 32-bit compare writing one mask bit -/
theorem cdna3_runVCmpGeU32VOP3a_conforms (n : String) : Conforms lh_cdna3_runVCmpGeU32VOP3a (cmpOf n 32 .int (fun a b => cmpU 6 (w32 a) (w32 b))) :=
  conf_cmp32 _ _ _ (by conf_start [lh_cdna3_runVCmpGeU32VOP3a, raw_cdna3_runVCmpGeU32VOP3a]; conf_mask [cmpI_lt, cmpI_eq, cmpI_le, cmpI_gt, cmpI_ne, cmpI_ge, cmpU_f, cmpU_lt, cmpU_eq, cmpU_le, cmpU_gt, cmpU_ne, cmpU_ge, cmpU_t, ult64_zext, ule64_zext, beq64_zext, bne64_zext, sw16_and_mask])

/-- `cdna3` `runVCmpLtU64VOP3a` (cdna3/vop3a.go:654): 64-bit compare writing one mask bit -/
theorem cdna3_runVCmpLtU64VOP3a_conforms (n : String) : Conforms lh_cdna3_runVCmpLtU64VOP3a (cmpOf n 64 .int (fun a b => cmpU 1 (w64 a) (w64 b))) :=
  conf_cmp64 _ _ _ (by conf_start [lh_cdna3_runVCmpLtU64VOP3a, raw_cdna3_runVCmpLtU64VOP3a]; conf_mask [cmpI_lt, cmpI_eq, cmpI_le, cmpI_gt, cmpI_ne, cmpI_ge, cmpU_f, cmpU_lt, cmpU_eq, cmpU_le, cmpU_gt, cmpU_ne, cmpU_ge, cmpU_t, ult64_zext, ule64_zext, beq64_zext, bne64_zext, sw16_and_mask])

/-- `cdna3` `runVCNDMASKB32VOP3a` (cdna3/vop3a.go:671): select by bit `i` of the SRC2 SGPR pair -/
theorem cdna3_runVCNDMASKB32VOP3a_conforms : Conforms lh_cdna3_runVCNDMASKB32VOP3a cndmaskOp :=
  conf_plain _ rfl (by
    conf_start [lh_cdna3_runVCNDMASKB32VOP3a, raw_cdna3_runVCNDMASKB32VOP3a, specLane, laneIn, cndmaskOp, maskOf, tr_32,
      ge_iff_le, Nat.le_refl, if_true, true_and]
    split <;> rfl)

/-- `cdna3` `runVMADI32I24` (cdna3/vop3a.go:732): ternary 32-bit operation -/
theorem cdna3_runVMADI32I24_conforms (n : String) : Conforms lh_cdna3_runVMADI32I24 (tri32 n madI24) :=
  conf_tri32 _ _ (by conf_start [lh_cdna3_runVMADI32I24, raw_cdna3_runVMADI32I24]; conf_fin [madI24, sext24_go])

/-- `cdna3` `runVMADU32U24` (cdna3/vop3a.go:748): ternary 32-bit operation -/
theorem cdna3_runVMADU32U24_conforms (n : String) : Conforms lh_cdna3_runVMADU32U24 (tri32 n madU24) :=
  conf_tri32 _ _ (by conf_start [lh_cdna3_runVMADU32U24, raw_cdna3_runVMADU32U24]; conf_fin [madU24, zext24_mask])

/-- `cdna3` `runVMULLOU32` (cdna3/vop3a.go:762): binary 32-bit operation -/
theorem cdna3_runVMULLOU32_conforms (n : String) : Conforms lh_cdna3_runVMULLOU32 (bin32 n mulLo) :=
  conf_bin32 _ _ (by conf_start [lh_cdna3_runVMULLOU32, raw_cdna3_runVMULLOU32]; conf_fin [mulLo, sw32_mul])

/-- `cdna3` `runVMULHIU32` (cdna3/vop3a.go:775): binary 32-bit operation -/
theorem cdna3_runVMULHIU32_conforms (n : String) : Conforms lh_cdna3_runVMULHIU32 (bin32 n mulHiU) :=
  conf_bin32 _ _ (by conf_start [lh_cdna3_runVMULHIU32, raw_cdna3_runVMULHIU32]; conf_fin [mulhi64])

/-- `cdna3` `runVLSHLREVB64` (cdna3/vop3a.go:788): 64-bit shift, count `S0[5:0]` -/
theorem cdna3_runVLSHLREVB64_conforms : Conforms lh_cdna3_runVLSHLREVB64 lshlrevB64Op :=
  conf_plain _ rfl (by
    conf_start [lh_cdna3_runVLSHLREVB64, raw_cdna3_runVLSHLREVB64, specLane, laneIn, lshlrevB64Op, maskOf, tr_32, tr_64,
      ge_iff_le, Nat.le_refl, if_true, w32_lo32, w64_toNat, shl_rev64, and_self])

/-- `cdna3` `runVASHRREVI64` (cdna3/vop3a.go:801): 64-bit shift, count `S0[5:0]` -/
theorem cdna3_runVASHRREVI64_conforms : Conforms lh_cdna3_runVASHRREVI64 ashrrevI64Op :=
  conf_plain _ rfl (by
    conf_start [lh_cdna3_runVASHRREVI64, raw_cdna3_runVASHRREVI64, specLane, laneIn, ashrrevI64Op, maskOf, tr_32, tr_64,
      ge_iff_le, Nat.le_refl, if_true, w32_lo32, w64_toNat, ashr_rev64, and_self])

/-- `cdna3` `runVMIN3I32` (cdna3/vop3a.go:873): ternary 32-bit operation -/
theorem cdna3_runVMIN3I32_conforms (n : String) : Conforms lh_cdna3_runVMIN3I32 (tri32 n min3I) :=
  conf_tri32 _ _ (by conf_start [lh_cdna3_runVMIN3I32, raw_cdna3_runVMIN3I32]; conf_fin [min3I_alt])

/-- `cdna3` `runVMIN3U32` (cdna3/vop3a.go:894): ternary 32-bit operation -/
theorem cdna3_runVMIN3U32_conforms (n : String) : Conforms lh_cdna3_runVMIN3U32 (tri32 n min3U) :=
  conf_tri32 _ _ (by conf_start [lh_cdna3_runVMIN3U32, raw_cdna3_runVMIN3U32]; conf_fin [min3U_alt])

/-- `cdna3` `runVMAX3I32` (cdna3/vop3a.go:930): ternary 32-bit operation -/
theorem cdna3_runVMAX3I32_conforms (n : String) : Conforms lh_cdna3_runVMAX3I32 (tri32 n max3I) :=
  conf_tri32 _ _ (by conf_start [lh_cdna3_runVMAX3I32, raw_cdna3_runVMAX3I32]; conf_fin [max3I_alt])

/-- `cdna3` `runVMAX3U32` (cdna3/vop3a.go:951): ternary 32-bit operation -/
theorem cdna3_runVMAX3U32_conforms (n : String) : Conforms lh_cdna3_runVMAX3U32 (tri32 n max3U) :=
  conf_tri32 _ _ (by conf_start [lh_cdna3_runVMAX3U32, raw_cdna3_runVMAX3U32]; conf_fin [max3U_alt])

/-- `cdna3` `runVMED3U32` (cdna3/vop3a.go:1005): ternary 32-bit operation -/
theorem cdna3_runVMED3U32_conforms (n : String) : Conforms lh_cdna3_runVMED3U32 (tri32 n med3U) :=
  conf_tri32 _ _ (by conf_start [lh_cdna3_runVMED3U32, raw_cdna3_runVMED3U32]; conf_fin [fn_gcn3_median3Uint32, fn_cdna3_median3Uint32, med3U_clamp])

/-- `cdna3` `runVADDU32VOP3b` (cdna3/vop3b.go:36): binary operation with carry-out -/
theorem cdna3_runVADDU32VOP3b_conforms (n : String) : Conforms lh_cdna3_runVADDU32VOP3b (co32 n addCo) :=
  conf_co32 _ _ (by conf_start [lh_cdna3_runVADDU32VOP3b, raw_cdna3_runVADDU32VOP3b]; conf_mask [addCo, subCo, add_carry64, add_dst64, sub_dst64, sub_borrow64, sw32_and_mask])

/-- `cdna3` `runVSUBU32VOP3b` (cdna3/vop3b.go:55): binary operation with carry-out -/
theorem cdna3_runVSUBU32VOP3b_conforms (n : String) : Conforms lh_cdna3_runVSUBU32VOP3b (co32 n subCo) :=
  conf_co32 _ _ (by conf_start [lh_cdna3_runVSUBU32VOP3b, raw_cdna3_runVSUBU32VOP3b]; conf_mask [addCo, subCo, add_carry64, add_dst64, sub_dst64, sub_borrow64, sw32_and_mask])

/-- `cdna3` `runVSUBREVU32VOP3b` (cdna3/vop3b.go:74): binary operation with carry-out -/
theorem cdna3_runVSUBREVU32VOP3b_conforms (n : String) : Conforms lh_cdna3_runVSUBREVU32VOP3b (co32 n (fun a b => subCo b a)) :=
  conf_co32 _ _ (by conf_start [lh_cdna3_runVSUBREVU32VOP3b, raw_cdna3_runVSUBREVU32VOP3b]; conf_mask [addCo, subCo, add_carry64, add_dst64, sub_dst64, sub_borrow64, sw32_and_mask])

/-- `cdna3` `runVADDCU32VOP3b` (cdna3/vop3b.go:93): binary operation with carry-in and carry-out -/
theorem cdna3_runVADDCU32VOP3b_conforms (n : String) : Conforms lh_cdna3_runVADDCU32VOP3b (cio32 n addcCo) :=
  conf_cio32 _ _ (by conf_start [lh_cdna3_runVADDCU32VOP3b, raw_cdna3_runVADDCU32VOP3b, maskOf]; conf_mask [addc_dst64, addc_carry64, subb_dst64, subb_borrow_lt, subb_borrow_wrap, sw32_and_mask])

/-- `cdna3` `runVSUBBU32VOP3b` (cdna3/vop3b.go:114): binary operation with carry-in and carry-out -/
theorem cdna3_runVSUBBU32VOP3b_conforms (n : String) : Conforms lh_cdna3_runVSUBBU32VOP3b (cio32 n subbCo) :=
  conf_cio32 _ _ (by conf_start [lh_cdna3_runVSUBBU32VOP3b, raw_cdna3_runVSUBBU32VOP3b, maskOf]; conf_mask [addc_dst64, addc_carry64, subb_dst64, subb_borrow_lt, subb_borrow_wrap, sw32_and_mask])

/-- `cdna3` `runVSUBBREVU32VOP3b` (cdna3/vop3b.go:135): binary operation with carry-in and carry-out -/
theorem cdna3_runVSUBBREVU32VOP3b_conforms (n : String) : Conforms lh_cdna3_runVSUBBREVU32VOP3b (cio32 n (fun a b c => subbCo b a c)) :=
  conf_cio32 _ _ (by conf_start [lh_cdna3_runVSUBBREVU32VOP3b, raw_cdna3_runVSUBBREVU32VOP3b, maskOf]; conf_mask [addc_dst64, addc_carry64, subb_dst64, subb_borrow_lt, subb_borrow_wrap, sw32_and_mask])

/-- `cdna3` `runVMADU64U32` (cdna3/vop3b.go:206): 32×32+64 multiply-add, carry-out of the 64-bit add to the SDST mask -/
theorem cdna3_runVMADU64U32_conforms : Conforms lh_cdna3_runVMADU64U32 madU64U32Op :=
  conf_carry _ rfl (by
    conf_start [lh_cdna3_runVMADU64U32, raw_cdna3_runVMADU64U32, specLane, laneIn, madU64U32Op, maskOf, tr_32, tr_64,
      ge_iff_le, Nat.le_refl, if_true, w32_lo32, w64_toNat, show (2:Nat) ≤ 3 from by decide]
    conf_mask [mad64_carry, madU64U32])

/-- `cdna3` `runVCmpGtI16` (cdna3/vopc.go:181): 16-bit compare writing one mask bit -/
theorem cdna3_runVCmpGtI16_conforms (n : String) : Conforms lh_cdna3_runVCmpGtI16 (cmpOf n 32 .int (fun a b => cmpI 4 (BitVec.ofNat 16 a) (BitVec.ofNat 16 b))) :=
  conf_cmp16 _ _ _ (by conf_start [lh_cdna3_runVCmpGtI16, raw_cdna3_runVCmpGtI16]; conf_mask [cmpI_lt, cmpI_eq, cmpI_le, cmpI_gt, cmpI_ne, cmpI_ge, cmpU_f, cmpU_lt, cmpU_eq, cmpU_le, cmpU_gt, cmpU_ne, cmpU_ge, cmpU_t, ult64_zext, ule64_zext, beq64_zext, bne64_zext, sw16_and_mask])

/-- `cdna3` `runVCmpLtI32` (cdna3/vopc.go:199): 32-bit compare writing one mask bit -/
theorem cdna3_runVCmpLtI32_conforms (n : String) : Conforms lh_cdna3_runVCmpLtI32 (cmpOf n 32 .int (fun a b => cmpI 1 (w32 a) (w32 b))) :=
  conf_cmp32 _ _ _ (by conf_start [lh_cdna3_runVCmpLtI32, raw_cdna3_runVCmpLtI32]; conf_mask [cmpI_lt, cmpI_eq, cmpI_le, cmpI_gt, cmpI_ne, cmpI_ge, cmpU_f, cmpU_lt, cmpU_eq, cmpU_le, cmpU_gt, cmpU_ne, cmpU_ge, cmpU_t, ult64_zext, ule64_zext, beq64_zext, bne64_zext, sw16_and_mask])

/-- `cdna3` `runVCmpLeI32` (cdna3/vopc.go:216): 32-bit compare writing one mask bit -/
theorem cdna3_runVCmpLeI32_conforms (n : String) : Conforms lh_cdna3_runVCmpLeI32 (cmpOf n 32 .int (fun a b => cmpI 3 (w32 a) (w32 b))) :=
  conf_cmp32 _ _ _ (by conf_start [lh_cdna3_runVCmpLeI32, raw_cdna3_runVCmpLeI32]; conf_mask [cmpI_lt, cmpI_eq, cmpI_le, cmpI_gt, cmpI_ne, cmpI_ge, cmpU_f, cmpU_lt, cmpU_eq, cmpU_le, cmpU_gt, cmpU_ne, cmpU_ge, cmpU_t, ult64_zext, ule64_zext, beq64_zext, bne64_zext, sw16_and_mask])

/-- `cdna3` `runVCmpGtI32` (cdna3/vopc.go:233): 32-bit compare writing one mask bit -/
theorem cdna3_runVCmpGtI32_conforms (n : String) : Conforms lh_cdna3_runVCmpGtI32 (cmpOf n 32 .int (fun a b => cmpI 4 (w32 a) (w32 b))) :=
  conf_cmp32 _ _ _ (by conf_start [lh_cdna3_runVCmpGtI32, raw_cdna3_runVCmpGtI32]; conf_mask [cmpI_lt, cmpI_eq, cmpI_le, cmpI_gt, cmpI_ne, cmpI_ge, cmpU_f, cmpU_lt, cmpU_eq, cmpU_le, cmpU_gt, cmpU_ne, cmpU_ge, cmpU_t, ult64_zext, ule64_zext, beq64_zext, bne64_zext, sw16_and_mask])

/-- `cdna3` `runVCmpLgI32` (cdna3/vopc.go:250): 32-bit compare writing one mask bit -/
theorem cdna3_runVCmpLgI32_conforms (n : String) : Conforms lh_cdna3_runVCmpLgI32 (cmpOf n 32 .int (fun a b => cmpI 5 (w32 a) (w32 b))) :=
  conf_cmp32 _ _ _ (by conf_start [lh_cdna3_runVCmpLgI32, raw_cdna3_runVCmpLgI32]; conf_mask [cmpI_lt, cmpI_eq, cmpI_le, cmpI_gt, cmpI_ne, cmpI_ge, cmpU_f, cmpU_lt, cmpU_eq, cmpU_le, cmpU_gt, cmpU_ne, cmpU_ge, cmpU_t, ult64_zext, ule64_zext, beq64_zext, bne64_zext, sw16_and_mask])

/-- `cdna3` `runVCmpGeI32` (cdna3/vopc.go:267): 32-bit compare writing one mask bit -/
theorem cdna3_runVCmpGeI32_conforms (n : String) : Conforms lh_cdna3_runVCmpGeI32 (cmpOf n 32 .int (fun a b => cmpI 6 (w32 a) (w32 b))) :=
  conf_cmp32 _ _ _ (by conf_start [lh_cdna3_runVCmpGeI32, raw_cdna3_runVCmpGeI32]; conf_mask [cmpI_lt, cmpI_eq, cmpI_le, cmpI_gt, cmpI_ne, cmpI_ge, cmpU_f, cmpU_lt, cmpU_eq, cmpU_le, cmpU_gt, cmpU_ne, cmpU_ge, cmpU_t, ult64_zext, ule64_zext, beq64_zext, bne64_zext, sw16_and_mask])

/-- `cdna3` `runVCmpLtU32` (cdna3/vopc.go:284): 32-bit compare writing one mask bit -/
theorem cdna3_runVCmpLtU32_conforms (n : String) : Conforms lh_cdna3_runVCmpLtU32 (cmpOf n 32 .int (fun a b => cmpU 1 (w32 a) (w32 b))) :=
  conf_cmp32 _ _ _ (by conf_start [lh_cdna3_runVCmpLtU32, raw_cdna3_runVCmpLtU32]; conf_mask [cmpI_lt, cmpI_eq, cmpI_le, cmpI_gt, cmpI_ne, cmpI_ge, cmpU_f, cmpU_lt, cmpU_eq, cmpU_le, cmpU_gt, cmpU_ne, cmpU_ge, cmpU_t, ult64_zext, ule64_zext, beq64_zext, bne64_zext, sw16_and_mask])

/-- `cdna3` `runVCmpEqU32` (cdna3/vopc.go:299): 32-bit compare writing one mask bit -/
theorem cdna3_runVCmpEqU32_conforms (n : String) : Conforms lh_cdna3_runVCmpEqU32 (cmpOf n 32 .int (fun a b => cmpU 2 (w32 a) (w32 b))) :=
  conf_cmp32 _ _ _ (by conf_start [lh_cdna3_runVCmpEqU32, raw_cdna3_runVCmpEqU32]; conf_mask [cmpI_lt, cmpI_eq, cmpI_le, cmpI_gt, cmpI_ne, cmpI_ge, cmpU_f, cmpU_lt, cmpU_eq, cmpU_le, cmpU_gt, cmpU_ne, cmpU_ge, cmpU_t, ult64_zext, ule64_zext, beq64_zext, bne64_zext, sw16_and_mask])

/-- `cdna3` `runVCmpLeU32` (cdna3/vopc.go:314): 32-bit compare writing one mask bit -/
theorem cdna3_runVCmpLeU32_conforms (n : String) : Conforms lh_cdna3_runVCmpLeU32 (cmpOf n 32 .int (fun a b => cmpU 3 (w32 a) (w32 b))) :=
  conf_cmp32 _ _ _ (by conf_start [lh_cdna3_runVCmpLeU32, raw_cdna3_runVCmpLeU32]; conf_mask [cmpI_lt, cmpI_eq, cmpI_le, cmpI_gt, cmpI_ne, cmpI_ge, cmpU_f, cmpU_lt, cmpU_eq, cmpU_le, cmpU_gt, cmpU_ne, cmpU_ge, cmpU_t, ult64_zext, ule64_zext, beq64_zext, bne64_zext, sw16_and_mask])

/-- `cdna3` `runVCmpGtU32` (cdna3/vopc.go:329): 32-bit compare writing one mask bit -/
theorem cdna3_runVCmpGtU32_conforms (n : String) : Conforms lh_cdna3_runVCmpGtU32 (cmpOf n 32 .int (fun a b => cmpU 4 (w32 a) (w32 b))) :=
  conf_cmp32 _ _ _ (by conf_start [lh_cdna3_runVCmpGtU32, raw_cdna3_runVCmpGtU32]; conf_mask [cmpI_lt, cmpI_eq, cmpI_le, cmpI_gt, cmpI_ne, cmpI_ge, cmpU_f, cmpU_lt, cmpU_eq, cmpU_le, cmpU_gt, cmpU_ne, cmpU_ge, cmpU_t, ult64_zext, ule64_zext, beq64_zext, bne64_zext, sw16_and_mask])

/-- `cdna3` `runVCmpNeU32` (cdna3/vopc.go:344): 32-bit compare writing one mask bit -/
theorem cdna3_runVCmpNeU32_conforms (n : String) : Conforms lh_cdna3_runVCmpNeU32 (cmpOf n 32 .int (fun a b => cmpU 5 (w32 a) (w32 b))) :=
  conf_cmp32 _ _ _ (by conf_start [lh_cdna3_runVCmpNeU32, raw_cdna3_runVCmpNeU32]; conf_mask [cmpI_lt, cmpI_eq, cmpI_le, cmpI_gt, cmpI_ne, cmpI_ge, cmpU_f, cmpU_lt, cmpU_eq, cmpU_le, cmpU_gt, cmpU_ne, cmpU_ge, cmpU_t, ult64_zext, ule64_zext, beq64_zext, bne64_zext, sw16_and_mask])

/-- `cdna3` `runVCmpGeU32` (cdna3/vopc.go:359): 32-bit compare writing one mask bit -/
theorem cdna3_runVCmpGeU32_conforms (n : String) : Conforms lh_cdna3_runVCmpGeU32 (cmpOf n 32 .int (fun a b => cmpU 6 (w32 a) (w32 b))) :=
  conf_cmp32 _ _ _ (by conf_start [lh_cdna3_runVCmpGeU32, raw_cdna3_runVCmpGeU32]; conf_mask [cmpI_lt, cmpI_eq, cmpI_le, cmpI_gt, cmpI_ne, cmpI_ge, cmpU_f, cmpU_lt, cmpU_eq, cmpU_le, cmpU_gt, cmpU_ne, cmpU_ge, cmpU_t, ult64_zext, ule64_zext, beq64_zext, bne64_zext, sw16_and_mask])

/-- `cdna3` `runVCmpLtU64` (cdna3/vopc.go:379): 64-bit compare writing one mask bit -/
theorem cdna3_runVCmpLtU64_conforms (n : String) : Conforms lh_cdna3_runVCmpLtU64 (cmpOf n 64 .int (fun a b => cmpU 1 (w64 a) (w64 b))) :=
  conf_cmp64 _ _ _ (by conf_start [lh_cdna3_runVCmpLtU64, raw_cdna3_runVCmpLtU64]; conf_mask [cmpI_lt, cmpI_eq, cmpI_le, cmpI_gt, cmpI_ne, cmpI_ge, cmpU_f, cmpU_lt, cmpU_eq, cmpU_le, cmpU_gt, cmpU_ne, cmpU_ge, cmpU_t, ult64_zext, ule64_zext, beq64_zext, bne64_zext, sw16_and_mask])

/-- `cdna3` `runVCmpEqU64` (cdna3/vopc.go:394): 64-bit compare writing one mask bit -/
theorem cdna3_runVCmpEqU64_conforms (n : String) : Conforms lh_cdna3_runVCmpEqU64 (cmpOf n 64 .int (fun a b => cmpU 2 (w64 a) (w64 b))) :=
  conf_cmp64 _ _ _ (by conf_start [lh_cdna3_runVCmpEqU64, raw_cdna3_runVCmpEqU64]; conf_mask [cmpI_lt, cmpI_eq, cmpI_le, cmpI_gt, cmpI_ne, cmpI_ge, cmpU_f, cmpU_lt, cmpU_eq, cmpU_le, cmpU_gt, cmpU_ne, cmpU_ge, cmpU_t, ult64_zext, ule64_zext, beq64_zext, bne64_zext, sw16_and_mask])

/-- `cdna3` `runVCmpLeU64` (cdna3/vopc.go:409): 64-bit compare writing one mask bit -/
theorem cdna3_runVCmpLeU64_conforms (n : String) : Conforms lh_cdna3_runVCmpLeU64 (cmpOf n 64 .int (fun a b => cmpU 3 (w64 a) (w64 b))) :=
  conf_cmp64 _ _ _ (by conf_start [lh_cdna3_runVCmpLeU64, raw_cdna3_runVCmpLeU64]; conf_mask [cmpI_lt, cmpI_eq, cmpI_le, cmpI_gt, cmpI_ne, cmpI_ge, cmpU_f, cmpU_lt, cmpU_eq, cmpU_le, cmpU_gt, cmpU_ne, cmpU_ge, cmpU_t, ult64_zext, ule64_zext, beq64_zext, bne64_zext, sw16_and_mask])

/-- `cdna3` `runVCmpGtU64` (cdna3/vopc.go:424): 64-bit compare writing one mask bit -/
theorem cdna3_runVCmpGtU64_conforms (n : String) : Conforms lh_cdna3_runVCmpGtU64 (cmpOf n 64 .int (fun a b => cmpU 4 (w64 a) (w64 b))) :=
  conf_cmp64 _ _ _ (by conf_start [lh_cdna3_runVCmpGtU64, raw_cdna3_runVCmpGtU64]; conf_mask [cmpI_lt, cmpI_eq, cmpI_le, cmpI_gt, cmpI_ne, cmpI_ge, cmpU_f, cmpU_lt, cmpU_eq, cmpU_le, cmpU_gt, cmpU_ne, cmpU_ge, cmpU_t, ult64_zext, ule64_zext, beq64_zext, bne64_zext, sw16_and_mask])

/-- `cdna3` `runVCmpLgU64` (cdna3/vopc.go:439): 64-bit compare writing one mask bit -/
theorem cdna3_runVCmpLgU64_conforms (n : String) : Conforms lh_cdna3_runVCmpLgU64 (cmpOf n 64 .int (fun a b => cmpU 5 (w64 a) (w64 b))) :=
  conf_cmp64 _ _ _ (by conf_start [lh_cdna3_runVCmpLgU64, raw_cdna3_runVCmpLgU64]; conf_mask [cmpI_lt, cmpI_eq, cmpI_le, cmpI_gt, cmpI_ne, cmpI_ge, cmpU_f, cmpU_lt, cmpU_eq, cmpU_le, cmpU_gt, cmpU_ne, cmpU_ge, cmpU_t, ult64_zext, ule64_zext, beq64_zext, bne64_zext, sw16_and_mask])

/-- `cdna3` `runVCmpGeU64` (cdna3/vopc.go:454): 64-bit compare writing one mask bit -/
theorem cdna3_runVCmpGeU64_conforms (n : String) : Conforms lh_cdna3_runVCmpGeU64 (cmpOf n 64 .int (fun a b => cmpU 6 (w64 a) (w64 b))) :=
  conf_cmp64 _ _ _ (by conf_start [lh_cdna3_runVCmpGeU64, raw_cdna3_runVCmpGeU64]; conf_mask [cmpI_lt, cmpI_eq, cmpI_le, cmpI_gt, cmpI_ne, cmpI_ge, cmpU_f, cmpU_lt, cmpU_eq, cmpU_le, cmpU_gt, cmpU_ne, cmpU_ge, cmpU_t, ult64_zext, ule64_zext, beq64_zext, bne64_zext, sw16_and_mask])

/-- `cdna3` `runVCmpTruU64` (cdna3/vopc.go:469): 64-bit compare writing one mask bit -/
theorem cdna3_runVCmpTruU64_conforms (n : String) : Conforms lh_cdna3_runVCmpTruU64 (cmpOf n 64 .int (fun a b => cmpU 7 (w64 a) (w64 b))) :=
  conf_cmp64 _ _ _ (by conf_start [lh_cdna3_runVCmpTruU64, raw_cdna3_runVCmpTruU64]; conf_mask [cmpI_lt, cmpI_eq, cmpI_le, cmpI_gt, cmpI_ne, cmpI_ge, cmpU_f, cmpU_lt, cmpU_eq, cmpU_le, cmpU_gt, cmpU_ne, cmpU_ge, cmpU_t, ult64_zext, ule64_zext, beq64_zext, bne64_zext, sw16_and_mask])

/-! ## handlers translated since `translate/lanedeep.go` (inner bit loops as `List.foldl`, `sort.Ints` of three elements
as `C06.Go.sortInts3`, a handler without lane loop that writes the constant mask 0); loop / sort lemmas in
`MgpuProofs/C03VConfLoops.lean` -/

/-- `gcn3` `runBFREVB32` (aluvop1.go:282): the 32-iteration loop `bit = ((src & 1<<(31-j)) >> (31-j)) << j; dst |= bit` IS
    the ISA's bit reversal, for every source pattern -/
theorem gcn3_runBFREVB32_conforms (n : String) : Conforms lh_gcn3_runBFREVB32 (un32 n bfrev) :=
  conf_un32 _ _ (by
    intro u r _ _
    simp only [lh_gcn3_runBFREVB32, raw_gcn3_runBFREVB32, gcn3_bfrev_fold, Option.map_some, sw32_sw64, and_self])

/-- `cdna3` `runBFREVB32` (cdna3/vop1.go:359): the loop `if src & (1<<j) != 0 { dst |= 1 << (31-j) }` IS the bit reversal -/
theorem cdna3_runBFREVB32_conforms (n : String) : Conforms lh_cdna3_runBFREVB32 (un32 n bfrev) :=
  conf_un32 _ _ (by
    intro u r _ _
    simp only [lh_cdna3_runBFREVB32, raw_cdna3_runBFREVB32, cdna3_bfrev_fold, Option.map_some, sw32_sw64, and_self])

/-- `cdna3` `runVFFBHU32` (cdna3/vop1.go:377): the downward scan with `break` returns `31 - ⌊log2 src⌋`, and −1 for 0 -/
theorem cdna3_runVFFBHU32_conforms (n : String) : Conforms lh_cdna3_runVFFBHU32 (un32 n ffbh) :=
  conf_un32 _ _ (by
    intro u r _ _
    simp only [lh_cdna3_runVFFBHU32, raw_cdna3_runVFFBHU32]
    by_cases h0 : (r.src0.setWidth 32 == 0#32) = true
    · have e : r.src0.setWidth 32 = 0#32 := by simpa using h0
      simp only [h0, if_true, Option.map_some]
      rw [e]
      refine ⟨?_, ?_⟩
      · first | rfl | trivial
      · decide
    · have hne : r.src0.setWidth 32 ≠ 0#32 := by simpa using h0
      simp only [h0, if_false, Option.map_some, sw32_sw64, Bool.false_eq_true]
      refine ⟨?_, ?_⟩
      · first | rfl | trivial
      · exact congrArg some (ffbh_fold _ hne))

/-- `gcn3` `runVMED3I32` (aluvop3a.go:794): the middle element of `sort.Ints` of the three sign-extended operands IS
    `max(min(a,b), min(max(a,b),c))` on signed 32-bit values -/
theorem gcn3_runVMED3I32_conforms (n : String) : Conforms lh_gcn3_runVMED3I32 (tri32 n med3I) :=
  conf_tri32 _ _ (by conf_start_s [lh_gcn3_runVMED3I32, raw_gcn3_runVMED3I32]; conf_fin [med3I_sort])

/-- `cdna3` `runVMED3I32` (cdna3/vop3a.go:988) -/
theorem cdna3_runVMED3I32_conforms (n : String) : Conforms lh_cdna3_runVMED3I32 (tri32 n med3I) :=
  conf_tri32 _ _ (by conf_start [lh_cdna3_runVMED3I32, raw_cdna3_runVMED3I32]; conf_fin [med3I_sort])

/-- `cdna3` `runVCmpFU64` (no lane loop: `state.SetVCC(0)`): every lane's bit of the constant it writes is the ISA's
    `v_cmp_f_u64` result (false) for every operand pair -/
theorem cdna3_runVCmpFU64_conforms (n : String) :
    Conforms lh_cdna3_runVCmpFU64_const (cmpOf n 64 .int (fun a b => cmpU 0 (w64 a) (w64 b))) :=
  conf_cmp64 _ _ _ (by
    intro u r hi _
    refine ⟨rfl, fun h0 => ?_⟩
    show setBit r.acc r.i ((0#64).getLsbD r.i) = _
    simp [cmpU_f])

/-- **the lane view `constLane` is what the handler does**: `cdna3.ALU.runVCmpFU64` never panics and hands 0 to `SetVCC`
    (C06's `noLaneRun` of the regenerated record), and the lane view started from the accumulator 0 stays 0 at every
    lane — so folding it over any set of active lanes yields exactly that constant -/
theorem cdna3_runVCmpFU64_lane_view (u : Uni) (vcc : BitVec 64) (r : RawIn) (h : r.acc = 0#64) :
    C06.noLaneRun nl_cdna3_runVCmpFU64 u vcc = some 0#64 ∧ (lh_cdna3_runVCmpFU64_const.raw u r).acc = 0#64 := by
  have hok : nl_cdna3_runVCmpFU64.ok u = true := rfl
  refine ⟨?_, ?_⟩
  · simp only [C06.noLaneRun, hok, if_true, nl_cdna3_runVCmpFU64_facts.2.2, Option.getD_some]
  · show setBit r.acc r.i ((0#64).getLsbD r.i) = 0#64
    rw [h]
    apply BitVec.eq_of_getLsbD_eq
    intro j hj
    simp [C06.setBit]

example : C06.noLaneRun nl_cdna3_runVCmpFU64 C06.Uni.zero 0xFFFF#64 = some 0#64 := by decide +kernel

/-- **`v_readfirstlane_b32` reads the lane the ISA names**: the lane both ALUs' scan loop
    (`for i := 0; i < 64; i++ { if exec&(1<<i) == 0 { continue }; laneid = i; break }`, hand-transcribed by C06 as
    `C06.rflScan`, hash-pinned) selects is `C03V.firstLane` of the specification — the lowest set EXEC bit, lane 0
    when EXEC = 0 — for every EXEC value -/
theorem readfirstlane_lane_conforms (exec : BitVec 64) : (C06.rflScan exec 64).1 = C03V.firstLane exec.toNat :=
  rflScan_firstLane exec

example : (C06.rflScan 0x28#64 64).1 = 3 ∧ C03V.firstLane 0x28 = 3 ∧ (C06.rflScan 0#64 64).1 = 0 := by decide +kernel

/-- … hence the value both ALUs broadcast (`src0 := state.ReadOperand(inst.Src0, laneid)`, C06's `goReadFirstLane`) is
    SRC0 read in the specification's lane (`execVALU`: `st.src e.src0 (firstLane st.exec) …`) -/
theorem readfirstlane_value_conforms (src0 : C06.Opnd) (exec : BitVec 64) (vgpr : Nat → Nat → Nat) :
    C06.goReadFirstLane src0 exec vgpr = C06.readOpnd src0 (vgpr (C03V.firstLane exec.toNat)) := by
  unfold C06.goReadFirstLane
  rw [rflScan_firstLane]

example : C06.goReadFirstLane (.vgpr 0 1) 0x28#64 (fun l r => if r = 0 then 100 + l else 0) = 103#64 := by decide +kernel

/-- GCN3 `v_lshrrev_b32`, FULL statement over all 64-bit SRC1 patterns -/
def gcn3_runVLSHRREVB32_full : Prop := Conforms lh_gcn3_runVLSHRREVB32 (bin32 "v_lshrrev_b32" lshrrev)

/-- … is false (S0 = 1, S1 = 2^32: the code yields 0x80000000, the ISA 0) — not reachable: the VOP2 encoding has only
    a VGPR number for SRC1, the shared SDWA path returns 32-bit values, and the GCN3 VOP3 switch has no entry 272 -/
theorem gcn3_runVLSHRREVB32_full_refuted : ¬ gcn3_runVLSHRREVB32_full := by
  intro h
  have := (h C06.Uni.zero lshrrevWitness (by decide) rfl trivial).1
  revert this
  decide

example : Src1IsVgpr { lshrrevWitness with src1 := 0xFFFFFFFF#64 } := by decide
example : ShiftBelow8 { lshlAddWitness with src1 := 4#64 } := by decide
example : ¬ ShiftBelow8 lshlAddWitness := by decide

/-! ## Concrete instances (the statements are not vacuous: bodies and specification compute, and agree, on corner inputs) -/

/-- `v_and_b32` with the inline constant −16 (`ReadOperand` returns 0xFFFF…F0) as SRC0 -/
example : (raw_cdna3_runVANDB32 C06.Uni.zero ⟨5, 0xFFFFFFFFFFFFFFF0#64, 0x1234FFFF#64, 0#64, 0#64, 0#64, 0#64⟩).dst.map (tr 32)
    = some 0x1234FFF0 ∧
    (specLane (bin32 "v_and_b32" (· &&& ·)) lh_cdna3_runVANDB32 ⟨5, 0xFFFFFFFFFFFFFFF0#64, 0x1234FFFF#64, 0#64, 0#64, 0#64, 0#64⟩).d
    = 0x1234FFF0 := by decide
/-- `v_sub_co_u32` 1 − 2 in lane 7: destination 0xFFFFFFFF, borrow into bit 7 of the mask -/
example : raw_gcn3_runVSUBI32 C06.Uni.zero ⟨7, 1#64, 2#64, 0#64, 0#64, 0#64, 0#64⟩ = ⟨some 0xFFFFFFFF#64, 0x80#64⟩ ∧
    (specLane (co32 "v_sub_co_u32" subCo) lh_gcn3_runVSUBI32 ⟨7, 1#64, 2#64, 0#64, 0#64, 0#64, 0#64⟩).co = true := by decide
/-- `v_cmp_lt_i32` −1 < 0 with −1 as a negative inline constant (all 64 bits set): true, in lane 63 -/
example : (raw_gcn3_runVCmpLtI32 C06.Uni.zero ⟨63, 0xFFFFFFFFFFFFFFFF#64, 0#64, 0#64, 0#64, 0#64, 0#64⟩).acc = 0x8000000000000000#64 ∧
    (specLane (cmpOf "" 32 .int (fun a b => cmpI 1 (w32 a) (w32 b))) lh_gcn3_runVCmpLtI32
      ⟨63, 0xFFFFFFFFFFFFFFFF#64, 0#64, 0#64, 0#64, 0#64, 0#64⟩).co = true := by decide
/-- `v_bfe_i32` of 0x00000F00, offset 8, width 4: the field 0xF sign-extends to −1 on both ALUs and in the ISA function -/
example : (raw_gcn3_runVBFEI32 C06.Uni.zero ⟨0, 0xF00#64, 8#64, 4#64, 0#64, 0#64, 0#64⟩).dst.map (tr 32) = some 0xFFFFFFFF ∧
    (raw_cdna3_runVBFEI32 C06.Uni.zero ⟨0, 0xF00#64, 8#64, 4#64, 0#64, 0#64, 0#64⟩).dst.map (tr 32) = some 0xFFFFFFFF ∧
    bfeI 0xF00#32 8#32 4#32 = 0xFFFFFFFF#32 := by decide
/-- `v_addc_co_u32` (VOP3b, carry-in from bit 3 of the SRC2 pair) 0xFFFFFFFF + 0 + 1 in lane 3 -/
example : raw_cdna3_runVADDCU32VOP3b C06.Uni.zero ⟨3, 0xFFFFFFFF#64, 0#64, 0x8#64, 0#64, 0#64, 0#64⟩ = ⟨some 0#64, 0x8#64⟩ := by
  decide

/-- `v_bfrev_b32`: 1 ↦ 0x80000000 by the GCN3 loop, 0x0000FFFF ↦ 0xFFFF0000 by the CDNA3 loop (the negative inline
    constant −2 = 0xFFFF…FE ↦ 0x7FFFFFFF: the upper half does not leak), as the ISA function says -/
example : (raw_gcn3_runBFREVB32 C06.Uni.zero ⟨0, 1#64, 0#64, 0#64, 0#64, 0#64, 0#64⟩).dst = some 0x80000000#64 ∧
    (raw_cdna3_runBFREVB32 C06.Uni.zero ⟨0, 0xFFFF#64, 0#64, 0#64, 0#64, 0#64, 0#64⟩).dst = some 0xFFFF0000#64 ∧
    (raw_cdna3_runBFREVB32 C06.Uni.zero ⟨0, 0xFFFFFFFFFFFFFFFE#64, 0#64, 0#64, 0#64, 0#64, 0#64⟩).dst = some 0x7FFFFFFF#64 ∧
    bfrev 1#32 = 0x80000000#32 ∧ bfrev 0xFFFF#32 = 0xFFFF0000#32 := by decide +kernel
/-- `v_ffbh_u32`: 1 ↦ 31, 0x00010000 ↦ 15, 0x80000000 ↦ 0, 0 ↦ −1 -/
example : (raw_cdna3_runVFFBHU32 C06.Uni.zero ⟨0, 1#64, 0#64, 0#64, 0#64, 0#64, 0#64⟩).dst = some 31#64 ∧
    (raw_cdna3_runVFFBHU32 C06.Uni.zero ⟨0, 0x10000#64, 0#64, 0#64, 0#64, 0#64, 0#64⟩).dst = some 15#64 ∧
    (raw_cdna3_runVFFBHU32 C06.Uni.zero ⟨0, 0x80000000#64, 0#64, 0#64, 0#64, 0#64, 0#64⟩).dst = some 0#64 ∧
    (raw_cdna3_runVFFBHU32 C06.Uni.zero ⟨0, 0#64, 0#64, 0#64, 0#64, 0#64, 0#64⟩).dst = some 0xFFFFFFFF#64 ∧
    ffbh 0x10000#32 = 15#32 ∧ ffbh 0#32 = 0xFFFFFFFF#32 := by decide +kernel
/-- `v_med3_i32` of −1 (negative inline constant, all 64 bits set), 5 and INT_MIN: the SIGNED median −1 on both ALUs
    (the unsigned median would be 0x80000000) -/
example : (raw_gcn3_runVMED3I32 C06.Uni.zero ⟨0, 0xFFFFFFFFFFFFFFFF#64, 5#64, 0x80000000#64, 0#64, 0#64, 0#64⟩).dst.map (tr 32)
      = some 0xFFFFFFFF ∧
    (raw_cdna3_runVMED3I32 C06.Uni.zero ⟨0, 0xFFFFFFFFFFFFFFFF#64, 5#64, 0x80000000#64, 0#64, 0#64, 0#64⟩).dst.map (tr 32)
      = some 0xFFFFFFFF ∧
    med3I 0xFFFFFFFF#32 5#32 0x80000000#32 = 0xFFFFFFFF#32 ∧ med3U 0xFFFFFFFF#32 5#32 0x80000000#32 = 0x80000000#32 := by
  decide +kernel
/-- CDNA3 `v_cmp_f_u64` (constant mask 0): lane 9's bit stays clear whatever the operands -/
example : (lh_cdna3_runVCmpFU64_const.raw C06.Uni.zero ⟨9, 7#64, 7#64, 0#64, 0#64, 0#64, 0x1FF#64⟩).acc = 0x1FF#64 ∧
    lh_cdna3_runVCmpFU64_const.name = "runVCmpFU64" := by decide +kernel

/-! ## What the comparison is with: `execVALU`'s lane semantics, and property C06's lane-local body -/

/-- **`specLane` is the lane semantics of the executable specification.**  For an integer instruction without SDWA,
    `C03V.execVALU` (the function the Lean driver runs on every correspondence case) is the fold over the 64 lanes of a
    step that leaves an inactive lane alone and, for an active lane, applies the opcode's table function to
    `laneIn op s0 s1 s2 cin` — the fetched operands at operand width and the lane's bit of the mask source, exactly
    the argument of `specLane` —, writes its `d` at destination width and sets bit `lane` of the lane mask iff `co`. -/
theorem execVALU_lane (st : St) (e : VEnc)
    (hty : e.op.ty = .int) (hsd : e.sdwa = false) (har : e.op.arith = false) (hk : IntKind e.op.kind) :
    ∃ step, IsLaneStep st e step ∧
      execVALU st e =
        (match (List.range 64).foldl step ([], 0) with
         | (ws, mask) => if writesMask e.op.kind then ws ++ wrMask e.sdst mask else ws) :=
  execVALU_lanes st e hty hsd har hk

example : IntKind (co32 "v_add_co_u32" addCo).kind ∧ (co32 "v_add_co_u32" addCo).ty = .int ∧
    (co32 "v_add_co_u32" addCo).arith = false := ⟨Or.inr (Or.inl rfl), rfl, rfl⟩

/-- **Conformance at the level of property C06's skeleton.**  C06 proves the Go loop of every translated handler equal
    to `vexec` of the lane-local body `LaneHandler.body` (`handler_is_vexec`: EXEC guard, lane order, 64-bit
    accumulator, write-back).  A conforming handler's lane-local body returns the specification's `d` and `co`
    for the lane's operand values and its bit of the mask source. -/
theorem conforms_lane_body {h : LaneHandler} {op : VOp} (c : Conforms h op) (u : Uni) (b : C06.BodyIn)
    (hok : h.ok u = true) (hab : b.abit = false) :
    (if op.kind == .cmp then (h.body u b).dst = none
     else (h.body u b).dst.map (tr op.wd)
        = some (op.f (laneIn op b.src0 b.src1 (h.embed b).src2 (maskBit h b))).d) ∧
    (writesMask op.kind = true →
      (h.body u b).bit = (op.f (laneIn op b.src0 b.src1 (h.embed b).src2 (maskBit h b))).co) :=
  conforms_body c u b hok hab

/-- carry-in 1, 0xffffffff + 0 (negative inline constant −1 as SRC0: all 64 bits set): destination 0, carry-out 1 -/
example : (lh_gcn3_runVADDCU32.body C06.Uni.zero ⟨0xFFFFFFFFFFFFFFFF#64, 0#64, 0#64, 0#64, true, false⟩).bit = true ∧
    ((lh_gcn3_runVADDCU32.body C06.Uni.zero ⟨0xFFFFFFFFFFFFFFFF#64, 0#64, 0#64, 0#64, true, false⟩).dst.map (tr 32))
      = some 0 := by decide

/-- **Both ALUs agree wherever both conform** (last sentence of the property): two handlers proved conformant to the
    same table entry, reading the same mask source, hand the same destination value (at destination width) to
    `WriteOperand` and produce the same accumulator, on every lane input and whatever each instruction record holds. -/
theorem alus_agree_of_conforms {hg hc : LaneHandler} {op : VOp} (cg : Conforms hg op) (cc : Conforms hc op)
    (hm : hg.msrc = hc.msrc) (ug uc : Uni) (r : RawIn) (hi : r.i < 64) (hokg : hg.ok ug = true) (hokc : hc.ok uc = true) :
    ((hg.raw ug r).dst.map (tr op.wd) = (hc.raw uc r).dst.map (tr op.wd)) ∧
    (r.acc.getLsbD r.i = false → (hg.raw ug r).acc = (hc.raw uc r).acc) := by
  have h1 := cg ug r hi hokg trivial
  have h2 := cc uc r hi hokc trivial
  have hs : specLane op hg r = specLane op hc r := by simp only [specLane, maskOf, hm]
  rw [hs] at h1
  constructor
  · by_cases hk : (op.kind == .cmp) = true
    · simp only [hk, if_true] at h1 h2; rw [h1.1, h2.1]
    · simp only [hk, if_false] at h1 h2; rw [h1.1, h2.1]
  · intro h0
    by_cases hw : writesMask op.kind = true
    · simp only [hw, if_true] at h1 h2; rw [h1.2 h0, h2.2 h0]
    · simp only [hw, if_false] at h1 h2; rw [h1.2, h2.2]

/-- e.g. `v_bfe_i32`: the GCN3 variant (special case `offset + width < 32`, fill `0xffffffff << width`) and the CDNA3
    variant (arithmetic shift, `~mask`) return the same destination value on every input -/
example (u : Uni) (r : RawIn) (hi : r.i < 64) :
    (raw_gcn3_runVBFEI32 u r).dst.map (tr 32) = (raw_cdna3_runVBFEI32 u r).dst.map (tr 32) :=
  (alus_agree_of_conforms (gcn3_runVBFEI32_conforms "") (cdna3_runVBFEI32_conforms "") rfl u u r hi rfl rfl).1

/-- `v_bfrev_b32`: the two ALUs use different loops (shift the selected bit down and up again / test-and-set); both
    return the same destination value on every input -/
example (u : Uni) (r : RawIn) (hi : r.i < 64) :
    (raw_gcn3_runBFREVB32 u r).dst.map (tr 32) = (raw_cdna3_runBFREVB32 u r).dst.map (tr 32) :=
  (alus_agree_of_conforms (gcn3_runBFREVB32_conforms "") (cdna3_runBFREVB32_conforms "") rfl u u r hi rfl rfl).1

/-! ## Coverage: the proved rows against the regenerated opcode switches -/

/-- every (architecture, format, opcode, handler) entry with its conformance PROOF: an entry exists only if the theorem
    does, is about the translation of a handler of that ALU (`harch`; the row's method name is the translated
    handler's) and about the ISA table entry of that opcode (`hspec`) -/
def provedRows : List ProvedRow := [
  ⟨true, .vop1, 1, .all, lh_cdna3_runVMOVB32, un32 _ id, rfl, rfl, cdna3_runVMOVB32_conforms _⟩,
  ⟨true, .vop1, 43, .all, lh_cdna3_runVNOTB32, un32 _ (~~~ ·), rfl, rfl, cdna3_runVNOTB32_conforms _⟩,
  ⟨true, .vop1, 44, .all, lh_cdna3_runBFREVB32, un32 _ bfrev, rfl, rfl, cdna3_runBFREVB32_conforms _⟩,
  ⟨true, .vop1, 45, .all, lh_cdna3_runVFFBHU32, un32 _ ffbh, rfl, rfl, cdna3_runVFFBHU32_conforms _⟩,
  ⟨true, .vop1, 56, .all, lh_cdna3_runVMOVB64, movB64Op, rfl, rfl, cdna3_runVMOVB64_conforms⟩,
  ⟨true, .vop2, 0, .all, lh_cdna3_runVCNDMASKB32, cndmaskOp, rfl, rfl, cdna3_runVCNDMASKB32_conforms⟩,
  ⟨true, .vop2, 6, .all, lh_cdna3_runVMULI32I24, bin32 _ mulI24, rfl, rfl, cdna3_runVMULI32I24_conforms _⟩,
  ⟨true, .vop2, 8, .all, lh_cdna3_runVMULU32U24, bin32 _ mulU24, rfl, rfl, cdna3_runVMULU32U24_conforms _⟩,
  ⟨true, .vop2, 12, .all, lh_cdna3_runVMINI32, bin32 _ minI, rfl, rfl, cdna3_runVMINI32_conforms _⟩,
  ⟨true, .vop2, 13, .all, lh_cdna3_runVMAXI32, bin32 _ maxI, rfl, rfl, cdna3_runVMAXI32_conforms _⟩,
  ⟨true, .vop2, 14, .all, lh_cdna3_runVMINU32, bin32 _ minU, rfl, rfl, cdna3_runVMINU32_conforms _⟩,
  ⟨true, .vop2, 15, .all, lh_cdna3_runVMAXU32, bin32 _ maxU, rfl, rfl, cdna3_runVMAXU32_conforms _⟩,
  ⟨true, .vop2, 16, .all, lh_cdna3_runVLSHRREVB32, bin32 _ lshrrev, rfl, rfl, cdna3_runVLSHRREVB32_conforms _⟩,
  ⟨true, .vop2, 17, .all, lh_cdna3_runVASHRREVI32, bin32 _ ashrrev, rfl, rfl, cdna3_runVASHRREVI32_conforms _⟩,
  ⟨true, .vop2, 18, .all, lh_cdna3_runVLSHLREVB32, bin32 _ lshlrev, rfl, rfl, cdna3_runVLSHLREVB32_conforms _⟩,
  ⟨true, .vop2, 19, .all, lh_cdna3_runVANDB32, bin32 _ (· &&& ·), rfl, rfl, cdna3_runVANDB32_conforms _⟩,
  ⟨true, .vop2, 20, .all, lh_cdna3_runVORB32, bin32 _ (· ||| ·), rfl, rfl, cdna3_runVORB32_conforms _⟩,
  ⟨true, .vop2, 21, .all, lh_cdna3_runVXORB32, bin32 _ (· ^^^ ·), rfl, rfl, cdna3_runVXORB32_conforms _⟩,
  ⟨true, .vop2, 25, .all, lh_cdna3_runVADDI32, co32 _ addCo, rfl, rfl, cdna3_runVADDI32_conforms _⟩,
  ⟨true, .vop2, 26, .all, lh_cdna3_runVSUBI32, co32 _ subCo, rfl, rfl, cdna3_runVSUBI32_conforms _⟩,
  ⟨true, .vop2, 27, .all, lh_cdna3_runVSUBREVI32, co32 _ (fun a b => subCo b a), rfl, rfl, cdna3_runVSUBREVI32_conforms _⟩,
  ⟨true, .vop2, 28, .all, lh_cdna3_runVADDCU32, cio32 _ addcCo, rfl, rfl, cdna3_runVADDCU32_conforms _⟩,
  ⟨true, .vop2, 29, .all, lh_cdna3_runVSUBBU32, cio32 _ subbCo, rfl, rfl, cdna3_runVSUBBU32_conforms _⟩,
  ⟨true, .vop2, 30, .all, lh_cdna3_runVSUBBREVU32, cio32 _ (fun a b c => subbCo b a c), rfl, rfl, cdna3_runVSUBBREVU32_conforms _⟩,
  ⟨true, .vop2, 38, .all, lh_cdna3_runVADDU16, bin32 _ addU16, rfl, rfl, cdna3_runVADDU16_conforms _⟩,
  ⟨true, .vop2, 42, .all, lh_cdna3_runVLSHLREVB16, bin32 _ lshlrev16, rfl, rfl, cdna3_runVLSHLREVB16_conforms _⟩,
  ⟨true, .vop2, 52, .all, lh_cdna3_runVADDU32, bin32 _ (· + ·), rfl, rfl, cdna3_runVADDU32_conforms _⟩,
  ⟨true, .vop2, 53, .all, lh_cdna3_runVSUBU32, bin32 _ (· - ·), rfl, rfl, cdna3_runVSUBU32_conforms _⟩,
  ⟨true, .vop2, 54, .all, lh_cdna3_runVSUBREVU32, bin32 _ (fun a b => b - a), rfl, rfl, cdna3_runVSUBREVU32_conforms _⟩,
  ⟨true, .vop3a, 193, .all, lh_cdna3_runVCmpLtI32VOP3a, cmpOf _ 32 .int (fun a b => cmpI 1 (w32 a) (w32 b)), rfl, rfl, cdna3_runVCmpLtI32VOP3a_conforms _⟩,
  ⟨true, .vop3a, 195, .all, lh_cdna3_runVCmpLeI32VOP3a, cmpOf _ 32 .int (fun a b => cmpI 3 (w32 a) (w32 b)), rfl, rfl, cdna3_runVCmpLeI32VOP3a_conforms _⟩,
  ⟨true, .vop3a, 196, .all, lh_cdna3_runVCmpGtI32VOP3a, cmpOf _ 32 .int (fun a b => cmpI 4 (w32 a) (w32 b)), rfl, rfl, cdna3_runVCmpGtI32VOP3a_conforms _⟩,
  ⟨true, .vop3a, 198, .all, lh_cdna3_runVCmpGEI32VOP3a, cmpOf _ 32 .int (fun a b => cmpI 6 (w32 a) (w32 b)), rfl, rfl, cdna3_runVCmpGEI32VOP3a_conforms _⟩,
  ⟨true, .vop3a, 201, .all, lh_cdna3_runVCmpLtU32VOP3a, cmpOf _ 32 .int (fun a b => cmpU 1 (w32 a) (w32 b)), rfl, rfl, cdna3_runVCmpLtU32VOP3a_conforms _⟩,
  ⟨true, .vop3a, 202, .all, lh_cdna3_runVCmpEqU32VOP3a, cmpOf _ 32 .int (fun a b => cmpU 2 (w32 a) (w32 b)), rfl, rfl, cdna3_runVCmpEqU32VOP3a_conforms _⟩,
  ⟨true, .vop3a, 203, .all, lh_cdna3_runVCmpLeU32VOP3a, cmpOf _ 32 .int (fun a b => cmpU 3 (w32 a) (w32 b)), rfl, rfl, cdna3_runVCmpLeU32VOP3a_conforms _⟩,
  ⟨true, .vop3a, 204, .all, lh_cdna3_runVCmpGtU32VOP3a, cmpOf _ 32 .int (fun a b => cmpU 4 (w32 a) (w32 b)), rfl, rfl, cdna3_runVCmpGtU32VOP3a_conforms _⟩,
  ⟨true, .vop3a, 205, .all, lh_cdna3_runVCmpLgU32VOP3a, cmpOf _ 32 .int (fun a b => cmpU 5 (w32 a) (w32 b)), rfl, rfl, cdna3_runVCmpLgU32VOP3a_conforms _⟩,
  ⟨true, .vop3a, 206, .all, lh_cdna3_runVCmpGeU32VOP3a, cmpOf _ 32 .int (fun a b => cmpU 6 (w32 a) (w32 b)), rfl, rfl, cdna3_runVCmpGeU32VOP3a_conforms _⟩,
  ⟨true, .vop3a, 233, .all, lh_cdna3_runVCmpLtU64VOP3a, cmpOf _ 64 .int (fun a b => cmpU 1 (w64 a) (w64 b)), rfl, rfl, cdna3_runVCmpLtU64VOP3a_conforms _⟩,
  ⟨true, .vop3a, 256, .all, lh_cdna3_runVCNDMASKB32VOP3a, cndmaskOp, rfl, rfl, cdna3_runVCNDMASKB32VOP3a_conforms⟩,
  ⟨true, .vop3a, 450, .all, lh_cdna3_runVMADI32I24, tri32 _ madI24, rfl, rfl, cdna3_runVMADI32I24_conforms _⟩,
  ⟨true, .vop3a, 451, .all, lh_cdna3_runVMADU32U24, tri32 _ madU24, rfl, rfl, cdna3_runVMADU32U24_conforms _⟩,
  ⟨true, .vop3a, 456, .all, lh_cdna3_runVBFEU32, tri32 _ bfeU, rfl, rfl, cdna3_runVBFEU32_conforms _⟩,
  ⟨true, .vop3a, 457, .all, lh_cdna3_runVBFEI32, tri32 _ bfeI, rfl, rfl, cdna3_runVBFEI32_conforms _⟩,
  ⟨true, .vop3a, 465, .all, lh_cdna3_runVMIN3I32, tri32 _ min3I, rfl, rfl, cdna3_runVMIN3I32_conforms _⟩,
  ⟨true, .vop3a, 466, .all, lh_cdna3_runVMIN3U32, tri32 _ min3U, rfl, rfl, cdna3_runVMIN3U32_conforms _⟩,
  ⟨true, .vop3a, 468, .all, lh_cdna3_runVMAX3I32, tri32 _ max3I, rfl, rfl, cdna3_runVMAX3I32_conforms _⟩,
  ⟨true, .vop3a, 469, .all, lh_cdna3_runVMAX3U32, tri32 _ max3U, rfl, rfl, cdna3_runVMAX3U32_conforms _⟩,
  ⟨true, .vop3a, 471, .all, lh_cdna3_runVMED3I32, tri32 _ med3I, rfl, rfl, cdna3_runVMED3I32_conforms _⟩,
  ⟨true, .vop3a, 472, .all, lh_cdna3_runVMED3U32, tri32 _ med3U, rfl, rfl, cdna3_runVMED3U32_conforms _⟩,
  ⟨true, .vop3a, 499, .all, lh_cdna3_runVXADU32, tri32 _ xad, rfl, rfl, cdna3_runVXADU32_conforms _⟩,
  ⟨true, .vop3a, 509, .all, lh_cdna3_runVLSHLADDU32, tri32 _ lshlAdd, rfl, rfl, cdna3_runVLSHLADDU32_conforms _⟩,
  ⟨true, .vop3a, 510, .all, lh_cdna3_runVADDLSHLU32, tri32 _ addLshl, rfl, rfl, cdna3_runVADDLSHLU32_conforms _⟩,
  ⟨true, .vop3a, 511, .all, lh_cdna3_runVADD3U32, tri32 _ add3, rfl, rfl, cdna3_runVADD3U32_conforms _⟩,
  ⟨true, .vop3a, 512, .all, lh_cdna3_runVLSHLORB32, tri32 _ lshlOr, rfl, rfl, cdna3_runVLSHLORB32_conforms _⟩,
  ⟨true, .vop3a, 520, .all, lh_cdna3_runVLSHLADDU64, lshlAddU64Op, rfl, rfl, cdna3_runVLSHLADDU64_conforms⟩,
  ⟨true, .vop3a, 645, .all, lh_cdna3_runVMULLOU32, bin32 _ mulLo, rfl, rfl, cdna3_runVMULLOU32_conforms _⟩,
  ⟨true, .vop3a, 646, .all, lh_cdna3_runVMULHIU32, bin32 _ mulHiU, rfl, rfl, cdna3_runVMULHIU32_conforms _⟩,
  ⟨true, .vop3a, 655, .all, lh_cdna3_runVLSHLREVB64, lshlrevB64Op, rfl, rfl, cdna3_runVLSHLREVB64_conforms⟩,
  ⟨true, .vop3a, 657, .all, lh_cdna3_runVASHRREVI64, ashrrevI64Op, rfl, rfl, cdna3_runVASHRREVI64_conforms⟩,
  ⟨true, .vop3b, 281, .all, lh_cdna3_runVADDU32VOP3b, co32 _ addCo, rfl, rfl, cdna3_runVADDU32VOP3b_conforms _⟩,
  ⟨true, .vop3b, 282, .all, lh_cdna3_runVSUBU32VOP3b, co32 _ subCo, rfl, rfl, cdna3_runVSUBU32VOP3b_conforms _⟩,
  ⟨true, .vop3b, 283, .all, lh_cdna3_runVSUBREVU32VOP3b, co32 _ (fun a b => subCo b a), rfl, rfl, cdna3_runVSUBREVU32VOP3b_conforms _⟩,
  ⟨true, .vop3b, 284, .all, lh_cdna3_runVADDCU32VOP3b, cio32 _ addcCo, rfl, rfl, cdna3_runVADDCU32VOP3b_conforms _⟩,
  ⟨true, .vop3b, 285, .all, lh_cdna3_runVSUBBU32VOP3b, cio32 _ subbCo, rfl, rfl, cdna3_runVSUBBU32VOP3b_conforms _⟩,
  ⟨true, .vop3b, 286, .all, lh_cdna3_runVSUBBREVU32VOP3b, cio32 _ (fun a b c => subbCo b a c), rfl, rfl, cdna3_runVSUBBREVU32VOP3b_conforms _⟩,
  ⟨true, .vop3b, 488, .all, lh_cdna3_runVMADU64U32, madU64U32Op, rfl, rfl, cdna3_runVMADU64U32_conforms⟩,
  ⟨true, .vopc, 164, .all, lh_cdna3_runVCmpGtI16, cmpOf _ 32 .int (fun a b => cmpI 4 (BitVec.ofNat 16 a) (BitVec.ofNat 16 b)), rfl, rfl, cdna3_runVCmpGtI16_conforms _⟩,
  ⟨true, .vopc, 193, .all, lh_cdna3_runVCmpLtI32, cmpOf _ 32 .int (fun a b => cmpI 1 (w32 a) (w32 b)), rfl, rfl, cdna3_runVCmpLtI32_conforms _⟩,
  ⟨true, .vopc, 195, .all, lh_cdna3_runVCmpLeI32, cmpOf _ 32 .int (fun a b => cmpI 3 (w32 a) (w32 b)), rfl, rfl, cdna3_runVCmpLeI32_conforms _⟩,
  ⟨true, .vopc, 196, .all, lh_cdna3_runVCmpGtI32, cmpOf _ 32 .int (fun a b => cmpI 4 (w32 a) (w32 b)), rfl, rfl, cdna3_runVCmpGtI32_conforms _⟩,
  ⟨true, .vopc, 197, .all, lh_cdna3_runVCmpLgI32, cmpOf _ 32 .int (fun a b => cmpI 5 (w32 a) (w32 b)), rfl, rfl, cdna3_runVCmpLgI32_conforms _⟩,
  ⟨true, .vopc, 198, .all, lh_cdna3_runVCmpGeI32, cmpOf _ 32 .int (fun a b => cmpI 6 (w32 a) (w32 b)), rfl, rfl, cdna3_runVCmpGeI32_conforms _⟩,
  ⟨true, .vopc, 201, .all, lh_cdna3_runVCmpLtU32, cmpOf _ 32 .int (fun a b => cmpU 1 (w32 a) (w32 b)), rfl, rfl, cdna3_runVCmpLtU32_conforms _⟩,
  ⟨true, .vopc, 202, .all, lh_cdna3_runVCmpEqU32, cmpOf _ 32 .int (fun a b => cmpU 2 (w32 a) (w32 b)), rfl, rfl, cdna3_runVCmpEqU32_conforms _⟩,
  ⟨true, .vopc, 203, .all, lh_cdna3_runVCmpLeU32, cmpOf _ 32 .int (fun a b => cmpU 3 (w32 a) (w32 b)), rfl, rfl, cdna3_runVCmpLeU32_conforms _⟩,
  ⟨true, .vopc, 204, .all, lh_cdna3_runVCmpGtU32, cmpOf _ 32 .int (fun a b => cmpU 4 (w32 a) (w32 b)), rfl, rfl, cdna3_runVCmpGtU32_conforms _⟩,
  ⟨true, .vopc, 205, .all, lh_cdna3_runVCmpNeU32, cmpOf _ 32 .int (fun a b => cmpU 5 (w32 a) (w32 b)), rfl, rfl, cdna3_runVCmpNeU32_conforms _⟩,
  ⟨true, .vopc, 206, .all, lh_cdna3_runVCmpGeU32, cmpOf _ 32 .int (fun a b => cmpU 6 (w32 a) (w32 b)), rfl, rfl, cdna3_runVCmpGeU32_conforms _⟩,
  ⟨true, .vopc, 232, .all, lh_cdna3_runVCmpFU64_const, cmpOf _ 64 .int (fun a b => cmpU 0 (w64 a) (w64 b)), nl_cdna3_runVCmpFU64_facts.1, rfl, cdna3_runVCmpFU64_conforms _⟩,
  ⟨true, .vopc, 233, .all, lh_cdna3_runVCmpLtU64, cmpOf _ 64 .int (fun a b => cmpU 1 (w64 a) (w64 b)), rfl, rfl, cdna3_runVCmpLtU64_conforms _⟩,
  ⟨true, .vopc, 234, .all, lh_cdna3_runVCmpEqU64, cmpOf _ 64 .int (fun a b => cmpU 2 (w64 a) (w64 b)), rfl, rfl, cdna3_runVCmpEqU64_conforms _⟩,
  ⟨true, .vopc, 235, .all, lh_cdna3_runVCmpLeU64, cmpOf _ 64 .int (fun a b => cmpU 3 (w64 a) (w64 b)), rfl, rfl, cdna3_runVCmpLeU64_conforms _⟩,
  ⟨true, .vopc, 236, .all, lh_cdna3_runVCmpGtU64, cmpOf _ 64 .int (fun a b => cmpU 4 (w64 a) (w64 b)), rfl, rfl, cdna3_runVCmpGtU64_conforms _⟩,
  ⟨true, .vopc, 237, .all, lh_cdna3_runVCmpLgU64, cmpOf _ 64 .int (fun a b => cmpU 5 (w64 a) (w64 b)), rfl, rfl, cdna3_runVCmpLgU64_conforms _⟩,
  ⟨true, .vopc, 238, .all, lh_cdna3_runVCmpGeU64, cmpOf _ 64 .int (fun a b => cmpU 6 (w64 a) (w64 b)), rfl, rfl, cdna3_runVCmpGeU64_conforms _⟩,
  ⟨true, .vopc, 239, .all, lh_cdna3_runVCmpTruU64, cmpOf _ 64 .int (fun a b => cmpU 7 (w64 a) (w64 b)), rfl, rfl, cdna3_runVCmpTruU64_conforms _⟩,
  ⟨false, .vop1, 1, .all, lh_gcn3_runVMOVB32, un32 _ id, rfl, rfl, gcn3_runVMOVB32_conforms _⟩,
  ⟨false, .vop1, 43, .all, lh_gcn3_runVNOTB32, un32 _ (~~~ ·), rfl, rfl, gcn3_runVNOTB32_conforms _⟩,
  ⟨false, .vop1, 44, .all, lh_gcn3_runBFREVB32, un32 _ bfrev, rfl, rfl, gcn3_runBFREVB32_conforms _⟩,
  ⟨false, .vop2, 0, .all, lh_gcn3_runVCNDMASKB32, cndmaskOp, rfl, rfl, gcn3_runVCNDMASKB32_conforms⟩,
  ⟨false, .vop2, 6, .all, lh_gcn3_runVMULI32I24, bin32 _ mulI24, rfl, rfl, gcn3_runVMULI32I24_conforms _⟩,
  ⟨false, .vop2, 8, .all, lh_gcn3_runVMULU32U24, bin32 _ mulU24, rfl, rfl, gcn3_runVMULU32U24_conforms _⟩,
  ⟨false, .vop2, 12, .all, lh_gcn3_runVMINI32, bin32 _ minI, rfl, rfl, gcn3_runVMINI32_conforms _⟩,
  ⟨false, .vop2, 13, .all, lh_gcn3_runVMAXI32, bin32 _ maxI, rfl, rfl, gcn3_runVMAXI32_conforms _⟩,
  ⟨false, .vop2, 14, .all, lh_gcn3_runVMINU32, bin32 _ minU, rfl, rfl, gcn3_runVMINU32_conforms _⟩,
  ⟨false, .vop2, 15, .all, lh_gcn3_runVMAXU32, bin32 _ maxU, rfl, rfl, gcn3_runVMAXU32_conforms _⟩,
  ⟨false, .vop2, 16, .src1Vgpr, lh_gcn3_runVLSHRREVB32, bin32 _ lshrrev, rfl, rfl, gcn3_runVLSHRREVB32_conforms _⟩,
  ⟨false, .vop2, 17, .all, lh_gcn3_runVASHRREVI32, bin32 _ ashrrev, rfl, rfl, gcn3_runVASHRREVI32_conforms _⟩,
  ⟨false, .vop2, 18, .all, lh_gcn3_runVLSHLREVB32, bin32 _ lshlrev, rfl, rfl, gcn3_runVLSHLREVB32_conforms _⟩,
  ⟨false, .vop2, 19, .all, lh_gcn3_runVANDB32, bin32 _ (· &&& ·), rfl, rfl, gcn3_runVANDB32_conforms _⟩,
  ⟨false, .vop2, 20, .all, lh_gcn3_runVORB32, bin32 _ (· ||| ·), rfl, rfl, gcn3_runVORB32_conforms _⟩,
  ⟨false, .vop2, 21, .all, lh_gcn3_runVXORB32, bin32 _ (· ^^^ ·), rfl, rfl, gcn3_runVXORB32_conforms _⟩,
  ⟨false, .vop2, 25, .all, lh_gcn3_runVADDI32, co32 _ addCo, rfl, rfl, gcn3_runVADDI32_conforms _⟩,
  ⟨false, .vop2, 26, .all, lh_gcn3_runVSUBI32, co32 _ subCo, rfl, rfl, gcn3_runVSUBI32_conforms _⟩,
  ⟨false, .vop2, 27, .all, lh_gcn3_runVSUBREVI32, co32 _ (fun a b => subCo b a), rfl, rfl, gcn3_runVSUBREVI32_conforms _⟩,
  ⟨false, .vop2, 28, .all, lh_gcn3_runVADDCU32, cio32 _ addcCo, rfl, rfl, gcn3_runVADDCU32_conforms _⟩,
  ⟨false, .vop2, 29, .all, lh_gcn3_runVSUBBU32, cio32 _ subbCo, rfl, rfl, gcn3_runVSUBBU32_conforms _⟩,
  ⟨false, .vop2, 30, .all, lh_gcn3_runVSUBBREVU32, cio32 _ (fun a b c => subbCo b a c), rfl, rfl, gcn3_runVSUBBREVU32_conforms _⟩,
  ⟨false, .vop2, 42, .all, lh_gcn3_runVLSHLREVB16, bin32 _ lshlrev16, rfl, rfl, gcn3_runVLSHLREVB16_conforms _⟩,
  ⟨false, .vop3a, 193, .all, lh_gcn3_runVCmpLtI32VOP3a, cmpOf _ 32 .int (fun a b => cmpI 1 (w32 a) (w32 b)), rfl, rfl, gcn3_runVCmpLtI32VOP3a_conforms _⟩,
  ⟨false, .vop3a, 195, .all, lh_gcn3_runVCmpLeI32VOP3a, cmpOf _ 32 .int (fun a b => cmpI 3 (w32 a) (w32 b)), rfl, rfl, gcn3_runVCmpLeI32VOP3a_conforms _⟩,
  ⟨false, .vop3a, 196, .all, lh_gcn3_runVCmpGtI32VOP3a, cmpOf _ 32 .int (fun a b => cmpI 4 (w32 a) (w32 b)), rfl, rfl, gcn3_runVCmpGtI32VOP3a_conforms _⟩,
  ⟨false, .vop3a, 198, .all, lh_gcn3_runVCmpGEI32VOP3a, cmpOf _ 32 .int (fun a b => cmpI 6 (w32 a) (w32 b)), rfl, rfl, gcn3_runVCmpGEI32VOP3a_conforms _⟩,
  ⟨false, .vop3a, 201, .all, lh_gcn3_runVCmpLtU32VOP3a, cmpOf _ 32 .int (fun a b => cmpU 1 (w32 a) (w32 b)), rfl, rfl, gcn3_runVCmpLtU32VOP3a_conforms _⟩,
  ⟨false, .vop3a, 202, .all, lh_gcn3_runVCmpEqU32VOP3a, cmpOf _ 32 .int (fun a b => cmpU 2 (w32 a) (w32 b)), rfl, rfl, gcn3_runVCmpEqU32VOP3a_conforms _⟩,
  ⟨false, .vop3a, 203, .all, lh_gcn3_runVCmpLeU32VOP3a, cmpOf _ 32 .int (fun a b => cmpU 3 (w32 a) (w32 b)), rfl, rfl, gcn3_runVCmpLeU32VOP3a_conforms _⟩,
  ⟨false, .vop3a, 204, .all, lh_gcn3_runVCmpGtU32VOP3a, cmpOf _ 32 .int (fun a b => cmpU 4 (w32 a) (w32 b)), rfl, rfl, gcn3_runVCmpGtU32VOP3a_conforms _⟩,
  ⟨false, .vop3a, 205, .all, lh_gcn3_runVCmpLgU32VOP3a, cmpOf _ 32 .int (fun a b => cmpU 5 (w32 a) (w32 b)), rfl, rfl, gcn3_runVCmpLgU32VOP3a_conforms _⟩,
  ⟨false, .vop3a, 206, .all, lh_gcn3_runVCmpGeU32VOP3a, cmpOf _ 32 .int (fun a b => cmpU 6 (w32 a) (w32 b)), rfl, rfl, gcn3_runVCmpGeU32VOP3a_conforms _⟩,
  ⟨false, .vop3a, 233, .all, lh_gcn3_runVCmpLtU64VOP3a, cmpOf _ 64 .int (fun a b => cmpU 1 (w64 a) (w64 b)), rfl, rfl, gcn3_runVCmpLtU64VOP3a_conforms _⟩,
  ⟨false, .vop3a, 256, .all, lh_gcn3_runVCNDMASKB32VOP3a, cndmaskOp, rfl, rfl, gcn3_runVCNDMASKB32VOP3a_conforms⟩,
  ⟨false, .vop3a, 450, .all, lh_gcn3_runVMADI32I24, tri32 _ madI24, rfl, rfl, gcn3_runVMADI32I24_conforms _⟩,
  ⟨false, .vop3a, 451, .all, lh_gcn3_runVMADU32U24, tri32 _ madU24, rfl, rfl, gcn3_runVMADU32U24_conforms _⟩,
  ⟨false, .vop3a, 456, .all, lh_gcn3_runVBFEU32, tri32 _ bfeU, rfl, rfl, gcn3_runVBFEU32_conforms _⟩,
  ⟨false, .vop3a, 457, .all, lh_gcn3_runVBFEI32, tri32 _ bfeI, rfl, rfl, gcn3_runVBFEI32_conforms _⟩,
  ⟨false, .vop3a, 465, .all, lh_gcn3_runVMIN3I32, tri32 _ min3I, rfl, rfl, gcn3_runVMIN3I32_conforms _⟩,
  ⟨false, .vop3a, 466, .all, lh_gcn3_runVMIN3U32, tri32 _ min3U, rfl, rfl, gcn3_runVMIN3U32_conforms _⟩,
  ⟨false, .vop3a, 468, .all, lh_gcn3_runVMAX3I32, tri32 _ max3I, rfl, rfl, gcn3_runVMAX3I32_conforms _⟩,
  ⟨false, .vop3a, 469, .all, lh_gcn3_runVMAX3U32, tri32 _ max3U, rfl, rfl, gcn3_runVMAX3U32_conforms _⟩,
  ⟨false, .vop3a, 471, .all, lh_gcn3_runVMED3I32, tri32 _ med3I, rfl, rfl, gcn3_runVMED3I32_conforms _⟩,
  ⟨false, .vop3a, 472, .all, lh_gcn3_runVMED3U32, tri32 _ med3U, rfl, rfl, gcn3_runVMED3U32_conforms _⟩,
  ⟨false, .vop3a, 511, .all, lh_gcn3_runVADD3U32, tri32 _ add3, rfl, rfl, gcn3_runVADD3U32_conforms _⟩,
  ⟨false, .vop3a, 520, .all, lh_gcn3_runVLSHLADDU64, lshlAddU64Op, rfl, rfl, gcn3_runVLSHLADDU64_conforms⟩,
  ⟨false, .vop3a, 645, .all, lh_gcn3_runVMULLOU32, bin32 _ mulLo, rfl, rfl, gcn3_runVMULLOU32_conforms _⟩,
  ⟨false, .vop3a, 646, .all, lh_gcn3_runVMULHIU32, bin32 _ mulHiU, rfl, rfl, gcn3_runVMULHIU32_conforms _⟩,
  ⟨false, .vop3a, 655, .all, lh_gcn3_runVLSHLREVB64, lshlrevB64Op, rfl, rfl, gcn3_runVLSHLREVB64_conforms⟩,
  ⟨false, .vop3a, 657, .all, lh_gcn3_runVASHRREVI64, ashrrevI64Op, rfl, rfl, gcn3_runVASHRREVI64_conforms⟩,
  ⟨false, .vop3b, 281, .all, lh_gcn3_runVADDU32VOP3b, co32 _ addCo, rfl, rfl, gcn3_runVADDU32VOP3b_conforms _⟩,
  ⟨false, .vop3b, 282, .all, lh_gcn3_runVSUBU32VOP3b, co32 _ subCo, rfl, rfl, gcn3_runVSUBU32VOP3b_conforms _⟩,
  ⟨false, .vop3b, 283, .all, lh_gcn3_runVSUBREVU32VOP3b, co32 _ (fun a b => subCo b a), rfl, rfl, gcn3_runVSUBREVU32VOP3b_conforms _⟩,
  ⟨false, .vop3b, 284, .all, lh_gcn3_runVADDCU32VOP3b, cio32 _ addcCo, rfl, rfl, gcn3_runVADDCU32VOP3b_conforms _⟩,
  ⟨false, .vop3b, 285, .all, lh_gcn3_runVSUBBU32VOP3b, cio32 _ subbCo, rfl, rfl, gcn3_runVSUBBU32VOP3b_conforms _⟩,
  ⟨false, .vop3b, 286, .all, lh_gcn3_runVSUBBREVU32VOP3b, cio32 _ (fun a b c => subbCo b a c), rfl, rfl, gcn3_runVSUBBREVU32VOP3b_conforms _⟩,
  ⟨false, .vop3b, 488, .all, lh_gcn3_runVMADU64U32, madU64U32Op, rfl, rfl, gcn3_runVMADU64U32_conforms⟩,
  ⟨false, .vopc, 193, .all, lh_gcn3_runVCmpLtI32, cmpOf _ 32 .int (fun a b => cmpI 1 (w32 a) (w32 b)), rfl, rfl, gcn3_runVCmpLtI32_conforms _⟩,
  ⟨false, .vopc, 195, .all, lh_gcn3_runVCmpLeI32, cmpOf _ 32 .int (fun a b => cmpI 3 (w32 a) (w32 b)), rfl, rfl, gcn3_runVCmpLeI32_conforms _⟩,
  ⟨false, .vopc, 196, .all, lh_gcn3_runVCmpGtI32, cmpOf _ 32 .int (fun a b => cmpI 4 (w32 a) (w32 b)), rfl, rfl, gcn3_runVCmpGtI32_conforms _⟩,
  ⟨false, .vopc, 197, .all, lh_gcn3_runVCmpLgI32, cmpOf _ 32 .int (fun a b => cmpI 5 (w32 a) (w32 b)), rfl, rfl, gcn3_runVCmpLgI32_conforms _⟩,
  ⟨false, .vopc, 198, .all, lh_gcn3_runVCmpGeI32, cmpOf _ 32 .int (fun a b => cmpI 6 (w32 a) (w32 b)), rfl, rfl, gcn3_runVCmpGeI32_conforms _⟩,
  ⟨false, .vopc, 201, .all, lh_gcn3_runVCmpLtU32, cmpOf _ 32 .int (fun a b => cmpU 1 (w32 a) (w32 b)), rfl, rfl, gcn3_runVCmpLtU32_conforms _⟩,
  ⟨false, .vopc, 202, .all, lh_gcn3_runVCmpEqU32, cmpOf _ 32 .int (fun a b => cmpU 2 (w32 a) (w32 b)), rfl, rfl, gcn3_runVCmpEqU32_conforms _⟩,
  ⟨false, .vopc, 203, .all, lh_gcn3_runVCmpLeU32, cmpOf _ 32 .int (fun a b => cmpU 3 (w32 a) (w32 b)), rfl, rfl, gcn3_runVCmpLeU32_conforms _⟩,
  ⟨false, .vopc, 204, .all, lh_gcn3_runVCmpGtU32, cmpOf _ 32 .int (fun a b => cmpU 4 (w32 a) (w32 b)), rfl, rfl, gcn3_runVCmpGtU32_conforms _⟩,
  ⟨false, .vopc, 205, .all, lh_gcn3_runVCmpNeU32, cmpOf _ 32 .int (fun a b => cmpU 5 (w32 a) (w32 b)), rfl, rfl, gcn3_runVCmpNeU32_conforms _⟩,
  ⟨false, .vopc, 206, .all, lh_gcn3_runVCmpGeU32, cmpOf _ 32 .int (fun a b => cmpU 6 (w32 a) (w32 b)), rfl, rfl, gcn3_runVCmpGeU32_conforms _⟩,
  ⟨false, .vopc, 232, .all, lh_gcn3_runVCmpFU64, cmpOf _ 64 .int (fun a b => cmpU 0 (w64 a) (w64 b)), rfl, rfl, gcn3_runVCmpFU64_conforms _⟩,
  ⟨false, .vopc, 233, .all, lh_gcn3_runVCmpLtU64, cmpOf _ 64 .int (fun a b => cmpU 1 (w64 a) (w64 b)), rfl, rfl, gcn3_runVCmpLtU64_conforms _⟩,
  ⟨false, .vopc, 234, .all, lh_gcn3_runVCmpEqU64, cmpOf _ 64 .int (fun a b => cmpU 2 (w64 a) (w64 b)), rfl, rfl, gcn3_runVCmpEqU64_conforms _⟩,
  ⟨false, .vopc, 235, .all, lh_gcn3_runVCmpLeU64, cmpOf _ 64 .int (fun a b => cmpU 3 (w64 a) (w64 b)), rfl, rfl, gcn3_runVCmpLeU64_conforms _⟩,
  ⟨false, .vopc, 236, .all, lh_gcn3_runVCmpGtU64, cmpOf _ 64 .int (fun a b => cmpU 4 (w64 a) (w64 b)), rfl, rfl, gcn3_runVCmpGtU64_conforms _⟩,
  ⟨false, .vopc, 237, .all, lh_gcn3_runVCmpLgU64, cmpOf _ 64 .int (fun a b => cmpU 5 (w64 a) (w64 b)), rfl, rfl, gcn3_runVCmpLgU64_conforms _⟩,
  ⟨false, .vopc, 238, .all, lh_gcn3_runVCmpGeU64, cmpOf _ 64 .int (fun a b => cmpU 6 (w64 a) (w64 b)), rfl, rfl, gcn3_runVCmpGeU64_conforms _⟩,
  ⟨false, .vopc, 239, .all, lh_gcn3_runVCmpTruU64, cmpOf _ 64 .int (fun a b => cmpU 7 (w64 a) (w64 b)), rfl, rfl, gcn3_runVCmpTruU64_conforms _⟩ ]

/-- the entries that remain tied to the specification by the differential correspondence only, with the reason -/
def differentialOnly : List (Row × Why) := [
  (⟨"cdna3", "ds", 13, "runDSWRITEB32"⟩, .memory),
  (⟨"cdna3", "ds", 14, "runDSWRITE2B32"⟩, .memory),
  (⟨"cdna3", "ds", 30, "runDSWRITEB8"⟩, .memory),
  (⟨"cdna3", "ds", 54, "runDSREADB32"⟩, .memory),
  (⟨"cdna3", "ds", 55, "runDSREAD2B32"⟩, .memory),
  (⟨"cdna3", "ds", 78, "runDSWRITE2B64"⟩, .memory),
  (⟨"cdna3", "ds", 118, "runDSREADB64"⟩, .memory),
  (⟨"cdna3", "ds", 119, "runDSREAD2B64"⟩, .memory),
  (⟨"cdna3", "ds", 223, "runDSWRITEB128"⟩, .memory),
  (⟨"cdna3", "ds", 255, "runDSREADB128"⟩, .memory),
  (⟨"cdna3", "flat", 16, "runFlatLoadUByte"⟩, .memory),
  (⟨"cdna3", "flat", 17, "runFlatLoadSByte"⟩, .memory),
  (⟨"cdna3", "flat", 18, "runFlatLoadUShort"⟩, .memory),
  (⟨"cdna3", "flat", 19, "runFlatLoadSShort"⟩, .memory),
  (⟨"cdna3", "flat", 20, "runFlatLoadDWord"⟩, .memory),
  (⟨"cdna3", "flat", 21, "runFlatLoadDWordX2"⟩, .memory),
  (⟨"cdna3", "flat", 22, "runFlatLoadDWordX3"⟩, .memory),
  (⟨"cdna3", "flat", 23, "runFlatLoadDWordX4"⟩, .memory),
  (⟨"cdna3", "flat", 24, "runFlatStoreByte"⟩, .memory),
  (⟨"cdna3", "flat", 26, "runFlatStoreShort"⟩, .memory),
  (⟨"cdna3", "flat", 28, "runFlatStoreDWord"⟩, .memory),
  (⟨"cdna3", "flat", 29, "runFlatStoreDWordX2"⟩, .memory),
  (⟨"cdna3", "flat", 30, "runFlatStoreDWordX3"⟩, .memory),
  (⟨"cdna3", "flat", 31, "runFlatStoreDWordX4"⟩, .memory),
  (⟨"cdna3", "smem", 0, "runSLOADDWORD"⟩, .memory),
  (⟨"cdna3", "smem", 1, "runSLOADDWORDX2"⟩, .memory),
  (⟨"cdna3", "smem", 2, "runSLOADDWORDX4"⟩, .memory),
  (⟨"cdna3", "smem", 3, "runSLOADDWORDX8"⟩, .memory),
  (⟨"cdna3", "smem", 4, "runSLOADDWORDX16"⟩, .memory),
  (⟨"cdna3", "vop1", 2, "runVREADFIRSTLANEB32"⟩, .untranslated),
  (⟨"cdna3", "vop1", 4, "runVCVTF64I32"⟩, .float),
  (⟨"cdna3", "vop1", 5, "runVCVTF32I32"⟩, .float),
  (⟨"cdna3", "vop1", 6, "runVCVTF32U32"⟩, .float),
  (⟨"cdna3", "vop1", 7, "runVCVTU32F32"⟩, .float),
  (⟨"cdna3", "vop1", 8, "runVCVTI32F32"⟩, .float),
  (⟨"cdna3", "vop1", 10, "runVCVTF16F32"⟩, .float),
  (⟨"cdna3", "vop1", 15, "runVCVTF32F64"⟩, .float),
  (⟨"cdna3", "vop1", 16, "runVCVTF64F32"⟩, .float),
  (⟨"cdna3", "vop1", 17, "runVCVTF32UBYTE0"⟩, .float),
  (⟨"cdna3", "vop1", 22, "runVCVTF64U32"⟩, .float),
  (⟨"cdna3", "vop1", 28, "runTRUNKF32"⟩, .float),
  (⟨"cdna3", "vop1", 30, "runRNDNEF32"⟩, .float),
  (⟨"cdna3", "vop1", 32, "runEXPF32"⟩, .float),
  (⟨"cdna3", "vop1", 33, "runLOGF32"⟩, .float),
  (⟨"cdna3", "vop1", 34, "runVRCPIFLAGF32"⟩, .float),
  (⟨"cdna3", "vop1", 35, "runVRCPIFLAGF32"⟩, .float),
  (⟨"cdna3", "vop1", 36, "runVRSQF32"⟩, .float),
  (⟨"cdna3", "vop1", 37, "runVRCPF64"⟩, .float),
  (⟨"cdna3", "vop1", 39, "runVSQRTF32"⟩, .float),
  (⟨"cdna3", "vop1", 76, "runLogLegacyF32"⟩, .float),
  (⟨"cdna3", "vop2", 1, "runVADDF32"⟩, .float),
  (⟨"cdna3", "vop2", 2, "runVSUBF32"⟩, .float),
  (⟨"cdna3", "vop2", 3, "runVSUBREVF32"⟩, .float),
  (⟨"cdna3", "vop2", 5, "runVMULF32"⟩, .float),
  (⟨"cdna3", "vop2", 10, "runVMINF32"⟩, .float),
  (⟨"cdna3", "vop2", 11, "runVMAXF32"⟩, .float),
  (⟨"cdna3", "vop2", 22, "runVMACF32"⟩, .float),
  (⟨"cdna3", "vop2", 23, "runVFMAMKF32"⟩, .float),
  (⟨"cdna3", "vop2", 24, "runVFMAAKF32"⟩, .float),
  (⟨"cdna3", "vop2", 59, "runVFMACF32"⟩, .float),
  (⟨"cdna3", "vop3a", 16, "runVCmpClassF32VOP3a"⟩, .float),
  (⟨"cdna3", "vop3a", 65, "runVCmpLtF32VOP3a"⟩, .float),
  (⟨"cdna3", "vop3a", 68, "runVCmpGtF32VOP3a"⟩, .float),
  (⟨"cdna3", "vop3a", 70, "runVCmpGeF32VOP3a"⟩, .float),
  (⟨"cdna3", "vop3a", 78, "runVCmpNltF32VOP3a"⟩, .float),
  (⟨"cdna3", "vop3a", 258, "runVSUBF32VOP3a"⟩, .float),
  (⟨"cdna3", "vop3a", 261, "runVMULF32VOP3a"⟩, .float),
  (⟨"cdna3", "vop3a", 449, "runVMADF32"⟩, .float),
  (⟨"cdna3", "vop3a", 459, "runVFMAF32"⟩, .float),
  (⟨"cdna3", "vop3a", 460, "runVFMAF64"⟩, .float),
  (⟨"cdna3", "vop3a", 464, "runVMIN3F32"⟩, .float),
  (⟨"cdna3", "vop3a", 467, "runVMAX3F32"⟩, .float),
  (⟨"cdna3", "vop3a", 470, "runVMED3F32"⟩, .float),
  (⟨"cdna3", "vop3a", 478, "runVDIVFIXUPF32"⟩, .float),
  (⟨"cdna3", "vop3a", 479, "runVDIVFIXUPF64"⟩, .float),
  (⟨"cdna3", "vop3a", 482, "runVDIVFMASF32"⟩, .float),
  (⟨"cdna3", "vop3a", 483, "runVDIVFMASF64"⟩, .float),
  (⟨"cdna3", "vop3a", 640, "runVADDF64"⟩, .float),
  (⟨"cdna3", "vop3a", 641, "runVMULF64"⟩, .float),
  (⟨"cdna3", "vop3a", 944, "runVPKFMAF32"⟩, .float),
  (⟨"cdna3", "vop3a", 945, "runVPKMULF32"⟩, .float),
  (⟨"cdna3", "vop3a", 946, "runVPKADDF32"⟩, .float),
  (⟨"cdna3", "vop3b", 480, "runVDIVSCALEF32"⟩, .float),
  (⟨"cdna3", "vop3b", 494, "runVDIVSCALEF64"⟩, .float),
  (⟨"cdna3", "vopc", 16, "runVCmpClassF32"⟩, .float),
  (⟨"cdna3", "vopc", 65, "runVCmpLtF32"⟩, .float),
  (⟨"cdna3", "vopc", 66, "runVCmpEqF32"⟩, .float),
  (⟨"cdna3", "vopc", 67, "runVCmpLeF32"⟩, .float),
  (⟨"cdna3", "vopc", 68, "runVCmpGtF32"⟩, .float),
  (⟨"cdna3", "vopc", 69, "runVCmpLgF32"⟩, .float),
  (⟨"cdna3", "vopc", 70, "runVCmpGeF32"⟩, .float),
  (⟨"gcn3", "ds", 13, "runDSWRITEB32"⟩, .memory),
  (⟨"gcn3", "ds", 14, "runDSWRITE2B32"⟩, .memory),
  (⟨"gcn3", "ds", 30, "runDSWRITEB8"⟩, .memory),
  (⟨"gcn3", "ds", 54, "runDSREADB32"⟩, .memory),
  (⟨"gcn3", "ds", 55, "runDSREAD2B32"⟩, .memory),
  (⟨"gcn3", "ds", 78, "runDSWRITE2B64"⟩, .memory),
  (⟨"gcn3", "ds", 118, "runDSREADB64"⟩, .memory),
  (⟨"gcn3", "ds", 119, "runDSREAD2B64"⟩, .memory),
  (⟨"gcn3", "flat", 16, "runFlatLoadUByte"⟩, .memory),
  (⟨"gcn3", "flat", 17, "runFlatLoadSByte"⟩, .memory),
  (⟨"gcn3", "flat", 18, "runFlatLoadUShort"⟩, .memory),
  (⟨"gcn3", "flat", 19, "runFlatLoadSShort"⟩, .memory),
  (⟨"gcn3", "flat", 20, "runFlatLoadDWord"⟩, .memory),
  (⟨"gcn3", "flat", 21, "runFlatLoadDWordX2"⟩, .memory),
  (⟨"gcn3", "flat", 22, "runFlatLoadDWordX3"⟩, .memory),
  (⟨"gcn3", "flat", 23, "runFlatLoadDWordX4"⟩, .memory),
  (⟨"gcn3", "flat", 24, "runFlatStoreByte"⟩, .memory),
  (⟨"gcn3", "flat", 26, "runFlatStoreShort"⟩, .memory),
  (⟨"gcn3", "flat", 28, "runFlatStoreDWord"⟩, .memory),
  (⟨"gcn3", "flat", 29, "runFlatStoreDWordX2"⟩, .memory),
  (⟨"gcn3", "flat", 30, "runFlatStoreDWordX3"⟩, .memory),
  (⟨"gcn3", "flat", 31, "runFlatStoreDWordX4"⟩, .memory),
  (⟨"gcn3", "smem", 0, "runSLOADDWORD"⟩, .memory),
  (⟨"gcn3", "smem", 1, "runSLOADDWORDX2"⟩, .memory),
  (⟨"gcn3", "smem", 2, "runSLOADDWORDX4"⟩, .memory),
  (⟨"gcn3", "smem", 3, "runSLOADDWORDX8"⟩, .memory),
  (⟨"gcn3", "smem", 4, "runSLOADDWORDX16"⟩, .memory),
  (⟨"gcn3", "vop1", 2, "runVREADFIRSTLANEB32"⟩, .untranslated),
  (⟨"gcn3", "vop1", 4, "runVCVTF64I32"⟩, .float),
  (⟨"gcn3", "vop1", 5, "runVCVTF32I32"⟩, .float),
  (⟨"gcn3", "vop1", 6, "runVCVTF32U32"⟩, .float),
  (⟨"gcn3", "vop1", 7, "runVCVTU32F32"⟩, .float),
  (⟨"gcn3", "vop1", 8, "runVCVTI32F32"⟩, .float),
  (⟨"gcn3", "vop1", 10, "runVCVTF16F32"⟩, .floatBits),
  (⟨"gcn3", "vop1", 15, "runVCVTF32F64"⟩, .float),
  (⟨"gcn3", "vop1", 16, "runVCVTF64F32"⟩, .float),
  (⟨"gcn3", "vop1", 17, "runVCVTF32UBYTE0"⟩, .float),
  (⟨"gcn3", "vop1", 28, "runTRUNKF32"⟩, .float),
  (⟨"gcn3", "vop1", 30, "runRNDNEF32"⟩, .float),
  (⟨"gcn3", "vop1", 32, "runEXPF32"⟩, .float),
  (⟨"gcn3", "vop1", 33, "runLOGF32"⟩, .float),
  (⟨"gcn3", "vop1", 34, "runVRCPIFLAGF32"⟩, .float),
  (⟨"gcn3", "vop1", 35, "runVRCPIFLAGF32"⟩, .float),
  (⟨"gcn3", "vop1", 36, "runVRSQF32"⟩, .float),
  (⟨"gcn3", "vop1", 37, "runVRCPF64"⟩, .float),
  (⟨"gcn3", "vop1", 39, "runVSQRTF32"⟩, .float),
  (⟨"gcn3", "vop1", 76, "runLogLegacyF32"⟩, .floatBits),
  (⟨"gcn3", "vop2", 1, "runVADDF32"⟩, .float),
  (⟨"gcn3", "vop2", 2, "runVSUBF32"⟩, .float),
  (⟨"gcn3", "vop2", 3, "runVSUBREVF32"⟩, .float),
  (⟨"gcn3", "vop2", 4, "runVMULF32"⟩, .float),
  (⟨"gcn3", "vop2", 5, "runVMULF32"⟩, .float),
  (⟨"gcn3", "vop2", 10, "runVMINF32"⟩, .float),
  (⟨"gcn3", "vop2", 11, "runVMAXF32"⟩, .float),
  (⟨"gcn3", "vop2", 22, "runVMACF32"⟩, .float),
  (⟨"gcn3", "vop2", 24, "runVMADAKF32"⟩, .float),
  (⟨"gcn3", "vop2", 52, "runVADDI32"⟩, .noSpec),
  (⟨"gcn3", "vop2", 53, "runVSUBI32"⟩, .noSpec),
  (⟨"gcn3", "vop2", 54, "runVSUBREVI32"⟩, .noSpec),
  (⟨"gcn3", "vop3a", 65, "runVCmpLtF32VOP3a"⟩, .float),
  (⟨"gcn3", "vop3a", 68, "runVCmpGtF32VOP3a"⟩, .float),
  (⟨"gcn3", "vop3a", 78, "runVCmpNltF32VOP3a"⟩, .float),
  (⟨"gcn3", "vop3a", 258, "runVSUBF32VOP3a"⟩, .float),
  (⟨"gcn3", "vop3a", 449, "runVMADF32"⟩, .float),
  (⟨"gcn3", "vop3a", 460, "runVFMAF64"⟩, .float),
  (⟨"gcn3", "vop3a", 464, "runVMIN3F32"⟩, .float),
  (⟨"gcn3", "vop3a", 467, "runVMAX3F32"⟩, .float),
  (⟨"gcn3", "vop3a", 470, "runVMED3F32"⟩, .float),
  (⟨"gcn3", "vop3a", 479, "runVDIVFIXUPF64"⟩, .float),
  (⟨"gcn3", "vop3a", 483, "runVDIVFMASF64"⟩, .float),
  (⟨"gcn3", "vop3a", 640, "runVADDF64"⟩, .float),
  (⟨"gcn3", "vop3a", 641, "runVMULF64"⟩, .float),
  (⟨"gcn3", "vop3b", 481, "runVDIVSCALEF64"⟩, .float),
  (⟨"gcn3", "vopc", 65, "runVCmpLtF32"⟩, .float),
  (⟨"gcn3", "vopc", 66, "runVCmpEqF32"⟩, .float),
  (⟨"gcn3", "vopc", 67, "runVCmpLeF32"⟩, .float),
  (⟨"gcn3", "vopc", 68, "runVCmpGtF32"⟩, .float),
  (⟨"gcn3", "vopc", 69, "runVCmpLgF32"⟩, .float),
  (⟨"gcn3", "vopc", 70, "runVCmpGeF32"⟩, .float),
  (⟨"gcn3", "vopc", 73, "runVCmpNgeF32"⟩, .float),
  (⟨"gcn3", "vopc", 74, "runVCmpNlgF32"⟩, .float),
  (⟨"gcn3", "vopc", 75, "runVCmpNgtF32"⟩, .float),
  (⟨"gcn3", "vopc", 76, "runVCmpNleF32"⟩, .float),
  (⟨"gcn3", "vopc", 77, "runVCmpNeqF32"⟩, .float),
  (⟨"gcn3", "vopc", 78, "runVCmpNltF32"⟩, .float) ]

def provedKeys : List Row := provedRows.map (·.row)
def differentialKeys : List Row := differentialOnly.map (·.1)

#eval show IO Unit from do
  unless interleaves vectorRows provedKeys differentialKeys do
    let miss := vectorRows.filter fun r => !(provedKeys.any r.same || differentialKeys.any r.same)
    let stale := (provedKeys ++ differentialKeys).filter fun r => !vectorRows.any r.same
    throw (IO.userError s!"vector switch entries neither proved nor listed as differential-only: {repr miss}; listed but not in the switches: {repr stale}; (or the lists are not in switch order / overlap)")

/-- **Coverage summary.** The vector / memory entries of the regenerated opcode switches of both ALUs
    (VOP1/VOP2/VOPC/VOP3a/VOP3b/SMEM/DS/FLAT, in table order) are exactly partitioned into the entries covered by a
    conformance PROOF (`provedRows`: 165 — 164 for all operand values, GCN3 `v_lshrrev_b32` on VGPR SRC1;
    `v_lshl_add_u64` ×2 for every shift count since the repair of the shift mask; since `translate/lanedeep.go` also
    `v_bfrev_b32` ×2 and `v_ffbh_u32` (inner bit loops), `v_med3_i32` ×2 (`sort.Ints`) and CDNA3 `v_cmp_f_u64` (constant
    mask)) and the entries listed in `differentialOnly` with their reason (176: float data path 113, float handlers in
    integer clothing 2, memory 56, cross-lane `v_readfirstlane_b32` 2 — lane selection proved, `readfirstlane_lane_conforms`
    —, no ISA table entry 3).  A new handler, a moved opcode, or a handler that stops translating changes the
    regenerated tables and breaks this theorem (the `#eval` above names the entry). -/
theorem vector_integer_conformance_coverage :
    interleaves vectorRows provedKeys differentialKeys = true ∧
    provedKeys.length = 165 ∧ (provedRows.filter fun p => p.dom == .all).length = 164 ∧
    differentialKeys.length = 176 ∧
    (differentialOnly.filter fun d => d.2 == .float).length = 113 ∧
    (differentialOnly.filter fun d => d.2 == .memory).length = 56 ∧
    (differentialOnly.filter fun d => d.2 == .untranslated).length = 2 := by decide +kernel

/-- every proved row really carries a proof about the ISA table entry of its opcode (by construction of `ProvedRow`;
    stated so that the claim is a theorem, not a comment) -/
theorem proved_rows_conform (p : ProvedRow) (_ : p ∈ provedRows) :
    p.lh.arch = p.row.arch ∧ p.lh.name = p.row.handler ∧
    ∃ vop, specOf p.cdna3 p.fmt p.op = some vop ∧ ConformsOn p.dom.pred p.lh vop :=
  ⟨p.harch, rfl, p.vop, p.hspec, p.pf⟩

example : (provedRows.any fun p => p.row.same ⟨"gcn3", "vop2", 28, "runVADDCU32"⟩ && p.dom == .all) = true := by
  decide +kernel

end C03V.Conf
