import MgpuProofs.C14Hyp
import MgpuProofs.C14XRun
/-! # C14 — the hypotheses of the scheduler theorems

For every hypothesis of `Props/C14.lean`: either it is removed here (proved from a weaker,
reachable-state condition), or a kernel-checked witness shows that the statement fails without it;
the harness replays every witness on the real scheduler (`harness/c14_hyp.go`, sigs `C14.hyp.*`:
the real code must behave as the witness says). -/
namespace C14

/-- **never_panics without the issue rules.** For EVERY event sequence — illegal issues, units
    finishing wavefronts they do not hold, the sampling handler `wfComp` at any moment — and every
    code variant (before or after the repairs): from a state in which every wavefront is in one of
    the four states the scheduler itself assigns (Ready, Running, AtBarrier, Completed),
    `panic("never")` is not reached and only those four states occur. The hypotheses `Init`,
    `legalRun`, `fixA`, `fixB` of `never_panics` are not needed. -/
theorem never_panics_any_run (c : Cfg) (s : State) (ops : List Op) (h : Rng s) (hf : s.fault = false) :
    (run c s ops).fault = false ∧ Rng (run c s ops) :=
  ⟨(run_Rng_nofault c ops s h hf).2, (run_Rng_nofault c ops s h hf).1⟩

/-- an illegal schedule from the `two`-wavefront group: double issue, a unit "finishing" a parked
    wavefront, the sampling handler on a running one -/
def wild : State :=
  { wfs := (List.range 2).map (fun i =>
      { id := i, wg := 0, state := .ready, op := 99, lk := 0, vm := 0, osc := 0, ovc := 0,
        pc := 0, inPool := true, arr := 0, bar := 0 })
    exec := [], buf := [], out := [], sent := [], fault := false }

def wildOps : List Op :=
  [.issue 0 10 0 0, .issue 0 1 0 0, .eval, .unitDone 0, .wfComp 1, .issue 1 1 0 0, .eval, .eval]

theorem wild_rng : Rng wild := by
  intro v hv
  simp only [wild, List.mem_map, List.mem_range] at hv
  obtain ⟨i, _, rfl⟩ := hv
  exact InR_ready rfl

example : legalRun Cfg.cur wild wildOps = false ∧ (run Cfg.old wild wildOps).fault = false := by
  refine ⟨by decide, by decide⟩

/-- the one hypothesis that is left cannot be dropped: with a wavefront that is still
    `WfDispatching` in the group (a state `handleMapWGReq` never leaves behind), a parked wavefront
    whose `s_endpgm` is evaluated reaches `panic("never")` -/
def dstate : State :=
  { wfs := [{ id := 0, wg := 0, state := .atBarrier, op := 1, lk := 0, vm := 0, osc := 0, ovc := 0,
              pc := 0, inPool := true, arr := 0, bar := 0 },
            { id := 1, wg := 0, state := .dispatching, op := 99, lk := 0, vm := 0, osc := 0, ovc := 0,
              pc := 0, inPool := true, arr := 0, bar := 0 }]
    exec := [0], buf := [], out := [], sent := [], fault := false }

theorem never_panics_needs_scheduler_states :
    dstate.fault = false ∧ legalRun Cfg.cur dstate [.eval] = true ∧ (run Cfg.cur dstate [.eval]).fault = true := by
  decide

/-- **The issue rules are needed for the invariant**: a second `issueToInternal` for a wavefront
    that is already Running puts it into `internalExecuting` twice (the real scheduler does not
    check; the issue arbiter only offers Ready wavefronts). -/
theorem invariant_needs_issue_rules :
    ¬ Inv (run Cfg.cur wild [.issue 0 10 0 0, .issue 0 10 0 0]) ∧
    (run Cfg.cur wild [.issue 0 10 0 0, .issue 0 10 0 0]).exec = [0, 0] := by
  refine ⟨?_, by decide⟩
  intro h
  have := h.nodup
  revert this
  decide

/-- `wg_completion_eventually` without "no new memory access for the wavefront at `s_endpgm`" -/
def completion_eventually_without_quiet_memory (c : Cfg) : Prop :=
  ∀ (s : State) (ops : List Op) (i g : Nat) (ops' : List Op), Init s → legalRun c s ops = true →
    Pending (run c s ops) i g → legalRun c (run c s ops) ops' = true →
    ahead i (run c s ops).exec < roomEvals c (run c s ops) ops' → g ∈ (run c (run c s ops) ops').sent

def one : State :=
  { wfs := [{ id := 0, wg := 0, state := .ready, op := 99, lk := 0, vm := 0, osc := 0, ovc := 0,
              pc := 0, inPool := true, arr := 0, bar := 0 }]
    exec := [], buf := [], out := [], sent := [], fault := false }

/-- **The hypothesis on the environment is needed**: the model's `memIssue` is unrestricted, and a
    memory access counted for a wavefront that sits at `s_endpgm` keeps the completion back although
    the port has room (the real units cannot do that: a wavefront at `s_endpgm` is in no unit). -/
theorem completion_eventually_without_quiet_memory_refuted :
    ¬ completion_eventually_without_quiet_memory Cfg.cur := by
  intro h
  have := h one [.issue 0 1 0 0] 0 0 [.memIssue 0 true, .eval] ⟨rfl, rfl, by decide, by decide⟩ (by decide)
    ⟨{ id := 0, wg := 0, state := .running, op := 1, lk := 0, vm := 0, osc := 0, ovc := 0, pc := 0,
       inPool := true, arr := 0, bar := 0 },
      ⟨by decide, rfl, rfl, by decide, by decide, by decide⟩, rfl, rfl, by decide⟩ (by decide) (by decide)
  revert this
  decide

/-- ... and with the hypothesis (no `memIssue` for wavefront 0) the same round sends the message -/
example : (run Cfg.cur (run Cfg.cur one [.issue 0 1 0 0]) [.eval]).sent = [0] := by decide

/-- **The initial-state hypotheses of the compute-unit theorems are needed**: if a sampled
    wavefront had no completion event scheduled (`XInit.ev`), its group would never be reported
    although the engine is quiescent. -/
def orphan : XState :=
  { s := { wfs := [], exec := [], buf := [], out := [], sent := [], fault := false }
    sw := [{ id := 0, wg := 0, state := .sampled, op := 99, lk := 0, vm := 0, osc := 0, ovc := 0,
             pc := 0, inPool := false, arr := 0, bar := 0 }]
    evq := [] }

theorem sampled_needs_one_event_per_wavefront (is : List Nat) :
    (xrun Cfg.cur orphan (is.map XOp.fire)).s.sent = [] ∧ orphan.evq = [] := by
  refine ⟨?_, rfl⟩
  induction is with
  | nil => rfl
  | cons i is ih =>
    have e : (xstep Cfg.cur orphan (.fire i)).1 = orphan := by simp [xstep, orphan]
    simp only [List.map_cons, xrun, List.foldl_cons]
    rw [e]
    exact ih

end C14
