import MgpuProofs.C09PCP7
/-! # C09 — the `partition` placement algorithm inside the command processor

Statements about the model `MgpuModel/C09_PCP.lean`: the command processor of `C09_Disp.lean` whose
dispatchers place with `dispatching.partitionAlgorithm` on the one shared CU pool (tied to the real
`cp.CommandProcessor` + real `partitionAlgorithm` by the `c09 cp alg=partition …` correspondence,
`harness/c09_pcp.go`). All theorems hold for **every** number of dispatchers, **every** pool of CUs
satisfying the resource invariant (0 CUs included: the first launch is rejected with `fault:oversize` by the
fit check of `StartDispatching`, an empty-grid launch ends the run with `fault:div0`),
**every** sequence of environment moves (ticks, launches, completion messages with any id lists in any
order, port back-pressure). -/
namespace C09

/-- **(tie of the algorithm) One `Next` of the in-CP partition algorithm is one `Next` of the stand-alone
    partition model.** The loop of `Next` run against the real shared pool (`pNextGo`: `nextWG`, then
    `ReserveResourceForWG` on CU `i` only) computes, on the partition bookkeeping, exactly
    `Part.nextGo` under the refusal list `pFails` read off the real `reserve` outcomes, uses that list up and
    returns the same (CU, work-group index); `hist` grows by the placed index. Everything proved about `Part`
    (`partition_conserves`, the invariant `PI`) therefore holds inside the command processor. -/
theorem pcp_next_is_part_next (k : Kern) (fuel idx : Nat) (a : PAlg) (pool : List CU) (nk : Nat)
    (hnf : (pNextGo k fuel idx a pool nk).res ≠ .fault) :
    Part.nextGo fuel idx a.part (pFails k fuel idx a pool nk)
      = ((pNextGo k fuel idx a pool nk).alg.part, [], (pNextGo k fuel idx a pool nk).res.toPart) ∧
    (pNextGo k fuel idx a pool nk).alg.hist =
      (match (pNextGo k fuel idx a pool nk).res.toPart with
       | some (_, w) => w :: a.hist
       | none => a.hist) :=
  ⟨(pNextGo_sim k fuel idx a pool nk hnf).1, (pNextGo_sim k fuel idx a pool nk hnf).2.2⟩

/-- the first `Next` of the demo launch: CU 0 admits work-group 0 of partition 0 at once -/
example : let a := pStartKernel default ⟨7, 320, 64, 16, 4, 256⟩ 2
    (pNextGo ⟨7, 320, 64, 16, 4, 256⟩ 2 0 a pdemoPool 0).res.toPart = some (0, 0) ∧
    pFails ⟨7, 320, 64, 16, 4, 256⟩ 2 0 a pdemoPool 0 = [] ∧
    -- on a pool whose CU 0 is full the stand-alone model is run with the refusal list [true]
    pFails ⟨7, 320, 64, 16, 4, 256⟩ 2 0 a [pdemoCU0, pdemoCU] 0 = [true] ∧
    (pNextGo ⟨7, 320, 64, 16, 4, 256⟩ 2 0 a [pdemoCU0, pdemoCU] 0).res.toPart = some (1, 3) := by
  decide

/-- **(1) Pool safety.** Any number of dispatchers placing with the partition algorithm on one shared
    pool, any interleaving of launches, ticks, completion messages and back-pressure: every CU keeps the
    resource invariant `Inv` (resident regions disjoint and inside capacity, masks agree, wavefront slots add
    up) and the Go `panic("reserving a work-group twice")` is unreachable — although a refused work-group stays
    in `currWGs` and is offered again, possibly to another CU by work stealing. Pool initially without
    residents; launches with a non-empty grid and work-group size. -/
theorem pcp_pool_safe (caps : List (List Nat)) (cfg : Cfg) (nd : Nat) (pool : List CU) (ops : List Op)
    (hempty : ∀ cu ∈ pool, cu.resident = []) (hp : PoolInv caps pool)
    (hops : ∀ k, .launch k ∈ ops → KernOK k) :
    let cp := prun (mkPCP cfg nd pool) ops
    PoolInv caps cp.pool ∧ cp.fault ≠ some "twice" := by
  intro cp
  have h := pinv_run false caps cfg nd pool ops hempty hp hops (fun hb => by cases hb)
  exact ⟨h.k.pinv, h.noTwice⟩

example (cfg : Cfg) (nd : Nat) (ops : List Op) (hops : ∀ k, .launch k ∈ ops → KernOK k) :
    PoolInv [[2], [2]] (prun (mkPCP cfg nd pdemoPool) ops).pool ∧
    (prun (mkPCP cfg nd pdemoPool) ops).fault ≠ some "twice" :=
  pcp_pool_safe _ cfg nd pdemoPool ops pdemoPool_ok.2 pdemoPool_ok.1 hops

example : let cp := prun (mkPCP pdemoCfg 2 pdemoPool) pdemoOps
    cp.fault = none ∧ cp.pool.map (·.resident.length) = [0, 0] ∧
    cp.log.reverse.map pshowEv =
      [(0, 0, 7, 0), (1, 1, 7, 3), (2, 0, 7, 1), (3, 1, 7, 4), (4, 0, 7, 2), (99, 99, 7, 99)] := by
  decide

/-- **A MapWGReq is only sent for reserved resources.** When the loop of `Next` of a busy dispatcher returns
    a placement, the work-group is resident on that CU of the shared pool with exactly the wavefront locations
    the MapWGReq will carry, and its index lies in the grid. -/
theorem pcp_placed_is_resident (b : Bool) (caps : List (List Nat)) (Ks : List Kern) (p : List Nat) (cp : PCP)
    (i : Nat) (k : Kern) (h : PInv b caps Ks p cp) (hk : (cp.disp i).kern = some k) (c key w : Nat)
    (locs : List Loc)
    (hres : (pNextGo k (cp.disp i).alg.part.n 0 (cp.disp i).alg cp.pool cp.nextKey).res = .placed c key w locs) :
    w < k.numWG ∧
    (key, k.dem w, locs) ∈
      ((pNextGo k (cp.disp i).alg.part.n 0 (cp.disp i).alg cp.pool cp.nextKey).pool.getD c default).resident := by
  have hd := h.d i
  have hk' : (cp.dvs i).kern = some k := hk
  obtain ⟨_, hKO⟩ := hd.algK k hk'
  obtain ⟨hpi, hnw, hnp⟩ := hd.pi k hk'
  exact (pNextGo_pool caps k _ hKO (cp.disp i).alg.part.n 0 (cp.disp i).alg cp.pool cp.nextKey _ h.k.pinv hnp hpi hnw
    (h.k.toKS i)).2.2.2.2 c key w locs hres

example : let cp := prun (mkPCP pdemoCfg 2 pdemoPool) [.launch ⟨7, 320, 64, 16, 4, 256⟩, .tick]
    (cp.disp 0).kern = some ⟨7, 320, 64, 16, 4, 256⟩ ∧
    (pNextGo ⟨7, 320, 64, 16, 4, 256⟩ (cp.disp 0).alg.part.n 0 (cp.disp 0).alg cp.pool cp.nextKey).res
      = .placed 0 0 0 [⟨0, 0, 0, 0⟩] := by
  decide

/-- **(2) Accounting invariant** (`DInv`, the analogue of `DCI`), after every run, for every dispatcher `j`:
    idle ⇒ nothing placed or in flight; busy with `k` ⇒ the partition bookkeeping satisfies the stand-alone
    invariant `PI` for the indices placed so far, `NumWG = k.numWG`, one partition per CU,
    mapped + [placed, unsent] = `numDispatchedWG` ≤ `NumWG`, the placed-but-unsent work-group belongs to
    launch `k` and is the one placed last; always completed + in flight = mapped, request ids in flight
    distinct and issued. -/
theorem pcp_accounting_inv (caps : List (List Nat)) (cfg : Cfg) (nd : Nat) (pool : List CU) (ops : List Op)
    (hempty : ∀ cu ∈ pool, cu.resident = []) (hp : PoolInv caps pool)
    (hops : ∀ k, .launch k ∈ ops → KernOK k) (j : Nat) :
    let cp := prun (mkPCP cfg nd pool) ops
    DInv cp.pool.length cp.nextReq (cp.disp j).dv ∧
    (∀ k, (cp.disp j).kern = some k →
      (cp.disp j).nd + (if (cp.disp j).currWG.isSome then 1 else 0) = (cp.disp j).alg.part.nd ∧
      (cp.disp j).alg.part.nd ≤ k.numWG ∧ (cp.disp j).alg.part.numWG = k.numWG ∧
      (cp.disp j).alg.hist.Nodup ∧ (cp.disp j).alg.hist.length = (cp.disp j).alg.part.nd ∧
      ∀ w ∈ (cp.disp j).alg.hist, w < k.numWG) ∧
    (cp.disp j).nc + (cp.disp j).inflight.length = (cp.disp j).nd ∧
    ((cp.disp j).inflight.map (·.1)).Nodup := by
  intro cp
  have h := pinv_run false caps cfg nd pool ops hempty hp hops (fun hb => by cases hb)
  have hd := h.d j
  refine ⟨hd, ?_, hd.fl, hd.ids⟩
  intro k hk
  obtain ⟨hpi, hnw, _⟩ := hd.pi k hk
  refine ⟨hd.cnt k hk, hd.nd_le k hk, hnw, hpi.hnd, hpi.hcnt.symm, ?_⟩
  intro w hw
  have := PI_lt _ _ hpi w hw
  rw [hnw] at this; exact this

example : let cp := prun (mkPCP pdemoCfg 2 pdemoPool) paccOps
    (cp.disp 0).nd = 3 ∧ (cp.disp 0).currWG.isSome = true ∧ (cp.disp 0).alg.part.nd = 4 ∧
    (cp.disp 0).alg.hist = [4, 1, 3, 0] ∧ (cp.disp 0).nc = 0 ∧ (cp.disp 0).inflight.length = 3 := by
  decide

/-- **A completion response is emitted only for a complete kernel.** `Tick` calls `completeKernel` (the only
    place a `LaunchKernelRsp` is emitted) only under `kernelCompleted`; in every reachable state that guard
    means: dispatched = completed = `NumWG`, nothing in flight, nothing placed and unsent, and the indices
    placed are a permutation of `0 … NumWG−1`. -/
theorem pcp_response_only_when_complete (caps : List (List Nat)) (cfg : Cfg) (nd : Nat) (pool : List CU)
    (ops : List Op) (hempty : ∀ cu ∈ pool, cu.resident = []) (hp : PoolInv caps pool)
    (hops : ∀ k, .launch k ∈ ops → KernOK k) (i : Nat) (k : Kern) :
    let cp := prun (mkPCP cfg nd pool) ops
    (cp.disp i).kern = some k → pKernelCompleted (cp.disp i) = true →
    (cp.disp i).currWG = none ∧ (cp.disp i).inflight = [] ∧ (cp.disp i).nd = k.numWG ∧
    (cp.disp i).nc = k.numWG ∧ (cp.disp i).alg.hist.Perm (List.range k.numWG) := by
  intro cp hk hkc
  have h := pinv_run false caps cfg nd pool ops hempty hp hops (fun hb => by cases hb)
  exact pKernelCompleted_spec (cp.disp i) k (h.d i) hk hkc

example : let cp := prun (mkPCP pdemoCfg 2 pdemoPool) (pdemoOps.take 10)
    pKernelCompleted (cp.disp 0) = true ∧ (cp.disp 0).nd = 5 ∧ (cp.disp 0).nc = 5 ∧
    (cp.disp 0).alg.hist = [2, 4, 1, 3, 0] := by
  decide

/-- **(3) Exactly once, in the whole trace.** With distinct launch ids: per launch id no work-group index
    occurs in two `MapWGReq`s, and at most one `LaunchKernelRsp` is emitted. -/
theorem pcp_exactly_once (caps : List (List Nat)) (cfg : Cfg) (nd : Nat) (pool : List CU) (ops : List Op)
    (hempty : ∀ cu ∈ pool, cu.resident = []) (hp : PoolInv caps pool)
    (hops : ∀ k, .launch k ∈ ops → KernOK k) (hids : (launchIds ops).Nodup) (l : Nat) :
    let cp := prun (mkPCP cfg nd pool) ops
    (mapsOf cp.log l).Nodup ∧ rspCount cp.log l ≤ 1 := by
  intro cp
  have h := pinv_run true caps cfg nd pool ops hempty hp hops (fun _ => hids)
  obtain ⟨a1, a2, _⟩ := (h.t rfl).g.all l
  exact ⟨a1, a2⟩

/-- the demo run meets the hypotheses (well-formed pool without residents, well-formed launch, distinct ids) -/
example : let cp := prun (mkPCP pdemoCfg 2 pdemoPool) pdemoOps
    (mapsOf cp.log 7).Nodup ∧ rspCount cp.log 7 ≤ 1 :=
  pcp_exactly_once _ pdemoCfg 2 pdemoPool pdemoOps pdemoPool_ok.2 pdemoPool_ok.1 pdemoOps_ok.2 pdemoOps_ok.1 7

/-- **(3) Every mapped work-group lies in the grid of its launch.** -/
theorem pcp_maps_inside_grid (caps : List (List Nat)) (cfg : Cfg) (nd : Nat) (pool : List CU) (ops : List Op)
    (hempty : ∀ cu ∈ pool, cu.resident = []) (hp : PoolInv caps pool)
    (hops : ∀ k, .launch k ∈ ops → KernOK k) (hids : (launchIds ops).Nodup) (k : Kern)
    (hk : .launch k ∈ ops) :
    ∀ idx ∈ mapsOf (prun (mkPCP cfg nd pool) ops).log k.id, idx < k.numWG := by
  have h := pinv_run true caps cfg nd pool ops hempty hp hops (fun _ => hids)
  exact (((h.t rfl).g.all k.id).2.2 k (p_mem_launchKerns ops k hk) rfl).1

example : ∀ idx ∈ mapsOf (prun (mkPCP pdemoCfg 2 pdemoPool) pdemoOps).log 7, idx < 5 :=
  pcp_maps_inside_grid _ pdemoCfg 2 pdemoPool pdemoOps pdemoPool_ok.2 pdemoPool_ok.1 pdemoOps_ok.2 pdemoOps_ok.1
    ⟨7, 320, 64, 16, 4, 256⟩ (by decide)

/-- **(4) A response means the whole grid, once each.** With distinct launch ids: once the
    `LaunchKernelRsp` of launch `k` is in the trace, the work-group indices of its `MapWGReq`s are a
    permutation of `0 … NumWG−1` (not in grid order under `partition`). -/
theorem pcp_response_implies_whole_grid (caps : List (List Nat)) (cfg : Cfg) (nd : Nat) (pool : List CU)
    (ops : List Op) (hempty : ∀ cu ∈ pool, cu.resident = []) (hp : PoolInv caps pool)
    (hops : ∀ k, .launch k ∈ ops → KernOK k) (hids : (launchIds ops).Nodup) (k : Kern)
    (hk : .launch k ∈ ops) (hr : 0 < rspCount (prun (mkPCP cfg nd pool) ops).log k.id) :
    (mapsOf (prun (mkPCP cfg nd pool) ops).log k.id).Perm (List.range k.numWG) := by
  have h := pinv_run true caps cfg nd pool ops hempty hp hops (fun _ => hids)
  obtain ⟨_, a2, a3⟩ := (h.t rfl).g.all k.id
  exact (a3 k (p_mem_launchKerns ops k hk) rfl).2 (by omega)

example : (mapsOf (prun (mkPCP pdemoCfg 2 pdemoPool) pdemoOps).log 7).Perm (List.range 5) :=
  pcp_response_implies_whole_grid _ pdemoCfg 2 pdemoPool pdemoOps pdemoPool_ok.2 pdemoPool_ok.1 pdemoOps_ok.2
    pdemoOps_ok.1 ⟨7, 320, 64, 16, 4, 256⟩ (by decide) (by decide)

/-- the trace of the demo run: not in grid order, every index once, one response -/
example : let cp := prun (mkPCP pdemoCfg 2 pdemoPool) pdemoOps
    mapsOf cp.log 7 = [0, 3, 1, 4, 2] ∧ rspCount cp.log 7 = 1 ∧ (⟨7, 320, 64, 16, 4, 256⟩ : Kern).numWG = 5 := by
  decide

/-- work stealing: CU 1 refuses everything, CU 0 maps the whole grid, partition 1's work-groups included -/
example : let cp := prun (mkPCP pdemoCfg 1 [pdemoCU, pdemoCU0]) pstealOps
    cp.fault = none ∧
    cp.log.reverse.map pshowEv = [(0, 0, 3, 0), (1, 0, 3, 1), (2, 0, 3, 2), (3, 0, 3, 3), (99, 99, 3, 99)] := by
  decide

/-- no CU: no work-group fits, the first launch taken is rejected by the fit check of `StartDispatching`
    (repair 91eb1bb3) before `StartNewKernel` could divide by the number of CUs; only a launch with an
    empty grid (no first work-group, not checked) still reaches the division -/
example : (prun (mkPCP pdemoCfg 8 []) [.launch ⟨0, 64, 64, 16, 4, 0⟩, .tick]).fault = some "oversize" ∧
    (prun (mkPCP pdemoCfg 8 []) [.launch ⟨0, 0, 64, 16, 4, 0⟩, .tick]).fault = some "div0" := by decide

end C09
