import MgpuProofs.C12_Listeners
/-!
# C12 (listener list of a command queue) — several waiters on one queue

`C12.K` gives every application thread a `subscribed` flag; the code keeps a list of listeners per
queue and `Unsubscribe` edits that list while other listeners are live. These theorems are about the
list itself (`C12.L`, run against the real `CommandQueue` by `harness/c12_lmodel.go`): whatever
sequence of `Subscribe` / `Unsubscribe` / `Enqueue` / `Dequeue` / `Wait` calls is made, a live
listener holds a notification exactly when the queue changed since it last waited — nobody else's
`Unsubscribe` can take it away — and `Unsubscribe` removes exactly its own listener.
-/
namespace C12
namespace L

/-- **No notification is lost or invented, whoever else unsubscribes.** After ANY sequence of
    `Subscribe` / `Unsubscribe` / `Enqueue` / `Dequeue` / `Wait` calls on one queue, every live
    listener holds a buffered notification exactly when the queue has changed since that listener
    was created or last returned from `Wait`. -/
theorem token_iff_change_pending (ops : List Op) (l : Lst) (hl : l ∈ (run {} ops).ls) : l.token = l.owed :=
  (inv_run ops {} inv_init).2.2 l hl

/-- **`Wait` after a change returns.** In every reachable state, a live listener for which the queue
    has changed since its last wait does not block in `Wait`. -/
theorem wait_after_change_returns (ops : List Op) (l : Lst) (hl : l ∈ (run {} ops).ls) (ho : l.owed = true) :
    (step (run {} ops) (.wait l.id)).2 = "ok" := by
  obtain ⟨hn, _, htk⟩ := inv_run ops {} inv_init
  simp only [step]
  have hfind : ∀ (ls : List Lst), (ls.map (·.id)).Nodup → l ∈ ls → ls.find? (·.id = l.id) = some l := by
    intro ls
    induction ls with
    | nil => intro _ h; cases h
    | cons x rest ih =>
      intro hnd hm
      simp only [List.map_cons, List.nodup_cons] at hnd
      rcases List.mem_cons.mp hm with rfl | hm'
      · simp
      · have hne : x.id ≠ l.id := by
          intro he
          exact hnd.1 (by rw [he]; exact List.mem_map_of_mem hm')
        simp [hne, ih hnd.2 hm']
  rw [hfind _ hn hl]
  simp [htk l hl, ho]

/-- **`Unsubscribe` removes exactly its own listener and never panics for a live one.** In every
    reachable state the call succeeds for every listed listener, the list afterwards is the old list
    without that listener — all the others keep their position relative to each other and their
    buffered notification. -/
theorem unsubscribe_removes_exactly_one (ops : List Op) (l : Lst) (hl : l ∈ (run {} ops).ls) :
    (step (run {} ops) (.unsub l.id)).2 = "ok" ∧
    (step (run {} ops) (.unsub l.id)).1.ls = (run {} ops).ls.filter (fun x => x.id != l.id) := by
  obtain ⟨hn, _, _⟩ := inv_run ops {} inv_init
  obtain ⟨i, hi⟩ := findIdx_some_of_mem l.id (run {} ops).ls ⟨l, hl, rfl⟩
  simp only [step, hi]
  exact ⟨trivial, erase_findIdx l.id _ i hi hn⟩

/-- an `Unsubscribe` of a listener that is not listed panics (`"not subscribed"`), e.g. the second
    `Unsubscribe` of the same listener -/
theorem unsubscribe_twice_panics : (step (run {} [.sub, .unsub 0]) (.unsub 0)).2 = "fault:not_subscribed" := by decide

/-! non-vacuity: three waiters; the middle one leaves between a change and the others' waits -/
example : let s := run {} [.sub, .sub, .sub, .enq, .unsub 1]
    s.ls.map (fun l => (l.id, l.token, l.owed)) = [(0, true, true), (2, true, true)] ∧
    (step s (.wait 2)).2 = "ok" ∧ (step (step s (.wait 2)).1 (.wait 2)).2 = "hang" := by decide

end L
end C12
