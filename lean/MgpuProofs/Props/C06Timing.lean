import MgpuProofs.Props.C02Paths
/-! # C06 — the timing half: lanes and EXEC in the timing compute unit

In timing mode the ALU handlers are the SAME code (the compute unit calls `alu.Run`), so everything proved about
`vexec` / `goRun` / `goMemRun` carries over — except for the two places where the timing CU handles lanes
itself: (1) a FLAT load is split in two, the data returns later and `handleVectorDataLoadReturn` writes the
lanes; (2) a FLAT store is coalesced into cache-line write requests with byte masks. Both are modelled and
proved under C02 (`load_return_uses_issue_exec`, `coalesced_store_dirty_mask_exact`, tied to the real compute
unit and coalescer by C02's harness and oracles `C02.load-return-uses-late-exec`, `C02.store-*`). Here they
are restated as clauses of C06: lanes whose EXEC bit was clear WHEN THE INSTRUCTION EXECUTED keep their
registers and cause no memory write — whatever EXEC is by the time the memory system answers. -/
namespace C06
open C02 C02.Wf

/-- **Timing, loads — inactive lanes keep their registers, active lanes get their own data.** For a
    `flat_load_dword v[d], v[a:a+1]` whose data returns under ANY later register file `regs` (EXEC may have
    changed): a cell of `v[d]` belonging to a lane that was inactive at issue (`r0`) is left as it is — also if
    that lane is active now; a cell of a lane `l` active at issue receives the dword at lane `l`'s OWN address
    (`addr64 r0 a l`), read from memory as it was at issue; no other register changes. -/
theorem timing_load_obeys_issue_exec (d a : Nat) (r0 regs : RF) (m0 : Mem) (sv : Option Mem) :
    (∀ l, l < 64 → (execOf r0).testBit l = false →
      retRegs ⟨compile (.fld d a), r0, sv⟩ m0 regs (vreg d l) = regs (vreg d l)) ∧
    (∀ l, l < 64 → (execOf r0).testBit l = true →
      retRegs ⟨compile (.fld d a), r0, sv⟩ m0 regs (vreg d l) = Wf.le32 m0 (addr64 r0 a l)) ∧
    (∀ x, vlane r0 d x = none → retRegs ⟨compile (.fld d a), r0, sv⟩ m0 regs x = regs x) := by
  refine ⟨?_, ?_, ?_⟩
  · intro l hl hb
    rw [load_return_uses_issue_exec]
    have : vlane r0 d (vreg d l) = none := by
      unfold vlane
      have h1 : vreg d l - vreg d 0 = l := by simp only [vreg]; omega
      rw [h1, hb]
      split <;> simp
    rw [this]
  · intro l hl hb
    rw [load_return_uses_issue_exec, vlane_vreg r0 d l hl hb]
  · intro x hx
    rw [load_return_uses_issue_exec, hx]

example : (execOf (fun x => if x = EXEC then 5 else 0)).testBit 1 = false ∧
    (execOf (fun x => if x = EXEC then 5 else 0)).testBit 2 = true := by decide

/-- the lane of every access of a store is an active lane -/
theorem access_lane_active (exec cnt : Nat) (addr : Nat → Nat) (x : Acc)
    (hx : x ∈ accesses (active exec addr) cnt) : x.lane < 64 ∧ exec.testBit x.lane = true ∧ x.addr = addr x.lane + 4 * x.j := by
  simp only [accesses, active, List.mem_flatMap, List.mem_map, List.mem_filter, List.mem_range] at hx
  obtain ⟨p, ⟨i, ⟨hi, hb⟩, rfl⟩, j, _, rfl⟩ := hx
  exact ⟨hi, hb, rfl⟩

/-- **Timing, stores — inactive lanes write nothing.** In the cache-line write requests the coalescer builds
    for a FLAT store (any width, register count, EXEC, addresses — duplicates and overlaps included), a byte is
    dirty only if an ACTIVE lane (`l < 64`, EXEC bit set) addresses it with its own address `addr l`; and a byte
    no active lane addresses keeps its value in memory, in whatever order the requests are applied. A lane whose
    EXEC bit is clear therefore contributes no byte, no request and no memory change. -/
theorem timing_store_obeys_exec (ls bw cnt exec : Nat) (addr : Nat → Nat) (data : Nat → Nat → Nat) :
    (∀ (ln : Nat) (c : Nat × Nat) (v : Nat),
      summ ((storeW ls bw cnt (active exec addr) data).filter fun w => w.key = ln) c = some v →
      ∃ l j b, l < 64 ∧ exec.testBit l = true ∧ j < cnt ∧ b < bw ∧ c = (0, addr l + 4 * j + b)) ∧
    (∀ (ord : List Nat) (m : St) (c : Nat × Nat),
      (∀ l j b, l < 64 → exec.testBit l = true → j < cnt → b < bw → c ≠ (0, addr l + 4 * j + b)) →
      timingStore ls bw cnt (active exec addr) data ord m c = m c) := by
  obtain ⟨h1, _, h3⟩ := coalesced_store_dirty_mask_exact ls bw cnt exec addr data
  refine ⟨?_, ?_⟩
  · intro ln c v hs
    obtain ⟨x, hx, b, hb, hc, _⟩ := h1 ln c v hs
    obtain ⟨hl, he, ha⟩ := access_lane_active exec cnt addr x hx
    have hj : x.j < cnt := by
      simp only [accesses, List.mem_flatMap, List.mem_map, List.mem_range] at hx
      obtain ⟨p, _, j, hj, rfl⟩ := hx
      exact hj
    exact ⟨x.lane, x.j, b, hl, he, hj, hb, by rw [hc, ha]⟩
  · intro ord m c hc
    apply h3
    intro x hx b hb
    obtain ⟨hl, he, ha⟩ := access_lane_active exec cnt addr x hx
    have hj : x.j < cnt := by
      simp only [accesses, List.mem_flatMap, List.mem_map, List.mem_range] at hx
      obtain ⟨p, _, j, hj, rfl⟩ := hx
      exact hj
    rw [ha]
    exact hc x.lane x.j b hl he hj hb

-- EXEC = 5: lane 1 is inactive — the byte only lane 1 would address (0x104) is in no request
example :
    let ws := storeW 64 4 1 (active 5 (fun i => 0x100 + 4 * i)) (fun l _ => 0x11 * (l + 1))
    summ (ws.filter fun w => w.key = lineOf 64 0x104) (0, 0x104) = none ∧
    summ (ws.filter fun w => w.key = lineOf 64 0x100) (0, 0x100) = some 0x11 := by decide

/-- **Timing, VALU under EXEC = 0** (C02 `valu_scalar_result_under_exec0`, lane part): the timing CU hands a
    vector compare to `alu.Run` also when no lane is active, and the shared handler then writes VCC = 0 — the
    value `inactive_lanes_unchanged` gives for a fresh accumulator; `v_readfirstlane_b32` reads lane 0
    (`readfirstlane_scan_spec` with EXEC = 0). -/
theorem timing_valu_under_exec_zero (sa a d p : Nat) (r : RF) (he : execOf r = 0) :
    (compile (.vcmp sa a)).f p r VCC = 0 ∧ (compile (.vrfl d a)).f p r (sreg d) = r (vreg a 0) % Wf.M32 := by
  have hl : lanes (execOf r) = [] := by rw [he]; simp [lanes]
  constructor <;> simp [compile, hl, setR]

example : execOf (fun _ => 0) = 0 := by decide

end C06
