import MgpuProofs.C02WfStep
import MgpuProofs.C02WfConcrete
/-! # C02 — one wavefront on the timing compute unit simulates the emulator

`MgpuModel/C02Wf.lean` transcribes, for one wavefront, the rules by which the timing compute unit lets
things happen (`tstep`: fetch / decode / issue only when `WfReady` / `alu.Run` in a unit / write stage
`UpdatePCAndSetReady` / FLAT and SMEM accesses captured at execute, performed by the memory later,
written back when the response returns / `s_waitcnt` and `s_endpgm` gated by the two outstanding
counters / foreign writes to memory the wavefront does not own) next to the emulator's loop (`estep`).
The theorems quantify over **every** event sequence those rules accept, every issue gate (scoreboard
on or off, `CanAcceptWave`, arbitration: `gate` is an arbitrary predicate), every order in which the
memory performs the accesses in flight, every order of scalar responses (vector responses in request
order: reorder buffer, C15), every program and input.  The model is tied to the real `cu.ComputeUnit`
(ticked by hand) and the real emulator ALU by `harness/c02_deep.go`.
-/
namespace C02.Wf

/-- **wavefront_timing_equals_emulator.** Take any program (instruction memory + decoder) whose
    instructions behave as `emu.ALU` instructions do (`Prog.WF`: they read only their source operands,
    write only their destinations, do not look at the PC; relative branches; loads/stores touch only
    the byte ranges they declare). Let the emulator's run from the
    initial state finish within `fuel` instructions and pass the hazard check `hazardFreeRun` (every
    register an instruction reads or writes is not the destination of a load still in flight, a memory
    access does not overlap an access still in flight when one of them is a store, every access stays
    inside the memory nobody else writes — "in flight" as
    `s_waitcnt` placement guarantees it: decidable). Then for EVERY sequence of events the compute
    unit's rules allow — any issue gate (scoreboard on/off, unit availability), any fetch timing, any
    order of performing the accesses and of scalar responses, any foreign writes outside the owned
    memory — if the wavefront reaches `WfCompleted`, the emulator also terminates, and registers, owned
    memory and the sequence of executed instructions (PCs in issue order) are identical. -/
theorem wavefront_timing_equals_emulator (P : Prog) (hP : P.WF) (gate : TState → Inst → Bool)
    (pc : Nat) (regs : RF) (mem : Mem) (fuel : Nat)
    (hhaz : hazardFreeRun P fuel (einit pc regs mem, {}) = true)
    (evs : List Ev) (T : TState) (hrun : trun P gate (tinit pc regs mem) evs = some T)
    (hdone : T.ph = .done) :
    ∃ n E, erun P n (einit pc regs mem) = some E ∧ E.done = true ∧ T.regs = E.regs ∧
      (∀ a, P.own a = true → T.mem a = E.mem a) ∧ T.trace = E.trace := by
  obtain ⟨n, E, H, hr, hinv⟩ := sim_run hP hhaz evs _ T (sim_init pc regs mem) hrun
  have hp := hinv.p
  rw [hdone] at hp
  simp only [InvP] at hp
  obtain ⟨hd, htr, hv, hs⟩ := hp
  refine ⟨n, E, ehrun_erun P n _ _ hr, hd, ?_, ?_, htr⟩
  · funext x
    symm
    apply hinv.r.r1
    intro p hp
    rw [hv, hs] at hp
    simp at hp
  · intro a ha
    symm
    apply hinv.m.m1 a ha
    intro p hp
    rw [hv] at hp
    simp at hp

/-- **wavefront_quiescent_points_match.** The same at every intermediate point where the wavefront is
    between two instructions with nothing in flight (both counters 0): its registers, owned memory,
    PC and executed-instruction sequence are exactly those of the emulator after some number of
    instructions — timing mode never shows an architectural state the emulator does not pass through. -/
theorem wavefront_quiescent_points_match (P : Prog) (hP : P.WF) (gate : TState → Inst → Bool)
    (pc : Nat) (regs : RF) (mem : Mem) (fuel : Nat)
    (hhaz : hazardFreeRun P fuel (einit pc regs mem, {}) = true)
    (evs : List Ev) (T : TState) (hrun : trun P gate (tinit pc regs mem) evs = some T)
    (hready : T.ph = .ready) (hvm : T.vm = 0) (hlgkm : T.lgkm = 0) :
    ∃ n E, erun P n (einit pc regs mem) = some E ∧ T.pc = E.pc ∧ T.regs = E.regs ∧
      (∀ a, P.own a = true → T.mem a = E.mem a) ∧ T.trace = E.trace := by
  obtain ⟨n, E, H, hr, hinv⟩ := sim_run hP hhaz evs _ T (sim_init pc regs mem) hrun
  have hp := hinv.p
  rw [hready] at hp
  simp only [InvP] at hp
  obtain ⟨hv, hs, _⟩ := hinv.c.done hvm hlgkm
  refine ⟨n, E, ehrun_erun P n _ _ hr, hp.1.symm, ?_, ?_, hp.2.1.symm⟩
  · funext x
    symm
    apply hinv.r.r1
    intro p hp
    rw [hv, hs] at hp
    simp at hp
  · intro a ha
    symm
    apply hinv.m.m1 a ha
    intro p hp
    rw [hv] at hp
    simp at hp

/-- **issued_trace_is_emulator_prefix.** At ANY moment of a hazard-free run (instructions in flight or
    not) the sequence of instructions the wavefront has issued so far is the sequence the emulator
    executes: the emulator's trace after some number of steps, plus at most the instruction in the pipe. -/
theorem issued_trace_is_emulator_prefix (P : Prog) (hP : P.WF) (gate : TState → Inst → Bool)
    (pc : Nat) (regs : RF) (mem : Mem) (fuel : Nat)
    (hhaz : hazardFreeRun P fuel (einit pc regs mem, {}) = true)
    (evs : List Ev) (T : TState) (hrun : trun P gate (tinit pc regs mem) evs = some T) :
    ∃ n E, erun P n (einit pc regs mem) = some E ∧
      (T.trace = E.trace ∨ (T.trace = E.trace ++ [E.pc] ∧ T.ph = .issued ∧ T.pc = E.pc)) := by
  obtain ⟨n, E, H, hr, hinv⟩ := sim_run hP hhaz evs _ T (sim_init pc regs mem) hrun
  refine ⟨n, E, ehrun_erun P n _ _ hr, ?_⟩
  have hp := hinv.p
  cases hph : T.ph <;> rw [hph] at hp <;> simp only [InvP] at hp
  · exact Or.inl hp.2.1.symm
  · obtain ⟨i, _, _, hpc, htr, _⟩ := hp
    exact Or.inr ⟨by rw [hpc]; exact htr, rfl, hpc.symm⟩
  · obtain ⟨i, _, _, _, htr, _⟩ := hp
    exact Or.inl htr
  · exact Or.inl hp.2.1

/-- **driver_runs_the_model.** What the correspondence driver evaluates on a `c02 wf` case line is
    exactly the machine the theorems are about: its event loop (which re-tabulates the register file and
    the memory after every event so that closures do not pile up — extensionally the identity) accepts a
    sequence iff `trun` does and ends in the same state, and its emulator loop is `erun`. -/
theorem driver_runs_the_model (P : Prog) (s : TState) (evs : List Ev) (E : EState) (n : Nat) :
    ((trunIdx P s evs).2 = none → trun P (fun _ _ => true) s evs = some (trunIdx P s evs).1) ∧
    ((erunFuel P n E).2 = "done" →
      ∃ k, k ≤ n ∧ erun P k E = some (erunFuel P n E).1 ∧ (erunFuel P n E).1.done = true) :=
  ⟨trunIdx_go_eq P evs s 0, erunFuel_eq P n E⟩

end C02.Wf
