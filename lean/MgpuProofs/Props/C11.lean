import MgpuModel.C11
import MgpuProofs.C11Flush
import MgpuProofs.C11Copy
import MgpuProofs.C11DmaStep
import MgpuProofs.C11DmaTie
/-! # C11 — property theorems (host/device copies move exactly the requested bytes)

Only property statements live here; helper lemmas are in `MgpuProofs/C11*.lean`. -/
namespace C11

/-- `chain a l`: the pieces of `l` are consecutive, starting at address `a`. -/
def chain : Nat → List (Nat × Nat) → Prop
  | _, [] => True
  | a, (x, n) :: r => x = a ∧ chain (a + n) r

/-- The pieces of a split add up to exactly the requested length (no byte lost, none added),
    for every unit, address and length. -/
theorem split_sum (unit : Nat) (hu : 0 < unit) (addr len : Nat) :
    ((splitBy unit hu addr len).map (·.2)).sum = len := by
  induction len using Nat.strongRecOn generalizing addr with
  | _ len ih =>
    unfold splitBy
    split
    · simp_all
    · rename_i h
      simp only [List.map_cons, List.sum_cons]
      have hlt : addr % unit < unit := Nat.mod_lt _ hu
      have hn : 0 < min len (unit - addr % unit) := by omega
      rw [ih (len - min len (unit - addr % unit)) (by omega)]
      omega

/-- Pieces are consecutive: the first starts at `addr`, each next one where the previous ended. -/
theorem split_chain (unit : Nat) (hu : 0 < unit) (addr len : Nat) :
    chain addr (splitBy unit hu addr len) := by
  induction len using Nat.strongRecOn generalizing addr with
  | _ len ih =>
    unfold splitBy
    split
    · simp [chain]
    · rename_i h
      have hlt : addr % unit < unit := Nat.mod_lt _ hu
      have hn : 0 < min len (unit - addr % unit) := by omega
      exact ⟨rfl, ih _ (by omega) _⟩

/-- Every piece is non-empty and lies inside one unit (page / cache line / DMA access unit). -/
theorem split_in_unit (unit : Nat) (hu : 0 < unit) (addr len : Nat) :
    ∀ p ∈ splitBy unit hu addr len, 0 < p.2 ∧ p.1 / unit = (p.1 + p.2 - 1) / unit := by
  induction len using Nat.strongRecOn generalizing addr with
  | _ len ih =>
    unfold splitBy
    split
    · simp
    · rename_i h
      intro p hp
      simp only [List.mem_cons] at hp
      have hlt : addr % unit < unit := Nat.mod_lt _ hu
      rcases hp with rfl | hp
      · refine ⟨by simp; omega, ?_⟩
        simp only
        have h1 : min len (unit - addr % unit) ≤ unit - addr % unit := Nat.min_le_right _ _
        have h2 : 0 < min len (unit - addr % unit) := by omega
        apply Eq.symm
        rw [Nat.div_eq_iff hu]
        constructor
        · have : unit * (addr / unit) ≤ addr := Nat.mul_div_le addr unit
          rw [Nat.mul_comm]; omega
        · rw [Nat.mul_comm]
          have : addr = unit * (addr / unit) + addr % unit := (Nat.div_add_mod addr unit).symm
          have e : unit * (addr / unit + 1) = unit * (addr/unit) + unit := by rw [Nat.mul_add, Nat.mul_one]
          omega
      · exact ih _ (by omega) _ p hp

/-- non-vacuity: a copy of 130 bytes at 0x103e with 64-byte units is cut into 2+64+64 bytes -/
example : splitBy 64 (by decide) 4158 130 = [(4158, 2), (4160, 64), (4224, 64)] := by
  simp [splitBy]

def intersects (s1 e1 s2 e2 : Nat) : Prop := ∃ x, s1 ≤ x ∧ x < e1 ∧ s2 ≤ x ∧ x < e2

/-- The flush test never reports an overlap for disjoint ranges. -/
theorem overlap_sound (s1 e1 s2 e2 : Nat) (h2 : s2 < e2) (h : memRangeOverlap s1 e1 s2 e2 = true) :
    intersects s1 e1 s2 e2 := by
  simp only [memRangeOverlap, Bool.or_eq_true, Bool.and_eq_true, decide_eq_true_eq] at h
  rcases h with ⟨a, b⟩ | ⟨a, b⟩
  · exact ⟨s2, a, b, Nat.le_refl _, h2⟩
  · exact ⟨e2 - 1, by omega, by omega, by omega, by omega⟩

/-- A non-empty copy lying inside a (dirty) buffer is always detected — the API's precondition,
    so a device-to-host copy is always preceded by the flush that makes kernel writes visible. -/
theorem overlap_complete_when_contained (s1 e1 s2 e2 : Nat) (h2 : s2 < e2) (hs : s1 ≤ s2) (he : e2 ≤ e1) :
    memRangeOverlap s1 e1 s2 e2 = true := by
  simp only [memRangeOverlap, Bool.or_eq_true, Bool.and_eq_true, decide_eq_true_eq]
  left; omega

/-- The exact gap of the test: undetected intersections are those where the copy strictly
    contains the buffer on both sides (outside the API contract: a copy never exceeds its buffer). -/
theorem overlap_gap (s1 e1 s2 e2 : Nat) (h1 : s1 < e1) (h2 : s2 < e2) :
    (memRangeOverlap s1 e1 s2 e2 = false ∧ intersects s1 e1 s2 e2) ↔ (s2 < s1 ∧ e1 < e2) := by
  simp only [memRangeOverlap, Bool.or_eq_false_iff, Bool.and_eq_false_iff, decide_eq_false_iff_not]
  constructor
  · rintro ⟨⟨a, b⟩, x, hx1, hx2, hx3, hx4⟩
    omega
  · rintro ⟨a, b⟩
    exact ⟨⟨by omega, by omega⟩, s1, Nat.le_refl _, h1, by omega, by omega⟩

/-! ## Copies through the page table: tiling, round trip, frame, latest write -/

/-- a 3-page table (4-byte pages at virtual 16, 20, 24) whose physical order is permuted
    (108, 100, 104), used by the `example`s; a copy of 8 bytes at 18 crosses both page boundaries -/
def demoPt : List Page := [⟨16, 108, 4⟩, ⟨20, 100, 4⟩, ⟨24, 104, 4⟩]

example : PtInj demoPt := by decide

/-- **Page-wise splitting is exact.** Whenever the loop of `processMemCopyH2D/D2HCommand`
    succeeds (`left ≤ fuel` is how both callers start it), its pieces `(paddr, dataOffset, len)`
    satisfy `Tiles` (see `MgpuProofs/C11Copy.lean`): data offsets are consecutive from `off`, virtual
    addresses consecutive from `addr`, every length is positive, every piece lies inside the ONE page
    that `findPage` returns for its first byte, with `paddr = page.paddr + (vaddr − page.vaddr)`, and
    the lengths add up to `left`. The loop fails — the "page not found" panic — exactly when some
    byte of the range has no page. No hypothesis on the page table. -/
theorem pieces_tile (pt : List Page) (fuel addr off left : Nat) (hle : left ≤ fuel) :
    (∀ ps, pieces pt fuel addr off left = some ps →
        Tiles pt addr off ps ∧ (ps.map (·.2.2)).sum = left) ∧
    (pieces pt fuel addr off left = none ↔ ∃ i, i < left ∧ findPage pt (addr + i) = none) :=
  ⟨fun ps h => pieces_tiles fuel addr off left ps hle h, pieces_none_iff fuel addr off left hle⟩

example : pieces demoPt 8 18 0 8 = some [(110, 0, 2), (100, 2, 4), (104, 6, 2)] ∧
    pieces demoPt 8 18 0 11 = none ∧ findPage demoPt 28 = none := by decide

/-- **A copy is defined exactly when its whole range is mapped** (otherwise the real code panics
    with "page not found"). -/
theorem h2d_defined_iff (pt : List Page) (m : Mem) (addr : Nat) (data : List Nat) :
    (∃ m', h2d pt m addr data = some m') ↔ ∀ i, i < data.length → translate pt (addr + i) ≠ none := by
  constructor
  · rintro ⟨m', h⟩
    obtain ⟨ps, hp, _⟩ := h2d_some h
    exact pieces_mapped (Nat.le_refl _) hp
  · intro hm
    obtain ⟨ps, hp⟩ := pieces_some_of_mapped (off := 0) (Nat.le_refl data.length) hm
    exact ⟨foldW data ps m, by rw [h2d_eq, hp]; rfl⟩

/-- **Per-byte effect of a host-to-device copy**: byte `i` of the data ends up at the physical
    address the page table assigns to `addr + i`. -/
theorem h2d_bytes (pt : List Page) (hinj : PtInj pt) (m m' : Mem) (addr : Nat) (data : List Nat)
    (h : h2d pt m addr data = some m') (i : Nat) (hi : i < data.length) :
    translate pt (addr + i) = some (tr pt (addr + i)) ∧ m' (tr pt (addr + i)) = data.getD i 0 := by
  obtain ⟨ps, hp, _⟩ := h2d_some h
  have hm := pieces_mapped (Nat.le_refl _) hp i hi
  refine ⟨translate_eq_tr hm, ?_⟩
  rw [h2d_view hinj h _ hm, if_pos (by omega), Nat.add_sub_cancel_left]

/-- **Round trip (headline).** For every injective page table (`PtInj`: pages pairwise disjoint
    virtually and physically — C10's invariant), every memory, address and data whose range is
    mapped: the host-to-device copy succeeds and copying the same range back returns exactly the
    data. The table is arbitrary, so ranges spanning any number of pages — and therefore the
    memories of several GPUs, in any physical order — are covered. -/
theorem h2d_d2h_roundtrip (pt : List Page) (hinj : PtInj pt) (m : Mem) (addr : Nat) (data : List Nat)
    (hmap : ∀ i, i < data.length → translate pt (addr + i) ≠ none) :
    ∃ m', h2d pt m addr data = some m' ∧ d2h pt m' addr data.length = some data := by
  obtain ⟨m', h⟩ := (h2d_defined_iff pt m addr data).2 hmap
  refine ⟨m', h, ?_⟩
  obtain ⟨ps, hp, _⟩ := h2d_some h
  have : d2h pt m' addr data.length = some ((List.range data.length).map fun i => m' (tr pt (addr + i))) := by
    unfold d2h; rw [hp]; simp only [Option.map_some]
    rw [read_spec hinj m' data.length addr 0 data.length ps (Nat.le_refl _) hp]
  rw [this]; congr 1
  rw [← map_getD_range data]
  simp only [List.length_map, List.length_range]
  apply List.map_congr_left
  intro i hi
  exact (h2d_bytes pt hinj m m' addr data h i (List.mem_range.1 hi)).2

example : (h2d demoPt (fun a => a % 7) 18 [1, 2, 3, 4, 5, 6, 7, 8]).bind
    (fun m' => d2h demoPt m' 18 8) = some [1, 2, 3, 4, 5, 6, 7, 8] := by decide

/-- **Frame.** A host-to-device copy changes no physical byte other than the images of the bytes
    of its range — in particular nothing in other pages, other buffers or other GPUs' memories.
    (The device-to-host direction cannot change memory at all: `d2h` returns only the bytes read,
    `d2h : List Page → Mem → Nat → Nat → Option (List Nat)`.) -/
theorem h2d_frame (pt : List Page) (hinj : PtInj pt) (m m' : Mem) (addr : Nat) (data : List Nat)
    (h : h2d pt m addr data = some m') (q : Nat)
    (hq : ∀ i, i < data.length → translate pt (addr + i) ≠ some q) : m' q = m q := by
  obtain ⟨ps, hp, rfl⟩ := h2d_some h
  exact (foldW_spec hinj data data.length addr 0 data.length ps m (Nat.le_refl _) (by omega) hp).2 q hq

example : ((h2d demoPt (fun a => a % 7) 18 [1, 2, 3, 4, 5, 6, 7, 8]).map
    fun m' => (List.range 14).map fun k => m' (99 + k)) =
    some [1, 3, 4, 5, 6, 7, 8, 1, 2, 3, 4, 1, 2, 0] := by decide

/-- **A device-to-host copy observes the latest write, byte by byte.** After two host-to-device
    copies to arbitrary (possibly overlapping, possibly differently aligned) ranges, reading any
    mapped range returns for each byte the value of the newer copy where it covers the byte,
    else of the older copy where that covers it, else the original memory content. -/
theorem d2h_reads_latest (pt : List Page) (hinj : PtInj pt) (m m1 m2 : Mem)
    (a1 : Nat) (d1 : List Nat) (a2 : Nat) (d2 : List Nat) (a len : Nat) (out : List Nat)
    (h1 : h2d pt m a1 d1 = some m1) (h2 : h2d pt m1 a2 d2 = some m2)
    (h3 : d2h pt m2 a len = some out) :
    out.length = len ∧ ∀ i, i < len → out.getD i 0 =
      if a2 ≤ a + i ∧ a + i < a2 + d2.length then d2.getD (a + i - a2) 0
      else if a1 ≤ a + i ∧ a + i < a1 + d1.length then d1.getD (a + i - a1) 0
      else m (tr pt (a + i)) := by
  have hout := d2h_spec hinj h3
  have hmapped : ∀ i, i < len → translate pt (a + i) ≠ none := by
    unfold d2h at h3
    cases hp : pieces pt len a 0 len with
    | none => simp [hp] at h3
    | some ps => exact pieces_mapped (Nat.le_refl _) hp
  subst hout
  refine ⟨by simp, fun i hi => ?_⟩
  rw [List.getD_eq_getElem?_getD, List.getElem?_map, List.getElem?_range hi]
  simp only [Option.map_some, Option.getD_some]
  rw [h2d_view hinj h2 _ (hmapped i hi)]
  split
  · rfl
  · exact h2d_view hinj h1 _ (hmapped i hi)

example : ((h2d demoPt (fun a => a % 7) 16 [1, 2, 3, 4, 5, 6]).bind fun m1 =>
    (h2d demoPt m1 19 [11, 12, 13, 14, 15, 16, 17]).bind fun m2 => d2h demoPt m2 17 10) =
    some [2, 3, 11, 12, 13, 14, 15, 16, 17, 1] := by decide

/-! ## The DMA engine under every environment

`reach log2 maxReq memCap ops` is the state of the tick-exact `Dma` model (`DMAEngine.Tick`) and of
its environment after an **arbitrary** list `ops : List EnvOp` of environment moves — a copy request
arriving at ToCP, a tick, the memory side taking `k` requests from ToMem's outgoing buffer, a
response for the `j`-th outstanding request (any order), the CP side draining completions, and
`inject id` (an arbitrary, possibly bogus or duplicated, response id) — for an **arbitrary**
configuration. `Env.step` performs the same state updates as `dmaOp` of the executable driver
(plus the ghost histories `seen`, `drained`). -/

def reach (log2 maxReq memCap : Nat) (ops : List EnvOp) : Env := (Env.init log2 maxReq memCap).run ops

/-- two concurrent copies (H2D of 7 bytes at 6 → 3 sub-requests with 4-byte units, D2H of 3 bytes
    at 17 → 1 sub-request), answered out of order: the younger copy finishes first -/
def demoOps : List EnvOp :=
  [.copy .h2d 6 7, .copy .d2h 17 3, .tick, .tick, .tick, .tick, .tick, .take 4,
   .respond 3, .respond 2, .tick, .tick, .respond 0, .tick, .respond 0, .tick, .tick, .tick, .drain]

/-- **The bookkeeping invariant** (`DInv`, 12 clauses, `MgpuProofs/C11DmaInv.lean`) holds after
    every op sequence, bogus responses included. -/
theorem dma_inv (log2 maxReq memCap : Nat) (ops : List EnvOp) : (reach log2 maxReq memCap ops).Inv :=
  Env.run_inv (Env.init_inv log2 maxReq memCap) ops

/-- **Each copy completes exactly once, and only after all its memory transactions.**
    After every op sequence: (1) no copy id occurs twice in `completed`; (2) the completion
    responses actually emitted towards the CP (already drained, in the ToCP port, or waiting in
    `toSendToCP`) are exactly `completed`, in order — so no response is duplicated or lost;
    (3) every completed id belongs to a copy request that was received, and that request is no
    longer queued or in processing; (4) no memory transaction of a completed copy is still
    pending (`owner` = ghost copy id of a sub-request). -/
theorem dma_exactly_once (log2 maxReq memCap : Nat) (ops : List EnvOp) :
    let e := reach log2 maxReq memCap ops
    e.s.completed.Nodup ∧
    e.s.completed = e.drained ++ e.s.cpOut ++ e.s.toCP ∧
    (∀ cid ∈ e.s.completed, (∃ r ∈ e.cps, r.id = cid) ∧ cid ∉ procIds e.s ∧ cid ∉ e.s.cpIn.map (·.id)) ∧
    (∀ q ∈ e.s.pending, q.owner ∉ e.s.completed) := by
  intro e
  have h := dma_inv log2 maxReq memCap ops
  have hnd := h.d.ids_nodup
  rw [List.nodup_append, List.nodup_append] at hnd
  obtain ⟨⟨h1, h2, h3⟩, h4, h5⟩ := hnd
  refine ⟨h1, h.d.emitted, ?_, ?_⟩
  · intro cid hc
    refine ⟨?_, fun hp => h3 cid hc cid hp rfl, fun hp => h5 cid (List.mem_append_left _ hc) cid hp rfl⟩
    have hlt := h.d.ids_lt cid (List.mem_append_left _ (List.mem_append_left _ hc))
    have : cid ∈ e.cps.map (·.id) := by rw [h.cps_ids]; exact List.mem_range.2 hlt
    obtain ⟨r, hr, e⟩ := List.mem_map.1 this
    exact ⟨r, hr, e⟩
  · intro q hq hc
    obtain ⟨c, hcm, _, hown⟩ := h.d.pend_owner q hq
    exact h3 _ hc _ (List.mem_map_of_mem (f := fun c => c.sup.id) hcm) hown.symm

example : (reach 2 2 4 demoOps).s.completed = [1, 0] ∧ (reach 2 2 4 demoOps).drained = [1, 0] ∧
    (reach 2 2 4 demoOps).cps.map (·.id) = [0, 1] ∧ (reach 2 2 4 demoOps).s.pending.length = 0 := by
  decide +kernel

/-- **A copy completes in the tick that parses its last outstanding response.** From any reachable
    state, one more op leaves `completed` unchanged unless it is a tick, and a tick appends at most
    one copy id; when it does, the response at the head of ToMem's incoming buffer answers a
    sub-request of that copy, all its other sub-requests had been answered before, and after the
    tick none of its sub-requests is pending — for any response order and any number of
    concurrent copies. -/
theorem dma_completes_after_last_response (log2 maxReq memCap : Nat) (ops : List EnvOp) (op : EnvOp) :
    let e := reach log2 maxReq memCap ops
    let e' := e.step op
    e'.s.completed = e.s.completed ∨
    (op = .tick ∧ ∃ c ∈ e.s.processing, ∃ id rest, e.s.memIn = id :: rest ∧ id ∈ c.subs ∧
      id ∈ pendIds e.s ∧ e'.s.completed = e.s.completed ++ [c.sup.id] ∧
      (∀ x ∈ c.subs, x ≠ id → x ∉ pendIds e.s) ∧ (∀ x ∈ c.subs, x ∉ pendIds e'.s)) := by
  intro e e'
  have h := dma_inv log2 maxReq memCap ops
  cases op with
  | tick =>
    rcases tick_completed h.d with hh | hh
    · exact .inl hh
    · exact .inr ⟨rfl, hh⟩
  | respond j =>
    left
    show (e.step (.respond j)).s.completed = e.s.completed
    unfold Env.step; simp only
    split
    · rfl
    · split <;> rfl
  | copy k a l => exact .inl rfl
  | take k => exact .inl rfl
  | drain => exact .inl rfl
  | inject id => exact .inl rfl

example : (reach 2 2 4 (demoOps.take 15)).s.memIn = [1] ∧
    (reach 2 2 4 (demoOps.take 15)).s.processing.map (fun c => (c.sup.id, c.subs, c.count)) = [(0, [0, 1, 2], 1)] ∧
    (reach 2 2 4 (demoOps.take 15)).s.completed = [1] ∧
    (reach 2 2 4 (demoOps.take 16)).s.completed = [1, 0] := by decide +kernel

/-- **Cache-line-wise splitting in the engine is exact.** Whenever `parseFromCP` accepts the copy
    request `r` at the head of ToCP's incoming buffer, the memory transactions it creates (appended
    to `toSendToMem` and to `pendingReqs`, their ids recorded in the new collection with
    `count` = their number) tile `[r.addr, r.addr + r.len)`: consecutive from `r.addr`, each
    non-empty and inside one `2^log2` unit, lengths adding up to `r.len`; all are writes for an
    H2D copy and reads for a D2H copy and carry `r.id` as ghost owner. -/
theorem dma_subrequests_tile (s : Dma) (r : CpReq) (rest : List CpReq) (hcp : s.cpIn = r :: rest)
    (hcap : s.processing.length < s.maxReq) :
    ∃ reqs : List MemReq,
      s.parseFromCP.1.toMem = s.toMem ++ reqs ∧ s.parseFromCP.1.pending = s.pending ++ reqs ∧
      s.parseFromCP.1.processing =
        s.processing ++ [{ sup := r, subs := reqs.map (·.id), count := reqs.length }] ∧
      chain r.addr (reqs.map fun q => (q.addr, q.len)) ∧
      (reqs.map (·.len)).sum = r.len ∧
      (∀ q ∈ reqs, 0 < q.len ∧ q.addr / 2 ^ s.log2 = (q.addr + q.len - 1) / 2 ^ s.log2 ∧
        q.write = (r.kind == Kind.h2d) ∧ q.owner = r.id) ∧
      (reqs.map (·.id)).Nodup := by
  refine ⟨subReqs s r, ?_⟩
  rcases parseFromCP_cases s with ⟨_, h | h⟩ | ⟨r', rest', hcp', _, e⟩
  · omega
  · rw [h] at hcp; cases hcp
  · rw [hcp] at hcp'; cases hcp'
    rw [e]
    have hr := subReqs_ranges s r
    refine ⟨rfl, rfl, rfl, ?_, ?_, ?_, ?_⟩
    · rw [hr]; exact split_chain _ _ _ _
    · have := split_sum (2 ^ s.log2) (Nat.pow_pos (by decide)) r.addr r.len
      rw [← hr, List.map_map] at this; exact this
    · intro q hq
      have hm : (q.addr, q.len) ∈ (subReqs s r).map (fun q => (q.addr, q.len)) := List.mem_map_of_mem hq
      rw [hr] at hm
      have := split_in_unit _ _ _ _ _ hm
      have hq' := subReqs_mem s r q hq
      exact ⟨this.1, this.2, hq'.2.1, hq'.1⟩
    · rw [subReqs_ids]; exact List.nodup_range' ..

example : (reach 2 2 4 demoOps).seen.map (fun q => (q.owner, q.addr, q.len, q.write)) =
    [(0, 6, 2, true), (0, 8, 4, true), (0, 12, 1, true), (1, 17, 3, false)] := by decide +kernel

/-- **No engine panic under a well-behaved memory side.** As long as the environment answers only
    requests it has taken from the ToMem port and each of them once (every move except `inject`),
    the engine never faults — neither "not found" (`removeReqFromPendingReqList`) nor "couldn't
    find requestcollection" — and every transaction in flight (waiting to be sent, in the port,
    at the memory, or answered but not yet parsed) is pending exactly once. -/
theorem dma_no_fault (log2 maxReq memCap : Nat) (ops : List EnvOp)
    (hops : ∀ op ∈ ops, op.isInject = false) :
    let e := reach log2 maxReq memCap ops
    e.s.fault = none ∧ (fl e.s e.outstanding).Nodup ∧ ∀ x ∈ fl e.s e.outstanding, x ∈ pendIds e.s := by
  intro e
  have h := Env.run_flow (Env.init_flow log2 maxReq memCap) (Env.init_inv log2 maxReq memCap) ops hops
  exact ⟨h.nofault, h.f.nodup, h.f.sub⟩

example : (reach 2 2 4 demoOps).s.fault = none ∧
    (reach 2 2 4 (demoOps.take 10 ++ [.inject 3, .tick, .tick, .tick])).s.fault = some "not_found" := by
  decide +kernel

/-- **Capacities are respected** after every op sequence: at most `maxRequestCount` copies are in
    processing and ToMem's outgoing buffer never exceeds its capacity. -/
theorem dma_capacity (log2 maxReq memCap : Nat) (ops : List EnvOp) :
    let e := reach log2 maxReq memCap ops
    e.s.processing.length ≤ e.s.maxReq ∧ e.s.memOut.length ≤ e.s.memCap :=
  ⟨(dma_inv log2 maxReq memCap ops).d.cap_proc, (dma_inv log2 maxReq memCap ops).d.cap_mem⟩

example : (reach 2 1 2 (demoOps.take 7)).s.processing.length = 1 ∧
    (reach 2 1 2 (demoOps.take 7)).s.memOut.length = 2 ∧ (reach 2 1 2 (demoOps.take 7)).s.toMem.length = 1 ∧
    (reach 2 1 2 (demoOps.take 7)).s.cpIn.length = 1 := by decide +kernel

/-- **The environment wrapper is the executable driver.** For every driver state `d` and every
    scenario op the harness can issue (`t`, `c`, `m k`, `r j`, `h a l`, `d a l`), the engine and
    environment state after `dmaOp` — the function the correspondence check runs against the real
    `DMAEngine` — equals the state after the matching `Env.step`; so the theorems above are about
    the very transitions that are compared with the real code on every run. -/
theorem dma_env_is_driver (d : DrvSt) :
    (dmaOp d ["t"]).env.core = (d.env.step .tick).core ∧
    (dmaOp d ["c"]).env.core = (d.env.step .drain).core ∧
    (∀ k : String, (dmaOp d ["m", k]).env.core = (d.env.step (.take (k.toNat?.getD 0))).core) ∧
    (∀ j : String, (dmaOp d ["r", j]).env.core = (d.env.step (.respond (j.toNat?.getD 0))).core) ∧
    (∀ (a l : String) (x y : Nat), a.toNat? = some x → l.toNat? = some y →
      (dmaOp d ["h", a, l]).env.core = (d.env.step (.copy .h2d x y)).core ∧
      (dmaOp d ["d", a, l]).env.core = (d.env.step (.copy .d2h x y)).core) :=
  ⟨tie_tick d, tie_drain d, tie_take d, tie_respond d,
   fun a l x y ha hl => ⟨tie_copy_h d a l x y ha hl, tie_copy_d d a l x y ha hl⟩⟩

/-- observable summary of an environment state, used by the example below -/
def envSummary (e : Env) : List Nat × List Nat × List Nat × List Nat × Nat × Nat × Nat :=
  (e.s.completed, e.s.cpOut, pendIds e.s, e.cps.map (·.id), e.s.nextId, e.nextCp, e.outstanding.length)

/-- a driver state with one queued H2D copy of 7 bytes at 6 -/
def demoDrv : DrvSt :=
  { s := { log2 := 2, maxReq := 2, memCap := 4, cpIn := [⟨0, .h2d, 6, 7⟩] }, cps := [⟨0, .h2d, 6, 7⟩], nextCp := 1 }

example : envSummary (dmaOp demoDrv ["t"]).env = ([], [], [0, 1, 2], [0], 3, 1, 0) := by decide +kernel
example : envSummary (demoDrv.env.step .tick) = ([], [], [0, 1, 2], [0], 3, 1, 0) := by decide +kernel

/-- **A device-to-host (or host-to-device) copy observes every write of kernels launched
    before it**: in every driver history, once a kernel has been launched while a buffer existed,
    every later non-empty copy that lies inside that buffer is preceded by a cache flush to all
    GPUs — whatever other allocations, launches, completions and copies happen in between (dirty
    flags are never cleared, and the flush test detects every contained copy). -/
theorem d2h_sees_kernel_writes (pre mid : List FOp) (s z a l : Nat)
    (halloc : ∃ b ∈ (frun [] pre).1, b.start = s ∧ b.size = z)
    (hl : 0 < l) (hs : s ≤ a) (he : a + l ≤ s + z) :
    (fstep (frun [] (pre ++ [.launch] ++ mid)).1 (.copy a l)).2 = some true := by
  have hd : DirtyIn (frun [] (pre ++ [.launch] ++ mid)).1 s z := by
    rw [frun_bufs, List.foldl_append, List.foldl_append]
    apply foldl_keeps_dirty
    simp only [List.foldl]
    rw [← frun_bufs]
    exact launch_makes_dirty _ s z halloc
  simp only [fstep]
  rw [needFlushing_of_dirty_contained _ s z a l hd hl hs he]

/-- non-vacuity: two buffers, a launch, an unrelated copy and a completion in between -/
example : (frun [] [.alloc 0x1000 4096, .alloc 0x2000 8192, .launch, .copy 0x1000 16, .complete,
    .alloc 0x4000 4096, .copy 0x2100 100, .copy 0x4000 8]).2 = [true, true, false] := by decide

end C11
