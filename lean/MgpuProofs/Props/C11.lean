import MgpuModel.C11
/-! # C11 — property theorems (host/device copies move exactly the requested bytes)

Only property statements live here; helper lemmas are in `MgpuProofs/C11*.lean`. -/
namespace C11

/-- `chain a l`: the pieces of `l` are consecutive, starting at address `a`. -/
def chain : Nat → List (Nat × Nat) → Prop
  | _, [] => True
  | a, (x, n) :: r => x = a ∧ chain (a + n) r

/-- The pieces of a split add up to exactly the requested length (no byte lost, none added),
    for every unit, address and length. -/
theorem split_sum (unit : Nat) (hu : 0 < unit) (addr len : Nat) :
    ((splitBy unit hu addr len).map (·.2)).sum = len := by
  induction len using Nat.strongRecOn generalizing addr with
  | _ len ih =>
    unfold splitBy
    split
    · simp_all
    · rename_i h
      simp only [List.map_cons, List.sum_cons]
      have hlt : addr % unit < unit := Nat.mod_lt _ hu
      have hn : 0 < min len (unit - addr % unit) := by omega
      rw [ih (len - min len (unit - addr % unit)) (by omega)]
      omega

/-- Pieces are consecutive: the first starts at `addr`, each next one where the previous ended. -/
theorem split_chain (unit : Nat) (hu : 0 < unit) (addr len : Nat) :
    chain addr (splitBy unit hu addr len) := by
  induction len using Nat.strongRecOn generalizing addr with
  | _ len ih =>
    unfold splitBy
    split
    · simp [chain]
    · rename_i h
      have hlt : addr % unit < unit := Nat.mod_lt _ hu
      have hn : 0 < min len (unit - addr % unit) := by omega
      exact ⟨rfl, ih _ (by omega) _⟩

/-- Every piece is non-empty and lies inside one unit (page / cache line / DMA access unit). -/
theorem split_in_unit (unit : Nat) (hu : 0 < unit) (addr len : Nat) :
    ∀ p ∈ splitBy unit hu addr len, 0 < p.2 ∧ p.1 / unit = (p.1 + p.2 - 1) / unit := by
  induction len using Nat.strongRecOn generalizing addr with
  | _ len ih =>
    unfold splitBy
    split
    · simp
    · rename_i h
      intro p hp
      simp only [List.mem_cons] at hp
      have hlt : addr % unit < unit := Nat.mod_lt _ hu
      rcases hp with rfl | hp
      · refine ⟨by simp; omega, ?_⟩
        simp only
        have h1 : min len (unit - addr % unit) ≤ unit - addr % unit := Nat.min_le_right _ _
        have h2 : 0 < min len (unit - addr % unit) := by omega
        apply Eq.symm
        rw [Nat.div_eq_iff hu]
        constructor
        · have : unit * (addr / unit) ≤ addr := Nat.mul_div_le addr unit
          rw [Nat.mul_comm]; omega
        · rw [Nat.mul_comm]
          have : addr = unit * (addr / unit) + addr % unit := (Nat.div_add_mod addr unit).symm
          have e : unit * (addr / unit + 1) = unit * (addr/unit) + unit := by rw [Nat.mul_add, Nat.mul_one]
          omega
      · exact ih _ (by omega) _ p hp

/-- non-vacuity: a copy of 130 bytes at 0x103e with 64-byte units is cut into 2+64+64 bytes -/
example : splitBy 64 (by decide) 4158 130 = [(4158, 2), (4160, 64), (4224, 64)] := by
  simp [splitBy]

def intersects (s1 e1 s2 e2 : Nat) : Prop := ∃ x, s1 ≤ x ∧ x < e1 ∧ s2 ≤ x ∧ x < e2

/-- The flush test never reports an overlap for disjoint ranges. -/
theorem overlap_sound (s1 e1 s2 e2 : Nat) (h2 : s2 < e2) (h : memRangeOverlap s1 e1 s2 e2 = true) :
    intersects s1 e1 s2 e2 := by
  simp only [memRangeOverlap, Bool.or_eq_true, Bool.and_eq_true, decide_eq_true_eq] at h
  rcases h with ⟨a, b⟩ | ⟨a, b⟩
  · exact ⟨s2, a, b, Nat.le_refl _, h2⟩
  · exact ⟨e2 - 1, by omega, by omega, by omega, by omega⟩

/-- A non-empty copy lying inside a (dirty) buffer is always detected — the API's precondition,
    so a device-to-host copy is always preceded by the flush that makes kernel writes visible. -/
theorem overlap_complete_when_contained (s1 e1 s2 e2 : Nat) (h2 : s2 < e2) (hs : s1 ≤ s2) (he : e2 ≤ e1) :
    memRangeOverlap s1 e1 s2 e2 = true := by
  simp only [memRangeOverlap, Bool.or_eq_true, Bool.and_eq_true, decide_eq_true_eq]
  left; omega

/-- The exact gap of the test: undetected intersections are those where the copy strictly
    contains the buffer on both sides (outside the API contract: a copy never exceeds its buffer). -/
theorem overlap_gap (s1 e1 s2 e2 : Nat) (h1 : s1 < e1) (h2 : s2 < e2) :
    (memRangeOverlap s1 e1 s2 e2 = false ∧ intersects s1 e1 s2 e2) ↔ (s2 < s1 ∧ e1 < e2) := by
  simp only [memRangeOverlap, Bool.or_eq_false_iff, Bool.and_eq_false_iff, decide_eq_false_iff_not]
  constructor
  · rintro ⟨⟨a, b⟩, x, hx1, hx2, hx3, hx4⟩
    omega
  · rintro ⟨a, b⟩
    exact ⟨⟨by omega, by omega⟩, s1, Nat.le_refl _, h1, by omega, by omega⟩

end C11
