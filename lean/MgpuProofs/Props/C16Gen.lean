import MgpuProofs.C16GenAux
/-! # C16 — the hand-written model against what is regenerated from the Go source on every run

`MgpuModel/Gen/AddrTrans.lean` is written by `translate/c16at.go` from
`amd/timing/mem/addresstranslator/{addresstranslator.go,builder.go}`: the uint64 address arithmetic as
Lean functions, the stage order of `Tick` / `runPipeline`, every message-builder chain, the scan
conditions, the control handlers' assignments, the port capacities and the builder defaults.
The theorems below are proof obligations about *that* file: an edit of the Go source that changes a
shift, a mask, the stage order, a copied field, a capacity or a default changes the generated file and
breaks a proof here (not only a sampled correspondence). -/
namespace C16
open Gen.AT

/-- **`addrToPageID` as compiled (uint64, wrapping) is the model's `pageId`** for every page size
(also `log2PageSize ≥ 64`, where both are 0) and every 64-bit address. -/
theorem gen_pageId (lg a : Nat) (ha : a < U64) : addrToPageID lg a = pageId lg a := by
  unfold addrToPageID pageId
  have h1 : a >>> lg ≤ a := by rw [Nat.shiftRight_eq_div_pow]; exact Nat.div_le_self a (2 ^ lg)
  rw [Nat.mod_eq_of_lt (Nat.lt_of_le_of_lt h1 ha)]
  exact Nat.mod_eq_of_lt (Nat.lt_of_le_of_lt (shr_shl_le a lg) ha)

/-- **The translated address as compiled is the model's** `page.PAddr + vaddr mod 2^lg` whenever the
page size is below 2^64 and the physical page lies inside the 64-bit space (`paddr + 2^lg ≤ 2^64`). -/
theorem gen_addr (lg paddr bid : Nat) (a : Acc) (hlg : lg < 64) (hp : paddr + 2 ^ lg ≤ U64) :
    addrRead lg paddr a.vaddr = (mkBReq lg bid a paddr).paddr ∧
    addrWrite lg paddr a.vaddr = (mkBReq lg bid a paddr).paddr := by
  have hlt : a.vaddr % 2 ^ lg < 2 ^ lg := Nat.mod_lt _ (Nat.pow_pos (by decide))
  unfold addrRead addrWrite offsetRead offsetWrite mkBReq
  rw [one_shl_mod lg hlg]
  exact ⟨Nat.mod_eq_of_lt (by omega), Nat.mod_eq_of_lt (by omega)⟩

/-- the divisor of `req.Address % (1 << log2PageSize)` as compiled -/
def offsetDivisor (lg : Nat) : Nat := (1 <<< lg) % U64

/-- for every page size below 2^64 the compiled `%` has a non-zero divisor (no divide-by-zero panic) … -/
theorem gen_offset_defined (lg : Nat) (hlg : lg < 64) : offsetDivisor lg ≠ 0 := by
  unfold offsetDivisor
  rw [one_shl_mod lg hlg]
  exact Nat.ne_of_gt (Nat.pow_pos (by decide))

/-- … and the hypothesis `lg < 64` of `gen_addr` cannot be dropped: with `WithLog2PageSize(64)` the
divisor is 0 — the real translator panics with "integer divide by zero" on the first forwarded access
(replayed by the harness probe `probe.lg64-divide-by-zero`); the builder accepts that value silently.
No shipped configuration uses it (default 12). -/
theorem gen_offset_lg64 : offsetDivisor 64 = 0 := by decide

/-- nor can `paddr + 2^lg ≤ 2^64`: a page at the very top of the address space wraps around -/
theorem gen_addr_wraps : addrRead 12 (U64 - 1) 1 = 0 ∧ (mkBReq 12 0 ⟨0, 0, 1, default⟩ (U64 - 1)).paddr = U64 := by
  decide

/-! ## stage order -/

def stageOf : String → Option (Cfg → St → St × Bool)
  | "respond" => some respond
  | "parseTranslation" => some parseTranslation
  | "translate" => some translate
  | _ => none

def afterOf : String → Option (St → St × Bool)
  | "handleCtrlRequest" => some handleCtrl
  | _ => none

/-- `madeProgress := false; for each name: for i < numReqPerCycle { madeProgress = m.name() || madeProgress }` -/
def runLoops (c : Cfg) : List String → St → Option (St × Bool)
  | [], s => some (s, false)
  | n :: ns, s =>
    match stageOf n with
    | none => none
    | some f =>
      let r1 := iter (f c) c.width s
      (runLoops c ns r1.1).map fun r2 => (r2.1, r2.2 || r1.2)

/-- `madeProgress = m.name() || madeProgress` for each name -/
def runAfter : List String → St × Bool → Option (St × Bool)
  | [], r => some r
  | n :: ns, r =>
    match afterOf n with
    | none => none
    | some g => runAfter ns ((g r.1).1, (g r.1).2 || r.2)

/-- `middleware.Tick` assembled from the regenerated stage lists -/
def genTick (c : Cfg) (s : St) : Option (St × Bool) :=
  (if s.flushing then runLoops c flushingStages s else runLoops c pipelineStages s).bind
    (runAfter afterStages)

/-- **The model's `tick` is `middleware.Tick` with the stage order found in the Go source**:
`respond`×w, `parseTranslation`×w, `translate`×w (only `parseTranslation`×w while flushing), then
`handleCtrlRequest`, with the progress flags OR-ed. Reordering, dropping or adding a stage in Go
breaks this proof. -/
theorem gen_tick_eq (c : Cfg) (s : St) : genTick c s = some (tick c s) := by
  unfold genTick tick runPipeline
  cases hf : s.flushing
  · simp only [pipelineStages, afterStages, runLoops, stageOf, runAfter, afterOf, Option.map, Option.bind,
      Bool.false_eq_true, if_false]
    congr 2
    cases (iter (respond c) c.width s).2 <;>
    cases (iter (parseTranslation c) c.width (iter (respond c) c.width s).1).2 <;>
    cases (iter (translate c) c.width (iter (parseTranslation c) c.width (iter (respond c) c.width s).1).1).2 <;> rfl
  · simp only [flushingStages, afterStages, runLoops, stageOf, runAfter, afterOf, Option.map, Option.bind, if_true]
    congr 2

/-! ## port capacities, defaults, wiring -/

def capOf (c : Cfg) : Cap → Nat
  | .width => c.width
  | .const n => n

/-- **Port capacities.** The model bounds the top / bottom / translation buffers by `c.width` in both
directions and the control port by 1 / 1 (`step`, `translate`, `emit`, `respond`, `handleCtrl`);
`Builder.createPorts` creates exactly these. -/
theorem gen_ports (c : Cfg) :
    ports.map (fun p => (p.1, capOf c p.2.1, capOf c p.2.2)) =
      [("Top", c.width, c.width), ("Bottom", c.width, c.width), ("Translation", c.width, c.width),
       ("Control", 1, 1)] := rfl

/-- `MakeBuilder` defaults and `Build` wiring (the harness and the shipped configurations rely on them) -/
theorem gen_defaults :
    defaults = [("numReqPerCycle", 4), ("log2PageSize", 12), ("deviceID", 1)] ∧
    wiring.filter (fun p => p.1 != "TickingComponent") =
      [("numReqPerCycle", "b.numReqPerCycle"), ("log2PageSize", "b.log2PageSize"), ("deviceID", "b.deviceID")] := by
  decide

/-! ## messages, scans, control handlers -/

/-- **Every message the translator builds**, field by field. What the model relies on:
the lookup carries the access's PID and the page id (`vPageID`) (`translate`: `q := ⟨tid, a.pid, pageId …⟩`);
the answer goes to the original requester with the original ID and the memory's data (`respond`:
`u := ⟨f.top.id, r.data⟩`); the forwarded request has the translated address, the original size /
data / mask, **PID 0**, the original `Info` and `CanWaitForCoalesce` (`mkBReq`: `⟨bid, paddr + off, a.pl⟩`);
both control acknowledgements are `ToNotifyDone` messages to the command's sender. -/
theorem gen_msgs :
    msgs = [
      ⟨"translate", "vm.TranslationReqBuilder",
        [("WithSrc", "m.translationPort.AsRemote()"), ("WithDst", "m.translationPortMapper.Find(vAddr)"),
         ("WithPID", "req.GetPID()"), ("WithVAddr", "vPageID"), ("WithDeviceID", "m.deviceID"), ("Build", "")]⟩,
      ⟨"respond", "mem.DataReadyRspBuilder",
        [("WithSrc", "m.topPort.AsRemote()"), ("WithDst", "reqFromTop.Meta().Src"),
         ("WithRspTo", "reqFromTop.Meta().ID"), ("WithData", "rsp.Data"), ("Build", "")]⟩,
      ⟨"respond", "mem.WriteDoneRspBuilder",
        [("WithSrc", "m.topPort.AsRemote()"), ("WithDst", "reqFromTop.Meta().Src"),
         ("WithRspTo", "reqFromTop.Meta().ID"), ("Build", "")]⟩,
      ⟨"createTranslatedReadReq", "mem.ReadReqBuilder",
        [("WithSrc", "m.bottomPort.AsRemote()"), ("WithDst", "m.memoryPortMapper.Find(addr)"),
         ("WithAddress", "addr"), ("WithByteSize", "req.AccessByteSize"), ("WithPID", "0"),
         ("WithInfo", "req.Info"), ("Build", ""), ("=CanWaitForCoalesce", "req.CanWaitForCoalesce")]⟩,
      ⟨"createTranslatedWriteReq", "mem.WriteReqBuilder",
        [("WithSrc", "m.bottomPort.AsRemote()"), ("WithDst", "m.memoryPortMapper.Find(addr)"),
         ("WithData", "req.Data"), ("WithDirtyMask", "req.DirtyMask"), ("WithAddress", "addr"),
         ("WithPID", "0"), ("WithInfo", "req.Info"), ("Build", ""),
         ("=CanWaitForCoalesce", "req.CanWaitForCoalesce")]⟩,
      ⟨"handleFlushReq", "mem.ControlMsgBuilder",
        [("WithSrc", "m.ctrlPort.AsRemote()"), ("WithDst", "req.Src"), ("ToNotifyDone", ""), ("Build", "")]⟩,
      ⟨"handleRestartReq", "mem.ControlMsgBuilder",
        [("WithSrc", "m.ctrlPort.AsRemote()"), ("WithDst", "req.Src"), ("ToNotifyDone", ""), ("Build", "")]⟩] := by
  decide

/-- **Scan conditions**: coalescing only into a transaction that is *not done*, for the same page
and the PID of its first waiting request (`coalesce`); draining only completed transactions that
still hold requests (`isDrainable`); transactions found by lookup id (`hasTid`); in-flight records
by forwarded-request id (`extract`). -/
theorem gen_scan_conds :
    scanConds = [
      ("translate", "m.transactions",
        "!t.translationDone && t.translationReq != nil && m.addrToPageID(t.translationReq.VAddr) == vPageID && t.incomingReqs[0].GetPID() == req.GetPID()"),
      ("parseTranslation", "m.transactions", "t.translationDone && len(t.incomingReqs) > 0"),
      ("findTranslationByReqID", "m.transactions", "t.translationReq.ID == id"),
      ("removeExistingTranslation", "m.transactions", "tr == trans"),
      ("isReqInBottomByID", "m.inflightReqToBottom", "r.reqToBottom.Meta().ID == id"),
      ("findReqToBottomByID", "m.inflightReqToBottom", "r.reqToBottom.Meta().ID == id"),
      ("removeReqToBottomByID", "m.inflightReqToBottom", "r.reqToBottom.Meta().ID == id")] := rfl

/-- **Control handlers**: the flag tested first is the flush flag; a flush acknowledges, takes the
command, clears both lists and sets the flushing flag (`handleCtrl`, `.flush`); a restart
acknowledges, empties the three incoming buffers (top, bottom, translation — in this order, as in the
model's trace), clears the flag and only then takes the command (`handleCtrl`, `.restart`); both
return `false` without any effect when the acknowledgement cannot be sent. -/
theorem gen_ctl_handlers :
    ctlDispatch = [("msg.DiscardTransations", "handleFlushReq"), ("msg.Restart", "handleRestartReq")] ∧
    handleFlushReqAssigns = [("transactions", "nil"), ("inflightReqToBottom", "nil"), ("isFlushing", "true")] ∧
    handleFlushReqDrains = [] ∧
    handleFlushReqOrder = ["send:m.ctrlPort.Send(rsp)", "if:err!=nil{{returnfalse}}",
      "do:m.ctrlPort.RetrieveIncoming()", "set:transactions", "set:inflightReqToBottom", "set:isFlushing",
      "return:true"] ∧
    handleRestartReqAssigns = [("isFlushing", "false")] ∧
    handleRestartReqDrains = ["topPort", "bottomPort", "translationPort"] ∧
    handleRestartReqOrder = ["send:m.ctrlPort.Send(rsp)", "if:err!=nil{{returnfalse}}", "drain:topPort",
      "drain:bottomPort", "drain:translationPort", "set:isFlushing", "do:m.ctrlPort.RetrieveIncoming()",
      "return:true"] := by
  decide

/-! ### Non-vacuity -/

example : addrToPageID 12 0x12345 = 0x12000 ∧ pageId 12 0x12345 = 0x12000 := by decide
example : addrRead 12 0x7000 0x12345 = 0x7345 := by decide
example : genTick ⟨2, 12⟩ {} = some ({}, false) := by rw [gen_tick_eq]; rfl

end C16
