import MgpuProofs.Props.C02
import MgpuProofs.Props.C02WfStatic
import MgpuProofs.Props.C02WfCU
import MgpuProofs.Props.C02Lds
import MgpuProofs.Props.C02Race
import MgpuProofs.Props.C02Paths
import MgpuProofs.Props.C15
import MgpuProofs.C02HypLemmas
/-! # C02 — hypothesis audit

Every hypothesis of the C02 theorems is either DERIVED from something natural (a new theorem without
it), shown NECESSARY by a kernel-checked witness (the conclusion fails when that one hypothesis is
dropped and all the others are kept), or classified as structural (it only names the objects the
theorem talks about). Helper lemmas and the witness programs: `MgpuProofs/C02HypLemmas.lean`.

## Verdict table  (theorem | hypothesis | verdict)

FLAT / SMEM / counter (`Props/C02.lean`)
* coalesced_load_equiv | `loadStraddles = false` | DERIVED from natural alignment: `aligned_noStraddle`,
  `coalesced_load_equiv_aligned`, `coalesced_load_equiv_lanes_aligned`; not droppable outright — already has
  witness `coalesced_load_full_refuted`; exact converse `straddle_implies_misaligned`; alignment is sufficient,
  not necessary: `misaligned_without_straddle_still_equal`
* aligned_noStraddle | `0 < ls`, `ls % 4 = 0` | necessary (`aligned_noStraddle_needs_positive_line`,
  `aligned_noStraddle_needs_line_multiple_of_4`); true of every configuration (`ls = 2^lg`, `lg ≥ 2`:
  `coalesced_load_equiv_lanes_aligned`)
* coalesced_load_equiv | `ord.Perm lines` | WEAKENED to "every line answered at least once":
  `coalesced_load_equiv_any_multiset` (duplicates / spurious responses harmless); a missing response is
  visible: `load_response_missing_differs`, `coalesced_load_any_responses_refuted`
* coalesced_store_equiv | `storeStraddles = false` | DERIVED from alignment: `aligned_store_noStraddle`,
  `coalesced_store_equiv_aligned` (+ `storeOp_width`: every opcode has bw ∈ {1,2,4}); witness for the real
  coalescer: the replayed `C02.store-differs.*.straddle` (the model's timing side is total)
* coalesced_store_equiv | `0 < ls` | DERIVED (implied by the no-straddle hypothesis):
  `coalesced_store_equiv_any_line_size`
* coalesced_store_equiv | `ord.Perm lines` | WEAKENED: `coalesced_store_equiv_any_multiset`; missing request
  visible: `store_request_missing_differs`
* dwordAligned_noStraddle | `ls % 4 = 0`, `0 < ls`, 4-aligned lanes | subsumed by `aligned_noStraddle` (all kinds)
* scalar_load_equiv(_any_address) | `n % 4 = 0` | DERIVED from the opcode table: `smem_bytes_multiple_of_4`,
  `scalar_load_equiv_opcode`; what it protects: `scalar_load_size_not_multiple_of_4_faults`
* scalar_load_equiv(_any_address) | `ls % 4 = 0` | necessary: `scalar_load_needs_line_multiple_of_4`
* scalar_load_equiv(_any_address) | `0 < ls` | necessary: `scalar_load_needs_positive_line`
* scalar_load_equiv | `start % 4 = 0` | derived (`smemAddr`, existing `scalar_load_equiv_any_address`); before the
  repair: already has witness `scalar_load_unaligned_before_fix_faults`
* scalar_load_equiv | `ord.Perm chunks` | structural (every chunk answered once; chunks write disjoint SGPRs);
  new: under the same hypotheses no response can fault, `scalar_load_never_faults`
* init_regs_before_fix_partial | `queuePtr = false`, `privSegSize = false` | already has witness
  `init_regs_equiv_before_fix_refuted`
* outstanding_counter_sound | `inOrder` | already has witness `outstanding_counter_any_order_refuted`; DERIVED for
  FIFO responses: `inOrder_of_oldest_first` (an equivalence), `counter_sound_fifo`; discharged by the C15
  theorem for a ROB without flush: `counter_sound_behind_rob` (remaining assumption `htie`: the two models
  number requests with separate counters)

one wavefront (`Props/C02Wf.lean`, `Props/C02WfWit.lean`) — `wavefront_timing_equals_emulator`,
`wavefront_quiescent_points_match`, `issued_trace_is_emulator_prefix`, `issued_instruction_is_memory_at_pc`
* `P.WF.fixed` (repaired CU) | already has witness `wavefront_timing_equals_emulator_before_fix_refuted`
* `Inst.WF.f_frame` | necessary: `wf_needs_f_frame`
* `Inst.WF.f_dep` | necessary: `wf_needs_f_dep`
* `Inst.WF.tgt_rel` | necessary: `wf_needs_tgt_rel` (holds for every shipped branch: `branch_pc_equiv`)
* `Inst.WF.st_frame` | necessary: `wf_needs_st_frame`
* `Prog.WF.pfx` | necessary: `wf_needs_pfx` (for the real decoder: property C04)
* `Inst.PcOK` | necessary: `wf_needs_PcOK` (vector unit; the scalar-unit case was the repaired
  `getpc_differs_before_fix`)
* `Inst.WF.tgt_dep`, `ld_depR`, `dep_static` | same shape as `f_dep` (an undeclared register read escapes
  `regOK`); no separate witness
* `Inst.WF.wrD_sub`, `ld_frame` | same shape as `f_frame` (an undeclared register write); no separate witness
* `Inst.WF.ld_depM`, `st_dep` | same shape as `st_frame` (an access outside the declared byte ranges escapes
  `memOK`); no separate witness
* `Inst.WF.noTxn_ld`, `noTxn_st` | structural: say that "no transaction" means "nothing to write"
* `Inst.WF.size_le` | convenience: used only to know that the emulator's 8-byte window holds the instruction
* sanity of the scheme | `wavefront_theorem_with_everything` (nothing left out = the theorem)
* `hhaz` (register / memory hazards) | already has witness `missing_waitcnt_differs`,
  `wavefront_timing_equals_emulator_without_hazard_check_refuted`
* `hhaz` (ownership part `accOK`) | necessary: `foreign_write_breaks_equivalence`
* `hdone` | necessary for a conclusion about the FINAL state: `wf_needs_hdone`; the general form is the
  existing `wavefront_quiescent_points_match`
* `hrun` | structural (defines the schedules quantified over)

compute unit (`Props/C02WfCU.lean`)
* cu_wavefronts_equal_emulator | `SepL` | necessary: `cu_race_breaks_equivalence`,
  `cu_wavefronts_equal_emulator_without_sep_refuted` (abstract level: already has witness
  `race_breaks_independence`)
* cu_wavefronts_equal_emulator | `hlen` | structural: pairs `inits` with `Ps`; an index beyond either list can
  never take a step (`custep` needs both) and is not quantified over in the conclusion
* cu_timing_equals_sequential_emulator | `hemu : EmuSeq` | structural (names the emulator's run)

static check (`Props/C02WfStatic.lean`)
* static_check_sound | `hreg` | necessary: `static_check_needs_region_soundness`,
  `static_check_sound_without_region_refuted`
* static_check_sound | `hne` (`accRun`) | necessary: `static_check_needs_owned_accesses`
* static_check_sound | `hfix` | already has witness `vmcnt_skips_empty_access_before_fix`,
  `static_check_alone_suffices_before_fix_refuted`
* static_check_sound | `hsl : StraightLine` | structural (defines the instruction list the check walks)
* static_check_alone_suffices | `hlen`, `hsz` | convenience (two-byte index in the test encoding; no PC wrap);
  `hnb`, `hend` = StraightLine

LDS (`Props/C02Lds.lean`)
* lds_path_equiv, lds_unit_runs_each_once | `Valid` (guard) | already has witness
  `lds_unit_unguarded_accept_refuted`; (fresh ids) structural: `lds_valid_needs_fresh_ids`
* lds_setLDS_once_equiv | `∀ j ∈ js, j.wg = wg` | necessary: `lds_setLDS_once_needs_one_workgroup`
* lds_bounds_fault_same | `hs` (implemented opcode), `hf` (no earlier fault) | structural (an unimplemented
  opcode / an earlier panic ends both runs the same way: first conjunct is `rfl`)
* lds_driver_eval_sound | `hf` | necessary: `lds_driver_eval_needs_no_fault`
* cdna3 range check | already has witness `cdna3_range_check_complete_refuted`

race / paths (`Props/C02Race.lean`, `Props/C02Paths.lean`)
* commute_of_no_conflict | `hnc` | already has witness `race_breaks_independence(_ww)`; `hwf` necessary:
  `commute_needs_honest_footprints`; `hne` structural (same wavefront = program order)
* race_free_interleaving_independent, timing_phases_equal_emulator_order | `RaceFree` | already has witness;
  `SameThreads`, `hlen`, `hk`, ids `< n` | structural (define "interleaving" and `emuOrder`)
* write_lists_* | disjoint cells | already has witness `write_lists_race_breaks_independence`
* load_return_uses_issue_exec, coalesced_store_dirty_mask_exact | no hypotheses
* valu_scalar_result_under_exec0 | `hcur`, `hph`, `hk` | structural (describe the state "an ALU instruction
  has been issued")
-/
namespace C02

/-! ## A. natural alignment replaces the "no straddle" hypothesis -/

/-- every register access of the instruction starts at a multiple of the element width
    (1 byte, 2 bytes, 4 bytes) — what the ISA calls naturally aligned -/
def naturallyAligned (k : LKind) (accs : List Acc) : Bool := accs.all fun x => x.addr % k.width == 0

/-- the same for a store that writes `bw` bytes per data register -/
def storeAligned (bw cnt : Nat) (act : List (Nat × Nat)) : Bool :=
  (accesses act cnt).all fun x => x.addr % bw == 0

/-- **aligned_noStraddle.** A naturally aligned FLAT load (any of the five kinds, any register count,
    any access list) never runs over the end of a cache line whose size is a positive multiple of 4:
    the hypothesis `loadStraddles = false` of `coalesced_load_equiv` follows from alignment. -/
theorem aligned_noStraddle (k : LKind) (ls : Nat) (accs : List Acc) (hls : 0 < ls) (h4 : ls % 4 = 0)
    (hal : naturallyAligned k accs = true) : loadStraddles k ls accs = false := by
  simp only [loadStraddles, List.any_eq_false, decide_eq_true_eq]
  simp only [naturallyAligned, List.all_eq_true, beq_iff_eq] at hal
  intro x hx
  have := fit_of_aligned k.width ls x.addr (width_cases k) hls h4 (hal x hx)
  omega

example : naturallyAligned .ushort [⟨0, 0, 62⟩, ⟨1, 0, 126⟩] = true ∧
    loadStraddles .ushort 64 [⟨0, 0, 62⟩, ⟨1, 0, 126⟩] = false := by decide

/-- **aligned_store_noStraddle.** The same for stores of 1, 2 or 4 bytes per register. -/
theorem aligned_store_noStraddle (ls bw cnt : Nat) (act : List (Nat × Nat)) (hbw : bw = 1 ∨ bw = 2 ∨ bw = 4)
    (hls : 0 < ls) (h4 : ls % 4 = 0) (hal : storeAligned bw cnt act = true) :
    storeStraddles ls bw cnt act = false := by
  simp only [storeStraddles, List.any_eq_false, decide_eq_true_eq]
  simp only [storeAligned, List.all_eq_true, beq_iff_eq] at hal
  intro x hx
  have := fit_of_aligned bw ls x.addr hbw hls h4 (hal x hx)
  omega

example : storeAligned 4 2 (active 1 (fun _ => 56)) = true ∧
    storeStraddles 64 4 2 (active 1 (fun _ => 56)) = false := by decide

/-- **lanes_aligned_naturallyAligned.** Lane-level form: if the address of every lane is a multiple of the
    element width, every register access of the instruction is naturally aligned — `accesses` puts
    register j at lane address + 4·j and every width divides 4 (so `dwordx2/x3/x4` need 4-byte, not
    8/16-byte, alignment). -/
theorem lanes_aligned_naturallyAligned (k : LKind) (cnt exec : Nat) (addr : Nat → Nat)
    (hal : ∀ i, addr i % k.width = 0) : naturallyAligned k (accesses (active exec addr) cnt) = true := by
  simp only [naturallyAligned, List.all_eq_true, beq_iff_eq]
  intro x hx
  have e := acc_addr hx
  have h := hal x.lane
  rw [e]
  cases k <;> simp only [LKind.width] at h ⊢ <;> omega

example : ∀ i, demoAddr i % LKind.dword.width = 0 := by intro i; simp [demoAddr, LKind.width]; omega

/-- the same for stores -/
theorem lanes_aligned_storeAligned (bw cnt exec : Nat) (addr : Nat → Nat) (hbw : bw = 1 ∨ bw = 2 ∨ bw = 4)
    (hal : ∀ i, addr i % bw = 0) : storeAligned bw cnt (active exec addr) = true := by
  simp only [storeAligned, List.all_eq_true, beq_iff_eq]
  intro x hx
  have e := acc_addr hx
  have h := hal x.lane
  rw [e]
  rcases hbw with rfl | rfl | rfl <;> omega

example : ∀ i : Nat, (64 + 2 * i) % 2 = 0 := by intro i; omega

/-- **coalesced_load_equiv_aligned.** `coalesced_load_equiv` with the straddle hypothesis REPLACED by
    natural alignment: for every load kind, register count, EXEC mask, address vector whose accesses are
    naturally aligned, every line size that is a positive multiple of 4, every memory, register file and
    response order, the timing load path writes what the emulator writes. No separate assumption about
    cache-line boundaries is left. -/
theorem coalesced_load_equiv_aligned (k : LKind) (cnt dst ls exec : Nat) (addr : Nat → Nat) (m : Nat → Nat)
    (rf : St) (ord : List Nat) (hls : 0 < ls) (h4 : ls % 4 = 0)
    (hal : naturallyAligned k (accesses (active exec addr) cnt) = true)
    (hord : ord.Perm (loadLines ls (accesses (active exec addr) cnt))) :
    timingLoad k dst ls m (accesses (active exec addr) cnt) ord rf =
      emuLoad k dst ls m (accesses (active exec addr) cnt) rf :=
  coalesced_load_equiv k cnt dst ls exec addr m rf ord (aligned_noStraddle k ls _ hls h4 hal) hord

/-- non-vacuity: the two-lane demo of `Props/C02.lean` (dwords at 60 and 68, lines 0 and 64, responses
    in reverse order) is naturally aligned -/
example : naturallyAligned .dword (accesses (active 3 demoAddr) 1) = true ∧
    [64, 0].Perm (loadLines 64 (accesses (active 3 demoAddr) 1)) := by
  refine ⟨by decide, ?_⟩
  have : loadLines 64 (accesses (active 3 demoAddr) 1) = [0, 64] := by decide
  rw [this]; exact List.Perm.swap 0 64 []

/-- **coalesced_load_equiv_lanes_aligned.** The form a kernel author can check: every lane address a
    multiple of the element width, line size `2^lg` with `lg ≥ 2` (every shipped configuration uses
    `lg = 6`). -/
theorem coalesced_load_equiv_lanes_aligned (k : LKind) (cnt dst lg exec : Nat) (addr : Nat → Nat)
    (m : Nat → Nat) (rf : St) (ord : List Nat) (hlg : 2 ≤ lg) (hal : ∀ i, addr i % k.width = 0)
    (hord : ord.Perm (loadLines (2 ^ lg) (accesses (active exec addr) cnt))) :
    timingLoad k dst (2 ^ lg) m (accesses (active exec addr) cnt) ord rf =
      emuLoad k dst (2 ^ lg) m (accesses (active exec addr) cnt) rf := by
  obtain ⟨j, rfl⟩ : ∃ j, lg = j + 2 := ⟨lg - 2, by omega⟩
  have hp : 0 < 2 ^ j := Nat.pow_pos (by decide)
  have e : 2 ^ (j + 2) = 2 ^ j * 4 := by rw [Nat.pow_add]
  exact coalesced_load_equiv_aligned k cnt dst _ exec addr m rf ord (by rw [e]; omega)
    (by rw [e]; exact Nat.mul_mod_left _ _) (lanes_aligned_naturallyAligned k cnt exec addr hal) hord

example : (2 : Nat) ≤ 6 ∧ ∀ i, demoAddr i % LKind.dword.width = 0 :=
  ⟨by decide, by intro i; simp [demoAddr, LKind.width]; omega⟩

/-- **coalesced_store_equiv_aligned.** `coalesced_store_equiv` with the straddle hypothesis replaced by
    natural alignment of the stored elements (`bw` ∈ {1, 2, 4} bytes per register). -/
theorem coalesced_store_equiv_aligned (ls bw cnt exec : Nat) (addr : Nat → Nat) (data : Nat → Nat → Nat)
    (m : St) (ord : List Nat) (hbw : bw = 1 ∨ bw = 2 ∨ bw = 4) (hls : 0 < ls) (h4 : ls % 4 = 0)
    (hal : storeAligned bw cnt (active exec addr) = true)
    (hord : ord.Perm (storeLines ls cnt (active exec addr))) :
    timingStore ls bw cnt (active exec addr) data ord m = emuStore ls bw cnt (active exec addr) data m :=
  coalesced_store_equiv ls bw cnt exec addr data m ord hls
    (aligned_store_noStraddle ls bw cnt _ hbw hls h4 hal) hord

/-- non-vacuity: three lanes storing dwords at 4, 8 (same line) and 64; requests applied in reverse order -/
example : storeAligned 4 1 (active 7 (fun i => if i = 2 then 64 else 4 + 4 * i)) = true ∧
    [64, 0].Perm (storeLines 64 1 (active 7 (fun i => if i = 2 then 64 else 4 + 4 * i))) := by
  refine ⟨by decide, ?_⟩
  have : storeLines 64 1 (active 7 (fun i => if i = 2 then 64 else 4 + 4 * i)) = [0, 64] := by decide
  rw [this]; exact List.Perm.swap _ _ []

/-- every store opcode writes 1, 2 or 4 bytes per register: the width hypothesis of the store theorems
    is a fact about the opcode table -/
theorem storeOp_width (opc bw cnt : Nat) (h : storeOp opc = some (bw, cnt)) : bw = 1 ∨ bw = 2 ∨ bw = 4 := by
  unfold storeOp at h
  split at h <;> simp at h <;> omega

example : storeOp 26 = some (2, 1) := rfl

/-- **straddle_implies_misaligned.** The converse direction that makes alignment the exact user-level
    condition: an access that runs over the end of its line is not naturally aligned (contrapositive of
    `aligned_noStraddle`). -/
theorem straddle_implies_misaligned (k : LKind) (ls : Nat) (accs : List Acc) (hls : 0 < ls) (h4 : ls % 4 = 0)
    (hst : loadStraddles k ls accs = true) : naturallyAligned k accs = false := by
  cases h : naturallyAligned k accs with
  | false => rfl
  | true => rw [aligned_noStraddle k ls accs hls h4 h] at hst; cases hst

example : loadStraddles .dword 64 [⟨0, 0, 62⟩] = true ∧ naturallyAligned .dword [⟨0, 0, 62⟩] = false := by decide

/-- **misaligned_without_straddle_still_equal.** Alignment is sufficient, not necessary: a dword at
    byte 2 of a line is misaligned but does not straddle, and `coalesced_load_equiv` (which only needs
    "no straddle") still gives equal results, for every memory and register file. -/
theorem misaligned_without_straddle_still_equal (dst : Nat) (m : Nat → Nat) (rf : St) :
    naturallyAligned .dword (accesses (active 1 (fun _ => 2)) 1) = false ∧
    loadStraddles .dword 64 (accesses (active 1 (fun _ => 2)) 1) = false ∧
    timingLoad .dword dst 64 m (accesses (active 1 (fun _ => 2)) 1) [0] rf =
      emuLoad .dword dst 64 m (accesses (active 1 (fun _ => 2)) 1) rf := by
  refine ⟨by decide, by decide, ?_⟩
  apply coalesced_load_equiv .dword 1 dst 64 1 (fun _ => 2) m rf [0] (by decide)
  have : loadLines 64 (accesses (active 1 (fun _ => 2)) 1) = [0] := by decide
  rw [this]

/-- **aligned_noStraddle_needs_positive_line.** `0 < ls` cannot be dropped from `aligned_noStraddle`:
    with line size 0 (`0 % 4 = 0` holds) `addr % 0 = addr` and every access "straddles". (No
    configuration has it: the line size is `1 << log2CacheLineSize`.) -/
theorem aligned_noStraddle_needs_positive_line :
    (0 : Nat) % 4 = 0 ∧ naturallyAligned .dword [⟨0, 0, 0⟩] = true ∧ loadStraddles .dword 0 [⟨0, 0, 0⟩] = true := by
  decide

/-- **aligned_noStraddle_needs_line_multiple_of_4.** `ls % 4 = 0` cannot be dropped either: with a
    6-byte line the aligned dword at byte 4 runs over the end. -/
theorem aligned_noStraddle_needs_line_multiple_of_4 :
    0 < 6 ∧ naturallyAligned .dword [⟨0, 0, 4⟩] = true ∧ loadStraddles .dword 6 [⟨0, 0, 4⟩] = true := by
  decide

/-! ## B1. `hord : ord.Perm lines` of the FLAT theorems -/

/-- **load_response_missing_differs.** The response of a line cannot be missing: one active lane, no
    response handled (`ord = []`) — the destination register keeps its old value while the emulator has
    loaded it. (In the real unit the wavefront would still be waiting in `s_waitcnt`; the counter
    theorem is what excludes reading the register before.) -/
theorem load_response_missing_differs :
    let accs := accesses (active 1 (fun _ => 0)) 1
    loadStraddles .dword 64 accs = false ∧ loadLines 64 accs = [0] ∧
    timingLoad .dword 8 64 (fun _ => 1) accs [] (fun _ => 0) (0, 8) = 0 ∧
    emuLoad .dword 8 64 (fun _ => 1) accs (fun _ => 0) (0, 8) = 0x01010101 := by
  decide

/-- the load statement with `Perm` weakened to nothing at all -/
def coalesced_load_any_responses : Prop :=
  ∀ (k : LKind) (cnt dst ls exec : Nat) (addr : Nat → Nat) (m : Nat → Nat) (rf : St) (ord : List Nat),
    loadStraddles k ls (accesses (active exec addr) cnt) = false →
    timingLoad k dst ls m (accesses (active exec addr) cnt) ord rf =
      emuLoad k dst ls m (accesses (active exec addr) cnt) rf

/-- refuted by `load_response_missing_differs` -/
theorem coalesced_load_any_responses_refuted : ¬ coalesced_load_any_responses := by
  intro h
  have := congrFun (h .dword 1 8 64 1 (fun _ => 0) (fun _ => 1) (fun _ => 0) [] (by decide)) (0, 8)
  revert this
  decide

/-- **coalesced_load_equiv_any_multiset.** `Perm` is stronger than needed: it is enough that every line
    the coalescer asked for is answered AT LEAST once. A response handled twice rewrites the same
    registers with the same bytes (each destination register belongs to exactly one line), and a
    response for a line nobody asked for has no lane list. So duplicated or spurious responses cannot
    make timing differ from emulation; only a missing one can. -/
theorem coalesced_load_equiv_any_multiset (k : LKind) (cnt dst ls exec : Nat) (addr : Nat → Nat)
    (m : Nat → Nat) (rf : St) (ord : List Nat)
    (hns : loadStraddles k ls (accesses (active exec addr) cnt) = false)
    (hcov : ∀ ln ∈ loadLines ls (accesses (active exec addr) cnt), ln ∈ ord) :
    timingLoad k dst ls m (accesses (active exec addr) cnt) ord rf =
      emuLoad k dst ls m (accesses (active exec addr) cnt) rf := by
  rw [timingLoad_eq_grouped _ _ _ _ _ _ _ hns]
  unfold emuLoad
  apply grouped_eq_cover
  · intro w hw
    apply hcov
    rw [loadLines, mem_dedup]
    simp only [emuLoadW, List.mem_map] at hw ⊢
    obtain ⟨x, hx, rfl⟩ := hw
    exact ⟨x, hx, rfl⟩
  · intro w1 h1 w2 h2 hc
    simp only [emuLoadW, List.mem_map] at h1 h2
    obtain ⟨x1, hx1, rfl⟩ := h1
    obtain ⟨x2, hx2, rfl⟩ := h2
    simp only [Prod.mk.injEq] at hc
    have e1 := acc_addr hx1
    have e2 := acc_addr hx2
    have hj : x1.j = x2.j := by omega
    show lineOf ls x1.addr = lineOf ls x2.addr
    rw [e1, e2, hc.1, hj]

/-- non-vacuity: lines 0 and 64, responses 64, 0, 64 again and a spurious 128 -/
example : loadStraddles .dword 64 (accesses (active 3 demoAddr) 1) = false ∧
    ∀ ln ∈ loadLines 64 (accesses (active 3 demoAddr) 1), ln ∈ [64, 0, 64, 128] := by
  refine ⟨by decide, ?_⟩
  have : loadLines 64 (accesses (active 3 demoAddr) 1) = [0, 64] := by decide
  rw [this]; decide

/-- **coalesced_store_equiv_any_multiset.** The same for stores: a write request applied twice, or in
    any position relative to the others, leaves the same memory (its bytes belong to its line only),
    so `Perm` weakens to "every request is applied at least once" — and `0 < ls` is not needed at all
    (see `coalesced_store_equiv_any_line_size`). -/
theorem coalesced_store_equiv_any_multiset (ls bw cnt exec : Nat) (addr : Nat → Nat) (data : Nat → Nat → Nat)
    (m : St) (ord : List Nat) (hls : 0 < ls)
    (hns : storeStraddles ls bw cnt (active exec addr) = false)
    (hcov : ∀ ln ∈ storeLines ls cnt (active exec addr), ln ∈ ord) :
    timingStore ls bw cnt (active exec addr) data ord m = emuStore ls bw cnt (active exec addr) data m := by
  unfold timingStore emuStore
  apply grouped_eq_cover
  · intro w hw
    apply hcov
    rw [storeLines, mem_dedup]
    obtain ⟨x, hx, _, _, hk, _⟩ := mem_storeW hw
    exact List.mem_map.mpr ⟨x, hx, hk.symm⟩
  · intro w1 h1 w2 h2 hc
    rw [store_key_of_cell hls hns h1, store_key_of_cell hls hns h2, hc]

example : storeStraddles 64 4 1 (active 7 demoSAddr) = false ∧
    ∀ ln ∈ storeLines 64 1 (active 7 demoSAddr), ln ∈ [64, 64, 0] := by
  refine ⟨by decide, ?_⟩
  have : storeLines 64 1 (active 7 demoSAddr) = [0, 64] := by decide
  rw [this]; decide

/-- **store_request_missing_differs.** … and a write request that is never applied is visible:
    two lanes in two lines, only the first request applied. -/
theorem store_request_missing_differs :
    storeStraddles 64 4 1 (active 3 (fun i => 64 * i)) = false ∧
    storeLines 64 1 (active 3 (fun i => 64 * i)) = [0, 64] ∧
    timingStore 64 4 1 (active 3 (fun i => 64 * i)) (fun _ _ => 0x11223344) [0] (fun _ => 0) (0, 64) = 0 ∧
    emuStore 64 4 1 (active 3 (fun i => 64 * i)) (fun _ _ => 0x11223344) (fun _ => 0) (0, 64) = 0x44 := by
  decide

/-- **coalesced_store_equiv_any_line_size.** The hypothesis `0 < ls` of `coalesced_store_equiv` is
    implied by the others: with `ls = 0` every access "straddles" (`a % 0 + bw > 0`), so
    `storeStraddles = false` forces the store to write nothing, and then both sides are the identity. -/
theorem coalesced_store_equiv_any_line_size (ls bw cnt exec : Nat) (addr : Nat → Nat) (data : Nat → Nat → Nat)
    (m : St) (ord : List Nat)
    (hns : storeStraddles ls bw cnt (active exec addr) = false)
    (hord : ord.Perm (storeLines ls cnt (active exec addr))) :
    timingStore ls bw cnt (active exec addr) data ord m = emuStore ls bw cnt (active exec addr) data m := by
  rcases Nat.eq_zero_or_pos ls with h0 | hpos
  · subst h0
    have hnil : storeW 0 bw cnt (active exec addr) data = [] := by
      apply List.eq_nil_iff_forall_not_mem.mpr
      intro w hw
      obtain ⟨x, hx, b, hb, _, _⟩ := mem_storeW hw
      simp only [storeStraddles, List.any_eq_false, decide_eq_true_eq] at hns
      have := hns x hx
      omega
    unfold timingStore emuStore
    rw [hnil]
    funext c
    rw [grouped_untouched [] c (by intro w hw; cases hw)]
    rfl
  · exact coalesced_store_equiv ls bw cnt exec addr data m ord hpos hns hord

/-- non-vacuity with `ls = 0`: only the empty store satisfies the hypotheses -/
example : storeStraddles 0 4 1 (active 0 (fun _ => 0)) = false ∧
    ([] : List Nat).Perm (storeLines 0 1 (active 0 (fun _ => 0))) := by
  refine ⟨by decide, ?_⟩
  have : storeLines 0 1 (active 0 (fun _ => 0)) = [] := by decide
  rw [this]

/-! ## SMEM -/

/-- **smem_bytes_multiple_of_4.** Every scalar-load opcode moves a positive multiple of 4 bytes: the
    hypothesis `n % 4 = 0` of `scalar_load_equiv_any_address` is a fact about the opcode table. -/
theorem smem_bytes_multiple_of_4 (op n : Nat) (h : smemTimingBytes op = some n) : n % 4 = 0 ∧ 0 < n := by
  unfold smemTimingBytes at h
  split at h <;> simp at h <;> omega

example : smemTimingBytes 3 = some 32 := rfl

/-- **scalar_load_equiv_opcode.** `scalar_load_equiv_any_address` per opcode, without the size
    hypothesis: for `s_load_dword` … `s_load_dwordx16`, every byte address, every line size that is a
    positive multiple of 4 and every order of the chunk responses, timing writes what the emulator
    writes (the emulator moves the same number of bytes: `scalar_opcodes_agree`). -/
theorem scalar_load_equiv_opcode (op n ls reg addr : Nat) (m : Nat → Nat) (s : St) (ord : List (Nat × Nat))
    (hop : smemTimingBytes op = some n) (hls : 0 < ls) (h4 : ls % 4 = 0)
    (hord : ord.Perm (chunks ls (n + 1) (smemAddr addr) n)) :
    smemEmuBytes op = some n ∧
    timingSmem reg (smemAddr addr) m ord s = emuSmem reg (smemAddr addr) n m s :=
  ⟨by rw [← scalar_opcodes_agree]; exact hop,
   scalar_load_equiv_any_address ls reg addr n m s ord hls h4 (smem_bytes_multiple_of_4 op n hop).1 hord⟩

example : smemTimingBytes 1 = some 8 ∧ [(64, 4), (60, 4)].Perm (chunks 64 9 (smemAddr 62) 8) := by
  refine ⟨rfl, ?_⟩
  have : chunks 64 9 (smemAddr 62) 8 = [(60, 4), (64, 4)] := by decide
  rw [this]; exact List.Perm.swap _ _ []

/-- **scalar_load_never_faults.** Under the same hypotheses no chunk is shorter than 4 bytes, so the
    return path (`RegCount = len/4`, which the register file turns from 0 into 1) never slices past a
    response — in whatever order the responses are handled. -/
theorem scalar_load_never_faults (ls addr n : Nat) (ord : List (Nat × Nat)) (hls : 0 < ls) (h4 : ls % 4 = 0)
    (hn : n % 4 = 0) (hord : ord.Perm (chunks ls (n + 1) (smemAddr addr) n)) :
    smemFaults ord = false := by
  simp only [smemFaults, List.any_eq_false, decide_eq_true_eq]
  intro c hc
  have hs : smemAddr addr % 4 = 0 := by unfold smemAddr; omega
  have := chunks_ge4 ls (smemAddr addr) hls h4 hs (n + 1) 0 (n / 4) c
    (by
      have e1 : smemAddr addr + 4 * 0 = smemAddr addr := by omega
      have e2 : 4 * (n / 4) = n := by omega
      rw [e1, e2]; exact hord.mem_iff.mp hc)
  omega

example : 0 < 64 ∧ 64 % 4 = 0 ∧ 8 % 4 = 0 ∧ [(64, 4), (60, 4)].Perm (chunks 64 9 (smemAddr 62) 8) ∧
    smemFaults [(64, 4), (60, 4)] = false := by
  refine ⟨by decide, by decide, by decide, ?_, by decide⟩
  have : chunks 64 9 (smemAddr 62) 8 = [(60, 4), (64, 4)] := by decide
  rw [this]; exact List.Perm.swap _ _ []

/-- **scalar_load_needs_line_multiple_of_4.** `ls % 4 = 0` cannot be dropped: with a 6-byte line an
    `s_load_dwordx2` at byte 4 is cut into chunks of 2 and 6 bytes; the first faults in the real return
    path, and in the model s[reg] receives the dword at byte 6 instead of byte 4. -/
theorem scalar_load_needs_line_multiple_of_4 :
    smemAddr 4 = 4 ∧ chunks 6 9 4 8 = [(4, 2), (6, 6)] ∧ smemFaults (chunks 6 9 4 8) = true ∧
    timingSmem 10 4 (fun a => a) (chunks 6 9 4 8) (fun _ => 0) (0, 10) = 0x09080706 ∧
    emuSmem 10 4 8 (fun a => a) (fun _ => 0) (0, 10) = 0x07060504 := by
  decide

/-- **scalar_load_needs_positive_line.** `0 < ls` cannot be dropped: with line size 0 the chunk loop
    never advances (`min left 0 = 0`), produces only empty chunks until its fuel is gone and writes
    nothing (the real loop would not terminate). -/
theorem scalar_load_needs_positive_line :
    chunks 0 5 8 4 = [(8, 0), (8, 0), (8, 0), (8, 0), (8, 0)] ∧
    timingSmem 10 8 (fun a => a) (chunks 0 5 8 4) (fun _ => 0) (0, 10) = 0 ∧
    emuSmem 10 8 4 (fun a => a) (fun _ => 0) (0, 10) = 0x0b0a0908 := by
  decide

/-- **scalar_load_size_not_multiple_of_4_faults.** `n % 4 = 0` is what keeps the LAST chunk whole: a
    (hypothetical) 6-byte scalar load at byte 60 would be cut into 4 + 2 bytes and the 2-byte response
    faults. No opcode has such a size (`smem_bytes_multiple_of_4`). -/
theorem scalar_load_size_not_multiple_of_4_faults :
    chunks 64 7 60 6 = [(60, 4), (64, 2)] ∧ smemFaults (chunks 64 7 60 6) = true := by decide

/-! ## B2. the outstanding-access counter behind a FIFO stage -/

/-- the response sequence is the issue sequence of transaction ids, prefix-wise: every response names
    the oldest transaction issued and not yet answered -/
def fifoOrder (ops : List COp) : Prop := fifoFrom 0 0 ops

/-- **inOrder_of_oldest_first.** Any interleaving of issues with responses that always answer the oldest
    outstanding transaction satisfies the hypothesis `inOrder` of `outstanding_counter_sound` — and
    conversely, so `inOrder` says exactly "FIFO". -/
theorem inOrder_of_oldest_first (ops : List COp) : fifoOrder ops ↔ inOrder ops {} :=
  ⟨inOrder_of_fifoFrom ops {} 0 0 fifoInv_init, fifoFrom_of_inOrder ops {} 0 0 fifoInv_init⟩

example : fifoOrder [.issue 2, .ret 0, .issue 1, .ret 1, .ret 2] := by
  simp [fifoOrder, fifoFrom]

/-- **counter_sound_fifo.** `outstanding_counter_sound` with the hypothesis in its checkable form:
    if responses never outnumber issued transactions and the response ids read 0, 1, 2, …
    (what a FIFO reorder stage delivers), a counter value of 0 means nothing is in flight. -/
theorem counter_sound_fifo (ops : List COp) (hc : causalFrom 0 0 ops)
    (hids : retIds ops = List.range (retIds ops).length) :
    (crun ops {}).counter = 0 → (crun ops {}).inflight = [] := by
  apply outstanding_counter_sound
  apply (inOrder_of_oldest_first ops).mp
  apply (fifoFrom_iff ops 0 0).mpr
  refine ⟨hc, ?_⟩
  rw [← List.range_eq_range']
  exact hids

example : causalFrom 0 0 [.issue 2, .ret 0, .issue 1, .ret 1, .ret 2] ∧
    retIds [.issue 2, .ret 0, .issue 1, .ret 1, .ret 2] = List.range 3 := by
  simp [causalFrom, retIds, List.range, List.range.loop]

/-! ### behind the reorder buffer (C15) -/

/-- a ROB run without flush: two requests, answered by the lower level in REVERSE order, delivered
    upwards in request order -/
def robOps : List C15.Op :=
  [.top (C15.demoReq 0 false), .top (C15.demoReq 64 false), .tick, .tick, .drainBot, .drainBot,
   .bot 1 (.data [7]), .tick, .bot 0 (.data [5]), .tick, .tick, .tick]

/-- **counter_sound_behind_rob.** The hypothesis of `outstanding_counter_sound` discharged by property
    C15: let the responses the vector memory unit sees (`retIds ops`) be what a reorder buffer delivers
    upwards (`delivered` of ANY run of the C15 model of `amd/timing/rob` — any order, timing and
    duplication of the lower level's answers, any back-pressure), with no flush during the run and the
    k-th transaction issued being the k-th request the ROB accepted (the two models number requests
    with their own counters: `htie`), and let no response precede its issue (`causalFrom`). Then
    `responses_in_acceptance_order` (C15) gives FIFO order, hence: counter = 0 ⇒ nothing in flight. -/
theorem counter_sound_behind_rob (c : C15.Cfg) (rops : List C15.Op) (ops : List COp)
    (hnoflush : (C15.run c rops).discarded = [])
    (htie : (C15.run c rops).accepted = List.range (C15.run c rops).accepted.length)
    (hret : retIds ops = (C15.run c rops).delivered.map (·.rspTo))
    (hc : causalFrom 0 0 ops) :
    (crun ops {}).counter = 0 → (crun ops {}).inflight = [] := by
  apply counter_sound_fifo ops hc
  have hpre := (C15.responses_in_acceptance_order c rops).2.1
  have hlive : (C15.run c rops).live = (C15.run c rops).accepted := by
    unfold C15.St.live
    rw [hnoflush]
    simp
  rw [hlive, htie] at hpre
  rw [hret]
  exact prefix_range _ _ hpre

/-- non-vacuity: the run `robOps` (answers arrive as 1, 0; delivered as 0, 1) and one instruction of two
    transactions -/
example : (C15.run C15.demoCfg robOps).discarded = [] ∧
    (C15.run C15.demoCfg robOps).accepted = List.range (C15.run C15.demoCfg robOps).accepted.length ∧
    retIds [.issue 2, .ret 0, .ret 1] = (C15.run C15.demoCfg robOps).delivered.map (·.rspTo) ∧
    (C15.run C15.demoCfg robOps).answered.map (·.1) = [1, 0] ∧
    causalFrom 0 0 [.issue 2, .ret 0, .ret 1] := by
  refine ⟨by decide, by decide, by decide, by decide, ?_⟩
  simp [causalFrom]

end C02

namespace C02.Wf

/-! ## B3. the wavefront theorems: every assumption about the program, one at a time -/

/-- `wavefront_timing_equals_emulator` (register part) with ONE assumption about the program left out:
    `skip` names a field of `Inst.WF`, or `"PcOK"`, or `"pfx"`; everything else is kept. -/
def wavefront_theorem_without (skip : String) : Prop :=
  ∀ (P : Prog), P.oldCU = false →
    (∀ l i, P.dec l = some i → i.WFx skip ∧ (skip = "PcOK" ∨ i.PcOK)) →
    (skip = "pfx" ∨ ∀ l i, P.dec l = some i → i.size ≤ l.length ∧
      ∀ l', l'.take i.size = l.take i.size → P.dec l' = some i) →
    ∀ (gate : TState → Inst → Bool) (pc : Nat) (regs : RF) (mem : Mem) (fuel : Nat),
    hazardFreeRun P fuel (einit pc regs mem, {}) = true →
    ∀ (evs : List Ev) (T : TState), trun P gate (tinit pc regs mem) evs = some T → T.ph = .done →
    ∃ n E, erun P n (einit pc regs mem) = some E ∧ E.done = true ∧ T.regs = E.regs

/-- **wavefront_theorem_with_everything.** Sanity of the scheme: with nothing left out (`skip = ""`) the
    statement is `wavefront_timing_equals_emulator`. -/
theorem wavefront_theorem_with_everything : wavefront_theorem_without "" := by
  intro P hfix hinst hpfx gate pc regs mem fuel hhaz evs T hrun hdone
  have hP : P.WF := ⟨hfix, fun l i h => ⟨(hinst l i h).1.toWF, (hinst l i h).2.resolve_left (by decide)⟩,
    hpfx.resolve_left (by decide)⟩
  obtain ⟨n, E, h1, h2, h3, _, _⟩ := wavefront_timing_equals_emulator P hP gate pc regs mem fuel hhaz evs T hrun hdone
  exact ⟨n, E, h1, h2, h3⟩

/-- **wf_needs_f_frame.** `Inst.WF.f_frame` ("writes only its declared destinations") cannot be dropped:
    the hazard check looks at the declared `wr` only, so it lets the undeclared write to s7 pass while
    the load of s7 is in flight; the load's response then overwrites it (timing: s7 = loaded dword,
    emulator: s7 = 1). Every other assumption holds for the program. -/
theorem wf_needs_f_frame : ¬ wavefront_theorem_without "f_frame" := by
  intro h
  obtain ⟨T, hT, hd, hno⟩ := differ_refutes (P := iprog 0x1000 isFrame) (pc := 0x1000) (regs := demoRegs)
    (mem := demoMem) (evs := evsFrame) (k := 6) (x := sreg 7) (vT := 2256500849) (vE := 1)
    (by decide +kernel) (by decide +kernel) (by decide)
  obtain ⟨n, E, hr, hdE, hregs⟩ := h (iprog 0x1000 isFrame) rfl
    (iprog_ok _ _ _ (by
      intro i hi
      simp only [isFrame, List.mem_cons, List.not_mem_nil, or_false] at hi
      rcases hi with rfl | rfl | rfl | rfl | rfl | rfl
      all_goals first | exact compile_ok _ _ | exact badFrame_ok))
    (.inr (iprog_pfx _ _ (by decide))) (fun _ _ => true) 0x1000 demoRegs demoMem 6 (by decide +kernel) evsFrame T hT hd
  exact hno n E hr hdE hregs

/-- **wf_needs_f_dep.** `Inst.WF.f_dep` ("reads only its declared sources") cannot be dropped: the
    undeclared read of s7 passes the hazard check while the load of s7 is in flight and sees the old
    value (timing: s10 = 0, emulator: s10 = loaded dword). -/
theorem wf_needs_f_dep : ¬ wavefront_theorem_without "f_dep" := by
  intro h
  obtain ⟨T, hT, hd, hno⟩ := differ_refutes (P := iprog 0x1000 isDep) (pc := 0x1000) (regs := demoRegs)
    (mem := demoMem) (evs := evsFrame) (k := 6) (x := sreg 10) (vT := 0) (vE := 2256500849)
    (by decide +kernel) (by decide +kernel) (by decide)
  obtain ⟨n, E, hr, hdE, hregs⟩ := h (iprog 0x1000 isDep) rfl
    (iprog_ok _ _ _ (by
      intro i hi
      simp only [isDep, List.mem_cons, List.not_mem_nil, or_false] at hi
      rcases hi with rfl | rfl | rfl | rfl | rfl | rfl
      all_goals first | exact compile_ok _ _ | exact badDep_ok))
    (.inr (iprog_pfx _ _ (by decide))) (fun _ _ => true) 0x1000 demoRegs demoMem 6 (by decide +kernel) evsFrame T hT hd
  exact hno n E hr hdE hregs

/-- **wf_needs_tgt_rel.** `Inst.WF.tgt_rel` ("branches are PC-relative") cannot be dropped: the branch
    unit runs `alu.Run` on the PC of the branch and adds the instruction size AFTERWARDS, the emulator
    adds it first — for an absolute target timing lands 4 bytes further (0x100c: `s_endpgm`; the
    emulator at 0x1008 executes `s_mov_b32 s5, 2` first). All shipped branches are relative
    (`branch_pc_equiv`); `s_setpc_b64` is not implemented by either ALU. -/
theorem wf_needs_tgt_rel : ¬ wavefront_theorem_without "tgt_rel" := by
  intro h
  obtain ⟨T, hT, hd, hno⟩ := differ_refutes (P := iprog 0x1000 isBr) (pc := 0x1000) (regs := demoRegs)
    (mem := demoMem) (evs := evsBr) (k := 3) (x := sreg 5) (vT := 0) (vE := 2)
    (by decide +kernel) (by decide +kernel) (by decide)
  obtain ⟨n, E, hr, hdE, hregs⟩ := h (iprog 0x1000 isBr) rfl
    (iprog_ok _ _ _ (by
      intro i hi
      simp only [isBr, List.mem_cons, List.not_mem_nil, or_false] at hi
      rcases hi with rfl | rfl | rfl | rfl
      all_goals first | exact compile_ok _ _ | exact badBr_ok))
    (.inr (iprog_pfx _ _ (by decide))) (fun _ _ => true) 0x1000 demoRegs demoMem 3 (by decide +kernel) evsBr T hT hd
  exact hno n E hr hdE hregs

/-- **wf_needs_st_frame.** `Inst.WF.st_frame` ("a store changes only the bytes of its declared footprint")
    cannot be dropped: the hazard check compares declared byte ranges, finds the scalar load of byte 200
    and the store of byte 100 disjoint, and lets both be in flight; the memory performs the store first
    and the load sees the undeclared byte (timing: s7 has 9 in its low byte, emulator: the old byte). -/
theorem wf_needs_st_frame : ¬ wavefront_theorem_without "st_frame" := by
  intro h
  obtain ⟨T, hT, hd, hno⟩ := differ_refutes (P := iprog 0x1000 isSt) (pc := 0x1000) (regs := demoRegs)
    (mem := demoMem) (evs := evsSt) (k := 6) (x := sreg 7) (vT := 2391244809) (vE := 2391244921)
    (by decide +kernel) (by decide +kernel) (by decide)
  obtain ⟨n, E, hr, hdE, hregs⟩ := h (iprog 0x1000 isSt) rfl
    (iprog_ok _ _ _ (by
      intro i hi
      simp only [isSt, List.mem_cons, List.not_mem_nil, or_false] at hi
      rcases hi with rfl | rfl | rfl | rfl | rfl | rfl
      all_goals first | exact compile_ok _ _ | exact badSt_ok))
    (.inr (iprog_pfx _ _ (by decide))) (fun _ _ => true) 0x1000 demoRegs demoMem 6 (by decide +kernel) evsSt T hT hd
  exact hno n E hr hdE hregs

/-- **wf_needs_pfx.** `Prog.WF.pfx` ("the decoder looks at the first `size` bytes only") cannot be
    dropped: the emulator decodes an 8-byte window at the PC, the timing side decodes the rest of the
    fetch buffer; a decoder sensitive to what follows the instruction gives them different
    instructions (timing: s4 = 2, emulator: s4 = 1). For the real decoder this is property C04. -/
theorem wf_needs_pfx : ¬ wavefront_theorem_without "pfx" := by
  intro h
  obtain ⟨T, hT, hd, hno⟩ := differ_refutes (P := Ppfx) (pc := 0x1000) (regs := demoRegs)
    (mem := demoMem) (evs := evsPfx) (k := 2) (x := sreg 4) (vT := 2) (vE := 1)
    (by decide +kernel) (by decide +kernel) (by decide)
  obtain ⟨n, E, hr, hdE, hregs⟩ := h Ppfx rfl
    (by intro l i hd; obtain ⟨c, rfl⟩ := Ppfx_dec l i hd; exact compile_ok _ c)
    (.inl rfl) (fun _ _ => true) 0x1000 demoRegs demoMem 2 (by decide +kernel) evsPfx T hT hd
  exact hno n E hr hdE hregs

/-- **wf_needs_PcOK.** `Inst.PcOK` ("only scalar-unit instructions look at the PC") cannot be dropped:
    the repaired SCALAR unit advances the PC before `alu.Run` (`getpc_equal_after_fix`), the SIMD, LDS
    and branch units still run `alu.Run` on the PC of the instruction itself — a (hypothetical)
    PC-reading vector instruction would see 0x1000 in timing and 0x1004 in emulation. No such
    instruction exists in either ISA table; the only PC reader is `s_getpc_b64` (scalar unit). -/
theorem wf_needs_PcOK : ¬ wavefront_theorem_without "PcOK" := by
  intro h
  obtain ⟨T, hT, hd, hno⟩ := differ_refutes (P := iprog 0x1000 isPc) (pc := 0x1000) (regs := demoRegs)
    (mem := demoMem) (evs := evsPfx) (k := 2) (x := sreg 4) (vT := 0x1000) (vE := 0x1004)
    (by decide +kernel) (by decide +kernel) (by decide)
  obtain ⟨n, E, hr, hdE, hregs⟩ := h (iprog 0x1000 isPc) rfl
    (iprog_ok _ _ _ (by
      intro i hi
      simp only [isPc, List.mem_cons, List.not_mem_nil, or_false] at hi
      rcases hi with rfl | rfl
      all_goals first | exact compile_ok _ _ | exact badPc_ok))
    (.inr (iprog_pfx _ _ (by decide))) (fun _ _ => true) 0x1000 demoRegs demoMem 2 (by decide +kernel) evsPfx T hT hd
  exact hno n E hr hdE hregs

/-! ### `hdone`, and the ownership part of `hhaz` -/

/-- `wavefront_timing_equals_emulator` for a wavefront that has NOT completed -/
def wavefront_theorem_without_hdone : Prop :=
  ∀ (P : Prog), P.WF → ∀ (gate : TState → Inst → Bool) (pc : Nat) (regs : RF) (mem : Mem) (fuel : Nat),
    hazardFreeRun P fuel (einit pc regs mem, {}) = true →
    ∀ (evs : List Ev) (T : TState), trun P gate (tinit pc regs mem) evs = some T →
    ∃ n E, erun P n (einit pc regs mem) = some E ∧ E.done = true ∧ T.regs = E.regs

/-- **wf_needs_hdone.** `T.ph = .done` cannot be dropped from a conclusion that compares with the
    emulator's FINAL state: before the first event the wavefront of `PGood` has its initial registers.
    (The statement for intermediate points is `wavefront_quiescent_points_match`: an emulator state
    after SOME number of instructions.) -/
theorem wf_needs_hdone : ¬ wavefront_theorem_without_hdone := by
  intro h
  obtain ⟨n, E, hr, hd, hregs⟩ := h PGood PGood_wf (fun _ _ => true) 0x1000 demoRegs demoMem 9
    (by decide +kernel) [] _ rfl
  have hE : (erun PGood 9 (einit 0x1000 demoRegs demoMem)).map (fun E => (E.done, E.regs (vreg 7 0))) =
      some (true, 372180993) := by decide +kernel
  cases hE9 : erun PGood 9 (einit 0x1000 demoRegs demoMem) with
  | none => rw [hE9] at hE; cases hE
  | some E9 =>
    rw [hE9] at hE
    simp only [Option.map_some, Option.some.injEq, Prod.mk.injEq] at hE
    have := erun_done_unique PGood n 9 _ E E9 hr hd hE9 hE.1
    subst this
    have e := congrFun hregs (vreg 7 0)
    rw [hE.2] at e
    revert e
    decide

/-- **foreign_write_breaks_equivalence.** The ownership part of the hazard hypothesis (`accOK`: every
    access stays inside memory nobody else writes) cannot be dropped: a load from memory another agent
    writes sees that write in timing mode (s7 low byte 5) and not in the emulator's isolated run; the
    program is well-formed, passes the STATIC check, and fails `hazardFreeRun` only through `accOK`. -/
theorem foreign_write_breaks_equivalence :
    PForeign.WF ∧ hcheck (csForeign.map compile) = true ∧
    (trun PForeign (fun _ _ => true) (tinit 0x1000 demoRegs demoMem) evsForeign).map
      (fun T => (T.ph, T.regs (sreg 7))) = some (.done, 370083845) ∧
    (erun PForeign 5 (einit 0x1000 demoRegs demoMem)).map
      (fun E => (E.done, E.regs (sreg 7))) = some (true, 370083841) ∧
    hazardFreeRun PForeign 5 (einit 0x1000 demoRegs demoMem, {}) = false ∧
    accRun PForeign 5 (einit 0x1000 demoRegs demoMem) = false := by
  refine ⟨cprog_wf _ _ _, ?_, ?_, ?_, ?_, ?_⟩ <;> decide +kernel

/-! ### `static_check_sound`: `hreg`, `hne` -/

/-- `static_check_sound` without "all accesses are in one alias class" -/
def static_check_sound_without_region : Prop :=
  ∀ (P : Prog), P.oldCU = false → ∀ (is : List Inst) (pc : Nat) (regs : RF) (mem : Mem),
    StraightLine P pc is → hcheck is = true → accRun P is.length (einit pc regs mem) = true →
    hazardFreeRun P is.length (einit pc regs mem, {}) = true

/-- **static_check_needs_region_soundness.** `hreg` cannot be dropped, i.e. the `region` tags must be
    SOUND (different tags ⇒ disjoint addresses): the static check trusts them, lets the load follow the
    store without a wait, and the address-exact check (and the run) show the overlap — timing can perform
    the load first (v6 lane 1 = old memory) where the emulator reads the stored 4. -/
theorem static_check_needs_region_soundness :
    StraightLine (iprog 0x1000 isReg) 0x1000 isReg ∧ hcheck isReg = true ∧
    accRun (iprog 0x1000 isReg) isReg.length (einit 0x1000 demoRegs demoMem) = true ∧
    hazardFreeRun (iprog 0x1000 isReg) isReg.length (einit 0x1000 demoRegs demoMem, {}) = false ∧
    (trun (iprog 0x1000 isReg) (fun _ _ => true) (tinit 0x1000 demoRegs demoMem) evsReg).map
      (fun T => (T.ph, T.regs (vreg 6 1))) = some (.done, 841688093) ∧
    (erun (iprog 0x1000 isReg) 8 (einit 0x1000 demoRegs demoMem)).map
      (fun E => (E.done, E.regs (vreg 6 1))) = some (true, 4) := by
  refine ⟨isReg_straightLine, ?_, ?_, ?_, ?_, ?_⟩ <;> decide +kernel

/-- refuted by `static_check_needs_region_soundness` -/
theorem static_check_sound_without_region_refuted : ¬ static_check_sound_without_region := by
  intro h
  obtain ⟨h1, h2, h3, h4, _⟩ := static_check_needs_region_soundness
  have := h (iprog 0x1000 isReg) rfl isReg 0x1000 demoRegs demoMem h1 h2 h3
  rw [h4] at this
  cases this

/-- `static_check_sound` without "every access stays inside owned memory" -/
def static_check_sound_without_accRun : Prop :=
  ∀ (P : Prog), P.oldCU = false → ∀ (is : List Inst) (pc : Nat) (regs : RF) (mem : Mem),
    StraightLine P pc is → (∀ i ∈ is, ∀ j ∈ is, i.region = j.region) → hcheck is = true →
    hazardFreeRun P is.length (einit pc regs mem, {}) = true

/-- **static_check_needs_owned_accesses.** `hne` (`accRun`) cannot be dropped: the static check knows
    nothing about who else writes memory; `PForeign` passes it and is not hazard-free
    (`foreign_write_breaks_equivalence` shows the observable difference). -/
theorem static_check_needs_owned_accesses : ¬ static_check_sound_without_accRun := by
  intro h
  have hsl : StraightLine PForeign 0x1000 (csForeign.map compile) :=
    cprog_straightLine 0x1000 csForeign foreignWindow (by decide) (by decide +kernel)
      (by intro c hc; simp only [csForeign, List.mem_cons, List.not_mem_nil, or_false] at hc
          rcases hc with rfl | rfl | rfl | rfl | rfl <;> simp [compile])
      ⟨.endp, by decide, rfl⟩
  have := h PForeign rfl (csForeign.map compile) 0x1000 demoRegs demoMem hsl
    (by
      intro i hi j hj
      simp only [List.mem_map] at hi hj
      obtain ⟨c, _, rfl⟩ := hi
      obtain ⟨c', _, rfl⟩ := hj
      rw [compile_region, compile_region])
    (by decide +kernel)
  have hf : hazardFreeRun PForeign (csForeign.map compile).length (einit 0x1000 demoRegs demoMem, {}) = false := by
    decide +kernel
  rw [hf] at this
  cases this

/-! ### `cu_wavefronts_equal_emulator`: `SepL` -/

/-- **cu_race_breaks_equivalence.** On the event machine of the compute unit: wavefront 0 stores where
    wavefront 1 loads (`SepL` violated, everything else — well-formed programs, each hazard-free on its
    own, equal lengths — holds). Two interleavings the rules accept complete both wavefronts with
    DIFFERENT registers in wavefront 1 (v6 lane 0 = the stored value in one, the original memory in the
    other); only the second equals the emulator running wavefront 1 alone. -/
theorem cu_race_breaks_equivalence :
    (∀ P ∈ PsRace, P.WF) ∧ ¬ SepL PsRace ∧ initsRace.length = PsRace.length ∧
    hazardFreeRun (cprog 0x1000 csGood noForeign) 9 (einit 0x1000 demoRegs demoMem, {}) = true ∧
    hazardFreeRun (cprog 0x2000 csLoad noForeign) 9 (einit 0x2000 demoRegs demoMem, {}) = true ∧
    (curun PsRace (fun _ _ => true) (initsRace.map fun pr => tinit pr.1 pr.2 demoMem) cuA).map
      (fun c => c.map fun T => (T.ph, T.regs (vreg 6 0))) = some [(.done, 370083841), (.done, 372180993)] ∧
    (curun PsRace (fun _ _ => true) (initsRace.map fun pr => tinit pr.1 pr.2 demoMem) cuB).map
      (fun c => c.map fun T => (T.ph, T.regs (vreg 6 0))) = some [(.done, 370083841), (.done, 370083841)] ∧
    (erun (cprog 0x2000 csLoad noForeign) 7 (einit 0x2000 demoRegs demoMem)).map
      (fun E => (E.done, E.regs (vreg 6 0))) = some (true, 370083841) := by
  refine ⟨?_, PsRace_not_sep, rfl, ?_, ?_, ?_, ?_, ?_⟩
  · intro P hP
    simp only [PsRace, List.mem_cons, List.not_mem_nil, or_false] at hP
    rcases hP with rfl | rfl <;> exact cprog_wf _ _ _
  all_goals decide +kernel

/-- `cu_wavefronts_equal_emulator` (register part) without `SepL` -/
def cu_wavefronts_equal_emulator_without_sep : Prop :=
  ∀ (Ps : List Prog), (∀ P ∈ Ps, P.WF) → ∀ (gate : TState → Inst → Bool)
    (inits : List (Nat × RF)) (m0 : Mem) (fuel : Nat), inits.length = Ps.length →
    (∀ (j : Nat) (P : Prog) (pr : Nat × RF), Ps[j]? = some P → inits[j]? = some pr →
      hazardFreeRun P fuel (einit pr.1 pr.2 m0, {}) = true) →
    ∀ (evs : List (Nat × Ev)) (c : List TState),
    curun Ps gate (inits.map fun pr => tinit pr.1 pr.2 m0) evs = some c →
    ∀ (j : Nat) (P : Prog) (pr : Nat × RF) (T : TState),
    Ps[j]? = some P → inits[j]? = some pr → c[j]? = some T → T.ph = .done →
    ∃ n E, erun P n (einit pr.1 pr.2 m0) = some E ∧ E.done = true ∧ T.regs = E.regs

/-- refuted by `cu_race_breaks_equivalence` (schedule `cuA`) -/
theorem cu_wavefronts_equal_emulator_without_sep_refuted : ¬ cu_wavefronts_equal_emulator_without_sep := by
  intro h
  obtain ⟨hwf, _, hlen, hz0, hz1, hA, _, hE⟩ := cu_race_breaks_equivalence
  cases hc : curun PsRace (fun _ _ => true) (initsRace.map fun pr => tinit pr.1 pr.2 demoMem) cuA with
  | none => rw [hc] at hA; cases hA
  | some c =>
    rw [hc] at hA
    simp only [Option.map_some, Option.some.injEq] at hA
    obtain ⟨T0, T1, rfl, _, h1⟩ := list_map_eq_pair _ c _ _ hA
    simp only [Prod.mk.injEq] at h1
    obtain ⟨hd1, hv1⟩ := h1
    obtain ⟨n, E, hr, hdE, hregs⟩ := h PsRace hwf (fun _ _ => true) initsRace demoMem 9 hlen
      (by
        intro j P pr hj hi
        match j with
        | 0 =>
          simp only [PsRace, initsRace, List.getElem?_cons_zero, Option.some.injEq] at hj hi
          subst hj; subst hi; exact hz0
        | 1 =>
          simp only [PsRace, initsRace, List.getElem?_cons_succ, List.getElem?_cons_zero, Option.some.injEq] at hj hi
          subst hj; subst hi; exact hz1
        | _ + 2 => simp [PsRace] at hj)
      cuA [T0, T1] hc 1 (cprog 0x2000 csLoad noForeign) (0x2000, demoRegs) T1 rfl rfl rfl hd1
    cases hE7 : erun (cprog 0x2000 csLoad noForeign) 7 (einit 0x2000 demoRegs demoMem) with
    | none => rw [hE7] at hE; cases hE
    | some E7 =>
      rw [hE7] at hE
      simp only [Option.map_some, Option.some.injEq, Prod.mk.injEq] at hE
      have := erun_done_unique _ n 7 _ E E7 hr hdE hE7 hE.1
      subst this
      have e := congrFun hregs (vreg 6 0)
      rw [hv1, hE.2] at e
      exact absurd e (by decide)

end C02.Wf

namespace C02.Lds

/-- **lds_setLDS_once_needs_one_workgroup.** The hypothesis "all instructions belong to work-group `wg`"
    of `lds_setLDS_once_equiv` cannot be dropped: installing the LDS buffer once is only right for the
    instructions of ONE wavefront — a store of a wavefront of work-group 9 run after `SetLDS(5)` lands in
    the buffer of work-group 5, the LDS unit (which re-installs the buffer per instruction) writes
    work-group 9's. (The emulator calls `SetLDS` per wavefront, so the situation does not arise.) -/
theorem lds_setLDS_once_needs_one_workgroup :
    (emuRunWf 5 [⟨demoWrite, 0, 9⟩] demoArch).ldsOf 5 (0, 0) = 0x44 ∧
    (emuRunWf 5 [⟨demoWrite, 0, 9⟩] demoArch).ldsOf 9 (0, 0) = 0 ∧
    ([⟨demoWrite, 0, 9⟩].foldl (fun a j => timingExec j a) (setLDS 5 demoArch)).ldsOf 5 (0, 0) = 0 ∧
    ([⟨demoWrite, 0, 9⟩].foldl (fun a j => timingExec j a) (setLDS 5 demoArch)).ldsOf 9 (0, 0) = 0x44 := by
  decide +kernel

/-- **lds_valid_needs_fresh_ids.** `Valid` asks that an instruction instance is offered successfully at
    most once (ids are ghost labels of dynamic instances): offering the same id twice makes it appear
    twice in `ran`, so "no instruction is executed twice" is a statement about instances. Structural. -/
theorem lds_valid_needs_fresh_ids :
    (runU ([Op.accept 0] ++ List.replicate 17 .tick ++ [.accept 0] ++ List.replicate 17 .tick) idle).ran = [0, 0] ∧
    ¬ Valid ([Op.accept 0] ++ List.replicate 17 .tick ++ [.accept 0] ++ List.replicate 17 .tick) idle := by
  constructor <;> decide +kernel

/-- **lds_driver_eval_needs_no_fault.** `hf : faultOf … = none` of `lds_driver_eval_sound` cannot be
    dropped: an out-of-range byte write is ignored by the driver's array (`setIfInBounds`) but recorded
    by the byte function the theorems use. (A faulting instruction is reported as `fault:…` by the driver
    and never evaluated this way.) -/
theorem lds_driver_eval_needs_no_fault :
    faultOf ⟨true, 4, false, 1⟩ demoWrite (Array.replicate 4 0).size demoRf ≠ none ∧
    (arrApply (ldsWrites ⟨true, 4, false, 1⟩ demoWrite demoRf) (Array.replicate 4 0)).getD 4 0 = 0 ∧
    applyW (ldsWrites ⟨true, 4, false, 1⟩ demoWrite demoRf) (fun c => (Array.replicate 4 0).getD c.2 0) (0, 4) = 0xBB := by
  refine ⟨?_, ?_, ?_⟩ <;> decide +kernel

end C02.Lds

namespace C02.Race

/-- reads cell 0 into the local state without declaring it -/
def sneakyRead : Act Nat := ⟨[], [], fun _ m => (m 0, m)⟩

/-- **commute_needs_honest_footprints.** `Act.WF` cannot be dropped from `commute_of_no_conflict`: an
    access that reads a cell outside its declared read footprint has no declared conflict with a store
    to that cell, yet the two orders differ. -/
theorem commute_needs_honest_footprints :
    let s : CfgS Nat := ⟨fun _ => 0, fun _ => 0⟩
    let e : Nat × Act Nat := (0, Act.write 0 5)
    let e' : Nat × Act Nat := (1, sneakyRead)
    e.1 ≠ e'.1 ∧ ¬ Conflict e.2 e'.2 ∧ ¬ sneakyRead.WF ∧
    (stepS (stepS s e) e').loc 1 = 5 ∧ (stepS (stepS s e') e).loc 1 = 0 := by
  refine ⟨by decide, by decide, ?_, by decide, by decide⟩
  intro h
  have := (h.dep 0 (fun _ => 0) (fun _ => 1) (by intro c hc; cases hc)).1
  revert this
  decide

end C02.Race

/-!
## REPLAY

Case lines for the NEW witnesses that the line protocol can express, with the answer of the model
(`#eval C02.handle "<line>"`). `arch=` is ignored by the model (the harness uses it to pick the ALU).

(1) a line's response never handled (`load_response_missing_differs`) — the register keeps its prefill:
  c02 ld opc=20 lg=6 arch=gcn3 exec=1 dst=8 sa=0 sbase=0 imm=0 seed=7 a=100000000 ord=-
  E 0.8=be53935e | T txns=100000000:1 -
(2) a response handled twice + reversed order (`coalesced_load_equiv_any_multiset`; the real unit drops the
    transaction after its first response, so the harness may refuse the third index):
  c02 ld opc=20 lg=6 arch=gcn3 exec=3 dst=8 sa=0 sbase=0 imm=0 seed=7 a=10000003c,100000044 ord=1,0,1
  E 0.8=d50a822c 1.8=89e7274f | T txns=100000000:1,100000040:1 0.8=d50a822c 1.8=89e7274f
(3) misaligned, not straddling (`misaligned_without_straddle_still_equal`):
  c02 ld opc=20 lg=6 arch=gcn3 exec=1 dst=8 sa=0 sbase=0 imm=0 seed=7 a=100000002 ord=0
  E 0.8=972dbe53 | T txns=100000000:1 0.8=972dbe53
(4) dwordx4 at a 4-aligned (not 16-aligned) address, registers in two lines (`lanes_aligned_naturallyAligned`,
    `coalesced_load_equiv_aligned`):
  c02 ld opc=23 lg=6 arch=gcn3 exec=1 dst=8 sa=0 sbase=0 imm=0 seed=7 a=10000003c ord=1,0
  E 0.8=d50a822c 0.9=5188fe83 0.10=89e7274f 0.11=2fb01d20 | T txns=100000000:1,100000040:3 0.8=d50a822c 0.9=5188fe83 0.10=89e7274f 0.11=2fb01d20
(5) aligned ushort in the last two bytes of a line (`aligned_noStraddle`):
  c02 ld opc=18 lg=6 arch=gcn3 exec=3 dst=8 sa=0 sbase=0 imm=0 seed=7 a=10000003e,10000007e ord=1,0
  E 0.8=d50a 1.8=a502 | T txns=100000000:1,100000040:1 0.8=d50a 1.8=a502
(6) misaligned sshort in the last byte of a line (`straddle_implies_misaligned`; open finding, timing faults):
  c02 ld opc=19 lg=6 arch=gcn3 exec=1 dst=8 sa=0 sbase=0 imm=0 seed=7 a=10000003f ord=0
  E 0.8=ffff83d5 | T txns=100000000:1 fault:bounds
(7) dwordx2 store, registers in two lines, requests applied in reverse order (`coalesced_store_equiv_aligned`):
  c02 st opc=29 lg=6 arch=gcn3 exec=1 sa=0 sbase=0 imm=0 seed=7 a=10000003c ord=1,0
  E 10000003c:84c8838e3ef62b51 | T txns=100000000:4,100000040:4 10000003c:84c8838e3ef62b51
(8) a write request never applied (`store_request_missing_differs`):
  c02 st opc=28 lg=6 arch=gcn3 exec=3 sa=0 sbase=0 imm=0 seed=7 a=100000000,100000040 ord=0
  E 100000000:84c8838e 100000040:6011ab5c | T txns=100000000:4,100000040:4 100000000:84c8838e
(9) a write request applied twice (`coalesced_store_equiv_any_multiset`):
  c02 st opc=28 lg=6 arch=gcn3 exec=3 sa=0 sbase=0 imm=0 seed=7 a=100000000,100000040 ord=1,0,1
  E 100000000:84c8838e 100000040:6011ab5c | T txns=100000000:4,100000040:4 100000000:84c8838e 100000040:6011ab5c
(10) aligned short store in the last two bytes of a line; misaligned dword store that does not straddle:
  c02 st opc=26 lg=6 arch=gcn3 exec=1 sa=0 sbase=0 imm=0 seed=7 a=10000003e ord=0
  E 10000003e:84c8 | T txns=100000000:2 10000003e:84c8
  c02 st opc=28 lg=6 arch=gcn3 exec=1 sa=0 sbase=0 imm=0 seed=7 a=100000002 ord=0
  E 100000002:84c8838e | T txns=100000000:4 100000002:84c8838e
(11) scalar loads at byte addresses that are not multiples of 4, chunk responses reversed
     (`scalar_load_equiv_opcode`, `scalar_load_never_faults`):
  c02 sm opc=1 lg=6 sdst=10 start=10000003e seed=7 ord=1,0
  E s10=d50a822c s11=5188fe83 | T chunks=10000003c:4,100000040:4 s10=d50a822c s11=5188fe83
  c02 sm opc=4 lg=6 sdst=10 start=100000031 seed=7 ord=1,0
  E s10=766656c6 s11=334e7036 s12=2b4c01a8 s13=d50a822c s14=5188fe83 s15=89e7274f s16=2fb01d20 s17=983db547 s18=85420960 s19=2d5cc4bb s20=b42556b3 s21=23e54f4f s22=32498eac s23=a644ee6 s24=3788dff2 s25=7ca4085c | T chunks=100000030:16,100000040:48 s10=766656c6 s11=334e7036 s12=2b4c01a8 s13=d50a822c s14=5188fe83 s15=89e7274f s16=2fb01d20 s17=983db547 s18=85420960 s19=2d5cc4bb s20=b42556b3 s21=23e54f4f s22=32498eac s23=a644ee6 s24=3788dff2 s25=7ca4085c
(12) counter, FIFO responses (`counter_sound_fifo`) and, for contrast, the first two swapped:
  c02 cnt ns=2,1 ord=0,1,2
  2/3 2/2 1/1 0/0
  c02 cnt ns=2,1 ord=1,0,2
  2/3 1/2 1/1 0/0
(13) a foreign write between execute and service of a scalar load from the foreign window
     (`foreign_write_breaks_equivalence`; the harness must be able to inject `env`), and the same schedule
     without it:
  c02 wf base=1000 exec=3 seed=1 prog=smov.8.300000/smov.9.0/sld.7.8.0/wait.0.0/end ev=f,fr,d,i,x,c,d,i,x,c,d,i,x,env.300000.5,ss.0,rsc.0,d,i,c,d,i,c
  T ok ph=done pc=24 vm=0 lgkm=0 ib=1000:64 tr=0,8,12,20,24 s=b7bc6f00,3208e9a8,764c5163,bafad51e,c66e4dc6,4c45621b,f0b13b3c,6fe86405,300000,0,a452f336,2e2f7323,8124778,ecea44c0,28ae0f3b,2943121e scc=0 exec=3 vcc=0 v=9dd08759e612f17a lds=d80ac658736bb725 mem=- | E done pc=28 tr=0,8,12,20,24 s=b7bc6f00,3208e9a8,764c5163,bafad51e,c66e4dc6,4c45621b,f0b13b3c,6fe864f3,300000,0,a452f336,2e2f7323,8124778,ecea44c0,28ae0f3b,2943121e scc=0 exec=3 vcc=0 v=9dd08759e612f17a lds=d80ac658736bb725 mem=-
  c02 wf base=1000 exec=3 seed=1 prog=smov.8.300000/smov.9.0/sld.7.8.0/wait.0.0/end ev=f,fr,d,i,x,c,d,i,x,c,d,i,x,ss.0,rsc.0,d,i,c,d,i,c
  T ok ph=done pc=24 vm=0 lgkm=0 ib=1000:64 tr=0,8,12,20,24 s=b7bc6f00,3208e9a8,764c5163,bafad51e,c66e4dc6,4c45621b,f0b13b3c,6fe864f3,300000,0,a452f336,2e2f7323,8124778,ecea44c0,28ae0f3b,2943121e scc=0 exec=3 vcc=0 v=9dd08759e612f17a lds=d80ac658736bb725 mem=- | E done pc=28 tr=0,8,12,20,24 s=b7bc6f00,3208e9a8,764c5163,bafad51e,c66e4dc6,4c45621b,f0b13b3c,6fe864f3,300000,0,a452f336,2e2f7323,8124778,ecea44c0,28ae0f3b,2943121e scc=0 exec=3 vcc=0 v=9dd08759e612f17a lds=d80ac658736bb725 mem=-
(14) no event at all (`wf_needs_hdone`): the wavefront still has its initial registers, the emulator is done:
  c02 wf base=1000 exec=3 seed=1 prog=smov.4.200000/smov.5.0/vxor.2.4.0/vmov.3.5/fld.6.2/wait.0.0/vxor.7.4.6/fst.2.7/end ev=-
  T ok ph=ready pc=0 vm=0 lgkm=0 ib=0:0 tr=- s=b7bc6f00,3208e9a8,764c5163,bafad51e,c66e4dc6,4c45621b,f0b13b3c,a11fb994,bdbd2edb,4ab44c1e,a452f336,2e2f7323,8124778,ecea44c0,28ae0f3b,2943121e scc=0 exec=3 vcc=0 v=9dd08759e612f17a lds=d80ac658736bb725 mem=- | E done pc=48 tr=0,8,12,16,20,28,32,36,44 s=b7bc6f00,3208e9a8,764c5163,bafad51e,200000,0,f0b13b3c,a11fb994,bdbd2edb,4ab44c1e,a452f336,2e2f7323,8124778,ecea44c0,28ae0f3b,2943121e scc=0 exec=3 vcc=0 v=c911c6a5104c63fc lds=d80ac658736bb725 mem=200002:39 200006:af

NOT expressible as a case line: `aligned_noStraddle_needs_*`, `scalar_load_needs_*`,
`scalar_load_size_not_multiple_of_4_faults` (line size is `lg=6` in the harness and sizes come from the opcode
table); `wf_needs_f_frame / f_dep / tgt_rel / st_frame / pfx / PcOK`, `static_check_needs_region_soundness`
(instructions outside the sample set `CInst`); `cu_race_breaks_equivalence` (`c02 wf` drives one wavefront);
`counter_sound_behind_rob` (two models); `lds_*` (ghost ids / model-internal evaluation);
`commute_needs_honest_footprints` (abstract actions).
-/
