import MgpuProofs.C14Chain
import MgpuProofs.Props.C14
import MgpuProofs.Props.C14Vmu
import MgpuProofs.Props.C15Deep
/-! # C14 — `waitcnt_tracks_truth` with the in-order hypothesis discharged by composition

`waitcnt_tracks_truth` (`Props/C14.lean`) assumes `inOrderRun`: every response belongs to the oldest
outstanding instruction of its wavefront, the last transaction of an instruction is answered last.
Here that is a THEOREM about the composed machine `C14.Chain.crun` (`MgpuModel/C14_Chain.lean`):

  scheduler + ghost (`C14.gstep`)  ∥  repaired vector memory unit (`C14.Vmu`, any width / stages /
  capacities)  ∥  connection  ∥  reorder buffer in its closed system (`C15.sysStep`, any
  configuration) with ANY lower memory (answers in any order, at any time, at most once).

The components are the unchanged models of `Props/C14Vmu.lean` and `Props/C15Deep.lean`; the proof
uses the invariant behind `vmu_fifo` / `vmu_last_transaction_sent_last` (the unit puts the
transactions on the port in creation order, for every width) and `C15.sys_order_once_capacity`
(the ROB answers in acceptance order, exactly once), i.e. the ROB component of every composed run is
a `C15.sysRun` and the unit satisfies `vmu_GInv` (`composed_components`).

**Residual assumptions, all explicit:**
1. `sideOK` — the events *outside* the vector memory path (`CEv.other`: evaluation rounds, other
   issues, the scalar memory path, which does not go through this unit and this ROB) are not FLAT
   issues / returns, are consistently annotated and the scalar path returns in order. With no scalar
   loads in the run this is `nonFlat` only.
2. No control message reaches the ROB during the run (the composed machine has no flush / restart
   event): the flush / restart round is the subject of `C14.Flush` and `C15.Cu`, where the counters
   are reset and the saved requests re-sent.
3. The connection is lossless and FIFO and re-offers a refused request (`CEv.conn`: the head of the
   port buffer leaves only when the ROB's Top port admits it) — Akita's port / connection contract.
4. The return handler receives the responses in the order the ROB's Top port hands them out
   (`CEv.ret` takes the head), and finds the transaction by the id the response names
   (`table[r.rspTo]`; that this id is the creation index of the transaction is proved, not assumed).
5. All FLAT transactions of the compute unit travel through this one unit and this one ROB (as in
   the shipped platforms: `CU.ToVectorMem → ROB → address translator → L1V`). -/
namespace C14.Chain
open C14

/-- **The in-order hypothesis holds in every composed run.** What the scheduler has seen after any
    event sequence of the composed machine (`σ.log`, with the annotation of every FLAT response
    COMPUTED from the identity of the transaction the ROB's response names) is a consistently
    annotated run with in-order returns — the two hypotheses of `waitcnt_tracks_truth`. Every width,
    stage count and capacity of the unit, every ROB configuration, every memory behaviour. -/
theorem composed_returns_in_order (c : Cfg) (vc : Vmu.Cfg) (rc : C15.Cfg) (gs : GState) (evs : List CEv)
    (hf : GFresh gs) (hs : sideOK c vc rc (CSys.init vc gs) evs = true) :
    (crun c vc rc (CSys.init vc gs) evs).g = grun c gs (crun c vc rc (CSys.init vc gs) evs).log ∧
    respOKRun c gs (crun c vc rc (CSys.init vc gs) evs).log = true ∧
    inOrderRun c gs (crun c vc rc (CSys.init vc gs) evs).log = true := by
  have h := crun_inv (c := c) (vc := vc) (rc := rc) hf evs _ (init_inv hf) hs
  exact ⟨h.glog, h.ok, h.ord⟩

/-- **waitcnt_tracks_truth_composed.** In every state of every run of the composed machine
    (scheduler ∥ repaired vector memory unit of any width ∥ connection ∥ reorder buffer ∥ any memory)
    `OutstandingVectorMemAccess` of every wavefront is the number of its FLAT instructions that are
    really outstanding (at least one response — in particular that of the last transaction — has not
    reached the compute unit), and `OutstandingScalarMemAccess` that number plus the outstanding
    scalar loads. No in-order hypothesis on the vector memory path is left. -/
theorem waitcnt_tracks_truth_composed (c : Cfg) (vc : Vmu.Cfg) (rc : C15.Cfg) (gs : GState) (evs : List CEv)
    (hf : GFresh gs) (hs : sideOK c vc rc (CSys.init vc gs) evs = true) :
    ∀ w ∈ (crun c vc rc (CSys.init vc gs) evs).g.s.wfs,
      w.ovc = (((crun c vc rc (CSys.init vc gs) evs).g.g w.id).trueVM : Int) ∧
      w.osc = (((crun c vc rc (CSys.init vc gs) evs).g.g w.id).trueLGKM : Int) := by
  obtain ⟨h1, h2, h3⟩ := composed_returns_in_order c vc rc gs evs hf hs
  have := waitcnt_tracks_truth c gs _ hf h2 (fun _ => h3)
  rw [← h1] at this
  exact this

/-- **The components inside the composition are the proved ones**: the ROB side of every composed
    run is a closed-system run `C15.sysRun` (every theorem of `Props/C15*.lean` applies to it), the
    unit satisfies the invariant of `vmu_fifo` and its send history is `0, 1, 2, …` (creation order
    without gap, every width). -/
theorem composed_components (c : Cfg) (vc : Vmu.Cfg) (rc : C15.Cfg) (gs : GState) (evs : List CEv)
    (hf : GFresh gs) (hs : sideOK c vc rc (CSys.init vc gs) evs = true) :
    (∃ revs, (crun c vc rc (CSys.init vc gs) evs).sys = C15.sysRun rc revs) ∧
    Vmu.vmu_GInv vc (crun c vc rc (CSys.init vc gs) evs).vmu ∧
    (crun c vc rc (CSys.init vc gs) evs).vmu.sent =
      List.range (crun c vc rc (CSys.init vc gs) evs).vmu.sent.length := by
  have h := crun_inv (c := c) (vc := vc) (rc := rc) hf evs _ (init_inv hf) hs
  exact ⟨h.isRun, h.vmu, (sent_range vc _ h.vmu).1⟩

/-- **Responses reach the compute unit in creation order, none missing, none twice**: the ids of the
    responses taken so far are `0, 1, …` — the creation indices of the transactions, because the
    `k`-th request the ROB's Top port admits carries transaction `k` (`adm`; the port buffer of the
    unit is the tail of its send history behind the admitted requests) — and every response names a
    transaction that was created. -/
theorem composed_responses_in_creation_order (c : Cfg) (vc : Vmu.Cfg) (rc : C15.Cfg) (gs : GState)
    (evs : List CEv) (hf : GFresh gs) (hs : sideOK c vc rc (CSys.init vc gs) evs = true) :
    let σ := crun c vc rc (CSys.init vc gs) evs
    σ.sys.out.map (·.rspTo) = List.range σ.sys.out.length ∧
    σ.adm = List.range σ.sys.rob.nextTop ∧
    σ.vmu.sent = List.range σ.sys.rob.nextTop ++ σ.vmu.out ∧
    σ.sys.out.length ≤ σ.sys.rob.nextTop ∧ σ.sys.rob.nextTop ≤ σ.table.length ∧
    σ.table.length = σ.vmu.next := by
  intro σ
  have h : CInv c vc rc gs σ := crun_inv (c := c) (vc := vc) (rc := rc) hf evs _ (init_inv hf) hs
  have hi := h.ids
  rw [List.map_append, List.append_assoc, List.append_assoc] at hi
  have := Vmu.vmu_prefix_range _ _ _ hi
  rw [List.length_map] at this
  have hb := h.bounds
  exact ⟨this, h.adm, h.port, by omega, hb.2, h.tlen⟩

/-- **waitcnt_sound / endpgm_waits about real accesses, composed**: at every point of an evaluation
    round started in any state of a composed run, an `s_waitcnt` that completes has at most `vmcnt` /
    `lgkmcnt` memory instructions really outstanding, and an `s_endpgm` completes only when none is. -/
theorem waitcnt_sound_composed (c : Cfg) (vc : Vmu.Cfg) (rc : C15.Cfg) (gs : GState) (evs : List CEv)
    (hf : GFresh gs) (hs : sideOK c vc rc (CSys.init vc gs) evs = true) (l₁ : List Nat) (j : Nat) (w : Wf)
    (hget : getWf (l₁.foldl (evalOne c)
      ({ (crun c vc rc (CSys.init vc gs) evs).g.s with exec := [] }, false)).1.wfs j = some w)
    (hc : (evalInst c (l₁.foldl (evalOne c)
      ({ (crun c vc rc (CSys.init vc gs) evs).g.s with exec := [] }, false)).1 w).completed = true) :
    (w.op = 12 → (((crun c vc rc (CSys.init vc gs) evs).g.g w.id).trueLGKM : Int) ≤ w.lk ∧
                  (((crun c vc rc (CSys.init vc gs) evs).g.g w.id).trueVM : Int) ≤ w.vm) ∧
    (w.op = 1 → ((crun c vc rc (CSys.init vc gs) evs).g.g w.id).trueLGKM = 0 ∧
                 ((crun c vc rc (CSys.init vc gs) evs).g.g w.id).trueVM = 0) := by
  obtain ⟨h1, h2, h3⟩ := composed_returns_in_order c vc rc gs evs hf hs
  have a := waitcnt_sound_truth c gs _ hf h2 h3 l₁ j w
  have b := endpgm_waits_truth c gs _ hf h2 h3 l₁ j w
  rw [← h1] at a b
  exact ⟨fun hop => a hget hop hc, fun hop => b hget hop hc⟩

/-! ## non-vacuity -/

/-- wavefront 1 loads with two transactions, wavefront 2 stores with one; eight lanes (mi300a); the
    memory answers the first two forwarded requests in REVERSE order; the ROB's Top port (two places)
    refuses the third request once — it stays in the unit's port and is offered again —; the ROB
    hands the responses back in creation order -/
def demoRun : List CEv :=
  [.other (.plain (.issueUnit 1)), .flat 1 false 1 0, .other (.plain (.issueUnit 2)), .flat 2 true 0 0,
   .vcyc, .vcyc, .vcyc, .vcyc, .vcyc, .vcyc,
   .conn (C15.demoReq 0 false), .conn (C15.demoReq 64 false), .conn (C15.demoReq 128 true),
   .robTick, .robTick, .conn (C15.demoReq 128 true), .memTake, .memTake,
   .memAnswer 1 (.data [2]), .memAnswer 0 (.data [1]),
   .robTick, .robTick, .robTick, .ret, .robTick, .ret, .robTick, .memTake, .memAnswer 0 .done, .robTick, .robTick,
   .other (.plain .eval), .ret]

def demoG : GState := ⟨demo, fun _ => ⟨[], []⟩⟩

theorem demoG_fresh : GFresh demoG := ⟨by decide, fun _ => rfl⟩

example : sideOK Cfg.cur Vmu.mi300a C15.demoCfg (CSys.init Vmu.mi300a demoG) demoRun = true ∧
    (crun Cfg.cur Vmu.mi300a C15.demoCfg (CSys.init Vmu.mi300a demoG) demoRun).log =
      [.plain (.issueUnit 1), .memIssue 1 true 1, .plain (.issueUnit 2), .memIssue 2 true 0,
       .memRet 1 0 0 false, .memRet 1 0 0 true, .plain .eval, .memRet 2 1 0 true] ∧
    (crun Cfg.cur Vmu.mi300a C15.demoCfg (CSys.init Vmu.mi300a demoG) demoRun).sys.out.map (·.rspTo) = [0, 1, 2] ∧
    (crun Cfg.cur Vmu.mi300a C15.demoCfg (CSys.init Vmu.mi300a demoG) demoRun).sys.rob.answered.map (·.1) = [1, 0, 2] ∧
    -- after the first two responses wavefront 1 has nothing outstanding, wavefront 2 one store
    ((crun Cfg.cur Vmu.mi300a C15.demoCfg (CSys.init Vmu.mi300a demoG) (demoRun.take 26)).g.s.wfs.map
      (fun w => (w.id, w.ovc))) = [(0, 0), (1, 0), (2, 1), (3, 0), (4, 0)] ∧
    ((crun Cfg.cur Vmu.mi300a C15.demoCfg (CSys.init Vmu.mi300a demoG) (demoRun.take 26)).g.g 2).trueVM = 1 := by
  decide +kernel

/-- the composed theorem applied to the demonstration run -/
example : ∀ w ∈ (crun Cfg.cur Vmu.mi300a C15.demoCfg (CSys.init Vmu.mi300a demoG) demoRun).g.s.wfs,
    w.ovc = (((crun Cfg.cur Vmu.mi300a C15.demoCfg (CSys.init Vmu.mi300a demoG) demoRun).g.g w.id).trueVM : Int) ∧
    w.osc = (((crun Cfg.cur Vmu.mi300a C15.demoCfg (CSys.init Vmu.mi300a demoG) demoRun).g.g w.id).trueLGKM : Int) :=
  waitcnt_tracks_truth_composed Cfg.cur Vmu.mi300a C15.demoCfg demoG demoRun demoG_fresh (by decide +kernel)

/-- the hypothesis `sideOK` is needed: an `other` event that smuggles in an out-of-order FLAT return
    is rejected by it -/
example : sideOK Cfg.cur Vmu.mi300a C15.demoCfg (CSys.init Vmu.mi300a demoG)
    [.flat 1 false 1 0, .other (.memRet 1 0 0 true)] = false := by decide +kernel

/-! ## what the counters really need: the order inside an instruction -/

theorem in_order_implies_last_last (c : Cfg) : ∀ (ops : List GOp) (gs : GState),
    inOrderRun c gs ops = true → lastLastRun c gs ops = true
  | [], _, _ => rfl
  | o :: ops, gs, h => by
    simp only [inOrderRun, Bool.and_eq_true] at h
    simp only [lastLastRun, Bool.and_eq_true]
    exact ⟨inOrder_lastLast gs o h.1, in_order_implies_last_last c ops _ h.2⟩

/-- **waitcnt_tracks_truth under the weaker hypothesis `lastLastRun`**: for the counters to equal the
    number of really outstanding instructions it is enough that, within every instruction, the
    response of the last transaction arrives after the responses of its other transactions —
    responses of DIFFERENT instructions may overtake each other (`waitcnt_tracks_truth` is the
    special case: `in_order_implies_last_last`). This is exactly what the unit's
    `vmu_last_transaction_sent_last` plus an order-preserving path provide. -/
theorem waitcnt_tracks_truth_last_last (c : Cfg) (gs : GState) (ops : List GOp) (hf : GFresh gs)
    (hok : respOKRun c gs ops = true) (hin : lastLastRun c gs ops = true) :
    ∀ w ∈ (grun c gs ops).s.wfs,
      w.ovc = (((grun c gs ops).g w.id).trueVM : Int) ∧ w.osc = (((grun c gs ops).g w.id).trueLGKM : Int) := by
  intro w hw
  obtain ⟨ht, ha⟩ := GFresh_inv hf
  exact truth_of (grun_Tracked c ops gs ht hok) (grun_AllLast' c ops gs ha hok hin) hw

/-- two one-transaction loads answered in the reverse order: not `inOrderRun`, but `lastLastRun`, and
    the counter is right; the witness of `waitcnt_tracks_truth_unordered_refuted` violates `lastLast` -/
example : inOrderRun Cfg.cur gone [.memIssue 0 true 0, .memIssue 0 true 0, .memRet 0 0 1 true] = false ∧
    respOKRun Cfg.cur gone [.memIssue 0 true 0, .memIssue 0 true 0, .memRet 0 0 1 true] = true ∧
    lastLastRun Cfg.cur gone [.memIssue 0 true 0, .memIssue 0 true 0, .memRet 0 0 1 true] = true ∧
    (grun Cfg.cur gone [.memIssue 0 true 0, .memIssue 0 true 0, .memRet 0 0 1 true]).s.wfs.map (·.ovc) = [1] ∧
    lastLastRun Cfg.cur gone [.memIssue 0 true 1, .memRet 0 0 0 true] = false := by decide

/-! ## the unit's half is needed: the same machine around the unit before repair 1640e206 -/

def isOther : CEv → Bool
  | .other _ => true
  | _ => false

/-- the composed statement about the machine built around `C14.Vmu.Old.cycle` (no `other` events) -/
def composed_truth_before_vmu_fix_full (vc : Vmu.Cfg) (rc : C15.Cfg) : Prop :=
  ∀ (gs : GState) (evs : List CEv), GFresh gs → evs.all (fun e => !isOther e) = true →
    ∀ w ∈ (crunOld Cfg.cur vc rc (CSys.init vc gs) evs).g.s.wfs,
      w.ovc = (((crunOld Cfg.cur vc rc (CSys.init vc gs) evs).g.g w.id).trueVM : Int)

/-- a ROB of four entries, two requests per cycle -/
def rob4 : C15.Cfg :=
  { cap := 4, width := 2, topInCap := 4, topOutCap := 4, botInCap := 4, botOutCap := 4, ctlInCap := 1,
    ctlOutCap := 1, bottomUnit := true }

/-- one FLAT load of four transactions through a unit of two lanes under back-pressure (the witness
    of `vmu_fifo_before_fix_two_lanes_refuted`), an in-order memory behind the ROB -/
def oldWitness : List CEv :=
  [.flat 1 false 3 0, .vcyc, .vcyc, .vcyc, .vcyc, .conn (C15.demoReq 0 false), .vcyc, .conn (C15.demoReq 0 false),
   .vcyc, .conn (C15.demoReq 0 false), .vcyc, .conn (C15.demoReq 0 false), .vcyc,
   .robTick, .robTick, .memTake, .memTake, .memTake, .memTake,
   .memAnswer 0 (.data [0]), .memAnswer 0 (.data [0]), .memAnswer 0 (.data [0]), .memAnswer 0 (.data [0]),
   .robTick, .robTick, .robTick, .ret, .ret, .ret]

/-- **The repair of the unit is needed for the composed theorem.** Around the unit before the repair
    (two lanes) the ROB faithfully returns the responses in the order the requests REACHED it —
    0, 2, 3, 1 —: the third response is that of the last-flagged transaction 3, the counter of the
    wavefront drops to 0 while transaction 1 is unanswered (`s_waitcnt vmcnt(0)` would complete). -/
theorem composed_before_vmu_fix_refuted : ¬ composed_truth_before_vmu_fix_full ⟨2, 1, 1, 1, 16⟩ rob4 := by
  intro h
  have := h demoG oldWitness demoG_fresh (by decide)
  revert this
  decide +kernel

example : (crunOld Cfg.cur ⟨2, 1, 1, 1, 16⟩ rob4 (CSys.init ⟨2, 1, 1, 1, 16⟩ demoG) oldWitness).adm = [0, 2, 3, 1] ∧
    (crunOld Cfg.cur ⟨2, 1, 1, 1, 16⟩ rob4 (CSys.init ⟨2, 1, 1, 1, 16⟩ demoG) oldWitness).sys.out.map (·.rspTo) = [0, 1, 2] ∧
    ((crunOld Cfg.cur ⟨2, 1, 1, 1, 16⟩ rob4 (CSys.init ⟨2, 1, 1, 1, 16⟩ demoG) oldWitness).g.g 1).trueVM = 1 ∧
    -- the same events around the repaired unit: three of the four transactions admitted, in order
    (crun Cfg.cur ⟨2, 1, 1, 1, 16⟩ rob4 (CSys.init ⟨2, 1, 1, 1, 16⟩ demoG) oldWitness).adm = [0, 1, 2] ∧
    (crun Cfg.cur ⟨2, 1, 1, 1, 16⟩ rob4 (CSys.init ⟨2, 1, 1, 1, 16⟩ demoG) oldWitness).g.s.wfs.map (fun w => (w.id, w.ovc)) =
      [(0, 0), (1, 1), (2, 0), (3, 0), (4, 0)] := by
  decide +kernel

end C14.Chain
