import MgpuProofs.C02LdsLemmas
/-! # C02 — the LDS path (sixth replacement point)

In emulation a DS instruction is `cu.alu.SetLDS(wf.LDS)` + `alu.Run(wf)` (`emu.ComputeUnit.runWG`). In
timing mode the wavefront travels `DecodeUnit` → `LDSUnit.toRead` → `toExec` → `toWrite`; the exec stage
does `u.alu.SetLDS(u.toExec.WG.LDS); u.alu.Run(u.toExec)` on the compute unit's shared ALU when it first
sees the instruction, keeps it 14 more cycles, and the write stage calls `UpdatePCAndSetReady`.
The theorems say: whatever the schedule (any interleaving of cycles and issue attempts), the unit hands
every accepted instruction to the ALU exactly once, in acceptance order, on the LDS buffer of that
instruction's work-group — so LDS and VGPRs end up as the emulator leaves them — and everything completes
within 17 cycles per pending instruction. The model (`MgpuModel/C02Lds.lean`) is tied to the real
`cu.LDSUnit`, `cu.DecodeUnit`, `emu.ALUImpl`, `cdna3.ALU` by `harness/c02_deep_lds.go` on every run
(pipeline registers after every cycle, LDS bytes, VGPRs, PC, number of `alu.Run` calls).
-/
namespace C02.Lds

/-! ## concrete objects for the non-vacuity examples -/

/-- `Valid` is decidable (used only by the examples) -/
def validDec : (ops : List Op) → (u : U) → Decidable (Valid ops u)
  | [], _ => isTrue trivial
  | .tick :: ops, u => validDec ops (tick u).1
  | .accept id :: ops, u => @instDecidableAnd _ _ inferInstance (validDec ops (tryAccept u id))

instance (ops : List Op) (u : U) : Decidable (Valid ops u) := validDec ops u

/-- issue, 2 cycles, a second issue attempt that is accepted, one that is rejected (read stage
    occupied), then 40 cycles -/
def demoOps : List Op := [.accept 0, .tick, .tick, .accept 1, .accept 2] ++ List.replicate 40 .tick

/-- `ds_write_b32 v8 → [v2]` under EXEC = 0b11 -/
def demoWrite : Inst := ⟨13, false, 3, 0, 0, 2, 8, 12, 16⟩
/-- `ds_read2_b32 v[16:17] ← [v2 + 0·4], [v2 + 1·4]` under EXEC = 0b1 -/
def demoRead : Inst := ⟨55, false, 1, 0, 1, 2, 8, 12, 16⟩

/-- lane 0: address 0, data 0x11223344; lane 1: address 2 (overlapping), data 0xAABBCCDD -/
def demoRf : St := fun c =>
  if c = (0, 2) then 0 else if c = (1, 2) then 2 else if c = (0, 8) then 0x11223344
  else if c = (1, 8) then 0xAABBCCDD else 7

def demoArch : Arch := ⟨fun _ _ => 0, fun _ => 64, fun _ => demoRf, 9, none⟩

/-- instruction instance 0 stores (wavefront 0, work-group 5), instance 1 reads it back -/
def demoProg : Nat → Job := fun id => if id = 0 then ⟨demoWrite, 0, 5⟩ else ⟨demoRead, 0, 5⟩

/-! ## lds_path_equiv -/

/-- **lds_path_equiv.** For every program (DS opcode of the model — all eight GCN3 handlers and the
    ten CDNA3 ones —, EXEC mask, registers, offsets), every initial LDS/VGPR content, and **every**
    sequence of cycles and issue attempts on the LDS unit starting idle:
    (1) the architectural state (all LDS buffers, all VGPRs, the fault flag) is what the emulator gets
    by executing exactly the instructions of `ran`, in that order, each as `SetLDS(wf.LDS); Run(wf)`;
    (2) for every instruction the unit has completed (`UpdatePCAndSetReady` called), its DS effect was
    applied exactly once: `ran` splits as `l1 ++ i :: l2` with `i` in neither part, and the state is
    `l2` after `emuExec i` after `l1` — no matter how many cycles passed or what was issued meanwhile;
    (3) one instruction alone: after any `n ≥ 17` cycles the unit is idle again, the instruction is
    completed and the state is exactly one emulator execution of it; before cycle 17 the wavefront
    is not released. -/
theorem lds_path_equiv (prog : Nat → Job) (a0 : Arch) :
    (∀ ops : List Op, Valid ops idle →
      (run prog ops (idle, a0)).2 = emuSeq prog (run prog ops (idle, a0)).1.ran a0 ∧
      ∀ i ∈ (run prog ops (idle, a0)).1.completed, ∃ l1 l2,
        (run prog ops (idle, a0)).1.ran = l1 ++ i :: l2 ∧ i ∉ l1 ∧ i ∉ l2 ∧
        (run prog ops (idle, a0)).2 = emuSeq prog l2 (emuExec (prog i) (emuSeq prog l1 a0))) ∧
    (∀ i n : Nat, 17 ≤ n →
      run prog (.accept i :: List.replicate n .tick) (idle, a0) =
        ({ accepted := [i], ran := [i], completed := [i] }, emuExec (prog i) a0)) ∧
    (∀ i n : Nat, n < 17 →
      (run prog (.accept i :: List.replicate n .tick) (idle, a0)).1.completed = []) := by
  refine ⟨?_, ?_, ?_⟩
  · intro ops hv
    have harch := run_arch prog a0 ops (idle, a0) rfl
    have hfst := run_fst prog ops (idle, a0)
    have hinv := inv_run ops idle hv inv_idle
    simp only at harch hfst
    rw [← hfst] at harch hinv
    refine ⟨harch, ?_⟩
    intro i hi
    have hran : i ∈ (run prog ops (idle, a0)).1.ran := (inv_completed_prefix hinv).subset hi
    obtain ⟨l1, l2, hsplit⟩ := List.append_of_mem hran
    have hnd := inv_ran_nodup hinv
    rw [hsplit] at hnd
    have h1 : i ∉ l1 := fun h =>
      (List.nodup_append.mp hnd).2.2 i h i (List.mem_cons_self ..) rfl
    have h2 : i ∉ l2 := (List.nodup_cons.mp (List.nodup_append.mp hnd).2.1).1
    refine ⟨l1, l2, hsplit, h1, h2, ?_⟩
    rw [harch, hsplit, emuSeq_append]
    rfl
  · intro i n hn
    have hU : runU (.accept i :: List.replicate n .tick) idle =
        { accepted := [i], ran := [i], completed := [i] } := by
      show runU (List.replicate n .tick) (accept idle i) = _
      rw [runU_ticks, ticks_single]
      have e1 : ¬ n = 0 := by omega
      have e2 : ¬ n = 1 := by omega
      have e3 : ¬ n ≤ 15 := by omega
      have e4 : ¬ n = 16 := by omega
      simp [single, e1, e2, e3, e4]
    have harch := run_arch prog a0 (.accept i :: List.replicate n .tick) (idle, a0) rfl
    have hfst := run_fst prog (.accept i :: List.replicate n .tick) (idle, a0)
    simp only at harch hfst
    rw [hU] at harch hfst
    exact Prod.ext hfst harch
  · intro i n hn
    rw [run_fst]
    show (runU (List.replicate n .tick) (accept idle i)).completed = []
    rw [runU_ticks, ticks_single]
    unfold single
    split
    · rfl
    · split
      · rfl
      · split
        · rfl
        · split
          · rfl
          · omega

/-- the schedule of the example is admissible, three instructions are offered, the third is refused
    (read stage occupied), both accepted ones are executed in order and completed -/
example : Valid demoOps idle := by decide
example : (runU demoOps idle) = { accepted := [0, 1], ran := [0, 1], completed := [0, 1] } := by decide +kernel
/-- the store of lanes 0 and 1 overlaps at bytes 2, 3: lane 1 wins; the read returns both dwords -/
example : (emuSeq demoProg [0, 1] demoArch).fault = none ∧ (emuSeq demoProg [0, 1] demoArch).cur = 5 ∧
    (List.range 6).map (fun k => (emuSeq demoProg [0, 1] demoArch).ldsOf 5 (0, k)) = [0x44, 0x33, 0xDD, 0xCC, 0xBB, 0xAA] ∧
    (emuSeq demoProg [0, 1] demoArch).rfOf 0 (0, 16) = 0xCCDD3344 ∧
    (emuSeq demoProg [0, 1] demoArch).rfOf 0 (0, 17) = 0x0000AABB ∧
    (emuSeq demoProg [0, 1] demoArch).ldsOf 9 (0, 0) = 0 := by decide +kernel
/-- … and that is the state the timing pipeline leaves after `demoOps` -/
example : (run demoProg demoOps (idle, demoArch)).2 = emuSeq demoProg [0, 1] demoArch := by
  have h := ((lds_path_equiv demoProg demoArch).1 demoOps (by decide)).1
  have hr : (run demoProg demoOps (idle, demoArch)).1.ran = [0, 1] := by
    rw [run_fst]; decide +kernel
  rw [hr] at h
  exact h

/-! ## SetLDS once per wavefront vs. before every instruction -/

/-- **lds_setLDS_once_equiv.** The emulator installs the LDS buffer once (`cu.alu.SetLDS(wf.LDS)` in
    `runWG`) and then runs the wavefront's instructions; the LDS unit installs `wf.WG.LDS` before every
    single `Run` (it must: the ALU is shared by all wavefronts of all work-groups on the CU). For the
    instructions of one wavefront the two are the same. -/
theorem lds_setLDS_once_equiv (wg : Nat) (js : List Job) (a : Arch) (h : ∀ j ∈ js, j.wg = wg) :
    emuRunWf wg js a = js.foldl (fun a j => timingExec j a) (setLDS wg a) := by
  unfold emuRunWf
  have : ∀ (b : Arch), b.cur = wg →
      js.foldl (fun a j => aluRun j a) b = js.foldl (fun a j => timingExec j a) b := by
    induction js with
    | nil => intro b _; rfl
    | cons j js ih =>
      intro b hb
      have hj : j.wg = wg := h j (List.mem_cons_self ..)
      have e : timingExec j b = aluRun j b := by
        unfold timingExec; rw [hj, ← hb]; rfl
      rw [List.foldl_cons, List.foldl_cons, e]
      exact ih (fun x hx => h x (List.mem_cons_of_mem _ hx)) _ (by rw [aluRun_cur]; exact hb)
  exact this _ rfl

example : emuRunWf 5 [demoProg 0, demoProg 1] demoArch =
    [demoProg 0, demoProg 1].foldl (fun a j => timingExec j a) (setLDS 5 demoArch) :=
  lds_setLDS_once_equiv 5 _ _ (by decide)

/-! ## lds_unit_runs_each_once -/

/-- **lds_unit_runs_each_once.** Start from the idle unit and apply ANY sequence of cycles
    (`LDSUnit.Run`) and issue attempts (`if CanAcceptWave() { AcceptWave(w) }` with instruction
    instances not offered successfully before). Then: no instruction is handed to `alu.Run` twice;
    instructions are executed in acceptance order (`ran` is a prefix of `accepted`); an instruction is
    completed only after it was executed, in the same order (`completed` is a prefix of `ran`); at most
    three instructions are in the unit; and liveness with a concrete bound: `17 · pending` further
    cycles (at most 51) execute and complete everything that was accepted and leave the unit idle. -/
theorem lds_unit_runs_each_once (ops : List Op) (hv : Valid ops idle) :
    let u := runU ops idle
    u.ran.Nodup ∧ u.ran <+: u.accepted ∧ u.completed <+: u.ran ∧ pending u ≤ 3 ∧
    u.accepted.length = u.completed.length + pending u ∧
    ∀ n, 17 * pending u ≤ n →
      (ticks n u).completed = u.accepted ∧ (ticks n u).ran = u.accepted ∧ pending (ticks n u) = 0 := by
  intro u
  have hinv : Inv u := inv_run ops idle hv inv_idle
  have hp3 : pending u ≤ 3 := by
    unfold pending
    cases u.toWrite <;> cases u.toExec <;> cases u.toRead <;> simp
  refine ⟨inv_ran_nodup hinv, inv_ran_prefix hinv, inv_completed_prefix hinv, hp3, inv_pending hinv, ?_⟩
  intro n hn
  have hphi := ticks_phi n hinv (Nat.le_trans (phi_le hinv) hn)
  have hinv' := inv_ticks n hinv
  obtain ⟨h1, h2, h3, h4, h5⟩ := phi_zero_done hinv' hphi
  rw [ticks_accepted] at h1 h2
  refine ⟨h1, h2, ?_⟩
  simp [pending, h3, h4, h5]

/-- a schedule that fills all three stages; 31 (≤ 17·3) more cycles finish everything -/
def busyOps : List Op :=
  [.accept 0, .tick, .accept 1, .tick] ++ List.replicate 14 .tick ++ [.accept 2]
example : Valid busyOps idle := by decide
example : runU busyOps idle =
    { toRead := some 2, toExec := some 1, toWrite := some 0, cycleLeft := 0,
      accepted := [0, 1, 2], ran := [0], completed := [] } := by decide +kernel
example : pending (runU busyOps idle) = 3 ∧ (ticks 30 (runU busyOps idle)).completed = [0, 1] ∧
    (ticks 31 (runU busyOps idle)).completed = [0, 1, 2] := by decide +kernel
/-- the bound is attained by a single instruction: 16 cycles are not enough -/
example : (ticks 16 (accept idle 7)).completed = [] ∧ (ticks 17 (accept idle 7)).completed = [7] := by
  decide +kernel

/-- the statement without the `CanAcceptWave` guard of the decode unit -/
def lds_unit_unguarded_accept_keeps_all : Prop :=
  ∀ a b : Nat, a ≠ b → ∀ n, 51 ≤ n → (ticks n (accept (accept idle a) b)).completed = [a, b]

/-- refuted (a modelling fact, not a finding: `DecodeUnit.Run` always checks `CanAcceptWave` first):
    `AcceptWave` on an occupied read stage overwrites `toRead` — the first wavefront is never executed
    and never released. -/
theorem lds_unit_unguarded_accept_refuted : ¬ lds_unit_unguarded_accept_keeps_all := by
  intro h
  have := h 0 1 (by decide) 51 (by decide)
  revert this
  decide +kernel

/-! ## lds_bounds_fault_same -/

/-- **lds_bounds_fault_same.** Both modes panic on the same inputs: for an implemented opcode the
    emulator's and the LDS unit's execution of the instruction fault together with the same kind, and
    they fault iff some active lane has an access with `address + width > len(LDS)` where
    `address = uint32(VGPR) + offset·scale` in uint32 arithmetic — for GCN3 (slice expression
    `lds[a:a+w]`, whose upper bound wraps) and for CDNA3 (explicit uint32 check backed by the slice). -/
theorem lds_bounds_fault_same (j : Job) (a : Arch) (sh : Shape)
    (hs : shapeOf j.inst.cdna3 j.inst.opc = some sh) (hf : a.fault = none) :
    (emuExec j a).fault = (timingExec j a).fault ∧
    ((emuExec j a).fault.isSome = true ↔ outOfRange sh j.inst (a.sizeOf j.wg) (a.rfOf j.wf)) ∧
    ((timingExec j a).fault.isSome = true ↔ outOfRange sh j.inst (a.sizeOf j.wg) (a.rfOf j.wf)) := by
  have key : (emuExec j a).fault.isSome = true ↔ outOfRange sh j.inst (a.sizeOf j.wg) (a.rfOf j.wf) := by
    rw [← faultOf_isSome]
    unfold emuExec aluRun setLDS
    simp only [hf, hs]
    cases hfo : faultOf sh j.inst (a.sizeOf j.wg) (a.rfOf j.wf) <;> simp
  exact ⟨rfl, key, key⟩

/-- `ds_read_b32` with address 0xFFFFFFFC and offset 8: the uint32 sum wraps to 4, inside a 256-byte
    LDS — no fault, on both architectures; address 253 is out of range -/
example : faultOf ⟨false, 4, false, 1⟩ ⟨54, false, 1, 8, 0, 2, 8, 12, 16⟩ 256 (fun _ => 0xFFFFFFFC) = none := by decide
example : faultOf ⟨false, 4, false, 1⟩ ⟨54, true, 1, 8, 0, 2, 8, 12, 16⟩ 256 (fun _ => 0xFFFFFFFC) = none := by decide
example : outOfRange ⟨false, 4, false, 1⟩ ⟨54, false, 1, 0, 0, 2, 8, 12, 16⟩ 256 (fun _ => 253) :=
  ⟨0, by decide, 253, by decide, by decide⟩

/-- the explicit range check of the CDNA3 handlers (`if addr0+4 > uint32(len(lds)) { log.Panicf … }`)
    catches every out-of-range access -/
def cdna3_range_check_complete : Prop :=
  ∀ (sh : Shape) (i : Inst) (size : Nat) (rf : St) (l : Nat), i.cdna3 = true →
    (∃ a ∈ addrsOf sh i rf l, a + sh.width > size) → laneFault sh i size rf l = some "explicit"

/-- refuted: the check is computed in uint32. Address 0xFFFFFFFE: `addr0+4` wraps to 2, the check
    passes, and the access is stopped only by the Go runtime (`slice bounds out of range`) — same
    panic class as GCN3, and the same on the emulator and the timing side (replayed on both real paths:
    case `c02 lds opc=54 arch=cdna3 … a=fffffffe` answers `fault:bounds`, address 253 `fault:explicit`). -/
theorem cdna3_range_check_complete_refuted : ¬ cdna3_range_check_complete := by
  intro h
  have := h ⟨false, 4, false, 1⟩ ⟨54, true, 1, 0, 0, 2, 8, 12, 16⟩ 256 (fun _ => 0xFFFFFFFE) 0 rfl
    ⟨0xFFFFFFFE, by decide, by decide⟩
  revert this
  decide

/-! ## the driver evaluates the same function -/

/-- **lds_driver_eval_sound.** The correspondence driver (`handleLds`) evaluates the LDS byte writes of
    an instruction on an array (`arrApply`, `setIfInBounds` per write); the theorems above talk about
    `applyW` on a byte function. For every instruction that does not fault the two agree on every
    byte, so what is compared with the real LDS on every run is the object of the theorems. -/
theorem lds_driver_eval_sound (sh : Shape) (i : Inst) (rf : St) (init : Array Nat)
    (hf : faultOf sh i init.size rf = none) (k : Nat) :
    (arrApply (ldsWrites sh i rf) init).getD k 0 =
      applyW (ldsWrites sh i rf) (fun c => init.getD c.2 0) (0, k) :=
  arrApply_ldsWrites init hf k

example : faultOf ⟨true, 4, false, 1⟩ demoWrite (Array.replicate 64 0).size demoRf = none ∧
    ((List.range 6).map fun k => (arrApply (ldsWrites ⟨true, 4, false, 1⟩ demoWrite demoRf) (Array.replicate 64 0)).getD k 0) =
      [0x44, 0x33, 0xDD, 0xCC, 0xBB, 0xAA] := by decide +kernel

end C02.Lds
