import MgpuProofs.Props.C02Wf
import MgpuProofs.C02WfCU
import MgpuProofs.C02WfDemo
/-! # C02 — per-transaction granularity of the memory accesses of the wavefront machine

The real compute unit splits a FLAT access into one transaction per cache line (an SMEM load into one
chunk per line) and the memory system performs these transactions at DIFFERENT moments; the event
machine `tstep` performs a memory instruction at ONE moment (`serveV k` / `serveS k` snapshot the
memory). These theorems justify the abstraction for the runs the simulation theorem is about: the
bytes an in-flight load reads cannot change while it is in flight (`footprint_stable_while_in_flight`),
so reading them byte by byte / line by line at different moments produces what the atomic service
produces (`transactionwise_service_equals_atomic`); the lines of a store may be applied at different
moments and in any order (`store_in_parts`) and no load of the wavefront that could see the difference
is in flight (`inflight_load_store_disjoint`).  Outside these theorems: the ORDER in which transactions
leave the unit and their responses return (reorder buffer: C15; transaction pipeline: `C02Txn`), and
the coalescer itself (`coalesced_load_equiv`, `coalesced_store_equiv`: any order of the line responses). -/
namespace C02.Wf

variable {P : Prog}

/-- **footprint_stable_step.** One event of the compute unit (any event, foreign writes included) leaves
    every byte of the footprint of a load in flight unchanged: memory changes only when the memory
    system performs a store of the wavefront — whose footprint is disjoint from the load's while both
    are in flight (hazard check) — or when somebody else writes memory the wavefront does not own. -/
theorem footprint_stable_step (hP : P.WF) {gate} {T T' : TState} {E : EState} {H : HState}
    (hinv : Inv P T E H) (e : Ev) (hs : tstep P gate T e = some T')
    (p : Pend) (hp : p ∈ T.vq ++ T.sq) (hl : p.inst.isLoad = true) (a : Nat) (ha : p.inst.fp p.r0 a = true) :
    T'.mem a = T.mem a := by
  have hown : P.own a = true := (hinv.pdec p hp).2.1 a ha
  by_cases hne : isEnv e = true
  · cases e with
    | env a' v =>
      simp only [tstep] at hs
      split at hs
      · rename_i ho
        cases hs
        show setMem T.mem a' v a = T.mem a
        unfold setMem
        have : a ≠ a' := by
          intro h; subst h; rw [hown] at ho; cases ho
        simp [this]
      · cases hs
    | _ => simp [isEnv] at hne
  · have hne' : isEnv e = false := by simpa using hne
    rcases tstep_mem hs hne' with hm | ⟨k, q, hk, hqs, hm⟩
    · rw [hm]
    · rw [hm]
      have hq : q ∈ T.vq := List.mem_of_getElem? hk
      have hq' : q ∈ T.vq ++ T.sq := List.mem_append_left _ hq
      have hfp : q.inst.fp q.r0 a = false := by
        cases hfa : q.inst.fp q.r0 a with
        | false => rfl
        | true => exact absurd ⟨ha, hfa⟩ (hinv.c.pls p hp q hq' hl hqs a)
      exact (pend_wf hP hinv q hq').st_frame hqs q.r0 T.mem a hfp

/-- **footprint_stable_while_in_flight.** Along any run of a hazard-free program (any gate, any order of
    memory service, foreign writes outside owned memory), as long as a load stays in the in-flight lists,
    every byte of its footprint keeps the value it had: at every intermediate state of the run. -/
theorem footprint_stable_while_in_flight (hP : P.WF) {gate} {fuel : Nat} {x0 : EState × HState}
    (hfr : hazardFreeRun P fuel x0 = true) (p : Pend) (hl : p.inst.isLoad = true) :
    ∀ (evs : List Ev) (T : TState), Sim P x0 T →
      (∀ j, j ≤ evs.length → ∀ Tj, trun P gate T (evs.take j) = some Tj → p ∈ Tj.vq ++ Tj.sq) →
      ∀ j, j ≤ evs.length → ∀ Tj, trun P gate T (evs.take j) = some Tj →
        ∀ a, p.inst.fp p.r0 a = true → Tj.mem a = T.mem a := by
  intro evs
  induction evs with
  | nil =>
    intro T _ _ j hj Tj hT a _
    have : j = 0 := by simpa using hj
    subst this
    simp only [List.take_zero, trun, Option.some.injEq] at hT
    subst hT; rfl
  | cons e es ih =>
    intro T hsim hin j hj Tj hT a ha
    cases j with
    | zero =>
      simp only [List.take_zero, trun, Option.some.injEq] at hT
      subst hT; rfl
    | succ j =>
      simp only [List.take_succ_cons, trun] at hT
      cases hs : tstep P gate T e with
      | none => simp [hs] at hT
      | some T1 =>
        simp only [hs] at hT
        have hp0 : p ∈ T.vq ++ T.sq := hin 0 (Nat.zero_le _) T (by simp [trun])
        obtain ⟨n, E, H, _, hinv⟩ := hsim
        have h1 : T1.mem a = T.mem a := footprint_stable_step hP hinv e hs p hp0 hl a ha
        have hsim1 : Sim P x0 T1 := sim_step hP hfr e ⟨n, E, H, ‹_›, hinv⟩ hs
        have hin1 : ∀ j, j ≤ es.length → ∀ Tj, trun P gate T1 (es.take j) = some Tj → p ∈ Tj.vq ++ Tj.sq := by
          intro j' hj' Tj' hT'
          apply hin (j' + 1) (by simpa using hj') Tj'
          simp only [List.take_succ_cons, trun, hs]
          exact hT'
        have := ih T1 hsim1 hin1 j (by simpa using hj) Tj hT a ha
        rw [this, h1]

/-- **transactionwise_service_equals_atomic.** Let the memory system read the bytes of a load at
    DIFFERENT moments while the load is in flight — each cache line's transaction at its own service
    time: `m'` is any memory assembled bytewise from the memories the run passes through. The registers
    the load writes are those the machine's atomic service (the snapshot at the start of the window —
    or, by the previous theorem, at any moment of it) produces. -/
theorem transactionwise_service_equals_atomic (hP : P.WF) {gate} {fuel : Nat} {x0 : EState × HState}
    (hfr : hazardFreeRun P fuel x0 = true) (p : Pend) (hl : p.inst.isLoad = true)
    (evs : List Ev) (T : TState) (hsim : Sim P x0 T)
    (hin : ∀ j, j ≤ evs.length → ∀ Tj, trun P gate T (evs.take j) = some Tj → p ∈ Tj.vq ++ Tj.sq)
    (m' : Mem)
    (hm : ∀ a, p.inst.fp p.r0 a = true →
      ∃ j, j ≤ evs.length ∧ ∃ Tj, trun P gate T (evs.take j) = some Tj ∧ m' a = Tj.mem a) :
    ∀ x ∈ p.inst.wrD p.r0, p.inst.ld p.r0 m' x = p.inst.ld p.r0 T.mem x := by
  have hp0 : p ∈ T.vq ++ T.sq := hin 0 (Nat.zero_le _) T (by simp [trun])
  obtain ⟨n, E, H, hrun, hinv⟩ := hsim
  have hwf := pend_wf hP hinv p hp0
  apply hwf.ld_depM
  intro a ha
  obtain ⟨j, hj, Tj, hT, hma⟩ := hm a ha
  rw [hma]
  exact footprint_stable_while_in_flight hP hfr p hl evs T ⟨n, E, H, hrun, hinv⟩ hin j hj Tj hT a ha

/-- **inflight_load_store_disjoint.** In every reachable state of a hazard-free run, a store of the
    wavefront that is in flight and a load of the wavefront that is in flight touch different bytes:
    no load of the wavefront can observe whether the store's lines have been applied one by one. (Other
    wavefronts do not touch the store's bytes at all: `PendOK` puts them inside `P.wown`, `SepL`.) -/
theorem inflight_load_store_disjoint {x0 : EState × HState} {T : TState} (hsim : Sim P x0 T)
    (p q : Pend) (hp : p ∈ T.vq ++ T.sq) (hq : q ∈ T.vq ++ T.sq)
    (hl : p.inst.isLoad = true) (hs : q.inst.isStore = true) (a : Nat) :
    ¬ (p.inst.fp p.r0 a = true ∧ q.inst.fp q.r0 a = true) := by
  obtain ⟨n, E, H, _, hinv⟩ := hsim
  exact hinv.c.pls p hp q hq hl hs a

/-- the part `sel` of the bytes of a store applied to a memory -/
def storePart (i : Inst) (r : RF) (sel : Nat → Bool) (m : Mem) : Mem :=
  fun a => if sel a then i.stf r m a else m a

/-- **store_in_parts.** A store applied in two parts (any split of the address space — e.g. one cache
    line's write request and then the others), in either order, leaves the memory the store instruction
    leaves when applied at once: the value a store writes does not depend on memory (`st_dep`) and it
    writes nothing outside its footprint (`st_frame`). -/
theorem store_in_parts (i : Inst) (hi : i.WF) (hs : i.isStore = true) (r : RF) (sel : Nat → Bool) (m : Mem) :
    storePart i r (fun a => !sel a) (storePart i r sel m) = i.stf r m ∧
    storePart i r sel (storePart i r (fun a => !sel a) m) = i.stf r m := by
  have key : ∀ (s : Nat → Bool) (a : Nat), s a = false →
      i.stf r (storePart i r s m) a = i.stf r m a := by
    intro s a hsa
    cases hf : i.fp r a with
    | true => exact hi.st_dep hs r r _ m a (fun _ _ => rfl) hf
    | false =>
      rw [hi.st_frame hs r _ a hf, hi.st_frame hs r m a hf]
      simp [storePart, hsa]
  constructor
  · funext a
    cases hsa : sel a with
    | true => simp [storePart, hsa]
    | false => simp only [storePart, hsa, Bool.not_false, if_true]; exact key sel a hsa
  · funext a
    cases hsa : sel a with
    | true => simp only [storePart, hsa, if_true]; exact key (fun a => !sel a) a (by simp [hsa])
    | false => simp [storePart, hsa]

/-! non-vacuity: in the demo program `csGood` the load `flat_load_dword v6, v[2:3]` is in flight after
    the first 21 events of `evsGood` (executed, not yet performed), and stays there for two more events -/
example : ((trun PGood (fun _ _ => true) (tinit 0x1000 demoRegs demoMem) (evsGood.take 21)).map
    fun T => (T.vq.length, T.vq.all fun p => p.inst.isLoad && p.served.isNone)) = some (1, true) := by
  decide +kernel
example : ((trun PGood (fun _ _ => true) (tinit 0x1000 demoRegs demoMem) (evsGood.take 23)).map
    fun T => T.vq.length) = some 1 := by
  decide +kernel
example : (compile (.fst 2 7)).isStore = true := rfl

end C02.Wf
