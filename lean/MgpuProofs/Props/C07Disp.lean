import MgpuProofs.C07Sys
set_option linter.unusedVariables false
set_option linter.unusedSimpArgs false
/-! # C07 — property theorems, third layer: the register writes that do not go through the operand methods

* wavefront dispatch in both modes (`WfDispatcherImpl.DispatchWf` = `setWfInfo` + `initRegisters`;
  `emu.NewWavefront` + `initWfRegs`) is the location copy followed by ordinary operand writes; it touches
  only the new wavefront's own windows (when the ABI registers fit the declared register counts);
* the state of a new wavefront is a function of its dispatch alone, in emulation (any compute-unit
  history) and in timing (any life cycle of dispatches / accesses / retirements from zeroed files:
  `Clean` — every byte no resident wavefront owns is zero), and it is the same in both modes;
* the hypotheses of the earlier layers that follow from reachability: `Alloc` (life cycle), `hlay`
  (dispatch copies the allocator's location), `Agree` (from the dispatch on), `Sized`;
* the return path of scalar loads writes the register FILE: equal to the operand write for SGPR
  destinations, lost + neighbour corrupted for VCC / M0 / EXEC (refuted full statement, open finding);
* unlimited (−1) register counts: byte-disjointness fails for them (refuted), the shipped timing
  compute unit never reports them, the emulation compute unit ignores the location.
Helper lemmas: MgpuProofs/C07DispDefs/Init/Emu/Clean/Fresh/All.lean, C07Hyp.lean, C07Smem.lean. -/
namespace C07
open Gen

/-! ## dispatch -/

/-- **`DispatchWf` copies the location verbatim.** For every compute unit state, wavefront, location and
dispatch information — whether `initRegisters` panics or not — afterwards the wavefront's `SIMDID`,
`SRegOffset`, `VRegOffset` are the location's, its register counts, VCC, SCC, M0 are unchanged, EXEC is
`InitExecMask`; no other wavefront's record and no file size changes. (This is what the hypothesis
`hlay` of `allocated_cu_refines_register_map` assumed.) -/
theorem dispatch_copies_location (t : TimingRF) (wi simd soff voff : Nat) (d : DispInfo) (hwi : wi < t.wfs.size) :
    ((t.dispatchWf wi simd soff voff d).1.wf wi).layout = (simd, soff, voff, (t.wf wi).ns, (t.wf wi).nv) ∧
    ((t.dispatchWf wi simd soff voff d).1.wf wi).exec = d.exec ∧
    ((t.dispatchWf wi simd soff voff d).1.wf wi).vcc = (t.wf wi).vcc ∧
    ((t.dispatchWf wi simd soff voff d).1.wf wi).scc = (t.wf wi).scc ∧
    ((t.dispatchWf wi simd soff voff d).1.wf wi).m0 = (t.wf wi).m0 ∧
    (∀ wj, wj ≠ wi → (t.dispatchWf wi simd soff voff d).1.wf wj = t.wf wj) ∧
    (t.dispatchWf wi simd soff voff d).1.wfs.size = t.wfs.size ∧
    (t.dispatchWf wi simd soff voff d).1.sfile.size = t.sfile.size ∧
    (t.dispatchWf wi simd soff voff d).1.vfiles.size = t.vfiles.size :=
  let h := dispatch_shape t wi simd soff voff d hwi
  ⟨h.1, h.2.1, h.2.2.1, h.2.2.2.1, h.2.2.2.2.1, h.2.2.2.2.2.1, h.2.2.2.2.2.2.1, h.2.2.2.2.2.2.2.1, h.2.2.2.2.2.2.2.2.1⟩

example : ((t0.dispatchWf 1 0 640 256 default).1.wf 1).layout = (0, 640, 256, 16, 8) :=
  (dispatch_copies_location t0 1 0 640 256 default (by decide)).1

/-- **Dispatch is the location copy followed by ordinary operand writes, in both modes.** `initOps d` is
the list of `WriteOperandBytes` accesses (SGPR pairs / single SGPRs for the ABI registers, `v0..v2` of
all 64 lanes) that `initRegisters` performs with `SRegFile.Write` / `VRegFile[SIMDID].Write` and
`initWfRegs` with `PutUintNN` / `WriteReg`. When the location lies inside the files (`Alloc` after
`setWfInfo`) and the ABI registers inside the declared register counts (`AbiFits`), neither panics and
each equals running `initOps` through the operand methods — so every theorem about access sequences
(`stores_refine_register_map`, `cell_holds_last_write`, frames) applies to dispatch. -/
theorem dispatch_is_init_writes (d : DispInfo) :
    (∀ (t : TimingRF) (wi simd soff voff : Nat), wi < t.wfs.size → Alloc (t.setWfInfo wi simd soff voff d) →
      AbiFits d (t.wf wi).ns (t.wf wi).nv →
      t.dispatchWf wi simd soff voff d =
        (((t.setWfInfo wi simd soff voff d).exec ((initOps d).map fun o => (wi, o))).1, none)) ∧
    (∀ (e : EmuRF), e.Sized → AbiFits d 102 256 →
      e.initWfRegs d = ((EmuG.exec (fun _ => { e with exec := d.exec }) ((initOps d).map fun o => (0, o))).1 0, none)) :=
  ⟨fun t wi simd soff voff hwi hA hfit => dispatch_is_init_sequence t wi simd soff voff d hwi hA hfit,
   fun e hs hfit => emu_init_is_init_sequence e d hs hfit⟩

example : AbiFits dW 4 1 ∧ ¬ AbiFits dW 3 1 ∧ (initOps dW).length = 66 := by
  refine ⟨⟨by decide, ?_⟩, ?_, by decide⟩
  · intro lane hl x hx
    simp [laneInits, dW, wiIdEnable] at hx
    subst hx; simp
  · intro h
    have := h.1 (2, 2, 0x5555666677778888) (by decide)
    simp at this

/-- **Dispatch writes only the new wavefront's own windows.** Under the same conditions `DispatchWf`
does not panic, the abstract register map of every other wavefront is exactly what it was, the
allocation invariant holds afterwards, and every byte of the files outside the dispatched wavefront's
windows is unchanged (so `Clean` is preserved: `cu_life_cycle_alloc_clean`). -/
theorem dispatch_writes_only_own_window (t : TimingRF) (wi simd soff voff : Nat) (d : DispInfo) (hwi : wi < t.wfs.size)
    (hA : Alloc (t.setWfInfo wi simd soff voff d)) (hfit : AbiFits d (t.wf wi).ns (t.wf wi).nv) :
    (t.dispatchWf wi simd soff voff d).2 = none ∧
    Alloc (t.dispatchWf wi simd soff voff d).1 ∧
    (∀ wj, wj ≠ wi → absG (t.dispatchWf wi simd soff voff d).1 wj = absG t wj) := by
  have hseq := dispatch_is_init_sequence t wi simd soff voff d hwi hA hfit
  have hwi1 : wi < (t.setWfInfo wi simd soff voff d).wfs.size := by simp [TimingRF.setWfInfo, TimingRF.setWf, hwi]
  have hw1 : (t.setWfInfo wi simd soff voff d).wf wi =
      { t.wf wi with simd := simd, soff := soff, voff := voff, exec := d.exec } := by
    unfold TimingRF.setWfInfo; rw [wf_setWf_same _ _ _ hwi]; rfl
  have hgok : GOk (t.setWfInfo wi simd soff voff d) ((initOps d).map fun o => (wi, o)) := by
    intro p hp
    obtain ⟨o, ho, rfl⟩ := List.mem_map.mp hp
    refine ⟨hwi1, ?_⟩
    rw [hw1]
    exact abiFits_ok d _ _ hfit o ho
  obtain ⟨_, e2, _, e4⟩ := timing_exec_refines _ _ hA hgok
  rw [hseq]
  refine ⟨rfl, e4, fun wj hne => ?_⟩
  rw [e2]
  funext id
  rw [gmap_last_write, lastWrite_other wi wj id hne.symm, Option.getD_none, absG_setWfInfo_other t wi wj simd soff voff d hne]

/-- "`DispatchWf` never disturbs another wavefront whose windows are disjoint from the new location",
without the condition that the ABI registers fit the declared register counts — kept visible: false. -/
def dispatch_leaves_others_alone : Prop :=
  ∀ (t : TimingRF) (wi simd soff voff : Nat) (d : DispInfo), wi < t.wfs.size →
    Alloc (t.setWfInfo wi simd soff voff d) → ∀ wj, wj ≠ wi → wj < t.wfs.size →
      absT (t.dispatchWf wi simd soff voff d).1 ((t.dispatchWf wi simd soff voff d).1.wf wj) = absT t (t.wf wj)

/-- **Refuted: the hypothesis `AbiFits` of `dispatch_writes_only_own_window` cannot be dropped.** A code
object that declares 0 SGPRs but enables the dispatch and kernarg pointers: `initRegisters` writes
`s[0:3]` at the wavefront's `SRegOffset` — into the registers of the wavefront that owns that part of
the scalar file (`s0` of wavefront 1 becomes the low half of the packet address). Windows are disjoint
(an empty window is disjoint from everything), `Alloc` holds. The harness replays this on the real
`WfDispatcherImpl` (`C07.dispatch-witness.stale`). Compiler-generated code objects always declare at
least the SGPRs their ABI registers occupy. -/
theorem dispatch_leaves_others_alone_refuted : ¬ dispatch_leaves_others_alone := by
  intro h
  have := h tW 0 0 0 0 dW (by decide) tW_alloc 1 (by decide) (by decide)
  have hw : (tW.dispatchWf 0 0 0 0 dW).1.wf 1 = tW.wf 1 :=
    (dispatch_shape tW 0 0 0 0 dW (by decide)).2.2.2.2.2.1 1 (by decide)
  rw [hw] at this
  have h0 := congrArg (fun c => c.s 0) this
  simp only [absT] at h0
  have hs : (tW.dispatchWf 0 0 0 0 dW).1.sfile =
      (SimpleRF.writeAll (Array.replicate 64 0) S_STRIDE 0 (sgprWrites dW)).1 := by
    unfold TimingRF.dispatchWf
    rw [initRegisters_sfile]
    rfl
  rw [hs] at h0
  have e1 : winCells (SimpleRF.writeAll (Array.replicate 64 0) S_STRIDE 0 (sgprWrites dW)).1 (tW.wf 1).soff (tW.wf 1).ns 0 = 0x33334444 := by
    decide +kernel
  have e2 : winCells tW.sfile (tW.wf 1).soff (tW.wf 1).ns 0 = 0 := by decide +kernel
  rw [e1, e2] at h0
  cases h0

/-- the strongest true version is `dispatch_writes_only_own_window` -/
theorem dispatch_leaves_others_alone_partial (t : TimingRF) (wi simd soff voff : Nat) (d : DispInfo) (hwi : wi < t.wfs.size)
    (hA : Alloc (t.setWfInfo wi simd soff voff d)) (hfit : AbiFits d (t.wf wi).ns (t.wf wi).nv) :
    ∀ wj, wj ≠ wi → absG (t.dispatchWf wi simd soff voff d).1 wj = absG t wj :=
  (dispatch_writes_only_own_window t wi simd soff voff d hwi hA hfit).2.2

/-! ## the state of a new wavefront -/

/-- **Emulation: a new wavefront's state is a function of its dispatch alone.** Whatever ran on the
emulation compute unit before (`cu`: any list of work-groups with any register contents), the stores
`initWfs` creates for a mapped work-group are `emuFresh` of the wavefronts' dispatch information — nothing
of `cu` is read, nothing of `cu` changes — and `emuFresh d` holds `freshMap d`: the ABI registers, the
lane ids, `EXEC = InitExecMask`, zero in every other SGPR, VGPR, VCC, SCC, M0. -/
theorem emu_fresh_wavefront_state (cu : EmuCU) (key : Nat) (ds : List DispInfo) :
    (cu.mapWG key ds).getLast? = some (key, ds.map fun d => (emuFresh d).1) ∧
    (cu.mapWG key ds).take cu.length = cu ∧
    ∀ d ∈ ds, AbiFits d 102 256 →
      (emuFresh d).2 = none ∧ (emuFresh d).1.Sized ∧ MapAgree 102 256 (absE (emuFresh d).1).toMap (freshMap d) :=
  ⟨(emu_mapWG_fresh cu key ds).1, (emu_mapWG_fresh cu key ds).2, fun d _ hfit => emu_fresh_map d hfit⟩

example : freshMap dW (.s 0) = 0x33334444 ∧ freshMap dW (.s 3) = 0x55556666 ∧ freshMap dW (.s 4) = 0 ∧
    freshMap dW (.v 17 0) = 17 ∧ freshMap dW (.v 17 1) = 0 ∧ freshMap dW .execHi = 0xffffffff ∧
    freshMap dW .m0 = 0 ∧ freshMap dW .vccLo = 0 := by decide +kernel

/-- **Every reachable state of a compute unit's life cycle satisfies the allocation invariant and is
clean.** From zeroed register files (`blankCU`) run any sequence of: a wavefront dispatched to a
location inside the files that shares no byte with a resident wavefront (what the allocator
guarantees), a supported access of a resident wavefront, a wavefront retiring (`resetRegisterValue`,
after which it owns nothing). Then `Alloc` holds — so every interleaved access sequence refines the
abstract register map (`stores_refine_register_map`; its hypothesis `Alloc` is an invariant of
reachable states) — and every byte of the register files that no resident wavefront owns is zero. -/
theorem cu_life_cycle_alloc_clean (ops : List CUOp) (hok : CUOkAll blankCU ops) :
    Alloc (blankCU.cuRun ops) ∧ Clean (blankCU.cuRun ops) ∧
    ∀ acc : List (Nat × Op), GOk (blankCU.cuRun ops) acc →
      ((blankCU.cuRun ops).exec acc).2 = ((absG (blankCU.cuRun ops)).exec acc).2 ∧
      absG ((blankCU.cuRun ops).exec acc).1 = ((absG (blankCU.cuRun ops)).exec acc).1 := by
  obtain ⟨hA, hC⟩ := cu_run_alloc_clean ops blankCU blank_alloc_clean.1 blank_alloc_clean.2 hok
  refine ⟨hA, hC, fun acc hacc => ?_⟩
  obtain ⟨a, b, _, _⟩ := timing_exec_refines acc _ hA hacc
  exact ⟨a, b⟩

example : CUOkAll blankCU demoLife := ((cuOkAll_append demoLife blankCU _).1 demoLife_ok).1

/-- **Timing: a new wavefront's state is a function of its dispatch alone, across time.** After ANY
life cycle of the compute unit (earlier wavefronts wrote whatever they wrote and retired), a wavefront
dispatched to a free location holds `freshMap d` in every cell it owns — no value of an earlier
occupant of the window survives — which is exactly what the wavefront the emulation compute unit creates
for the same dispatch holds, and from then on both answer every sequence of supported accesses
identically (the hypothesis `Agree` of `emu_timing_same_answers_seq` holds from the dispatch on). -/
theorem timing_fresh_wavefront_state (ops : List CUOp) (ns nv simd soff voff : Nat) (d : DispInfo)
    (hok : CUOkAll blankCU (ops ++ [.map ns nv simd soff voff d])) (hv : nv ≤ 256) :
    MapAgree ns nv (absG (blankCU.cuRun (ops ++ [.map ns nv simd soff voff d])) (blankCU.cuRun ops).wfs.size) (freshMap d) ∧
    MapAgree ns nv (absE (emuFresh d).1).toMap
      (absG (blankCU.cuRun (ops ++ [.map ns nv simd soff voff d])) (blankCU.cuRun ops).wfs.size) ∧
    ∀ acc : List Op, (∀ o ∈ acc, o.Ok ns nv) →
      (emuFresh d).1.run acc =
        (blankCU.cuRun (ops ++ [.map ns nv simd soff voff d])).run (blankCU.cuRun ops).wfs.size acc := by
  obtain ⟨h1, h2⟩ := (cuOkAll_append ops blankCU _).1 hok
  obtain ⟨hA, hC⟩ := cu_run_alloc_clean ops blankCU blank_alloc_clean.1 blank_alloc_clean.2 h1
  rw [cuRun_append]
  exact ⟨(timing_fresh_map _ ns nv simd soff voff d hA hC h2).1,
    fresh_timing_eq_emu _ ns nv simd soff voff d hA hC h2 hv,
    fun acc hacc => same_answers_after_dispatch _ ns nv simd soff voff d hA hC h2 hv acc hacc⟩

example : CUOkAll blankCU (demoLife ++ [.map 16 4 0 0 0 dW]) ∧ 4 ≤ 256 := ⟨demoLife_ok, by decide⟩

/-- **Allocator and compute unit running together: every reachable state satisfies `Alloc` and `Clean`.**
`Sys` (MgpuProofs/C07Sys.lean) couples the resource allocator (`C09.reserve` / `C09.free`, shipped compute
unit) with one compute unit's register files: a mapped work-group is reserved and, when that succeeds,
every wavefront gets `wrapWG`'s new record and `DispatchWf` with the location the allocator chose;
resident wavefronts access their registers; a finished work-group's wavefronts retire
(`resetRegisterValue`) and its resources are freed — in any order, any number of work-groups, windows
reused. For every such history (work-groups with ≥ 1 wavefront, ≤ 102 SGPRs, ABI registers inside the
declared counts; supported accesses): the compute unit satisfies `Alloc` (hence every access sequence
refines the abstract register map) and `Clean` (hence every later wavefront starts from `freshMap`), and
the records of the live wavefronts carry exactly the allocator's layouts. No hypothesis connects the
two sides: the connection IS the model of `DispatchWf`. -/
theorem allocator_and_cu_alloc_clean (cu0 : C09.CU) (h0 : shippedCU = some cu0) (ops : List SysOp) (s : Sys)
    (hok : SysOkAll (Sys.init cu0) ops) (hrun : (Sys.init cu0).run ops = some s) :
    Alloc s.t ∧ Clean s.t ∧ s.liveLayouts = (wfsOfCU s.cu).map TWf.layout ∧
    s.live.map (·.1) = s.cu.resident.map (·.1) :=
  sys_alloc_clean cu0 h0 ops s hok hrun

/-- a work-group with two wavefronts is mapped and finishes, a second one is mapped -/
def demoSys : List SysOp :=
  [.mapWG 1 ⟨2, 16, 4, 0⟩ (fun _ => dW), .finish 1, .mapWG 2 ⟨1, 16, 4, 0⟩ (fun _ => dW)]

example (cu0 : C09.CU) : SysOkAll (Sys.init cu0) demoSys :=
  ⟨⟨by decide, by decide, fun _ => dW_fits⟩, fun _ _ => ⟨trivial, fun _ _ => ⟨⟨by decide, by decide, fun _ => dW_fits⟩, fun _ _ => trivial⟩⟩⟩

/-! ## hypotheses of the earlier layers that follow from reachability -/

/-- **`hlay` discharged: the compute unit onto which the live wavefronts of an allocator state were
dispatched satisfies `Alloc`.** From the registered shipped compute unit run any `ReserveResourceForWG` /
`FreeResourcesForWG` history (`allocator_windows_disjoint`), then dispatch every live wavefront, in
reservation order, onto zeroed shipped register files (`mapOp`: `wrapWG`'s new record + `DispatchWf` with
the allocator's location), each kernel declaring at most 102 SGPRs and enough registers for its ABI
registers. Then every dispatch step is legal (`CUOkAll`), the resulting records carry exactly the
allocator's layouts (the former hypothesis `hlay`), `Alloc` and `Clean` hold, and every interleaved
access sequence refines the abstract register map. No assumption about the compute unit remains. -/
theorem dispatched_cu_refines_register_map (aops : List C09.ROp) (cu0 cu : C09.CU) (ds : List DispInfo)
    (h0 : shippedCU = some cu0) (hops : ∀ op ∈ aops, ∀ k d, op = .reserve k d → 1 ≤ d.nwf)
    (hrun : C09.runR cu0 aops = some cu) (hlen : ds.length = (wfsOfCU cu).length)
    (hns : ∀ e ∈ cu.resident, e.2.1.s ≤ 102)
    (habi : ∀ p ∈ List.zip (wfsOfCU cu) ds, AbiFits p.2 p.1.ns p.1.nv) :
    CUOkAll blankCU (List.zipWith mapOp (wfsOfCU cu) ds) ∧
    (blankCU.cuRun (List.zipWith mapOp (wfsOfCU cu) ds)).wfs.toList.map TWf.layout = (wfsOfCU cu).map TWf.layout ∧
    Alloc (blankCU.cuRun (List.zipWith mapOp (wfsOfCU cu) ds)) ∧ Clean (blankCU.cuRun (List.zipWith mapOp (wfsOfCU cu) ds)) ∧
    ∀ ops : List (Nat × Op), GOk (blankCU.cuRun (List.zipWith mapOp (wfsOfCU cu) ds)) ops →
      ((blankCU.cuRun (List.zipWith mapOp (wfsOfCU cu) ds)).exec ops).2 =
        ((absG (blankCU.cuRun (List.zipWith mapOp (wfsOfCU cu) ds))).exec ops).2 ∧
      absG ((blankCU.cuRun (List.zipWith mapOp (wfsOfCU cu) ds)).exec ops).1 =
        ((absG (blankCU.cuRun (List.zipWith mapOp (wfsOfCU cu) ds))).exec ops).1 := by
  obtain ⟨_, _, hpw, hin⟩ := allocator_windows_disjoint aops cu0 cu h0 hops hrun
  have hin' : ∀ w ∈ wfsOfCU cu, w.soff + 4 * w.ns ≤ 12800 ∧ w.ns ≤ 102 ∧ w.voff + 4 * w.nv ≤ 1024 ∧ w.simd < 4 := by
    intro w hw
    obtain ⟨a, b, c⟩ := hin w hw
    obtain ⟨e, he, l, hl, rfl⟩ := (mem_wfsOfCU cu w).1 hw
    exact ⟨a, hns e he, b, c⟩
  obtain ⟨r1, r2, _⟩ := mapAll (wfsOfCU cu) ds blankCU hlen blank_shipped blank_alloc_clean.1 blank_alloc_clean.2
    hpw hin' (fun w _ i hi => absurd hi (by simp [blankCU])) habi
  obtain ⟨hA, hC⟩ := cu_run_alloc_clean _ blankCU blank_alloc_clean.1 blank_alloc_clean.2 r1
  refine ⟨r1, by simpa [blankCU] using r2, hA, hC, fun ops hok => ?_⟩
  obtain ⟨a, b, _, _⟩ := timing_exec_refines ops _ hA hok
  exact ⟨a, b⟩

example : (shippedCU.bind fun cu0 => C09.runR cu0 demoAlloc).map (fun cu => (wfsOfCU cu).length) = some 3 := by
  decide +kernel

/-- **`Sized` is an invariant of the emulator's store.** `NewWavefront` allocates the 408-byte scalar
and 65536-byte vector file, and no operand method and no initialisation — for ANY register, count,
lane, data, panicking or not — changes a file's size; so the hypothesis `e.Sized` of
`emu_refines_cells`, `read_faults_exact`, … holds in every reachable state. -/
theorem emu_sized_invariant :
    EmuRF.fresh.Sized ∧
    (∀ (e : EmuRF) (r rc lane : Nat) (d : List UInt8), e.Sized → (e.writeOperandBytes r rc lane d).1.Sized) ∧
    (∀ (e : EmuRF) (r rc lane v : Nat), e.Sized → (e.writeOperand r rc lane v).1.Sized) ∧
    (∀ (e : EmuRF) (d : DispInfo), e.Sized → (e.initWfRegs d).1.Sized) := by
  refine ⟨⟨by simp [EmuRF.fresh], by simp [EmuRF.fresh]⟩, fun e r rc lane d hs => emu_writeReg_sized e r rc lane d hs,
    fun e r rc lane v hs => ?_, fun e d hs => emu_initWfRegs_sized e d hs⟩
  simp only [EmuRF.writeOperand]
  split
  · exact hs
  · exact emu_writeReg_sized e r rc lane _ hs

/-- two wavefronts that both claim `s0..s15` at offset 0 -/
def tO : TimingRF :=
  ⟨Array.replicate 64 0, #[Array.replicate 65536 0], #[⟨0, 0, 0, 16, 4, 0, 0, 0, 0⟩, ⟨0, 0, 16, 16, 4, 0, 0, 0, 0⟩]⟩

/-- **The disjointness hypothesis (`RegionsDisjoint` / `WindowsDisjoint` / `Alloc.disj`) cannot be
dropped, and neither can the width hypothesis of `cells_access_exact`.** With overlapping SGPR windows a
supported write of `s0` by wavefront 0 changes `s0` of wavefront 1 (kernel-checked on the model; the
dispatch witness replays an overlap on the real files); writing 1 byte to a two-register operand is
not read back (the operand reads 8 bytes). -/
theorem disjointness_and_width_needed :
    ((absT (tO.writeOperandBytes 0 R_S0 1 0 [1, 0, 0, 0]).1 ((tO.writeOperandBytes 0 R_S0 1 0 [1, 0, 0, 0]).1.wf 1)).s 0 = 1 ∧
      (absT tO (tO.wf 1)).s 0 = 0 ∧ ¬ WindowsDisjoint (tO.wf 0) (tO.wf 1)) ∧
    (∀ c : Cells, ((c.writeBytes ⟨.s 0, 2, 0⟩ [1]).readBytes ⟨.s 0, 2, 0⟩) ≠ [1]) := by
  refine ⟨⟨by decide +kernel, by decide +kernel, fun h => h.1 0 ⟨by simp [ownS, tO, TimingRF.wf], by simp [ownS, tO, TimingRF.wf]⟩⟩, fun c h => ?_⟩
  have := congrArg List.length h
  simp [Cells.readBytes, regsBytes_length, cnt] at this

/-! ## scalar loads return through the register accessor -/

/-- "the return path of a scalar load is the operand write of the loaded dwords, whatever register
SDATA names" (what the emulator does: `WriteOperandBytes(inst.Data, 0, buf)`). -/
def smem_return_is_operand_write : Prop :=
  ∀ (t : TimingRF) (wi n r : Nat) (data : List UInt8), Alloc t → wi < t.wfs.size →
    n < 128 → C04.getOperand n = some (.reg n r 0) → data.length = 8 →
    t.smemReturn wi r 0 data = t.writeOperandBytes wi r 2 0 data

/-- the same statement about the return path before the repair (`smemReturnOld`) -/
def smem_return_is_operand_write_before_fix : Prop :=
  ∀ (t : TimingRF) (wi n r : Nat) (data : List UInt8), Alloc t → wi < t.wfs.size →
    n < 128 → C04.getOperand n = some (.reg n r 0) → data.length = 8 →
    t.smemReturnOld wi r 0 data = t.writeOperandBytes wi r 2 0 data

/-- the registers a 7-bit SDATA field can name exist in the register list and are no VGPRs -/
def sdataRegOk (n : Nat) : Bool :=
  match C04.getOperand n with
  | some (.reg _ r _) => knownReg r && !isVReg r
  | _ => true

theorem sdata_regs_ok : ∀ n, n < 128 → sdataRegOk n = true := by decide +kernel

/-- **smem_return_is_operand_write_full (repaired code).** For every register a scalar load's SDATA
can name — SGPRs, VCC, EXEC, M0, FLAT_SCRATCH, XNACK_MASK, TBA/TMA, TTMP — the return path of
`s_load_dwordx2` is exactly `WriteOperandBytes` of that operand: same store afterwards, same fault
(registers the accessor does not support fault the same way in both). `s_load_dwordx2 vcc, …` now
loads VCC; nothing is written outside the loading wavefront. -/
theorem smem_return_is_operand_write_full : smem_return_is_operand_write := by
  intro t wi n r data _ _ hn hg hd
  have hok := sdata_regs_ok n hn
  unfold sdataRegOk at hok
  rw [hg] at hok
  simp only [Bool.and_eq_true, Bool.not_eq_true'] at hok
  have h := smem_return_operand_write t wi r 0 data (by rw [smemDst_zero]; exact hok.1) (by rw [smemDst_zero]; exact hok.2)
  rw [h, smemDst_zero, hd]

/-- every piece of every scalar load (any width, any cache-line split) whose destination register
exists is the operand write of that piece's registers -/
theorem smem_return_piece_is_operand_write (t : TimingRF) (wi r k : Nat) (data : List UInt8)
    (hk : knownReg (TimingRF.smemDst r k) = true) (hV : isVReg (TimingRF.smemDst r k) = false) :
    t.smemReturn wi r k data = t.writeOperandBytes wi (TimingRF.smemDst r k) (data.length / 4) 0 data :=
  smem_return_operand_write t wi r k data hk hV

/-- the second half of a 64-bit special register follows the first in the register list: a
`s_load_dwordx2 vcc / exec` split over two cache lines loads `vcc_hi` / `exec_hi` with its second piece -/
example : TimingRF.smemDst R_VCCLO 1 = R_VCCHI ∧ TimingRF.smemDst R_EXECLO 1 = R_EXECHI := by decide

/-- non-vacuity: `s_load_dwordx2 vcc` on the witness store sets VCC -/
example : ((t1.smemReturn 0 R_VCCLO 0 [1, 0, 0, 0, 0, 0, 0, 0]).1.wfs.getD 0 default).vcc = 1 ∧
    (t1.smemReturn 0 R_VCCLO 0 [1, 0, 0, 0, 0, 0, 0, 0]).2 = none := by
  have hg : C04.getOperand 106 = some (.reg 106 R_VCCLO 0) := by decide
  rw [smem_return_is_operand_write_full t1 0 106 R_VCCLO [1, 0, 0, 0, 0, 0, 0, 0] t1_alloc (by decide) (by omega) hg rfl]
  simp [TimingRF.writeOperandBytes, TimingRF.writeReg, TimingRF.write64, TimingRF.setWf, TimingRF.padTo8, u64, t1, leNat,
    R_SCC, R_VCC, R_VCCLO]

/-- **Refuted before the repair (former finding `C07-smem-load-into-special`): `s_load_dwordx2 vcc, …`.**
SDATA = 106 decodes to `vcc_lo` (`getOperand 106`); `executeSMEMLoad` computed the destination
`insts.SReg(RegIndex() + k)` with `RegIndex() = −1`, i.e. `Regs[S0 − 1] = v255`, and
`handleScalarDataLoadReturn` wrote it with `SRegFile.Write`: VCC kept its old value (the accessor would
have set it to the loaded value). Concrete input: bytes `82 1a 06 c0 00 00 00 00`. -/
theorem smem_return_is_operand_write_before_fix_refuted : ¬ smem_return_is_operand_write_before_fix := by
  intro h
  have hg : C04.getOperand 106 = some (.reg 106 R_VCCLO 0) := by decide
  have := h t1 0 106 R_VCCLO [1, 0, 0, 0, 0, 0, 0, 0] t1_alloc (by decide) (by omega) hg rfl
  have h1 := (smem_return_special_before_fix t1 0 R_VCCLO [1, 0, 0, 0, 0, 0, 0, 0] nS_vcclo nV_vcclo).1
  rw [this] at h1
  have h2 : ((t1.writeOperandBytes 0 R_VCCLO 2 0 [1, 0, 0, 0, 0, 0, 0, 0]).1.wfs.getD 0 default).vcc = 1 := by
    simp [TimingRF.writeOperandBytes, TimingRF.writeReg, TimingRF.write64, TimingRF.setWf, TimingRF.padTo8, u64, t1, leNat,
      R_SCC, R_VCC, R_VCCLO]
  rw [h1] at h2
  simp [t1] at h2

/-- **Partial: scalar loads into SGPRs.** For SDATA = `s i` and the cache-line piece starting `k` dwords
into the load with `m` dwords of data, all inside the wavefront's SGPR allocation: the return path
(`SRegFile.Write` at `insts.SReg(i + k)`) is exactly `WriteOperandBytes` of the operand `s[i+k : i+k+m)`,
does not panic, replaces exactly those cells of the loading wavefront in the abstract map and no cell
of any other wavefront; `Alloc` is preserved. -/
theorem smem_return_is_operand_write_partial (t : TimingRF) (wi i k m : Nat) (data : List UInt8)
    (hA : Alloc t) (hwi : wi < t.wfs.size) (hm1 : 1 ≤ m) (hm : m ≤ 16) (hd : data.length = 4 * m)
    (hin : i + k + m ≤ (t.wf wi).ns) :
    t.smemReturn wi (R_S0 + i) k data = t.writeOperandBytes wi (R_S0 + (i + k)) m 0 data ∧
    (t.smemReturn wi (R_S0 + i) k data).2 = none ∧
    absG (t.smemReturn wi (R_S0 + i) k data).1 =
      (fun j => if j = wi then (absG t wi).writeBytes ⟨.s (i + k), m, 0⟩ data else absG t j) ∧
    Alloc (t.smemReturn wi (R_S0 + i) k data).1 := by
  have hns := (hA.fits wi hwi).hns
  have hdiv : data.length / 4 = m := by omega
  have e : t.smemReturn wi (R_S0 + i) k data = t.writeOperandBytes wi (R_S0 + (i + k)) m 0 data := by
    rw [smem_return_sgpr t wi i k data (by omega), hdiv]
  have hcnt : cnt m = m := by unfold cnt; split <;> omega
  have hok : (Op.wb ⟨.s (i + k), m, 0⟩ data).Ok (t.wf wi).ns (t.wf wi).nv := by
    refine ⟨⟨hm, by rw [hcnt]; omega⟩, ?_⟩
    rw [width_s, hcnt, hd]
  obtain ⟨s1, s2, s3⟩ := tim_step_refines t wi (.wb ⟨.s (i + k), m, 0⟩ data) hA hwi hok
  simp only [TimingRF.step, Kind.reg, GMap.step, CMap.step] at s1 s2 s3
  rw [e]
  refine ⟨rfl, ?_, s2, s3.alloc hA⟩
  injection s1

example : Alloc t0 ∧ 4 + 2 + 2 ≤ (t0.wf 0).ns := ⟨t0_alloc, by decide⟩

/-- **What happened before the repair for a special-register destination.** For SDATA neither SGPR nor VGPR (VCC,
M0, EXEC, FLAT_SCRATCH, …) the old return path changed no wavefront record — the destination register is
never written — and no vector file; the only bytes of the scalar file that can change are
`[SRegOffset + 1020, SRegOffset + 1020 + 4·dwords)`, which lie outside the loading wavefront's own SGPR
window: registers of another resident wavefront, or free space (breaking `Clean`). -/
theorem smem_load_into_special_register_lost_before_fix (t : TimingRF) (wi r : Nat) (data : List UInt8)
    (hS : isSReg r = false) (hV : isVReg r = false) :
    (t.smemReturnOld wi r 0 data).1.wfs = t.wfs ∧ (t.smemReturnOld wi r 0 data).1.vfiles = t.vfiles ∧
    (∀ p, ¬ ((t.wf wi).soff + 1020 ≤ p ∧ p < (t.wf wi).soff + 1020 + 4 * cnt (data.length / 4)) →
      get (t.smemReturnOld wi r 0 data).1.sfile p = get t.sfile p) ∧
    ((t.wf wi).ns ≤ 102 → ∀ p, (t.wf wi).soff + 1020 ≤ p → ¬ ownS (t.wf wi) p) :=
  smem_return_special_before_fix t wi r data hS hV

example : isSReg R_VCCLO = false ∧ isVReg R_VCCLO = false ∧ isSReg R_M0 = false ∧ isVReg R_EXECLO = false := by decide

/-! ## unlimited (−1) register counts -/

/-- "whatever register counts a compute unit reports to `RegisterCU` — limited or unlimited (−1) — the
windows of live wavefronts are pairwise byte-disjoint in register files with 1024-byte lane rows", kept
visible: false for unlimited counts. -/
def allocator_windows_disjoint_any_counts : Prop :=
  ∀ (wf : List Nat) (s : Option Nat) (v : List (Option Nat)) (l : Option Nat) (cu0 cu : C09.CU) (ops : List C09.ROp),
    C09.mkCU wf s v l = some cu0 → wf.length = v.length →
    (∀ op ∈ ops, ∀ k d, op = .reserve k d → 1 ≤ d.nwf) → C09.runR cu0 ops = some cu →
    (wfsOfCU cu).Pairwise WindowsDisjoint

/-- **Refuted for unlimited counts.** `unlimitedResourceMask` is a bump counter: with an unlimited VGPR
count the second wavefront gets `VGPROffset = 1024`, i.e. its lane-0 row is the first wavefront's lane-1
row in a file with 1024-byte lane rows. The shipped timing compute unit never reports −1
(`SRegCount() = 3200`, `VRegCounts() = 16384 ×4`: `allocator_windows_disjoint` covers it); the emulation
compute unit reports −1 for everything, and there the location is not used at all: every wavefront has
its own store (`emu_fresh_wavefront_state`; `initWfs` never reads `req.Wavefronts[i]`'s offsets). The
harness replays the witness on a real `CUResourceImpl`. -/
theorem allocator_windows_disjoint_any_counts_refuted : ¬ allocator_windows_disjoint_any_counts := by
  intro h
  cases h0 : C09.mkCU [10] (some 3200) [none] (some 65536) with
  | none => have := unl_run; rw [h0] at this; cases this
  | some cu0 =>
    cases hr : C09.runR cu0 unlOps with
    | none => have := unl_run; rw [h0] at this; simp only [Option.bind_some, hr] at this; cases this
    | some cu =>
      have hl := unl_run
      rw [h0] at hl
      simp only [Option.bind_some, hr, Option.map_some, Option.some.injEq] at hl
      have hp := h [10] (some 3200) [none] (some 65536) cu0 cu unlOps h0 rfl
        (by intro op hop k d e
            simp only [unlOps, List.mem_cons, List.mem_nil_iff, or_false] at hop
            rcases hop with rfl | rfl <;> (injection e with _ e2; subst e2; decide)) hr
      match hw : wfsOfCU cu, hl, hp with
      | [a, b], hl, hp =>
        simp only [List.map_cons, List.map_nil, List.cons.injEq, and_true] at hl
        obtain ⟨la, lb⟩ := hl
        obtain ⟨a1, a2, a3, a4, a5⟩ := layout_eq (w := ⟨0, 0, 0, 16, 256, 0, 0, 0, 0⟩) (w' := a) la
        obtain ⟨b1, b2, b3, b4, b5⟩ := layout_eq (w := ⟨0, 64, 1024, 16, 4, 0, 0, 0, 0⟩) (w' := b) lb
        simp only at a1 a2 a3 a4 a5 b1 b2 b3 b4 b5
        have hd : WindowsDisjoint a b := by simpa using hp
        rcases hd.2 with hd | hd
        · exact hd (by rw [a1, b1])
        · exact hd 1024 ⟨⟨1, by omega, by omega, by rw [a3]; omega, by rw [a3, a5]; omega⟩,
            ⟨0, by omega, by omega, by rw [b3]; omega, by rw [b3, b5]; omega⟩⟩
      | [], hl, _ => simp at hl
      | [_], hl, _ => simp at hl
      | _ :: _ :: _ :: _, hl, _ => simp at hl

/-- the partial statement is `allocator_windows_disjoint` (the shipped, limited counts); its helper
    `allocator_windows` holds for every limited shape with at most 64 VGPR units per lane row -/
theorem allocator_windows_disjoint_any_counts_partial (ops : List C09.ROp) (cu0 cu : C09.CU) (h0 : shippedCU = some cu0)
    (hops : ∀ op ∈ ops, ∀ k d, op = .reserve k d → 1 ≤ d.nwf) (hrun : C09.runR cu0 ops = some cu) :
    (wfsOfCU cu).Pairwise WindowsDisjoint :=
  (allocator_windows_disjoint ops cu0 cu h0 hops hrun).2.2.1

end C07
