import MgpuModel.C02
import MgpuModel.Gen.C02Cu
/-!
# C02 — the hand-written timing/emulation model is tied to tables and expressions regenerated from the Go source

`lean/MgpuModel/Gen/C02Cu.lean` is rewritten by `translate/c02.go` from the timing compute unit
(`amd/timing/cu/{defaultcoalescer,vectormemoryunit,computeunit,scalarunit,wfdispatcher,cubuilder,fetcharbiter,scheduler,branchunit}.go`),
the two emulator ALUs and the emulator's compute unit (`amd/emu/{alu_flat,alu,computeunit}.go`, `amd/emu/cdna3/{flat,sop}.go`),
the command processor (`amd/timing/cp/cpMiddleware.go`) and the platform builders. Every theorem below states — for ALL
arguments where the generated item is a function — that the model `MgpuModel/C02.lean` / `MgpuModel/C02Wf.lean` uses
exactly the regenerated table, constant or expression. A changed constant, table entry or formula in the Go code changes
the generated definition and breaks the theorem that uses it; a changed statement shape makes the translator refuse.
Go `uint64` arithmetic is read on Nat (addresses below 2^64; the hypotheses say so where it matters).
-/
namespace C02
open Gen

/-! ## helpers: a table whose keys are all below `n` has no entry at or above `n` -/

theorem lookup_none_of_keys_lt {β : Type} (l : List (Nat × β)) (n k : Nat)
    (h : l.all (fun p => decide (p.1 < n)) = true) (hk : n ≤ k) : l.lookup k = none := by
  induction l with
  | nil => rfl
  | cons p ps ih =>
    simp only [List.all_cons, Bool.and_eq_true, decide_eq_true_eq] at h
    have : (k == p.1) = false := by
      simp only [beq_eq_false_iff_ne, ne_eq]; omega
    cases p with
    | mk a b => simp only [List.lookup, this]; exact ih h.2

theorem not_mem_of_all_lt (l : List Nat) (n k : Nat) (h : l.all (fun p => decide (p < n)) = true) (hk : n ≤ k) :
    k ∉ l := by
  intro hm
  have := List.all_eq_true.1 h k hm
  simp only [decide_eq_true_eq] at this
  omega

theorem loadOp_none (opc : Nat) (h : 32 ≤ opc) : loadOp opc = none := by
  unfold loadOp
  split <;> first | omega | rfl

theorem storeOp_none (opc : Nat) (h : 32 ≤ opc) : storeOp opc = none := by
  unfold storeOp
  split <;> first | omega | rfl

/-! ## FLAT opcode tables -/

/-- **Load register counts.** For every opcode, the register count of the model's `loadOp` is the entry of
`defaultCoalescer.instRegCount` (restricted to the opcodes `executeFlatInsts` sends to `executeFlatLoad`); the model has
an entry exactly where the table has one. -/
theorem tie_load_table (opc : Nat) : (loadOp opc).map (·.2) = C02Cu.loadRegCount.lookup opc := by
  by_cases h : opc < 32
  · revert opc; decide
  · rw [loadOp_none opc (by omega), lookup_none_of_keys_lt _ 32 opc (by decide) (by omega)]; rfl

/-- the model's load opcodes are exactly the opcodes the vector memory unit executes as loads, and the coalescer's
`isLoadInst` (which chooses read requests) is true on all of them -/
theorem tie_load_opcodes (opc : Nat) :
    ((loadOp opc).isSome = true ↔ opc ∈ C02Cu.timingFlatLoadOpcodes) ∧
    (opc ∈ C02Cu.timingFlatLoadOpcodes → C02Cu.isLoadInst opc = true) ∧
    (opc ∈ C02Cu.timingFlatStoreOpcodes → C02Cu.isLoadInst opc = false) := by
  by_cases h : opc < 32
  · revert opc; decide
  · have h1 := not_mem_of_all_lt C02Cu.timingFlatLoadOpcodes 32 opc (by decide) (by omega)
    have h2 := not_mem_of_all_lt C02Cu.timingFlatStoreOpcodes 32 opc (by decide) (by omega)
    simp [loadOp_none opc (by omega), h1, h2]

/-- what the two generated store tables and the emulator's opcode list say about a store opcode: bytes written per
data register (`storeByteSize`), number of data registers (`instRegCount`), for the opcodes the emulator implements -/
def genStore (opc : Nat) : Option (Nat × Nat) :=
  if opc ∈ C02Cu.emuFlatOpcodes then
    match C02Cu.storeBytes.lookup opc, C02Cu.storeRegCount.lookup opc with
    | some b, some c => some (b, c)
    | _, _ => none
  else none

/-- **Store table.** For every opcode, the model's `storeOp` (bytes per register, register count) is
(`storeByteSize`, `instRegCount`) of the coalescer on the store opcodes that the emulator's `runFlat` has a case for
(24, 26, 28..31; the timing side also accepts 25 and 27, which the emulator panics on and the model leaves out). -/
theorem tie_store_table (opc : Nat) : storeOp opc = genStore opc := by
  by_cases h : opc < 32
  · revert opc; decide
  · rw [storeOp_none opc (by omega)]
    have h1 := not_mem_of_all_lt C02Cu.emuFlatOpcodes 32 opc (by decide) (by omega)
    simp [genStore, h1]

/-- non-vacuity: a byte store and a 3-register store -/
example : genStore 24 = some (1, 1) ∧ genStore 30 = some (4, 3) ∧ genStore 25 = none := by decide

/-- **Emulator opcodes.** The model's `emuHasLoad` is true exactly for the load opcodes `runFlat` has a case for — in
the GCN3 ALU and in the CDNA3 ALU —, and both ALUs dispatch every opcode to the handler of the same name. -/
theorem tie_emu_flat_opcodes (opc : Nat) :
    (emuHasLoad opc = true ↔ (opc ∈ C02Cu.emuFlatOpcodes ∧ opc ∈ C02Cu.timingFlatLoadOpcodes)) ∧
    (emuHasLoad opc = true ↔ (opc ∈ C02Cu.emuFlatOpcodesCDNA3 ∧ opc ∈ C02Cu.timingFlatLoadOpcodes)) := by
  by_cases h : opc < 32
  · revert opc; decide
  · have h1 := not_mem_of_all_lt C02Cu.emuFlatOpcodes 32 opc (by decide) (by omega)
    have h2 := not_mem_of_all_lt C02Cu.emuFlatOpcodesCDNA3 32 opc (by decide) (by omega)
    simp [emuHasLoad, loadOp_none opc (by omega), h1, h2]

theorem tie_emu_alus_agree : C02Cu.emuFlatHandlers = C02Cu.emuFlatHandlersCDNA3 ∧
    C02Cu.emuFlatOpcodes = C02Cu.emuFlatOpcodesCDNA3 ∧ C02Cu.emuFlatHandlers.map (·.1) = C02Cu.emuFlatOpcodes := by decide

/-- the emulator handler a load kind / register count of the model stands for -/
def handlerOf : LKind × Nat → String
  | (.ubyte, _) => "runFlatLoadUByte" | (.sbyte, _) => "runFlatLoadSByte"
  | (.ushort, _) => "runFlatLoadUShort" | (.sshort, _) => "runFlatLoadSShort"
  | (.dword, 1) => "runFlatLoadDWord" | (.dword, 2) => "runFlatLoadDWordX2"
  | (.dword, 3) => "runFlatLoadDWordX3" | (.dword, _) => "runFlatLoadDWordX4"

/-- **Load kinds.** The kind (ubyte … dword) and register count the model gives a load opcode name the handler the
emulator's `runFlat` calls for that opcode. -/
theorem tie_load_kinds (opc : Nat) (h : opc ∈ C02Cu.timingFlatLoadOpcodes) :
    (loadOp opc).map handlerOf = C02Cu.emuFlatHandlers.lookup opc := by
  by_cases h' : opc < 32
  · revert opc; decide
  · exact absurd h (not_mem_of_all_lt _ 32 opc (by decide) (by omega))

/-- **Every opcode the timing side and the emulator both execute is in the model**, and nothing else is. -/
theorem tie_flat_domain (opc : Nat) :
    ((loadOp opc).isSome || (storeOp opc).isSome) = true ↔
      (opc ∈ C02Cu.emuFlatOpcodes ∧ (opc ∈ C02Cu.timingFlatLoadOpcodes ∨ opc ∈ C02Cu.timingFlatStoreOpcodes)) := by
  by_cases h : opc < 32
  · revert opc; decide
  · have h1 := not_mem_of_all_lt C02Cu.emuFlatOpcodes 32 opc (by decide) (by omega)
    simp [loadOp_none opc (by omega), storeOp_none opc (by omega), h1]

/-- **Register addresses.** Register `j` of a lane is accessed at `addr + 4 * j` in `generateReadReqs` and in
`generateWriteReqs`, as in the model's `accesses`. -/
theorem tie_access_addr (act : List (Nat × Nat)) (cnt : Nat) :
    accesses act cnt = act.flatMap (fun p => (List.range cnt).map fun j => ⟨p.1, j, C02Cu.readAccAddr p.2 j⟩) ∧
    accesses act cnt = act.flatMap (fun p => (List.range cnt).map fun j => ⟨p.1, j, C02Cu.writeAccAddr p.2 j⟩) := by
  constructor
  · rfl
  · simp only [accesses, C02Cu.writeAccAddr, Nat.mul_comm]

/-! ## cache lines -/

/-- **Line of an address.** The model's `lineOf (2^l) a` is the coalescer's `cacheLineID` (`addr >> l << l`) and the
offset in the line the model uses (`a % 2^l`) is `addrOffsetInCacheLine` (`addr & (1<<l - 1)`), for every address and
every line size. -/
theorem tie_line_of (a l : Nat) :
    lineOf (2 ^ l) a = C02Cu.cacheLineID a l ∧ a % 2 ^ l = C02Cu.addrOffsetInCacheLine a l := by
  simp only [lineOf, C02Cu.cacheLineID, C02Cu.addrOffsetInCacheLine, Nat.shiftRight_eq_div_pow, Nat.shiftLeft_eq,
    Nat.one_mul, Nat.and_two_pow_sub_one_eq_mod, and_self]

/-- **Line size.** The compute unit builder's default is 2^6 = 64 bytes, every shipped platform builder has the same
default, and the coalescer and the scalar unit are both wired to the builder's value. 64 is the line size of the
model's fetch path (`Wf.lineBase`) and of the fetch request. -/
theorem tie_line_size :
    2 ^ C02Cu.cuLog2CachelineSize = 64 ∧
    C02Cu.platformLog2CacheLineSize = [("r9nano", 6), ("mi300a", 6), ("shaderarray", 6)] ∧
    C02Cu.cachelineWiring = ["coalescer.log2CacheLineSize=b.log2CachelineSize", "scalarUnit.log2CachelineSize=b.log2CachelineSize"] ∧
    C02Cu.fetchBytes = 2 ^ C02Cu.cuLog2CachelineSize ∧
    (∀ pc, Wf.lineBase pc = lineOf (2 ^ C02Cu.cuLog2CachelineSize) pc) := by
  refine ⟨by decide, by decide, by decide, by decide, fun pc => rfl⟩

/-! ## the value a returning FLAT load writes -/

theorem or_shl8 (a b m : Nat) (ha : a < 256) (hb : b < 256) (hm : 65536 ≤ m) :
    a ||| ((b <<< 8) % m) = a + 256 * b := by
  have h1 : b <<< 8 = b * 256 := by simp [Nat.shiftLeft_eq]
  rw [Nat.mod_eq_of_lt (by omega), Nat.or_comm, ← Nat.shiftLeft_add_eq_or_of_lt (by simpa using ha), h1]
  omega

/-- **Load return.** For every load opcode of the model and all response bytes (each below 256), the value
`handleVectorDataLoadReturn` computes for the opcode — its own branch for 16..19 with every Go integer conversion
read as truncation / sign extension of the bit pattern, the raw copy of 4 bytes per register (little endian in the
register file) for the rest — is the model's `valOf` of the opcode's kind. -/
theorem tie_load_return (opc : Nat) (k : LKind) (cnt : Nat) (g : Nat → Nat) (h : loadOp opc = some (k, cnt))
    (hg : ∀ i, g i < 256) :
    (C02Cu.loadReturn opc g).getD (g 0 + 256 * g 1 + 65536 * g 2 + 16777216 * g 3) = valOf k g := by
  have h0 := hg 0
  have h1 := hg 1
  unfold loadOp at h
  split at h <;> simp only [Option.some.injEq, Prod.mk.injEq, reduceCtorEq] at h <;> obtain ⟨rfl, rfl⟩ := h
  · simp [C02Cu.loadReturn, valOf]
  · simp only [C02Cu.loadReturn, valOf, C02Cu.sext, sext8]; rfl
  · simp only [C02Cu.loadReturn, valOf]
    simp [or_shl8 (g 0) (g 1) 4294967296 h0 h1 (by decide)]
  · simp only [C02Cu.loadReturn, valOf, C02Cu.sext, sext16]
    simp [or_shl8 (g 0) (g 1) 65536 h0 h1 (by decide)]
  all_goals simp [C02Cu.loadReturn, valOf]

/-- the raw copy takes 4 bytes per register, the width of the model's `.dword`; the opcodes with their own branch are
the four narrow loads -/
theorem tie_load_return_raw : C02Cu.loadReturnRawBytesPerReg = LKind.dword.width ∧ C02Cu.loadReturnOpcodes = [16, 17, 18, 19] ∧
    (∀ opc k cnt, loadOp opc = some (k, cnt) → (k = .dword ↔ opc ∉ C02Cu.loadReturnOpcodes)) := by
  refine ⟨rfl, rfl, ?_⟩
  intro opc k cnt h
  unfold loadOp at h
  split at h <;> simp only [Option.some.injEq, Prod.mk.injEq, reduceCtorEq] at h <;> obtain ⟨rfl, rfl⟩ := h <;> decide

/-- non-vacuity: a negative byte and a negative short through the generated expressions -/
example : C02Cu.loadReturn 17 (fun _ => 0x80) = some 0xffffff80 ∧
    C02Cu.loadReturn 19 (fun i => if i = 0 then 0x34 else 0x92) = some 0xffff9234 ∧
    valOf .sshort (fun i => if i = 0 then 0x34 else 0x92) = 0xffff9234 := by decide
/-- the hypothesis is needed: with a "byte" of 257 the bits overlap and `|` is not `+` -/
example : (C02Cu.loadReturn 18 (fun _ => 257)).getD 0 ≠ valOf .ushort (fun _ => 257) := by decide

/-! ## SMEM -/

/-- **SMEM byte counts.** The model's opcode → byte count tables are the cases of `executeSMEMInst` (timing) and of
`runSMEM` + `runSLOADDWORD*` (emulator, both ALUs), for every opcode. -/
theorem tie_smem_tables (opc : Nat) :
    smemTimingBytes opc = C02Cu.smemTimingBytes.lookup opc ∧
    smemEmuBytes opc = C02Cu.smemEmuBytes.lookup opc ∧
    smemEmuBytes opc = C02Cu.smemEmuBytesCDNA3.lookup opc := by
  by_cases h : opc < 8
  · revert opc; decide
  · have ht : smemTimingBytes opc = none := by unfold smemTimingBytes; split <;> first | omega | rfl
    have he : smemEmuBytes opc = none := by unfold smemEmuBytes; split <;> first | omega | rfl
    rw [ht, he, lookup_none_of_keys_lt _ 8 opc (by decide) (by omega), lookup_none_of_keys_lt _ 8 opc (by decide) (by omega),
      lookup_none_of_keys_lt _ 8 opc (by decide) (by omega)]
    exact ⟨rfl, rfl, rfl⟩

theorem andnot3 (x : Nat) : x - (x &&& 3) = x / 4 * 4 := by
  have : x &&& 3 = x % 4 := Nat.and_two_pow_sub_one_eq_mod x 2
  omega

/-- **SMEM address.** The model's `smemAddr` of the sum is `(base + offset) &^ 3` of `executeSMEMLoad` and of the
emulator's handlers (both ALUs), for every base and offset. -/
theorem tie_smem_mask (b o : Nat) :
    smemAddr (b + o) = C02Cu.smemTimingAddr b o ∧ smemAddr (b + o) = C02Cu.smemEmuAddr b o ∧
    smemAddr (b + o) = C02Cu.smemEmuAddrCDNA3 b o := by
  simp only [smemAddr, C02Cu.smemTimingAddr, C02Cu.smemEmuAddr, C02Cu.smemEmuAddrCDNA3, andnot3, and_self]

/-- the first SGPR of a chunk: `regIndex + (curr - start) / 4`, as `chunkW` computes it (`smemDstReg` for an SGPR
destination; for SDATA = VCC / EXEC / M0 … — outside the model's SGPR cells — it returns the following entry of the
register list, and `handleScalarDataLoadReturn` writes through the wavefront's register accessor) -/
theorem tie_smem_chunk_reg (reg start : Nat) (m : Nat → Nat) (c : Nat × Nat) :
    chunkW reg start m c =
      (List.range (c.2 / 4)).map (fun i => ⟨0, (0, C02Cu.smemChunkReg reg c.1 start + i), le32 m (c.1 + 4 * i)⟩) ∧
    C02Cu.smemDstNonSgpr = "return insts.Regs[data.RegType+insts.RegType(dwordOffset)]" := ⟨rfl, rfl⟩

/-! ## wavefront register initialisation: the SGPR cursor -/

/-- the model's flag a code-object enable flag of the Go code stands for (`none`: the model has no such flag) -/
def flagOf (f : Flags) : String → Option Bool
  | "EnableSgprPrivateSegmentBuffer" => some f.privSegBuf
  | "EnableSgprDispatchPtr" => some f.dispatchPtr
  | "EnableSgprQueuePtr" => some f.queuePtr
  | "EnableSgprKernargSegmentPtr" => some f.kernarg
  | "EnableSgprDispatchID" => some f.dispatchID
  | "EnableSgprFlatScratchInit" => some f.flatScratch
  | "EnableSgprPrivateSegmentSize" => some f.privSegSize
  | "EnableSgprGridWorkgroupCountX" => some f.cntX
  | "EnableSgprGridWorkgroupCountY" => some f.cntY
  | "EnableSgprGridWorkgroupCountZ" => some f.cntZ
  | "EnableSgprWorkGroupIDX" => some f.idX
  | "EnableSgprWorkGroupIDY" => some f.idY
  | "EnableSgprWorkGroupIDZ" => some f.idZ
  | _ => none

/-- the model's value of a Go expression written at the cursor -/
def valueOf (a : Args) : String → Option Nat
  | "wf.PacketAddress" => some a.packetAddr
  | "pkt.KernargAddress" => some a.kernargAddr
  | "uint32((uint64(pkt.GridSizeX)+uint64(pkt.WorkgroupSizeX)-1)/uint64(pkt.WorkgroupSizeX))" => some (wgCount a.gx a.wx)
  | "uint32((uint64(pkt.GridSizeY)+uint64(pkt.WorkgroupSizeY)-1)/uint64(pkt.WorkgroupSizeY))" => some (wgCount a.gy a.wy)
  | "uint32((uint64(pkt.GridSizeZ)+uint64(pkt.WorkgroupSizeZ)-1)/uint64(pkt.WorkgroupSizeZ))" => some (wgCount a.gz a.wz)
  | "uint32(wf.WG.IDX)" => some a.ix
  | "uint32(wf.WG.IDY)" => some a.iy
  | "uint32(wf.WG.IDZ)" => some a.iz
  | _ => none

/-- the SGPR set-up as an interpreter of the two generated lists: for every tested flag, in order, the value is written
at the cursor (8 bytes: `w64`, 4 bytes: `w32`, register = cursor / 4) when the flag is set, then the cursor advances -/
def genInit (f : Flags) (a : Args) : List (String × Nat) → List (String × Nat × String) → Nat → List Wr → List Wr
  | c :: cs, w :: ws, p, acc =>
    let b := (flagOf f c.1).getD false
    let p' := if b then p + c.2 else p
    if w.2.1 = 0 then genInit f a cs ws p' acc
    else genInit f a cs ws p' (acc ++ (if b then (if w.2.1 = 8 then w64 p ((valueOf a w.2.2).getD 0) else w32 p ((valueOf a w.2.2).getD 0)) else []))
  | _, _, _, acc => acc

/-- the two generated lists of one function describe the same flags in the same order, write 0, 4 or 8 bytes, write
only values the model knows, and a flag the model does not have neither writes nor moves the cursor -/
def cursorWf (cur : List (String × Nat)) (wr : List (String × Nat × String)) : Bool :=
  cur.map (·.1) == wr.map (·.1) &&
  wr.all (fun w => w.2.1 == 0 || ((w.2.1 == 4 || w.2.1 == 8) &&
    (valueOf ⟨0, 0, 0, 0, 0, 0, 0, 0, 0, 0, 0⟩ w.2.2).isSome)) &&
  (cur.zip wr).all (fun x => (flagOf ⟨false, false, false, false, false, false, false, false, false, false, false, false, false⟩ x.1.1).isSome
    || (x.1.2 == 0 && x.2.2.1 == 0))

set_option maxRecDepth 4000 in
/-- **SGPR cursor.** For all flags and arguments, the model's SGPR set-up of the timing dispatcher (`timingInitS`) is
the interpretation of the flag order / cursor advances / written values read from `WfDispatcherImpl.initRegisters`, and
the emulator's (`emuInitS`) the interpretation of those read from `emu.ComputeUnit.initWfRegs`. A changed `+= n`, a
reordered or added flag test, a write of another value or width changes the generated lists and breaks this theorem. -/
theorem tie_sgpr_cursor (f : Flags) (a : Args) :
    timingInitS f a = genInit f a C02Cu.timingSgprCursor C02Cu.timingSgprWrites 0 [] ∧
    emuInitS f a = genInit f a C02Cu.emuSgprCursor C02Cu.emuSgprWrites 0 [] :=
  ⟨rfl, rfl⟩

/-- the generated lists are well formed (`cursorWf`), the emulator and the timing dispatcher test the same flags in the
same order with the same advances and the same written values, and the two advances the emulator once lacked
(`emuInitSOld` = `initS 0 0`) are 8 bytes for the queue pointer and 4 for the private segment size in both -/
theorem tie_sgpr_lists :
    cursorWf C02Cu.timingSgprCursor C02Cu.timingSgprWrites = true ∧
    cursorWf C02Cu.emuSgprCursor C02Cu.emuSgprWrites = true ∧
    C02Cu.emuSgprCursor = C02Cu.timingSgprCursor ∧ C02Cu.emuSgprWrites = C02Cu.timingSgprWrites ∧
    C02Cu.timingSgprCursor.lookup "EnableSgprQueuePtr" = some 8 ∧
    C02Cu.timingSgprCursor.lookup "EnableSgprPrivateSegmentSize" = some 4 ∧
    C02Cu.timingSgprCursor = [("EnableSgprPrivateSegmentBuffer", 16), ("EnableSgprDispatchPtr", 8), ("EnableSgprQueuePtr", 8),
      ("EnableSgprKernargSegmentPtr", 8), ("EnableSgprDispatchID", 8), ("EnableSgprFlatScratchInit", 8),
      ("EnableSgprPrivateSegmentSize", 4), ("EnableSgprGridWorkgroupCountX", 4), ("EnableSgprGridWorkgroupCountY", 4),
      ("EnableSgprGridWorkgroupCountZ", 4), ("EnableSgprWorkGroupIDX", 4), ("EnableSgprWorkGroupIDY", 4),
      ("EnableSgprWorkGroupIDZ", 0), ("EnableSgprWorkGroupInfo", 0), ("EnableSgprPrivateSegmentWaveByteOffset", 0)] := by
  decide

/-- non-vacuity: all flags set — the kernel-argument pointer lands in s[6:7] (after 16 + 8 + 8 bytes), the work-group
id X in s15 -/
example : (genInit ⟨true, true, true, true, true, true, true, true, true, true, true, true, true⟩
    ⟨0x1000, 0x2000, 64, 1, 1, 64, 1, 1, 5, 6, 7⟩ C02Cu.timingSgprCursor C02Cu.timingSgprWrites 0 []).map (fun w => (w.cell.2, w.val))
    = [(4, 0x1000), (5, 0), (8, 0x2000), (9, 0), (15, 1), (16, 1), (17, 1), (18, 5), (19, 6), (20, 7)] := by decide
/-- … and the interpreter is sensitive to the advance: with the queue pointer's 8 replaced by 0 (the emulator before
its repair) the kernel-argument pointer lands two registers lower -/
example : (genInit ⟨false, true, true, true, false, false, false, false, false, false, false, false, false⟩
    ⟨0x1000, 0x2000, 64, 1, 1, 64, 1, 1, 5, 6, 7⟩
    [("EnableSgprDispatchPtr", 8), ("EnableSgprQueuePtr", 0), ("EnableSgprKernargSegmentPtr", 8)]
    [("EnableSgprDispatchPtr", 8, "wf.PacketAddress"), ("EnableSgprQueuePtr", 0, ""), ("EnableSgprKernargSegmentPtr", 8, "pkt.KernargAddress")]
    0 []).map (fun w => (w.cell.2, w.val)) = [(0, 0x1000), (1, 0), (2, 0x2000), (3, 0)] := by decide

/-! ## the fetch path -/

theorem and_line_mask (pc : Nat) (h : pc < 2 ^ 64) : pc &&& 0xffffffffffffffc0 = pc / 64 * 64 := by
  have hm : (0xffffffffffffffc0 : Nat) = (2 ^ 58 - 1) <<< 6 := by decide
  have hd : pc / 64 * 64 = (pc >>> 6) <<< 6 := by
    simp [Nat.shiftRight_eq_div_pow, Nat.shiftLeft_eq]
  rw [hm, hd]
  apply Nat.eq_of_testBit_eq
  intro i
  simp only [Nat.testBit_and, Nat.testBit_shiftLeft, Nat.testBit_two_pow_sub_one, Nat.testBit_shiftRight]
  by_cases h6 : 6 ≤ i
  · have e : 6 + (i - 6) = i := by omega
    by_cases h64 : i < 64
    · have : i - 6 < 58 := by omega
      simp [h6, e, this]
    · have : pc.testBit i = false := by
        apply Nat.testBit_lt_two_pow
        exact Nat.lt_of_lt_of_le h (Nat.pow_le_pow_right (by decide) (by omega))
      simp [h6, e, this]
  · simp [h6]

/-- **Line base.** The model's `Wf.lineBase` is `PC & 0xffffffffffffffc0` of `DoFetch`, `DecodeNextInst` and the branch
unit's write stage, for every 64-bit PC; all four masks in the code are this constant. -/
theorem tie_line_base (pc : Nat) (h : pc < 2 ^ 64) :
    Wf.lineBase pc = C02Cu.fetchResync pc ∧ Wf.lineBase pc = C02Cu.decodeResync pc ∧
    C02Cu.lineMasks = List.replicate 4 0xffffffffffffffc0 := by
  refine ⟨?_, ?_, by decide⟩ <;> simp only [Wf.lineBase, C02Cu.fetchResync, C02Cu.decodeResync, and_line_mask pc h]

/-- the hypothesis is needed (the Go value is a uint64; on Nat the mask cuts the bits from 2^64 up) -/
example : Wf.lineBase (2 ^ 64) ≠ C02Cu.fetchResync (2 ^ 64) := by decide
example : Wf.lineBase 0x1234 = 0x1200 ∧ C02Cu.decodeResync 0x1234 = 0x1200 := by decide

/-- **Fetch address.** `DoFetch` asks for `(InstBufferStartPC + len(InstBuffer)) & mask`; with a line-aligned start and
a buffer of whole lines (what `fetch`/`fetchRet`/`removeStale` maintain) that is the model's `st + s.ib.length`. -/
theorem tie_fetch_addr (st len : Nat) (h1 : st % 64 = 0) (h2 : len % 64 = 0) (h : st + len < 2 ^ 64) :
    C02Cu.fetchAddr st len = st + len := by
  simp only [C02Cu.fetchAddr, and_line_mask (st + len) h]
  omega

example : C02Cu.fetchAddr 0x1000 128 = 0x1080 := by decide

/-- **Fetch constants.** The instruction buffer holds at most 256 bytes before the fetch arbiter stops fetching, a
fetch brings 64 bytes, the decoder needs 4 bytes, stale lines are dropped 64 bytes at a time, the barrier buffer has
16 entries; the refusal conditions of `canFetchFromWF`, the skip conditions of `DecodeNextInst` and the statements of
the branch unit's write stage are the ones `Wf.tstep` transcribes (`fetch`, `decode`/`resync`, `complete` of a branch). -/
theorem tie_fetch_constants :
    C02Cu.instBufByteSize = 256 ∧ C02Cu.fetchBytes = 64 ∧ C02Cu.decodeMinBytes = 4 ∧
    C02Cu.staleDrop = 64 ∧ C02Cu.staleStep = 64 ∧ C02Cu.barrierBufferSize = 16 ∧
    C02Cu.fetchRefusals = ["wf.IsFetching", "wf.State==wavefront.WfCompleted", "len(wf.InstBuffer)>=a.InstBufByteSize"] ∧
    C02Cu.decodeSkips = ["len(wf.InstBuffer)==0", "wf.State!=wavefront.WfReady", "wf.InstToIssue!=nil",
      "!s.wfHasAtLeast4BytesInInstBuffer(wf)"] ∧
    C02Cu.branchWriteStage = ["u.toWrite.InstBuffer=nil", "u.cu.UpdatePCAndSetReady(u.toWrite)",
      "u.toWrite.InstBufferStartPC=u.toWrite.PC()&0xffffffffffffffc0"] := by decide

/-- **`fetch`.** For every state, the model's `fetch` event is allowed exactly when none of the refusal conditions of
`canFetchFromWF` holds — with the buffer-full test and the buffer size read from the code — and it asks for the line
at `fetchResync` / `fetchAddr`'s operands. -/
theorem tie_tstep_fetch (P : Wf.Prog) (gate : Wf.TState → Wf.Inst → Bool) (s : Wf.TState) :
    Wf.tstep P gate s .fetch =
      if s.fetching = none ∧ s.ph ≠ .done ∧ C02Cu.fetchBufferFull s.ib.length C02Cu.instBufByteSize = false then
        some { s with ibStart := if s.ib = [] then Wf.lineBase s.pc else s.ibStart,
                      fetching := some ((if s.ib = [] then Wf.lineBase s.pc else s.ibStart) + s.ib.length) }
      else none := by
  simp only [Wf.tstep, C02Cu.fetchBufferFull, C02Cu.instBufByteSize, decide_eq_false_iff_not, Nat.not_le, ge_iff_le]

/-- **`fetchRet`.** The returned line (64 = `fetchBytes` bytes) is appended exactly when `handleFetchReturn`'s condition
holds. -/
theorem tie_tstep_fetchRet (P : Wf.Prog) (gate : Wf.TState → Wf.Inst → Bool) (s : Wf.TState) (a : Nat)
    (h : s.fetching = some a) :
    Wf.tstep P gate s .fetchRet =
      if C02Cu.fetchAppendCond a s.ibStart s.ib.length = true then
        some { s with ib := s.ib ++ P.window a C02Cu.fetchBytes, fetching := none }
      else some { s with fetching := none } := by
  simp only [Wf.tstep, h, C02Cu.fetchAppendCond, C02Cu.fetchBytes, decide_eq_true_eq]

/-- **`decode`.** The model decodes from `decodeFrom` and asks for `decodeMinBytes` bytes as
`wfHasAtLeast4BytesInInstBuffer` does (the model additionally requires `ibStart ≤ pc`: in Go the uint64 difference
wraps and the slice panics). -/
theorem tie_decode_bytes (len pc st : Nat) (h : st ≤ pc) :
    (pc - st + 4 ≤ len) ↔ (C02Cu.decodeHasBytes len pc st = true ∧ C02Cu.decodeFrom pc st ≤ len) := by
  simp only [C02Cu.decodeHasBytes, C02Cu.decodeFrom, decide_eq_true_eq]
  omega

theorem tie_tstep_decode (P : Wf.Prog) (gate : Wf.TState → Wf.Inst → Bool) (s : Wf.TState) (h : s.toIssue = none) :
    Wf.tstep P gate s .decode =
      if s.ib ≠ [] ∧ s.ph = .ready ∧ s.ibStart ≤ s.pc ∧ s.pc - s.ibStart + C02Cu.decodeMinBytes ≤ s.ib.length then
        match P.dec (s.ib.drop (C02Cu.decodeFrom s.pc s.ibStart)) with
        | none => none
        | some i => some { s with toIssue := some i }
      else none := by
  simp only [Wf.tstep, h, C02Cu.decodeMinBytes, C02Cu.decodeFrom]
  rfl

/-- **`removeStaleInstBuffer`.** One iteration of the model's loop is one iteration of the Go loop: same condition, same
number of bytes dropped, same step of the start PC. -/
theorem tie_remove_stale (pc n st : Nat) (ib : List Nat) :
    Wf.removeStaleLoop pc (n + 1) st ib =
      if C02Cu.staleCond pc st = true then
        (if ib.length < C02Cu.staleDrop then none else Wf.removeStaleLoop pc n (st + C02Cu.staleStep) (ib.drop C02Cu.staleDrop))
      else some (st, ib) := by
  simp only [Wf.removeStaleLoop, C02Cu.staleCond, C02Cu.staleDrop, C02Cu.staleStep, decide_eq_true_eq]
  rfl

/-! ## instructions executed by the scheduler itself -/

/-- **Wait rule.** The condition under which the model lets an `s_waitcnt vmcnt(vm) lgkmcnt(lgkm)` complete is
`evalSWaitCnt`'s `done`, and the condition under which `s_endpgm` completes is the negation of `evalSEndPgm`'s first
test, for all counter values. -/
theorem tie_wait_rule (cvm clgkm vm lgkm : Nat) :
    ((cvm ≤ vm ∧ clgkm ≤ lgkm) ↔ C02Cu.waitDone clgkm lgkm cvm vm = true) ∧
    ((cvm = 0 ∧ clgkm = 0) ↔ C02Cu.endpgmBlocked cvm clgkm = false) := by
  simp only [C02Cu.waitDone, C02Cu.endpgmBlocked, Bool.and_eq_true, Bool.not_eq_true', decide_eq_false_iff_not,
    Bool.or_eq_false_iff]
  omega

/-- the model's `complete` of an `s_waitcnt` / `s_endpgm`, with the generated conditions -/
theorem tie_tstep_wait (P : Wf.Prog) (gate : Wf.TState → Wf.Inst → Bool) (s : Wf.TState) (i : Wf.Inst) (vm lgkm : Nat)
    (hc : s.cur = some i) (hk : i.kind = .wait vm lgkm) :
    Wf.tstep P gate s .complete =
      if s.ph = .issued ∧ C02Cu.waitDone s.lgkm lgkm s.vm vm = true then Wf.advance s i else none := by
  have := (tie_wait_rule s.vm s.lgkm vm lgkm).1
  simp only [Wf.tstep, hc, hk, ← this]

theorem tie_tstep_endpgm (P : Wf.Prog) (gate : Wf.TState → Wf.Inst → Bool) (s : Wf.TState) (i : Wf.Inst)
    (hc : s.cur = some i) (hk : i.kind = .endpgm) :
    Wf.tstep P gate s .complete =
      if s.ph = .issued ∧ C02Cu.endpgmBlocked s.vm s.lgkm = false then some { s with ph := .done, cur := none } else none := by
  have := (tie_wait_rule s.vm s.lgkm 0 0).2
  simp only [Wf.tstep, hc, hk, ← this]

/-- non-vacuity of the two rules -/
example : C02Cu.waitDone 1 1 0 0 = true ∧ C02Cu.waitDone 2 1 0 0 = false ∧ C02Cu.waitDone 0 0 1 0 = false ∧
    C02Cu.endpgmBlocked 0 0 = false ∧ C02Cu.endpgmBlocked 0 1 = true := by decide

/-- **Internal opcodes.** `EvaluateInternalInst` has its own case for s_endpgm (1), s_barrier (10) and s_waitcnt (12)
— the model's `Kind.endpgm`, the barrier model (`C02.Bar`) and `Kind.wait` —; every other instruction issued to the
scheduler completes at once (`Kind.nop`). -/
theorem tie_internal_opcodes : C02Cu.internalOpcodes = [1, 10, 12] ∧
    C02Cu.internalHandlers = [(1, "evalSEndPgm"), (10, "evalSBarrier"), (12, "evalSWaitCnt")] := by decide

/-! ## command processor -/

/-- **Flush groups.** A driver flush goes to the L1I, L1S, L1V and L2 caches, in this order; the invalidation before a
kernel goes to the L1S and L1V caches (a sub-list of the flushed groups); `processLaunchKernelReq` first needs a free
dispatcher, then no cache acknowledgement outstanding, then no TLB shootdown in process (the guard added by the
repair of finding `C11-cp-launch-in-shootdown`; like the same guard of `processFlushReq` it is constantly false in
`C02.L1`, which has no shootdown — the interplay is C11's `cps_no_fault_full`), then runs the invalidation. -/
theorem tie_flush_groups :
    C02Cu.flushGroups = ["L1ICaches", "L1SCaches", "L1VCaches", "L2Caches"] ∧
    C02Cu.flushGuards = [("m.numCacheACK>0", "false"), ("m.shootDownInProcess", "false")] ∧
    C02Cu.invalidateGroups = ["L1SCaches", "L1VCaches"] ∧
    C02Cu.invalidateGroups.all (fun g => C02Cu.flushGroups.contains g) = true ∧
    C02Cu.invalidateGuards = [("m.l1InvalidatedFor==req", "m.l1InvalidatedFor=nil;return false"), ("m.numCacheACK==0", "false")] ∧
    C02Cu.invalidateBusyCheck = ["{ifd.IsDispatching(){returnfalse}}"] ∧
    C02Cu.launchGuards = [("d==nil", "false"), ("m.numCacheACK>0", "false"), ("m.shootDownInProcess", "false"),
      ("m.invalidateL1CachesBeforeKernel(req)", "true")] := by
  decide

end C02
