import MgpuProofs.C02Flat
import MgpuProofs.C02Smem
/-! # C02 — timing mode is functionally transparent (component equivalences)

Both modes execute instructions with the same `emu.ALU`; what differs is the code around it.
Each theorem pairs the model of an emulator routine with the model of the timing routine that
replaces it and states that they leave the same architectural state — for **all** EXEC masks,
address vectors, memory contents, register contents and **all orders in which the memory system
answers**. The models (`MgpuModel/C02.lean`) are tied to the real Go functions on every run by the
correspondence harness (real `cu.ComputeUnit` built by its builder, real `emu.ALUImpl`/`cdna3.ALU`).
Equality of two whole simulators is *not* proved here: that part of C02 is differential evidence.
-/
namespace C02

/-! ## wavefront register initialisation -/

/-- **init_regs_equiv.** For every combination of the ten `enable_sgpr_*` code properties, the three
    work-group-id enables, every dispatch packet / work-group id / code-object version / work-item-id
    enable / wavefront position, `emu.ComputeUnit.initWfRegs` and `cu.WfDispatcherImpl.initRegisters`
    issue the same SGPR writes and the same VGPR writes, hence leave equal register contents.
    (Holds for the repaired emulator, which now reserves the queue-pointer and
    private-segment-size SGPRs; see `init_regs_equiv_before_fix_refuted`.) -/
theorem init_regs_equiv (f : Flags) (a : Args) (v5 : Bool) (en first sx sy : Nat) (s v : St) :
    applyW (emuInitS f a) s = applyW (timingInitS f a) s ∧
    applyW (emuInitV v5 en first sx sy) v = applyW (timingInitV v5 en first sx sy) v := by
  refine ⟨rfl, ?_⟩
  have : emuInitV v5 en first sx sy = timingInitV v5 en first sx sy := by
    unfold emuInitV timingInitV
    cases v5 <;> simp
  rw [this]

/-- the flag set of `bitonicsort/kernels.hsaco` (private segment buffer, dispatch ptr, kernarg ptr) + ids -/
def demoFlags : Flags := ⟨true, true, false, true, false, false, false, false, false, false, true, true, false⟩
def demoArgs : Args := ⟨0x1111222233334444, 0x5555666677778888, 256, 4, 1, 64, 2, 1, 3, 1, 0⟩

example : (emuInitS demoFlags demoArgs).map (fun w => (w.cell.2, w.val)) =
    [(4, 0x33334444), (5, 0x11112222), (6, 0x77778888), (7, 0x55556666), (8, 3), (9, 1)] := by decide

/-- the statement for the emulator as it was (cursor not advanced for queue pointer / private segment size) -/
def init_regs_equiv_before_fix : Prop :=
  ∀ (f : Flags) (a : Args) (s : St), applyW (emuInitSOld f a) s = applyW (timingInitS f a) s

/-- refuted: queue pointer + kernarg pointer enabled — the emulator put the kernarg pointer in s[0:1],
    the dispatcher of the timing CU in s[2:3] (replayed on both real functions: `C02.init-regs-differ.queueptr`
    before the repair). -/
theorem init_regs_equiv_before_fix_refuted : ¬ init_regs_equiv_before_fix := by
  intro h
  have := congrFun (h ⟨false, false, true, true, false, false, false, false, false, false, false, false, false⟩
    demoArgs (fun _ => 0)) (0, 0)
  revert this
  decide

/-- before the repair the two agreed exactly outside {queue pointer, private segment size} -/
theorem init_regs_before_fix_partial (f : Flags) (a : Args) (hq : f.queuePtr = false)
    (hp : f.privSegSize = false) : emuInitSOld f a = timingInitS f a := by
  unfold emuInitSOld timingInitS initS
  simp [hq, hp]

/-! ## FLAT loads -/

/-- **coalesced_load_equiv.** For every load kind (ubyte, sbyte, ushort, sshort, dword), register
    count, destination, line size, EXEC mask, per-lane address vector, memory content and initial
    register file, and for **every order `ord` in which the line responses come back**: the
    transactions formed by `generateMemTransactions` followed by `handleVectorDataLoadReturn` write
    exactly what `runFlatLoad*` writes — provided no access runs over the end of its cache line
    (`loadStraddles = false`; always true for naturally aligned accesses). -/
theorem coalesced_load_equiv (k : LKind) (cnt dst ls exec : Nat) (addr : Nat → Nat) (m : Nat → Nat)
    (rf : St) (ord : List Nat)
    (hns : loadStraddles k ls (accesses (active exec addr) cnt) = false)
    (hord : ord.Perm (loadLines ls (accesses (active exec addr) cnt))) :
    timingLoad k dst ls m (accesses (active exec addr) cnt) ord rf =
      emuLoad k dst ls m (accesses (active exec addr) cnt) rf := by
  rw [timingLoad_eq_grouped _ _ _ _ _ _ _ hns]
  unfold emuLoad
  apply grouped_eq
  · exact hord.nodup_iff.mpr (dedup_nodup _)
  · intro w hw
    rw [hord.mem_iff, loadLines, mem_dedup]
    simp only [emuLoadW, List.mem_map] at hw ⊢
    obtain ⟨x, hx, rfl⟩ := hw
    exact ⟨x, hx, rfl⟩
  · intro w1 h1 w2 h2 hc
    simp only [emuLoadW, List.mem_map] at h1 h2
    obtain ⟨x1, hx1, rfl⟩ := h1
    obtain ⟨x2, hx2, rfl⟩ := h2
    simp only [Prod.mk.injEq] at hc
    have e1 := acc_addr hx1
    have e2 := acc_addr hx2
    have hj : x1.j = x2.j := by omega
    show lineOf ls x1.addr = lineOf ls x2.addr
    rw [e1, e2, hc.1, hj]

/-- dword-aligned dword loads satisfy the hypothesis whenever the line size is a multiple of 4 -/
theorem dwordAligned_noStraddle (cnt ls exec : Nat) (addr : Nat → Nat) (h4 : ls % 4 = 0) (hls : 0 < ls)
    (hal : ∀ i, addr i % 4 = 0) :
    loadStraddles .dword ls (accesses (active exec addr) cnt) = false := by
  simp only [loadStraddles, List.any_eq_false, decide_eq_true_eq]
  intro x hx
  have e := acc_addr hx
  have h1 : x.addr % 4 = 0 := by have := hal x.lane; omega
  have h2 : x.addr % ls % 4 = 0 := by rw [Nat.mod_mod_of_dvd _ (Nat.dvd_of_mod_eq_zero h4)]; exact h1
  have h3 : x.addr % ls < ls := Nat.mod_lt _ hls
  have hw : LKind.dword.width = 4 := rfl
  omega

/-- two active lanes, one dword each, in two different lines; responses in reverse order -/
def demoAddr : Nat → Nat := fun i => 60 + 8 * i
example : loadStraddles .dword 64 (accesses (active 3 demoAddr) 1) = false := by decide
example : loadLines 64 (accesses (active 3 demoAddr) 1) = [0, 64] := by decide
example : [64, 0].Perm (loadLines 64 (accesses (active 3 demoAddr) 1)) := by
  have : loadLines 64 (accesses (active 3 demoAddr) 1) = [0, 64] := by decide
  rw [this]; exact List.Perm.swap 0 64 []

/-- the full statement without the alignment hypothesis -/
def coalesced_load_full : Prop :=
  ∀ (k : LKind) (cnt dst ls exec : Nat) (addr : Nat → Nat) (m : Nat → Nat) (rf : St) (ord : List Nat),
    ord.Perm (loadLines ls (accesses (active exec addr) cnt)) →
    timingLoad k dst ls m (accesses (active exec addr) cnt) ord rf =
      emuLoad k dst ls m (accesses (active exec addr) cnt) rf

/-- refuted: a dword at offset 62 of a 64-byte line — the coalescer asks only for the line of the first
    byte, so the upper two bytes never arrive (the real return path slices past the response and
    panics; replayed: `C02.load-differs.dword.straddle`). -/
theorem coalesced_load_full_refuted : ¬ coalesced_load_full := by
  intro h
  have := congrFun (h .dword 1 8 64 1 (fun _ => 62) (fun _ => 1) (fun _ => 0) [0] (by decide)) (0, 8)
  revert this
  decide

/-- the return path before the repair (opcode 18 → one byte; 17, 19 → raw dword) against the same
    emulator: memory AA BB CC DD, lane 0, `flat_load_ushort` gives 0xAA instead of 0xBBAA and
    `flat_load_sbyte` gives 0xDDCCBBAA instead of 0xFFFFFFAA (the reproduced defect, now repaired). -/
theorem coalesced_load_before_fix_differs :
    let m : Nat → Nat := fun a => [0xAA, 0xBB, 0xCC, 0xDD].getD a 0
    let accs := accesses (active 1 (fun _ => 0)) 1
    timingLoadOld .ushort 8 64 m accs [0] (fun _ => 0) (0, 8) = 0xAA ∧
    emuLoad .ushort 8 64 m accs (fun _ => 0) (0, 8) = 0xBBAA ∧
    timingLoadOld .sbyte 8 64 m accs [0] (fun _ => 0) (0, 8) = 0xDDCCBBAA ∧
    emuLoad .sbyte 8 64 m accs (fun _ => 0) (0, 8) = 0xFFFFFFAA := by
  decide

/-! ## FLAT stores -/

/-- **coalesced_store_equiv.** For every store width `bw` (1 = flat_store_byte, 2 = flat_store_short,
    4 = dword stores), register count, EXEC mask, address vector, data and memory:
    the per-line write requests built by the coalescer (bytes merged lane-ascending, dirty mask =
    touched bytes), applied by the memory in **any** order `ord`, leave the memory the emulator's
    lane-ascending `runFlatStore*` leaves — whether or not lanes overlap (overlapping bytes always lie
    in the same line, where both sides resolve them lane-ascending) — provided no stored element runs
    over the end of its line (then the real coalescer panics: `C02.store-differs.*.straddle`). Both
    sides write the same `bw` low bytes of each data register (the coalescer after the repair of
    `generateWriteReqs`; see `byte_store_before_fix_differs`). -/
theorem coalesced_store_equiv (ls bw cnt exec : Nat) (addr : Nat → Nat) (data : Nat → Nat → Nat) (m : St)
    (ord : List Nat) (hls : 0 < ls)
    (hns : storeStraddles ls bw cnt (active exec addr) = false)
    (hord : ord.Perm (storeLines ls cnt (active exec addr))) :
    timingStore ls bw cnt (active exec addr) data ord m = emuStore ls bw cnt (active exec addr) data m := by
  unfold timingStore emuStore
  apply grouped_eq
  · exact hord.nodup_iff.mpr (dedup_nodup _)
  · intro w hw
    rw [hord.mem_iff, storeLines, mem_dedup]
    obtain ⟨x, hx, _, _, hk, _⟩ := mem_storeW hw
    exact List.mem_map.mpr ⟨x, hx, hk.symm⟩
  · intro w1 h1 w2 h2 hc
    rw [store_key_of_cell hls hns h1, store_key_of_cell hls hns h2, hc]

/-- a write request as the memory sees it (Data + DirtyMask = last byte per touched offset) has the
    effect of its byte writes in merge order -/
theorem store_request_summary (r : List Wr) (m : St) : applyReq (summ r) m = applyW r m :=
  applyReq_summ r m

/-- two lanes storing overlapping dwords (addresses 4 and 6) plus one in the next line -/
def demoSAddr : Nat → Nat := fun i => if i = 0 then 4 else if i = 1 then 6 else 64
example : storeStraddles 64 4 1 (active 7 demoSAddr) = false := by decide
example : storeLines 64 1 (active 7 demoSAddr) = [0, 64] := by decide

/-- after the repairs both sides implement the same FLAT opcodes with the same widths: every load opcode
    16–23 (the emulator lacked 19 = sshort and 22 = dwordx3: `C02.unsupported.emu.*`), and the stores
    24, 26, 28–31 through one `storeOp` table. -/
theorem flat_opcodes_agree (opc : Nat) : emuHasLoad opc = (loadOp opc).isSome := rfl

theorem flat_load_before_fix_unsupported :
    emuHasLoadOld 19 = false ∧ emuHasLoadOld 22 = false ∧ (loadOp 19).isSome ∧ (loadOp 22).isSome := by decide

/-- the coalescer before the repair (`storeOpTimingOld`: the whole data dword for opcodes 24 and 26):
    `flat_store_byte` of 0x11223344 to address 0 left 0x33 in byte 1 in timing mode, the emulator
    (and the hardware) leave that byte alone. -/
theorem byte_store_before_fix_differs :
    storeOp 24 = some (1, 1) ∧ storeOpTimingOld 24 = some (4, 1) ∧
    timingStore 64 4 1 (active 1 (fun _ => 0)) (fun _ _ => 0x11223344) [0] (fun _ => 0) (0, 1) = 0x33 ∧
    emuStore 64 1 1 (active 1 (fun _ => 0)) (fun _ _ => 0x11223344) (fun _ => 0) (0, 1) = 0 := by
  decide

/-! ## SMEM loads -/

/-- **scalar_load_equiv.** `executeSMEMLoad` splits an n-byte scalar load (n = 4, 8, 16, 32, 64 — any
    multiple of 4) at cache-line boundaries; `handleScalarDataLoadReturn` writes each chunk to
    `sdst + (addr - start)/4 …`. For a dword-aligned start and **any order of the chunk responses**
    the SGPRs equal what `runSLOADDWORD*` writes. -/
theorem scalar_load_equiv (ls reg start n : Nat) (m : Nat → Nat) (s : St) (ord : List (Nat × Nat))
    (hls : 0 < ls) (h4 : ls % 4 = 0) (hs : start % 4 = 0) (hn : n % 4 = 0)
    (hord : ord.Perm (chunks ls (n + 1) start n)) :
    timingSmem reg start m ord s = emuSmem reg start n m s := by
  unfold timingSmem emuSmem
  rw [foldl_applyW_flatMap]
  have hcw := chunks_writes ls reg start m hls h4 hs (n + 1) 0 (n / 4) (by omega)
  have e1 : start + 4 * 0 = start := by omega
  have e2 : 4 * (n / 4) = n := by omega
  rw [e1, e2] at hcw
  have hp : (ord.flatMap (chunkW reg start m)).Perm ((chunks ls (n + 1) start n).flatMap (chunkW reg start m)) :=
    hord.flatMap_right _
  rw [smemEmuW_eq, ← hcw]
  apply applyW_perm hp
  have hnd := smem_cells_nodup reg start (n / 4) m
  rw [← hcw] at hnd
  exact (hp.map _).nodup_iff.mpr hnd

/-- **scalar_load_equiv_any_address.** Both modes now clear the two low address bits (`smemAddr`, ISA:
    `m_addr = (SGPR[SBASE] + offset) & ~0x3`), so the equivalence needs no alignment hypothesis: for
    **every** byte address, every multiple-of-4 size and every order of the chunk responses the scalar
    unit of the timing CU writes what the emulator writes. -/
theorem scalar_load_equiv_any_address (ls reg addr n : Nat) (m : Nat → Nat) (s : St) (ord : List (Nat × Nat))
    (hls : 0 < ls) (h4 : ls % 4 = 0) (hn : n % 4 = 0)
    (hord : ord.Perm (chunks ls (n + 1) (smemAddr addr) n)) :
    timingSmem reg (smemAddr addr) m ord s = emuSmem reg (smemAddr addr) n m s :=
  scalar_load_equiv ls reg (smemAddr addr) n m s ord hls h4 (by unfold smemAddr; omega) hn hord

/-- the chunks of an aligned start are whole dwords: the return path (`RegCount = len/4`) cannot fault -/
example : smemAddr 62 = 60 ∧ chunks 64 9 (smemAddr 62) 8 = [(60, 4), (64, 4)] ∧
    smemFaults (chunks 64 9 (smemAddr 62) 8) = false := by decide

/-- before the repair neither mode cleared the low bits: `s_load_dwordx2` at byte 62 of a line was cut
    into chunks of 2 and 6 bytes; the 2-byte response has `RegCount = 0`, which the register file turns
    into 1 and slices 4 bytes of a 2-byte buffer (panic) — was replayed as `C02.smem-differs.unaligned`. -/
theorem scalar_load_unaligned_before_fix_faults :
    chunks 64 9 62 8 = [(62, 2), (64, 6)] ∧ smemFaults (chunks 64 9 62 8) = true := by decide

/-- `s_load_dwordx8` starting 16 bytes before a line boundary: two chunks -/
example : chunks 64 33 48 32 = [(48, 16), (64, 16)] := by decide

/-- **scalar_opcodes_agree.** After the repair of `executeSMEMInst` (case 4 added) the scalar unit of the
    timing CU executes exactly the opcodes the emulator executes, with the same byte counts — so
    `scalar_load_equiv` (any multiple of 4 bytes) covers `s_load_dword` … `s_load_dwordx16`. -/
theorem scalar_opcodes_agree (op : Nat) : smemTimingBytes op = smemEmuBytes op := by
  unfold smemTimingBytes smemEmuBytes
  split <;> rfl

/-- `s_load_dwordx16` at a line-aligned address: one 64-byte chunk; 16 bytes further: two chunks -/
example : chunks 64 65 128 64 = [(128, 64)] ∧ chunks 64 65 144 64 = [(144, 48), (192, 16)] := by decide

/-- before the repair `s_load_dwordx16` existed in the emulator only (`executeSMEMInst` had no case 4):
    a program using it could not run in timing mode — was replayed as `C02.unsupported.timing.s_load_dwordx16`. -/
theorem scalar_x16_timing_before_fix_unsupported :
    smemEmuBytes 4 = some 64 ∧ smemTimingBytesOld 4 = none := ⟨rfl, rfl⟩

/-! ## outstanding-access counter -/

/-- **outstanding_counter_sound.** Start from an idle wavefront; issue any number of vector memory
    instructions (each coalesced into any number of transactions) interleaved with responses. If the
    responses arrive in request order (what the reorder buffer in front of every shipped CU guarantees,
    property C15), then whenever `OutstandingVectorMemAccess` reads 0, no transaction of any issued
    instruction is still in flight — `s_waitcnt vmcnt(0)` cannot release early. -/
theorem outstanding_counter_sound (ops : List COp) (hio : inOrder ops {}) :
    (crun ops {}).counter = 0 → (crun ops {}).inflight = [] := by
  have hinv : CInv ({} : CSt) := ⟨Or.inl rfl, rfl⟩
  exact cinv_zero _ (cinv_run ops {} hinv hio)

example : inOrder [.issue 2, .issue 1, .ret 0, .ret 1, .ret 2] {} := by
  simp [inOrder, cstep, mkTxns, removeFirst, List.range, List.range.loop]

/-- the same statement without the in-order hypothesis -/
def outstanding_counter_any_order : Prop :=
  ∀ ops : List COp, (crun ops {}).counter = 0 → (crun ops {}).inflight = []

/-- refuted (modelling fact, not a finding: every shipped platform puts a ROB in front): one
    instruction, two transactions, the last-issued one answered first — the counter reads 0 while the
    first transaction is still in flight (replayed on the real CU: `fact:counter-zero-while-inflight`). -/
theorem outstanding_counter_any_order_refuted : ¬ outstanding_counter_any_order := by
  intro h
  have := h [.issue 2, .ret 1] (by decide)
  revert this
  decide

end C02
