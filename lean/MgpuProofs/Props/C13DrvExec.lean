import MgpuProofs.C13DrvExec
/-!
# C13 — the instruction bytes are in device memory when the launch command is reached

Property theorems over the execution model of `MgpuModel/C13Drv.lean` (`exec`: every queue is FIFO,
the queues interleave in any order, memory is per process).  Definitions of the hypotheses
(`WFX`, `ConsistentX`, `ConsistentL`, `OneQueuePerObjectX`, `DisjointAllocs`) and all lemmas are in
`MgpuProofs/C13DrvExec.lean`.
-/
namespace C13
namespace Drv

/-- Core form (weakest hypotheses).  For EVERY interleaving `sched` of the queues, every launch — and
every per-GPU part of a unified launch — that the command processor reaches finds the `Data` of its
code object at `[KernelObject, KernelObject+len)` of its process's address space, provided
* `WFX`: a launch names a queue that exists when it is issued,
* `ConsistentL`: two ordinary launches with the same object id carry the same object,
* `OneQueuePerObjectX`: an object is launched (ordinary launches) through one queue only,
* `DisjointAllocs`: the allocator never hands out overlapping buffers inside one process (C10).
Nothing is asked of unified launches beyond `WFX` and the disjointness of their buffers. -/
theorem code_present_at_launch_core (ops : List Op) (sched : List Nat)
    (wf : WFX ops) (con : ConsistentL ops) (one : OneQueuePerObjectX ops)
    (dis : DisjointAllocs (run ops).allocs) :
    ∀ x ∈ (exec (run ops) sched).seen, x.present = true :=
  (dinv_exec (run ops) (sfacts_run ops wf con one dis) sched).seen

/-- The requested form: as `code_present_at_launch_core`, with consistency asked of the code objects
of all launches, unified or not (`ConsistentX` implies `ConsistentL`). -/
theorem code_present_at_launch (ops : List Op) (sched : List Nat)
    (wf : WFX ops) (con : ConsistentX ops) (one : OneQueuePerObjectX ops)
    (dis : DisjointAllocs (run ops).allocs) :
    ∀ x ∈ (exec (run ops) sched).seen, x.present = true :=
  code_present_at_launch_core ops sched wf (consistentL_of_X ops con) one dis

/-- What `present` means: the flag recorded for an ordinary launch is `codeAt` of the memory at the
moment the launch is taken from its queue (`pid` = the queue's process). -/
theorem execCmd_launch_present (pid q : Nat) (e : Exec) (co len ko ka dp : Nat) :
    (execCmd pid q e (.launch co len ko ka dp)).seen =
      e.seen ++ [⟨q, co, ko, decide (codeAt e.mem pid ko co len)⟩] := rfl

/-! ## the hypotheses are needed -/

/-- the statement without `OneQueuePerObjectX` -/
def code_present_full : Prop :=
  ∀ ops sched, WFX ops → ConsistentX ops → DisjointAllocs (run ops).allocs →
    ∀ x ∈ (exec (run ops) sched).seen, x.present = true

/-- the history of the refutation: one process, two queues, the same object through both -/
def refOps : List Op :=
  [.newQueue 1, .newQueue 1, .launch 0 1 ⟨7, 64, 16, 0⟩ [4096, 8192, 12288],
   .launch 1 2 ⟨7, 64, 16, 0⟩ [16384, 20480]]

/-- Without `OneQueuePerObjectX` the statement is false: the second queue's launch of the cached
object carries no copy of the code; when that queue runs first (`[1, 1, 1]`) its launch finds
nothing at 4096.  This is the driver's `codeObjGPUAddrs` cache, keyed by the object pointer only. -/
theorem code_present_full_refuted : ¬ code_present_full := by
  intro h
  have h1 := h refOps [1, 1, 1] (by decide) (by decide) (by decide +kernel)
    ⟨1, 7, 4096, false⟩ (by decide +kernel)
  cases h1

/-- the history of `disjoint_is_needed`: the kernarg buffer is handed out at the address of the
code -/
def overlapOps : List Op := [.newQueue 1, .launch 0 1 ⟨7, 64, 16, 0⟩ [4096, 4096, 8192]]

/-- Without `DisjointAllocs` the statement is false, even with one queue: the copy of the kernel
arguments overwrites the first bytes of the code before the launch is reached. -/
theorem disjoint_is_needed :
    ¬ (∀ ops sched, WFX ops → ConsistentX ops → OneQueuePerObjectX ops →
        ∀ x ∈ (exec (run ops) sched).seen, x.present = true) := by
  intro h
  have h1 := h overlapOps [0, 0, 0, 0] (by decide) (by decide) (by decide)
    ⟨0, 7, 4096, false⟩ (by decide +kernel)
  cases h1

/-- Without `WFX` the statement is false: a launch on a queue that does not exist yet fills the
cache (and allocates) but enqueues nothing; the next launch trusts the cache. -/
theorem wf_is_needed_exec :
    ¬ (∀ ops sched, ConsistentX ops → OneQueuePerObjectX ops → DisjointAllocs (run ops).allocs →
        ∀ x ∈ (exec (run ops) sched).seen, x.present = true) := by
  intro h
  have h1 := h [.launch 0 1 ⟨7, 64, 16, 0⟩ [4096, 8192, 12288], .newQueue 1,
      .launch 0 1 ⟨7, 64, 16, 0⟩ [16384, 20480]] [0, 0, 0]
    (by decide) (by decide) (by decide +kernel) ⟨0, 7, 4096, false⟩ (by decide +kernel)
  cases h1

/-- Without consistency the statement is false: the cache is keyed by the id only, so a second
object with the same id and a longer `Data` is launched on the shorter copy. -/
theorem consistent_is_needed_exec :
    ¬ (∀ ops sched, WFX ops → OneQueuePerObjectX ops → DisjointAllocs (run ops).allocs →
        ∀ x ∈ (exec (run ops) sched).seen, x.present = true) := by
  intro h
  have h1 := h [.newQueue 1, .launch 0 1 ⟨7, 64, 16, 0⟩ [4096, 8192, 12288],
      .launch 0 1 ⟨7, 128, 16, 0⟩ [16384, 20480]] [0, 0, 0, 0, 0, 0, 0]
    (by decide) (by decide) (by decide +kernel) ⟨0, 7, 4096, false⟩ (by decide +kernel)
  cases h1

/-- the refuting histories do violate exactly the hypothesis that was dropped -/
example : ¬ OneQueuePerObjectX refOps := by decide
example : OneQueuePerObjectX overlapOps ∧ ¬ DisjointAllocs (run overlapOps).allocs := by
  decide +kernel

/-! ## the hypotheses are met by a non-trivial history -/

def coA : Co := ⟨7, 64, 16, 0⟩
def coB : Co := ⟨9, 128, 32, 8⟩

/-- two queues of one process, two objects, a cached re-launch of `coA` in its queue, a unified
launch of `coB` over GPUs 1 and 2 (the object is also launched the ordinary way: allowed) -/
def exOps : List Op :=
  [.newQueue 1, .newQueue 1,
   .launch 0 1 coA [4096, 8192, 12288],
   .launch 1 2 coB [16384, 20480, 24576],
   .launch 0 1 coA [28672, 32768],
   .launchUnified 1 [1, 2] coB [36864, 40960, 45056, 49152, 53248, 57344]]

/-- the two queues alternate until queue 0 is empty -/
def exSched : List Nat := [0, 1, 0, 1, 0, 1, 0, 1, 0, 1, 0, 1, 0, 1, 1, 1, 1, 1]

example : WFX exOps := by decide
example : ConsistentX exOps := by decide
example : OneQueuePerObjectX exOps := by decide
example : DisjointAllocs (run exOps).allocs := by decide +kernel

/-- the theorem instantiates -/
example : ∀ x ∈ (exec (run exOps) exSched).seen, x.present = true :=
  code_present_at_launch exOps exSched (by decide) (by decide) (by decide) (by decide +kernel)

/-- and it is not vacuous: five launches are reached (two first launches, the cached one, the two
parts of the unified one), all queues are drained -/
example : (exec (run exOps) exSched).seen =
    [⟨0, 7, 4096, true⟩, ⟨1, 9, 16384, true⟩, ⟨0, 7, 4096, true⟩,
     ⟨1, 9, 36864, true⟩, ⟨1, 9, 49152, true⟩] := by decide +kernel
example : (exec (run exOps) exSched).queues.map (·.cmds.length) = [0, 0] := by decide +kernel
example : (run exOps).queues.map (·.cmds.length) = [7, 11] := by decide +kernel

end Drv
end C13
