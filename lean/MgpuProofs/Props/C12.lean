import MgpuProofs.C12
/-!
# C12 — command queues are FIFO and waiting on them always terminates

Property theorems. `C12.step` is the interleaving model of the REPAIRED protocol (after the two
`fix:` commits: `Listener.signal` has capacity 1; `runEngine` re-runs when `enginePending` is set);
`C12.Orig.step` transcribes the protocol BEFORE the fixes and is only the subject of the two
`…_refuted_original` theorems; `C12.Q` is head-of-queue processing over several queues.
All statements quantify over every number of commands, every number of drain rounds and every
interleaving (`Reach` = reachable by any schedule from any initial script).
-/
namespace C12

/-- **FIFO (protocol model).** In every reachable state, under every interleaving, the commands
    submitted so far are exactly the completed ones followed by the queued ones, in submission
    order: commands complete one at a time, in order, none is lost or duplicated. -/
theorem fifo {s : St} (h : Reach s) : s.submitted = s.completed ++ s.cmds :=
  (fifo_reach h).split

/-- **FIFO, step form.** One step of any thread either leaves the completion log unchanged or appends
    exactly the head of the queue to it (and removes it from the queue). -/
theorem fifo_one_at_a_time (s s' : St) (t : Th) (hs : step s t = some s') :
    (s'.completed = s.completed ∧ (s'.cmds = s.cmds ∨ ∃ c, s'.cmds = s.cmds ++ [c])) ∨
    (∃ c cs, s.cmds = c :: cs ∧ s'.cmds = cs ∧ s'.completed = s.completed ++ [c]) := by
  cases t <;> simp only [step] at hs
  · split at hs
    · split at hs
      · simp at hs
      · injection hs with hs; subst hs; simp
      · injection hs with hs; subst hs; simp
    · split at hs <;> (injection hs with hs; subst hs; simp)
    · simp at hs
    · split at hs <;> (injection hs with hs; subst hs; simp)
    · split at hs <;> (injection hs with hs; subst hs; simp)
    · simp at hs
  · split at hs
    · simp at hs
    · split at hs
      · simp at hs
      · injection hs with hs; subst hs; simp
    · by_cases hrun : s.running = true <;> by_cases hsend : s.a = .sending <;>
        simp only [hrun, hsend, if_true, if_false] at hs <;>
        (injection hs with hs; subst hs; simp)
  · split at hs
    · simp at hs
    · injection hs with hs; subst hs; simp
    · split at hs <;> (injection hs with hs; subst hs; simp)
    · split at hs
      · injection hs with hs; subst hs; simp
      · rename_i c cs hc
        injection hs with hs; subst hs
        exact Or.inr ⟨c, cs, hc, rfl, rfl⟩
    · split at hs
      · split at hs <;> (injection hs with hs; subst hs; simp)
      · injection hs with hs; subst hs; simp
    · injection hs with hs; subst hs; simp
    · split at hs <;> (injection hs with hs; subst hs; simp)

/-- **Drain safety.** Whenever a `DrainCommandQueue` call returns (the step that increments
    `returned`), the queue is empty and every command submitted so far has completed, in
    submission order. -/
theorem drain_returns_only_when_empty {s s' : St} (h : Reach s) (t : Th) (hs : step s t = some s')
    (hret : s'.returned = s.returned + 1) : s'.cmds = [] ∧ s'.completed = s'.submitted := by
  have hf := fifo (Reach.step t h hs)
  have hc : s'.cmds = [] := by
    cases t <;> simp only [step] at hs
    · split at hs
      · split at hs
        · simp at hs
        · injection hs with hs; subst hs; simp at hret
        · injection hs with hs; subst hs; simp at hret
      · split at hs <;> (injection hs with hs; subst hs; simp at hret)
      · simp at hs
      · split at hs
        · rename_i hc; injection hs with hs; subst hs; exact hc
        · injection hs with hs; subst hs; simp at hret
      · split at hs <;> (injection hs with hs; subst hs; simp at hret)
      · simp at hs
    · split at hs
      · simp at hs
      · split at hs
        · simp at hs
        · injection hs with hs; subst hs; simp at hret
      · by_cases hrun : s.running = true <;> by_cases hsend : s.a = .sending <;>
          simp only [hrun, hsend, if_true, if_false] at hs <;>
          (injection hs with hs; subst hs; simp at hret)
    · split at hs
      · simp at hs
      · injection hs with hs; subst hs; simp at hret
      · split at hs <;> (injection hs with hs; subst hs; simp at hret)
      · split at hs <;> (injection hs with hs; subst hs; simp at hret)
      · split at hs
        · split at hs <;> (injection hs with hs; subst hs; simp at hret)
        · injection hs with hs; subst hs; simp at hret
      · injection hs with hs; subst hs; simp at hret
      · split at hs <;> (injection hs with hs; subst hs; simp at hret)
  exact ⟨hc, by rw [hf, hc]; simp⟩

/-- **Deadlock freedom (full statement, repaired protocol).** For every number of commands and
    drain rounds and every interleaving: a reachable state in which no thread can move is one
    where the application thread has finished its whole script — there is no lost wake-up. -/
theorem no_stuck_state {s : St} (h : Reach s) (hst : stuck s) : finished s :=
  no_stuck_of_inv s (inv_reach h) hst

/-- **No blocked waiter without a mover.** If the application thread is blocked inside
    `DrainCommandQueue` (in `Wait` or in the send on `enqueueSignal`), some thread can move. -/
theorem blocked_waiter_has_mover {s : St} (h : Reach s) (hb : appBlocked s) : ∃ t s', step s t = some s' := by
  refine Classical.byContradiction fun hn => ?_
  have hst : stuck s := by
    intro t
    cases hstep : step s t with
    | none => rfl
    | some s' => exact absurd ⟨t, s', hstep⟩ hn
  have hfin := no_stuck_state h hst
  rcases hb with hb | hb <;> simp [finished, hb] at hfin

/-- every step of every thread decreases the weighted lexicographic measure
    (script left, commands queued, pc ranks, pending tokens/events/flags) -/
theorem measure_decreases {s s' : St} (h : Reach s) (t : Th) (hs : step s t = some s') : measure s' < measure s :=
  measure_step s s' t (inv_reach h).deq_live hs

/-- all maximal executions from `s` of length ≤ `n` end with every drain returned -/
def AllRunsFinish : Nat → St → Prop
  | 0, s => finished s
  | n + 1, s => finished s ∨ ((∃ t s', step s t = some s') ∧ ∀ t s', step s t = some s' → AllRunsFinish n s')

/-- **Termination.** From every reachable state, however the threads are interleaved, within
    `measure s` steps the application thread has returned from all its `DrainCommandQueue` calls:
    no schedule can postpone a drain forever, and none gets stuck before. -/
theorem drain_terminates {s : St} (h : Reach s) : ∀ n, measure s ≤ n → AllRunsFinish n s := by
  intro n
  induction n generalizing s with
  | zero =>
    intro hm
    refine no_stuck_state h fun t => ?_
    cases hstep : step s t with
    | none => rfl
    | some s' => have := measure_decreases h t hstep; omega
  | succ n ih =>
    intro hm
    by_cases hfin : finished s
    · exact Or.inl hfin
    · refine Or.inr ⟨?_, ?_⟩
      · refine Classical.byContradiction fun hn => hfin (no_stuck_state h fun t => ?_)
        cases hstep : step s t with
        | none => rfl
        | some s' => exact absurd ⟨t, s', hstep⟩ hn
      · intro t s' hstep
        have := measure_decreases h t hstep
        exact ih (Reach.step t h hstep) (by omega)

/-- every schedule is at most `measure` steps long -/
theorem schedule_length_bounded (ts : List Th) : ∀ {s s' : St}, Reach s → runSched s ts = some s' →
    ts.length + measure s' ≤ measure s := by
  induction ts with
  | nil => intro s s' _ hr; simp [runSched] at hr; subst hr; simp
  | cons t ts ih =>
    intro s s' h hr
    simp only [runSched] at hr
    cases hstep : step s t with
    | none => simp [hstep] at hr
    | some s1 =>
      simp only [hstep] at hr
      have h1 := ih (Reach.step t h hstep) hr
      have h2 := measure_decreases h t hstep
      simp only [List.length_cons]; omega

/-! The hypotheses are met by non-trivial states: the gate-level image of the schedule that
    loses the notification before the fix reaches, on the repaired model, a state where the
    notification is buffered (token) and the waiter can still move. -/
example : ∃ s, runSched (init [1]) [.app, .app, .app, .async, .async, .app, .eng, .eng, .eng, .eng] = some s ∧
    s.a = .toWait ∧ s.token = true ∧ s.cmds = [] ∧ ¬ stuck s := by
  refine ⟨_, rfl, rfl, rfl, rfl, ?_⟩
  intro h; have := h .app; simp [step] at this

example : Reach (init [2, 0, 1]) := Reach.init _
example : measure (init [2, 0, 1]) = 78 := by decide

/-! ## The protocol before the two fixes (documentation of the repaired defects) -/

/-- full deadlock-freedom statement for the ORIGINAL (pre-fix) protocol -/
def no_stuck_state_original : Prop :=
  ∀ (n : Nat) (rounds : List Nat) (ts : List Orig.Th) (s : Orig.St),
    Orig.runSched { cmds := n, rounds := rounds } ts = some s → Orig.stuck s = true → Orig.finished s = true

/-- **Pre-fix defect 1 (lost notification), about the ORIGINAL protocol only.** With an unbuffered
    `signal`, the `Notify` of the last `Dequeue` can fall between `NumCommand() != 0` and `Wait()`;
    the waiter then sleeps forever with an empty queue. Repaired by `fix:` commit 1. -/
theorem lost_notification_refuted_original :
    ∃ s, Orig.runSched { cmds := 1, rounds := [] } Orig.lostNotify = some s ∧
      Orig.stuck s = true ∧ Orig.finished s = false ∧ s.a = .waiting ∧ s.cmds = 0 := by
  refine ⟨_, rfl, ?_, ?_, ?_, ?_⟩ <;> decide

/-- **Pre-fix defect 2 (engine-exit race), about the ORIGINAL protocol only.** `Engine.Run` has
    returned but `engineRunning` is still set when `runAsync` schedules the next tick, so no engine
    is started; the waiter sleeps with a command queued and an event pending. Repaired by `fix:` commit 2. -/
theorem engine_exit_race_refuted_original :
    ∃ s, Orig.runSched { cmds := 1, rounds := [1] } Orig.engineExitRace = some s ∧
      Orig.stuck s = true ∧ Orig.finished s = false ∧ s.a = .waiting ∧ s.cmds = 1 ∧ s.evt = true ∧ s.running = false := by
  refine ⟨_, rfl, ?_, ?_, ?_, ?_, ?_, ?_⟩ <;> decide

/-- the full statement is false of the ORIGINAL protocol (it holds of the repaired one: `no_stuck_state`) -/
theorem no_stuck_state_refuted_original : ¬ no_stuck_state_original := by
  intro h
  obtain ⟨s, hs, hst, hfin, _⟩ := lost_notification_refuted_original
  have := h 1 [] Orig.lostNotify s hs hst
  rw [hfin] at this
  exact absurd this (by decide)

/-! ## Several queues: FIFO, one at a time, isolation -/
namespace Q

/-- **FIFO per queue, for all op sequences and any number of queues.** After any sequence of
    enqueues (to any queue), ticks and kernel responses: for every queue, the submitted ids are the
    completed ids followed by the queued ids (submission order, nothing lost or duplicated), and
    the started ids are the completed ids plus, exactly when `IsRunning` is set, the head of the
    queue — commands of one queue start and complete one at a time, in submission order. -/
theorem fifo (n : Nat) (ops : List Op) (q : Queue) (hq : q ∈ (run (init n) ops).qs) :
    q.sub = q.done ++ q.cmds.map (·.id) ∧
    ((q.running = false ∧ q.started = q.done) ∨
     (q.running = true ∧ ∃ c cs, q.cmds = c :: cs ∧ q.started = q.done ++ [c.id])) := by
  have h := qinv_run (init n) ops (qinv_init n) q hq
  refine ⟨h.split, ?_⟩
  cases hr : q.running
  · left; refine ⟨rfl, ?_⟩; simpa [hr] using h.one
  · right
    refine ⟨rfl, ?_⟩
    cases hc : q.cmds with
    | nil => exact absurd hc (h.run_ne hr)
    | cons c cs => exact ⟨c, cs, rfl, by simpa [hr, hc] using h.one⟩

/-- **Isolation.** An enqueue to, or a response for, queue `i` leaves every other queue untouched;
    a tick transforms each queue by a function of that queue alone. -/
theorem isolation (s : St) (i j : Nat) (hij : j ≠ i) (k : Kind) :
    (step s (.enq i k)).qs[j]? = s.qs[j]? ∧ (step s (.rsp i)).qs[j]? = s.qs[j]? ∧
    (step s .tick).qs[j]? = (s.qs[j]?).map procQueue := by
  refine ⟨?_, ?_, ?_⟩
  · simp only [step]
    split
    · exact updAt_get_ne _ _ _ _ hij
    · rfl
  · exact updAt_get_ne _ _ _ _ hij
  · simp [step]

/-- the targeted queue changes by the per-queue function only -/
theorem targeted (s : St) (i : Nat) (k : Kind) (hi : i < s.qs.length) :
    (step s (.enq i k)).qs[i]? = (s.qs[i]?).map (enqQueue s.nextId k) ∧
    (step s (.rsp i)).qs[i]? = (s.qs[i]?).map rspQueue := by
  refine ⟨?_, updAt_get_eq _ _ _⟩
  simp only [step, hi, if_true]
  exact updAt_get_eq _ _ _

/-- `targeted` needs no hypothesis on the index: an operation aimed at a queue that does not exist
    changes nothing (`Driver.Enqueue` on a queue the driver does not know is not modelled as a fault) -/
theorem targeted_any_index (s : St) (i : Nat) (k : Kind) :
    (step s (.enq i k)).qs[i]? = (s.qs[i]?).map (enqQueue s.nextId k) ∧
    (step s (.rsp i)).qs[i]? = (s.qs[i]?).map rspQueue := by
  by_cases hi : i < s.qs.length
  · exact targeted s i k hi
  · refine ⟨?_, updAt_get_eq _ _ _⟩
    simp [step, hi]

example : (run (init 2) [.enq 0 .kern, .enq 1 .noop, .enq 0 .noop, .tick, .tick, .rsp 0, .tick]).qs.map showQ
    = ["/1,3/1,3", "/2/2"] := by decide

end Q

end C12
