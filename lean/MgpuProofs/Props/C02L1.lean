import MgpuProofs.C02L1Lemmas
/-! # C02 — private L1 caches across kernel boundaries

The timing platform reads global memory through one write-around L1 vector cache per compute unit;
nothing keeps these caches coherent. The emulator reads one flat memory. `MgpuModel/C02L1.lean` models
the command processor's kernel-launch path (with the repair made for this property: an invalidation of
all L1 scalar/vector caches before a kernel starts on an idle GPU), the caches and the memory.

* `serial_kernels_read_flat_memory`: with the repaired command processor, kernels that do not overlap and
  are race-free read exactly what the emulator reads and leave the same memory;
* each hypothesis is necessary: `stale_l1_before_fix` (the command processor as it was — the defect behind
  the bitonicsort / pagerank / floydwarshall mismatches), `overlapping_kernels_stale` (two queues),
  `race_breaks_l1_transparency` (a racy kernel);
* facts about the command processor alone (`kernel_start_waits_for_acks`, `invalidation_precedes_idle_start`,
  `flush_unchanged_by_fix`, `old_cp_is_fix_without_l1`) and the liveness of the new handshake
  (`launch_starts_within_bounded_ticks`).
-/
namespace C02.L1

/-! ## the witness runs (line size 8: addresses 0 and 4 share a line) -/

def mem0 : Mem := fun _ => 0

/-- old command processor, one dispatcher, two compute units. Kernel 0: cu0 reads 0, cu1 writes 7 to 4;
    kernel 1: cu0 reads 4. -/
def evsStaleOld : List Ev :=
  [.arrive (.launch 0), .tick, .acc 0 (.rd 0 0), .acc 0 (.wr 1 4 7), .done 0,
   .arrive (.launch 1), .tick, .acc 0 (.rd 0 4), .done 0]

/-- the same run on the repaired command processor: after each launch's first tick the two caches perform
    their flush requests and two more ticks consume the acknowledgements and start the kernel -/
def evsStaleFix : List Ev :=
  [.arrive (.launch 0), .tick, .cacheDo 0, .cacheDo 1, .tick, .tick,
   .acc 0 (.rd 0 0), .acc 0 (.wr 1 4 7), .done 0,
   .arrive (.launch 1), .tick, .cacheDo 0, .cacheDo 1, .tick, .tick, .acc 0 (.rd 0 4), .done 0]

/-- repaired command processor, two dispatchers, three compute units. Kernel A (request 0) runs on
    dispatcher 0 from the start to the end; meanwhile on dispatcher 1: K0 (cu0 reads 0), B1 (cu1 writes 7
    to 4), B2 (cu0 reads 4), each started after the previous one completed — without invalidation, the
    GPU is not idle. -/
def evsOverlap : List Ev :=
  [.arrive (.launch 0), .tick, .cacheDo 0, .cacheDo 1, .cacheDo 2, .tick, .tick,
   .arrive (.launch 1), .tick, .acc 1 (.rd 0 0), .done 1,
   .arrive (.launch 2), .tick, .acc 1 (.wr 1 4 7), .done 1,
   .arrive (.launch 3), .tick, .acc 1 (.rd 0 4), .done 1, .done 0]

/-- repaired command processor, one kernel with a race: cu0 reads 0, cu1 writes 7 to 0, cu0 reads 0 -/
def evsRace : List Ev :=
  [.arrive (.launch 0), .tick, .cacheDo 0, .cacheDo 1, .tick, .tick,
   .acc 0 (.rd 0 0), .acc 0 (.wr 1 0 7), .acc 0 (.rd 0 0), .done 0]

/-- everything but the ticks and the caches' acknowledgements: launches, accesses, completions -/
def notHandshake : Ev → Bool
  | .tick => false
  | .cacheDo _ => false
  | _ => true

/-! ## 1. the repaired platform -/

/-- **serial_kernels_read_flat_memory.** On the repaired command processor (`fix = true`), for any
    numbers of caches, dispatchers and compute units, any line size and initial memory, and any
    interleaving `evs` of driver messages, ticks, caches performing flush requests, kernel accesses,
    replacements and kernel completions: if no two kernels ever run at once (`noOverlap`: one queue) and
    the ghost race detector stays silent (no two compute units touch one address, one of them writing,
    inside one kernel or in kernels not ordered by completion → start), then the values the reads return
    through the private L1V caches, in order, are the values the emulator reads from its flat memory,
    and the final memory is the emulator's: the L1 caches are invisible — timing mode computes what
    emulation computes. -/
theorem serial_kernels_read_flat_memory (ls nI nS nV nL2 nd : Nat) (m : Mem) (evs : List Ev) (s : Sys)
    (hrun : sysRun (initSys true ls nI nS nV nL2 nd m) evs = some s)
    (hno : noOverlap (initSys true ls nI nS nV nL2 nd m) evs = true) (hrace : s.race = false) :
    s.reads = (flat m evs).1 ∧ s.mem = (flat m evs).2 := by
  obtain ⟨_, h2, h3⟩ := run_flat evs _ s (inv_init ls nI nS nV nL2 nd m) hrun hno hrace
  exact ⟨by simpa [initSys] using h2, h3⟩

/-- non-vacuity: the false-sharing run `evsStaleFix` (two kernels, the second reads what another compute
    unit wrote into a line the reader had cached) meets all three hypotheses, and reads `[0, 7]` -/
example : ∃ s, sysRun (initSys true 8 0 0 2 0 1 mem0) evsStaleFix = some s ∧
    noOverlap (initSys true 8 0 0 2 0 1 mem0) evsStaleFix = true ∧ s.race = false ∧ s.reads = [0, 7] := by
  obtain ⟨s, h1, h2, h3⟩ := run_obs (s0 := initSys true 8 0 0 2 0 1 mem0) (evs := evsStaleFix)
    (r := false) (rd := [0, 7]) (by decide +kernel)
  exact ⟨s, h1, by decide +kernel, h2, h3⟩

/-! ## 2. every hypothesis is needed -/

/-- the theorem for the command processor as it was (`fix = false`) -/
def stale_l1_before_fix_full : Prop :=
  ∀ (ls nI nS nV nL2 nd : Nat) (m : Mem) (evs : List Ev) (s : Sys),
    sysRun (initSys false ls nI nS nV nL2 nd m) evs = some s →
    noOverlap (initSys false ls nI nS nV nL2 nd m) evs = true → s.race = false →
    s.reads = (flat m evs).1 ∧ s.mem = (flat m evs).2

/-- **stale_l1_before_fix.** Before the repair the property fails: kernels start without any L1
    invalidation, so in `evsStaleOld` (serial, race-free) compute unit 0 hits in kernel 1 on the line it
    filled in kernel 0 and reads the old 0 at address 4, where compute unit 1 wrote 7 (through its own
    write-around cache) in kernel 0; the emulator reads 7. This is the defect found in bitonicsort,
    pagerank and floydwarshall. -/
theorem stale_l1_before_fix_refuted : ¬ stale_l1_before_fix_full := by
  intro h
  obtain ⟨s, h1, h2, h3⟩ := run_obs (s0 := initSys false 8 0 0 2 0 1 mem0) (evs := evsStaleOld)
    (r := false) (rd := [0, 0]) (by decide +kernel)
  have := (h 8 0 0 2 0 1 mem0 evsStaleOld s h1 (by decide +kernel) h2).1
  rw [h3] at this
  revert this; decide +kernel

/-- **stale_l1_fixed.** The same accesses on the repaired command processor (`evsStaleFix`: the same
    event list plus the caches' acknowledgements and the ticks consuming them — third conjunct): the
    second kernel starts on empty caches and reads 7, as the emulator does. -/
theorem stale_l1_fixed :
    (sysRun (initSys true 8 0 0 2 0 1 mem0) evsStaleFix).map (·.reads) = some [0, 7] ∧
    (flat mem0 evsStaleFix).1 = [0, 7] ∧
    evsStaleFix.filter notHandshake = evsStaleOld.filter notHandshake := by
  refine ⟨by decide +kernel, by decide +kernel, by decide +kernel⟩

/-- the theorem without `noOverlap` -/
def overlapping_kernels_stale_full : Prop :=
  ∀ (ls nI nS nV nL2 nd : Nat) (m : Mem) (evs : List Ev) (s : Sys),
    sysRun (initSys true ls nI nS nV nL2 nd m) evs = some s → s.race = false →
    s.reads = (flat m evs).1 ∧ s.mem = (flat m evs).2

/-- **overlapping_kernels_stale.** The repair covers one queue only: the invalidation happens when a
    kernel starts on an IDLE GPU. In `evsOverlap` kernel A keeps dispatcher 0 busy while K0, B1, B2 run
    one after the other on dispatcher 1; B2 starts after B1 completed (no race) but without
    invalidation, and compute unit 0 reads at address 4 the line it cached in K0: 0, the emulator 7. -/
theorem overlapping_kernels_stale_refuted : ¬ overlapping_kernels_stale_full := by
  intro h
  obtain ⟨s, h1, h2, h3⟩ := run_obs (s0 := initSys true 8 0 0 3 0 2 mem0) (evs := evsOverlap)
    (r := false) (rd := [0, 0]) (by decide +kernel)
  have := (h 8 0 0 3 0 2 mem0 evsOverlap s h1 h2).1
  rw [h3] at this
  revert this; decide +kernel

/-- the theorem without race freedom -/
def race_breaks_l1_transparency_full : Prop :=
  ∀ (ls nI nS nV nL2 nd : Nat) (m : Mem) (evs : List Ev) (s : Sys),
    sysRun (initSys true ls nI nS nV nL2 nd m) evs = some s →
    noOverlap (initSys true ls nI nS nV nL2 nd m) evs = true →
    s.reads = (flat m evs).1 ∧ s.mem = (flat m evs).2

/-- **race_breaks_l1_transparency.** Inside one kernel the caches are not coherent: in `evsRace` compute
    unit 0 reads address 0, compute unit 1 writes 7 to it, compute unit 0 reads again and hits on its
    stale line (0), the emulator reads 7. Race freedom of the kernels is a genuine hypothesis (the
    ghost detector does flag this run). -/
theorem race_breaks_l1_transparency_refuted : ¬ race_breaks_l1_transparency_full := by
  intro h
  obtain ⟨s, h1, _, h3⟩ := run_obs (s0 := initSys true 8 0 0 2 0 1 mem0) (evs := evsRace)
    (r := true) (rd := [0, 0]) (by decide +kernel)
  have := (h 8 0 0 2 0 1 mem0 evsRace s h1 (by decide +kernel)).1
  rw [h3] at this
  revert this; decide +kernel

/-! ## 3. the command processor alone -/

/-- a command processor with one cache of each kind and one dispatcher, request 5 waiting -/
def cpDemo (fix : Bool) : Cp := { initCp fix 1 1 2 1 1 with inq := [.launch 5] }

/-- **kernel_start_waits_for_acks.** The repaired `processLaunchKernelReq` does nothing — in particular
    starts no kernel — while cache acknowledgements are outstanding (`numCacheACK > 0`: its own
    invalidation, or a driver flush): a kernel never starts into caches that are about to reset. -/
theorem kernel_start_waits_for_acks (c : Cp) (r : Nat) (hf : c.fix = true) (ha : c.acks > 0) :
    launchReq c r = (c, []) ∧ ∀ d r', Out.start d r' ∉ (launchReq c r).2 := by
  rw [launchReq_wait c r hf ha]
  exact ⟨rfl, fun _ _ => by simp⟩

/-- non-vacuity: the state after the first tick of a launch has `acks = 3` -/
example : (cpTick (cpDemo true)).1.fix = true ∧ (cpTick (cpDemo true)).1.acks > 0 := by decide +kernel

/-- **tick_starts_nothing_while_acks_outstanding.** A whole tick of the repaired command processor (which
    consumes at most one acknowledgement before its second look at the driver port) starts no kernel
    when at least two acknowledgements are outstanding. -/
theorem tick_starts_nothing_while_acks_outstanding (c : Cp) (hf : c.fix = true) (ha : c.acks ≥ 2)
    (d r : Nat) : Out.start d r ∉ (cpTick c).2 := by
  obtain ⟨h1, h2, h3⟩ := both_no_start c hf (by omega) d r
  by_cases he : c.inq.isEmpty = true
  · rw [cpTick_empty _ he]; exact h1
  · rw [cpTick_nonempty _ (by simpa using he)]
    obtain ⟨g1, _, _⟩ := both_no_start (both c).1 h2 (by omega) d r
    simp only [List.mem_append, not_or]
    exact ⟨h1, g1⟩

/-- non-vacuity: three acknowledgements outstanding after the first tick of `cpDemo` -/
example : (cpTick (cpDemo true)).1.fix = true ∧ (cpTick (cpDemo true)).1.acks ≥ 2 := by decide +kernel

/-- **invalidation_precedes_idle_start.** On an idle GPU (with a dispatcher, with L1 scalar/vector
    caches, nothing outstanding, the request not yet invalidated for) the repaired
    `processLaunchKernelReq` sends exactly one invalidating flush request to every L1S and L1V cache
    (the list of outputs is `l1Caches c` — which has no duplicates — mapped to `.inval`), remembers the
    request, counts the acknowledgements to wait for, leaves the request in the port and starts nothing. -/
theorem invalidation_precedes_idle_start (c : Cp) (r : Nat) (hf : c.fix = true) (hidle : c.idle = true)
    (hb : c.busy ≠ []) (ha : c.acks = 0) (hl : l1Caches c ≠ []) (hi : c.invFor ≠ some r) :
    (launchReq c r).2 = (l1Caches c).map .inval ∧ (l1Caches c).Nodup ∧
    (launchReq c r).1 = { c with acks := (l1Caches c).length, invFor := some r } ∧
    (∀ i, i ∈ l1Caches c ↔ c.nI ≤ i ∧ i < c.nI + c.nS + c.nV) ∧
    ∀ d r', Out.start d r' ∉ (launchReq c r).2 := by
  rw [launchReq_inval c r 0 (firstFree_idle c hidle hb) hf ha hi hidle hl]
  exact ⟨rfl, nodup_l1Caches c, rfl, mem_l1Caches c, fun _ _ => by simp⟩

/-- non-vacuity: `cpDemo true` (caches 1, 2, 3 are the L1S and the two L1V caches) -/
example : (cpDemo true).fix = true ∧ (cpDemo true).idle = true ∧ (cpDemo true).busy ≠ [] ∧
    (cpDemo true).acks = 0 ∧ l1Caches (cpDemo true) = [1, 2, 3] ∧ (cpDemo true).invFor ≠ some 5 := by
  decide +kernel

/-- **flush_unchanged_by_fix.** The driver-flush path is untouched by the repair: `processFlushReq` does
    the same with the repair on or off, and as long as no kernel-launch request waits in the driver port
    a whole tick of the repaired command processor is the tick of the old one (same outputs, same next
    state up to the `fix` switch; and still no launch request waits). -/
theorem flush_unchanged_by_fix :
    (∀ b c, flushReqStep (setFix b c) = (setFix b (flushReqStep c).1, (flushReqStep c).2)) ∧
    ∀ c, c.fix = false → noLaunch c →
      cpTick (setFix true c) = (setFix true (cpTick c).1, (cpTick c).2) ∧ noLaunch (cpTick c).1 :=
  ⟨flushReqStep_setFix, fun c hf hq =>
    cpTick_setFix_of noLaunch (fun c hq _ => mwHandle_noLaunch c hq)
      (fun c hq r => by rw [cacheRsp_inq]; exact hq r) c hq hf⟩

/-- non-vacuity: an old command processor with a driver flush waiting -/
example : ∃ c : Cp, c.fix = false ∧ noLaunch c ∧ c.inq = [.flush] :=
  ⟨{ initCp false 1 1 2 1 1 with inq := [.flush] }, rfl, fun r => by simp, rfl⟩

/-- **old_cp_is_fix_without_l1.** On a platform without L1 scalar/vector caches the repair changes nothing
    in `processLaunchKernelReq` when no flush is in progress (first part: the kernel starts in the same
    call as before); on a platform without any cache (emulation; `noCaches`: no caches, nothing
    outstanding — preserved by every tick) a whole tick of the repaired command processor is the tick of
    the old one: kernels start in the same tick as before. -/
theorem old_cp_is_fix_without_l1 :
    (∀ c r, c.fix = false → c.nS = 0 → c.nV = 0 → c.acks = 0 → c.invFor = none →
      launchReq (setFix true c) r = (setFix true (launchReq c r).1, (launchReq c r).2)) ∧
    ∀ c, c.fix = false → noCaches c →
      cpTick (setFix true c) = (setFix true (cpTick c).1, (cpTick c).2) ∧ noCaches (cpTick c).1 :=
  ⟨fun c r hf h2 h3 h5 h6 => launchReq_noL1 c r h2 h3 h5 h6 hf, fun c hf hq =>
    cpTick_setFix_of noCaches mwHandle_noCaches cacheRsp_noCaches c hq hf⟩

/-- non-vacuity: the emulation platform's command processor with a launch waiting; its tick starts the kernel -/
example : ∃ c : Cp, c.fix = false ∧ noCaches c ∧ (cpTick c).2 = [.start 0 5] :=
  ⟨{ initCp false 0 0 0 0 1 with inq := [.launch 5] }, rfl, ⟨rfl, rfl, rfl, rfl, rfl, rfl⟩, by decide +kernel⟩

/-! ## 4. the handshake terminates -/

/-- **pending_invalidation_completes.** While the invalidation for request `r` is in progress (`Waiting`:
    repaired command processor, `r` at the head of the driver port, a free dispatcher `d`) with `j`
    acknowledgements outstanding, all of them arrived in the port, `j / 2 + 1` ticks start the kernel:
    every tick consumes two acknowledgements (measure: `acks`), and the tick that sees `acks = 0` starts it. -/
theorem pending_invalidation_completes (j : Nat) (c : Cp) (r d : Nat) (h : Waiting c r d j) :
    Out.start d r ∈ tickOuts (j / 2 + 1) c := ticks_start j c r d h

/-- non-vacuity: `cpDemo` after its first tick and three acknowledgements -/
example : Waiting { (cpTick (cpDemo true)).1 with rsps := 3 } 5 0 3 :=
  ⟨by decide +kernel, by decide +kernel, by decide +kernel, by decide +kernel, by decide +kernel,
   by decide +kernel⟩

/-- **launch_starts_within_bounded_ticks.** Liveness of the new handshake: a launch request `r` at the
    head of the driver port of an idle repaired command processor (at least one dispatcher, nothing
    outstanding) is started — on dispatcher 0 — either by the first tick (no L1 caches), or, once the
    `n` L1 caches have all acknowledged (`rsps := n`), within `n / 2 + 1` further ticks (so within the
    `n / 2 + 2` of the requirement). -/
theorem launch_starts_within_bounded_ticks (c : Cp) (r : Nat) (hf : c.fix = true) (hidle : c.idle = true)
    (hb : c.busy ≠ []) (ha : c.acks = 0) (hr : c.rsps = 0) (hi : c.invFor = none)
    (hh : c.inq.head? = some (.launch r)) :
    Out.start 0 r ∈ (cpTick c).2 ++
      tickOuts ((l1Caches c).length / 2 + 1) { (cpTick c).1 with rsps := (l1Caches c).length } := by
  have hi' : c.invFor ≠ some r := by simp [hi]
  by_cases hl : l1Caches c = []
  · exact List.mem_append_left _ (first_tick_start c r hf hidle hb ha hi' hh hl)
  · refine List.mem_append_right _ (ticks_start _ _ r 0 ?_)
    rw [first_tick_inval c r hf hidle hb ha hr hi' hh hl]
    exact ⟨hf, hh, rfl, firstFree_idle c hidle hb, rfl, rfl⟩

/-- non-vacuity: `cpDemo true` meets the hypotheses; its run is: invalidate 1, 2, 3; then, after the three
    acknowledgements, the second tick starts request 5 -/
example : (cpDemo true).fix = true ∧ (cpDemo true).idle = true ∧ (cpDemo true).busy ≠ [] ∧
    (cpDemo true).acks = 0 ∧ (cpDemo true).rsps = 0 ∧ (cpDemo true).invFor = none ∧
    (cpDemo true).inq.head? = some (.launch 5) ∧
    (cpTick (cpDemo true)).2 ++ tickOuts 2 { (cpTick (cpDemo true)).1 with rsps := 3 } =
      [.inval 1, .inval 2, .inval 3, .start 0 5] := by
  decide +kernel

end C02.L1
