import MgpuProofs.C02ArbLemmas
import MgpuProofs.Props.C02WfCU
import MgpuProofs.Props.C02Live
/-! # C02 — the issue gate derived from the real issue path (`Arbitrate` + `DoIssue`)

The wavefront theorems (`wavefront_timing_equals_emulator`, `cu_wavefronts_equal_emulator`, …) hold for
every `gate`. These theorems connect that arbitrary gate to the model of the real issue path that C14
has (`C14.Arb.arbitrate`, `C14.Arb.doIssue`, tied to `IssueArbiter.Arbitrate` / `SchedulerImpl.DoIssue`
by the `c14 arb` cases): whatever the pools, the round-robin pointer, the scoreboard and the units'
occupancy are, the `issue` events one `DoIssue` produces are accepted by the machine, so a compute unit
whose `issue` events come ONLY from `DoIssue` (`schedRun`) is one of the runs the theorems quantify
over, and the equality with the emulator holds for the real scheduler's choices. -/
namespace C02.Arb
open C02.Wf C14.Arb

/-- **arbiter_offer_is_machine_issuable.** The arbiter's test of a wavefront (`WfReady`, `InstToIssue`
    set, no scoreboard hazard) is exactly the machine's condition for the `issue` event with the
    scoreboard's answer as gate: the machine's issue rule is the arbiter's, not an extra assumption. -/
theorem arbiter_offer_is_machine_issuable (P : Prog) (id : Nat) (hz : Bool) (s : TState) :
    eligible (view id hz s) = true ↔ (tstep P (fun _ _ => !hz) s .issue).isSome = true := by
  simp only [eligible, view, tstep]
  cases hi : s.toIssue with
  | none => simp
  | some i =>
    cases hph : s.ph <;> cases hz <;> simp [stateCode]

/-- **any_gate_run_is_permissive_run.** A gate only restricts: every event sequence the machine accepts
    under some gate it accepts under the permissive gate, with the same final state — the permissive
    machine is the most general one. -/
theorem any_gate_run_is_permissive_run (P : Prog) (gate : TState → Inst → Bool) (s : TState) (evs : List Ev)
    (T : TState) (h : trun P gate s evs = some T) : trun P anyGate s evs = some T :=
  trun_gate_mono P gate s evs T h

/-- **scheduler_issue_cycle_accepted.** Any compute-unit state `c` (any number of wavefronts, any
    phases), any pool layout that names each wavefront at most once, any round-robin pointer, any
    scoreboard answers, any unit capacities and occupancy: the machine accepts ALL `issue` events of
    that `DoIssue`; afterwards exactly the wavefronts `DoIssue` moved (to `internalExecuting` or to a
    unit) have `DynamicInst = InstToIssue`, `InstToIssue = nil`, `WfRunning` and one more "inst" task,
    every other wavefront is untouched, and the shared memory is unchanged. -/
theorem scheduler_issue_cycle_accepted (Ps : List Prog) (cap : Nat → Nat) (c : List TState) (y : Cycle)
    (hl : layoutOK Ps y.layout) :
    ∃ c', curun Ps anyGate c (cycleEvs cap c y) = some c' ∧ c'.length = c.length ∧
      (∀ j, (c'[j]?).map noMem =
        (c[j]?).map fun s => noMem (if j ∈ movedIds (cycleActs cap c y) then issueNow s else s)) ∧
      (∀ m, (∀ s ∈ c, s.mem = m) → ∀ s ∈ c', s.mem = m) := by
  have hpn : ((poolsOf c y.hz y.layout).flatten.map (·.id)).Nodup :=
    List.Nodup.sublist (arb2_pools_ids c y.hz y.layout) hl.1
  have hsub := movedIds_sublist cap (arbitrate y.last (poolsOf c y.hz y.layout)).1 y.load
  have hn : (movedIds (cycleActs cap c y)).Nodup :=
    List.Nodup.sublist hsub (arbitrate_ids_nodup y.last _ hpn)
  rw [cycleEvs, actEvs_eq]
  apply curun_issue_ids Ps _ hn c
  intro id hid
  obtain ⟨w, hw, rfl⟩ := List.mem_map.mp (hsub.subset hid)
  obtain ⟨⟨hst, hin, _⟩, p, hp, hwp⟩ := arbitrate_sound y.last _ w hw
  obtain ⟨s, hs, hv, hlay⟩ := arb2_pool_mem c y.hz y.layout p hp w hwp
  have hlt := hl.2 _ hlay
  rw [hv] at hst hin
  simp only [view] at hst hin
  cases hti : s.toIssue with
  | none => rw [hti] at hin; cases hin
  | some i =>
    refine ⟨s, Ps[w.id], i, hs, List.getElem?_eq_getElem hlt, ?_, hti⟩
    cases hph : s.ph <;> rw [hph] at hst <;> simp [stateCode] at hst

/-- **do_issue_routes_as_machine.** Where `DoIssue` sends a wavefront is where the machine expects it:
    `issueToInternal` exactly for `s_waitcnt` / `s_endpgm` / the other special instructions — the
    machine then accepts only `complete` (`EvaluateInternalInst`), never `exec` —, a unit of the
    instruction's type otherwise — the machine then requires `exec` (`alu.Run` in the unit) before
    `complete`. -/
theorem do_issue_routes_as_machine (cap : Nat → Nat) (c : List TState) (y : Cycle)
    (x : Act) (hx : x ∈ cycleActs cap c y) (P : Prog) (gate : TState → Inst → Bool) :
    (∀ id, x = .internal id → ∃ s i, c[id]? = some s ∧ s.toIssue = some i ∧ s.ph = .ready ∧
        (i.kind = .nop ∨ i.kind = .endpgm ∨ ∃ a b, i.kind = .wait a b) ∧
        tstep P gate (issueNow s) .exec = none) ∧
    (∀ id u, x = .unit id u → ∃ s i, c[id]? = some s ∧ s.toIssue = some i ∧ s.ph = .ready ∧
        u = unitOf i.kind ∧ u ≠ 6 ∧ tstep P gate (issueNow s) .complete = none) := by
  obtain ⟨w, hw, hcase⟩ := doIssue_act cap _ y.load x hx
  obtain ⟨⟨hst, hin, _⟩, p, hp, hwp⟩ := arbitrate_sound y.last _ w hw
  obtain ⟨s, hs, hv, _⟩ := arb2_pool_mem c y.hz y.layout p hp w hwp
  have hu : w.unit = (view w.id (y.hz w.id) s).unit := by rw [← hv]
  rw [hv] at hst hin
  simp only [view] at hst hin hu
  have hph : s.ph = .ready := by
    cases hph : s.ph <;> rw [hph] at hst <;> simp [stateCode] at hst
  cases hti : s.toIssue with
  | none => rw [hti] at hin; cases hin
  | some i =>
    rw [hti] at hu
    simp only at hu
    constructor
    · intro id hid
      subst hid
      rcases hcase with ⟨he, h6⟩ | ⟨he, _⟩ | ⟨he, _⟩
      · cases he
        refine ⟨s, i, hs, hti, hph, ?_, ?_⟩
        · rw [hu] at h6
          cases hk : i.kind with
          | alu u => rw [hk] at h6; exact absurd h6 (unitOf_alu u)
          | wait a b => exact Or.inr (Or.inr ⟨a, b, rfl⟩)
          | nop => exact Or.inl rfl
          | endpgm => exact Or.inr (Or.inl rfl)
          | _ => rw [hk] at h6; simp [unitOf] at h6
        · rw [hu] at h6
          simp only [issueNow, hti, tstep]
          cases hk : i.kind with
          | alu u => rw [hk] at h6; exact absurd h6 (unitOf_alu u)
          | wait a b => simp
          | nop => simp
          | endpgm => simp
          | _ => rw [hk] at h6; simp [unitOf] at h6
      · cases he
      · cases he
    · intro id u hid
      subst hid
      rcases hcase with ⟨he, _⟩ | ⟨he, h6⟩ | ⟨he, _⟩
      · cases he
      · cases he
        refine ⟨s, i, hs, hti, hph, hu, h6, ?_⟩
        rw [hu] at h6
        simp only [issueNow, hti, tstep]
        cases hk : i.kind with
        | alu u => simp
        | branch => simp
        | wait a b => rw [hk] at h6; simp [unitOf] at h6
        | nop => rw [hk] at h6; simp [unitOf] at h6
        | endpgm => rw [hk] at h6; simp [unitOf] at h6
        | _ => simp
      · cases he

/-- **scheduler_run_is_machine_run.** A run of the compute unit in which `issue` happens only inside
    `DoIssue` is a run of the wavefront machine (`curun`) over the flat event sequence, ending in the
    same state. -/
theorem scheduler_run_is_machine_run (Ps : List Prog) (cap : Nat → Nat) (steps : List Step) (c c' : List TState)
    (evs : List (Nat × Ev)) (h : schedRun Ps cap c steps = some (c', evs)) :
    curun Ps anyGate c evs = some c' := by
  induction steps generalizing c evs with
  | nil =>
    simp only [schedRun, Option.some.injEq, Prod.mk.injEq] at h
    obtain ⟨rfl, rfl⟩ := h
    rfl
  | cons st r ih =>
    cases st with
    | ev w e =>
      simp only [schedRun] at h
      split at h
      · cases h
      · cases hs : custep Ps anyGate c (w, e) with
        | none => rw [hs] at h; cases h
        | some c1 =>
          rw [hs] at h
          simp only at h
          cases hr : schedRun Ps cap c1 r with
          | none => rw [hr] at h; cases h
          | some x =>
            rw [hr] at h
            simp only [Option.map_some, Option.some.injEq, Prod.mk.injEq] at h
            obtain ⟨rfl, rfl⟩ := h
            simp only [curun, hs]
            exact ih c1 x.2 hr
    | cycle y =>
      simp only [schedRun] at h
      cases hs : curun Ps anyGate c (cycleEvs cap c y) with
      | none => rw [hs] at h; cases h
      | some c1 =>
        rw [hs] at h
        simp only at h
        cases hr : schedRun Ps cap c1 r with
        | none => rw [hr] at h; cases h
        | some x =>
          rw [hr] at h
          simp only [Option.map_some, Option.some.injEq, Prod.mk.injEq] at h
          obtain ⟨rfl, rfl⟩ := h
          rw [curun_append, hs]
          exact ih c1 x.2 hr

/-- **scheduler_never_stuck_at_issue.** Under the real scheduler the machine never refuses a `DoIssue`:
    a run can only be refused at one of the other events (a unit, the memory, fetch, decode doing
    something the compute unit's rules forbid), never because of whom the arbiter picked. -/
theorem scheduler_never_stuck_at_issue (Ps : List Prog) (cap : Nat → Nat) (c : List TState) (y : Cycle)
    (r : List Step) (hl : layoutOK Ps y.layout) (h : schedRun Ps cap c (.cycle y :: r) = none) :
    ∃ c', curun Ps anyGate c (cycleEvs cap c y) = some c' ∧ schedRun Ps cap c' r = none := by
  obtain ⟨c', hc', _⟩ := scheduler_issue_cycle_accepted Ps cap c y hl
  refine ⟨c', hc', ?_⟩
  simp only [schedRun, hc'] at h
  cases hr : schedRun Ps cap c' r with
  | none => rfl
  | some x => rw [hr] at h; cases h

/-- **cu_timing_equals_emulator_under_real_scheduler.** `cu_wavefronts_equal_emulator` for the real
    scheduler: wavefronts on one compute unit, `issue` only through `Arbitrate` + `DoIssue` (any pool
    layouts, pointer positions, scoreboard answers, unit occupancies, cycle by cycle), everything else in
    any order the machine allows. A wavefront that has completed ends with the registers, owned memory
    and executed-instruction sequence of the emulator running it alone on the initial memory. -/
theorem cu_timing_equals_emulator_under_real_scheduler (Ps : List Prog) (hP : ∀ P ∈ Ps, P.WF) (cap : Nat → Nat)
    (inits : List (Nat × RF)) (m0 : Mem) (fuel : Nat) (hlen : inits.length = Ps.length) (hsep : SepL Ps)
    (hhaz : ∀ (j : Nat) (P : Prog) (pr : Nat × RF), Ps[j]? = some P → inits[j]? = some pr →
      hazardFreeRun P fuel (einit pr.1 pr.2 m0, {}) = true)
    (steps : List Step) (c : List TState) (evs : List (Nat × Ev))
    (hrun : schedRun Ps cap (inits.map fun pr => tinit pr.1 pr.2 m0) steps = some (c, evs))
    (j : Nat) (P : Prog) (pr : Nat × RF) (T : TState)
    (hj : Ps[j]? = some P) (hi : inits[j]? = some pr) (hT : c[j]? = some T) (hdone : T.ph = .done) :
    ∃ n E, erun P n (einit pr.1 pr.2 m0) = some E ∧ E.done = true ∧ T.regs = E.regs ∧
      (∀ a, P.own a = true → T.mem a = E.mem a) ∧ T.trace = E.trace :=
  cu_wavefronts_equal_emulator Ps hP anyGate inits m0 fuel hlen hsep hhaz evs c
    (scheduler_run_is_machine_run Ps cap steps _ c evs hrun) j P pr T hj hi hT hdone

/-- **cu_sequential_emulator_under_real_scheduler.** The same against the emulator's own order
    (`runWG`: wavefront after wavefront on one memory). -/
theorem cu_sequential_emulator_under_real_scheduler (Ps : List Prog) (hP : ∀ P ∈ Ps, P.WF) (cap : Nat → Nat)
    (inits : List (Nat × RF)) (m0 : Mem) (fuel : Nat) (hlen : inits.length = Ps.length) (hsep : SepL Ps)
    (hhaz : ∀ (j : Nat) (P : Prog) (pr : Nat × RF), Ps[j]? = some P → inits[j]? = some pr →
      hazardFreeRun P fuel (einit pr.1 pr.2 m0, {}) = true)
    (steps : List Step) (c : List TState) (evs : List (Nat × Ev))
    (hrun : schedRun Ps cap (inits.map fun pr => tinit pr.1 pr.2 m0) steps = some (c, evs))
    (Es : List EState) (m' : Mem) (hemu : EmuSeq Ps inits m0 Es m')
    (j : Nat) (P : Prog) (pr : Nat × RF) (T : TState)
    (hj : Ps[j]? = some P) (hi : inits[j]? = some pr) (hT : c[j]? = some T) (hdone : T.ph = .done) :
    ∃ E, Es[j]? = some E ∧ T.regs = E.regs ∧ T.trace = E.trace ∧ ∀ a, P.own a = true → T.mem a = m' a :=
  cu_timing_equals_sequential_emulator Ps hP anyGate inits m0 fuel hlen hsep hhaz evs c
    (scheduler_run_is_machine_run Ps cap steps _ c evs hrun) Es m' hemu j P pr T hj hi hT hdone

/-- **wavefront_timing_equals_emulator_under_real_scheduler.** One wavefront: the single-wavefront
    theorem for a compute unit that issues only through `Arbitrate` + `DoIssue`. -/
theorem wavefront_timing_equals_emulator_under_real_scheduler (P : Prog) (hP : P.WF) (cap : Nat → Nat)
    (pc : Nat) (regs : RF) (mem : Mem) (fuel : Nat)
    (hhaz : hazardFreeRun P fuel (einit pc regs mem, {}) = true)
    (steps : List Step) (c : List TState) (evs : List (Nat × Ev))
    (hrun : schedRun [P] cap [tinit pc regs mem] steps = some (c, evs))
    (T : TState) (hT : c[0]? = some T) (hdone : T.ph = .done) :
    ∃ n E, erun P n (einit pc regs mem) = some E ∧ E.done = true ∧ T.regs = E.regs ∧
      (∀ a, P.own a = true → T.mem a = E.mem a) ∧ T.trace = E.trace := by
  refine cu_timing_equals_emulator_under_real_scheduler [P] (by simpa using hP) cap [(pc, regs)] mem fuel rfl ?_ ?_
    steps c evs hrun 0 P (pc, regs) T rfl rfl hT hdone
  · intro w j Pw Pj hw hj hne
    match w, j with
    | 0, 0 => exact absurd rfl hne
    | _ + 1, _ => simp at hw
    | 0, _ + 1 => simp at hj
  · intro j P' pr hj hi
    match j with
    | 0 =>
      simp only [List.getElem?_cons_zero, Option.some.injEq] at hj hi
      subst hj hi
      exact hhaz
    | _ + 1 => simp at hj

/-! ## non-vacuity: the two-wavefront demo of `C02WfDemo` under the real scheduler -/

/-- two SIMD pools with one wavefront each (both wavefronts can issue in the same cycle) -/
def demoCycle (k : Nat) : Cycle := { last := k, layout := [[0], [1], [], []], hz := fun _ => false, load := fun _ => 0 }

/-- the demo schedule: every `issue` of `evsTwo` becomes one `DoIssue` of the compute unit -/
def demoSteps : List Step :=
  evsTwo.flatMap fun e => if isIssue e then [.cycle (demoCycle 0)] else [.ev 0 e, .ev 1 e]

def demoInit : List TState := initsTwo.map fun pr => tinit pr.1 pr.2 demoMem

example : layoutOK PsTwo (demoCycle 3).layout := by
  constructor
  · decide
  · intro id hid
    simp [demoCycle] at hid
    rcases hid with rfl | rfl <;> simp [PsTwo]

/-- the run under the real scheduler completes both wavefronts, with the flat events of `cuEvsTwo` -/
example : (schedRun PsTwo unitCap demoInit demoSteps).map
    (fun x => (x.1.map fun T => (T.ph, T.regs (vreg 7 0)), decide (x.2 = cuEvsTwo))) =
    some ([(.done, 3233857728), (.done, 3233857728)], true) := by
  decide +kernel

/-- both wavefronts in ONE pool with instructions of the same type: the arbiter offers only the older
    one, and a full scalar unit refuses even that -/
def demoDecoded : List TState := (curun PsTwo anyGate demoInit
  [(0, .fetch), (0, .fetchRet), (0, .decode), (1, .fetch), (1, .fetchRet), (1, .decode)]).getD []

example : cycleEvs unitCap demoDecoded { demoCycle 0 with layout := [[0, 1]] } = [(0, .issue)] ∧
    cycleEvs unitCap demoDecoded { demoCycle 0 with layout := [[1, 0]] } = [(1, .issue)] ∧
    cycleEvs unitCap demoDecoded (demoCycle 1) = [(1, .issue), (0, .issue)] ∧
    cycleEvs unitCap demoDecoded { demoCycle 0 with load := fun _ => 4 } = [] ∧
    cycleEvs unitCap demoDecoded { demoCycle 0 with hz := fun id => id == 0 } = [(1, .issue)] ∧
    cycleActs unitCap demoDecoded (demoCycle 0) = [.unit 0 1, .unit 1 1] := by
  decide +kernel

example : eligible (view 0 false (demoDecoded.getD 0 (tinit 0 demoRegs demoMem))) = true := by decide +kernel

/-- a gated run is a permissive run: the one-wavefront demo under a gate that looks at the state -/
example : (trun (PTwo 0x1000 0x200000) (fun s _ => decide (s.lgkm ≤ 2)) (tinit 0x1000 demoRegs demoMem) evsTwo).isSome = true := by
  decide +kernel

/-- a special instruction goes to `issueToInternal` -/
example : cycleActs unitCap
    [{ tinit 0 demoRegs demoMem with toIssue := some { kind := .wait 0 0, size := 4 } }]
    { demoCycle 0 with layout := [[0]] } = [.internal 0] := by
  decide +kernel

/-! ## the gate opens: a lone wavefront and a free unit -/

/-- the four SIMD pools of a compute unit holding one wavefront -/
def loneCycle (last : Nat) (hz : Nat → Bool) (load : Nat → Nat) : Cycle :=
  { last := last, layout := [[0], [], [], []], hz := hz, load := load }

/-- **lone_wavefront_issues_when_unit_free.** The liveness theorems say "as soon as the issue gate is
    open". For the real issue path that is: the wavefront is `WfReady` with a decoded instruction, the
    scoreboard reports no hazard, and the instruction is special or its unit has room — then, wherever
    the round-robin pointer stands, that `DoIssue` issues it. -/
theorem lone_wavefront_issues_when_unit_free (cap : Nat → Nat) (s : TState) (i : Inst) (last : Nat) (hl : last < 4)
    (hz : Nat → Bool) (load : Nat → Nat) (hph : s.ph = .ready) (hi : s.toIssue = some i) (hhz : hz 0 = false)
    (hroom : unitOf i.kind = 6 ∨ load (unitOf i.kind) < cap (unitOf i.kind)) :
    cycleEvs cap [s] (loneCycle last hz load) = [(0, .issue)] := by
  have hv : poolsOf [s] hz [[0], [], [], []] = [[view 0 false s], [], [], []] := by
    simp [poolsOf, hhz]
  have hel : eligible (view 0 false s) = true := by
    simp [eligible, view, hph, hi, stateCode]
  have hu : (view 0 false s).unit = unitOf i.kind := by simp [view, hi]
  have harb : (arbitrate last [[view 0 false s], [], [], []]).1 = [view 0 false s] := by
    match last, hl with
    | 0, _ => simp [arbitrate, List.range, List.range.loop, pickPool, hel]
    | 1, _ => simp [arbitrate, List.range, List.range.loop, pickPool, hel]
    | 2, _ => simp [arbitrate, List.range, List.range.loop, pickPool, hel]
    | 3, _ => simp [arbitrate, List.range, List.range.loop, pickPool, hel]
  simp only [cycleEvs, cycleActs, loneCycle, hv, harb, doIssue, hu]
  by_cases h6 : unitOf i.kind = 6
  · simp [h6, actEvs, view]
  · rcases hroom with h | h
    · exact absurd h h6
    · simp [h6, h, actEvs, view]

/-- **wavefront_never_stuck_under_real_scheduler.** `wavefront_never_stuck` with the gate discharged:
    in every reachable unfinished state of a hazard-free run some compute-unit event is possible, and
    when that event is `issue`, every `DoIssue` in which the scoreboard reports no hazard and the
    instruction's unit has room (or the instruction is special) performs it. No wavefront is wedged by
    the arbiter. -/
theorem wavefront_never_stuck_under_real_scheduler (P : Prog) (hP : P.WF) (hNW : P.NoWrap) (gate : TState → Inst → Bool)
    (pc : Nat) (regs : RF) (mem : Mem) (fuel : Nat)
    (hhaz : hazardFreeRun P fuel (einit pc regs mem, {}) = true)
    (evs : List Ev) (T : TState) (hrun : trun P gate (tinit pc regs mem) evs = some T) (hnd : T.ph ≠ .done) :
    ∃ e T', e ∈ greedyOrder ∧ isEnv e = false ∧ tstep P anyGate T e = some T' ∧
      (e = .issue → ∃ i, T.toIssue = some i ∧ ∀ (cap : Nat → Nat) (last : Nat) (hz : Nat → Bool) (load : Nat → Nat),
        last < 4 → hz 0 = false → (unitOf i.kind = 6 ∨ load (unitOf i.kind) < cap (unitOf i.kind)) →
        cycleEvs cap [T] (loneCycle last hz load) = [(0, .issue)]) := by
  obtain ⟨e, T', hm, hne, ht⟩ := wavefront_never_stuck P hP hNW gate pc regs mem fuel hhaz evs T hrun hnd
  refine ⟨e, T', hm, hne, ht, ?_⟩
  intro he
  subst he
  simp only [tstep] at ht
  cases hi : T.toIssue with
  | none => rw [hi] at ht; cases ht
  | some i =>
    rw [hi] at ht
    simp only at ht
    split at ht
    · rename_i hc
      exact ⟨i, rfl, fun cap last hz load hl hhz hroom =>
        lone_wavefront_issues_when_unit_free cap T i last hl hz load hc.1 hi hhz hroom⟩
    · cases ht

/-- non-vacuity: the decoded first instruction of the demo wavefront, pointer at every position; a full
    scalar unit keeps the gate shut -/
example : (List.range 4).all (fun last => cycleEvs unitCap (demoDecoded.take 1) (loneCycle last (fun _ => false) (fun _ => 3)) == [(0, .issue)]) = true ∧
    cycleEvs unitCap (demoDecoded.take 1) (loneCycle 2 (fun _ => false) (fun _ => 4)) = [] := by
  decide +kernel

end C02.Arb
