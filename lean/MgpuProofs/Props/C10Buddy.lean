import MgpuProofs.C10BuddyFull
/-!
# C10 (extension) — the buddy allocator `deviceBuddyMemoryState`: property theorems

Model: `MgpuModel/C10Buddy.lean` (the code after the repair of `allocateMultiplePages`; tied to the real driver by the
`c10 buddy …` case lines of `harness/c10_deep.go`). A device of `4096 * 2^F` bytes at any address `base`.
-/
namespace C10.Buddy

/-- **Allocation-only histories never alias.** On a device of `4096 * 2^F` bytes at `base` (any `F`, any
`base`), after ANY sequence of `Device.allocatePage` bursts (`pop k`) and `Device.allocateMultiplePages(n)`
(`am n`) with arbitrary `k`, `n` — up to the first fault —
* all physical pages ever handed out are pairwise distinct,
* each is a page `base + 4096*k` of the device (`k < 2^F`),
* none lies inside a block that is on a free list afterwards (hence none can be handed out again).
(A `pop k` that faults after `j < k` pages contributes the same pages as `pop j`, which is also a history.) -/
theorem buddy_alloc_disjoint (F base : Nat) (ops : List Op) (h : ops.all Op.isAlloc = true) :
    (runOut (init base (4096 * 2 ^ F)) ops).1.Nodup ∧
    (∀ p ∈ (runOut (init base (4096 * 2 ^ F)) ops).1, ∃ k, p = base + 4096 * k ∧ k < 2 ^ F) ∧
    (∀ p ∈ (runOut (init base (4096 * 2 ^ F)) ops).1, ∀ l a,
      a ∈ lvl (runOut (init base (4096 * 2 ^ F)) ops).2.free l →
      ¬ inBlock (runOut (init base (4096 * 2 ^ F)) ops).2.size a l p) := by
  obtain ⟨hI, hb⟩ := inv_runOut ops _ [] h (inv_init F base)
  simp only [List.nil_append] at hI
  have hb' : (runOut (init base (4096 * 2 ^ F)) ops).2.base = base := hb
  refine ⟨hI.outNodup, ?_, ?_⟩
  · intro p hp
    have := hI.outIn p hp
    rw [hb'] at this
    exact this
  · intro p hp l a ha
    exact hI.outFree p hp l a ha

/-- non-vacuity: 3 pages by `am`, then 2 single pages on a 8-page device at 0x5000 -/
example : (runOut (init 0x5000 (4096 * 2 ^ 3)) [.am 3, .pop 2]).1 = [0x5000, 0x6000, 0x7000, 0x9000, 0xa000] := by
  decide +kernel

/-- **Free blocks stay well formed in allocation-only histories**: every block on a free list is aligned to its
level size relative to `base`, lies inside the device, is listed once, and the blocks are pairwise disjoint. -/
theorem buddy_alloc_free_blocks (F base : Nat) (ops : List Op) (h : ops.all Op.isAlloc = true) :
    let s := (runOut (init base (4096 * 2 ^ F)) ops).2
    (∀ l a, a ∈ lvl s.free l → l ≤ F ∧ base ≤ a ∧ a + szl s.size l ≤ base + 4096 * 2 ^ F ∧ szl s.size l ∣ (a - base)) ∧
    (∀ l, (lvl s.free l).Nodup) ∧
    (∀ l a l' a', a ∈ lvl s.free l → a' ∈ lvl s.free l' → (l ≠ l' ∨ a ≠ a') →
      a + szl s.size l ≤ a' ∨ a' + szl s.size l' ≤ a) := by
  obtain ⟨hI, hb⟩ := inv_runOut ops _ [] h (inv_init F base)
  have hb' : (runOut (init base (4096 * 2 ^ F)) ops).2.base = base := hb
  refine ⟨?_, hI.nodup, hI.disj⟩
  intro l a ha
  have := hI.blk l a ha
  rw [hb', hI.hsize] at this
  rw [hI.hsize]
  exact ⟨hI.level_le ha, this⟩

example : (runOut (init 0x5000 (4096 * 2 ^ 3)) [.am 3, .pop 2]).2.free = [[], [], [0xb000], []] := by
  decide +kernel

/-- The full statement for the code BEFORE the repair of `allocateMultiplePages` (`runLiveOld`: the parent's
merge bit toggled only `if i == level && i > 0`): after any legal history (pages are given back only while live,
each once) no live page lies inside a free block, and the free blocks are pairwise disjoint. It was FALSE. -/
def buddy_disjoint_full_before_fix : Prop :=
  ∀ (F base : Nat) (ops : List Op),
    (runLiveOld (init base (4096 * 2 ^ F)) [] ops).legal = true →
    NoLiveInFree (runLiveOld (init base (4096 * 2 ^ F)) [] ops).st (runLiveOld (init base (4096 * 2 ^ F)) [] ops).live ∧
    FreeDisjoint (runLiveOld (init base (4096 * 2 ^ F)) [] ops).st

/-- Witness (was reproduced on the real driver, devices of 4, 8, 16, 64 pages): three 1-page allocations, then
the third page is freed — the third allocation took the 2-page block off its free list without toggling the
merge bit of its parent, so `freeBlock` merged up to level 0 and put the WHOLE device on the free list while
two pages were live. -/
theorem buddy_disjoint_full_before_fix_refuted : ¬ buddy_disjoint_full_before_fix := by
  intro h
  have := h 2 0x5000 [.pop 1, .pop 1, .pop 1, .add [0x7000]]
  revert this
  decide +kernel

/-- the state after the witness history, old and repaired code: before the repair the whole 4-page device was
one free block while 0x5000 and 0x6000 were live; now the freed page merges with its buddy only -/
example : (runLiveOld (init 0x5000 (4096 * 2 ^ 2)) [] [.pop 1, .pop 1, .pop 1, .add [0x7000]]).live = [0x5000, 0x6000] ∧
    (runLiveOld (init 0x5000 (4096 * 2 ^ 2)) [] [.pop 1, .pop 1, .pop 1, .add [0x7000]]).st.free = [[0x5000], [], []] ∧
    (runLive (init 0x5000 (4096 * 2 ^ 2)) [] [.pop 1, .pop 1, .pop 1, .add [0x7000]]).st.free = [[], [0x7000], []] := by
  decide +kernel

/-- Second witness for the old code (was reproduced on the real driver, 4–64 pages): alloc, alloc, alloc, free the
1st, free the 3rd — the legal history ended with OVERLAPPING free blocks (the whole device at level 0 and page
`base` again at the finest level), and the live page 0x6000 inside a free block. -/
theorem buddy_free_blocks_overlap_before_fix_witness :
    (runLiveOld (init 0x5000 (4096 * 2 ^ 3)) [] [.pop 1, .pop 1, .pop 1, .add [0x5000], .add [0x7000]]).legal = true ∧
    ¬ FreeDisjoint (runLiveOld (init 0x5000 (4096 * 2 ^ 3)) [] [.pop 1, .pop 1, .pop 1, .add [0x5000], .add [0x7000]]).st ∧
    ¬ NoLiveInFree (runLiveOld (init 0x5000 (4096 * 2 ^ 3)) [] [.pop 1, .pop 1, .pop 1, .add [0x5000], .add [0x7000]]).st
        (runLiveOld (init 0x5000 (4096 * 2 ^ 3)) [] [.pop 1, .pop 1, .pop 1, .add [0x5000], .add [0x7000]]).live := by
  decide +kernel

example : (runLiveOld (init 0x5000 (4096 * 2 ^ 3)) [] [.pop 1, .pop 1, .pop 1, .add [0x5000], .add [0x7000]]).st.free =
    [[0x5000], [], [], [0x5000]] ∧
    (runLive (init 0x5000 (4096 * 2 ^ 3)) [] [.pop 1, .pop 1, .pop 1, .add [0x5000], .add [0x7000]]).st.free =
    [[], [0x9000], [0x7000], [0x5000]] := by
  decide +kernel

/-- **The full statement, frees included, for the repaired code** (`runLive`: `allocateMultiplePages` toggles the
parent's merge bit whenever a block leaves a free list, `if i > 0`). On a device of `4096 * 2^F` bytes at `base`
(any `F`, any `base`), after ANY history of `Device.allocatePage` bursts (`pop k`), `allocateMultiplePages(n)`
(`am n`) and frees (`add ps` = `addSinglePAddr` of each page: tracker count, `freeBlock`, `levelOfBlock`, buddy
merging) in which pages are given back only while live, each once — up to the first fault —
* no live page lies inside a block that is on a free list (so it cannot be handed out again), and
* every free list is duplicate-free and the free blocks `[a, a + size/2^l)` are pairwise disjoint. -/
def buddy_disjoint_full : Prop :=
  ∀ (F base : Nat) (ops : List Op),
    (runLive (init base (4096 * 2 ^ F)) [] ops).legal = true →
    NoLiveInFree (runLive (init base (4096 * 2 ^ F)) [] ops).st (runLive (init base (4096 * 2 ^ F)) [] ops).live ∧
    FreeDisjoint (runLive (init base (4096 * 2 ^ F)) [] ops).st

/-- Proof: the tree invariant `FInv` of `MgpuProofs/C10BuddyFull*.lean` (free ⇒ exists ∧ not split; split ⇒ exists;
merge bit ⇔ split ∧ exactly one child free; every tracked page lies in a used block whose tracker counts it) is
kept by `allocMultiPos`, `addSingle`/`freeBlock` and hence by every history (`finv_runLive`); two existing
non-split blocks never overlap (`leaf_overlap`). No overflow hypothesis is needed: `usub` is only applied to
addresses `≥ base`. (`runLive` stops at the first illegal `add` with the state before it, so the conclusion holds
for that state as well: `runLive_safe`.) -/
theorem buddy_disjoint_full_holds : buddy_disjoint_full :=
  fun F base ops _ => runLive_safe F base ops

/-- non-vacuity: a legal history with frees on an 8-page device at 0x5000 — two single pages, a 2-page block, one
page of it given back (the block stays allocated), one more page, then the first two pages given back: they merge
into the 2-page block 0x5000; 0x8000 and 0x9000 stay live -/
example :
    (runLive (init 0x5000 (4096 * 2 ^ 3)) []
      [.pop 1, .pop 1, .am 2, .add [0x7000], .pop 1, .add [0x5000, 0x6000]]).legal = true ∧
    (runLive (init 0x5000 (4096 * 2 ^ 3)) []
      [.pop 1, .pop 1, .am 2, .add [0x7000], .pop 1, .add [0x5000, 0x6000]]).live = [0x8000, 0x9000] ∧
    (runLive (init 0x5000 (4096 * 2 ^ 3)) []
      [.pop 1, .pop 1, .am 2, .add [0x7000], .pop 1, .add [0x5000, 0x6000]]).st.free =
        [[], [], [0xb000, 0x5000], [0xa000]] ∧
    (runLive (init 0x5000 (4096 * 2 ^ 3)) []
      [.pop 1, .pop 1, .am 2, .add [0x7000], .pop 1, .add [0x5000, 0x6000], .add [0x8000, 0x9000]]).st.free =
        [[0x5000], [], [], []] := by
  decide +kernel

/-- the allocation-only instance (proved before the repair; it needs no `addSinglePAddr`) -/
theorem buddy_disjoint_partial (F base : Nat) (ops : List Op) (h : ops.all Op.isAlloc = true) :
    (runLive (init base (4096 * 2 ^ F)) [] ops).legal = true ∧
    NoLiveInFree (runLive (init base (4096 * 2 ^ F)) [] ops).st (runLive (init base (4096 * 2 ^ F)) [] ops).live ∧
    FreeDisjoint (runLive (init base (4096 * 2 ^ F)) [] ops).st := by
  rw [runLive_allocOnly ops _ [] h]
  obtain ⟨hI, -⟩ := inv_runOut ops _ [] h (inv_init F base)
  refine ⟨rfl, ?_, ?_, ?_⟩
  · intro p hp l _ a ha
    exact hI.outFree p hp l a ha
  · intro l _
    exact hI.nodup l
  · intro l _ l' _ a ha a' ha' hne
    exact hI.disj l a l' a' ha ha' hne

example : [Op.am 3, .pop 2].all Op.isAlloc = true := by decide

/-- **Allocation-only histories never crash**: on a device of `4096 * 2^F` bytes the only panic an
allocation-only history can end with is out-of-memory (`out of memory` / `not enough memory available`) —
the bit-field indices stay inside `newBitField(1<<order)` (no slice-bounds panic) and every page handed out
belongs to the device (`deviceIDByPAddr` never panics). -/
theorem buddy_alloc_only_oom (F base : Nat) (ops : List Op) (h : ops.all Op.isAlloc = true) (e : Fault)
    (he : runFault (init base (4096 * 2 ^ F)) ops = some e) : e = .oom :=
  runFault_allocOnly ops _ [] h (inv2_init F base) e he

/-- non-vacuity: the fifth single page on a 4-page device is an out-of-memory panic -/
example : runFault (init 0x5000 (4096 * 2 ^ 2)) [.pop 4, .pop 1] = some .oom := by decide +kernel

/-- **A fresh device serves every request that fits**: `allocateMultiplePages(n)` with `n*4096 ≤ size` on a
fresh device succeeds and returns the `n` consecutive pages starting at `base`. -/
theorem buddy_alloc_complete (F base n : Nat) (hn : n * 4096 ≤ 4096 * 2 ^ F) :
    ∃ s', step (init base (4096 * 2 ^ F)) (.am n) = .ok (pagesFrom base n, s') :=
  amOp_fresh F base n hn

example : ∃ s', step (init 0x5000 (4096 * 2 ^ 3)) (.am 5) = .ok ([0x5000, 0x6000, 0x7000, 0x8000, 0x9000], s') :=
  buddy_alloc_complete 3 0x5000 5 (by decide)

end C10.Buddy
