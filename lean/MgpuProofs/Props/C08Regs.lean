import MgpuModel.C08
import MgpuProofs.C08Sgpr
/-! # C08 — the initial SGPR image of a dispatched wavefront is the ABI layout

`C02.emuInitS = C02.timingInitS = C02.initS 8 4` is the transcription of `emu.ComputeUnit.initWfRegs`
and `cu.WfDispatcherImpl.initRegisters` (C02 proves the two equal — `init_regs_equiv` — and the case
lines `c02 init` / `c08 sgpr` compare it with both real functions for every flag set). Here the image
is compared with the ABI: user SGPRs in the order private segment buffer (4), dispatch ptr (2),
queue ptr (2), kernarg segment ptr (2), dispatch id (2), flat scratch init (2), private segment
size (1), work-group count X, Y, Z (1 each), then work-group id X, Y, Z, each present iff enabled,
packed (`abiIndex`, `abiImage`, `abiWrites` in `MgpuModel/C08_Regs.lean`). All statements hold for
every one of the 2^13 flag sets and all argument values; no case split on the flags is used. -/
namespace C08
open C02

/-- **sgpr_writes_are_abi.** Provided no enabled work-group-count register wraps (`CountsFit`:
    `grid + wg ≤ 2^32` on that axis), the straight-line code of both modes issues exactly the list
    of register writes the ABI table prescribes: every enabled field at the register index
    "dwords of the enabled fields before it", with the ABI's content (dispatch packet address, kernarg
    address, TRUE work-group counts `⌈grid/wg⌉`, work-group ids). -/
theorem sgpr_writes_are_abi (f : Flags) (a : Args) (h : CountsFit f a) :
    emuInitS f a = abiWrites f a ∧ timingInitS f a = abiWrites f a :=
  ⟨initS_eq_abiWrites f a h, initS_eq_abiWrites f a h⟩

/-- **sgpr_image_is_abi** (under `CountsFit`; `sgpr_image_is_abi_full_all` needs only a typed packet). The register file
    after initialisation: SGPR `r` holds what the ABI puts there, registers the ABI leaves undefined
    (fields whose content the simulator does not provide, registers beyond the enabled ones) keep
    their old value; no other lane/cell is touched. Both modes. -/
theorem sgpr_image_is_abi (f : Flags) (a : Args) (h : CountsFit f a) (r : Nat) :
    (lastW (emuInitS f a) (0, r) = abiImage f a r ∧ lastW (timingInitS f a) (0, r) = abiImage f a r) ∧
    (∀ s : St, applyW (emuInitS f a) s (0, r) = (abiImage f a r).getD (s (0, r)) ∧
               applyW (timingInitS f a) s (0, r) = (abiImage f a r).getD (s (0, r))) ∧
    (∀ (s : St) (l : Nat), l ≠ 0 → applyW (emuInitS f a) s (l, r) = s (l, r)) := by
  obtain ⟨e1, e2⟩ := sgpr_writes_are_abi f a h
  rw [e1, e2]
  refine ⟨⟨lastW_abiWrites f a r, lastW_abiWrites f a r⟩, fun s => ?_, fun s l hl => ?_⟩
  · rw [applyW_lastW, lastW_abiWrites]; exact ⟨rfl, rfl⟩
  · rw [applyW_lastW, lastW_other_lane f a l r hl]; rfl

/-- **sgpr_regs_written_once.** No SGPR is written twice (the fields do not overlap) and every
    write lies inside the enabled user/system SGPRs (at most 21 registers). -/
theorem sgpr_regs_written_once (f : Flags) (a : Args) (h : CountsFit f a) :
    ((emuInitS f a).map (·.cell)).Nodup ∧
    (∀ w ∈ emuInitS f a, w.cell.1 = 0 ∧ w.cell.2 < usedBy f Field.order) ∧ usedBy f Field.order ≤ 21 := by
  rw [(sgpr_writes_are_abi f a h).1]
  exact ⟨(abiWrites_cells f a).2, (abiWrites_cells f a).1, usedBy_order_le f⟩

/-- **sgpr_wgcount_matches_grid.** Inside the old bound the count expression of both modes is the
    number of work-groups the grid builder produces along the axis (`Geo.nx = nwg`, `wgs_enumerate`). -/
theorem sgpr_wgcount_matches_grid (g w : Nat) (hg : 1 ≤ g) (hw : 1 ≤ w) (h : g + w ≤ 4294967296) :
    wgCount g w = nwg g w ∧ wgCount g w = nwgI g w := by
  rw [wgCount_fit g w h, nwgI_eq g w hg hw]
  exact ⟨rfl, rfl⟩

/-- the full statement: for every typed dispatch packet the count register is the number of work-groups -/
def sgpr_wgcount_full : Prop :=
  ∀ g w : Nat, 1 ≤ g → g < 4294967296 → 1 ≤ w → w < 65536 → wgCount g w = nwg g w

/-- the same statement about the expression before the repair (`uint32` arithmetic) -/
def sgpr_wgcount_before_fix_full : Prop :=
  ∀ g w : Nat, 1 ≤ g → g < 4294967296 → 1 ≤ w → w < 65536 → wgCountOld g w = nwg g w

/-- **sgpr_wgcount_full holds (repaired code).** Both modes compute the ceiling division in 64 bits:
    for every `uint32` grid size and `uint16` work-group size the register holds the number of
    work-groups the grid builder produces along the axis — also for `GridSize > 2^32 − WorkgroupSize`. -/
theorem sgpr_wgcount_full_all : sgpr_wgcount_full := by
  intro g w hg hg' hw hw'
  rw [wgCount_typed g w hg' hw', nwgI_eq g w hg hw]

example : wgCount 4294967295 64 = 67108864 ∧ nwg 4294967295 64 = 67108864 := by decide

/-- **sgpr_wgcount_before_fix_refuted.** Grid 4294967295, work-group 64: `GridSize + 64 - 1` wrapped in
    `uint32`, the register held 0, the grid builder produces 67108864 work-groups along the axis
    (former finding C08-wgcount-sgpr-wraps). -/
theorem sgpr_wgcount_before_fix_refuted : ¬ sgpr_wgcount_before_fix_full := by
  intro h
  have := h 4294967295 64 (by decide) (by decide) (by decide) (by decide)
  exact absurd this (by decide)

/-- the full statement without `CountsFit`: for every typed packet the image is the ABI image -/
def sgpr_image_is_abi_full : Prop :=
  ∀ (f : Flags) (a : Args) (r : Nat),
    (a.gx < 4294967296 ∧ a.gy < 4294967296 ∧ a.gz < 4294967296) →
    (1 ≤ a.wx ∧ a.wx < 65536 ∧ 1 ≤ a.wy ∧ a.wy < 65536 ∧ 1 ≤ a.wz ∧ a.wz < 65536) →
    lastW (emuInitS f a) (0, r) = abiImage f a r

/-- **sgpr_writes_are_abi_typed / sgpr_image_is_abi_full holds (repaired code).** For every typed
    dispatch packet and every one of the 2^13 flag sets both modes issue exactly the ABI's register
    writes, and the register image is the ABI image (TRUE work-group counts). Before the repair the
    count register of grid 4294967295 × 1 × 1, work-group 64 × 1 × 1 held 0 instead of 67108864
    (`sgpr_wgcount_before_fix_refuted`). -/
theorem sgpr_writes_are_abi_typed (f : Flags) (a : Args) (h : CountsTyped f a) :
    emuInitS f a = abiWrites f a ∧ timingInitS f a = abiWrites f a :=
  ⟨initS_eq_abiWrites_typed f a h, initS_eq_abiWrites_typed f a h⟩

theorem sgpr_image_is_abi_full_all : sgpr_image_is_abi_full := by
  intro f a r hg hw
  have ht : CountsTyped f a := ⟨fun _ => ⟨hg.1, hw.2.1⟩, fun _ => ⟨hg.2.1, hw.2.2.2.1⟩, fun _ => ⟨hg.2.2, hw.2.2.2.2.2⟩⟩
  rw [(sgpr_writes_are_abi_typed f a ht).1]
  exact lastW_abiWrites f a r

example : lastW (emuInitS ⟨false, false, false, false, false, false, false, true, false, false, false, false, false⟩
    ⟨0, 0, 4294967295, 1, 1, 64, 1, 1, 0, 0, 0⟩) (0, 0) = some 67108864 := by decide

theorem sgpr_image_is_abi_partial (f : Flags) (a : Args) (h : CountsFit f a) (r : Nat) :
    lastW (emuInitS f a) (0, r) = abiImage f a r := (sgpr_image_is_abi f a h r).1.1

/-! ## non-vacuity -/

/-- the flag set of `bitonicsort/kernels.hsaco` (private segment buffer, dispatch ptr, kernarg ptr) + ids -/
def demoFlags : Flags := ⟨true, true, false, true, false, false, false, false, false, false, true, true, false⟩
def demoArgs : Args := ⟨0x1111222233334444, 0x5555666677778888, 256, 4, 1, 64, 2, 1, 3, 1, 0⟩

example : CountsFit demoFlags demoArgs := by decide
example : (List.range 11).map (abiImage demoFlags demoArgs) =
    [none, none, none, none, some 0x33334444, some 0x11112222, some 0x77778888, some 0x55556666, some 3, some 1, none] := by
  decide
/-- all thirteen fields enabled: 21 registers, the counts at s15..s17, the ids at s18..s20 -/
def allFlags : Flags := ⟨true, true, true, true, true, true, true, true, true, true, true, true, true⟩
example : abiIndex allFlags .cntX = 15 ∧ abiIndex allFlags .idZ = 20 ∧ usedBy allFlags Field.order = 21 := by decide
example : abiImage allFlags demoArgs 15 = some 4 ∧ abiImage allFlags demoArgs 16 = some 2 := by decide

end C08
