import MgpuProofs.Props.C11SysBytes
import MgpuProofs.C11SysSees2
/-! # C11 — the closed copy system: a device-to-host copy observes the writes of earlier kernels

The last clause of the property on the composed system: the kernel's writes sit dirty in the caches
(`Sys.dirty`, `Sys.view` = what the application sees through the caches); the driver sends a flush
before the copy because the buffer is dirty (`d2h_sees_kernel_writes`: `cmd.flush = true`); the flush
request leaves the driver before the copy's page pieces (`mq_flush_before_pieces`); the command
processor takes requests in order and forwards a copy only when no cache acknowledgement is
outstanding (`cp_forwarded_after_flush_clean`); every cache writes its dirty data back when it
acknowledges; the DMA engine reads the memory. -/
namespace C11

/-- **A device-to-host copy returns what the application saw through the caches when the kernel had
    finished** — every write of previously completed kernels is observed. Take any reachable state
    `s0` (kernels have written: any dirty data in the real caches, `< nCaches`), and any continuation
    WITHOUT further kernel writes in which a D2H copy `(q, seq)` that needs a flush (`cmd.flush`: its
    range lies in a dirty buffer) is enqueued after `s0` and completes. If the dirty bytes of every
    address of the range sit in ONE cache at `s0` (`Coherent`) and no copy writes into the range
    meanwhile (`NoWriteAfter`), then byte `i` of the host buffer is `s0.view pa` — the newest dirty
    byte for the physical image `pa` of `addr + i` if a kernel wrote it, else the memory content — for
    every schedule: any order of cache acknowledgements, any interleaving with other queues' copies
    and flushes, any split into DMA transactions and any order in which the memory serves them. -/
theorem sys_d2h_sees_kernel_writes (c : SysCfg) (hinj : PtInj c.pt) (hcap : c.nCaches ≤ c.ccache)
    (ops0 ops : List SysOp) (q seq : Nat) (cmd : SysCmd) :
    let s0 := reachSys c ops0
    let s := reachSys c (ops0 ++ ops)
    (∀ op ∈ ops, op.isKwrite = false) → (∀ e ∈ s0.dirty, e.1 < c.nCaches) →
    s0.cmdOf q seq = none → s.cmdOf q seq = some cmd → cmd.kind = .d2h → cmd.flush = true →
    (q, seq) ∈ s.mq.s.completed →
    (∀ a, (∃ i, i < cmd.len ∧ translate c.pt (cmd.addr + i) = some a) → Coherent s0.dirty a) →
    NoWriteAfter s.hist s0.hist.length (fun a => ∃ i, i < cmd.len ∧ translate c.pt (cmd.addr + i) = some a) →
    ∀ i, i < cmd.len → ∃ pa, translate c.pt (cmd.addr + i) = some pa ∧
      (s.d2hResult q seq cmd.len)[i]? = some (s0.view pa) := by
  intro s0 s hk hsmall hnone hcmd hkind hflush hcomp hA hnw i hi
  have h0 := reachSys_all c ops0
  have h := reachSys_all c (ops0 ++ ops)
  have hs_eq : s = s0.run ops := by
    show reachSys c (ops0 ++ ops) = (reachSys c ops0).run ops
    unfold reachSys; rw [Sys.run_append]
  -- the relative invariant of the run from `s0`
  have hsees : s0.Sees s (fun a => ∃ i, i < cmd.len ∧ translate c.pt (cmd.addr + i) = some a) := by
    rw [hs_eq]
    exact Sys.Sees.run hA (Sys.SeesCtx c s0) (fun s op hko hp => hp.step op hko)
      (fun s hp => ⟨hp.all.data, hp.all.hist⟩)
      (fun s hp hss d rq p => Sys.SeesCtx.clean hcap h0 hsmall hp hss d rq p)
      ops s0 ⟨h0, [], rfl⟩ (Sys.Sees.refl s0 _) hk
  obtain ⟨pa, htr, k, u, rq, p, b1, b2, b3, b4, b5, b6, hlo, hhi, hres⟩ :=
    sys_d2h_complete_bytes_observed c hinj (ops0 ++ ops) q seq cmd hcomp hcmd hkind i hi
  refine ⟨pa, htr, ?_⟩
  rw [hres]; congr 1
  have hq : cmd.q = q := by
    unfold Sys.cmdOf at hcmd
    simpa using (List.mem_filter.1 (List.mem_of_getElem? hcmd)).2
  -- the read happened after `s0`
  have hk0 : s0.hist.length ≤ k := by
    apply Decidable.byContradiction; intro hn
    obtain ⟨lh, hlh⟩ := hsees.grows.hist
    have hlt : k < s0.hist.length := by omega
    have hu0 : s0.hist[k]? = some (.tx u) := by
      have : s.hist[k]? = some (.tx u) := b1
      rw [hlh, List.getElem?_append_left hlt] at this; exact this
    have hum : u ∈ s0.mlog := by
      rw [← h0.hist.log]; exact List.mem_filterMap.2 ⟨.tx u, List.mem_of_getElem? hu0, rfl⟩
    obtain ⟨rq1, p1, a1, a2, _, _⟩ := h0.data.data u hum
    have e1 : rq1 = rq := Option.some.inj ((hsees.grows.reqOfDma a1).symm.trans b3)
    subst e1
    have e2 : p1 = p := Option.some.inj ((hsees.grows.pieceOf a2).symm.trans b4)
    subst e2
    obtain ⟨_, c2, c3, c4, _, _⟩ := Sys.pieceOf_spec a2
    rw [← c4, ← c3, b5, hq, b6] at c2
    rw [hnone] at c2; cases c2
  have hpf : PostFlush s0 p := ⟨by rw [b5]; exact hflush, by rw [b5, hq, b6]; exact hnone⟩
  -- the byte the read observed at `pa`
  have hrd := h.hist.reads k u b1 b2
  have hj : pa - u.addr < u.len := by omega
  have hbyte : u.bytes[pa - u.addr]? = some ((histMem (s.hist.take k)).get pa) := by
    rw [hrd]
    unfold SMem.read
    rw [List.getElem?_map, List.getElem?_range hj]
    simp only [Option.map_some]
    congr 2; omega
  have hApa : (fun a => ∃ i, i < cmd.len ∧ translate c.pt (cmd.addr + i) = some a) (u.addr + (pa - u.addr)) := by
    have : u.addr + (pa - u.addr) = pa := by omega
    rw [this]; exact ⟨i, hi, htr⟩
  have := hsees.rd hnw k u rq p hk0 b1 b2 b3 b4 hpf (pa - u.addr) _ hbyte hApa
  rw [this]; congr 1; omega

/-- a kernel has written three bytes into cache 0: 77 then 78 at 0x1003a (frame of the first page) and
    99 at 0x20002 (frame of the second page) -/
def demoKernelOps : List SysOp := [.kwrite 0 65594 77, .kwrite 0 131074 99, .kwrite 0 65594 78]

/-- afterwards a D2H copy of 16 bytes at virtual 4152 (8 bytes in each page) is enqueued and driven to
    completion: flush, cache acknowledgement (write-back), two page pieces, two read transactions -/
def demoD2HOps : List SysOp :=
  [.enq 0 false 4152 16 0, .drvTick, .drvTick, .toCp, .cpTick, .cacheTake 1, .cacheAck 0, .cpTick, .toDrv,
   .drvTick, .drvTick, .toCp, .toCp, .cpTick, .cpTick, .toDma, .toDma, .dmaTick, .dmaTick, .dmaTick, .dmaTick,
   .memTake 9, .memDo 1, .memDo 0, .dmaTick, .dmaTick, .dmaTick, .dmaTick, .dmaOut, .toCpRsp, .toCpRsp,
   .cpTick, .cpTick, .toDrv, .toDrv, .drvTick, .drvTick]

/-- non-vacuity: the copy completes and returns, at offsets 2 and 10, the kernel's NEWEST bytes 78 and 99
    (the application's view at `s0`), everywhere else the memory content; no kernel write and no write
    transaction occurs in the continuation, the copy was not enqueued at `s0`, it needed a flush -/
example :
    (reachSys demoSysCfg (demoKernelOps ++ demoD2HOps)).mq.s.completed = [(0, 0)] ∧
    (reachSys demoSysCfg demoKernelOps).cmdOf 0 0 = none ∧
    ((reachSys demoSysCfg (demoKernelOps ++ demoD2HOps)).cmdOf 0 0).map (fun c => (c.kind, c.flush, c.len)) =
      some (.d2h, true, 16) ∧
    (reachSys demoSysCfg (demoKernelOps ++ demoD2HOps)).d2hResult 0 0 16 =
      (List.range 8).map (fun i => (reachSys demoSysCfg demoKernelOps).view (65592 + i)) ++
      (List.range 8).map (fun i => (reachSys demoSysCfg demoKernelOps).view (131072 + i)) ∧
    (reachSys demoSysCfg demoKernelOps).view 65594 = 78 ∧ (reachSys demoSysCfg demoKernelOps).view 131074 = 99 ∧
    (reachSys demoSysCfg demoKernelOps).view 65593 = memByte 65593 ∧
    demoD2HOps.all (fun op => !op.isKwrite) = true ∧
    (reachSys demoSysCfg (demoKernelOps ++ demoD2HOps)).mlog.all (fun t => !t.write) = true := by
  decide +kernel

/-- the demo configuration with TWO caches -/
def demoSysCfg2 : SysCfg := { demoSysCfg with nCaches := 2 }

/-- the same D2H schedule with two caches, the SECOND cache acknowledging first -/
def demoD2HOps2 : List SysOp :=
  [.enq 0 false 4152 16 0, .drvTick, .drvTick, .toCp, .cpTick, .cacheTake 2, .cacheAck 1, .cacheAck 0, .cpTick, .cpTick,
   .toDrv, .drvTick, .drvTick, .toCp, .toCp, .cpTick, .cpTick, .toDma, .toDma, .dmaTick, .dmaTick, .dmaTick, .dmaTick,
   .memTake 9, .memDo 1, .memDo 0, .dmaTick, .dmaTick, .dmaTick, .dmaTick, .dmaOut, .toCpRsp, .toCpRsp,
   .cpTick, .cpTick, .toDrv, .toDrv, .drvTick, .drvTick]

/-- **The coherence hypothesis of `sys_d2h_sees_kernel_writes` cannot be dropped**: with the SAME address
    dirty in two caches (11 in cache 0, the newer 22 in cache 1 — what the application sees), the cache
    that acknowledges LAST wins in memory: the copy returns the stale 11 although every other hypothesis
    holds (no kernel write and no write transaction in the continuation, the copy follows a flush and
    completes). An incoherent cache state is outside what the simulator's caches produce; the
    write-back order is the environment's. -/
theorem sys_sees_needs_coherent :
    let s0 := reachSys demoSysCfg2 [.kwrite 0 65594 11, .kwrite 1 65594 22]
    let s := reachSys demoSysCfg2 ([.kwrite 0 65594 11, .kwrite 1 65594 22] ++ demoD2HOps2)
    s.mq.s.completed = [(0, 0)] ∧ s0.cmdOf 0 0 = none ∧ (s.cmdOf 0 0).map (·.flush) = some true ∧
    demoD2HOps2.all (fun op => !op.isKwrite) = true ∧ s.mlog.all (fun t => !t.write) = true ∧
    s0.view 65594 = 22 ∧ (s.d2hResult 0 0 16)[2]? = some 11 ∧ ¬ Coherent s0.dirty 65594 := by
  refine ⟨by decide +kernel, by decide +kernel, by decide +kernel, by decide +kernel, by decide +kernel,
    by decide +kernel, by decide +kernel, ?_⟩
  intro h
  have := h (1, 65594, 22) (by decide +kernel) (0, 65594, 11) (by decide +kernel) rfl rfl
  cases this

end C11
