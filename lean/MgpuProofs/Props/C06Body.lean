import Lean
import MgpuProofs.C06Body
import MgpuProofs.Props.C06
/-! # C06 — the translated lane bodies ARE instances of the skeleton

`translate/lanebody.go` translates the statements inside the lane loop of every straight-line integer
vector handler of both ALUs literally into `Gen.Lane.raw_<arch>_<name>` (regenerated on every run).
This file closes, for those handlers, the link the notes called the weakest: *fits syntactically ⇒ behaves
as `vexec`*.

* `lane_bodies_uniform` — each translated body is lane-uniform: iteration `i` looks only at bit `i` of the
  64-bit masks, changes only bit `i` of the accumulator, and does the same for every `i` (proved by
  normalising the translated BitVec term; a `== 1` instead of `!= 0`, a shift by another lane, … fails).
* `handler_is_vexec` — the handler as Go runs it (`goRun`: sequential loop, the guard as written, 64-bit
  accumulator) equals `vexec` of the lane-local body, so `seq_eq_par`, `inactive_lanes_unchanged`,
  `lane_independent`, `perm_equivariant` hold for it by instantiation (`go_*` below).
* `translation_matches_facts`, `coverage_partition`, `coverage_summary`, `translated_opcodes` — which
  handlers / opcodes are covered this way and which remain covered by the syntactic fit + the extensional
  test only (float, memory, …), decided over the regenerated tables.

The tie of the translated bodies to the real code is the `c06 body` correspondence (harness/c06_deep.go). -/
namespace C06
open Gen.Lane
set_option linter.unusedSimpArgs false

/-- `LaneUniform lh_X`: unfold the generated definitions, rewrite every bit test / accumulator update at
    the loop variable with the lemmas of `MgpuProofs/C06Body.lean`, and compare -/
macro "lane_uniform" "[" ds:Lean.Parser.Tactic.simpLemma,* "]" : tactic =>
  `(tactic| (
    intro u r hi
    have h0 : (0:Nat) < 64 := by omega
    simp only [LaneHandler.body, LaneHandler.embed, LaneHandler.view, $ds,*,
      ofNat_toNat_lt hi, ofNat_toNat_lt h0, ofNat32_toNat_lt hi, ofNat32_toNat_lt h0,
      test_ne _ _ hi, test_ne _ _ h0, test_eq _ _ hi, test_eq _ _ h0, test_gt _ _ hi, test_gt _ _ h0,
      val_and_shr _ _ hi, val_and_shr _ _ h0, val_shr_and _ _ hi, val_shr_and _ _ h0,
      or_one_shl, and_not_one_shl, or_zero_shl, b2bv_getLsbD_zero, setBit_b2bv_zero,
      dst_ite, acc_ite, getLsbD_ite, setBit_ite, setBit_self _ _ hi, and_self]))

open Lean Elab Tactic Meta in
/-- goal `∀ h ∈ [lh_a, lh_b, …], LaneUniform h`: peel the list; for each generated handler constant unfold
    it and its `raw_…` body and run `lane_uniform`; a body that is not lane-uniform fails the build with
    its name -/
elab "lane_uniform_all" : tactic => do
  let mut fuel := 100000
  while fuel > 0 do
    fuel := fuel - 1
    let g ← getMainGoal
    let t ← instantiateMVars (← g.getType)
    -- t = ∀ h, h ∈ L → LaneUniform h
    let .forallE _ _ body _ := t | throwError "lane_uniform_all: unexpected goal {t}"
    let .forallE _ memTy _ _ := body | throwError "lane_uniform_all: unexpected goal {t}"
    let L ← whnfCore memTy.appFn!.appArg!
    if L.isAppOf ``List.nil then
      evalTactic (← `(tactic| exact List.forall_mem_nil _))
      return
    unless L.isAppOf ``List.cons do throwError "lane_uniform_all: not a list literal: {L}"
    let c := L.appFn!.appArg!
    let some n := c.constName? | throwError "lane_uniform_all: not a generated handler constant: {c}"
    let s := n.getString!
    unless s.startsWith "lh_" do throwError "lane_uniform_all: unexpected constant {n}"
    let rawN := n.getPrefix.str ("raw_" ++ s.drop 3)
    evalTactic (← `(tactic| refine List.forall_mem_cons.mpr ⟨?_, ?_⟩))
    let gs ← getGoals
    let (g1, rest) := (gs.head!, gs.tail)
    setGoals [g1]
    try
      evalTactic (← `(tactic| lane_uniform [$(mkIdent n):ident, $(mkIdent rawN):ident]))
    catch e =>
      throwError "C06: lane body {n} is NOT lane-uniform (normalisation failed: {e.toMessageData})"
    unless (← getGoals).isEmpty do
      throwError "C06: lane body {n} is NOT lane-uniform: iteration i must look only at bit i of VCC / src2 / the accumulator, change only bit i of the accumulator, and do so uniformly in i"
    setGoals rest

/-- **Every translated lane body is lane-uniform** (regenerated obligation over every body the translator emitted:
    the integer ones and the float ones whose arithmetic is opaque; the run's NOTE line has the counts): on arbitrary 64-bit VCC / src2 / accumulator values, iteration `i` writes what the lane-local
    body writes given bit `i` of the masks, and changes the accumulator at bit `i` only. -/
theorem lane_bodies_uniform : ∀ h ∈ Gen.Lane.laneHandlers, LaneUniform h := by
  unfold Gen.Lane.laneHandlers
  lane_uniform_all

example : (Gen.Lane.laneHandlers.any fun h => h.arch == "gcn3" && h.name == "runVADDCU32") = true ∧
    lh_gcn3_runVADDCU32.msrc = .vcc ∧
    (raw_gcn3_runVADDCU32 Uni.zero ⟨5, 0xffffffff#64, 0#64, 0#64, 0#64, 0x20#64, 0x3#64⟩).acc = 0x23#64 := by
  refine ⟨by decide +kernel, rfl, by decide⟩

/-- the tags of the generated table are consistent: a body that reads the accumulator as its mask source
    accumulates in place, and a body whose mask source is the src2 operand does not -/
theorem mask_tags_consistent :
    Gen.Lane.laneHandlers.all (fun h =>
      (h.msrc != .src2 || h.accInit != .vcc) && (h.msrc != .acc || h.accInit == .vcc)) = true := by decide +kernel

example : (Gen.Lane.laneHandlers.filter (fun h => h.accInit != .none)).length ≥ 40 ∧
    (Gen.Lane.laneHandlers.filter (fun h => h.msrc != .none)).length ≥ 10 := by decide +kernel

theorem maskTie_abs (h : LaneHandler) (hm : h ∈ Gen.Lane.laneHandlers) (ops : Ops) (vgpr : Nat → Nat → Nat)
    (vcc0 m : BitVec 64) (hs : IsMaskSource h ops vcc0 m) : MaskTie h ops vcc0 (absState vgpr m vcc0) := by
  have ht := List.all_eq_true.mp mask_tags_consistent h hm
  simp only [Bool.and_eq_true, Bool.or_eq_true, bne_iff_ne, beq_iff_eq, ne_eq] at ht
  exact maskTie_of_tags h ops vgpr vcc0 m hs.1 hs.2
    (fun h2 => by rcases ht.1 with h3 | h3; exact absurd h2 h3; exact h3)
    (fun h2 => by rcases ht.2 with h3 | h3; exact absurd h2 h3; exact h3)

example : lh_gcn3_runVADDCU32VOP3b.msrc = .src2 ∧ lh_gcn3_runVADDCU32VOP3b.accInit = .zero := ⟨rfl, rfl⟩

/-- **A translated handler IS an instance of the skeleton.** For every translated handler, every operand
    placement, every EXEC, VCC and register file: the Go loop — lanes in order on one mutable register
    file, the guard as written, the mask result built in a 64-bit variable — produces exactly the VGPR
    file of `vexec` applied to the lane-local body, and the value it hands to `SetVCC` /
    `WriteOperand(inst.SDst, 0, ·)` is, bit by bit, the mask result of `vexec`. -/
theorem handler_is_vexec (h : LaneHandler) (hm : h ∈ Gen.Lane.laneHandlers) (ops : Ops)
    (exec vcc0 m : BitVec 64) (vgpr : Nat → Nat → Nat) (hs : IsMaskSource h ops vcc0 m) :
    (goRun h ops exec vcc0 vgpr).vgpr = (vexec h.toHandler ops exec (absState vgpr m vcc0)).vgpr ∧
    (h.accInit ≠ .none →
      ∀ l, (goRun h ops exec vcc0 vgpr).acc.getLsbD l = (vexec h.toHandler ops exec (absState vgpr m vcc0)).mout l) := by
  have sim := goLoop_sim h (lane_bodies_uniform h hm) ops exec vcc0 (absState vgpr m vcc0)
    (maskTie_abs h hm ops vgpr vcc0 m hs) 64 (Nat.le_refl _)
  exact ⟨sim.vgpr, sim.mout⟩

example : IsMaskSource lh_gcn3_runVADDCU32 ⟨.vgpr 0 1, .vgpr 1 1, .uni 0, .vgpr 2 1, Uni.zero⟩ 0x5#64 0x5#64 :=
  ⟨fun _ => rfl, fun h => by cases h⟩

/-- a translated body neither loads nor stores: the hypothesis of the generic theorems holds outright -/
theorem translated_load_or_store (h : LaneHandler) : LoadOrStore h.toHandler := Or.inl (fun _ _ => rfl)

/-- **Inactive lanes, at the level of the Go loop**: a lane whose EXEC bit is clear keeps its whole VGPR
    row; its bit of the value written back is 0 for `var x uint64` accumulators and the old VCC bit for
    in-place ones. -/
theorem go_inactive_lanes_unchanged (h : LaneHandler) (hm : h ∈ Gen.Lane.laneHandlers) (ops : Ops)
    (exec vcc0 m : BitVec 64) (vgpr : Nat → Nat → Nat) (hs : IsMaskSource h ops vcc0 m)
    (l : Nat) (hl : exec.getLsbD l = false) :
    (goRun h ops exec vcc0 vgpr).vgpr l = vgpr l ∧
    (h.accInit = .zero → (goRun h ops exec vcc0 vgpr).acc.getLsbD l = false) ∧
    (h.accInit = .vcc → (goRun h ops exec vcc0 vgpr).acc.getLsbD l = vcc0.getLsbD l) := by
  obtain ⟨hv, ha⟩ := handler_is_vexec h hm ops exec vcc0 m vgpr hs
  obtain ⟨h1, h2⟩ := inactive_lanes_unchanged h.toHandler ops exec (absState vgpr m vcc0)
    (translated_load_or_store h) l hl
  refine ⟨by rw [hv, h1]; rfl, ?_, ?_⟩
  · intro hk
    rw [ha (by simp [hk]) l, h2]
    simp [LaneHandler.toHandler, LaneHandler.maskMode, hk]
  · intro hk
    rw [ha (by simp [hk]) l, h2]
    simp [LaneHandler.toHandler, LaneHandler.maskMode, hk, absState]

example : (0x5#64).getLsbD 1 = false ∧ lh_gcn3_runVADDCU32.accInit = .zero := ⟨by decide, rfl⟩

/-- **Lane independence, at the level of the Go loop**: lane `l` of the result (its row, its bit of the
    written-back mask) is determined by lane `l`'s row, its EXEC bit, its bit of the mask source and of VCC. -/
theorem go_lane_independent (h : LaneHandler) (hm : h ∈ Gen.Lane.laneHandlers) (ops : Ops)
    (exec exec' vcc0 vcc0' m m' : BitVec 64) (vgpr vgpr' : Nat → Nat → Nat)
    (hs : IsMaskSource h ops vcc0 m) (hs' : IsMaskSource h { ops with src2 := (match h.msrc with | .src2 => .uni m' | _ => ops.src2) } vcc0' m')
    (l : Nat) (hv : vgpr l = vgpr' l) (he : exec.getLsbD l = exec'.getLsbD l)
    (hmb : m.getLsbD l = m'.getLsbD l) (hvb : vcc0.getLsbD l = vcc0'.getLsbD l) :
    (goRun h ops exec vcc0 vgpr).vgpr l
      = (goRun h { ops with src2 := (match h.msrc with | .src2 => .uni m' | _ => ops.src2) } exec' vcc0' vgpr').vgpr l ∧
    (h.accInit ≠ .none → (goRun h ops exec vcc0 vgpr).acc.getLsbD l
      = (goRun h { ops with src2 := (match h.msrc with | .src2 => .uni m' | _ => ops.src2) } exec' vcc0' vgpr').acc.getLsbD l) := by
  obtain ⟨hv1, ha1⟩ := handler_is_vexec h hm ops exec vcc0 m vgpr hs
  obtain ⟨hv2, ha2⟩ := handler_is_vexec h hm _ exec' vcc0' m' vgpr' hs'
  have hf : ∀ (s : VState), vexec h.toHandler { ops with src2 := (match h.msrc with | .src2 => .uni m' | _ => ops.src2) } exec' s
      = vexec h.toHandler ops exec' s := fun s => seqLoop_src2_irrel h ops m' _ 64 _
  obtain ⟨h1, h2⟩ := lane_independent h.toHandler ops exec exec' (absState vgpr m vcc0) (absState vgpr' m' vcc0')
    (translated_load_or_store h) l hv (by simp [absState, hmb]) (by simp [absState, hvb]) rfl he
  rw [hv1, hv2, hf]
  refine ⟨h1, fun hne => ?_⟩
  rw [ha1 hne l, ha2 hne l, hf]
  exact h2

example : (fun (l r : Nat) => l + r) 3 = (fun (l r : Nat) => if l = 3 then 3 + r else 0) 3 := by funext r; simp

/-- **Permutation equivariance, at the level of the Go loop** (handlers whose mask source is VCC, the
    accumulator or nothing; for a src2 mask the operand value itself is permuted — `go_lane_independent`):
    rename the lanes of the register file, of EXEC and of VCC by `π`; lane `l` of the result is lane `π l` of
    the original result. -/
theorem go_perm_equivariant (h : LaneHandler) (hm : h ∈ Gen.Lane.laneHandlers) (ops : Ops)
    (exec exec' vcc0 vcc0' : BitVec 64) (vgpr : Nat → Nat → Nat) (hns : h.msrc ≠ .src2)
    (π : Nat → Nat) (hπ : ∀ l, l < 64 → π l < 64)
    (hex : ∀ l, l < 64 → exec'.getLsbD l = exec.getLsbD (π l))
    (hvc : ∀ l, l < 64 → vcc0'.getLsbD l = vcc0.getLsbD (π l)) (l : Nat) (hl : l < 64) :
    (goRun h ops exec' vcc0' (fun k => vgpr (π k))).vgpr l = (goRun h ops exec vcc0 vgpr).vgpr (π l) ∧
    (h.accInit ≠ .none →
      (goRun h ops exec' vcc0' (fun k => vgpr (π k))).acc.getLsbD l = (goRun h ops exec vcc0 vgpr).acc.getLsbD (π l)) := by
  have hs : IsMaskSource h ops vcc0 vcc0 := ⟨fun _ => rfl, fun h2 => absurd h2 hns⟩
  have hs' : IsMaskSource h ops vcc0' vcc0' := ⟨fun _ => rfl, fun h2 => absurd h2 hns⟩
  obtain ⟨hv1, ha1⟩ := handler_is_vexec h hm ops exec vcc0 vcc0 vgpr hs
  obtain ⟨hv2, ha2⟩ := handler_is_vexec h hm ops exec' vcc0' vcc0' (fun k => vgpr (π k)) hs'
  -- the permuted abstract state agrees with the abstraction of the permuted Go inputs on lane `l`
  obtain ⟨h1, h2⟩ := lane_independent h.toHandler ops exec' exec' (absState (fun k => vgpr (π k)) vcc0' vcc0')
    (permState π (absState vgpr vcc0 vcc0)) (translated_load_or_store h) l rfl
    (by simp [absState, permState, hvc l hl]) (by simp [absState, permState, hvc l hl]) rfl rfl
  obtain ⟨p1, p2⟩ := perm_equivariant h.toHandler ops exec exec' (absState vgpr vcc0 vcc0)
    (translated_load_or_store h) π hπ hex l hl
  rw [hv1, hv2]
  refine ⟨h1.trans p1, fun hne => ?_⟩
  rw [ha1 hne, ha2 hne]
  exact h2.trans p2

example : ∀ l, l < 64 → (fun l => 63 - l) l < 64 := by intro l _; simp; omega

/-! ## Which handlers are covered by translation (regenerated tables) -/

/-- mask mode of a fact record (`translate/lanes.go`): how its written-back mask variable starts -/
def factAccInit (v : C06Facts.VectorHandler) : AccInit :=
  match v.masks.filter (fun m => m.sinkAfter != 0) with
  | [] => .none
  | m :: _ => if m.init == 0 then .zero else .vcc

/-- **The two independent readings of the source agree**: row `k` of `Gen.Lane.coverage` is about record
    `k` of `Gen.vectorHandlers`; a row marked translated points at a `LaneHandler` with the same name whose
    fact record fits the skeleton and has the same accumulator kind (none / zero / VCC). -/
theorem translation_matches_facts :
    (Gen.Lane.coverage.zipIdx.all fun (row, k) =>
      match Gen.vectorHandlers[k]? with
      | none => false
      | some v => v.arch == row.arch && v.name == row.name &&
        (match row.cov with
         | .translated idx | .translatedF idx =>
           (match Gen.Lane.laneHandlers[idx]? with
            | some h => h.arch == row.arch && h.name == row.name && FitsSkeleton v && factAccInit v == h.accInit
            | none => false)
         | .crossLane => isException v
         | _ => true)) = true ∧
    Gen.Lane.coverage.length = Gen.vectorHandlers.length := by
  constructor <;> decide +kernel

example : Gen.Lane.coverage.length ≥ 300 := by decide +kernel

/-- the handlers a row stands for are translated (a wrapper: all the handlers it can select) -/
def rowTranslated (r : CovRow) : Bool :=
  match r.cov with
  | .translated _ => true
  | .translatedF _ => true
  | .wrapper cs => cs.all fun c => Gen.Lane.coverage.any fun r2 =>
      r2.arch == r.arch && r2.name == c && (match r2.cov with | .translated _ => true | .translatedF _ => true | _ => false)
  | _ => false

/-- a row of the `constant` class points at the `NoLaneHandler` with its name (handlers without lane loop and
    operand access: `vop3aPreprocess/Postprocess`, CDNA3 `v_cmp_f_u64`; `no_lane_handlers_are_vexec` in
    Props/C06Deep.lean) -/
def rowConstant (r : CovRow) : Bool :=
  match r.cov with
  | .constant idx =>
    (match Gen.Lane.noLaneHandlers[idx]? with
     | some h => h.arch == r.arch && h.name == r.name
     | none => false)
  | _ => false

/-- the handlers that are NOT covered by translation and are not DS/FLAT memory code, by name: since the second
    deepening only the documented cross-lane instruction (transcribed by hand: `goReadFirstLane`,
    Props/C06Deep.lean) -/
def untranslatedNames : List (String × String × Cov) :=
  [ ("gcn3", "runVREADFIRSTLANEB32", .crossLane), ("cdna3", "runVREADFIRSTLANEB32", .crossLane) ]

/-- **Summary of the coverage** (tripwire: a handler that leaves or joins the untranslated group changes it
    and must be looked at; new handlers that translate, and new DS/FLAT handlers, pass). Every vector handler
    record of both ALUs is exactly one of
    * covered by TRANSLATION of an integer lane body (`handler_is_vexec`; tied to the code by the `c06 body`
      and `c06 gorun` correspondence) — since the second deepening including bodies with an inner loop with
      constant bounds (`v_bfrev_b32`, `v_ffbh_u32`: a `List.foldl`), three-element slices + `sort.Ints`
      (`v_med3_i32`) — or a wrapper that only selects between translated handlers by instruction fields;
    * a float handler covered by translation of the loop skeleton / mask handling with an opaque float data
      path (`handler_is_vexec` holds; body correspondence for those in `Gen.Lane.exactFloat`) — now including
      `v_med3_f32` (`sort.Float64s`), `v_div_fixup_f64` (helper with a data-dependent `log.Panicf`, listed in
      `Gen.Lane.partialBodies`), `v_cmp_class_f32_e64` (array literal + unrolled `range`);
    * a handler without lane code, translated (`Gen.Lane.noLaneHandlers`);
    * a DS/FLAT memory handler or address helper (`C06Mem`: bodies translated, lane-uniform, load-only or
      store-only proved; loop-level refinement in Props/C06MemLoop.lean), or the operand read wrapper `readF64`;
    * the documented cross-lane instruction `v_readfirstlane_b32` of `untranslatedNames` (hand-transcribed). -/
theorem coverage_summary :
    (Gen.Lane.coverage.all fun r =>
      rowTranslated r || rowConstant r || r.cov == .memory || r.cov == .helper || (r.cov == .operandRead && r.name == "readF64") ||
      untranslatedNames.contains (r.arch, r.name, r.cov)) = true ∧
    (untranslatedNames.all fun u => Gen.Lane.coverage.contains ⟨u.1, u.2.1, u.2.2⟩) = true ∧
    (Gen.Lane.exactFloat.all fun e => Gen.Lane.coverage.any fun r =>
      r.arch == e.1 && r.name == e.2 && (match r.cov with | .translatedF _ => true | _ => false)) = true := by
  decide +kernel

example : (Gen.Lane.coverage.filter rowConstant).length ≥ 5 := by decide +kernel

example : (Gen.Lane.coverage.filter rowTranslated).length ≥ 250 ∧ Gen.Lane.exactFloat.length ≥ 60 := by decide +kernel

example : (Gen.Lane.coverage.all fun r => match r.cov with | .wrapper _ => rowTranslated r | _ => true) = true := by decide +kernel

/-- the vector-ALU opcode-switch entries (VOP1/2/3a/3b/C of both ALUs) whose handler is translated -/
def opcodeTranslated (d : C06Facts.Dispatch) : Bool :=
  -- `d.hidx` is the index of the handler's record (`vector_dispatch_covered` checks the name), and
  -- coverage row `k` is about record `k` (`translation_matches_facts`)
  match Gen.Lane.coverage[d.hidx]? with
  | some r => r.arch == d.arch && r.name == d.handler && rowTranslated r
  | none => false

def aluFormat (f : String) : Bool := ["vop1", "vop2", "vop3a", "vop3b", "vopc"].contains f

/-- **Opcode view**: every VOP1/VOP2/VOP3a/VOP3b/VOPC opcode-switch entry of the two ALUs runs a translated
    lane body (integer or float) or a translated handler without lane code (`v_cmp_f_u64` of CDNA3) — except
    the two entries of `v_readfirstlane_b32` (`untranslatedNames`). -/
theorem translated_opcodes :
    ((Gen.dispatch.filter (fun d => aluFormat d.format)).all fun d =>
      opcodeTranslated d ||
      (match Gen.Lane.coverage[d.hidx]? with
       | some r => r.arch == d.arch && r.name == d.handler &&
           (rowConstant r || untranslatedNames.contains (r.arch, r.name, r.cov))
       | none => false)) = true := by
  decide +kernel

example : (Gen.dispatch.filter (fun d => aluFormat d.format && opcodeTranslated d)).length ≥ 250 ∧
    (Gen.dispatch.filter (fun d => aluFormat d.format && !opcodeTranslated d)).length ≤ 4 := by decide +kernel

example : (Gen.dispatch.filter (fun d => d.handler == "runVADDI32" && opcodeTranslated d)).length ≥ 2 := by decide +kernel

end C06
