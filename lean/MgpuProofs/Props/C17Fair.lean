import MgpuProofs.C17Fair
import MgpuProofs.Props.C17Live
/-! # C17 — fairness of `finalizeBanks`: the starvation observation brought to a decision (width 1)

`liveness_drained_full_refuted` (Props/C17Live.lean) shows that "every tick starts with an empty outgoing buffer" does not
give liveness: `finalizeBanks` serves the banks in index order. Here the hypothesis of `liveness_bounded` ("the port
took all of bank `k`'s responses") is characterised **exactly** on the environment side — room for everything waiting in
banks `0..k` — liveness is restated under that assumption, and the condition under which a draining consumer meets it
automatically is given: at least as many outgoing slots as banks. Helper file `C17Fair.lean`. -/
namespace C17

/-- **Exact characterisation of the fairness condition (bank-index priority).** In the tick of a reachable state the
port takes all of bank `k`'s responses iff bank `k` offers none, or the outgoing buffer has room for everything that
waits in the post-pipeline buffers of banks `0..k` (`postPrefix`): lower-numbered banks are served first and are never
skipped. Holds for every `k` (for `k ≥ banks` both sides are trivially true), so no bound on `k` is assumed. -/
theorem accepts_iff_prefix_room (c : Cfg) (hw : c.width = 1) (ops : List Op) (hok : ∀ op ∈ ops, opOk c op) (k : Nat) :
    accepts c (run c ops) k = true ↔
      (postLen (run c ops) k = 0 ∨ (run c ops).outBuf.length + postPrefix (run c ops) k ≤ c.top) :=
  accepts_iff_room c _ (run_inv c hw ops) (run_LI c ops hok hw) k

/-- **Liveness under exactly that assumption.** An accepted request is answered once the continuation contains
`remaining` ticks that start with room in the outgoing buffer for everything waiting in banks `0..bank(r)` — a condition
on what the environment leaves in the buffer, not on the component's decision. -/
theorem liveness_prefix_room (c : Cfg) (hw : c.width = 1) (hd : 0 < c.depth) (hp : 0 < c.post) (hb : 0 < c.banks)
    (ops1 ops2 : List Op) (hok : ∀ op ∈ ops1 ++ ops2, opOk c op) (r : Req) (hr : r ∈ (run c ops1).arrived)
    (hn : remaining c (run c ops1) r ≤ roomTicks c (bankOf c r.addr) (run c ops1) ops2) :
    r ∈ (run c (ops1 ++ ops2)).resp.map (·.req) :=
  liveness_bounded c hw hd hp hb ops1 ops2 hok r hr
    (Nat.le_trans hn (roomTicks_le_accepting c _ ops2 _ (run_inv c hw ops1)
      (run_LI c ops1 (fun op h => hok op (by simp [h])) hw) (fun op h => hok op (by simp [h]))))

/-- **With at least as many outgoing slots as banks, a consumer that always drains is served fairly.** If every tick of
the run started with an empty outgoing buffer (`AllDrained`) and the buffer is empty again, the next tick takes every
bank's responses: along such a run at most one response waits per bank (one lane delivers one item per tick, and the
previous tick took everything), so `banks` slots are enough. -/
theorem drained_run_accepts (c : Cfg) (hw : c.width = 1) (htop : c.banks ≤ c.top) (ops : List Op)
    (hok : ∀ op ∈ ops, opOk c op) (hdr : AllDrained c (init c) ops) (hempty : (run c ops).outBuf = []) (k : Nat) :
    accepts c (run c ops) k = true := by
  have hfold := drained_fold c htop ops (init c) (init_inv c hw) (init_LI c) (init_calm c) hok hdr
  change Inv c (run c ops) ∧ LI c (run c ops) ∧ Calm (run c ops) ∧ _ at hfold
  obtain ⟨h, hl, hc, _⟩ := hfold
  apply accepts_of_room' c _ h hl
  have := postTotal_le_of_calm _ hc
  rw [hl.nb] at this
  rw [hempty]
  simp only [List.length_nil]
  omega

/-- **The partial statement that survives.** `liveness_drained_full` (refuted in general) holds when `banks ≤ top` and
the consumer drains from the start: then every tick of the continuation counts, so `remaining` plain ticks — at most
`(ahead + 1) · latencyBound` by `latency_bound` — answer the request. The refuting scenario has `banks = 2 > top = 1`. -/
theorem liveness_drained_partial (c : Cfg) (hw : c.width = 1) (hd : 0 < c.depth) (hp : 0 < c.post) (hb : 0 < c.banks)
    (htop : c.banks ≤ c.top) (ops1 ops2 : List Op) (hok : ∀ op ∈ ops1 ++ ops2, opOk c op)
    (hdr : AllDrained c (init c) (ops1 ++ ops2)) (r : Req) (hr : r ∈ (run c ops1).arrived)
    (hn : remaining c (run c ops1) r ≤ countTicks ops2) :
    r ∈ (run c (ops1 ++ ops2)).resp.map (·.req) := by
  obtain ⟨d1, d2⟩ := AllDrained_append c ops1 ops2 (init c) hdr
  obtain ⟨h, hl, hc, _⟩ := drained_fold c htop ops1 (init c) (init_inv c hw) (init_LI c) (init_calm c)
    (fun op ho => hok op (by simp [ho])) d1
  obtain ⟨_, _, _, hacc⟩ := drained_fold c htop ops2 _ h hl hc (fun op ho => hok op (by simp [ho])) d2
  apply liveness_bounded c hw hd hp hb ops1 ops2 hok r hr
  show remaining c (run c ops1) r ≤ acceptingTicks c (bankOf c r.addr) (ops1.foldl (step c) (init c)) ops2
  rw [hacc]
  exact hn

/-! ### non-vacuity -/

/-- `starveCfg` with two outgoing slots instead of one: `banks = 2 ≤ top = 2` -/
def fairCfg : Cfg := ⟨2, 6, 1, 1, 1, 8, 5, 1, 2, none, none⟩
/-- one write per tick to bank 0, the consumer retrieves everything (up to `top = 2` responses) after every tick -/
def drainRounds (n : Nat) : List Op := (List.range n).flatMap fun i => [.deliver .wr 0 1 [i] none, .tick, .out 2]
def rd6 : Req := ⟨6, .rd, 0x40, 1, [], none⟩

/-- the iff on the starvation scenario, 9 rounds after the read of bank 1 arrived: one slot — bank 1 is refused, it
offers one response and there is no room for the two responses of banks 0..1; two slots — accepted, with room. -/
example : accepts starveCfg (run starveCfg (starvePre ++ starveRounds 9)) 1 = false ∧
    postLen (run starveCfg (starvePre ++ starveRounds 9)) 1 = 1 ∧
    (run starveCfg (starvePre ++ starveRounds 9)).outBuf.length + postPrefix (run starveCfg (starvePre ++ starveRounds 9)) 1 = 2 ∧
    accepts fairCfg (run fairCfg (starvePre ++ starveRounds 7)) 1 = true ∧
    postLen (run fairCfg (starvePre ++ starveRounds 7)) 1 = 1 ∧
    (run fairCfg (starvePre ++ starveRounds 7)).outBuf.length + postPrefix (run fairCfg (starvePre ++ starveRounds 7)) 1 = 2 := by
  decide +kernel

/-- the first disjunct is needed: outgoing buffer full (1 of 1), a response of bank 0 waiting, bank 1 offers nothing —
accepted without room -/
example : accepts tiny (run tiny ([.deliver .wr 0 1 [1] none, .tick, .tick, .tick, .tick] ++
      [.deliver .wr 0 1 [2] none, .tick, .tick, .tick, .tick, .tick])) 1 = true ∧
    postLen (run tiny ([.deliver .wr 0 1 [1] none, .tick, .tick, .tick, .tick] ++
      [.deliver .wr 0 1 [2] none, .tick, .tick, .tick, .tick, .tick])) 1 = 0 ∧
    ¬ ((run tiny ([.deliver .wr 0 1 [1] none, .tick, .tick, .tick, .tick] ++
      [.deliver .wr 0 1 [2] none, .tick, .tick, .tick, .tick, .tick])).outBuf.length +
      postPrefix (run tiny ([.deliver .wr 0 1 [1] none, .tick, .tick, .tick, .tick] ++
      [.deliver .wr 0 1 [2] none, .tick, .tick, .tick, .tick, .tick])) 1 ≤ tiny.top) := by
  decide +kernel

/-- the refuted case is exactly the case in which the assumption fails: on `starveCfg` request 6 needs 8 ticks, only 7
of the 60 ticks of `starveRounds 60` (all starting with an empty buffer) have room for banks 0..1 — and those are all
the accepting ticks -/
example : remaining starveCfg (run starveCfg starvePre) rd6 = 8 ∧
    roomTicks starveCfg 1 (run starveCfg starvePre) (starveRounds 60) = 7 ∧
    acceptingTicks starveCfg 1 (run starveCfg starvePre) (starveRounds 60) = 7 ∧
    drainedTicks starveCfg (run starveCfg starvePre) (starveRounds 60) = 60 := by
  decide +kernel

/-- the same op sequence with two outgoing slots: every one of the 12 ticks has room, request 6 IS answered -/
example : rd6 ∈ (run fairCfg (starvePre ++ starveRounds 12)).resp.map (·.req) :=
  liveness_prefix_room fairCfg rfl (by decide) (by decide) (by decide) starvePre (starveRounds 12) (by decide +kernel) rd6
    (by decide +kernel) (by decide +kernel)

/-- … whereas with one slot it is not (the scenario of `liveness_drained_full_refuted`, here after 12 rounds) -/
example : rd6 ∉ (run starveCfg (starvePre ++ starveRounds 12)).resp.map (·.req) := by decide +kernel

/-- `drained_run_accepts` applies: `fairCfg`, the stream to bank 0 plus the read of bank 1, everything retrieved after
every tick -/
example : accepts fairCfg (run fairCfg (drainRounds 6 ++ [.deliver .rd 0x40 1 [] none, .tick, .out 2] ++ drainRounds 3)) 1 = true :=
  drained_run_accepts fairCfg rfl (by decide) _ (by decide +kernel) (by decide +kernel) (by decide +kernel) 1

/-- `liveness_drained_partial` applies: request 6 (`remaining = 9`) is answered within 13 plain ticks although the
stream to bank 0 continues. On `starveCfg` (`banks = 2 > top = 1`) the hypothesis `htop` fails — this is exactly the
refuted case, and there the same drained continuation (it is `AllDrained`) starves the request. -/
example : rd6 ∈ (run fairCfg ((drainRounds 6 ++ [.deliver .rd 0x40 1 [] none]) ++ (.tick :: .out 2 :: drainRounds 12))).resp.map (·.req) :=
  liveness_drained_partial fairCfg rfl (by decide) (by decide) (by decide) (by decide) _ _ (by decide +kernel)
    (by decide +kernel) rd6 (by decide +kernel) (by decide +kernel)

example : ¬ (starveCfg.banks ≤ starveCfg.top) ∧ AllDrained starveCfg (init starveCfg) (starvePre ++ starveRounds 60) ∧
    rd6 ∉ (run starveCfg (starvePre ++ starveRounds 60)).resp.map (·.req) := by decide +kernel

/-- MI300A (16 banks, 1024 outgoing slots) meets `htop`; the write to 0x40 is answered after `remaining = 60` ticks of a
consumer that retrieves everything after every tick, another arrival in between -/
example : mi300aL.banks ≤ mi300aL.top := by decide

example : wr0 ∈ (run mi300aL ([.deliver .wr 0x40 4 [1, 2, 3, 4] none] ++
    (.tick :: .out 1024 :: .deliver .rd 0x40 4 [] none :: (List.range 59).flatMap fun _ => [.tick, .out 1024]))).resp.map (·.req) :=
  liveness_drained_partial mi300aL rfl (by decide) (by decide) (by decide) (by decide) _ _ (by decide +kernel)
    (by decide +kernel) wr0 (by decide +kernel) (by decide +kernel)

end C17
