import MgpuModel.C07
namespace C07
theorem stub : True := trivial
end C07
