import MgpuProofs.C07Rel
set_option linter.unusedVariables false
set_option linter.unusedSimpArgs false
/-! # C07 — property theorems (architectural registers are independent cells with ISA-defined aliasing;
the register stores of emulation and timing mode agree)

Spec: `Cells` (MgpuModel/C07_Spec.lean) — a wavefront's SGPRs, VGPRs of 64 lanes, VCC, EXEC, SCC, M0 as
a flat record; an access `Acc` (register kind, `RegCount`, lane) denotes the list of cells
`Acc.cells`. Models: `EmuRF` (emu.Wavefront) and `TimingRF` (one compute unit's shared register files
with all resident wavefronts), transcribed from the code after the `fix:` commits
(MgpuModel/C07.lean). `absE` / `absT` map a store to the cells it holds. `a.Supported ns nv` is the
supported subset: 1..16 consecutive registers inside the wavefront's allocation, lanes 0..63, the
32-bit names of VCC/EXEC alone (or, low name, as the pair), SCC, M0. Helper lemmas: MgpuProofs/C07*.lean. -/
namespace C07
open Gen

/-- **The spec's cells are independent and alias as the ISA says.** An access reads exactly the
cells it denotes (a multi-register operand is `s[n..n+k)` / `v[n..n+k)` of its lane, `vcc`/`exec`
are the pair low-half, high-half), in order, each at its width; writing then reading returns what
was written; and a write changes no cell outside the denoted ones (no other register, no other
lane, no other half). -/
theorem cells_access_exact (c : Cells) (a : Acc) (d : List UInt8) (hd : d.length = a.width) :
    c.readBytes a = a.cells.flatMap c.cellBytes ∧
    (c.writeBytes a d).readBytes a = d ∧
    ∀ id, id ∉ a.cells → (c.writeBytes a d).cell id = c.cell id :=
  ⟨cells_read_eq_cells c a, cells_read_after_write c a d hd, fun id h => cells_frame c a d id h⟩

example : (⟨.v 3, 4, 17⟩ : Acc).cells = [.v 17 3, .v 17 4, .v 17 5, .v 17 6] ∧
    (⟨.vcclo, 2, 0⟩ : Acc).cells = [.vccLo, .vccHi] ∧ (⟨.vcchi, 0, 0⟩ : Acc).width = 4 := by decide

/-- **The emulator's store refines the cells.** For every state with the file sizes `NewWavefront`
allocates and every supported access: `ReadOperandBytes` returns the bytes of the denoted cells
(truncated to the requested count), `ReadOperand` their first 64 bits; `WriteOperandBytes` with data
of the operand's width and `WriteOperand` (operands up to 64 bits) succeed and the store afterwards
holds exactly `Cells.writeBytes` of the cells it held before — so, by `cells_access_exact`, no other
register, lane or half is disturbed. -/
theorem emu_refines_cells (e : EmuRF) (a : Acc) (hs : e.Sized) (ha : a.Supported 102 256) :
    (∀ n, e.readOperandBytes a.k.reg a.rc a.lane n = .ok (((absE e).readBytes a).take n)) ∧
    e.readOperand a.k.reg a.rc a.lane = .ok ((absE e).read a) ∧
    (∀ d : List UInt8, d.length = a.width →
      (e.writeOperandBytes a.k.reg a.rc a.lane d).2 = none ∧
      absE (e.writeOperandBytes a.k.reg a.rc a.lane d).1 = (absE e).writeBytes a d ∧
      (e.writeOperandBytes a.k.reg a.rc a.lane d).1.Sized) ∧
    (∀ v, a.width ≤ 8 →
      (e.writeOperand a.k.reg a.rc a.lane v).2 = none ∧
      absE (e.writeOperand a.k.reg a.rc a.lane v).1 = (absE e).write a v ∧
      (e.writeOperand a.k.reg a.rc a.lane v).1.Sized) := by
  refine ⟨fun n => ?_, emu_readOperand e a hs ha, fun d hd => emu_writeReg e a d hs ha hd, fun v hw => ?_⟩
  · simp only [EmuRF.readOperandBytes, emu_readReg e a hs ha, take_or]
  · rw [emu_writeOperand e a v ha hw]
    have hl : ((toLE 8 v).take a.width).length = a.width := by simp; omega
    exact emu_writeReg e a _ hs ha hl

/-- a concrete emulator store and accesses meeting the hypotheses -/
def e0 : EmuRF := ⟨Array.replicate 408 7, Array.replicate 65536 9, 5, 6, 1, 2⟩
example : e0.Sized ∧ (⟨.v 250, 4, 63⟩ : Acc).Supported 102 256 ∧ (⟨.s 86, 16, 0⟩ : Acc).Supported 102 256 ∧
    (⟨.exechi, 0, 0⟩ : Acc).Supported 102 256 := by
  refine ⟨⟨by simp [e0], by simp [e0]⟩, by decide, by decide, by decide⟩

/-- **The timing store refines the cells of every resident wavefront, and co-resident wavefronts do
not disturb each other.** For a compute unit `t`, a resident wavefront `wi` whose allocation lies
inside the register files (`Fits`) and a supported access inside that allocation: reads return the
denoted cells of *this* wavefront; writes of the operand's width succeed, leave the layout alone,
change this wavefront's cells exactly as `Cells.writeBytes` says, and leave the cells of every other
wavefront `wj` whose regions are disjoint from the writer's (`RegionsDisjoint`, discharged by
property C09: the resource manager never hands out overlapping regions) exactly as they were. -/
theorem timing_refines_cells (t : TimingRF) (wi : Nat) (a : Acc) (hwi : wi < t.wfs.size)
    (hf : Fits t (t.wf wi)) (ha : a.Supported (t.wf wi).ns (t.wf wi).nv) :
    (∀ n, t.readOperandBytes wi a.k.reg a.rc a.lane n = .ok (((absT t (t.wf wi)).readBytes a).take n)) ∧
    t.readOperand wi a.k.reg a.rc a.lane = .ok ((absT t (t.wf wi)).read a) ∧
    (∀ d : List UInt8, d.length = a.width →
      (t.writeOperandBytes wi a.k.reg a.rc a.lane d).2 = none ∧
      absT (t.writeOperandBytes wi a.k.reg a.rc a.lane d).1 ((t.writeOperandBytes wi a.k.reg a.rc a.lane d).1.wf wi)
        = (absT t (t.wf wi)).writeBytes a d ∧
      SameLayout t (t.writeOperandBytes wi a.k.reg a.rc a.lane d).1 ∧
      ∀ wj, wj ≠ wi → Fits t (t.wf wj) → RegionsDisjoint (t.wf wi) (t.wf wj) →
        absT (t.writeOperandBytes wi a.k.reg a.rc a.lane d).1 ((t.writeOperandBytes wi a.k.reg a.rc a.lane d).1.wf wj)
          = absT t (t.wf wj)) ∧
    (∀ v, a.width ≤ 8 →
      t.writeOperand wi a.k.reg a.rc a.lane v =
        t.writeOperandBytes wi a.k.reg a.rc a.lane ((toLE 8 v).take a.width)) := by
  refine ⟨fun n => tim_readOperandBytes t wi a n hf ha, tim_readOperand t wi a hf ha,
    fun d hd => tim_writeReg t wi a d hwi hf ha hd, fun v hw => ?_⟩
  have hnv : (t.wf wi).nv ≤ 256 := by have := hf.hrow; omega
  exact tim_writeOperand t wi a v ha hf.hns hnv hw

/-- three wavefronts on one SIMD with pairwise disjoint regions -/
def t0 : TimingRF :=
  ⟨Array.replicate 12800 3, #[Array.replicate 65536 4], #[⟨0, 0, 0, 32, 24, 1, 2, 0, 3⟩, ⟨0, 128, 96, 16, 8, 0, 0, 0, 0⟩,
    ⟨0, 192, 512, 102, 128, 0, 0, 1, 0⟩]⟩
example : Fits t0 (t0.wf 0) ∧ Fits t0 (t0.wf 1) ∧ Fits t0 (t0.wf 2) ∧ RegionsDisjoint (t0.wf 0) (t0.wf 1) ∧
    RegionsDisjoint (t0.wf 0) (t0.wf 2) ∧ RegionsDisjoint (t0.wf 1) (t0.wf 2) ∧
    (⟨.v 20, 4, 63⟩ : Acc).Supported (t0.wf 0).ns (t0.wf 0).nv := by
  have h : ∀ i, i < 3 → Fits t0 (t0.wf i) := by
    intro i hi
    have : i = 0 ∨ i = 1 ∨ i = 2 := by omega
    rcases this with rfl | rfl | rfl <;>
      exact ⟨by simp [t0, TimingRF.wf], by simp [t0, TimingRF.wf], by simp [t0, TimingRF.wf],
        by simp [t0, TimingRF.wf, TimingRF.vfileOf], by simp [t0, TimingRF.wf]⟩
  refine ⟨h 0 (by omega), h 1 (by omega), h 2 (by omega), ?_, ?_, ?_, ?_⟩ <;>
    simp [RegionsDisjoint, Acc.Supported, cnt, t0, TimingRF.wf]

/-- **A value written to a register operand is read back unchanged at the same width** (both stores):
after `WriteOperand v` on a supported operand of `w ≤ 8` bytes, `ReadOperand` returns `v mod 2^(8w)`. -/
theorem write_then_read (a : Acc) (v : Nat) (hw : a.width ≤ 8) :
    (∀ (e : EmuRF), e.Sized → a.Supported 102 256 →
      (e.writeOperand a.k.reg a.rc a.lane v).1.readOperand a.k.reg a.rc a.lane = .ok (v % 256 ^ a.width)) ∧
    (∀ (t : TimingRF) (wi : Nat), wi < t.wfs.size → Fits t (t.wf wi) → a.Supported (t.wf wi).ns (t.wf wi).nv →
      (t.writeOperand wi a.k.reg a.rc a.lane v).1.readOperand wi a.k.reg a.rc a.lane = .ok (v % 256 ^ a.width)) := by
  have hl : ((toLE 8 v).take a.width).length = a.width := by simp; omega
  have key : ∀ c : Cells, (c.write a v).read a = v % 256 ^ a.width := by
    intro c
    simp only [Cells.write, Cells.read, cells_read_after_write c a _ hl]
    rw [List.take_of_length_le (by omega), take_toLE _ _ _ hw, leNat_toLE]
  refine ⟨fun e hs ha => ?_, fun t wi hwi hf ha => ?_⟩
  · obtain ⟨_, h2, h3⟩ := (emu_refines_cells e a hs ha).2.2.2 v hw
    rw [(emu_refines_cells _ a h3 ha).2.1, h2, key]
  · have hnv : (t.wf wi).nv ≤ 256 := by have := hf.hrow; omega
    rw [tim_writeOperand t wi a v ha hf.hns hnv hw]
    obtain ⟨_, h2, h3, _⟩ := (timing_refines_cells t wi a hwi hf ha).2.2.1 _ hl
    have hf' := h3.fits wi hf
    obtain ⟨l1, l2, l3, l4, l5⟩ := h3.lay wi
    have ha' : a.Supported (((t.writeOperandBytes wi a.k.reg a.rc a.lane ((toLE 8 v).take a.width)).1).wf wi).ns
        (((t.writeOperandBytes wi a.k.reg a.rc a.lane ((toLE 8 v).take a.width)).1).wf wi).nv := by
      rw [l4, l5]; exact ha
    rw [tim_readOperand _ wi a hf' ha', h2]
    exact congrArg _ (key _)

example : (⟨.vcchi, 1, 0⟩ : Acc).width ≤ 8 ∧ (⟨.s 4, 2, 0⟩ : Acc).width ≤ 8 := by decide

/-- **Both stores give identical answers for every supported access.** If an emulator store and a
timing wavefront hold the same values in the registers the wavefront owns (`Agree`), then every
read (`ReadOperandBytes` for any byte count, `ReadOperand`) returns the same result in both, every
write (`WriteOperandBytes` of the operand's width, `WriteOperand` up to 64 bits) succeeds in both,
and afterwards they still agree — so by induction whole access sequences answer identically. -/
theorem emu_timing_same_answers (e : EmuRF) (t : TimingRF) (wi : Nat) (a : Acc) (hs : e.Sized)
    (hwi : wi < t.wfs.size) (hf : Fits t (t.wf wi)) (ha : a.Supported (t.wf wi).ns (t.wf wi).nv)
    (hag : Agree (absE e) (absT t (t.wf wi)) (t.wf wi).ns (t.wf wi).nv) :
    (∀ n, e.readOperandBytes a.k.reg a.rc a.lane n = t.readOperandBytes wi a.k.reg a.rc a.lane n) ∧
    e.readOperand a.k.reg a.rc a.lane = t.readOperand wi a.k.reg a.rc a.lane ∧
    (∀ d : List UInt8, d.length = a.width →
      (e.writeOperandBytes a.k.reg a.rc a.lane d).2 = none ∧ (t.writeOperandBytes wi a.k.reg a.rc a.lane d).2 = none ∧
      Agree (absE (e.writeOperandBytes a.k.reg a.rc a.lane d).1)
        (absT (t.writeOperandBytes wi a.k.reg a.rc a.lane d).1 ((t.writeOperandBytes wi a.k.reg a.rc a.lane d).1.wf wi))
        (t.wf wi).ns (t.wf wi).nv) ∧
    (∀ v, a.width ≤ 8 →
      (e.writeOperand a.k.reg a.rc a.lane v).2 = none ∧ (t.writeOperand wi a.k.reg a.rc a.lane v).2 = none ∧
      Agree (absE (e.writeOperand a.k.reg a.rc a.lane v).1)
        (absT (t.writeOperand wi a.k.reg a.rc a.lane v).1 ((t.writeOperand wi a.k.reg a.rc a.lane v).1.wf wi))
        (t.wf wi).ns (t.wf wi).nv) := by
  have hnv : (t.wf wi).nv ≤ 256 := by have := hf.hrow; omega
  have ha' : a.Supported 102 256 := supported_mono a _ _ _ _ hf.hns hnv ha
  obtain ⟨e1, e2, e3, e4⟩ := emu_refines_cells e a hs ha'
  obtain ⟨t1, t2, t3, t4⟩ := timing_refines_cells t wi a hwi hf ha
  have hrb := readBytes_agree _ _ _ _ a hag ha
  refine ⟨fun n => by rw [e1, t1, hrb], by rw [e2, t2, Cells.read, Cells.read, hrb], fun d hd => ?_, fun v hw => ?_⟩
  · obtain ⟨x1, x2, _⟩ := e3 d hd
    obtain ⟨y1, y2, _⟩ := t3 d hd
    exact ⟨x1, y1, by rw [x2, y2]; exact writeBytes_agree _ _ _ _ a d hag⟩
  · obtain ⟨x1, x2, _⟩ := e4 v hw
    have hl : ((toLE 8 v).take a.width).length = a.width := by simp; omega
    obtain ⟨y1, y2, _⟩ := t3 _ hl
    rw [t4 v hw]
    exact ⟨x1, y1, by rw [x2, y2]; exact writeBytes_agree _ _ _ _ a _ hag⟩

/-- **Register release clears exactly the finished wavefront's allocation.** `resetRegisterValue` for
a resident wavefront whose allocation lies inside the files succeeds, changes no wavefront record
and no layout; afterwards every SGPR and every VGPR (all 64 lanes) of that wavefront reads 0, every
byte of the scalar file outside its SGPR window and every byte of every vector file outside its
VGPR window (in each lane row) is what it was, and hence every other wavefront with disjoint
regions (C09) holds exactly the cells it held before. -/
theorem release_clears_only_own (t : TimingRF) (wi : Nat) (hf : Fits t (t.wf wi)) :
    (t.release wi).2 = none ∧ (t.release wi).1.wfs = t.wfs ∧ SameLayout t (t.release wi).1 ∧
    (∀ i, (absT (t.release wi).1 (t.wf wi)).s i = 0) ∧
    (∀ l i, (absT (t.release wi).1 (t.wf wi)).v l i = 0) ∧
    (∀ p, ¬ ownS (t.wf wi) p → get (t.release wi).1.sfile p = get t.sfile p) ∧
    (∀ (x : TWf) p, ¬ (x.simd = (t.wf wi).simd ∧ ownV (t.wf wi) p) →
      get ((t.release wi).1.vfileOf x) p = get (t.vfileOf x) p) ∧
    (∀ wj, wj ≠ wi → Fits t (t.wf wj) → RegionsDisjoint (t.wf wi) (t.wf wj) →
      absT (t.release wi).1 ((t.release wi).1.wf wj) = absT t (t.wf wj)) := by
  obtain ⟨r1, r2, r3, r4, r5, r6, r7, r8, r9⟩ := release_bytes t wi hf
  have hwf : ∀ wj, (t.release wi).1.wf wj = t.wf wj := fun wj => by simp only [TimingRF.wf, r2]
  refine ⟨r1, r2, ⟨by rw [r2], r3, r4, r5, fun wj => by rw [hwf]; exact ⟨rfl, rfl, rfl, rfl, rfl⟩⟩,
    fun i => ?_, fun l i => ?_, r7, r9, fun wj hne hfj hdis => ?_⟩
  · exact winCells_zero _ _ _ (fun p h1 h2 => r6 p ⟨h1, h2⟩) i
  · simp only [absT, laneCells]
    split
    · rename_i hl
      exact winCells_zero _ _ _ (fun p h1 h2 => r8 p ⟨l, by omega, by omega, h1, h2⟩) i
    · rfl
  · rw [hwf]
    obtain ⟨d1, d2⟩ := hdis
    have hfi := hf.hrow
    have hfj' := hfj.hrow
    have hS : winCells (t.release wi).1.sfile (t.wf wj).soff (t.wf wj).ns = winCells t.sfile (t.wf wj).soff (t.wf wj).ns :=
      winCells_congr _ _ _ _ (fun p h1 h2 => r7 p (by unfold ownS; omega))
    have hV : laneCells ((t.release wi).1.vfileOf (t.wf wj)) (t.wf wj).voff (t.wf wj).nv =
        laneCells (t.vfileOf (t.wf wj)) (t.wf wj).voff (t.wf wj).nv := by
      funext l
      simp only [laneCells]
      split
      · rename_i hl
        apply winCells_congr
        intro p h1 h2
        apply r9
        rintro ⟨hsimd, l', _, _, h3, h4⟩
        rcases d2 with d2 | d2 | d2
        · exact d2 hsimd.symm
        · omega
        · omega
      · rfl
    simp only [absT, hS, hV]

example : Fits t0 (t0.wf 1) ∧ ownS (t0.wf 1) 130 ∧ ¬ ownS (t0.wf 1) 192 ∧ ownV (t0.wf 1) (96 + 1024 * 5 + 31) := by
  refine ⟨⟨by simp [t0, TimingRF.wf], by simp [t0, TimingRF.wf], by simp [t0, TimingRF.wf],
      by simp [t0, TimingRF.wf, TimingRF.vfileOf], by simp [t0, TimingRF.wf]⟩, ?_, ?_, ?_⟩
  · simp [ownS, t0, TimingRF.wf]
  · simp [ownS, t0, TimingRF.wf]
  · exact ⟨5, by omega, by omega, by simp [t0, TimingRF.wf], by simp [t0, TimingRF.wf]⟩

/-! ## access sequences -/

/-- one operand access of an instruction -/
inductive Op where
  | rb (a : Acc) (n : Nat)          -- ReadOperandBytes
  | r (a : Acc)                     -- ReadOperand
  | wb (a : Acc) (d : List UInt8)   -- WriteOperandBytes
  | w (a : Acc) (v : Nat)           -- WriteOperand

/-- the access is in the supported subset and carries data of the operand's width -/
def Op.Ok (ns nv : Nat) : Op → Prop
  | .rb a _ => a.Supported ns nv
  | .r a => a.Supported ns nv
  | .wb a d => a.Supported ns nv ∧ d.length = a.width
  | .w a _ => a.Supported ns nv ∧ a.width ≤ 8

/-- what an access answers: bytes, a value, or completion — or the fault -/
inductive Out where
  | bytes (x : Except Fault (List UInt8))
  | val (x : Except Fault Nat)
  | done (f : Option Fault)

def EmuRF.step (e : EmuRF) : Op → EmuRF × Out
  | .rb a n => (e, .bytes (e.readOperandBytes a.k.reg a.rc a.lane n))
  | .r a => (e, .val (e.readOperand a.k.reg a.rc a.lane))
  | .wb a d => ((e.writeOperandBytes a.k.reg a.rc a.lane d).1, .done (e.writeOperandBytes a.k.reg a.rc a.lane d).2)
  | .w a v => ((e.writeOperand a.k.reg a.rc a.lane v).1, .done (e.writeOperand a.k.reg a.rc a.lane v).2)

def TimingRF.step (t : TimingRF) (wi : Nat) : Op → TimingRF × Out
  | .rb a n => (t, .bytes (t.readOperandBytes wi a.k.reg a.rc a.lane n))
  | .r a => (t, .val (t.readOperand wi a.k.reg a.rc a.lane))
  | .wb a d => ((t.writeOperandBytes wi a.k.reg a.rc a.lane d).1, .done (t.writeOperandBytes wi a.k.reg a.rc a.lane d).2)
  | .w a v => ((t.writeOperand wi a.k.reg a.rc a.lane v).1, .done (t.writeOperand wi a.k.reg a.rc a.lane v).2)

def EmuRF.run (e : EmuRF) : List Op → List Out
  | [] => []
  | o :: ops => (e.step o).2 :: EmuRF.run (e.step o).1 ops

def TimingRF.run (t : TimingRF) (wi : Nat) : List Op → List Out
  | [] => []
  | o :: ops => (t.step wi o).2 :: TimingRF.run (t.step wi o).1 wi ops

/-- **Whole access sequences answer identically in both modes.** Starting from an emulator store and
a timing wavefront that hold the same register values, every sequence of supported operand reads and
writes produces the same list of answers in both stores. -/
theorem emu_timing_same_answers_seq (ops : List Op) :
    ∀ (e : EmuRF) (t : TimingRF) (wi : Nat), e.Sized → wi < t.wfs.size → Fits t (t.wf wi) →
      Agree (absE e) (absT t (t.wf wi)) (t.wf wi).ns (t.wf wi).nv →
      (∀ o ∈ ops, o.Ok (t.wf wi).ns (t.wf wi).nv) → e.run ops = t.run wi ops := by
  induction ops with
  | nil => intros; rfl
  | cons o ops ih =>
    intro e t wi hs hwi hf hag hok
    have ho := hok o (by simp)
    have hrest : ∀ o' ∈ ops, o'.Ok (t.wf wi).ns (t.wf wi).nv := fun o' h => hok o' (by simp [h])
    have hnv : (t.wf wi).nv ≤ 256 := by have := hf.hrow; omega
    cases o with
    | rb a n =>
      obtain ⟨s1, _, _, _⟩ := emu_timing_same_answers e t wi a hs hwi hf ho hag
      simp only [EmuRF.run, TimingRF.run, EmuRF.step, TimingRF.step, s1 n]
      rw [ih e t wi hs hwi hf hag hrest]
    | r a =>
      obtain ⟨_, s2, _, _⟩ := emu_timing_same_answers e t wi a hs hwi hf ho hag
      simp only [EmuRF.run, TimingRF.run, EmuRF.step, TimingRF.step, s2]
      rw [ih e t wi hs hwi hf hag hrest]
    | wb a d =>
      obtain ⟨ha, hd⟩ := ho
      obtain ⟨_, _, s3, _⟩ := emu_timing_same_answers e t wi a hs hwi hf ha hag
      obtain ⟨x1, x2, x3⟩ := s3 d hd
      obtain ⟨_, _, y3, _⟩ := (timing_refines_cells t wi a hwi hf ha).2.2.1 d hd
      have hs' := ((emu_refines_cells e a hs (supported_mono a _ _ _ _ hf.hns hnv ha)).2.2.1 d hd).2.2
      obtain ⟨l1, l2, l3, l4, l5⟩ := y3.lay wi
      simp only [EmuRF.run, TimingRF.run, EmuRF.step, TimingRF.step, x1, x2]
      rw [ih _ _ wi hs' (by rw [y3.nwf]; exact hwi) (y3.fits wi hf) (by rw [l4, l5]; exact x3)
        (by rw [l4, l5]; exact hrest)]
    | w a v =>
      obtain ⟨ha, hw⟩ := ho
      obtain ⟨_, _, _, s4⟩ := emu_timing_same_answers e t wi a hs hwi hf ha hag
      obtain ⟨x1, x2, x3⟩ := s4 v hw
      have hl : ((toLE 8 v).take a.width).length = a.width := by simp; omega
      have tw := (timing_refines_cells t wi a hwi hf ha).2.2.2 v hw
      obtain ⟨_, _, y3, _⟩ := (timing_refines_cells t wi a hwi hf ha).2.2.1 _ hl
      rw [← tw] at y3
      have hs' := ((emu_refines_cells e a hs (supported_mono a _ _ _ _ hf.hns hnv ha)).2.2.2 v hw).2.2
      obtain ⟨l1, l2, l3, l4, l5⟩ := y3.lay wi
      simp only [EmuRF.run, TimingRF.run, EmuRF.step, TimingRF.step, x1, x2]
      rw [ih _ _ wi hs' (by rw [y3.nwf]; exact hwi) (y3.fits wi hf) (by rw [l4, l5]; exact x3)
        (by rw [l4, l5]; exact hrest)]

example : ∀ o ∈ [Op.w ⟨.vcchi, 0, 0⟩ 7, Op.r ⟨.vcclo, 2, 0⟩, Op.wb ⟨.v 20, 4, 63⟩ (List.replicate 16 9), Op.rb ⟨.s 30, 2, 0⟩ 8],
    o.Ok (t0.wf 0).ns (t0.wf 0).nv := by
  intro o ho
  simp only [List.mem_cons, List.mem_nil_iff, or_false] at ho
  rcases ho with rfl | rfl | rfl | rfl <;> simp [Op.Ok, Acc.Supported, cnt, t0, TimingRF.wf, width_v, Acc.width, Acc.cells, CellId.bytes] <;> decide

/-! ## outside the supported subset -/

/-- The statement "the two stores answer *every* operand the decoder can build identically", without
the restriction to the supported subset (kept visible; it is false of the code). -/
def same_answers_every_operand : Prop :=
  ∀ (e : EmuRF) (t : TimingRF) (wi r rc lane n : Nat), e.Sized → wi < t.wfs.size → Fits t (t.wf wi) →
    Agree (absE e) (absT t (t.wf wi)) (t.wf wi).ns (t.wf wi).nv →
    e.readOperandBytes r rc lane n = t.readOperandBytes wi r rc lane n

/-- a compute unit with one wavefront that owns no general registers -/
def t1 : TimingRF := ⟨Array.replicate 12800 0, #[Array.replicate 65536 0], #[⟨0, 0, 0, 0, 0, 0, 0, 0, 0⟩]⟩
def e1 : EmuRF := ⟨Array.replicate 408 0, Array.replicate 65536 0, 0, 0, 0, 0⟩

/-- **Refuted**: on a malformed operand — `vcc_lo` with `RegCount = 3` (e.g. the data operand of an
`s_load_dwordx3`-shaped word naming VCC) — `ReadOperandBytes(…, 12)` returns 12 bytes (VCC padded with
zeros) in the emulator and 8 bytes in timing. Such operands denote no architectural registers; the
supported subset of `emu_timing_same_answers` excludes them. The harness replays this witness on the
real stores (`C07.same-answers.malformed-operand`). -/
theorem same_answers_every_operand_refuted : ¬ same_answers_every_operand := by
  intro h
  have h1 : e1.Sized := ⟨by simp [e1], by simp [e1]⟩
  have h2 : Fits t1 (t1.wf 0) :=
    ⟨by simp [t1, TimingRF.wf], by simp [t1, TimingRF.wf], by simp [t1, TimingRF.wf],
      by simp [t1, TimingRF.wf, TimingRF.vfileOf], by simp [t1, TimingRF.wf]⟩
  have h3 : Agree (absE e1) (absT t1 (t1.wf 0)) (t1.wf 0).ns (t1.wf 0).nv := by
    refine ⟨fun i hi => ?_, fun l i _ hi => ?_, rfl, rfl, rfl, rfl⟩
    · simp [t1, TimingRF.wf] at hi
    · simp [t1, TimingRF.wf] at hi
  have := h e1 t1 0 R_VCCLO 3 0 12 h1 (by simp [t1]) h2 h3
  have l1 : e1.readOperandBytes R_VCCLO 3 0 12 = .ok (copyInto 12 (toLE 8 e1.vcc.toNat)) := by
    simp [EmuRF.readOperandBytes, EmuRF.readReg, numBytes, bs_vcclo, nS_vcclo, nV_vcclo, R_SCC, R_VCC, R_VCCLO,
      R_VCCHI, R_EXEC, R_EXECLO, R_EXECHI, R_M0]
  have l2 : t1.readOperandBytes 0 R_VCCLO 3 0 12 = .ok (toLE 8 (t1.wfs.getD 0 default).vcc.toNat) := by
    simp [TimingRF.readOperandBytes, TimingRF.readReg, R_SCC, R_VCC, R_VCCLO, R_VCCHI, R_EXEC, R_EXECLO,
      R_EXECHI, R_M0]
  rw [l1, l2] at this
  have := congrArg List.length (Except.ok.inj this)
  simp at this

end C07
