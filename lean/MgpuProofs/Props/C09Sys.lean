import MgpuProofs.C09Sys4
import MgpuProofs.Props.C09
import MgpuProofs.Props.C09CU
import MgpuProofs.Props.C09Held
/-! # C09 — the closed loop: command processor + n timing compute units + ports, every schedule

`C09.Sys.Sys` (`MgpuProofs/C09Sys0.lean`) composes the command processor's dispatch path
(`C09.CP`) with one timing compute unit per CU of the pool (`C09.CUSide.TState`) and the connections
between them. The only outside agents are the driver (launches, retrieval of responses) and the
scheduler that picks the next move among: `CommandProcessor.Tick`, delivery of any pending
`MapWGReq` to its CU, a wavefront move of any CU (issue / `s_nop` / `s_barrier` / `s_endpgm`),
delivery of any pending `WGCompletionMsg`, retrieval of a response. All theorems hold for **every
finite sequence of moves** (every schedule, any number of CUs, dispatchers and overlapping kernels,
any port capacities), by projecting the closed run onto the open models (`closed_loop_projects`) and
joining the two sides' theorems with the cross-component invariant `SI`. -/
namespace C09.Sys
open C09 C09.CUSide

/-- one 2-SIMD CU pair, one kernel of one 1-wavefront work-group: launch, two ticks (take the launch,
    map the group), the request reaches CU 0, its wavefront is issued and ends, the completion
    reaches the command processor, two ticks (consume it, answer), the driver takes the response -/
def demoSys : Sys := sinit demoCfg 2 demoPool (fun _ => [2, 2]) 1 2 2

def demoSOps : List SOp :=
  [.launch ⟨7, 64, 64, 16, 4, 256⟩, .tick, .tick, .deliverMap 0, .cu 0 (.issue 0 0), .cu 0 (.endp 0 0),
   .deliverCmp 0 0, .tick, .tick, .tick, .takeRsp]

/-- **The closed loop is a refinement of both open models.** For every schedule: the command
    processor's state is the open-model run of the projected moves (one open-model move per system
    move: a tick, a launch, a completion message carrying exactly the request id a CU has sent, or
    a port-room change), and every compute unit is in a state its open model reaches by *legal*
    moves (`TReach`: fresh request ids with ≥ 1 wavefront on SIMDs of this CU, only Ready
    wavefronts issued, only Running wavefronts evaluated). Hence every theorem proved about
    `run (mkCP …) ops` for all `ops` and about `TReach` states holds in the closed loop. -/
theorem closed_loop_projects (cfg : Cfg) (nd : Nat) (pool : List CU) (caps : Nat → List Nat)
    (room capM capD : Nat) (ops : List SOp) :
    (srun (sinit cfg nd pool caps room capM capD) ops).cp =
      run (mkCP cfg nd pool) (cpTrace cfg nd pool caps room capM capD ops) ∧
    launchIds (cpTrace cfg nd pool caps room capM capD ops) = sLaunchIds ops ∧
    (srun (sinit cfg nd pool caps room capM capD) ops).cus.length = pool.length ∧
    ∀ c, c < pool.length → TReach ((srun (sinit cfg nd pool caps room capM capD) ops).cu c) := by
  refine ⟨cpTrace_run .., cpTrace_launchIds .., by rw [srun_len, sinit_len], ?_⟩
  intro c hc
  have := (SI_run (SI_init cfg nd pool caps room capM capD) ops).reach c
  rw [srun_len, sinit_len] at this
  exact this hc

example : cpTrace demoCfg 2 demoPool (fun _ => [2, 2]) 1 2 2 demoSOps =
    [.cuRoom 2, .drvRoom 2, .launch ⟨7, 64, 64, 16, 4, 256⟩, .tick, .tick, .cuRoom 2, .cuRoom 2, .cuRoom 2,
     .complete [0], .tick, .tick, .tick, .drvRoom 2] := by decide

/-- **Exactly once, end to end, for every schedule** (distinct launch ids). In every state of every
    closed run:
    * no work-group index of any launch is in two `MapWGReq`s, no launch has two responses, request
      ids name one `MapWGReq` each;
    * a `MapWGReq` is handed to a CU at most once (`delivered` has no duplicates) and every
      work-group a CU holds is such a delivered request of the trace, naming this CU, with the SIMD
      placement the dispatcher chose;
    * on every CU a completion is in its trace iff all wavefronts of the work-group are Completed,
      at most once; no request is completed by two CUs;
    * a completion is handed to the command processor at most once and only if a CU sent it;
    * the command processor counts (`done`) a completion at most once and only if it was handed
      over — so: mapped once, delivered once, completed once, reported once, counted once. -/
theorem closed_loop_exactly_once (cfg : Cfg) (nd : Nat) (pool : List CU) (caps : Nat → List Nat)
    (room capM capD : Nat) (ops : List SOp) (hids : (sLaunchIds ops).Nodup)
    (s : Sys) (hs : s = srun (sinit cfg nd pool caps room capM capD) ops) :
    (∀ l, (mapsOf s.cp.log l).Nodup ∧ rspCount s.cp.log l ≤ 1) ∧
    (reqsOf s.cp.log).Nodup ∧ s.delivered.Nodup ∧
    (∀ c, c < pool.length → ∀ g ∈ (s.cu c).wgs, g.id ∈ s.delivered ∧
      ∃ launch idx locs, Ev.map g.id c launch idx locs ∈ s.cp.log ∧ g.wfs.map (·.simd) = locs.map (·.simd)) ∧
    (∀ c, c < pool.length → (sentIds (s.cu c)).Nodup ∧ (s.cu c).fault = none ∧
      ∀ g ∈ (s.cu c).wgs, (g.id ∈ sentIds (s.cu c) ↔ AllDone g)) ∧
    (∀ c c' r, c < pool.length → c' < pool.length → r ∈ sentIds (s.cu c) → r ∈ sentIds (s.cu c') → c = c') ∧
    s.taken.Nodup ∧ (∀ r ∈ s.taken, ∃ c, c < pool.length ∧ r ∈ sentIds (s.cu c)) ∧
    s.cp.done.Nodup ∧ (∀ r ∈ s.cp.done, r ∈ s.taken) := by
  subst hs
  have hsi := SI_run (SI_init cfg nd pool caps room capM capD) ops
  have hlen : (srun (sinit cfg nd pool caps room capM capD) ops).cus.length = pool.length := by
    rw [srun_len, sinit_len]
  have hcp := cpTrace_run cfg nd pool caps room capM capD ops
  have hids' : (launchIds (cpTrace cfg nd pool caps room capM capD ops)).Nodup := by
    rw [cpTrace_launchIds]; exact hids
  have hw := run_WI (A := launchKerns (cpTrace cfg nd pool caps room capM capD ops)) _ _
    (mkCP_DCI cfg nd pool) (mkCP_GI cfg nd pool _ hids') (mkCP_WI _ cfg nd pool)
    (fun k' hk' => (mem_launchKerns _ k').2 hk')
  rw [← hcp] at hw
  have hq : (reqsOf (srun (sinit cfg nd pool caps room capM capD) ops).cp.log).Nodup := by
    have := hw.wq
    have e : reqsOf (srun (sinit cfg nd pool caps room capM capD) ops).cp.log =
        List.range (srun (sinit cfg nd pool caps room capM capD) ops).cp.nextReq := this
    rw [e]; exact List.nodup_range
  have hlink : ∀ c, c < pool.length → ∀ g ∈ ((srun (sinit cfg nd pool caps room capM capD) ops).cu c).wgs,
      g.id ∈ (srun (sinit cfg nd pool caps room capM capD) ops).delivered ∧
      ∃ launch idx locs, Ev.map g.id c launch idx locs ∈ (srun (sinit cfg nd pool caps room capM capD) ops).cp.log ∧
        g.wfs.map (·.simd) = locs.map (·.simd) := by
    intro c hc g hg
    exact hsi.link c (by rw [hlen]; exact hc) (g.id, g.wfs.map (·.simd)) (List.mem_map.2 ⟨g, hg, rfl⟩)
  refine ⟨?_, hq, hsi.dnodup, hlink, ?_, ?_, hsi.tnodup, ?_, hw.wdn, hsi.src.2⟩
  · intro l
    rw [hcp]
    exact ⟨exactly_once_maps cfg nd pool _ hids' l, response_at_most_once cfg nd pool _ hids' l⟩
  · intro c hc
    have hI := treach_inv (hsi.reach c (by rw [hlen]; exact hc))
    exact ⟨hI.sentNodup, hI.noFault, hI.sentIff⟩
  · intro c c' r hc hc' h1 h2
    have hI := treach_inv (hsi.reach c (by rw [hlen]; exact hc))
    have hI' := treach_inv (hsi.reach c' (by rw [hlen]; exact hc'))
    obtain ⟨p, hp, hpr⟩ := List.mem_map.1 h1
    obtain ⟨p', hp', hpr'⟩ := List.mem_map.1 h2
    obtain ⟨g, hg, hgid, _⟩ := hI.sentKnown p hp
    obtain ⟨g', hg', hgid', _⟩ := hI'.sentKnown p' hp'
    obtain ⟨_, a, b, d, e1, _⟩ := hlink c hc g hg
    obtain ⟨_, a', b', d', e1', _⟩ := hlink c' hc' g' hg'
    have hgr : g.id = r := by rw [hgid]; exact hpr
    have hgr' : g'.id = r := by rw [hgid']; exact hpr'
    rw [hgr] at e1; rw [hgr'] at e1'
    exact (map_unique _ hq r c a b d c' a' b' d' e1 e1').1
  · intro r hr
    obtain ⟨c, hc, h1⟩ := hsi.taken r hr
    exact ⟨c, by rw [← hlen]; exact hc, h1⟩

example : let s := srun demoSys demoSOps
    mapsOf s.cp.log 7 = [0] ∧ rspCount s.cp.log 7 = 1 ∧ s.delivered = [0] ∧ s.taken = [0] ∧
    s.cp.done = [0] ∧ sentIds (s.cu 0) = [0] ∧ sentIds (s.cu 1) = [] ∧ s.rspTaken = 1 := by decide

/-- **The response comes after the last completion, and by then everything is released.** For
    every schedule (distinct launch ids): once the trace holds the `LaunchKernelRsp` of a launch
    `k`, it holds exactly one; the `MapWGReq`s of `k` are exactly work-groups `0 … NumWG−1`, once
    each; and every one of them (request id `r`, CU `c`) was delivered to CU `c`, CU `c` holds it
    with the SIMD placement of the request and **all its wavefronts are Completed**, the CU sent its
    `WGCompletionMsg` (and cleared its wavefront pools of the group), a connection handed the
    message to the command processor, the owning dispatcher consumed it (`done`, where
    `completeOne` calls `FreeResources`) and it is in flight at no dispatcher any more (by
    `residents_are_exactly_the_held_groups` its resources are then no longer reserved in the pool). -/
theorem closed_loop_response_after_all_completed (cfg : Cfg) (nd : Nat) (pool : List CU)
    (caps : Nat → List Nat) (room capM capD : Nat) (ops : List SOp) (hids : (sLaunchIds ops).Nodup)
    (s : Sys) (hs : s = srun (sinit cfg nd pool caps room capM capD) ops)
    (k : Kern) (hk : SOp.launch k ∈ ops) (hr : 1 ≤ rspCount s.cp.log k.id) :
    rspCount s.cp.log k.id = 1 ∧ mapsOf s.cp.log k.id = List.range k.numWG ∧
    ∀ r c idx locs, Ev.map r c k.id idx locs ∈ s.cp.log →
      r ∈ s.delivered ∧ c < pool.length ∧
      (∃ g ∈ (s.cu c).wgs, g.id = r ∧ g.wfs.map (·.simd) = locs.map (·.simd) ∧ AllDone g) ∧
      r ∈ sentIds (s.cu c) ∧ r ∈ s.taken ∧ r ∈ s.cp.done ∧
      (∀ j, ∀ e ∈ (s.cp.disp j).inflight, e.1 ≠ r) ∧
      (∀ (sd : Nat) (l : List (Nat × Nat)), (s.cu c).pools[sd]? = some l → ∀ p ∈ l, p.1 ≠ r) := by
  obtain ⟨h1, hq, _, hlink, hcu, _, _, htk, _, hdone⟩ :=
    closed_loop_exactly_once cfg nd pool caps room capM capD ops hids s hs
  subst hs
  have hsi := SI_run (SI_init cfg nd pool caps room capM capD) ops
  have hlen : (srun (sinit cfg nd pool caps room capM capD) ops).cus.length = pool.length := by
    rw [srun_len, sinit_len]
  have hcp := cpTrace_run cfg nd pool caps room capM capD ops
  have hids' : (launchIds (cpTrace cfg nd pool caps room capM capD ops)).Nodup := by
    rw [cpTrace_launchIds]; exact hids
  have hk' := cpTrace_launch cfg nd pool caps room capM capD ops k hk
  rw [hcp] at hr
  obtain ⟨g1, g2, _, _⟩ := launch_rsp_implies_whole_grid cfg nd pool _ hids' k hk' hr
  rw [← hcp] at g1 g2 hr
  refine ⟨Nat.le_antisymm (h1 k.id).2 hr, g1, ?_⟩
  intro r c idx locs hev
  obtain ⟨hd, hnf⟩ := g2 r c idx locs hev
  have htaken := hdone r hd
  obtain ⟨c', hc', hsent⟩ := htk r htaken
  have hI' := treach_inv (hsi.reach c' (by rw [hlen]; exact hc'))
  obtain ⟨p, hp, hpr⟩ := List.mem_map.1 hsent
  obtain ⟨g, hg, hgid, _⟩ := hI'.sentKnown p hp
  have hgr : g.id = r := by rw [hgid]; exact hpr
  obtain ⟨hdel, a, b, d, e1, e2⟩ := hlink c' hc' g hg
  rw [hgr] at e1 hdel
  obtain ⟨hcc, _, _, hlocs⟩ := map_unique _ hq r c k.id idx locs c' a b d hev e1
  subst hcc
  refine ⟨hdel, hc', ⟨g, hg, hgr, by rw [e2, hlocs], ?_⟩, hsent, htaken, hd, hnf, ?_⟩
  · exact ((hcu c hc').2.2 g hg).1 (by rw [hgr]; exact hsent)
  · intro sd l hl p' hp' hpid
    obtain ⟨_, hmem⟩ := cu_pool_holds_unanswered_wavefronts (hsi.reach c (by rw [hlen]; exact hc')) sd l hl
    obtain ⟨g', _, hns, hid', _⟩ := (hmem p').1 hp'
    exact hns (by rw [← hid', hpid]; exact hsent)

example : SOp.launch ⟨7, 64, 64, 16, 4, 256⟩ ∈ demoSOps ∧ (sLaunchIds demoSOps).Nodup ∧
    rspCount (srun demoSys demoSOps).cp.log 7 = 1 ∧
    (srun demoSys demoSOps).cp.log.length = 2 ∧
    ((srun demoSys demoSOps).cu 0).pools = [[], []] ∧
    (srun demoSys (demoSOps.take 7)).cp.log.length = 1 :=
  ⟨by unfold demoSOps; exact List.mem_cons_self, by decide⟩

/-- **The ports never hold more than their capacity; the free-slot counters are exact.** In every
    state of every closed run the counter the dispatchers read before sending a `MapWGReq`
    (`cuRoom`) is the capacity of the `ToCUs` buffer minus the `MapWGReq`s sent and not yet
    delivered, the counter read before a `LaunchKernelRsp` (`drvRoom`) is the capacity of
    `ToDriver` minus the responses not yet retrieved; every delivered request is a request of the
    trace, so neither counter exceeds its capacity and the number of messages in the `ToCUs` wire is
    `capM − cuRoom`. (In the open model `cuRoom` / `drvRoom` were arbitrary numbers set by the
    environment.) -/
theorem closed_loop_ports_within_capacity (cfg : Cfg) (nd : Nat) (pool : List CU) (caps : Nat → List Nat)
    (room capM capD : Nat) (ops : List SOp)
    (s : Sys) (hs : s = srun (sinit cfg nd pool caps room capM capD) ops) :
    s.cp.cuRoom + (reqsOf s.cp.log).length = capM + s.delivered.length ∧
    s.cp.drvRoom + rspTotal s.cp.log = capD + s.rspTaken ∧
    (∀ r ∈ s.delivered, r ∈ reqsOf s.cp.log) ∧
    s.delivered.length ≤ (reqsOf s.cp.log).length ∧ s.cp.cuRoom ≤ capM := by
  subst hs
  have hsi := SI_run (SI_init cfg nd pool caps room capM capD) ops
  obtain ⟨h1, h2⟩ := Rooms_run (SI_init cfg nd pool caps room capM capD)
    (Rooms_init cfg nd pool caps room capM capD) ops
  have hsub : ∀ r ∈ (srun (sinit cfg nd pool caps room capM capD) ops).delivered,
      r ∈ reqsOf (srun (sinit cfg nd pool caps room capM capD) ops).cp.log := by
    intro r hr
    obtain ⟨c, a, b, d, he⟩ := hsi.fresh r hr
    exact mem_reqsOf _ _ _ _ _ _ he
  have hle := length_le_of_nodup_subset _ _ hsi.dnodup hsub
  exact ⟨h1, h2, hsub, hle, by omega⟩

example : let s := srun demoSys (demoSOps.take 3)
    s.cp.cuRoom = 1 ∧ (reqsOf s.cp.log).length = 1 ∧ s.delivered = [] := by decide

example : let s := srun demoSys demoSOps
    s.cp.cuRoom = 2 ∧ s.cp.drvRoom = 2 ∧ rspTotal s.cp.log = 1 ∧ s.rspTaken = 1 ∧ s.delivered = [0] := by decide

/-- **Termination of the closed loop under a fair schedule (partial: fairness is stated at the command
    processor's ports).** Pool initially without residents and satisfying the resource invariant, at
    least one dispatcher; a finite closed prefix `ops0` with all launches (distinct ids, well formed,
    ≤ 1024 work-items per group, nothing assumed about their demands), then **any** infinite
    launch-free closed schedule — ticks, deliveries, wavefront moves of all CUs, retrievals in any
    order — such that again and again a tick happens while the command processor is owed nothing
    (`EnvReady`: both outgoing buffers have room, the completion of every in-flight request has
    been delivered, the head message names an in-flight request). Then after finitely many moves of
    the closed system either a launch was rejected loudly (`fault = some "oversize"`) or every launch
    has exactly one `LaunchKernelRsp` and its whole grid mapped exactly once — and then, by
    `closed_loop_response_after_all_completed`, every work-group ran to completion on its CU and
    was reported and counted once. The decreasing measure is the command processor's lexicographic
    `(U, F, C)` of `dispatch_progress`, which every closed move other than a progressing tick leaves
    unchanged. NOT proved: that a closed schedule that is fair move-by-move (every pending
    delivery eventually happens, every wavefront eventually reaches `s_endpgm`) makes `EnvReady`
    recur — see `notes/C09.md`. -/
theorem closed_loop_fair_partial (capsP : List (List Nat)) (cfg : Cfg) (nd : Nat) (pool : List CU)
    (caps : Nat → List Nat) (room capM capD : Nat) (ops0 : List SOp) (sched : Nat → SOp)
    (hnd : 0 < nd) (hids : (sLaunchIds ops0).Nodup)
    (hempty : ∀ cu ∈ pool, cu.resident = []) (hp : PoolInv capsP pool)
    (hops : ∀ k, SOp.launch k ∈ ops0 → KernOK k ∧ k.wx ≤ 1024)
    (hnl : ∀ n k, sched n ≠ .launch k)
    (hfair : ∀ n, ∃ m, n ≤ m ∧ sched m = .tick ∧
      EnvReady (srun (sinit cfg nd pool caps room capM capD) (ops0 ++ sprefix sched m)).cp) :
    ∃ N, (srun (sinit cfg nd pool caps room capM capD) (ops0 ++ sprefix sched N)).cp.fault = some "oversize" ∨
      ∀ k, SOp.launch k ∈ ops0 →
        rspCount (srun (sinit cfg nd pool caps room capM capD) (ops0 ++ sprefix sched N)).cp.log k.id = 1 ∧
        mapsOf (srun (sinit cfg nd pool caps room capM capD) (ops0 ++ sprefix sched N)).cp.log k.id
          = List.range k.numWG := by
  have key : ∀ N, (srun (sinit cfg nd pool caps room capM capD) (ops0 ++ sprefix sched N)).cp =
      run (mkCP cfg nd pool) (cpTrace cfg nd pool caps room capM capD ops0 ++
        prefixOf (cpSched (srun (sinit cfg nd pool caps room capM capD) ops0) sched) N) := by
    intro N
    rw [cpTrace_run, cpTrace_append]
  obtain ⟨N, hN⟩ := every_accepted_launch_is_answered capsP cfg nd pool
    (cpTrace cfg nd pool caps room capM capD ops0)
    (cpSched (srun (sinit cfg nd pool caps room capM capD) ops0) sched) hnd
    (by rw [cpTrace_launchIds]; exact hids) hempty hp
    (fun k hk => hops k (mem_cpTrace_launch _ _ _ _ _ _ _ _ k hk))
    (cpSched_not_launch _ sched hnl)
    (by
      intro n
      obtain ⟨m, hm, htick, henv⟩ := hfair n
      refine ⟨m, hm, ?_, ?_⟩
      · show cpOp _ (sched m) = .tick
        rw [htick]; rfl
      · rw [← key m]; exact henv)
  refine ⟨N, ?_⟩
  rw [key N]
  rcases hN with h | h
  · exact Or.inl h
  · exact Or.inr (fun k hk => h k (cpTrace_launch _ _ _ _ _ _ _ _ k hk))

/-- the demo schedule followed by ticks for ever: the hypotheses are met (after the eleven moves the
    state is a fixed point of `Tick` with nothing in flight), so the kernel is answered -/
example : ∃ N, (srun demoSys (demoSOps ++ sprefix (fun _ => SOp.tick) N)).cp.fault = some "oversize" ∨
    ∀ k, SOp.launch k ∈ demoSOps →
      rspCount (srun demoSys (demoSOps ++ sprefix (fun _ => SOp.tick) N)).cp.log k.id = 1 ∧
      mapsOf (srun demoSys (demoSOps ++ sprefix (fun _ => SOp.tick) N)).cp.log k.id = List.range k.numWG := by
  have fix : ∀ n, (srun demoSys (demoSOps ++ sprefix (fun _ => SOp.tick) n)).cp = (srun demoSys demoSOps).cp := by
    intro n
    induction n with
    | zero => simp [sprefix]
    | succ n ih =>
      rw [sprefix_succ, ← List.append_assoc, srun_append]
      show (cpTick (srun demoSys (demoSOps ++ sprefix (fun _ => SOp.tick) n)).cp).1 = _
      rw [ih]
      decide
  refine closed_loop_fair_partial [[2, 2], [2, 2]] demoCfg 2 demoPool (fun _ => [2, 2]) 1 2 2 demoSOps
    (fun _ => SOp.tick) (by decide) (by decide) (by decide) demoPool_inv ?_ (fun n k h => by cases h) ?_
  · intro k hk
    have : k = ⟨7, 64, 64, 16, 4, 256⟩ := by
      simp only [demoSOps, List.mem_cons, List.not_mem_nil, or_false] at hk
      rcases hk with h | h | h | h | h | h | h | h | h | h | h <;> first | (cases h; rfl) | cases h
    subst this
    exact ⟨⟨by decide, by decide⟩, by decide⟩
  · intro n
    refine ⟨n, Nat.le_refl _, rfl, ?_⟩
    show EnvReady (srun demoSys (demoSOps ++ sprefix (fun _ => SOp.tick) n)).cp
    rw [fix n]
    have hnone : ∀ j r, ¬ ((srun demoSys demoSOps).cp.disp j).inFl r := by
      intro j r
      have := disp_forall (srun demoSys demoSOps).cp (fun d => d.inflight = []) rfl (by decide) j
      simp [Disp.inFl, this]
    refine ⟨by decide, by decide, fun j r h => absurd h (hnone j r), ?_⟩
    intro ids rest h
    have : (srun demoSys demoSOps).cp.cuIn = [] := by decide
    rw [this] at h; cases h

end C09.Sys
