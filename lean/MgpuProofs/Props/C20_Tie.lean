import MgpuModel.Gen.Nvidia
import MgpuModel.C20_Sys
import MgpuModel.C20_Header
import MgpuProofs.C20_ParseLemmas
/-! # C20 — the model uses the constants and tables of the Go source

`MgpuModel/Gen/Nvidia.lean` is regenerated from the Go sources on every `./check C20` (translator
`translate/nvidia.go`, which refuses shapes it does not understand).  The theorems below are closed
proof obligations: a changed port capacity, a reordered or added `Tick` stage, a changed register /
opcode table, a changed header key, format or prefix makes one of them fail to compile — before any
sampled correspondence case is looked at. -/
namespace C20

/-- **Port capacities.**  Every port the NVIDIA components create (`sim.NewPort(owner, in, out, name)`, 7
    call sites) has the incoming and outgoing capacity the model's buffers use (`cap`). -/
theorem gen_port_capacity :
    Gen.Nvidia.ports.length = 7 ∧ ∀ p ∈ Gen.Nvidia.ports, p.2.1 = cap ∧ p.2.2 = cap := by decide

/-- the stage order the model's `tickDriver`, `tickGpu`, `tickSm`, `tickSub` transcribe (each stage sees
    the effects of the earlier ones; `||` on the right, so no stage is skipped) -/
def modelTickOrder : List (String × List String) :=
  [("Driver", ["dispatchKernelsToDevices", "processDevicesInput"]),
   ("GPU", ["reportFinishedKernels", "dispatchThreadblocksToSMs", "processDriverInput", "processSMsInput"]),
   ("SM", ["reportFinishedKernels", "dispatchThreadblocksToSubcores", "processGPUInput", "processSubcoresInput"]),
   ("Subcore", ["reportFinishedWarps", "run", "processSMInput"])]

/-- **Tick stage order.**  The four `Tick` functions consist of exactly the stages the model transcribes,
    in the same order, each in the form `madeProgress = stage() || madeProgress` (checked by the translator). -/
theorem gen_tick_order : Gen.Nvidia.tickOrder = modelTickOrder := by decide

/-- the order is observable in the model: a GPU that receives a kernel dispatches its first block only in
    the NEXT tick (dispatch runs before processDriverInput) -/
example :
    let s := run (init false 1 1 1 [[[1]]]) [.drv, .c0, .gpu 0]
    (get s.l1 0).undisp = [[1]] ∧ (get s.l1 0).pOut = [] ∧ (get (tickGpu s 0).l1 0).pOut = [(0, [1])] := by
  decide +kernel

/-- **Register table.**  The model's `regNames` is the table `registerTable` is filled with: `R<i>` for
    `i` below the loop bound of the Go source, plus its explicit entries. -/
theorem gen_register_table :
    regNames = (List.range Gen.Nvidia.regLoopBound).map (fun i => 'R' :: showNat 10 i)
      ++ Gen.Nvidia.regExtra.map (fun e => e.1.toList) := by decide +kernel

/-- **Opcode table.**  Every mnemonic of `opcodeTable` is a well-formed opcode text of the model (the
    model keeps every non-empty space-free mnemonic, as `NewOpcode` does for known and unknown ones). -/
theorem gen_opcode_table : ∀ o ∈ Gen.Nvidia.opcodes, o.toList ≠ [] ∧ ' ' ∉ o.toList := by decide

/-- **Header keys.**  `updateTraceHeaderParam` has exactly the 13 keys of the model's `updateParam`, with
    the same way of reading the value: a key of the Go switch is accepted by the model with a sample value
    of its kind; a value that is not a number is accepted exactly for the keys whose Go branch stores the
    string or compares it with "1"; any other key panics in both. -/
theorem gen_header_keys :
    Gen.Nvidia.headerKeys.length = 13 ∧
    (∀ k ∈ Gen.Nvidia.headerKeys,
      (updateParam {} k.1.toList (if k.2.1 = "(%d,%d,%d)" then "(1,2,3)".toList else "1".toList)).toOption.isSome = true ∧
      (updateParam {} k.1.toList "x".toList).toOption.isSome = (k.2.1 == "str" || k.2.1 == "is1")) ∧
    (updateParam {} "no such key".toList "1".toList).toOption = none := by decide +kernel

/-- **Reader prefixes, formats and kernelslist constants** are the ones the model's `readHeader`,
    `feed`, `extractToks`, `memPart`, `buildExec` are written for. -/
theorem gen_reader_constants :
    Gen.Nvidia.readerPrefixes = ["-", "thread block", "warp", "insts"] ∧
    Gen.Nvidia.readerFormats = ["thread block = %d,%d,%d", "warp = %d", "insts = %d", "%x", "%x", "%d", "%d", "%d", "%d", "%v", "%d"] ∧
    Gen.Nvidia.h2d.toList = h2d ∧ Gen.Nvidia.d2h.toList = d2h ∧
    (buildExec (Gen.Nvidia.execMemcpyPrefix ++ "HtoD,1,2").toList).toOption = some (.memcpy h2d 1 2) ∧
    (buildExec (Gen.Nvidia.execKernelPrefix ++ "-1.traceg").toList).toOption = some (.kernel "kernel-1.traceg".toList) ∧
    Gen.Nvidia.kernelsListFileName = "kernelslist.g" := by decide +kernel

/-- **The shipped platform meets the shape hypotheses** of `terminates_all_idle`,
    `exactly_once_at_quiescence`, `engine_exactly_once` (at least one device, SM and sub-core), and is the
    shape the harness runs as `g=1 s=108 c=4`. -/
theorem gen_a100_shape :
    1 ≤ Gen.Nvidia.a100Shape.1 ∧ 1 ≤ Gen.Nvidia.a100Shape.2.1 ∧ 1 ≤ Gen.Nvidia.a100Shape.2.2 ∧
    Gen.Nvidia.a100Shape = (1, 108, 4) := by decide

end C20
