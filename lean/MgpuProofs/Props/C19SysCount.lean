import MgpuProofs.C19SysCount
import MgpuProofs.Props.C19Sys
/-! # C19 — the per-phase command counts of `handshake_ordered`, re-derived inside the closed system

`handshake_ordered` (`Props/C19.lean`) is about the counter model `Hs` closed with honest GPUs. Here the
same equations are theorems about runs of `SY.Sys` — the tick-exact driver stages, the tick-exact command
processors, the two-controller world, the acknowledging components, the connections and the MMU — for
EVERY schedule. The counts are taken by a monitor at the driver's two ports (`SY.Cnt`, `SY.stepC`,
`MgpuModel/C19_SysCount.lean`): commands that entered the GPU port's outgoing buffer, acknowledgements
`processReturnReq` took out of its incoming buffer, requests `parseFromMMU` took out of the MMU port. The
monitor only compares the buffers before and after a move; it does not restrict the schedules
(`monitored_runs_are_all_runs`). Requests may differ in their accessing GPUs and pages, so the products
`acc × phases`, `pages × phases` of `handshake_ordered` become sums over the requests taken
(`sumAcc`, `sumPages`). -/
namespace C19
open SY
open CP (Cp Cls K Sub Cmd Ans)
open DR (Drv MmuReq MigCmd)

/-- **monitored_runs_are_all_runs.** Forgetting the counters of a monitored run gives a run of the closed
    system, and every reachable state of the closed system carries the counters of some monitored run: the
    theorems below are about all schedules of `SY.Sys`, and everything proved about `SY.Reach`
    (`handshake_window`, `handshake_terminates`, …) applies to monitored runs. -/
theorem monitored_runs_are_all_runs :
    (∀ x, ReachC x → SY.Reach x.1) ∧ (∀ s, SY.Reach s → ∃ c, ReachC (s, c)) ∧
    (∀ x m, (stepC x m).1 = SY.step x.1 m) :=
  ⟨fun _ h => reachC_reach h, fun _ h => reach_reachC h, stepC_fst⟩

/-- **sys_commands_per_phase.** In every state of every monitored run of the closed system, with `k`
    requests taken so far (`c.reqs`, ids = the driver's `taken`):
    * drain commands: entered the port + still queued (`requestsToSend`) = `ngpu × k`; drain
      acknowledgements consumed + `numRDMADrainACK` = `ngpu × k`;
    * shootdown commands: entered + queued + (`acc` of the current request while its drains are outstanding)
      = Σ `acc` over the requests taken; likewise acknowledgements + `numShootDownACK`;
    * migrate commands: entered + queued (`migrationReqToSendToCP`) + (`pages` of the current request until
      its last shootdown acknowledgement) = Σ `pages`; likewise acknowledgements + `numPagesMigratingACK`;
    * GPU restart commands: entered + queued + (`acc` of the current request until its last migration
      acknowledgement) = Σ `acc`; likewise acknowledgements + `numRestartACK`;
    * RDMA restart commands: entered + queued + (`ngpu` until the last GPU-restart acknowledgement)
      = `ngpu × k`; likewise acknowledgements + `numRDMARestartACK`;
    * no migrate command is ever in `requestsToSend`; the request being served is the last one taken.
    So every counter is exactly the number of outstanding commands of its kind, commands are created
    once per phase, and a phase's commands do not exist before the previous phase is fully acknowledged. -/
theorem sys_commands_per_phase {x : SY.Sys × Cnt} (h : ReachC x) : CI x.1 x.2 := (reachC_ici h).2

/-- a counter of the first three phases is non-zero only while a request with accessing GPUs is served -/
theorem SY.cur_of_early {s : SY.Sys} (I : SY.Inv s) (h : 0 < s.drv.drain ∨ 0 < s.drv.shoot ∨ 0 < s.drv.mig) :
    ∃ r, s.drv.cur = some r ∧ r.acc ≠ [] := by
  cases I.ph with
  | idle hd _ _ _ =>
    obtain ⟨c1, c2, c3, _, _⟩ := hd.ctrs
    simp only [reduceCtorEq, if_false] at c1 c2 c3
    omega
  | bcast p r σ loc _ _ hc hr => exact ⟨r, hc, hr.accNe⟩
  | mig r fl ws _ hc hr => exact ⟨r, hc, hr.accNe⟩

/-- no migrate command is queued while `numPagesMigratingACK = 0` -/
theorem SY.toCP_nil_of_mig_zero {s : SY.Sys} (I : SY.Inv s) (h : s.drv.mig = 0) : s.drv.toCP = [] := by
  cases I.ph with
  | idle hd _ _ _ => exact hd.toCP
  | bcast p r σ loc _ _ _ _ _ htc => exact htc
  | mig r fl ws _ _ _ _ hm => have := hm.pos; omega

/-- **sys_restart_after_migration_acks.** In every monitored run: as soon as the GPU-restart commands of
    the request being served exist (restart commands entered + queued = Σ `acc` over ALL requests taken —
    they are created by the same `processPageMigrationRspFromCP` call that prepares the answer to the MMU),
    every migrate command of every request taken has entered the port and has been acknowledged:
    migration acknowledgements consumed = migrate commands sent = Σ `pages`, nothing queued, and the
    drain / shootdown / migration counters are 0. The restart broadcast never overtakes a page copy. -/
theorem sys_restart_after_migration_acks {x : SY.Sys × Cnt} (h : ReachC x)
    (hg : x.2.cG + cnt isG x.1.drv.toSend = sumAcc x.2.reqs) :
    x.2.aM = sumPages x.1.drv.ngpu x.2.reqs ∧ x.2.cM = sumPages x.1.drv.ngpu x.2.reqs ∧ x.1.drv.toCP = [] ∧
    x.1.drv.drain = 0 ∧ x.1.drv.shoot = 0 ∧ x.1.drv.mig = 0 := by
  obtain ⟨I, C⟩ := reachC_ici h
  have g1 := C.g1
  have hp : pendG x.1.drv = 0 := by omega
  have hz : ¬ (0 < x.1.drv.drain ∨ 0 < x.1.drv.shoot ∨ 0 < x.1.drv.mig) := by
    intro hc
    obtain ⟨r, hr, hne⟩ := SY.cur_of_early I hc
    have : 0 < r.acc.length := List.length_pos_iff.mpr hne
    simp only [pendG, curAcc, hc, hr, if_true] at hp
    omega
  have h1 : x.1.drv.drain = 0 := by omega
  have h2 : x.1.drv.shoot = 0 := by omega
  have h3 : x.1.drv.mig = 0 := by omega
  have htc := SY.toCP_nil_of_mig_zero I h3
  have hpm : pendM x.1.drv = 0 := by simp [pendM, h1, h2]
  have m1 := C.m1
  have m2 := C.m2
  rw [htc] at m1
  simp only [List.length_nil] at m1
  exact ⟨by omega, by omega, htc, h1, h2, h3⟩

/-- **sys_counts_when_idle.** Whenever the driver is not handling a request (in particular at the end of
    every fair run, `handshake_terminates`), with `k` requests taken: exactly `ngpu × k` drain and RDMA
    restart commands, Σ `acc` shootdown and GPU-restart commands, Σ `pages` migrate commands have entered
    the GPU port, each kind has been acknowledged exactly as often, nothing is queued, and the number of
    answers prepared for the MMU (sent + the one waiting in `toSendToMMU`) is `k`: one per request. -/
theorem sys_counts_when_idle {x : SY.Sys × Cnt} (h : ReachC x) (hh : x.1.drv.handling = false) :
    (x.2.cD = x.1.drv.ngpu * x.2.reqs.length ∧ x.2.aD = x.2.cD) ∧
    (x.2.cS = sumAcc x.2.reqs ∧ x.2.aS = x.2.cS) ∧
    (x.2.cM = sumPages x.1.drv.ngpu x.2.reqs ∧ x.2.aM = x.2.cM) ∧
    (x.2.cG = sumAcc x.2.reqs ∧ x.2.aG = x.2.cG) ∧
    (x.2.cA = x.1.drv.ngpu * x.2.reqs.length ∧ x.2.aA = x.2.cA) ∧
    x.1.drv.answered.length + (if x.1.drv.toMMU.isSome then 1 else 0) = x.2.reqs.length := by
  obtain ⟨I, C⟩ := reachC_ici h
  have hid := idle_of_not_handling I hh
  obtain ⟨c1, c2, c3, c4, c5⟩ := hid.ctrs
  simp only [reduceCtorEq, if_false] at c1 c2 c3 c4 c5
  obtain ⟨i1, _, _, d1, d2, s1, s2, m1, m2, g1, g2, a1, a2⟩ := C
  have pS : pendS x.1.drv = 0 := by simp [pendS, c1]
  have pM : pendM x.1.drv = 0 := by simp [pendM, c1, c2]
  have pG : pendG x.1.drv = 0 := by simp [pendG, c1, c2, c3]
  have pA : pendA x.1.drv = 0 := by simp [pendA, c1, c2, c3, c4]
  rw [hid.toSend] at d1 s1 g1 a1
  rw [hid.toCP] at m1
  simp only [cnt_nil, List.length_nil] at d1 s1 m1 g1 a1
  have hans : x.1.drv.answered.length + (if x.1.drv.toMMU.isSome then 1 else 0) = x.2.reqs.length := by
    have hl : x.2.reqs.length = x.1.drv.taken.length := by rw [← i1, List.length_map]
    cases I.ph with
    | idle _ _ _ hm =>
      have := congrArg List.length hm.ans
      cases ht : x.1.drv.toMMU <;> simp [ht] at this ⊢ <;> omega
    | bcast p r σ loc _ hh' => rw [hh] at hh'; cases hh'
    | mig r fl ws hh' => rw [hh] at hh'; cases hh'
  exact ⟨⟨by omega, by omega⟩, ⟨by omega, by omega⟩, ⟨by omega, by omega⟩, ⟨by omega, by omega⟩,
    ⟨by omega, by omega⟩, hans⟩

theorem SY.restarts_tail {l : List MmuReq} {r : MmuReq} {g k : Nat} (hl : l.getLast? = some r)
    (hg : g + r.acc.length = sumAcc l) (hk : k + 1 = l.length) : g = sumAcc (l.take k) := by
  obtain ⟨ys, rfl⟩ := List.getLast?_eq_some_iff.mp hl
  rw [sumAcc_snoc] at hg
  simp only [List.length_append, List.length_cons, List.length_nil] at hk
  have hk' : k = ys.length := by omega
  subst hk'
  rw [List.take_left']
  · omega
  · rfl

/-- **sys_restarts_match_answers.** In every state of every monitored run: the GPU-restart commands created
    so far (entered the port + queued) are exactly Σ `acc` over the requests whose answer to the MMU has been
    prepared (sent into the MMU port or waiting in `toSendToMMU`) — `handshake_ordered`'s
    "restarts = acc × MMU answers" with per-request `acc`; requests are answered in the order taken
    (`mmu_answered_once_in_order`), so these are the first `answers` requests. -/
theorem sys_restarts_match_answers {x : SY.Sys × Cnt} (h : ReachC x) :
    x.2.cG + cnt isG x.1.drv.toSend =
      sumAcc (x.2.reqs.take (x.1.drv.answered.length + (if x.1.drv.toMMU.isSome then 1 else 0))) := by
  obtain ⟨I, C⟩ := reachC_ici h
  have g1 := C.g1
  have hl : x.2.reqs.length = x.1.drv.taken.length := by rw [← C.ids, List.length_map]
  have hlen : ∀ pc, MmuInv x.1 pc →
      x.1.drv.answered.length + (if x.1.drv.toMMU.isSome then 1 else 0) + pc.length = x.2.reqs.length := by
    intro pc hm
    have := congrArg List.length hm.ans
    cases ht : x.1.drv.toMMU <;> simp [ht] at this ⊢ <;> omega
  cases I.ph with
  | idle hd _ _ hm =>
    obtain ⟨c1, c2, c3, _, _⟩ := hd.ctrs
    simp only [reduceCtorEq, if_false] at c1 c2 c3
    have hp : pendG x.1.drv = 0 := by simp [pendG, c1, c2, c3]
    have := hlen _ hm
    simp only [List.length_nil, Nat.add_zero] at this
    rw [this, List.take_length]; omega
  | mig r fl ws _ hc hr hct hmp _ hm =>
    have hpos := hmp.pos
    have hp : pendG x.1.drv = r.acc.length := by simp [pendG, curAcc, hc, hpos]
    have := hlen _ hm
    simp only [List.length_cons, List.length_nil] at this
    exact SY.restarts_tail (C.cur r hc) (by omega) (by omega)
  | bcast p r σ loc hp _ hc hr hct _ _ hb _ hm =>
    obtain ⟨c1, c2, c3, _, _⟩ := ctrs_at hct
    have hpos := hb.pos
    have hk := hlen _ hm
    cases p with
    | mig => exact absurd rfl hp
    | drain =>
      simp only [if_true] at c1
      have hpd : pendG x.1.drv = r.acc.length := by simp [pendG, curAcc, hc, c1, hpos]
      simp only [true_or, if_true, List.length_cons, List.length_nil] at hk
      exact SY.restarts_tail (C.cur r hc) (by omega) (by omega)
    | shoot =>
      simp only [if_true] at c2
      have hpd : pendG x.1.drv = r.acc.length := by simp [pendG, curAcc, hc, c2, hpos]
      simp only [or_true, if_true, List.length_cons, List.length_nil] at hk
      exact SY.restarts_tail (C.cur r hc) (by omega) (by omega)
    | restart =>
      simp only [reduceCtorEq, if_false] at c1 c2 c3
      have hpd : pendG x.1.drv = 0 := by simp [pendG, c1, c2, c3]
      simp only [reduceCtorEq, or_self, if_false, List.length_nil, Nat.add_zero] at hk
      rw [hk, List.take_length]; omega
    | rdma =>
      simp only [reduceCtorEq, if_false] at c1 c2 c3
      have hpd : pendG x.1.drv = 0 := by simp [pendG, c1, c2, c3]
      simp only [reduceCtorEq, or_self, if_false, List.length_nil, Nat.add_zero] at hk
      rw [hk, List.take_length]; omega

/-! ## the theorems are not vacuous: the monitor on the complete handshake of `Props/C19Sys.lean` -/

def demoX0 : SY.Sys × Cnt := stepC (demoS0, {}) (.mmuSend demoReq)

theorem demoC_reach (k : Nat) : ReachC (runC demoX0 (demoMoves.take k)) := by
  have h0 : ReachC demoX0 := ReachC.step (.mmuSend demoReq) (ReachC.init demo_init) demo_req_ok
  have hall : demoMoves.all okB = true := by decide
  have gen : ∀ (ms : List Mv) (x : SY.Sys × Cnt), ReachC x → ms.all okB = true → ReachC (runC x ms) := by
    intro ms
    induction ms with
    | nil => intro x hx _; exact hx
    | cons m ms ih =>
      intro x hx hv
      simp only [List.all_cons, Bool.and_eq_true] at hv
      exact ih _ (ReachC.step m hx (ok_of_okB x.1 m hv.1)) hv.2
  refine gen _ _ h0 ?_
  rw [List.all_eq_true] at hall ⊢
  exact fun m hm => hall m (List.mem_of_mem_take hm)

def cntSig (c : Cnt) : List Nat := [c.reqs.length, c.cD, c.cS, c.cM, c.cG, c.cA, c.aD, c.aS, c.aM, c.aG, c.aA]

/-- `sys_commands_per_phase` / `sys_counts_when_idle` on the complete handshake (2 GPUs, both accessing, one
    page): at the end 2 drains, 2 shootdowns, 1 migrate command, 2 GPU restarts, 2 RDMA restarts were sent
    and acknowledged, the driver is idle; after 55 moves (the copy in flight) the migrate command has been
    sent and no restart exists yet — so the hypothesis of `sys_restart_after_migration_acks` is false there
    and true at the end. -/
example : ReachC (runC demoX0 demoMoves) ∧
    cntSig (runC demoX0 demoMoves).2 = [1, 2, 2, 1, 2, 2, 2, 2, 1, 2, 2] ∧
    (runC demoX0 demoMoves).1.drv.handling = false ∧
    cntSig (runC demoX0 (demoMoves.take 55)).2 = [1, 2, 2, 1, 0, 0, 2, 2, 0, 0, 0] ∧
    (runC demoX0 demoMoves).2.cG + cnt isG (runC demoX0 demoMoves).1.drv.toSend = sumAcc (runC demoX0 demoMoves).2.reqs ∧
    (runC demoX0 (demoMoves.take 55)).2.cG + cnt isG (runC demoX0 (demoMoves.take 55)).1.drv.toSend ≠
      sumAcc (runC demoX0 (demoMoves.take 55)).2.reqs := by
  refine ⟨?_, by decide +kernel, by decide +kernel, by decide +kernel, by decide +kernel, by decide +kernel⟩
  have := demoC_reach demoMoves.length
  rwa [List.take_length] at this

/-- `sys_restarts_match_answers` is not vacuous: no answer and no restart while the copy is in flight, one answer
    and two restarts (both GPUs accessing) at the end -/
example : (runC demoX0 (demoMoves.take 55)).1.drv.answered.length = 0 ∧
    (runC demoX0 (demoMoves.take 55)).1.drv.toMMU.isSome = false ∧
    (runC demoX0 demoMoves).1.drv.answered.length = 1 ∧
    sumAcc ((runC demoX0 demoMoves).2.reqs.take 1) = 2 := by
  refine ⟨by decide +kernel, by decide +kernel, by decide +kernel, by decide +kernel⟩

/-- `monitored_runs_are_all_runs` is not vacuous: the monitored demo run projects to the demo run -/
example : (runC demoX0 demoMoves).1.drv.answered = (SY.run (SY.step demoS0 (.mmuSend demoReq)) demoMoves).drv.answered := by
  decide +kernel

end C19
