import MgpuProofs.C15Arr
import MgpuProofs.Props.C15Fair
/-! # C15 — liveness from the moment a request ARRIVES in the Top port

`Props/C15Fair.lean` starts at a *pending* request (one the ROB already accepted). Here the
starting point is earlier: request `a` still waits in the Top port's incoming buffer (`WinIn`: no
fault, not flushing, no control message waiting or arriving, the pending requests and the waiting
requests up to `a` name a requester, `BottomUnit` is set). `Sys.muIn c a σ`
(`MgpuProofs/C15ArrDefs.lean`) = `kAcc · (number of waiting requests up to and including a)` + the
work left for **all** pending transactions; `helpfulIn c σ e` says that event `e`, happening in
state `σ`, is one of: a tick that can retire the head, consume an answer to a pending transaction
or accept the head of the Top port; the memory taking a forwarded copy; the memory's answer to a
pending transaction's copy entering the Bottom port; the requester taking a response.
-/
namespace C15

/-- a ROB with room for one transaction: the second request has to wait for the first one's answer -/
def tightCfg : Cfg := { demoCfg with cap := 1 }

/-- two requests arrive, the tick accepts request 0; request 1 waits in the Top port -/
def arrEvs : List Ev := [.arrive (demoReq 0 false), .arrive (demoReq 64 false), .tick]

/-- an idle tick (the ROB is full), then the memory takes and answers the copy of request 0, the
    ROB consumes the answer, retires request 0 and accepts request 1 -/
def arrMore : List Ev := [.tick, .memTake, .memAnswer 0 (.data [1]), .tick, .tick]

example : WinIn tightCfg 1 (sysRun tightCfg arrEvs).rob ∧ (sysRun tightCfg arrEvs).muIn tightCfg 1 = 13 ∧
    (sysRun tightCfg arrEvs).rob.topIn.map (·.id) = [1] ∧ (sysRun tightCfg arrEvs).rob.accepted = [0] := by
  refine ⟨by decide, by decide, by decide, by decide⟩

/-- **Bounded acceptance (finite runs).** From any reachable state in which request `a` waits in
    the Top port's incoming buffer (inside the window `WinIn`), along any event list without control
    messages: either `a` has been accepted by the ROB, or it still waits inside the window and the
    measure `muIn` has dropped by at least the number of helpful events that happened — every
    helpful event pays one unit, no event ever adds one. In particular `a` is accepted at the
    latest when `muIn` helpful events have happened: the requests in front of `a` cannot starve
    it, and neither can the transactions that occupy the buffer. -/
theorem accepted_within_measure (c : Cfg) (evs0 evs : List Ev) (a : Nat) (hw : 1 ≤ c.width)
    (hwin : WinIn c a (sysRun c evs0).rob) (hn : ∀ e ∈ evs, isCtl e = false) :
    let σ := sysRun c evs0
    let σ' := sysRun c (evs0 ++ evs)
    (a ∈ σ'.rob.accepted ∨ (WinIn c a σ'.rob ∧ σ'.muIn c a + helpfulInCount c σ evs ≤ σ.muIn c a)) ∧
    (σ.muIn c a ≤ helpfulInCount c σ evs → a ∈ σ'.rob.accepted) := by
  intro σ σ'
  have hrun : σ' = evs.foldl (sysStep c) σ := by simp [σ, σ', sysRun, List.foldl_append]
  have key := fold_muIn c a hw evs σ (sysRun_ok c evs0) hwin hn
  rw [← hrun] at key
  refine ⟨key, ?_⟩
  intro hle
  rcases key with d | ⟨w, le⟩
  · exact d
  · have := winIn_muIn_pos σ'.mem w
    unfold Sys.muIn at *
    omega

example : helpfulInCount tightCfg (sysRun tightCfg arrEvs) arrMore = 4 ∧
    (sysRun tightCfg (arrEvs ++ arrMore.take 4)).muIn tightCfg 1 = 9 ∧
    WinIn tightCfg 1 (sysRun tightCfg (arrEvs ++ arrMore.take 4)).rob ∧
    (sysRun tightCfg (arrEvs ++ arrMore)).rob.accepted = [0, 1] := by
  refine ⟨by decide, by decide, by decide, by decide⟩

/-- **Acceptance under fairness.** Take any infinite schedule without control messages, started in
    a reachable state in which request `a` waits in the Top port's incoming buffer (window
    `WinIn`). If, as long as `a` waits there, an event of `helpfulIn` keeps happening eventually
    (the lower level eventually takes and answers forwarded requests, the requester eventually
    takes responses, the component is eventually ticked while it can do something), then after
    finitely many events `a` is a pending transaction of the ROB and the liveness window `Window`
    of `Props/C15Fair.lean` holds for it. The proof is the decreasing measure `Sys.muIn`. -/
theorem eventually_accepted (c : Cfg) (evs0 : List Ev) (sched : Nat → Ev) (a : Nat) (hw : 1 ≤ c.width)
    (hwin : WinIn c a (sysRun c evs0).rob) (hn : ∀ n, isCtl (sched n) = false)
    (hfair : ∀ n, a ∈ (sysAt c (sysRun c evs0) sched n).rob.topIn.map (·.id) →
      ∃ j, n ≤ j ∧ helpfulIn c (sysAt c (sysRun c evs0) sched j) (sched j) = true) :
    ∃ n, Window c a (sysAt c (sysRun c evs0) sched n).rob :=
  eventually_window c a (sysRun c evs0) sched (sysRun_ok c evs0) hw hn hfair _ 0 hwin (Nat.le_refl _)

/-- a fair schedule for the demo: the memory takes and answers the copy of request 0, two ticks,
    the memory takes and answers the copy of request 1, then ticks forever -/
def arrSched : Nat → Ev
  | 0 => .memTake
  | 1 => .memAnswer 0 (.data [1])
  | 4 => .memTake
  | 5 => .memAnswer 0 (.data [2])
  | _ => .tick

example : helpfulIn tightCfg (sysAt tightCfg (sysRun tightCfg arrEvs) arrSched 0) (arrSched 0) = true ∧
    helpfulIn tightCfg (sysAt tightCfg (sysRun tightCfg arrEvs) arrSched 1) (arrSched 1) = true ∧
    helpfulIn tightCfg (sysAt tightCfg (sysRun tightCfg arrEvs) arrSched 2) (arrSched 2) = true ∧
    helpfulIn tightCfg (sysAt tightCfg (sysRun tightCfg arrEvs) arrSched 3) (arrSched 3) = true ∧
    (sysAt tightCfg (sysRun tightCfg arrEvs) arrSched 3).rob.topIn.map (·.id) = [1] ∧
    Window tightCfg 1 (sysAt tightCfg (sysRun tightCfg arrEvs) arrSched 4).rob := by
  refine ⟨by decide, by decide, by decide, by decide, by decide,
    ⟨by decide, by decide, by decide, by decide, by decide, by decide⟩⟩

/-- **Liveness from arrival.** The two fairness hypotheses together — helpful events for the
    waiting request keep happening while `a` waits in the Top port, helpful events for the
    pending request keep happening while `a` is pending — carry a request from the moment it is
    in the Top port's incoming buffer to the moment its response enters the Top port's outgoing
    buffer: `eventually_accepted` followed by `eventually_answered`. -/
theorem eventually_answered_from_arrival (c : Cfg) (evs0 : List Ev) (sched : Nat → Ev) (a : Nat)
    (hw : 1 ≤ c.width) (hwin : WinIn c a (sysRun c evs0).rob) (hn : ∀ n, isCtl (sched n) = false)
    (hfairIn : ∀ n, a ∈ (sysAt c (sysRun c evs0) sched n).rob.topIn.map (·.id) →
      ∃ j, n ≤ j ∧ helpfulIn c (sysAt c (sysRun c evs0) sched j) (sched j) = true)
    (hfair : ∀ n, a ∈ (sysAt c (sysRun c evs0) sched n).rob.txs.map (·.req.id) →
      ∃ j, n ≤ j ∧ helpful c a (sysAt c (sysRun c evs0) sched j) (sched j) = true) :
    ∃ n, a ∈ (sysAt c (sysRun c evs0) sched n).rob.delivered.map (·.rspTo) := by
  obtain ⟨n, wd⟩ := eventually_accepted c evs0 sched a hw hwin hn hfairIn
  exact eventually_done c a (sysRun c evs0) sched hw hn hfair _ n
    (Win.of (sysAt_ok c (sysRun c evs0) sched (sysRun_ok c evs0) n) wd) (Nat.le_refl _)

example : helpful tightCfg 1 (sysAt tightCfg (sysRun tightCfg arrEvs) arrSched 4) (arrSched 4) = true ∧
    helpful tightCfg 1 (sysAt tightCfg (sysRun tightCfg arrEvs) arrSched 5) (arrSched 5) = true ∧
    helpful tightCfg 1 (sysAt tightCfg (sysRun tightCfg arrEvs) arrSched 6) (arrSched 6) = true ∧
    helpful tightCfg 1 (sysAt tightCfg (sysRun tightCfg arrEvs) arrSched 7) (arrSched 7) = true ∧
    (sysAt tightCfg (sysRun tightCfg arrEvs) arrSched 7).rob.txs.map (·.req.id) = [1] ∧
    (sysAt tightCfg (sysRun tightCfg arrEvs) arrSched 8).rob.delivered.map (·.rspTo) = [0, 1] := by
  decide

/-- **The fairness hypothesis can be met: no deadlock before acceptance.** While `a` waits in the
    Top port (all capacities ≥ 1) some event of `helpfulIn` is enabled: a tick that accepts the head
    request if there is room in the buffer and in the Bottom port, the memory taking a copy if the
    Bottom port is full, and if the buffer is full the events that serve its head transaction
    (`no_deadlock_in_window`) — or the only obstacle is the full incoming buffer of the Bottom port
    in front of the memory's answer to a pending transaction's copy, which the ROB's own ticks
    drain. -/
theorem no_deadlock_before_acceptance (c : Cfg) (evs0 : List Ev) (a : Nat) (hw : 1 ≤ c.width)
    (hto : 1 ≤ c.topOutCap) (hcap : 1 ≤ c.cap) (hbo : 1 ≤ c.botOutCap)
    (hwin : WinIn c a (sysRun c evs0).rob) :
    let σ := sysRun c evs0
    (∃ e, isCtl e = false ∧ helpfulIn c σ e = true) ∨
    (c.botInCap ≤ σ.rob.botIn.length ∧ ∃ (j : Nat) (b : BReq), σ.mem[j]? = some b ∧ b.id ∈ allIds σ.rob) := by
  intro σ
  have _ := hw
  exact helpfulIn_or_backpressure c a σ (sysRun_ok c evs0) hwin hto hcap hbo

example : helpfulIn tightCfg (sysRun tightCfg arrEvs) .memTake = true ∧
    helpfulIn tightCfg (sysRun tightCfg arrEvs) .tick = false := by decide

/-- a Bottom port that accepts no answers at all: the second disjunct of
    `no_deadlock_before_acceptance` is needed -/
def stuckCfg : Cfg := { tightCfg with botInCap := 0 }

example : WinIn stuckCfg 1 (sysRun stuckCfg (arrEvs ++ [.memTake])).rob ∧
    [Ev.tick, .memTake, .memAnswer 0 .done, .takeRsp].map (helpfulIn stuckCfg (sysRun stuckCfg (arrEvs ++ [.memTake])))
      = [false, false, false, false] ∧
    (sysRun stuckCfg (arrEvs ++ [.memTake])).mem.map (·.id) = [0] ∧
    allIds (sysRun stuckCfg (arrEvs ++ [.memTake])).rob = [0] := by
  refine ⟨by decide, by decide, by decide, by decide⟩

end C15
