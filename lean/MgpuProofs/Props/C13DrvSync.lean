import MgpuProofs.C13DrvSync
import MgpuProofs.C13DrvKey
/-!
# C13 — driver side: every launch points at an upload of its code (properties)

Run-level statements about `C13.Drv.run` (model: `MgpuModel/C13Drv.lean`), for all histories.
Helper definitions and the invariant are in `MgpuProofs/C13DrvSync.lean`.
-/
namespace C13
namespace Drv

/-! ## 1. a launch points at an upload -/

/-- Whatever the history (queues exist when used, a pointer names one object): the `KernelObject`
address of every launch command is the destination of an upload of that code object, of the same
length, enqueued in SOME queue `qu'`, into a buffer allocated in the process of `qu'`.  For the parts
of a unified launch the upload is in the same queue and the buffer in the same process. -/
theorem launch_points_at_an_upload (ops : List Op) (hwf : WF ops) (hc : Consistent ops) :
    ∀ qu ∈ (run ops).queues,
      (∀ co len ko ka dp, Cmd.launch co len ko ka dp ∈ qu.cmds →
        ∃ qu' ∈ (run ops).queues, Cmd.copyCode ko co len ∈ qu'.cmds ∧
          ∃ a ∈ (run ops).allocs, a.addr = ko ∧ a.size = len ∧ a.pid = qu'.pid) ∧
      (∀ co len parts, Cmd.launchUnified co len parts ∈ qu.cmds → ∀ p ∈ parts,
        Cmd.copyCode p.1 co len ∈ qu.cmds ∧
          ∃ a ∈ (run ops).allocs, a.addr = p.1 ∧ a.size = len ∧ a.pid = qu.pid) := by
  intro qu hq
  have inv := inv_run ops hwf hc
  constructor
  · intro co len ko ka dp hm
    obtain ⟨j, pre, post, _, _, _, _, i, _, ⟨qu', hq', hcopy, ha⟩, _⟩ := inv.good_of_mem hq hm
    exact ⟨qu', List.mem_of_getElem? hq', hcopy, ha⟩
  · intro co len parts hm p hp
    obtain ⟨j, pre, post, _, hs, hg⟩ := inv.good_of_mem hq hm
    obtain ⟨h1, ha⟩ := hg p hp
    exact ⟨by rw [hs]; exact List.mem_append_left _ h1, ha⟩

example : WF demo ∧ Consistent demo := by decide

/-- the conclusion speaks about something: `demo` has a cached launch and a unified launch -/
example : Cmd.launch 7 64 4096 16384 20480 ∈ ((run demo).queues.getD 0 ⟨0, []⟩).cmds ∧
    Cmd.launchUnified 7 64 [(24576, 28672, 32768), (36864, 40960, 45056)] ∈
      ((run demo).queues.getD 1 ⟨0, []⟩).cmds := by decide

/-! ## 2. one upload per object -/

/-- Without unified launches: the code of an object is uploaded exactly once over all queues if
the object is launched at all, and never otherwise. -/
theorem upload_exactly_once (ops : List Op) (hwf : WF ops) (hnu : NoUnified ops) (id : Nat) :
    ((∃ q gpu co addrs, Op.launch q gpu co addrs ∈ ops ∧ co.id = id) →
      codeCopies (run ops).queues id = 1) ∧
    ((¬ ∃ q gpu co addrs, Op.launch q gpu co addrs ∈ ops ∧ co.id = id) →
      codeCopies (run ops).queues id = 0) := by
  have h := codeCopies_run ops hwf hnu id
  rw [lookup_cache_run] at h
  constructor
  · intro he
    rw [h, if_pos ((firstLaunchAddr_isSome ops id).mpr he)]
  · intro he
    rw [h, if_neg (fun hs => he ((firstLaunchAddr_isSome ops id).mp hs))]

example : WF demoPlain ∧ NoUnified demoPlain := by
  refine ⟨by decide, ?_⟩
  intro q g c a h
  simp [demoPlain, demo] at h

example : codeCopies (run demoPlain).queues 7 = 1 ∧ codeCopies (run demoPlain).queues 9 = 1 ∧
    codeCopies (run demoPlain).queues 8 = 0 := by decide

/-- with a unified launch the count is different (`NoUnified` is needed): 1 + one per member GPU -/
example : WF demo ∧ codeCopies (run demo).queues 7 = 3 := by decide

/-! ## 3. the cache holds the first address -/

/-- The cache maps `id` to `ko` iff the first non-unified launch of `id` was handed `ko` for the
code, and every launch command of `id`, in any queue, carries that address.  (No hypothesis on the
history is needed.) -/
theorem cache_is_first_address (ops : List Op) (id : Nat) :
    (∀ ko, lookup (run ops).cache id = some ko ↔ firstLaunchAddr ops id = some ko) ∧
    (∀ qu ∈ (run ops).queues, ∀ len ko ka dp, Cmd.launch id len ko ka dp ∈ qu.cmds →
      firstLaunchAddr ops id = some ko) := by
  constructor
  · intro ko; rw [lookup_cache_run]
  · intro qu hq len ko ka dp hm
    rw [← lookup_cache_run]
    exact launch_cmd_cached ops qu hq id len ko ka dp hm

example : firstLaunchAddr demo 7 = some 4096 ∧ firstLaunchAddr demo 9 = some 4096 ∧
    firstLaunchAddr demo 8 = none ∧ lookup (run demo).cache 7 = some 4096 := by decide

/-! ## 4. upload earlier in the same queue, if the object stays in one queue -/

/-- If every code object is launched through one queue only, every launch command is preceded, in
its own queue, by the upload of its code to the address it points at. -/
theorem same_queue_upload_partial (ops : List Op) (hwf : WF ops) (hc : Consistent ops)
    (h1 : OneQueuePerObject ops) : ∀ qu ∈ (run ops).queues, UploadedBefore qu.cmds := by
  intro qu hq pre c post hs
  have inv := inv_run ops hwf hc
  obtain ⟨j, hj⟩ := List.mem_iff_getElem?.mp hq
  have hg := inv.cmds j qu hj pre c post hs
  constructor
  · intro co len ko ka dp he
    subst he
    obtain ⟨_, hju, i, hiu, _, hpre⟩ := hg
    exact hpre (h1 (i, co) hiu (j, co) hju rfl)
  · intro co len parts he p hp
    subst he
    exact (hg p hp).1

example : WF demo ∧ Consistent demo ∧ OneQueuePerObject demo := by decide

/-! ## 5. the code buffer is in the launching process, if the object stays in one process -/

/-- If every code object is launched from queues of one process only, the address a launch command
points at is a buffer of `len` bytes allocated in the process of the queue that launches. -/
theorem same_process_partial (ops : List Op) (hwf : WF ops) (hc : Consistent ops)
    (h1 : OneProcessPerObject ops) :
    ∀ qu ∈ (run ops).queues, ∀ co len ko ka dp, Cmd.launch co len ko ka dp ∈ qu.cmds →
      ∃ a ∈ (run ops).allocs, a.addr = ko ∧ a.size = len ∧ a.pid = qu.pid := by
  intro qu hq co len ko ka dp hm
  have inv := inv_run ops hwf hc
  obtain ⟨j, pre, post, hj, _, _, hju, i, hiu, ⟨qu', hq', _, a, ha, e1, e2, e3⟩, _⟩ :=
    inv.good_of_mem hq hm
  refine ⟨a, ha, e1, e2, ?_⟩
  have := h1 (i, co) hiu (j, co) hju rfl
  simp only [pidOf_eq hq', pidOf_eq hj] at this
  rw [e3, this]

example : WF demo ∧ Consistent demo ∧ OneProcessPerObject demo := by decide

/-- one queue per object is not implied by one process per object -/
example : WF sameQueueWitness ∧ Consistent sameQueueWitness ∧ OneProcessPerObject sameQueueWitness ∧
    ¬ OneQueuePerObject sameQueueWitness := by decide

/-! ## 6. the full statements, and why they fail -/

/-- FALSE: the upload precedes the launch in the launching queue -/
def code_upload_same_queue_full : Prop :=
  ∀ ops, WF ops → Consistent ops → ∀ qu ∈ (run ops).queues, UploadedBefore qu.cmds

/-- The cache is driver-wide: a second queue launching a cached object gets no upload of its own;
nothing orders its launch after the upload sitting in the first queue. -/
theorem code_upload_same_queue_full_refuted : ¬ code_upload_same_queue_full := by
  intro h
  have h1 := h sameQueueWitness (by decide) (by decide)
    ⟨1, [.copyArgs 16384 16, .copyPacket 20480, .launch 7 64 4096 16384 20480]⟩ (by decide)
  have h2 := (h1 [.copyArgs 16384 16, .copyPacket 20480] (.launch 7 64 4096 16384 20480) [] rfl).1
    7 64 4096 16384 20480 rfl
  revert h2
  decide

/-- The address a launch points at is a code-sized buffer of the launching process — for every history of the
REPAIRED driver (`runP`: cache key = (process, code object)), with no hypothesis on who launches what. `WF` /
`Consistent` are stated on the history as the driver sees it (tags = keys): queue indices exist, and one
(process, pointer) names one object. -/
def code_address_same_process_full : Prop :=
  ∀ ops, WF (keyed ops).2 → Consistent (keyed ops).2 → ∀ qu ∈ (runP ops).queues, ∀ co len ko ka dp,
    Cmd.launch co len ko ka dp ∈ qu.cmds →
      ∃ a ∈ (runP ops).allocs, a.addr = ko ∧ a.size = len ∧ a.pid = qu.pid

/-- … holds: `OneProcessPerObject` is true of every keyed history (`keyed_one_process`, the pairing `ckey` is
injective), so `same_process_partial` applies. -/
theorem code_address_same_process_full_holds : code_address_same_process_full := by
  intro ops hwf hc qu hq co len ko ka dp hm
  rw [keyed_run] at hq ⊢
  exact same_process_partial (keyed ops).2 hwf hc (keyed_one_process ops hwf) qu hq co len ko ka dp hm

/-- the kind of history on which the driver used to hand process 2 the address of process 1 (one object of 128 bytes
launched from two processes, the allocator answering 16384 in both address spaces): now both processes upload their
own copy — two code-sized allocations, one per process, two cache entries -/
example :
    let ops : List Op := [.newQueue 1, .newQueue 2, .launch 0 1 ⟨7, 128, 16, 0⟩ [16384, 20480, 24576],
                          .launch 1 1 ⟨7, 128, 16, 0⟩ [16384, 20480, 24576]]
    WF (keyed ops).2 ∧ Consistent (keyed ops).2 ∧
    (runP ops).allocs.filter (·.size = 128) = [⟨1, 1, 16384, 128⟩, ⟨2, 1, 16384, 128⟩] ∧
    (runP ops).cache = [(ckey 1 7, 16384), (ckey 2 7, 16384)] ∧
    (runP ops).queues.map (fun q => (q.pid, q.cmds.head?)) =
      [(1, some (.copyCode 16384 (ckey 1 7) 128)), (2, some (.copyCode 16384 (ckey 2 7) 128))] := by decide

/-- the same statement about the driver BEFORE the repair (`run`: cache keyed by the object pointer only) -/
def code_address_same_process_before_fix : Prop :=
  ∀ ops, WF ops → Consistent ops → ∀ qu ∈ (run ops).queues, ∀ co len ko ka dp,
    Cmd.launch co len ko ka dp ∈ qu.cmds →
      ∃ a ∈ (run ops).allocs, a.addr = ko ∧ a.size = len ∧ a.pid = qu.pid

/-- The cache was keyed by the object only: a second process was handed the first process's address
(here 16384, which in its own address space is its kernarg buffer). -/
theorem code_address_same_process_before_fix_refuted : ¬ code_address_same_process_before_fix := by
  intro h
  have h1 := h sameProcessWitness (by decide) (by decide)
    ⟨2, [.copyArgs 16384 16, .copyPacket 20480, .launch 7 64 16384 16384 20480]⟩ (by decide)
    7 64 16384 16384 20480 (by decide)
  revert h1
  decide

/-! ## 7. `Consistent` is needed -/

/-- Without `Consistent` theorem 1 fails: the same pointer with a longer `Data` at the second launch
gives a launch command of 128 bytes whose only upload has 64. -/
theorem consistent_is_needed :
    ¬ ∀ ops, WF ops → ∀ qu ∈ (run ops).queues, ∀ co len ko ka dp,
      Cmd.launch co len ko ka dp ∈ qu.cmds →
        ∃ qu' ∈ (run ops).queues, Cmd.copyCode ko co len ∈ qu'.cmds ∧
          ∃ a ∈ (run ops).allocs, a.addr = ko ∧ a.size = len ∧ a.pid = qu'.pid := by
  intro h
  have h1 := h inconsistentWitness (by decide) _ (List.mem_singleton.mpr rfl)
    7 128 4096 16384 20480 (by decide)
  revert h1
  decide

example : WF inconsistentWitness ∧ ¬ Consistent inconsistentWitness := by decide

/-- Without `WF` theorem 1 fails too (model artefact: a queue index stands for a Go pointer): a
launch through a queue that does not exist fills the cache without enqueuing the upload. -/
theorem wf_is_needed :
    ¬ ∀ ops, Consistent ops → ∀ qu ∈ (run ops).queues, ∀ co len ko ka dp,
      Cmd.launch co len ko ka dp ∈ qu.cmds →
        ∃ qu' ∈ (run ops).queues, Cmd.copyCode ko co len ∈ qu'.cmds ∧
          ∃ a ∈ (run ops).allocs, a.addr = ko ∧ a.size = len ∧ a.pid = qu'.pid := by
  intro h
  have h1 := h illFormedWitness (by decide) _ (List.mem_singleton.mpr rfl)
    7 64 4096 16384 20480 (by decide)
  revert h1
  decide

example : Consistent illFormedWitness ∧ ¬ WF illFormedWitness := by decide

/-! ## 8. the entry point lies inside the uploaded bytes -/

/-- `pkt.KernelObject + co.KernelCodeEntryByteOffset` is inside `[ko, ko + len(co.Data))` when the
entry offset is inside the data. -/
theorem entry_pc_inside_upload (ko : Nat) (co : Co) (h : co.entry < co.len) :
    ko ≤ entryPC ko co ∧ entryPC ko co < ko + co.len := by
  unfold entryPC
  omega

example : (⟨9, 128, 32, 8⟩ : Co).entry < (⟨9, 128, 32, 8⟩ : Co).len := by decide

end Drv
end C13
