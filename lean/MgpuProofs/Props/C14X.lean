import MgpuProofs.C14XRun
import MgpuProofs.C14Next
/-! # C14 — the compute unit around the scheduler: pipeline flush and sampled work-groups

Statements about `C14.xrun c x ops`: the state of the compute unit after an **arbitrary** sequence
of scheduler events (`base`: everything `Props/C14.lean` is about), pipeline flushes (`flush`:
`setWavesToReady` + `Scheduler.Flush`, at any moment, any number of times) and handlings of the
`WfCompletionEvent`s of sampled work-groups (`fire`: `handleWfCompletionEvent`, in any order, the
re-scheduled ones included) that respects the issue rules and fires only scheduled events
(`xlegalRun`), from any freshly mapped state (`XInit`: any number of dispatched and of sampled
work-groups), for the repaired code and arbitrary capacities. -/
namespace C14

def mkW (id wg : Nat) (st : WfState) (pool : Bool) : Wf :=
  { id := id, wg := wg, state := st, op := 99, lk := 0, vm := 0, osc := 0, ovc := 0, pc := 0, inPool := pool,
    arr := 0, bar := 0 }

/-- dispatched group 0 (wavefronts 0, 1), sampled group 1 (wavefronts 2, 3); three foreign messages
    wait in ToACE -/
def xdemo : XState :=
  { s := { wfs := [mkW 0 0 .ready true, mkW 1 0 .ready true], exec := [], buf := [], out := [none, none, none],
           sent := [], fault := false }
    sw := [mkW 2 1 .sampled false, mkW 3 1 .sampled false]
    evq := [2, 3] }

/-- wavefront 0 parks at a barrier, a flush resets it, it arrives again, wavefront 1 arrives and
    both pass; meanwhile the two events of the sampled group are handled, the second one finds the
    port full and is re-scheduled; both groups end -/
def xdemoOps : List XOp :=
  [.base (.issue 0 10 0 0), .base .eval, .fire 3, .flush, .base (.issue 0 10 0 0), .base .eval,
   .base (.issue 1 10 0 0), .base .eval, .base (.issue 0 1 0 0), .base .eval, .base (.issue 1 1 0 0), .base .eval,
   .fire 2, .base (.drain 2), .fire 2]

theorem xdemo_init : XInit xdemo where
  base := ⟨rfl, rfl, by decide, by decide⟩
  pool := by decide
  sent := rfl
  sids := by decide
  sst := by decide
  ev := rfl
  disj := by decide
  idisj := by decide

example : xlegalRun Cfg.cur xdemo xdemoOps = true := by decide
example : (xrun Cfg.cur xdemo xdemoOps).s.sent = [0, 1] ∧ (xrun Cfg.cur xdemo xdemoOps).evq = [] ∧
    (xrun Cfg.cur xdemo (xdemoOps.take 13)).evq = [2] ∧ (xrun Cfg.cur xdemo (xdemoOps.take 13)).s.sent = [0] ∧
    (xrun Cfg.cur xdemo (xdemoOps.take 3)).s.wfs.map (·.state) = [.atBarrier, .ready] ∧
    (xrun Cfg.cur xdemo (xdemoOps.take 4)).s.wfs.map (fun w => (w.state, w.arr, w.pc)) = [(.ready, 0, 0), (.ready, 0, 0)] ∧
    (xrun Cfg.cur xdemo xdemoOps).s.wfs.map (fun w => (w.state, w.bar)) = [(.completed, 1), (.completed, 1)] := by
  decide

/-- **The invariant of the compute unit** (`XInv`): the scheduler invariants `Inv`, `NS`, `CInv`,
    `DInv` of `Props/C14.lean`, every unfinished wavefront resident in a pool, and the invariant
    `SInv` of the sampled work-groups and their events hold after every legal run — pipeline flushes
    and event handlings at arbitrary moments included. -/
theorem xsched_inv (c : Cfg) (hA : c.fixA = true) (hB : c.fixB = true) (x : XState) (ops : List XOp)
    (h0 : XInit x) (hl : xlegalRun c x ops = true) : XInv (xrun c x ops) :=
  xrun_XInv hA hB ops (XInit_XInv h0) hl

/-- `panic("never")` stays unreachable when flushes and sampled completions are interleaved. -/
theorem xnever_panics (c : Cfg) (hA : c.fixA = true) (hB : c.fixB = true) (x : XState) (ops : List XOp)
    (h0 : XInit x) (hl : xlegalRun c x ops = true) : (xrun c x ops).s.fault = false :=
  (xsched_inv c hA hB x ops h0 hl).inv.nofault

/-- **barrier_safe across pipeline flushes.** A flush cancels the barrier arrivals that have not been
    released (the wavefront is Ready again, its PC still on the `s_barrier`, `arr` counts the
    arrivals that stand); at every moment of every legal run nobody has been released from more
    barriers than an unfinished wavefront of its group has (still standing) arrivals. -/
theorem xbarrier_safe (c : Cfg) (hA : c.fixA = true) (hB : c.fixB = true) (x : XState) (ops : List XOp)
    (h0 : XInit x) (hl : xlegalRun c x ops = true) :
    ∀ u ∈ (xrun c x ops).s.wfs, ∀ v ∈ (xrun c x ops).s.wfs, u.wg = v.wg →
      (v.state = .ready ∨ v.state = .running ∨ v.state = .atBarrier) → u.bar ≤ v.arr := by
  intro u hu v hv hg hun
  have inv := (xsched_inv c hA hB x ops h0 hl).inv
  have hnc : v.state ≠ .completed := by
    rcases hun with h | h | h <;> (rw [h]; decide)
  have h1 := inv.bars u hu v hv hg hnc
  have hW := inv.ghost v hv
  have h2 : v.bar ≤ v.arr := by
    rcases hun with h | h | h
    · have := hW.2.1 h; omega
    · by_cases ho : v.op = 10
      · have := (hW.1 h).1 ho; omega
      · have := (hW.1 h).2 ho; omega
    · have := hW.2.2 h; omega
  omega

example : ∃ u ∈ (xrun Cfg.cur xdemo (xdemoOps.take 8)).s.wfs, u.bar = 1 := by decide

/-- **barrier_live across pipeline flushes.** No reachable state has a parked wavefront all of whose
    unfinished group-mates are parked too: a flush releases nobody but un-parks everybody. -/
theorem xbarrier_live (c : Cfg) (hA : c.fixA = true) (hB : c.fixB = true) (x : XState) (ops : List XOp)
    (h0 : XInit x) (hl : xlegalRun c x ops = true) :
    ∀ v ∈ (xrun c x ops).s.wfs, v.state = .atBarrier →
      ∃ u ∈ (xrun c x ops).s.wfs, u.wg = v.wg ∧ (u.state = .ready ∨ u.state = .running) := by
  intro v hv hvb
  have xi := xsched_inv c hA hB x ops h0 hl
  obtain ⟨u, hu, hug, hu1, hu2⟩ := xi.ns v hv hvb
  refine ⟨u, hu, hug, ?_⟩
  rcases xi.rng u hu with h | h | h | h
  · exact Or.inl h
  · exact Or.inr h
  · exact absurd h hu1
  · exact absurd h hu2

example : ∃ v ∈ (xrun Cfg.cur xdemo (xdemoOps.take 3)).s.wfs, v.state = .atBarrier := by decide

/-- **... and once every unfinished wavefront of a group has (re-)arrived, the next evaluation round
    releases all of them**, in any state reachable with flushes in between. -/
theorem xbarrier_live_next_round (c : Cfg) (hA : c.fixA = true) (hB : c.fixB = true) (x : XState)
    (ops : List XOp) (h0 : XInit x) (hl : xlegalRun c x ops = true) (g : Nat)
    (hreach : ∀ v ∈ (xrun c x ops).s.wfs, v.wg = g → v.state = .completed ∨ v.state = .atBarrier ∨
      (v.state = .running ∧ v.op = 10 ∧ v.id ∈ (xrun c x ops).s.exec)) :
    ∀ v' ∈ (xrun c x (ops ++ [.base .eval])).s.wfs, v'.wg = g →
      v'.state = .completed ∨ (v'.state = .ready ∧ v'.bar = v'.arr) := by
  have xi := xsched_inv c hA hB x ops h0 hl
  have e : (xrun c x (ops ++ [.base .eval])).s = (evalInternal c (xrun c x ops).s).1 := by
    rw [xrun_append]; rfl
  rw [e]
  exact evalInternal_releases hA hB xi.inv ⟨xi.ns, xi.rng⟩ hreach

example : (xrun Cfg.cur xdemo (xdemoOps.take 7)).s.wfs.map (fun w => (w.state, w.op)) =
      [(.atBarrier, 10), (.running, 10)] ∧ (xrun Cfg.cur xdemo (xdemoOps.take 7)).s.exec = [1] ∧
    (xrun Cfg.cur xdemo (xdemoOps.take 7 ++ [.base .eval])).s.wfs.map (fun w => (w.state, w.bar, w.arr)) =
      [(.ready, 1, 1), (.ready, 1, 1)] := by decide

/-- **What a pipeline flush leaves behind** (barrier buffer and wavefront-state reset), in every
    reachable state: the barrier buffer and `internalExecuting` are empty; every wavefront that has
    ended is untouched; every other wavefront is Ready with its PC unchanged — the instruction it
    held, an `s_barrier` it was parked at included, is issued again — and its pending barrier
    arrival is cancelled (`arr = bar`), while the number of barriers it has passed is kept. -/
theorem flush_resets_scheduler (c : Cfg) (hA : c.fixA = true) (hB : c.fixB = true) (x : XState)
    (ops : List XOp) (h0 : XInit x) (hl : xlegalRun c x ops = true) :
    (xrun c x (ops ++ [.flush])).s.exec = [] ∧ (xrun c x (ops ++ [.flush])).s.buf = [] ∧
    (xrun c x (ops ++ [.flush])).s.wfs = (xrun c x ops).s.wfs.map flushWf ∧
    (xrun c x (ops ++ [.flush])).sw = (xrun c x ops).sw ∧
    ∀ w ∈ (xrun c x ops).s.wfs, (w.state = .completed → flushWf w = w) ∧
      (w.state ≠ .completed → (flushWf w).state = .ready ∧ (flushWf w).pc = w.pc ∧
        (flushWf w).arr = w.bar ∧ (flushWf w).bar = w.bar) := by
  have xi := xsched_inv c hA hB x ops h0 hl
  have e : xrun c x (ops ++ [.flush]) = { xrun c x ops with s := schedFlush (xrun c x ops).s } := by
    rw [xrun_append]; rfl
  rw [e]
  obtain ⟨a, b, d, f⟩ := flush_resets xi.inv xi.rng xi.pool
  exact ⟨a, b, d, rfl, f⟩

example : (xrun Cfg.cur xdemo (xdemoOps.take 3)).s.buf = [0] ∧
    ((xrun Cfg.cur xdemo (xdemoOps.take 3)).s.wfs.map (fun w => (w.state, w.arr, w.bar))) =
      [(.atBarrier, 1, 0), (.ready, 0, 0)] := by decide

/-- **wg_completion_exactly_once for dispatched groups, with flushes and sampled traffic on the same
    port**: the message of a dispatched wavefront's group is in the log iff the whole group has
    ended; never twice. -/
theorem xwg_completion_exactly_once (c : Cfg) (hA : c.fixA = true) (hB : c.fixB = true) (x : XState)
    (ops : List XOp) (h0 : XInit x) (hl : xlegalRun c x ops = true) :
    (xrun c x ops).s.sent.Nodup ∧
    ∀ v ∈ (xrun c x ops).s.wfs,
      (v.wg ∈ (xrun c x ops).s.sent ↔ ∀ u ∈ (xrun c x ops).s.wfs, u.wg = v.wg → u.state = .completed) := by
  have xi := xsched_inv c hA hB x ops h0 hl
  exact ⟨xi.cinv.1, fun v hv => ⟨fun h => xi.cinv.2 v.wg h, fun h => xi.dinv v hv h⟩⟩

theorem nodup_count_le_one {l : List Nat} (h : l.Nodup) (a : Nat) : l.count a ≤ 1 := by
  induction l with
  | nil => simp
  | cons b l ih =>
    rw [List.nodup_cons] at h
    by_cases hb : b = a
    · subst hb
      rw [List.count_cons_self, List.count_eq_zero.mpr h.1]
      exact Nat.le_refl 1
    · rw [List.count_cons_of_ne hb]
      exact ih h.2

/-- **Each sampled work-group is reported complete exactly once, after its last wavefront**
    (safety): in every reachable state the log has no repetition; the message of a sampled
    wavefront's group is in the log only if every wavefront of the group is `WfCompleted` (its
    completion event has been handled); and if every wavefront of the group is `WfCompleted` then
    the message is in the log or a retry event of one of them is scheduled in the engine. -/
theorem sampled_completion_exactly_once (c : Cfg) (hA : c.fixA = true) (hB : c.fixB = true) (x : XState)
    (ops : List XOp) (h0 : XInit x) (hl : xlegalRun c x ops = true) :
    (xrun c x ops).s.sent.Nodup ∧
    ∀ w ∈ (xrun c x ops).sw,
      (w.wg ∈ (xrun c x ops).s.sent → allC w.wg (xrun c x ops).sw) ∧
      (allC w.wg (xrun c x ops).sw → w.wg ∈ (xrun c x ops).s.sent ∨
        ∃ u ∈ (xrun c x ops).sw, u.wg = w.wg ∧ u.id ∈ (xrun c x ops).evq) ∧
      (xrun c x ops).s.sent.count w.wg ≤ 1 := by
  have xi := xsched_inv c hA hB x ops h0 hl
  refine ⟨xi.cinv.1, fun w hw => ⟨xi.sinv.sentS w hw, xi.sinv.done w hw, ?_⟩⟩
  exact nodup_count_le_one xi.cinv.1 w.wg

example : (xrun Cfg.cur xdemo xdemoOps).s.sent.count 1 = 1 ∧ (xrun Cfg.cur xdemo (xdemoOps.take 13)).s.sent.count 1 = 0 ∧
    (xrun Cfg.cur xdemo (xdemoOps.take 13)).sw.map (·.state) = [.completed, .completed] := by decide

/-- **... and it is reported (liveness up to the engine).** In every reachable state: once the engine
    holds no completion event of a sampled group any more, the group's message is in the log — the
    engine handles every event it holds (C05), a handling that finds the port full schedules a retry,
    so the group is reported as soon as a retry finds room. -/
theorem sampled_reported_when_quiescent (c : Cfg) (hA : c.fixA = true) (hB : c.fixB = true) (x : XState)
    (ops : List XOp) (h0 : XInit x) (hl : xlegalRun c x ops = true) :
    ∀ w ∈ (xrun c x ops).sw, (∀ u ∈ (xrun c x ops).sw, u.wg = w.wg → u.id ∉ (xrun c x ops).evq) →
      w.wg ∈ (xrun c x ops).s.sent :=
  sampled_quiescent_reported (xsched_inv c hA hB x ops h0 hl).sinv

example : ∀ u ∈ (xrun Cfg.cur xdemo xdemoOps).sw, u.id ∉ (xrun Cfg.cur xdemo xdemoOps).evq := by decide

/-- **The message is sent by the event of the last wavefront.** In every reachable state, when the
    engine handles the scheduled event of wavefront `i`: a message that enters the log is the one of
    `i`'s group, the whole group has ended, nothing else is logged; and if all the other wavefronts
    of `i`'s group have ended and the port has room, the message is sent in this very handling and
    the event is not scheduled again. -/
theorem sampled_reported_by_last_event (c : Cfg) (hA : c.fixA = true) (hB : c.fixB = true) (x : XState)
    (ops : List XOp) (h0 : XInit x) (hl : xlegalRun c x ops = true) (i : Nat) (hi : i ∈ (xrun c x ops).evq) :
    (∀ g, g ∈ (fireS c (xrun c x ops) i).1.s.sent → g ∉ (xrun c x ops).s.sent →
      (∃ w ∈ (xrun c x ops).sw, w.id = i ∧ w.wg = g) ∧ allC g (fireS c (xrun c x ops) i).1.sw ∧
      (fireS c (xrun c x ops) i).1.s.sent = (xrun c x ops).s.sent ++ [g]) ∧
    (∀ w ∈ (xrun c x ops).sw, w.id = i → (xrun c x ops).s.out.length < c.aceCap →
      (∀ u ∈ (xrun c x ops).sw, u.wg = w.wg → u.id ≠ i → u.state = .completed) →
      w.wg ∈ (fireS c (xrun c x ops) i).1.s.sent ∧ (fireS c (xrun c x ops) i).2 = false) := by
  have xi := xsched_inv c hA hB x ops h0 hl
  refine ⟨fire_sends_only_last xi.sinv hi, ?_⟩
  intro w hw hid hroom hoth
  exact ⟨fire_last_with_room_reports xi.sinv hi hw hid hroom hoth, fire_room_no_reschedule c _ i hroom⟩

example : 2 ∈ (xrun Cfg.cur xdemo (xdemoOps.take 14)).evq ∧
    (fireS Cfg.cur (xrun Cfg.cur xdemo (xdemoOps.take 14)) 2).1.s.sent = [0, 1] ∧
    (fireS Cfg.cur (xrun Cfg.cur xdemo (xdemoOps.take 12)) 2).2 = true := by decide

/-- event handlings of a run that were not re-scheduled -/
def firesDone (c : Cfg) : XState → List XOp → Nat
  | _, [] => 0
  | x, o :: ops =>
    (match o with
     | .fire i => if x.evq.contains i && !(fireS c x i).2 then 1 else 0
     | _ => 0) + firesDone c (xstep c x o).1 ops

/-- **Termination measure of the sampled path** (every event sequence, legal or not): the number of
    scheduled completion events plus the number of handlings that were not re-scheduled is constant;
    so at most one successful handling per wavefront ever happens, every handling that finds room
    shrinks the queue (`sampled_reported_by_last_event`), and only a full port keeps an event alive. -/
theorem sampled_event_measure (c : Cfg) (ops : List XOp) (x : XState) :
    (xrun c x ops).evq.length + firesDone c x ops = x.evq.length := by
  unfold xrun
  induction ops generalizing x with
  | nil => rfl
  | cons o ops ih =>
    simp only [List.foldl_cons, firesDone]
    have := ih (x := (xstep c x o).1)
    cases o with
    | base o => simp only [Nat.zero_add]; exact this
    | flush => simp only [Nat.zero_add]; exact this
    | fire i =>
      by_cases hi : i ∈ x.evq
      · have hc : x.evq.contains i = true := by simpa using hi
        have e : (xstep c x (.fire i)).1 = (fireS c x i).1 := by simp only [xstep, hc, if_true]
        rw [e] at this ⊢
        have hlen := fire_evq_length c x i hi
        have hpos : 0 < x.evq.length := List.length_pos_of_mem hi
        cases h2 : (fireS c x i).2 with
        | true =>
          rw [h2] at hlen
          simp only [if_true] at hlen
          simp only [hc, h2, Bool.not_true, Bool.and_false, Bool.false_eq_true, if_false, Nat.zero_add]
          omega
        | false =>
          rw [h2] at hlen
          simp only [Bool.false_eq_true, if_false] at hlen
          simp only [hc, h2, Bool.not_false, Bool.and_true, if_true]
          omega
      · have hc' : x.evq.contains i = false := by simpa using hi
        have e : (xstep c x (.fire i)).1 = x := by simp only [xstep, hc', Bool.false_eq_true, if_false]
        rw [e] at this ⊢
        simp only [hc', Bool.false_and, Bool.false_eq_true, if_false, Nat.zero_add]
        exact this

example : firesDone Cfg.cur xdemo xdemoOps = 2 ∧ (xdemoOps.filter (fun o => o matches .fire _)).length = 3 := by decide

/-- **wg_completion_eventually from any state of the compute unit.** In every state reachable with
    flushes and sampled traffic, an owed message of a dispatched group (`Pending`) is sent by every
    legal continuation of scheduler events without a new memory issue for that wavefront and with
    enough evaluation rounds that start with room in the port. (A flush cancels the `s_endpgm` and
    the wavefront issues it again: `Pending` holds again from then on.) -/
theorem xwg_completion_eventually (c : Cfg) (hA : c.fixA = true) (hB : c.fixB = true) (x : XState)
    (ops : List XOp) (h0 : XInit x) (hl : xlegalRun c x ops = true) (i g : Nat)
    (hp : Pending (xrun c x ops).s i g) (ops' : List Op) (hl' : legalRun c (xrun c x ops).s ops' = true)
    (hm : ops'.all (notMemIssue i) = true) (hn : ahead i (xrun c x ops).s.exec < roomEvals c (xrun c x ops).s ops') :
    g ∈ (xrun c (xrun c x ops) (ops'.map XOp.base)).s.sent := by
  rw [(xrun_base c ops' _).1]
  exact run_progress hA hB ops' (xsched_inv c hA hB x ops h0 hl).inv hp hl' hm hn

end C14
