import MgpuProofs.C14Compose
import MgpuProofs.C14Hyp
/-! # C14 ∘ C02 — barriers with early-exiting wavefronts, in both simulators

`C02` proves that a race-free schedule *that is cut into barrier phases* ends in the emulator's
result (`C02.Race.timing_phases_equal_emulator_order`), and lists "`s_barrier` inside the event
machine" as not proved. The theorems here supply that part from the scheduler model of this
property: the issue order produced by the timing scheduler — any legal schedule, any number of
wavefronts, wavefronts that end before a barrier the others still execute — IS cut into barrier
phases, so the composition with C02's theorem gives "timing issue order = emulator order" for
work-groups with barriers. The emulator side (`runWG` / `resolveBarrier`) terminates with every
wavefront released from exactly the barriers it executes. -/
namespace C14
open C02.Race

/-- group 0: wavefronts 0, 1 exchange data across one barrier, wavefront 2 ends before it -/
def cdemo : State :=
  { wfs := (List.range 3).map (fun i =>
      { id := i, wg := 0, state := .ready, op := 99, lk := 0, vm := 0, osc := 0, ovc := 0,
        pc := 0, inPool := true, arr := 0, bar := 0 })
    exec := [], buf := [], out := [], sent := [], fault := false }

def cdemoOps : List Op :=
  [.issueUnit 1, .issue 2 1 0 0, .eval, .unitDone 1, .issueUnit 0, .unitDone 0, .issue 0 10 0 0, .eval,
   .issue 1 10 0 0, .eval, .issueUnit 1, .unitDone 1, .issueUnit 0, .unitDone 0]

/-- the four unit instructions: two stores before the barrier, two loads of the other's cell after -/
def cdemoLab : Nat → Act Nat
  | 0 => Act.write 1 11
  | 1 => Act.write 0 10
  | 2 => Act.read 0 (fun _ v => v)
  | _ => Act.read 1 (fun _ v => v)

theorem cdemo_init : Init cdemo := ⟨rfl, rfl, by decide, by decide⟩

example : legalRun Cfg.cur cdemo cdemoOps = true ∧
    accTrace Cfg.cur cdemo cdemoOps = [(1, 0, 0), (0, 0, 0), (1, 0, 1), (0, 0, 1)] ∧
    (run Cfg.cur cdemo cdemoOps).wfs.map (fun w => (w.state, w.bar)) =
      [(.ready, 1), (.ready, 1), (.completed, 0)] := by decide

/-- **barrier_phase_cut.** Along every legal run of the repaired scheduler, the instructions issued
    to execution units by the wavefronts of one work-group, each tagged with the number of
    `s_barrier`s its wavefront has executed, appear in non-decreasing tag order: no instruction that
    follows barrier `k` in its wavefront is issued before an instruction that precedes barrier `k`
    in another wavefront of the group — also when some wavefronts end before that barrier. -/
theorem barrier_phase_cut (c : Cfg) (hA : c.fixA = true) (hB : c.fixB = true) (s : State) (ops : List Op)
    (h0 : Init s) (hl : legalRun c s ops = true) (g : Nat) :
    (((accTrace c s ops).filter (fun e => e.2.1 == g)).map (fun e => e.2.2)).Pairwise (· ≤ ·) :=
  phase_cut c hA hB s ops h0 hl g

/-- **timing_equals_emulator_with_barriers** (composition with `C02.Race`). Every legal run of the
    repaired scheduler, every work-group `g` (wavefront ids `< n`, fewer than `K` barrier phases),
    every assignment `lab` of shared-memory / LDS accesses to its unit instructions such that the
    accesses of one barrier phase have honest footprints and are race-free: performing the accesses
    in the order in which the timing scheduler issued them ends in the same configuration (every
    wavefront's local state, the whole shared store) as the emulator's order — barrier phase by
    barrier phase, inside a phase wavefront 0 completely, then wavefront 1, … (`runWG`). -/
theorem timing_equals_emulator_with_barriers {L : Type} (c : Cfg) (hA : c.fixA = true)
    (hB : c.fixB = true) (s : State) (ops : List Op) (h0 : Init s) (hl : legalRun c s ops = true)
    (g n K : Nat) (lab : Nat → Act L)
    (hK : ∀ e ∈ tagged c s ops g lab, e.2 < K)
    (hps : ∀ p ∈ phasesOf K (tagged c s ops g lab), (∀ e ∈ p, e.2.WF) ∧ RaceFree p ∧ ∀ e ∈ p, e.1 < n)
    (σ : CfgS L) :
    runS ((tagged c s ops g lab).map (·.1)) σ =
      runPhases ((phasesOf K (tagged c s ops g lab)).map (emuOrder n)) σ :=
  timing_issue_order_equals_emulator_phase_order c hA hB s ops h0 hl g n K lab hK hps σ

theorem cdemo_tagged : tagged Cfg.cur cdemo cdemoOps 0 cdemoLab =
    [((1, Act.write 1 11), 0), ((0, Act.write 0 10), 0), ((1, Act.read 0 (fun _ v => v)), 1),
     ((0, Act.read 1 (fun _ v => v)), 1)] := by
  rfl

/-- non-vacuity: the hypotheses hold for the demo (the wavefront that left early takes part in no
    phase), and both orders leave wavefront 0 with 11 and wavefront 1 with 10 -/
example :
    (∀ e ∈ tagged Cfg.cur cdemo cdemoOps 0 cdemoLab, e.2 < 2) ∧
    (∀ p ∈ phasesOf 2 (tagged Cfg.cur cdemo cdemoOps 0 cdemoLab),
      (∀ e ∈ p, e.2.WF) ∧ RaceFree p ∧ ∀ e ∈ p, e.1 < 3) ∧
    (runS ((tagged Cfg.cur cdemo cdemoOps 0 cdemoLab).map (·.1)) ⟨fun _ => 0, fun _ => 0⟩).loc 0 = 11 ∧
    (runS ((tagged Cfg.cur cdemo cdemoOps 0 cdemoLab).map (·.1)) ⟨fun _ => 0, fun _ => 0⟩).loc 1 = 10 := by
  rw [cdemo_tagged]
  refine ⟨by decide, ?_, by decide, by decide⟩
  intro p hp
  simp only [phasesOf, phaseOf, List.range, List.range.loop, List.map_cons, List.map_nil, List.filter_cons,
    List.filter_nil, List.mem_cons, List.not_mem_nil, or_false] at hp
  rcases hp with rfl | rfl
  · refine ⟨?_, by decide, by decide⟩
    intro e he
    simp at he
    rcases he with rfl | rfl <;> exact Act.write_wf ..
  · refine ⟨?_, by decide, by decide⟩
    intro e he
    simp at he
    rcases he with rfl | rfl
    · exact Act.read_wf 0 (fun _ v => v)
    · exact Act.read_wf 1 (fun _ v => v)

/-- **emulator_passes_each_barrier_once** (the other mode). `runWG` of the repaired emulator, for
    every work-group whose wavefront `i` executes `todo i` barriers before `s_endpgm` (different
    numbers = early exits): with `max todo + 1` rounds the loop ends, never panics, every wavefront
    is Completed and has been released from exactly `todo i` barriers. -/
theorem emulator_passes_each_barrier_once (wfs : List EWf)
    (hf : ∀ w ∈ wfs, w.atBarrier = false ∧ w.completed = false ∧ w.bar = 0) (fuel : Nat)
    (hfuel : ∀ w ∈ wfs, w.todo < fuel) :
    ∃ wfs', emuRunWG true fuel wfs = some (wfs', true) ∧
      wfs'.map (·.bar) = wfs.map (·.todo) ∧ (∀ w ∈ wfs', w.completed = true) :=
  emu_runWG_completes wfs hf fuel hfuel

example : (emuRunWG true 3 [⟨2, false, false, 0⟩, ⟨0, false, false, 0⟩, ⟨1, false, false, 0⟩]).map
    (fun r => (r.2, r.1.map (·.bar))) = some (true, [2, 0, 1]) := by decide

end C14
