import MgpuProofs.Props.C15
import MgpuProofs.C15Refine
import MgpuProofs.C15Flush
/-! # C15 — refinement of the abstract FIFO specification, flush semantics, forwarded fields

Statements about the **closed system** `C15.sysRun c evs` (`MgpuModel/C15_Sys.lean`): the tick-exact
ROB model (`C15.step`, unchanged) composed with an arbitrary lower memory that answers every
forwarded request at most once, in any order, at any time, with any payload; an arbitrary
requester; an arbitrary controller. `evs : List Ev` is any event list (arrivals, memory taking /
answering, ticks, back-pressure in both directions = events refused or not happening, flush /
restart at any time), `c : Cfg` any configuration.
-/
namespace C15

/-- the closed-system version of `demoOps`: requests 0,1 answered in reverse order; requests 2,3
    accepted, 3 answered, flush (the response to 1, still waiting in the Top port, is dropped with
    the port's outgoing buffer: repair 7c2f5a70), restart, late answer for 2 (dropped), request 4 served -/
def demoEvs : List Ev :=
  [.arrive (demoReq 0 false), .arrive (demoReq 64 true), .tick, .tick, .memTake, .memTake,
   .memAnswer 1 .done, .memAnswer 0 (.data [9, 9, 9, 9]), .tick, .tick, .tick, .takeRsp,
   .arrive (demoReq 128 false), .arrive (demoReq 192 false), .tick, .tick, .memTake, .memTake,
   .memAnswer 1 (.data [7]), .tick,
   .ctl ⟨true, false⟩, .tick, .takeAck, .ctl ⟨false, true⟩, .tick, .memAnswer 0 (.data [5]),
   .arrive (demoReq 256 false), .tick, .tick, .memTake, .memAnswer 0 (.data [6]), .tick, .tick,
   .takeRsp, .takeRsp]

/-- The ROB component of the closed system is the ROB model driven by some op sequence, and a
    longer event list gives a longer op sequence: every theorem of `Props/C15.lean` (stated for
    all `run c ops`) holds of the closed system, and `flush_discards` applies to continuations. -/
theorem closed_system_is_a_run (c : Cfg) (evs more : List Ev) :
    ∃ ops later, (sysRun c evs).rob = run c ops ∧ (sysRun c (evs ++ more)).rob = run c (ops ++ later) := by
  have key : ∀ (evs : List Ev) (σ : Sys) (ops0 : List Op), σ.rob = run c ops0 →
      ∃ later, (evs.foldl (sysStep c) σ).rob = run c (ops0 ++ later) := by
    intro evs
    induction evs with
    | nil => intro σ ops0 h; exact ⟨[], by simpa using h⟩
    | cons e es ih =>
      intro σ ops0 h
      have hstep : (sysStep c σ e).rob = σ.rob ∨ ∃ op, (sysStep c σ e).rob = step c σ.rob op := by
        cases e with
        | tick => exact Or.inr ⟨.tick, rfl⟩
        | arrive q => exact Or.inr ⟨.top q, rfl⟩
        | memTake => simp only [sysStep]; split; exact Or.inl rfl; exact Or.inr ⟨.drainBot, rfl⟩
        | memAnswer j p =>
          simp only [sysStep]; split
          · exact Or.inl rfl
          · rename_i b _
            split; exact Or.inr ⟨.bot b.id p, rfl⟩; exact Or.inl rfl
        | ctl m => exact Or.inr ⟨.ctl m, rfl⟩
        | takeRsp => simp only [sysStep]; split; exact Or.inl rfl; exact Or.inr ⟨.drainTop, rfl⟩
        | takeAck => exact Or.inr ⟨.drainCtl, rfl⟩
      rcases hstep with h1 | ⟨op, h1⟩
      · obtain ⟨later, hl⟩ := ih (sysStep c σ e) ops0 (h1.trans h)
        exact ⟨later, hl⟩
      · obtain ⟨later, hl⟩ := ih (sysStep c σ e) (ops0 ++ [op]) (by
          rw [h1, h, run_append]; rfl)
        refine ⟨op :: later, ?_⟩
        show (List.foldl (sysStep c) (sysStep c σ e) es).rob = _
        rw [hl]; simp
  obtain ⟨ops, h1⟩ := key evs {} [] rfl
  refine ⟨ops, ?_⟩
  simp only [List.nil_append] at h1
  obtain ⟨later, h2⟩ := key more (sysRun c evs) ops h1
  exact ⟨later, h1, by rw [← h2]; simp [sysRun, List.foldl_append]⟩

example : (sysRun demoCfg demoEvs).rob.accepted = [0, 1, 2, 3, 4] ∧
    (sysRun demoCfg demoEvs).rob.delivered.map (·.rspTo) = [0, 1, 4] ∧
    (sysRun demoCfg demoEvs).out.map (·.rspTo) = [0, 4] ∧
    (sysRun demoCfg demoEvs).rob.discarded = [2, 3] ∧ (sysRun demoCfg demoEvs).mem = [] := by decide

/-- **Refinement.** For every configuration and every event list, the ROB composed with an
    arbitrary at-most-once lower memory refines the abstract specification `Spec` (FIFO of
    accepted requests; the lower level answers any unanswered pending request; only the head
    responds, with the request's own id, to its sender, with the stored payload; flush empties
    the FIFO): the abstraction of the state after `evs` is reachable in the specification, every
    continuation `more` is again a specification run from there, and what the requester took
    followed by what still waits in the Top port's outgoing buffer is a subsequence of the
    specification's output history (everything but the responses a flush removed from that
    buffer: repair 7c2f5a70). -/
theorem rob_refines_fifo (c : Cfg) (evs more : List Ev) :
    Spec.Star c.cap {} (sysRun c evs).rob.abs ∧
    Spec.Star c.cap (sysRun c evs).rob.abs (sysRun c (evs ++ more)).rob.abs ∧
    ((sysRun c evs).out ++ (sysRun c evs).rob.topOut).Sublist (sysRun c evs).rob.abs.out := by
  refine ⟨sysFold_refines c evs {} (sinv_init c), ?_, (sysRun_ok c evs).outLog⟩
  have : sysRun c (evs ++ more) = more.foldl (sysStep c) (sysRun c evs) := by
    simp [sysRun, List.foldl_append]
  rw [this]
  exact sysFold_refines c more _ (sysRun_ok c evs)

example : (sysRun demoCfg demoEvs).rob.abs.out.map (·.rspTo) = [0, 1, 4] ∧
    (sysRun demoCfg (demoEvs.take 20)).rob.abs.queue.map (fun e => (e.1.id, e.2.1, e.2.2)) =
      [(2, 2, none), (3, 3, some (.data [7]))] := by decide

/-- **What the specification guarantees** (proved once, on `Spec`, by induction over its four
    step kinds): every state reachable in the specification satisfies `Spec.Good` — order,
    uniqueness of ids and tickets, capacity, one answer per ticket, responses carry the request's
    id / sender and the answer given for its forwarded copy, forwarded copies carry the request's
    fields. -/
theorem spec_good (cap : Nat) (S : Spec) (h : Spec.Star cap {} S) : Spec.Good cap S :=
  Spec.good_star (Spec.good_init cap) h

example : Spec.Good demoCfg.cap (sysRun demoCfg demoEvs).rob.abs :=
  spec_good _ _ (rob_refines_fifo demoCfg demoEvs []).1

/-- **Order, exactly-once (safety), capacity as corollaries of the refinement**: responses that
    entered the Top port followed by the pending ids are the accepted ids minus the flushed ones,
    in acceptance order; no repetition; never more than `bufferSize` pending. -/
theorem sys_order_once_capacity (c : Cfg) (evs : List Ev) :
    let s := (sysRun c evs).rob
    s.delivered.map (·.rspTo) ++ s.txs.map (·.req.id) = s.live ∧
    s.accepted.Nodup ∧ (s.delivered.map (·.rspTo) ++ s.txs.map (·.req.id)).Nodup ∧
    s.txs.length ≤ c.cap := by
  intro s
  have g := spec_good c.cap s.abs (rob_refines_fifo c evs []).1
  have ho : s.delivered.map (·.rspTo) ++ s.txs.map (·.req.id) = s.live := by
    have := g.order
    simp only [St.abs, List.map_map, Function.comp_def] at this
    exact this
  have hn : s.accepted.Nodup := by
    have := g.idsNodup
    simpa [St.abs, St.accepted] using this
  refine ⟨ho, hn, ?_, ?_⟩
  · rw [ho]; exact hn.filter _
  · have := g.cap
    simpa [St.abs] using this

example : (sysRun demoCfg (demoEvs.take 16)).rob.txs.length = demoCfg.cap := by decide

/-- **Original id, sender and *the* payload.** Every response that entered the Top port names an
    accepted request `r` (id and sender) whose forwarded copy `b` carries `r`'s fields, and its
    payload is the answer the lower level gave for `b` — and with an at-most-once lower level
    that answer is unique: no other payload was ever matched to `b`'s ticket. -/
theorem sys_response_is_the_answer (c : Cfg) (evs : List Ev) :
    let σ := sysRun c evs
    ∀ d ∈ σ.out ++ σ.rob.topOut, ∃ r b, (r, b) ∈ σ.rob.fwd ∧ SameFields r b ∧
      d.rspTo = r.id ∧ d.dst = r.src ∧ (b.id, d.payload) ∈ σ.rob.answered ∧
      ∀ p', (b.id, p') ∈ σ.rob.answered → p' = d.payload := by
  intro σ d hd
  have g := spec_good c.cap σ.rob.abs (rob_refines_fifo c evs []).1
  have hd : d ∈ σ.rob.abs.out := (rob_refines_fifo c evs []).2.2.subset hd
  obtain ⟨r, b, h1, h2, h3, h4⟩ := g.outOk d hd
  refine ⟨r, b, h1, g.fields _ h1, h2, h3, h4, ?_⟩
  intro p' hp'
  have hnd : (σ.rob.answered.map (·.1)).Nodup := g.ansNodup
  have key : ∀ (l : List (Nat × Rsp)), (l.map (·.1)).Nodup → ∀ k p q, (k, p) ∈ l → (k, q) ∈ l → p = q := by
    intro l
    induction l with
    | nil => intro _ k p q hp; cases hp
    | cons a l ih =>
      intro hn k p q hp hq
      simp only [List.map_cons, List.nodup_cons] at hn
      rcases List.mem_cons.1 hp with hp | hp <;> rcases List.mem_cons.1 hq with hq | hq
      · rw [← hq] at hp; exact (Prod.mk.inj hp).2
      · exfalso; apply hn.1; rw [← hp]; exact List.mem_map.2 ⟨(k, q), hq, rfl⟩
      · exfalso; apply hn.1; rw [← hq]; exact List.mem_map.2 ⟨(k, p), hp, rfl⟩
      · exact ih hn.2 k p q hp hq
  exact key _ hnd _ _ _ hp' h4

example : (sysRun demoCfg demoEvs).out =
    [⟨0, 2, .data [9, 9, 9, 9]⟩, ⟨4, 2, .data [6]⟩] ∧
    (sysRun demoCfg demoEvs).rob.answered = [(1, .done), (0, .data [9, 9, 9, 9]), (3, .data [7]), (4, .data [6])] := by
  decide

/-! ## Fields that do / do not reach the Bottom port -/

/-- **Exactly which request fields reach the Bottom port.** Two requests are forwarded as the same
    message (under the same fresh id) iff they agree on kind, address, PID and — for a read — the
    access size, — for a write — data and dirty mask. So these fields arrive unchanged, and nothing
    else of the request influences what the lower level sees: not `CanWaitForCoalesce`, not the
    requester's id or port, not a write's `AccessByteSize` field nor a read's data/mask (for `Info` and
    the requester's `TrafficBytes` see `info_not_forwarded`). -/
theorem forwarded_fields_exact (n : Nat) (r r' : Req) :
    dupReq n r = dupReq n r' ↔
      (r.write = r'.write ∧ r.addr = r'.addr ∧ r.pid = r'.pid ∧
       (r.write = false → r.size = r'.size) ∧ (r.write = true → r.data = r'.data ∧ r.mask = r'.mask)) := by
  unfold dupReq
  cases hr : r.write <;> cases hr' : r'.write <;> simp
  all_goals (intro _; constructor <;> intro h <;> simp_all)

example : dupReq 3 ((demoReq 64 false).toReq 0) = dupReq 3 { (demoReq 64 false).toReq 9 with cwc := false, src := 7, data := [1], mask := [true] } ∧
    dupReq 3 ((demoReq 64 false).toReq 0) ≠ dupReq 3 ((demoReq 68 false).toReq 0) := by decide

/-- **`Info` and `TrafficBytes` are not forwarded** (model with these fields: `ReqX`, `dupReqX`,
    tied to the real ROB by the `c15 fields` cases): the forwarded message has `Info = nil`, its
    `TrafficBytes` is recomputed from the forwarded data, and two extended requests are forwarded
    alike iff their plain parts are — `Info` / `TrafficBytes` of the request have no influence. -/
theorem info_not_forwarded (n : Nat) (x y : ReqX) :
    (dupReqX n x).info = 0 ∧ (dupReqX n x).trafficBytes = 12 + (if x.req.write then x.req.data.length else 0) ∧
    (dupReqX n x = dupReqX n y ↔ dupReq n x.req = dupReq n y.req) := by
  refine ⟨rfl, ?_, ?_⟩
  · simp only [dupReqX, dupReq]; split <;> simp
  · constructor
    · intro h; exact congrArg BReqX.b h
    · intro h; simp only [dupReqX, h]

example : dupReqX 1 ⟨(demoReq 64 true).toReq 0, 7, 99⟩ = dupReqX 1 ⟨(demoReq 64 true).toReq 5, 0, 16⟩ ∧
    (dupReqX 1 ⟨(demoReq 64 true).toReq 0, 7, 99⟩).trafficBytes = 16 := by decide

/-- `CanWaitForCoalesce` is dropped: every request that ever entered the Bottom port has the flag
    cleared, whatever the requester set (the model prints it as `c=0`; the real ROB is compared on
    it in every scenario), and a read carries no data / mask. -/
theorem forwarded_flag_cleared (c : Cfg) (evs : List Ev) :
    ∀ rb ∈ (sysRun c evs).rob.fwd, rb.2.cwc = false ∧ (rb.1.write = false → rb.2.data = [] ∧ rb.2.mask = []) := by
  intro rb h
  have := (sysRun_ok c evs).inv.fwdDup rb h
  rw [this]
  unfold dupReq
  split <;> simp_all

example : ((sysRun demoCfg demoEvs).rob.fwd.map (·.1.cwc)) = [true, true, true, true, true] ∧
    ((sysRun demoCfg demoEvs).rob.fwd.map (·.2.cwc)) = [false, false, false, false, false] := by decide

/-! ## Flush / restart -/

/-- **Empty while flushing.** From the acknowledgement of a flush until a restart is processed
    the transaction list, the lookup table and (repair 7c2f5a70) the outgoing buffers of the Top
    and Bottom ports are empty, and a tick that ends in the flushing state sends nothing up,
    forwards nothing and consumes no lower-level response (only the control port is served). -/
theorem flushing_is_empty_and_silent (c : Cfg) (evs : List Ev) :
    let s := (sysRun c evs).rob
    (s.flushing = true → s.txs = [] ∧ s.table = [] ∧ s.topOut = [] ∧ s.botOut = []) ∧
    ((tick c s).1.flushing = true → (tick c s).1.traffic = s.traffic) := by
  intro s
  refine ⟨fun hf => ?_, tick_flushing_silent c s⟩
  have h := sysRun_ok c evs
  have ht := h.flushEmpty hf
  have ho := sysRun_flushOut c evs hf
  exact ⟨ht, by rw [h.inv.table, ht]; rfl, ho.1, ho.2⟩

example : (sysRun demoCfg (demoEvs.take 22)).rob.flushing = true ∧
    (sysRun demoCfg (demoEvs.take 21)).rob.topOut.length = 1 ∧
    (sysRun demoCfg (demoEvs.take 22)).rob.topOut = [] ∧
    (sysRun demoCfg (demoEvs.take 21)).rob.txs.length = 2 ∧
    (sysRun demoCfg (demoEvs.take 22)).rob.txs = [] := by decide

/-- **Discarded requests stay silent; late answers are dropped** (closed-system form of
    `flush_discards`): an id thrown away by a flush / restart is never among the responses the
    requester takes or that wait in the Top port, in any continuation, and the ticket of a discarded
    transaction never matches a table entry again — the lower level's late answer is consumed by
    `parseBottom` and dropped. -/
theorem sys_flush_discards (c : Cfg) (evs more : List Ev) :
    (∀ a ∈ (sysRun c evs).rob.discarded,
        a ∉ ((sysRun c (evs ++ more)).out ++ (sysRun c (evs ++ more)).rob.topOut).map (·.rspTo)) ∧
    (∀ b ∈ (sysRun c evs).rob.discardedBot, b ∉ (sysRun c (evs ++ more)).rob.table) := by
  obtain ⟨ops, later, h1, h2⟩ := closed_system_is_a_run c evs more
  have := flush_discards c ops later
  rw [← h1, ← h2] at this
  refine ⟨fun a ha hm => this.1 a ha ?_, this.2⟩
  obtain ⟨d, hd, rfl⟩ := List.mem_map.1 hm
  exact List.mem_map.2 ⟨d, (sysRun_ok c (evs ++ more)).outLog.subset hd, rfl⟩

example : (sysRun demoCfg (demoEvs.take 22)).rob.discardedBot = [2, 3] ∧
    (sysRun demoCfg (demoEvs.take 26)).rob.botIn = [(2, .data [5])] ∧
    (sysRun demoCfg (demoEvs.take 28)).rob.botIn = [] ∧
    (sysRun demoCfg demoEvs).out.map (·.rspTo) = [0, 4] := by decide

/-- **Later traffic is served normally.** From any point at which the buffer is empty — in
    particular right after a flush or a restart was processed (`flush_empties`,
    `flushing_is_empty_and_silent`) — and for every continuation: the responses that enter the
    Top port from then on, followed by the pending ids, are exactly the requests accepted from
    then on (minus those a later flush throws away), in acceptance order. -/
theorem served_in_order_after_restart (c : Cfg) (evs more : List Ev)
    (hempty : (sysRun c evs).rob.txs = []) :
    let s := (sysRun c evs).rob
    let s' := (sysRun c (evs ++ more)).rob
    ∃ newOut newFwd, s'.delivered = s.delivered ++ newOut ∧ s'.fwd = s.fwd ++ newFwd ∧
      newOut.map (·.rspTo) ++ s'.txs.map (·.req.id) =
        (newFwd.map (·.1.id)).filter (fun a => decide (a ∉ s'.discarded)) := by
  intro s s'
  obtain ⟨r1, r2, _⟩ := rob_refines_fifo c evs more
  have g := spec_good c.cap s.abs r1
  have := Spec.after_empty_in_order g (by simp [St.abs, s, hempty]) r2
  obtain ⟨no, nf, h1, h2, h3⟩ := this
  refine ⟨no, nf, h1, h2, ?_⟩
  simp only [St.abs, List.map_map, Function.comp_def] at h3
  exact h3

example : (sysRun demoCfg (demoEvs.take 25)).rob.txs = [] ∧
    (sysRun demoCfg (demoEvs.take 25)).rob.flushing = false ∧
    (sysRun demoCfg demoEvs).rob.delivered.map (·.rspTo) = [0, 1, 4] ∧
    (sysRun demoCfg demoEvs).rob.fwd.map (·.1.id) = [0, 1, 2, 3, 4] := by decide

/-- **Nothing of the past trails out after an empty point.** From a point where the buffer is
    empty, for every continuation: a response the requester takes later that answers a request
    accepted before that point was already waiting in the Top port's outgoing buffer at that
    point; every other later response answers a request accepted afterwards. -/
theorem taken_after_empty_point (c : Cfg) (evs more : List Ev) (hempty : (sysRun c evs).rob.txs = []) :
    ∃ taken, (sysRun c (evs ++ more)).out = (sysRun c evs).out ++ taken ∧
      ∀ d ∈ taken, d.rspTo ∈ (sysRun c evs).rob.accepted → d ∈ (sysRun c evs).rob.topOut := by
  have hrun : sysRun c (evs ++ more) = more.foldl (sysStep c) (sysRun c evs) := by
    simp [sysRun, List.foldl_append]
  obtain ⟨taken, no, ht, h1, hmem⟩ := sysFold_taken c more (sysRun c evs)
  rw [← hrun] at ht h1 hmem
  refine ⟨taken, ht, ?_⟩
  intro d hd hacc
  rcases List.mem_append.1 (hmem d (List.mem_append_left _ hd)) with hm | hm
  · exact hm
  · exfalso
    obtain ⟨ho', _, hn', _⟩ := sys_order_once_capacity c (evs ++ more)
    obtain ⟨ho, _, _, _⟩ := sys_order_once_capacity c evs
    rw [hempty] at ho
    simp only [List.map_nil, List.append_nil] at ho
    have hdel' : d.rspTo ∈ (sysRun c (evs ++ more)).rob.delivered.map (·.rspTo) := by
      rw [h1]; exact List.mem_map.2 ⟨d, List.mem_append_right _ hm, rfl⟩
    have hnd : d.rspTo ∉ (sysRun c evs).rob.discarded := by
      intro hx
      obtain ⟨ops, later, e1, e2⟩ := closed_system_is_a_run c evs more
      have := (flush_discards c ops later).1
      rw [← e1, ← e2] at this
      exact this _ hx hdel'
    have hdel : d.rspTo ∈ (sysRun c evs).rob.delivered.map (·.rspTo) := by
      rw [ho]; exact List.mem_filter.2 ⟨hacc, by simpa using hnd⟩
    have hnod : ((sysRun c evs).rob.delivered.map (·.rspTo) ++ no.map (·.rspTo)).Nodup := by
      have := (List.nodup_append.1 hn').1
      rw [h1, List.map_append] at this
      exact this
    exact (List.nodup_append.1 hnod).2.2 _ hdel _ (List.mem_map.2 ⟨d, hm, rfl⟩) rfl

/-- "once a flush is acknowledged, no response to a request accepted before the flush leaves
    through the Top port any more" -/
def flush_silences_top_full : Prop :=
  ∀ (c : Cfg) (evs more : List Ev), (sysRun c evs).rob.flushing = true →
    ∀ d ∈ (sysRun c (evs ++ more)).out.drop (sysRun c evs).out.length,
      d.rspTo ∉ (sysRun c evs).rob.accepted

/-- **A flush silences the Top port** (holds since repair 7c2f5a70): in the flushing state the
    buffer and the Top port's outgoing buffer are empty, so every response the requester takes
    from then on answers a request accepted later. -/
theorem flush_silences_top : flush_silences_top_full := by
  intro c evs more hf d hd hacc
  obtain ⟨he, _, htop, _⟩ := (flushing_is_empty_and_silent c evs).1 hf
  obtain ⟨taken, ht, hres⟩ := taken_after_empty_point c evs more he
  rw [ht, List.drop_left] at hd
  have := hres d hd hacc
  rw [htop] at this
  cases this

/-- a request answered and retired into the Top port's outgoing buffer before the flush -/
def residueEvs : List Ev :=
  [.arrive (demoReq 0 false), .tick, .memTake, .memAnswer 0 (.data [9, 9, 9, 9]), .tick, .tick,
   .ctl ⟨true, false⟩, .tick]

example : (sysRun demoCfg (residueEvs.take 7)).rob.topOut.length = 1 ∧
    (sysRun demoCfg residueEvs).rob.flushing = true ∧ (sysRun demoCfg residueEvs).rob.topOut = [] ∧
    (sysRun demoCfg (residueEvs ++ [.takeRsp])).out = [] := by decide

/-- the same statement for the ROB before the repair (`tickOld`, `sysRunOld`) -/
def flush_silences_top_before_fix_full : Prop :=
  ∀ (c : Cfg) (evs more : List Ev), (sysRunOld c evs).rob.flushing = true →
    ∀ d ∈ (sysRunOld c (evs ++ more)).out.drop (sysRunOld c evs).out.length,
      d.rspTo ∉ (sysRunOld c evs).rob.accepted

/-- Before the repair it was false: the flush did not clear the Top port's outgoing buffer, so a
    response retired before the flush was still handed to the requester after the
    acknowledgement (this was replayed on the real ROB of that time by `harness/c15_deep.go`). -/
theorem flush_silences_top_before_fix_refuted : ¬ flush_silences_top_before_fix_full := by
  intro h
  have := h demoCfg residueEvs [.takeRsp] (by decide)
  revert this
  decide

example : (sysRunOld demoCfg residueEvs).rob.topOut.length = 1 ∧
    (sysRunOld demoCfg (residueEvs ++ [.takeRsp])).out.map (·.rspTo) = [0] := by decide

end C15
