import MgpuProofs.Props.C15
import MgpuProofs.C15Refine
/-! # C15 — refinement of the abstract FIFO specification, flush semantics, forwarded fields

Statements about the **closed system** `C15.sysRun c evs` (`MgpuModel/C15_Sys.lean`): the tick-exact
ROB model (`C15.step`, unchanged) composed with an arbitrary lower memory that answers every
forwarded request at most once, in any order, at any time, with any payload; an arbitrary
requester; an arbitrary controller. `evs : List Ev` is any event list (arrivals, memory taking /
answering, ticks, back-pressure in both directions = events refused or not happening, flush /
restart at any time), `c : Cfg` any configuration.
-/
namespace C15

/-- the closed-system version of `demoOps`: requests 0,1 answered in reverse order; requests 2,3
    accepted, 3 answered, flush, restart, late answer for 2 (dropped), request 4 served -/
def demoEvs : List Ev :=
  [.arrive (demoReq 0 false), .arrive (demoReq 64 true), .tick, .tick, .memTake, .memTake,
   .memAnswer 1 .done, .memAnswer 0 (.data [9, 9, 9, 9]), .tick, .tick, .tick, .takeRsp,
   .arrive (demoReq 128 false), .arrive (demoReq 192 false), .tick, .tick, .memTake, .memTake,
   .memAnswer 1 (.data [7]), .tick,
   .ctl ⟨true, false⟩, .tick, .takeAck, .ctl ⟨false, true⟩, .tick, .memAnswer 0 (.data [5]),
   .arrive (demoReq 256 false), .tick, .tick, .memTake, .memAnswer 0 (.data [6]), .tick, .tick,
   .takeRsp, .takeRsp]

/-- The ROB component of the closed system is the ROB model driven by some op sequence, and a
    longer event list gives a longer op sequence: every theorem of `Props/C15.lean` (stated for
    all `run c ops`) holds of the closed system, and `flush_discards` applies to continuations. -/
theorem closed_system_is_a_run (c : Cfg) (evs more : List Ev) :
    ∃ ops later, (sysRun c evs).rob = run c ops ∧ (sysRun c (evs ++ more)).rob = run c (ops ++ later) := by
  have key : ∀ (evs : List Ev) (σ : Sys) (ops0 : List Op), σ.rob = run c ops0 →
      ∃ later, (evs.foldl (sysStep c) σ).rob = run c (ops0 ++ later) := by
    intro evs
    induction evs with
    | nil => intro σ ops0 h; exact ⟨[], by simpa using h⟩
    | cons e es ih =>
      intro σ ops0 h
      have hstep : (sysStep c σ e).rob = σ.rob ∨ ∃ op, (sysStep c σ e).rob = step c σ.rob op := by
        cases e with
        | tick => exact Or.inr ⟨.tick, rfl⟩
        | arrive q => exact Or.inr ⟨.top q, rfl⟩
        | memTake => simp only [sysStep]; split; exact Or.inl rfl; exact Or.inr ⟨.drainBot, rfl⟩
        | memAnswer j p =>
          simp only [sysStep]; split
          · exact Or.inl rfl
          · rename_i b _
            split; exact Or.inr ⟨.bot b.id p, rfl⟩; exact Or.inl rfl
        | ctl m => exact Or.inr ⟨.ctl m, rfl⟩
        | takeRsp => simp only [sysStep]; split; exact Or.inl rfl; exact Or.inr ⟨.drainTop, rfl⟩
        | takeAck => exact Or.inr ⟨.drainCtl, rfl⟩
      rcases hstep with h1 | ⟨op, h1⟩
      · obtain ⟨later, hl⟩ := ih (sysStep c σ e) ops0 (h1.trans h)
        exact ⟨later, hl⟩
      · obtain ⟨later, hl⟩ := ih (sysStep c σ e) (ops0 ++ [op]) (by
          rw [h1, h, run_append]; rfl)
        refine ⟨op :: later, ?_⟩
        show (List.foldl (sysStep c) (sysStep c σ e) es).rob = _
        rw [hl]; simp
  obtain ⟨ops, h1⟩ := key evs {} [] rfl
  refine ⟨ops, ?_⟩
  simp only [List.nil_append] at h1
  obtain ⟨later, h2⟩ := key more (sysRun c evs) ops h1
  exact ⟨later, h1, by rw [← h2]; simp [sysRun, List.foldl_append]⟩

example : (sysRun demoCfg demoEvs).rob.accepted = [0, 1, 2, 3, 4] ∧
    (sysRun demoCfg demoEvs).out.map (·.rspTo) = [0, 1, 4] ∧
    (sysRun demoCfg demoEvs).rob.discarded = [2, 3] ∧ (sysRun demoCfg demoEvs).mem = [] := by decide

/-- **Refinement.** For every configuration and every event list, the ROB composed with an
    arbitrary at-most-once lower memory refines the abstract specification `Spec` (FIFO of
    accepted requests; the lower level answers any unanswered pending request; only the head
    responds, with the request's own id, to its sender, with the stored payload; flush empties
    the FIFO): the abstraction of the state after `evs` is reachable in the specification, every
    continuation `more` is again a specification run from there, and the specification's output
    history is exactly the traffic of the Top port (what the requester took, then what still
    waits in the port's outgoing buffer). -/
theorem rob_refines_fifo (c : Cfg) (evs more : List Ev) :
    Spec.Star c.cap {} (sysRun c evs).rob.abs ∧
    Spec.Star c.cap (sysRun c evs).rob.abs (sysRun c (evs ++ more)).rob.abs ∧
    (sysRun c evs).rob.abs.out = (sysRun c evs).out ++ (sysRun c evs).rob.topOut := by
  refine ⟨sysFold_refines c evs {} (sinv_init c), ?_, (sysRun_ok c evs).outLog⟩
  have : sysRun c (evs ++ more) = more.foldl (sysStep c) (sysRun c evs) := by
    simp [sysRun, List.foldl_append]
  rw [this]
  exact sysFold_refines c more _ (sysRun_ok c evs)

example : (sysRun demoCfg demoEvs).rob.abs.out.map (·.rspTo) = [0, 1, 4] ∧
    (sysRun demoCfg (demoEvs.take 20)).rob.abs.queue.map (fun e => (e.1.id, e.2.1, e.2.2)) =
      [(2, 2, none), (3, 3, some (.data [7]))] := by decide

/-- **What the specification guarantees** (proved once, on `Spec`, by induction over its four
    step kinds): every state reachable in the specification satisfies `Spec.Good` — order,
    uniqueness of ids and tickets, capacity, one answer per ticket, responses carry the request's
    id / sender and the answer given for its forwarded copy, forwarded copies carry the request's
    fields. -/
theorem spec_good (cap : Nat) (S : Spec) (h : Spec.Star cap {} S) : Spec.Good cap S :=
  Spec.good_star (Spec.good_init cap) h

example : Spec.Good demoCfg.cap (sysRun demoCfg demoEvs).rob.abs :=
  spec_good _ _ (rob_refines_fifo demoCfg demoEvs []).1

/-- **Order, exactly-once (safety), capacity as corollaries of the refinement**: responses that
    entered the Top port followed by the pending ids are the accepted ids minus the flushed ones,
    in acceptance order; no repetition; never more than `bufferSize` pending. -/
theorem sys_order_once_capacity (c : Cfg) (evs : List Ev) :
    let s := (sysRun c evs).rob
    s.delivered.map (·.rspTo) ++ s.txs.map (·.req.id) = s.live ∧
    s.accepted.Nodup ∧ (s.delivered.map (·.rspTo) ++ s.txs.map (·.req.id)).Nodup ∧
    s.txs.length ≤ c.cap := by
  intro s
  have g := spec_good c.cap s.abs (rob_refines_fifo c evs []).1
  have ho : s.delivered.map (·.rspTo) ++ s.txs.map (·.req.id) = s.live := by
    have := g.order
    simp only [St.abs, List.map_map, Function.comp_def] at this
    exact this
  have hn : s.accepted.Nodup := by
    have := g.idsNodup
    simpa [St.abs, St.accepted] using this
  refine ⟨ho, hn, ?_, ?_⟩
  · rw [ho]; exact hn.filter _
  · have := g.cap
    simpa [St.abs] using this

example : (sysRun demoCfg (demoEvs.take 16)).rob.txs.length = demoCfg.cap := by decide

/-- **Original id, sender and *the* payload.** Every response that entered the Top port names an
    accepted request `r` (id and sender) whose forwarded copy `b` carries `r`'s fields, and its
    payload is the answer the lower level gave for `b` — and with an at-most-once lower level
    that answer is unique: no other payload was ever matched to `b`'s ticket. -/
theorem sys_response_is_the_answer (c : Cfg) (evs : List Ev) :
    let σ := sysRun c evs
    ∀ d ∈ σ.out ++ σ.rob.topOut, ∃ r b, (r, b) ∈ σ.rob.fwd ∧ SameFields r b ∧
      d.rspTo = r.id ∧ d.dst = r.src ∧ (b.id, d.payload) ∈ σ.rob.answered ∧
      ∀ p', (b.id, p') ∈ σ.rob.answered → p' = d.payload := by
  intro σ d hd
  have g := spec_good c.cap σ.rob.abs (rob_refines_fifo c evs []).1
  rw [← (rob_refines_fifo c evs []).2.2] at hd
  obtain ⟨r, b, h1, h2, h3, h4⟩ := g.outOk d hd
  refine ⟨r, b, h1, g.fields _ h1, h2, h3, h4, ?_⟩
  intro p' hp'
  have hnd : (σ.rob.answered.map (·.1)).Nodup := g.ansNodup
  have key : ∀ (l : List (Nat × Rsp)), (l.map (·.1)).Nodup → ∀ k p q, (k, p) ∈ l → (k, q) ∈ l → p = q := by
    intro l
    induction l with
    | nil => intro _ k p q hp; cases hp
    | cons a l ih =>
      intro hn k p q hp hq
      simp only [List.map_cons, List.nodup_cons] at hn
      rcases List.mem_cons.1 hp with hp | hp <;> rcases List.mem_cons.1 hq with hq | hq
      · rw [← hq] at hp; exact (Prod.mk.inj hp).2
      · exfalso; apply hn.1; rw [← hp]; exact List.mem_map.2 ⟨(k, q), hq, rfl⟩
      · exfalso; apply hn.1; rw [← hq]; exact List.mem_map.2 ⟨(k, p), hp, rfl⟩
      · exact ih hn.2 k p q hp hq
  exact key _ hnd _ _ _ hp' h4

example : (sysRun demoCfg demoEvs).out =
    [⟨0, 2, .data [9, 9, 9, 9]⟩, ⟨1, 2, .done⟩, ⟨4, 2, .data [6]⟩] ∧
    (sysRun demoCfg demoEvs).rob.answered = [(1, .done), (0, .data [9, 9, 9, 9]), (3, .data [7]), (4, .data [6])] := by
  decide

/-! ## Fields that do / do not reach the Bottom port -/

/-- **Exactly which request fields reach the Bottom port.** Two requests are forwarded as the same
    message (under the same fresh id) iff they agree on kind, address, PID and — for a read — the
    access size, — for a write — data and dirty mask. So these fields arrive unchanged, and nothing
    else of the request influences what the lower level sees: not `CanWaitForCoalesce`, not the
    requester's id or port, not a write's `AccessByteSize` field nor a read's data/mask (the Go
    `Info` field is not part of the model's `Req` at all: `duplicateReadReq`/`duplicateWriteReq`
    never read it). -/
theorem forwarded_fields_exact (n : Nat) (r r' : Req) :
    dupReq n r = dupReq n r' ↔
      (r.write = r'.write ∧ r.addr = r'.addr ∧ r.pid = r'.pid ∧
       (r.write = false → r.size = r'.size) ∧ (r.write = true → r.data = r'.data ∧ r.mask = r'.mask)) := by
  unfold dupReq
  cases hr : r.write <;> cases hr' : r'.write <;> simp
  all_goals (intro _; constructor <;> intro h <;> simp_all)

example : dupReq 3 ((demoReq 64 false).toReq 0) = dupReq 3 { (demoReq 64 false).toReq 9 with cwc := false, src := 7, data := [1], mask := [true] } ∧
    dupReq 3 ((demoReq 64 false).toReq 0) ≠ dupReq 3 ((demoReq 68 false).toReq 0) := by decide

/-- `CanWaitForCoalesce` is dropped: every request that ever entered the Bottom port has the flag
    cleared, whatever the requester set (the model prints it as `c=0`; the real ROB is compared on
    it in every scenario), and a read carries no data / mask. -/
theorem forwarded_flag_cleared (c : Cfg) (evs : List Ev) :
    ∀ rb ∈ (sysRun c evs).rob.fwd, rb.2.cwc = false ∧ (rb.1.write = false → rb.2.data = [] ∧ rb.2.mask = []) := by
  intro rb h
  have := (sysRun_ok c evs).inv.fwdDup rb h
  rw [this]
  unfold dupReq
  split <;> simp_all

example : ((sysRun demoCfg demoEvs).rob.fwd.map (·.1.cwc)) = [true, true, true, true, true] ∧
    ((sysRun demoCfg demoEvs).rob.fwd.map (·.2.cwc)) = [false, false, false, false, false] := by decide

end C15
