import MgpuModel.C08
import MgpuProofs.C08ResInv
import MgpuProofs.Props.C08Part
/-! # C08 — the partition algorithm against compute units with finite room and `FreeResources`

`Props/C08Part.lean` lets the reservation outcomes be an arbitrary Boolean stream. Here they come
from where they come from in the simulator: CU `i` has `caps[i]` work-group slots,
`ReserveResourceForWG` succeeds iff one is free, `partitionAlgorithm.FreeResources` gives the slot of
a completed work-group back (`rStep`, `rRun` in `MgpuModel/C08_Res.lean`; the case lines
`c08 partr` run the same operation lists on the real algorithm). All statements are for every
work-group list, every number of CUs ≥ 1, every capacity vector and EVERY interleaving of `Next`
calls and completions. -/
namespace C08

/-- **pNextF_is_pNext.** One call of `Next` with the reservations decided by the CUs' free slots is
    `pNext` run against exactly the list of outcomes it met (all consumed): the resource-driven
    model refines the stream-driven one, so every theorem of `Props/C08Part.lean` about single calls
    applies to it. -/
theorem pNextF_is_pNext (s : PState) (ok : Nat → Bool) :
    pNext s (pNextF s ok).2.1 = ((pNextF s ok).1, [], (pNextF s ok).2.2) :=
  pNextF_eq_pNext s ok

/-- **partR_conserves.** After any interleaving of `Next` calls and completions: the work-groups
    handed out so far together with the ones still held by the per-CU cursors are a permutation of
    the list — nothing lost, nothing duplicated — and every hand-out names a registered CU. -/
theorem partR_conserves (l : List WG) (caps : List Nat) (hn : 0 < caps.length) (ops : List ROp) :
    let r := rRun ops (rStart l l.length caps)
    (r.2.map (·.2) ++ pHeld r.1.p).Perm l ∧ (∀ d ∈ r.2, d.1 < caps.length) ∧ r.1.p.nd = r.2.length := by
  intro r
  have hrdef : r = rRun ops (rStart l l.length caps) := rfl
  clear_value r
  subst hrdef
  obtain ⟨done', hinv, hperm, hcu, hnd⟩ :=
    rRun_inv l caps hn ops (rStart l l.length caps) (fun _ => []) (rStart_inv l caps hn)
  refine ⟨?_, hcu, ?_⟩
  · have hc := conserve l caps.length _ _ done' hinv.pinv
    have he : (List.range caps.length).flatMap (fun _ => ([] : List WG)) = [] := by
      induction (List.range caps.length) with
      | nil => rfl
      | cons a t ih => simp [List.flatMap_cons]
    rw [he, List.append_nil] at hperm
    exact (List.Perm.append_right _ hperm.symm).trans hc
  · have : (rStart l l.length caps).p.nd = 0 := rfl
    omega

/-- **partR_capacity.** In every reachable state, free slots + resident work-groups = the CU's
    slots: no CU ever holds more work-groups than it has room for. -/
theorem partR_capacity (l : List WG) (caps : List Nat) (hn : 0 < caps.length) (ops : List ROp) (i : Nat)
    (hi : i < caps.length) :
    let s := (rRun ops (rStart l l.length caps)).1
    s.free.getD i 0 + (s.res.getD i []).length = caps.getD i 0 := by
  intro s
  obtain ⟨done', hinv, _, _, _⟩ :=
    rRun_inv l caps hn ops (rStart l l.length caps) (fun _ => []) (rStart_inv l caps hn)
  exact hinv.room i hi

/-- **partR_dispatch_had_room.** A work-group is only ever dispatched to a CU that had a free slot
    at that moment. -/
theorem partR_dispatch_had_room (l : List WG) (caps : List Nat) (hn : 0 < caps.length) (ops : List ROp)
    (i : Nat) (wg : WG) :
    let s := (rRun ops (rStart l l.length caps)).1
    (rStep s .next).2 = some (i, wg) → 0 < s.free.getD i 0 ∧ i < caps.length := by
  intro s h
  obtain ⟨done', hinv, _, _, _⟩ :=
    rRun_inv l caps hn ops (rStart l l.length caps) (fun _ => []) (rStart_inv l caps hn)
  rcases rStep_inv l caps hn s done' hinv .next with ⟨e, _⟩ | ⟨i', wg', j, e, _, hi, _, hpos, _⟩
  · rw [e] at h; cases h
  · rw [e] at h; cases h; exact ⟨hpos, hi⟩

/-- **partR_done_all.** When `HasNext` turns false, the hand-outs are a permutation of the whole
    list: every work-group was handed out exactly once. -/
theorem partR_done_all (l : List WG) (caps : List Nat) (hn : 0 < caps.length) (ops : List ROp) :
    let r := rRun ops (rStart l l.length caps)
    r.1.p.numWG ≤ r.1.p.nd → (r.2.map (·.2)).Perm l := by
  intro r
  have hrdef : r = rRun ops (rStart l l.length caps) := rfl
  clear_value r
  subst hrdef
  intro hdone
  obtain ⟨hperm, _, hnd⟩ := partR_conserves l caps hn ops
  obtain ⟨_, hinv, _, _, _⟩ :=
    rRun_inv l caps hn ops (rStart l l.length caps) (fun _ => []) (rStart_inv l caps hn)
  have hnum := hinv.pinv.hnum
  have hlen := hperm.length_eq
  simp only [List.length_append, List.length_map] at hlen
  have hheld : pHeld (rRun ops (rStart l l.length caps)).1.p = [] :=
    List.eq_nil_of_length_eq_zero (by omega)
  have := hperm
  rw [hheld, List.append_nil] at this
  exact this

/-- **reach_live.** In every reachable state, a partition with own work left (counter below its
    quota and a parked or unread group) means work-groups are outstanding (`HasNext`). -/
theorem reach_live (l : List WG) (caps : List Nat) (hn : 0 < caps.length) (ops : List ROp) (j : Nat)
    (hj : j < caps.length) :
    let s := (rRun ops (rStart l l.length caps)).1
    s.p.disp.getD j 0 < s.p.per → ((s.p.cur.getD j none).isSome ∨ s.p.rem.getD j [] ≠ []) →
    s.p.nd < s.p.numWG := by
  intro s hd hw
  obtain ⟨done', hinv, _, _, _⟩ :=
    rRun_inv l caps hn ops (rStart l l.length caps) (fun _ => []) (rStart_inv l caps hn)
  exact own_work_outstanding l caps.length _ s.p done' hinv.pinv j hj hd hw

/-- **partR_idle_owes.** Every CU has at least one slot. In any reachable state, when a call of
    `Next` dispatches nothing although work-groups are outstanding, some CU holds a resident
    work-group: the algorithm is only ever waiting for a completion the environment owes (it cannot
    deadlock on its own). -/
theorem partR_idle_owes (l : List WG) (caps : List Nat) (hn : 0 < caps.length) (hc : ∀ c ∈ caps, 1 ≤ c)
    (ops : List ROp) :
    let s := (rRun ops (rStart l l.length caps)).1
    idleNext s = true → ∃ i, i < caps.length ∧ s.res.getD i [] ≠ [] := by
  intro s hidle
  obtain ⟨done', hinv, _, _, _⟩ :=
    rRun_inv l caps hn ops (rStart l l.length caps) (fun _ => []) (rStart_inv l caps hn)
  exact idle_owes l caps hn s done' hinv hc hidle

/-- **partR_terminates.** Liveness by a decreasing measure. Along any run in which the environment
    answers every idle call with a completion before the next call (`Responsive`), after
    `2·|l| + 1` calls of `Next` — whatever the capacities, the completion order and the extra
    completions in between — every work-group has been handed out, exactly once
    (measure: 2·outstanding + residents + [no debt]). -/
theorem partR_terminates (l : List WG) (caps : List Nat) (hn : 0 < caps.length) (ops : List ROp)
    (hr : Responsive ops (rStart l l.length caps) false) (hk : 2 * l.length + 1 ≤ nexts ops) :
    let r := rRun ops (rStart l l.length caps)
    r.1.p.nd = l.length ∧ (r.2.map (·.2)).Perm l := by
  intro r
  have hrdef : r = rRun ops (rStart l l.length caps) := rfl
  clear_value r
  subst hrdef
  have h0 := rStart_inv l caps hn
  have hres0 : resTotal caps.length (rStart l l.length caps) = 0 := by
    unfold resTotal rStart
    have : ∀ is : List Nat, (is.map fun i => ((Array.replicate caps.length ([] : List WG)).getD i []).length).sum = 0 := by
      intro is
      induction is with
      | nil => rfl
      | cons a t ih =>
        simp only [List.map_cons, List.sum_cons, ih, Nat.add_zero]
        simp only [Array.getD_eq_getD_getElem?, Array.getElem?_replicate]
        split <;> rfl
    exact this _
  have hge := terminates_aux l caps hn ops _ _ false h0 hr (by
    intro _
    have : (rStart l l.length caps).p.nd = 0 := rfl
    rw [hres0, this]
    simp only [Bool.false_eq_true, if_false]
    omega)
  obtain ⟨_, hinv, _, _, _⟩ :=
    rRun_inv l caps hn ops (rStart l l.length caps) (fun _ => []) h0
  have hle := nd_le l caps.length _ _ _ hinv.pinv
  refine ⟨by omega, ?_⟩
  exact partR_done_all l caps hn ops (by rw [hinv.pinv.hnum]; exact hge)

/-! ## witnesses -/

/-- the ten work-groups of a 10×1×1 grid with 1×1×1 groups -/
def ten : List WG := (enumFrom ⟨10, 1, 1, 1, 1, 1⟩ (fun _ => true) 11 ⟨0, 0, 0⟩).1

/-- **short_partition_idles_cu.** Fairness gap (replayed on the real algorithm, first `c08 partr`
    case): 10 work-groups on CUs with 1, 1, 2 slots (`per = 4`: partitions 0–3, 4–7, 8–9). After CU 2
    ran its two groups and one completed, CU 2 has a free slot and 5 work-groups are outstanding —
    yet `Next` dispatches nothing: partition 2 is exhausted but its counter (2) is below the quota
    (4), so CU 2 never steals, and CUs 0, 1 are full. The hypothesis "own work left" of
    `partR_work_conserving` (`Props/C08Fair.lean`) cannot be dropped. -/
theorem short_partition_idles_cu :
    let s := (rRun [.next, .next, .next, .next, .next, .free 0 0, .next, .next, .free 2 1] (rStart ten 10 [1, 1, 2])).1
    s.free.toList = [0, 0, 1] ∧ s.p.nd = 5 ∧ s.p.numWG = 10 ∧ (rStep s .next).2 = none := by
  decide +kernel

/-- **no_room_never_dispatches.** The hypothesis `1 ≤ c` of `partR_idle_owes` cannot be dropped:
    without any slot nothing is ever dispatched and no completion is ever owed. -/
theorem no_room_never_dispatches :
    let s := (rRun [.next, .next, .free 0 0, .next] (rStart ten 10 [0, 0])).1
    idleNext s = true ∧ s.res.toList = [[], []] ∧ s.p.nd = 0 := by
  decide +kernel

/-! ## non-vacuity -/

/-- a responsive run on CUs with 1, 1, 2 slots that finishes: every hypothesis of
    `partR_terminates` except the length bound is met by a run with an idle call answered by a completion -/
example : Responsive [.next, .next, .next, .next, .next, .free 0 0, .next] (rStart ten 10 [1, 1, 2]) false := by
  simp only [Responsive]
  decide +kernel

example : ((rRun [.next, .next, .next, .next, .next, .free 0 0, .next] (rStart ten 10 [1, 1, 2])).2.map (·.1)) =
    [0, 1, 2, 2, 0] := by decide +kernel

end C08
