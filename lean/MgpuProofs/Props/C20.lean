import MgpuModel.C20
namespace C20
end C20
