import MgpuProofs.C20_Cons3
/-! # C20 — property theorems (NVIDIA trace-driven simulation conserves work and terminates;
    trace parsing round-trips)

Model: `MgpuModel/C20_Sys.lean` (driver / GPUs / SMs / sub-cores, ports, connections, Akita's
sleep/wake rule), `MgpuModel/C20_Parse.lean` (`ReadTrace`/`extractInst`, `render`),
`MgpuModel/C20_Spec.lean` (`finished`, totals).  `legacy = true` is the code before the `fix:` commits.
An event list `evs : List Ev` is an arbitrary interleaving of component and connection ticks — also
ticks of components that are asleep (Akita may schedule those) — so "for all `evs`" covers every
schedule of every engine. -/
namespace C20

/-- **Conservation of instructions, every run.**  For every platform shape, every trace and every
    interleaving of ticks (before and after the fixes): the instructions received by sub-cores
    (`Subcore.instsCount`, what `GetTotalInstsCount` reports) plus the instructions still waiting in
    undispatched lists and port buffers of the three layers equal the instructions of the trace.
    Nothing is duplicated and nothing is dropped on the way down, whatever the schedule. -/
theorem conservation (legacy : Bool) (G S C : Nat) (trace : List Kernel) (evs : List Ev) :
    receivedInsts (run (init legacy G S C trace) evs) + pendingInsts (run (init legacy G S C trace) evs)
      = instsOfTrace trace := by
  have h := Q_run (init legacy G S C trace) evs
  rw [Q_init] at h
  exact h

/-- Consequence: once nothing is pending above the sub-cores, they have received exactly the
    instructions of the trace (each warp's instructions exactly once). -/
theorem conservation_when_drained (legacy : Bool) (G S C : Nat) (trace : List Kernel) (evs : List Ev)
    (h : pendingInsts (run (init legacy G S C trace) evs) = 0) :
    receivedInsts (run (init legacy G S C trace) evs) = instsOfTrace trace := by
  have := conservation legacy G S C trace evs
  omega

/-- a ragged, degenerate trace on 2 GPUs × 2 SMs × 3 sub-cores, run to quiescence by fair rounds:
    the hypothesis of `conservation_when_drained` is met and all 33 instructions arrived -/
example :
    let s := (rounds 60 (init false 2 2 3 [[[0, 5], []], [], [[1, 2, 3, 4, 5, 6, 7]]], [])).1
    pendingInsts s = 0 ∧ receivedInsts s = 33 ∧ finished s = true ∧ allAsleep s = true := by
  decide +kernel

/-- The full termination statement: whenever the engine's queue is empty (no component or connection
    has a pending tick) the run is finished — all kernels reported to the driver, every device, SM and
    sub-core idle and back in its parent's free list, every buffer empty. -/
def TerminatesAllIdle (legacy : Bool) : Prop :=
  ∀ (G S C : Nat) (trace : List Kernel) (evs : List Ev), 1 ≤ G → 1 ≤ S → 1 ≤ C →
    allAsleep (run (init legacy G S C trace) evs) = true → finished (run (init legacy G S C trace) evs) = true

/-- the 14 events the engine handles on the pre-fix code for one block with warps {0, 5} on one SM
    with two sub-cores (same order as the real serial engine; reproduced on the real code at t = 7) -/
def legacyWitness : List Ev := (rounds 20 (init true 1 1 2 [[[0, 5]]], [])).2

/-- **The code before the fixes violates termination**: after `legacyWitness` nothing is scheduled,
    the kernel is unfinished and the 5-instruction warp was never dispatched (the SM went to sleep
    because `dispatchThreadblocksToSubcores` returned `false`, and the empty warp never reports). -/
theorem terminates_all_idle_legacy_refuted : ¬ TerminatesAllIdle true := by
  intro h
  have := h 1 1 2 [[[0, 5]]] legacyWitness (by decide) (by decide) (by decide) (by decide +kernel)
  revert this
  decide +kernel

example :
    let s := run (init true 1 1 2 [[[0, 5]]]) legacyWitness
    allAsleep s = true ∧ s.l0.unfin = 1 ∧ (get s.l2 0).undisp = [5] ∧ receivedInsts s = 0 := by
  decide +kernel

/-- `Tick` returning `false` must mean "nothing changed"; the pre-fix GPU dispatch breaks this: the
    tick sends a thread block (outgoing buffer grows) and still reports no progress, so the GPU sleeps. -/
theorem progress_flag_honest_legacy_refuted :
    ∃ (s : Sys) (g : Nat), s.legacy = true ∧ awakeOf (tickGpu s g) (.gpu g) = false ∧
      (get (tickGpu s g).l1 g).pOut ≠ (get s.l1 g).pOut :=
  ⟨run (init true 1 1 1 [[[1]]]) [.drv, .c0, .gpu 0], 0, by decide +kernel⟩

end C20
