import MgpuProofs.C20_Cons3
import MgpuProofs.C20_ConsW
import MgpuProofs.C20_ParseLemmas
import MgpuProofs.C20_TermLemmas
import MgpuProofs.C20_Terminates
/-! # C20 — property theorems (NVIDIA trace-driven simulation conserves work and terminates;
    trace parsing round-trips)

Model: `MgpuModel/C20_Sys.lean` (driver / GPUs / SMs / sub-cores, ports, connections, Akita's
sleep/wake rule), `MgpuModel/C20_Parse.lean` (`ReadTrace`/`extractInst`, `render`),
`MgpuModel/C20_Spec.lean` (`finished`, totals).  `legacy = true` is the code before the `fix:` commits.
An event list `evs : List Ev` is an arbitrary interleaving of component and connection ticks — also
ticks of components that are asleep (Akita may schedule those) — so "for all `evs`" covers every
schedule of every engine. -/
namespace C20

/-- **Conservation of instructions, every run.**  For every platform shape, every trace and every
    interleaving of ticks (before and after the fixes): the instructions received by sub-cores
    (`Subcore.instsCount`, what `GetTotalInstsCount` reports) plus the instructions still waiting in
    undispatched lists and port buffers of the three layers equal the instructions of the trace.
    Nothing is duplicated and nothing is dropped on the way down, whatever the schedule. -/
theorem conservation (legacy : Bool) (G S C : Nat) (trace : List Kernel) (evs : List Ev) :
    receivedInsts (run (init legacy G S C trace) evs) + pendingInsts (run (init legacy G S C trace) evs)
      = instsOfTrace trace := by
  have h := Q_run (init legacy G S C trace) evs
  rw [Q_init] at h
  exact h

/-- **Conservation of warps, every run**: warps received by SMs (`SM.warpsCount`, what
    `GetTotalWarpsCount` reports) + warps still waiting in the driver's and the GPUs' lists and buffers
    = warps of the trace, for every shape, trace, schedule (before and after the fixes): every warp —
    hence every thread block and kernel — is handed down at most once and none is dropped. -/
theorem conservation_warps (legacy : Bool) (G S C : Nat) (trace : List Kernel) (evs : List Ev) :
    receivedWarps (run (init legacy G S C trace) evs) + pendingWarps (run (init legacy G S C trace) evs)
      = warpsOfTrace trace := by
  have h := QW_run (init legacy G S C trace) evs
  rw [QW_init] at h
  exact h

/-- Consequence: once nothing is pending above the sub-cores, they have received exactly the
    instructions of the trace (each warp's instructions exactly once). -/
theorem conservation_when_drained (legacy : Bool) (G S C : Nat) (trace : List Kernel) (evs : List Ev)
    (h : pendingInsts (run (init legacy G S C trace) evs) = 0) :
    receivedInsts (run (init legacy G S C trace) evs) = instsOfTrace trace := by
  have := conservation legacy G S C trace evs
  omega

/-- a ragged, degenerate trace on 2 GPUs × 2 SMs × 3 sub-cores, run to quiescence by fair rounds:
    the hypothesis of `conservation_when_drained` is met and all 33 instructions arrived -/
example :
    let s := (rounds 60 (init false 2 2 3 [[[0, 5], []], [], [[1, 2, 3, 4, 5, 6, 7]]], [])).1
    pendingInsts s = 0 ∧ receivedInsts s = 33 ∧ finished s = true ∧ allAsleep s = true := by
  decide +kernel

/-- The full termination statement ("no stuck state unless finished"): for every platform shape
    with at least one device, SM and sub-core, every trace and every interleaving of ticks of existing
    components: whenever the engine's queue is empty (no component or connection has a pending tick)
    the run is finished — all kernels reported to the driver (`unfinishedKernelsCount = 0`), every
    device, SM and sub-core idle and back in its parent's free list, every list and port buffer empty. -/
def TerminatesAllIdle (legacy : Bool) : Prop :=
  ∀ (G S C : Nat) (trace : List Kernel) (evs : List Ev), 1 ≤ G → 1 ≤ S → 1 ≤ C →
    (∀ e ∈ evs, e.InRange G S C) →
    allAsleep (run (init legacy G S C trace) evs) = true → finished (run (init legacy G S C trace) evs) = true

/-- **Termination with everything idle, repaired code (full statement).**  Proved with the two
    invariants of `MgpuProofs/C20_InvDefs.lean`: `Inv1` (every child of every layer is in exactly one
    place; unfinished = undispatched + handed out) and `Inv2` ("a component that sleeps with pending
    work has a busy descendant or a message in flight to it": a non-empty inbox keeps its owner awake,
    a sleeping connection has every port blocked on a full buffer whose owner is awake, a parent with
    work and a free child is awake or blocked on its full outbox, a child with an unsent completion
    likewise, a sub-core with instructions left is awake).  Includes degenerate traces: warps with 0
    instructions, blocks with 0 warps, kernels with 0 blocks, no kernels at all. -/
theorem terminates_all_idle : TerminatesAllIdle false := by
  intro G S C trace evs hG hS hC hr ha
  exact asleep_finished G S C trace evs hG hS hC hr ha

/-- the hypotheses are met by a non-trivial run: 170 in-range events on 2×2×3 with a degenerate
    trace end with an empty queue -/
example :
    let r := rounds 60 (init false 2 2 3 [[[0, 5], []], [], [[1, 2, 3, 4, 5, 6, 7]]], [])
    (∀ e ∈ r.2, e.InRange 2 2 3) ∧ allAsleep (run (init false 2 2 3 [[[0, 5], []], [], [[1, 2, 3, 4, 5, 6, 7]]]) r.2) = true
      ∧ r.2.length = 170 := by
  decide +kernel

/-- **Every run is finite, repaired code.**  A *strict* run ticks only components and connections that
    have a pending tick (what an engine does).  Its length is bounded by the explicit measure
    `M = Φ · (N + 1) + #awake` of the initial state, where the potential `Φ` charges every unit of work
    for the steps it still has to take (dispatch, two port hops, execution of each instruction,
    completion report, two port hops back) — `Φ` strictly decreases on every tick that reports
    progress, a tick without progress changes nothing but puts its component to sleep.  Together with
    `terminates_all_idle`: the engine's queue always runs empty, and when it does the run is finished. -/
theorem terminates_run_finite (G S C : Nat) (trace : List Kernel) (evs : List Ev)
    (hr : ∀ e ∈ evs, e.InRange G S C) (hs : Strict (init false G S C trace) evs) :
    evs.length ≤ M (init false G S C trace) :=
  strict_run_bounded' G S C trace evs hr hs

/-- the fair round-robin schedule (63 events here) is strict and in range -/
example :
    let r := rounds 30 (init false 1 2 2 [[[0, 3], []], []], [])
    Strict (init false 1 2 2 [[[0, 3], []], []]) r.2 ∧ (∀ e ∈ r.2, e.InRange 1 2 2) ∧ 0 < r.2.length := by
  decide +kernel

/-- the 14 events the engine handles on the pre-fix code for one block with warps {0, 5} on one SM
    with two sub-cores (same order as the real serial engine; reproduced on the real code at t = 7) -/
def legacySchedule : List Ev := (rounds 20 (init true 1 1 2 [[[0, 5]]], [])).2

/-- **The code before the fixes violates termination**: after `legacySchedule` nothing is scheduled,
    the kernel is unfinished and the 5-instruction warp was never dispatched (the SM went to sleep
    because `dispatchThreadblocksToSubcores` returned `false`, and the empty warp never reports). -/
theorem terminates_all_idle_legacy_refuted : ¬ TerminatesAllIdle true := by
  intro h
  have := h 1 1 2 [[[0, 5]]] legacySchedule (by decide) (by decide) (by decide) (by decide +kernel) (by decide +kernel)
  revert this
  decide +kernel

example :
    let s := run (init true 1 1 2 [[[0, 5]]]) legacySchedule
    allAsleep s = true ∧ s.l0.unfin = 1 ∧ (get s.l2 0).undisp = [5] ∧ receivedInsts s = 0 := by
  decide +kernel

/-- `Tick` returning `false` must mean "nothing changed"; the pre-fix GPU dispatch breaks this: the
    tick sends a thread block (outgoing buffer grows) and still reports no progress, so the GPU sleeps. -/
theorem progress_flag_honest_legacy_refuted :
    ∃ (s : Sys) (g : Nat), s.legacy = true ∧ awakeOf (tickGpu s g) (.gpu g) = false ∧
      (get (tickGpu s g).l1 g).pOut ≠ (get s.l1 g).pOut :=
  ⟨run (init true 1 1 1 [[[1]]]) [.drv, .c0, .gpu 0], 0, by decide +kernel⟩

/-- **Exclusive hand-out, every run of the repaired code.**  For every shape, trace and interleaving:
    whenever a warp sits in the incoming buffer of a sub-core (in particular when `processSMMsg`
    executes `unfinishedInstsCount = msg.Warp.InstructionsCount`), that sub-core has no instruction
    left and no unreported finished warp — a warp is only ever handed to a free executor, so no
    instruction count is overwritten and `instsCount − unfinishedInstsCount` is what was executed.
    (Proved from the invariant "each sub-core is in exactly one place": free list, a message to it,
    its inbox, busy, its outbox, a completion in the SM's inbox.) -/
theorem exclusive_handout (G S C : Nat) (trace : List Kernel) (evs : List Ev) (u : Nat) (hu : u < G * S * C)
    (hne : get (get (run (init false G S C trace) evs).l2 (u / C)).cIn (u % C) ≠ []) :
    (get (run (init false G S C trace) evs).subs u).rem = 0 ∧
    (get (run (init false G S C trace) evs).subs u).fin = 0 :=
  leaf_exclusive G S C trace evs u hu hne

/-- the hypothesis of `exclusive_handout` is met: after these 8 events on 1×1×2 with warps {3,5} the
    3-instruction warp sits in the inbox of sub-core 0 -/
example : get (get (run (init false 1 1 2 [[[3, 5]]]) [.drv, .c0, .gpu 0, .gpu 0, .c1 0, .sm 0, .sm 0, .c2 0]).l2 (0 / 2)).cIn (0 % 2)
    ≠ [] := by decide +kernel

/-- **`parse (render t) = t`, repaired reader, opcode included.**  For every list of well-formed thread
    blocks (ids and counts in the `int32` fields, `insts = ` line equal to the number of instruction lines,
    registers from the register table, addresses/masks/immediates in their field ranges, every
    address-compression form, memory and non-memory lines, warps with `insts = 0`, **every instruction
    carrying any non-empty opcode text without a space** — known to `opcodeTable` or not): `ReadTrace`'s body
    parser applied to the serialised lines (each line rendered with the instruction's own opcode) returns
    exactly the structure, `OpCode` text included. -/
theorem parse_render (ts : List TBT) (hwf : ∀ t ∈ ts, t.WF true) :
    parseBody false true (renderBody opText ts) = .ok ts :=
  parseBody_render ts hwf

/-- single instruction line: `extractInst (render i) = i`, opcode included -/
theorem parse_render_inst (i : Inst) (wf : i.WF true) :
    extractInst false true (renderInst opText i) = .ok i :=
  extractInst_render i wf

/-- a memory instruction (address 0x1000) with an opcode the table does not know -/
def opWitness : Inst := { legacyWitness with op := some "LDG.E.64".toList }

theorem opWitness_WF : opWitness.WF true := by
  constructor <;> simp [opWitness, legacyWitness, OpWF]

/-- the rendered line of the witness and what the repaired reader makes of it -/
example : renderInst opText opWitness = "0010 00000001 0 LDG.E.64 0 4 0 0x1000 7".toList ∧
    (extractToks false true (renderToks (opText opWitness) opWitness)).toOption = some opWitness := by decide

/-- a well-formed, non-trivial input of `parse_render`: the witness in a one-instruction warp followed by a
    warp with `insts = 0` -/
example : ∀ t ∈ [({ id := (3, 0, 1), warps := [{ id := 0, count := 1, insts := [opWitness] }, { id := 7 }] } : TBT)],
    t.WF true := by
  intro t ht
  simp only [List.mem_singleton] at ht
  subst ht
  refine ⟨by decide, by decide, by decide, by decide, by decide, by decide, ?_⟩
  intro w hw
  simp only [List.mem_cons, List.mem_nil_iff, or_false] at hw
  rcases hw with rfl | rfl
  · refine ⟨by decide, by decide, by decide, by decide, ?_⟩
    intro i hi
    simp only [List.mem_singleton] at hi
    subst hi
    exact opWitness_WF
  · exact ⟨by decide, by decide, by decide, by decide, by intro i hi; cases hi⟩

/-- **The reader before the address fix does not round-trip**: `%x` stops at the `x` of `0x1000`, the
    memory address of the witness instruction is parsed as 0. -/
theorem parse_render_legacy_refuted :
    extractInst true false (renderInst (fun _ => "OP".toList) legacyWitness) ≠ .ok legacyWitness :=
  legacy_not_roundtrip_line

/-- **Before the opcode repair the opcode was lost by parsing** (was finding `C20-opcode-dropped`;
    `extractInst false false` = the reader with `NewOpcode` commented out): two serialised instructions that
    differ only in the opcode token parsed to the same structure (`OpCode = nil`), so no `render` that writes
    the opcode could be inverted by that parser. -/
theorem parse_render_opcode_lost_before_fix (op1 op2 : List Char) (h1 : OpWF op1) (h2 : OpWF op2) (i : Inst)
    (wf : i.WF false) :
    extractInst false false (renderInst (fun _ => op1) i) = extractInst false false (renderInst (fun _ => op2) i) := by
  rw [extractInst_render_noop op1 h1 i wf, extractInst_render_noop op2 h2 i wf]

/-- the full round trip was therefore false for the old reader: the witness with its opcode does not come back -/
theorem parse_render_before_fix_refuted :
    extractInst false false (renderInst opText opWitness) ≠ .ok opWitness := by
  have hw : ({ opWitness with op := none } : Inst).WF false := by
    constructor <;> simp [opWitness, legacyWitness]
  have h := extractInst_render_noop "LDG.E.64".toList ⟨by decide, by decide⟩ _ hw
  have e : renderInst (fun _ => "LDG.E.64".toList) { opWitness with op := none } = renderInst opText opWitness := rfl
  rw [e] at h
  rw [h]
  intro hc
  have := congrArg (fun e => match e with | .ok (x : Inst) => x.op | .error _ => none) hc
  revert this
  decide

end C20
