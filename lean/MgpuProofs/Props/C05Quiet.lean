import MgpuProofs.C05Quiet
import MgpuProofs.Props.C05Sched
/-! # C05 — simulated time IS schedule independent under the quiescent-call discipline

`Props/C05Sched.lean` shows that simulated completion times depend on the host schedule
(`completion_times_refuted`): `DrainCommandQueue` returns while the engine goroutine is still
winding down, and the application's next API call races with it. Here the positive half: if the
application starts an API call (`Enqueue`, `DrainCommandQueue`) only when the simulator is at rest
(`T.qAllowed`: `runAsync` back in its `select`, no engine goroutine), then for EVERY script and
EVERY interleaving the discipline allows, the completion times are those of the sequential
specification `T.specTimes` and the final engine time is `sum + number of rounds`.

Proof: `MgpuProofs/C05Quiet.lean` — the predicted log `Quiet.pred` and predicted final time `Quiet.fin`
are preserved by every discipline-respecting step of each of the three goroutines. -/
namespace C05
open C12 (APc RPc EPc Th)

/-- Under the quiescent-call discipline (the application thread starts an API call — Enqueue or
    DrainCommandQueue — only when runAsync is back in its select and no engine goroutine exists)
    the simulated completion times are a function of the script: for EVERY interleaving allowed by
    the discipline that runs the script to its end, command times are those of the sequential
    specification, and once the system is at rest the engine time is sum + number of rounds. -/
theorem quiescent_calls_times_deterministic (rounds : List Nat) (ts : List C12.Th) (s : T.St)
    (h : T.runQ (T.init rounds) ts = some s) (hf : C12.finished s.p) :
    s.ctimes = T.specTimes 0 1 rounds ∧ (T.quiescent s → s.now = rounds.sum + rounds.length) := by
  have hi := Quiet.qinv_runQ rounds ts (Quiet.qinv_init rounds) h
  constructor
  · rw [← Quiet.pred_finished s hi.side hf]; exact hi.pred
  · intro hq
    rw [← Quiet.fin_rest s hi.side hf hq]; exact hi.fin

/-- … hence any two discipline-respecting runs of the same script agree on every completion time,
    and on the final engine time once both are at rest: the positive counterpart of
    `completion_times_refuted` (same statement as `completion_times_full`, with `runQ` for `runSched`). -/
theorem quiescent_calls_schedule_independent (rounds : List Nat) (ts₁ ts₂ : List Th) (s₁ s₂ : T.St)
    (h₁ : T.runQ (T.init rounds) ts₁ = some s₁) (h₂ : T.runQ (T.init rounds) ts₂ = some s₂)
    (f₁ : C12.finished s₁.p) (f₂ : C12.finished s₂.p) :
    s₁.ctimes = s₂.ctimes ∧ (T.quiescent s₁ → T.quiescent s₂ → s₁.now = s₂.now) := by
  obtain ⟨c₁, n₁⟩ := quiescent_calls_times_deterministic rounds ts₁ s₁ h₁ f₁
  obtain ⟨c₂, n₂⟩ := quiescent_calls_times_deterministic rounds ts₂ s₂ h₂ f₂
  exact ⟨c₁.trans c₂.symm, fun q₁ q₂ => (n₁ q₁).trans (n₂ q₂).symm⟩

/-- a discipline-respecting run is in particular a run (`runQ` only forbids schedules) -/
theorem runQ_runSched (ts : List Th) : ∀ {s s' : T.St}, T.runQ s ts = some s' → T.runSched s ts = some s' := by
  induction ts with
  | nil => intro s s' h; simpa [T.runQ, T.runSched] using h
  | cons t ts ih =>
    intro s s' h
    simp only [T.runQ] at h
    by_cases hq : T.qAllowed s t
    · simp only [hq, if_true] at h
      cases hs : T.step s t with
      | none => simp [hs] at h
      | some s1 =>
        simp only [hs] at h
        simp only [T.runSched, hs]
        exact ih h
    · simp [hq] at h

/-- non-vacuity: the script `Enqueue; Drain; Enqueue; Drain` is run to its end, at rest, by the
    discipline-respecting interleaving `schedSlow` (the one of `completion_times_witness` whose
    times are the specification's) -/
example : ∃ s, T.runQ (T.init [1, 1]) schedSlow = some s ∧ C12.finished s.p ∧ T.quiescent s ∧
    s.ctimes = [(1, 1), (2, 3)] ∧ s.now = 4 := by
  refine ⟨_, rfl, ?_, ?_, rfl, rfl⟩ <;> decide

/-- the theorem applied to that run -/
example : ∃ s, T.runQ (T.init [1, 1]) schedSlow = some s ∧ s.ctimes = T.specTimes 0 1 [1, 1] ∧ s.now = 4 := by
  have hr : ∃ s, T.runQ (T.init [1, 1]) schedSlow = some s ∧ C12.finished s.p ∧ T.quiescent s := by
    refine ⟨_, rfl, ?_, ?_⟩ <;> decide
  obtain ⟨s, h, hf, hq⟩ := hr
  obtain ⟨hc, hn⟩ := quiescent_calls_times_deterministic [1, 1] schedSlow s h hf
  exact ⟨s, h, hc, hn hq⟩

/-- the hypothesis cannot be dropped: `schedFast` violates the discipline and its times differ -/
example : T.runQ (T.init [1, 1]) schedFast = none ∧
    ∃ s, T.runSched (T.init [1, 1]) schedFast = some s ∧ C12.finished s.p ∧ s.ctimes ≠ T.specTimes 0 1 [1, 1] := by
  refine ⟨by decide, _, rfl, ?_, ?_⟩ <;> decide

end C05
