import MgpuProofs.C07Fault
set_option linter.unusedVariables false
set_option linter.unusedSimpArgs false
/-! # C07 helper lemmas: on exactly which register operands the two stores disagree about faulting -/
namespace C07
open Gen

/-- emulator, SGPR operand: more than 16 registers (64-byte scratch buffer) or a range past `s101` -/
abbrev emuSOut (r rc : Nat) : Prop := 16 < cnt rc ∨ 102 < regIndex r + cnt rc
/-- timing, SGPR operand: the range ends past the end of the CU's scalar file (the wavefront's own
    allocation is NOT checked) -/
abbrev timSOut (t : TimingRF) (w : TWf) (r rc : Nat) : Prop := t.sfile.size < w.soff + 4 * (regIndex r + cnt rc)
/-- emulator, VGPR operand: more than 16 registers or past the end of the 64×256-register file -/
abbrev emuVOut (r rc lane : Nat) : Prop := 16 < cnt rc ∨ 16384 < lane * 256 + regIndex r + cnt rc
/-- timing, VGPR operand: past the end of the SIMD's vector file -/
abbrev timVOut (t : TimingRF) (w : TWf) (r rc lane : Nat) : Prop :=
  (t.vfileOf w).size < w.voff + lane * 1024 + 4 * (regIndex r + cnt rc)

theorem emuReadFault_s (r rc lane : Nat) (h : isSReg r = true) :
    emuReadFault r rc lane = if emuSOut r rc then some .bounds else none := by
  have hn := numBytes_of4 r rc (byteSize_of_s r h)
  unfold emuReadFault
  simp only [hn, h, if_true]
  by_cases a : 16 < cnt rc
  · have : 4 * cnt rc > 64 := by omega
    simp [a, this]
  · have : ¬ 4 * cnt rc > 64 := by omega
    simp only [this, if_false, a, false_or]
    by_cases b : 102 < regIndex r + cnt rc
    · have : ¬ regIndex r * 4 + 4 * cnt rc ≤ 408 := by omega
      simp [b, this]
    · have : regIndex r * 4 + 4 * cnt rc ≤ 408 := by omega
      simp [b, this]; omega

theorem emuReadFault_v (r rc lane : Nat) (h : isVReg r = true) :
    emuReadFault r rc lane = if emuVOut r rc lane then some .bounds else none := by
  have hn := numBytes_of4 r rc (byteSize_of_v r h)
  have hS : isSReg r = false := by
    cases hs : isSReg r
    · rfl
    · have := sv_excl r hs; rw [h] at this; cases this
  unfold emuReadFault
  simp only [hn, h, hS, if_true, Bool.false_eq_true, if_false]
  by_cases a : 16 < cnt rc
  · have : 4 * cnt rc > 64 := by omega
    simp [a, this]
  · have : ¬ 4 * cnt rc > 64 := by omega
    simp only [this, if_false, a, false_or]
    by_cases b : 16384 < lane * 256 + regIndex r + cnt rc
    · have : ¬ lane * 1024 + regIndex r * 4 + 4 * cnt rc ≤ 65536 := by omega
      simp [b, this]
    · have : lane * 1024 + regIndex r * 4 + 4 * cnt rc ≤ 65536 := by omega
      simp [b, this]; omega

theorem timReadFault_s (t : TimingRF) (w : TWf) (r rc lane : Nat) (h : isSReg r = true) :
    timReadFault t w r rc lane = if timSOut t w r rc then some .bounds else none := by
  have hsp : (isSpecial7 r || r == R_EXECHI) = false := by
    cases hx : (isSpecial7 r || r == R_EXECHI)
    · rfl
    · have := (special_not_s r hx).1; rw [h] at this; cases this
  unfold timReadFault
  simp only [hsp, h, if_true, Bool.false_eq_true, if_false]
  by_cases b : t.sfile.size < w.soff + 4 * (regIndex r + cnt rc)
  · have : ¬ regIndex r * 4 + w.soff + 4 * cnt rc ≤ t.sfile.size := by omega
    simp [b, this]
  · have : regIndex r * 4 + w.soff + 4 * cnt rc ≤ t.sfile.size := by omega
    simp [b, this]

theorem timReadFault_v (t : TimingRF) (w : TWf) (r rc lane : Nat) (h : isVReg r = true) :
    timReadFault t w r rc lane = if timVOut t w r rc lane then some .bounds else none := by
  have hS : isSReg r = false := by
    cases hs : isSReg r
    · rfl
    · have := sv_excl r hs; rw [h] at this; cases this
  have hsp : (isSpecial7 r || r == R_EXECHI) = false := by
    cases hx : (isSpecial7 r || r == R_EXECHI)
    · rfl
    · have := (special_not_s r hx).2; rw [h] at this; cases this
  unfold timReadFault
  simp only [hsp, h, hS, if_true, Bool.false_eq_true, if_false]
  by_cases b : (t.vfileOf w).size < w.voff + lane * 1024 + 4 * (regIndex r + cnt rc)
  · have : ¬ regIndex r * 4 + lane * 1024 + w.voff + 4 * cnt rc ≤ (t.vfileOf w).size := by omega
    simp [b, this]
  · have : regIndex r * 4 + lane * 1024 + w.voff + 4 * cnt rc ≤ (t.vfileOf w).size := by omega
    simp [b, this]

theorem ite_bounds_ne (A B : Prop) [Decidable A] [Decidable B] :
    ((if A then some Fault.bounds else none) ≠ (if B then some Fault.bounds else none)) ↔ ¬ (A ↔ B) := by
  by_cases a : A <;> by_cases b : B <;> simp [a, b]

/-- **`ReadOperandBytes`: the complete list of operands on which exactly one store panics, or the two
    panic differently.** (1) a supported special register with a count that makes the emulator's
    operand longer than its 64-byte buffer; (2) `exec_hi` as a pair; (3)/(4) SGPR / VGPR ranges for
    which exactly one of the two bounds tests trips (the emulator tests the architectural limits
    `s101`, 16 registers, 64×256 VGPRs; timing tests only the end of the CU's physical file);
    (5) an unsupported register with a long count (emulator: index out of range, timing: unsupported). -/
theorem read_bytes_fault_disagree (t : TimingRF) (w : TWf) (r rc lane : Nat) :
    emuReadFault r rc lane ≠ timReadFault t w r rc lane ↔
      ((isSpecial7 r || r == R_EXECHI) = true ∧ 64 < numBytes r rc) ∨
      (r = R_EXECHI ∧ 2 ≤ rc ∧ numBytes r rc ≤ 64) ∨
      (isSReg r = true ∧ ¬ (emuSOut r rc ↔ timSOut t w r rc)) ∨
      (isVReg r = true ∧ ¬ (emuVOut r rc lane ↔ timVOut t w r rc lane)) ∨
      (isSReg r = false ∧ isVReg r = false ∧ (isSpecial7 r || r == R_EXECHI) = false ∧ 64 < numBytes r rc) := by
  by_cases cS : isSReg r = true
  · have cV := sv_excl r cS
    have hsp : (isSpecial7 r || r == R_EXECHI) = false := by
      cases hx : (isSpecial7 r || r == R_EXECHI)
      · rfl
      · have := (special_not_s r hx).1; rw [cS] at this; cases this
    have hx : r ≠ R_EXECHI := by
      intro e; subst e; exact absurd cS (by decide)
    rw [emuReadFault_s r rc lane cS, timReadFault_s t w r rc lane cS, ite_bounds_ne]
    simp [cS, cV, hsp, hx]
  by_cases cV : isVReg r = true
  · have hsp : (isSpecial7 r || r == R_EXECHI) = false := by
      cases hx : (isSpecial7 r || r == R_EXECHI)
      · rfl
      · have := (special_not_s r hx).2; rw [cV] at this; cases this
    have hx : r ≠ R_EXECHI := by
      intro e; subst e; exact absurd cV (by decide)
    rw [emuReadFault_v r rc lane cV, timReadFault_v t w r rc lane cV, ite_bounds_ne]
    simp [cS, cV, hsp, hx]
  have cS' : isSReg r = false := by simpa using cS
  have cV' : isVReg r = false := by simpa using cV
  unfold emuReadFault timReadFault
  simp only [cS', cV', Bool.false_eq_true, if_false]
  by_cases c0 : numBytes r rc > 64
  · by_cases hsp : (isSpecial7 r || r == R_EXECHI) = true
    · have : ¬ (numBytes r rc ≤ 64) := by omega
      simp [c0, hsp, this]
    · have hsp' : (isSpecial7 r || r == R_EXECHI) = false := by simpa using hsp
      simp [c0, hsp']
  · have c0' : numBytes r rc ≤ 64 := by omega
    have c0'' : ¬ 64 < numBytes r rc := by omega
    by_cases h7 : isSpecial7 r = true
    · have hx : r ≠ R_EXECHI := by
        intro e; subst e; exact absurd h7 (by decide)
      simp [c0, c0'', h7, hx]
    · have h7' : isSpecial7 r = false := by simpa using h7
      by_cases hx : r = R_EXECHI
      · subst hx
        by_cases hrc : rc ≤ 1
        · have : ¬ 2 ≤ rc := by omega
          simp [c0, c0'', h7', hrc, this]
        · have : 2 ≤ rc := by omega
          simp [c0, c0', c0'', h7', hrc, this]
      · simp [c0, c0'', h7', hx]

/-- `timReadFault` depends on the compute unit only through the sizes of the two files and the
    wavefront's offsets -/
def timReadFaultN (ssz vsz soff voff r rc lane : Nat) : Option Fault :=
  if isSpecial7 r || r == R_EXECHI then none
  else if isSReg r then (if regIndex r * 4 + soff + 4 * cnt rc ≤ ssz then none else some .bounds)
  else if isVReg r then (if regIndex r * 4 + lane * 1024 + voff + 4 * cnt rc ≤ vsz then none else some .bounds)
  else some .unsupported

theorem timReadFault_eq (t : TimingRF) (w : TWf) (r rc lane : Nat) :
    timReadFault t w r rc lane = timReadFaultN t.sfile.size (t.vfileOf w).size w.soff w.voff r rc lane := rfl

/-- emulator `ReadOperand`, SGPR operand: `readFromRegFile` reads one or two registers whatever the count -/
abbrev emuSOutR (r rc : Nat) : Prop := 102 < regIndex r + min (cnt rc) 2
abbrev emuVOutR (r rc lane : Nat) : Prop := 16384 < lane * 256 + regIndex r + min (cnt rc) 2

theorem span_eq (rc : Nat) : (if rc ≤ 1 then 4 else 8) = 4 * min (cnt rc) 2 := by
  unfold cnt; split <;> split <;> omega

/-- **`ReadOperand`: the complete list of disagreements.** The eight special registers never fault in
    either store; SGPR/VGPR ranges disagree when exactly one bounds test trips (the emulator looks
    at the first two registers only, timing at the whole range); an unsupported register with a
    count that makes it longer than 64 bytes panics differently. -/
theorem read_operand_fault_disagree (t : TimingRF) (w : TWf) (r rc lane : Nat) :
    emuReadOperandFault r rc lane ≠ timReadFault t w r rc lane ↔
      (isSReg r = true ∧ ¬ (emuSOutR r rc ↔ timSOut t w r rc)) ∨
      (isVReg r = true ∧ ¬ (emuVOutR r rc lane ↔ timVOut t w r rc lane)) ∨
      (isSReg r = false ∧ isVReg r = false ∧ (isSpecial7 r || r == R_EXECHI) = false ∧ 64 < numBytes r rc) := by
  by_cases cS : isSReg r = true
  · have cV := sv_excl r cS
    have hsp : (isSpecial7 r || r == R_EXECHI) = false := by
      cases hx : (isSpecial7 r || r == R_EXECHI)
      · rfl
      · have := (special_not_s r hx).1; rw [cS] at this; cases this
    rw [timReadFault_s t w r rc lane cS]
    have : emuReadOperandFault r rc lane = if emuSOutR r rc then some .bounds else none := by
      unfold emuReadOperandFault
      simp only [cV, cS, Bool.false_eq_true, if_false, if_true, span_eq]
      by_cases b : 102 < regIndex r + min (cnt rc) 2
      · have : ¬ regIndex r * 4 + 4 * min (cnt rc) 2 ≤ 408 := by omega
        simp [b, this]
      · have : regIndex r * 4 + 4 * min (cnt rc) 2 ≤ 408 := by omega
        simp [b, this]
    rw [this, ite_bounds_ne]
    simp [cS, cV, hsp]
  by_cases cV : isVReg r = true
  · have hsp : (isSpecial7 r || r == R_EXECHI) = false := by
      cases hx : (isSpecial7 r || r == R_EXECHI)
      · rfl
      · have := (special_not_s r hx).2; rw [cV] at this; cases this
    rw [timReadFault_v t w r rc lane cV]
    have : emuReadOperandFault r rc lane = if emuVOutR r rc lane then some .bounds else none := by
      unfold emuReadOperandFault
      simp only [cV, if_true, span_eq]
      by_cases b : 16384 < lane * 256 + regIndex r + min (cnt rc) 2
      · have : ¬ lane * 1024 + regIndex r * 4 + 4 * min (cnt rc) 2 ≤ 65536 := by omega
        simp [b, this]
      · have : lane * 1024 + regIndex r * 4 + 4 * min (cnt rc) 2 ≤ 65536 := by omega
        simp [b, this]
    rw [this, ite_bounds_ne]
    simp [cS, cV, hsp]
  have cS' : isSReg r = false := by simpa using cS
  have cV' : isVReg r = false := by simpa using cV
  by_cases hsp : (isSpecial7 r || r == R_EXECHI) = true
  · unfold emuReadOperandFault timReadFault
    simp [cS', cV', hsp]
  · have hsp' : (isSpecial7 r || r == R_EXECHI) = false := by simpa using hsp
    have h7 : isSpecial7 r = false := by
      cases h : isSpecial7 r
      · rfl
      · simp [h] at hsp'
    have hx : (r == R_EXECHI) = false := by
      cases h : (r == R_EXECHI)
      · rfl
      · simp [h] at hsp'
    unfold emuReadOperandFault timReadFault emuReadFault
    simp only [cS', cV', hsp', h7, hx, Bool.false_eq_true, if_false]
    by_cases c0 : numBytes r rc > 64
    · simp [c0]
    · have : ¬ 64 < numBytes r rc := c0
      simp [c0, this]

/-- **`WriteOperand`: the complete list of disagreements**: `exec_hi` with count 2, and SGPR/VGPR
    operands of one or two registers for which exactly one bounds test trips. -/
theorem write_operand_fault_disagree (t : TimingRF) (w : TWf) (r rc lane : Nat) :
    emuWriteOperandFault r rc lane ≠ timWriteOperandFault t w r rc lane ↔
      (r = R_EXECHI ∧ rc = 2) ∨
      (isSReg r = true ∧ cnt rc ≤ 2 ∧ ¬ (102 < regIndex r + cnt rc ↔ timSOut t w r rc)) ∨
      (isVReg r = true ∧ cnt rc ≤ 2 ∧ ¬ (16384 < lane * 256 + regIndex r + cnt rc ↔ timVOut t w r rc lane)) := by
  by_cases cS : isSReg r = true
  · have cV := sv_excl r cS
    have hn := numBytes_of4 r rc (byteSize_of_s r cS)
    have hx : r ≠ R_EXECHI := by intro e; subst e; exact absurd cS (by decide)
    have hsp : (isSpecial7 r || r == R_EXECHI) = false := by
      cases hx : (isSpecial7 r || r == R_EXECHI)
      · rfl
      · have := (special_not_s r hx).1; rw [cS] at this; cases this
    have hne : ∀ c, (isSpecial7 c || c == R_EXECHI) = true → (r == c) = false := by
      intro c hc
      cases h : (r == c)
      · rfl
      · have := beq_iff_eq.mp h; subst this; rw [hsp] at hc; cases hc
    unfold emuWriteOperandFault timWriteOperandFault emuWriteFault timWriteFault
    simp only [hn, cS, cV, if_true, hne R_SCC (by decide), hne R_VCC (by decide), hne R_VCCLO (by decide),
      hne R_VCCHI (by decide), hne R_EXEC (by decide), hne R_EXECLO (by decide), hne R_EXECHI (by decide),
      hne R_M0 (by decide), Bool.or_self, Bool.false_eq_true, if_false]
    by_cases c8 : 4 * cnt rc > 8
    · have : ¬ cnt rc ≤ 2 := by omega
      simp [c8, this, hx]
    · have c2 : cnt rc ≤ 2 := by omega
      simp only [c8, if_false, Nat.lt_irrefl]
      by_cases a : 102 < regIndex r + cnt rc <;> by_cases b : t.sfile.size < w.soff + 4 * (regIndex r + cnt rc)
      all_goals
        (have e1 : (regIndex r * 4 + 4 * cnt rc ≤ 408) = ¬ (102 < regIndex r + cnt rc) := by
           apply propext; constructor <;> intro <;> omega
         have e2 : (regIndex r * 4 + w.soff + 4 * cnt rc ≤ t.sfile.size) = ¬ (t.sfile.size < w.soff + 4 * (regIndex r + cnt rc)) := by
           apply propext; constructor <;> intro <;> omega
         simp [e1, e2, a, b, c2, hx])
  by_cases cV : isVReg r = true
  · have cS' : isSReg r = false := by simpa using cS
    have hn := numBytes_of4 r rc (byteSize_of_v r cV)
    have hx : r ≠ R_EXECHI := by intro e; subst e; exact absurd cV (by decide)
    have hsp : (isSpecial7 r || r == R_EXECHI) = false := by
      cases hx : (isSpecial7 r || r == R_EXECHI)
      · rfl
      · have := (special_not_s r hx).2; rw [cV] at this; cases this
    have hne : ∀ c, (isSpecial7 c || c == R_EXECHI) = true → (r == c) = false := by
      intro c hc
      cases h : (r == c)
      · rfl
      · have := beq_iff_eq.mp h; subst this; rw [hsp] at hc; cases hc
    unfold emuWriteOperandFault timWriteOperandFault emuWriteFault timWriteFault
    simp only [hn, cS', cV, if_true, hne R_SCC (by decide), hne R_VCC (by decide), hne R_VCCLO (by decide),
      hne R_VCCHI (by decide), hne R_EXEC (by decide), hne R_EXECLO (by decide), hne R_EXECHI (by decide),
      hne R_M0 (by decide), Bool.or_self, Bool.false_eq_true, if_false]
    by_cases c8 : 4 * cnt rc > 8
    · have : ¬ cnt rc ≤ 2 := by omega
      simp [c8, this, hx]
    · have c2 : cnt rc ≤ 2 := by omega
      simp only [c8, if_false, Nat.lt_irrefl]
      by_cases a : 16384 < lane * 256 + regIndex r + cnt rc <;>
        by_cases b : (t.vfileOf w).size < w.voff + lane * 1024 + 4 * (regIndex r + cnt rc)
      all_goals
        (have e1 : (lane * 1024 + regIndex r * 4 + 4 * cnt rc ≤ 65536) = ¬ (16384 < lane * 256 + regIndex r + cnt rc) := by
           apply propext; constructor <;> intro <;> omega
         have e2 : (regIndex r * 4 + lane * 1024 + w.voff + 4 * cnt rc ≤ (t.vfileOf w).size) =
             ¬ ((t.vfileOf w).size < w.voff + lane * 1024 + 4 * (regIndex r + cnt rc)) := by
           apply propext; constructor <;> intro <;> omega
         simp [e1, e2, a, b, c2, hx])
  have cS' : isSReg r = false := by simpa using cS
  have cV' : isVReg r = false := by simpa using cV
  have hrc : rc ≤ 1 ∨ rc = 2 ∨ 3 ≤ rc := by omega
  unfold emuWriteOperandFault timWriteOperandFault emuWriteFault timWriteFault
  simp only [cS', cV', Bool.false_eq_true, if_false]
  by_cases a1 : r = R_SCC
  · subst a1
    rcases hrc with h | h | h
    · have h2 : ¬ 2 ≤ rc := by omega
      have hne : rc ≠ 2 := by omega
      simp [hne, numBytes, bs_scc, R_SCC, R_VCC, R_VCCLO, R_VCCHI, R_EXEC, R_EXECLO, R_EXECHI, R_M0, h, h2]
    · subst h; simp [numBytes, bs_scc, R_SCC, R_VCC, R_VCCLO, R_VCCHI, R_EXEC, R_EXECLO, R_EXECHI, R_M0]
    · have h2 : 2 ≤ rc := by omega
      have h1 : ¬ rc ≤ 1 := by omega
      have e8 : 8 < 8 * rc := by omega
      have e4 : 8 < 4 * rc := by omega
      have hne : rc ≠ 2 := by omega
      simp [numBytes, bs_scc, R_SCC, R_VCC, R_VCCLO, R_VCCHI, R_EXEC, R_EXECLO, R_EXECHI, R_M0, h2, h1, e8, e4, hne]
  by_cases a2 : r = R_VCC
  · subst a2
    rcases hrc with h | h | h
    · have h2 : ¬ 2 ≤ rc := by omega
      have hne : rc ≠ 2 := by omega
      simp [hne, numBytes, bs_vcc, R_SCC, R_VCC, R_VCCLO, R_VCCHI, R_EXEC, R_EXECLO, R_EXECHI, R_M0, h, h2]
    · subst h; simp [numBytes, bs_vcc, R_SCC, R_VCC, R_VCCLO, R_VCCHI, R_EXEC, R_EXECLO, R_EXECHI, R_M0]
    · have h2 : 2 ≤ rc := by omega
      have h1 : ¬ rc ≤ 1 := by omega
      have e8 : 8 < 8 * rc := by omega
      have e4 : 8 < 4 * rc := by omega
      have hne : rc ≠ 2 := by omega
      simp [numBytes, bs_vcc, R_SCC, R_VCC, R_VCCLO, R_VCCHI, R_EXEC, R_EXECLO, R_EXECHI, R_M0, h2, h1, e8, e4, hne]
  by_cases a3 : r = R_VCCLO
  · subst a3
    rcases hrc with h | h | h
    · have h2 : ¬ 2 ≤ rc := by omega
      have hne : rc ≠ 2 := by omega
      simp [hne, numBytes, bs_vcclo, R_SCC, R_VCC, R_VCCLO, R_VCCHI, R_EXEC, R_EXECLO, R_EXECHI, R_M0, h, h2]
    · subst h; simp [numBytes, bs_vcclo, R_SCC, R_VCC, R_VCCLO, R_VCCHI, R_EXEC, R_EXECLO, R_EXECHI, R_M0]
    · have h2 : 2 ≤ rc := by omega
      have h1 : ¬ rc ≤ 1 := by omega
      have e8 : 8 < 8 * rc := by omega
      have e4 : 8 < 4 * rc := by omega
      have hne : rc ≠ 2 := by omega
      simp [numBytes, bs_vcclo, R_SCC, R_VCC, R_VCCLO, R_VCCHI, R_EXEC, R_EXECLO, R_EXECHI, R_M0, h2, h1, e8, e4, hne]
  by_cases a4 : r = R_VCCHI
  · subst a4
    rcases hrc with h | h | h
    · have h2 : ¬ 2 ≤ rc := by omega
      have hne : rc ≠ 2 := by omega
      simp [hne, numBytes, bs_vcchi, R_SCC, R_VCC, R_VCCLO, R_VCCHI, R_EXEC, R_EXECLO, R_EXECHI, R_M0, h, h2]
    · subst h; simp [numBytes, bs_vcchi, R_SCC, R_VCC, R_VCCLO, R_VCCHI, R_EXEC, R_EXECLO, R_EXECHI, R_M0]
    · have h2 : 2 ≤ rc := by omega
      have h1 : ¬ rc ≤ 1 := by omega
      have e8 : 8 < 8 * rc := by omega
      have e4 : 8 < 4 * rc := by omega
      have hne : rc ≠ 2 := by omega
      simp [numBytes, bs_vcchi, R_SCC, R_VCC, R_VCCLO, R_VCCHI, R_EXEC, R_EXECLO, R_EXECHI, R_M0, h2, h1, e8, e4, hne]
  by_cases a5 : r = R_EXEC
  · subst a5
    rcases hrc with h | h | h
    · have h2 : ¬ 2 ≤ rc := by omega
      have hne : rc ≠ 2 := by omega
      simp [hne, numBytes, bs_exec, R_SCC, R_VCC, R_VCCLO, R_VCCHI, R_EXEC, R_EXECLO, R_EXECHI, R_M0, h, h2]
    · subst h; simp [numBytes, bs_exec, R_SCC, R_VCC, R_VCCLO, R_VCCHI, R_EXEC, R_EXECLO, R_EXECHI, R_M0]
    · have h2 : 2 ≤ rc := by omega
      have h1 : ¬ rc ≤ 1 := by omega
      have e8 : 8 < 8 * rc := by omega
      have e4 : 8 < 4 * rc := by omega
      have hne : rc ≠ 2 := by omega
      simp [numBytes, bs_exec, R_SCC, R_VCC, R_VCCLO, R_VCCHI, R_EXEC, R_EXECLO, R_EXECHI, R_M0, h2, h1, e8, e4, hne]
  by_cases a6 : r = R_EXECLO
  · subst a6
    rcases hrc with h | h | h
    · have h2 : ¬ 2 ≤ rc := by omega
      have hne : rc ≠ 2 := by omega
      simp [hne, numBytes, bs_execlo, R_SCC, R_VCC, R_VCCLO, R_VCCHI, R_EXEC, R_EXECLO, R_EXECHI, R_M0, h, h2]
    · subst h; simp [numBytes, bs_execlo, R_SCC, R_VCC, R_VCCLO, R_VCCHI, R_EXEC, R_EXECLO, R_EXECHI, R_M0]
    · have h2 : 2 ≤ rc := by omega
      have h1 : ¬ rc ≤ 1 := by omega
      have e8 : 8 < 8 * rc := by omega
      have e4 : 8 < 4 * rc := by omega
      have hne : rc ≠ 2 := by omega
      simp [numBytes, bs_execlo, R_SCC, R_VCC, R_VCCLO, R_VCCHI, R_EXEC, R_EXECLO, R_EXECHI, R_M0, h2, h1, e8, e4, hne]
  by_cases a7 : r = R_EXECHI
  · subst a7
    rcases hrc with h | h | h
    · have h2 : ¬ 2 ≤ rc := by omega
      have hne : rc ≠ 2 := by omega
      simp [hne, numBytes, bs_exechi, R_SCC, R_VCC, R_VCCLO, R_VCCHI, R_EXEC, R_EXECLO, R_EXECHI, R_M0, h, h2]
    · subst h; simp [numBytes, bs_exechi, R_SCC, R_VCC, R_VCCLO, R_VCCHI, R_EXEC, R_EXECLO, R_EXECHI, R_M0]
    · have h2 : 2 ≤ rc := by omega
      have h1 : ¬ rc ≤ 1 := by omega
      have e8 : 8 < 8 * rc := by omega
      have e4 : 8 < 4 * rc := by omega
      have hne : rc ≠ 2 := by omega
      simp [numBytes, bs_exechi, R_SCC, R_VCC, R_VCCLO, R_VCCHI, R_EXEC, R_EXECLO, R_EXECHI, R_M0, h2, h1, e8, e4, hne]
  by_cases a8 : r = R_M0
  · subst a8
    rcases hrc with h | h | h
    · have h2 : ¬ 2 ≤ rc := by omega
      have hne : rc ≠ 2 := by omega
      simp [hne, numBytes, bs_m0, R_SCC, R_VCC, R_VCCLO, R_VCCHI, R_EXEC, R_EXECLO, R_EXECHI, R_M0, h, h2]
    · subst h; simp [numBytes, bs_m0, R_SCC, R_VCC, R_VCCLO, R_VCCHI, R_EXEC, R_EXECLO, R_EXECHI, R_M0]
    · have h2 : 2 ≤ rc := by omega
      have h1 : ¬ rc ≤ 1 := by omega
      have e8 : 8 < 8 * rc := by omega
      have e4 : 8 < 4 * rc := by omega
      have hne : rc ≠ 2 := by omega
      simp [numBytes, bs_m0, R_SCC, R_VCC, R_VCCLO, R_VCCHI, R_EXEC, R_EXECLO, R_EXECHI, R_M0, h2, h1, e8, e4, hne]
  have hx : ¬ (r = R_EXECHI ∧ rc = 2) := fun h => a7 h.1
  by_cases c8 : numBytes r rc > 8 <;> simp [c8, a1, a2, a3, a4, a5, a6, a7, a8, cS', cV']

end C07
