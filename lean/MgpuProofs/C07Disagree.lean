import MgpuProofs.C07Fault
set_option linter.unusedVariables false
set_option linter.unusedSimpArgs false
/-! # C07 helper lemmas: on exactly which register operands the two stores disagree about faulting -/
namespace C07
open Gen

/-- emulator, SGPR operand: more than 16 registers (64-byte scratch buffer) or a range past `s101` -/
abbrev emuSOut (r rc : Nat) : Prop := 16 < cnt rc ∨ 102 < regIndex r + cnt rc
/-- timing, SGPR operand: the range ends past the end of the CU's scalar file (the wavefront's own
    allocation is NOT checked) -/
abbrev timSOut (t : TimingRF) (w : TWf) (r rc : Nat) : Prop := t.sfile.size < w.soff + 4 * (regIndex r + cnt rc)
/-- emulator, VGPR operand: more than 16 registers or past the end of the 64×256-register file -/
abbrev emuVOut (r rc lane : Nat) : Prop := 16 < cnt rc ∨ 16384 < lane * 256 + regIndex r + cnt rc
/-- timing, VGPR operand: past the end of the SIMD's vector file -/
abbrev timVOut (t : TimingRF) (w : TWf) (r rc lane : Nat) : Prop :=
  (t.vfileOf w).size < w.voff + lane * 1024 + 4 * (regIndex r + cnt rc)

theorem emuReadFault_s (r rc lane : Nat) (h : isSReg r = true) :
    emuReadFault r rc lane = if emuSOut r rc then some .bounds else none := by
  have hn := numBytes_of4 r rc (byteSize_of_s r h)
  unfold emuReadFault
  simp only [hn, h, if_true]
  by_cases a : 16 < cnt rc
  · have : 4 * cnt rc > 64 := by omega
    simp [a, this]
  · have : ¬ 4 * cnt rc > 64 := by omega
    simp only [this, if_false, a, false_or]
    by_cases b : 102 < regIndex r + cnt rc
    · have : ¬ regIndex r * 4 + 4 * cnt rc ≤ 408 := by omega
      simp [b, this]
    · have : regIndex r * 4 + 4 * cnt rc ≤ 408 := by omega
      simp [b, this]; omega

theorem emuReadFault_v (r rc lane : Nat) (h : isVReg r = true) :
    emuReadFault r rc lane = if emuVOut r rc lane then some .bounds else none := by
  have hn := numBytes_of4 r rc (byteSize_of_v r h)
  have hS : isSReg r = false := by
    cases hs : isSReg r
    · rfl
    · have := sv_excl r hs; rw [h] at this; cases this
  unfold emuReadFault
  simp only [hn, h, hS, if_true, Bool.false_eq_true, if_false]
  by_cases a : 16 < cnt rc
  · have : 4 * cnt rc > 64 := by omega
    simp [a, this]
  · have : ¬ 4 * cnt rc > 64 := by omega
    simp only [this, if_false, a, false_or]
    by_cases b : 16384 < lane * 256 + regIndex r + cnt rc
    · have : ¬ lane * 1024 + regIndex r * 4 + 4 * cnt rc ≤ 65536 := by omega
      simp [b, this]
    · have : lane * 1024 + regIndex r * 4 + 4 * cnt rc ≤ 65536 := by omega
      simp [b, this]; omega

theorem timReadFault_s (t : TimingRF) (w : TWf) (r rc lane : Nat) (h : isSReg r = true) :
    timReadFault t w r rc lane = if timSOut t w r rc then some .bounds else none := by
  have hsp : (isSpecial7 r || r == R_EXECHI) = false := by
    cases hx : (isSpecial7 r || r == R_EXECHI)
    · rfl
    · have := (special_not_s r hx).1; rw [h] at this; cases this
  unfold timReadFault
  simp only [hsp, h, if_true, Bool.false_eq_true, if_false]
  by_cases b : t.sfile.size < w.soff + 4 * (regIndex r + cnt rc)
  · have : ¬ regIndex r * 4 + w.soff + 4 * cnt rc ≤ t.sfile.size := by omega
    simp [b, this]
  · have : regIndex r * 4 + w.soff + 4 * cnt rc ≤ t.sfile.size := by omega
    simp [b, this]

theorem timReadFault_v (t : TimingRF) (w : TWf) (r rc lane : Nat) (h : isVReg r = true) :
    timReadFault t w r rc lane = if timVOut t w r rc lane then some .bounds else none := by
  have hS : isSReg r = false := by
    cases hs : isSReg r
    · rfl
    · have := sv_excl r hs; rw [h] at this; cases this
  have hsp : (isSpecial7 r || r == R_EXECHI) = false := by
    cases hx : (isSpecial7 r || r == R_EXECHI)
    · rfl
    · have := (special_not_s r hx).2; rw [h] at this; cases this
  unfold timReadFault
  simp only [hsp, h, hS, if_true, Bool.false_eq_true, if_false]
  by_cases b : (t.vfileOf w).size < w.voff + lane * 1024 + 4 * (regIndex r + cnt rc)
  · have : ¬ regIndex r * 4 + lane * 1024 + w.voff + 4 * cnt rc ≤ (t.vfileOf w).size := by omega
    simp [b, this]
  · have : regIndex r * 4 + lane * 1024 + w.voff + 4 * cnt rc ≤ (t.vfileOf w).size := by omega
    simp [b, this]

theorem ite_bounds_ne (A B : Prop) [Decidable A] [Decidable B] :
    ((if A then some Fault.bounds else none) ≠ (if B then some Fault.bounds else none)) ↔ ¬ (A ↔ B) := by
  by_cases a : A <;> by_cases b : B <;> simp [a, b]

/-- **`ReadOperandBytes`: the complete list of operands on which exactly one store panics, or the two
    panic differently.** (1) a supported special register with a count that makes the emulator's
    operand longer than its 64-byte buffer; (2) `exec_hi` as a pair; (3)/(4) SGPR / VGPR ranges for
    which exactly one of the two bounds tests trips (the emulator tests the architectural limits
    `s101`, 16 registers, 64×256 VGPRs; timing tests only the end of the CU's physical file);
    (5) an unsupported register with a long count (emulator: index out of range, timing: unsupported). -/
theorem read_bytes_fault_disagree (t : TimingRF) (w : TWf) (r rc lane : Nat) :
    emuReadFault r rc lane ≠ timReadFault t w r rc lane ↔
      ((isSpecial7 r || r == R_EXECHI) = true ∧ 64 < numBytes r rc) ∨
      (r = R_EXECHI ∧ 2 ≤ rc ∧ numBytes r rc ≤ 64) ∨
      (isSReg r = true ∧ ¬ (emuSOut r rc ↔ timSOut t w r rc)) ∨
      (isVReg r = true ∧ ¬ (emuVOut r rc lane ↔ timVOut t w r rc lane)) ∨
      (isSReg r = false ∧ isVReg r = false ∧ (isSpecial7 r || r == R_EXECHI) = false ∧ 64 < numBytes r rc) := by
  by_cases cS : isSReg r = true
  · have cV := sv_excl r cS
    have hsp : (isSpecial7 r || r == R_EXECHI) = false := by
      cases hx : (isSpecial7 r || r == R_EXECHI)
      · rfl
      · have := (special_not_s r hx).1; rw [cS] at this; cases this
    have hx : r ≠ R_EXECHI := by
      intro e; subst e; exact absurd cS (by decide)
    rw [emuReadFault_s r rc lane cS, timReadFault_s t w r rc lane cS, ite_bounds_ne]
    simp [cS, cV, hsp, hx]
  by_cases cV : isVReg r = true
  · have hsp : (isSpecial7 r || r == R_EXECHI) = false := by
      cases hx : (isSpecial7 r || r == R_EXECHI)
      · rfl
      · have := (special_not_s r hx).2; rw [cV] at this; cases this
    have hx : r ≠ R_EXECHI := by
      intro e; subst e; exact absurd cV (by decide)
    rw [emuReadFault_v r rc lane cV, timReadFault_v t w r rc lane cV, ite_bounds_ne]
    simp [cS, cV, hsp, hx]
  have cS' : isSReg r = false := by simpa using cS
  have cV' : isVReg r = false := by simpa using cV
  unfold emuReadFault timReadFault
  simp only [cS', cV', Bool.false_eq_true, if_false]
  by_cases c0 : numBytes r rc > 64
  · by_cases hsp : (isSpecial7 r || r == R_EXECHI) = true
    · have : ¬ (numBytes r rc ≤ 64) := by omega
      simp [c0, hsp, this]
    · have hsp' : (isSpecial7 r || r == R_EXECHI) = false := by simpa using hsp
      simp [c0, hsp']
  · have c0' : numBytes r rc ≤ 64 := by omega
    have c0'' : ¬ 64 < numBytes r rc := by omega
    by_cases h7 : isSpecial7 r = true
    · have hx : r ≠ R_EXECHI := by
        intro e; subst e; exact absurd h7 (by decide)
      simp [c0, c0'', h7, hx]
    · have h7' : isSpecial7 r = false := by simpa using h7
      by_cases hx : r = R_EXECHI
      · subst hx
        by_cases hrc : rc ≤ 1
        · have : ¬ 2 ≤ rc := by omega
          simp [c0, c0'', h7', hrc, this]
        · have : 2 ≤ rc := by omega
          simp [c0, c0', c0'', h7', hrc, this]
      · simp [c0, c0'', h7', hx]

/-- `timReadFault` depends on the compute unit only through the sizes of the two files and the
    wavefront's offsets -/
def timReadFaultN (ssz vsz soff voff r rc lane : Nat) : Option Fault :=
  if isSpecial7 r || r == R_EXECHI then none
  else if isSReg r then (if regIndex r * 4 + soff + 4 * cnt rc ≤ ssz then none else some .bounds)
  else if isVReg r then (if regIndex r * 4 + lane * 1024 + voff + 4 * cnt rc ≤ vsz then none else some .bounds)
  else some .unsupported

theorem timReadFault_eq (t : TimingRF) (w : TWf) (r rc lane : Nat) :
    timReadFault t w r rc lane = timReadFaultN t.sfile.size (t.vfileOf w).size w.soff w.voff r rc lane := rfl

end C07
