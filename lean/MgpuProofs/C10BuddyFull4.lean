import MgpuProofs.C10BuddyFull3
/-!
Buddy allocator, histories with frees — part 4: `splitLoop`, the new tracker, `allocMultiPos` preserve `FInv`.
-/
namespace C10.Buddy

theorem bud_even (k : Nat) : bud (2 * k) = 2 * k + 1 := by
  unfold bud
  rw [if_pos (by omega)]

theorem splitLoop_succ {blk cnt l : Nat} {s s' : State} (h : splitLoop blk (cnt + 1) l s = .ok s') :
    splitLoop blk cnt (l + 1)
      (push { s with split := toggle s.split (indexOfBlock s.base s.size blk l),
                     merge := toggle s.merge (indexOfBlock s.base s.size blk l) }
        (l + 1) (buddyOf s.base s.size blk (l + 1))) = .ok s' := by
  simp only [splitLoop, flipSplit, flipMerge] at h
  by_cases hc : indexOfBlock s.base s.size blk l < s.nbits
  · simp only [hc, if_true] at h
    exact h
  · simp only [hc, if_false] at h
    cases h

theorem finv_splitLoop {F : Nat} : ∀ (cnt l k : Nat) (s s' : State), FInv F s → l + cnt ≤ F → k < 2 ^ l →
    UsedN F s l k → NoTrk F s l k → splitLoop (addr s.base F l k) cnt l s = .ok s' →
    FInv F s' ∧ s'.base = s.base ∧ s'.track = s.track ∧ s'.trk = s.trk ∧
      UsedN F s' (l + cnt) (k * 2 ^ cnt) ∧ NoTrk F s' (l + cnt) (k * 2 ^ cnt) := by
  intro cnt
  induction cnt with
  | zero =>
    intro l k s s' h _ _ hu hnt hs
    simp only [splitLoop] at hs
    injection hs with hs
    subst hs
    simpa using ⟨h, hu, hnt⟩
  | succ cnt ih =>
    intro l k s s' h hl hk hu hnt hs
    have hs := splitLoop_succ hs
    have hsz := h.hsize
    have e1 : addr s.base F l k = addr s.base F (l + 1) (2 * k) := (addr_child (by omega)).symm
    have ei : indexOfBlock s.base s.size (addr s.base F l k) l = ix l k := by
      rw [hsz]; exact index_self (by omega)
    have eb : buddyOf s.base s.size (addr s.base F l k) (l + 1) = addr s.base F (l + 1) (2 * k + 1) := by
      rw [hsz, e1, buddy_addr (by omega), bud_even]
    rw [ei, eb, e1] at hs
    obtain ⟨h1, u1, n1⟩ := finv_split
      (s' := push { s with split := toggle s.split (ix l k), merge := toggle s.merge (ix l k) } (l + 1)
        (addr s.base F (l + 1) (2 * k + 1)))
      h (by omega) hk hu hnt rfl rfl rfl rfl rfl rfl rfl
    have pl := pow_succ2 l
    obtain ⟨h2, b2, t2, k2, u2, n2⟩ := ih (l + 1) (2 * k) _ s' h1 (by omega) (by omega) u1 n1 hs
    have e2 : l + 1 + cnt = l + (cnt + 1) := by omega
    have e3 : 2 * k * 2 ^ cnt = k * 2 ^ (cnt + 1) := by
      rw [Nat.pow_succ, Nat.mul_comm 2 k, Nat.mul_assoc, Nat.mul_comm 2]
    rw [e2, e3] at u2 n2
    exact ⟨h2, b2, t2, k2, u2, n2⟩

/-! ## the new tracker -/

theorem pagesFrom_length : ∀ (n blk : Nat), (pagesFrom blk n).length = n := by
  intro n
  induction n with
  | zero => intro blk; rfl
  | succ n ih => intro blk; simp [pagesFrom, ih]

theorem foldl_setTrack (id : Nat) : ∀ (ps : List Nat) (t : List (Nat × Nat)), ps.Nodup →
    (∀ p ∈ ps, ∀ e ∈ t, e.1 ≠ p) →
    ps.foldl (fun t p => setTrack t p id) t = (ps.reverse.map (fun p => (p, id))) ++ t := by
  intro ps
  induction ps with
  | nil => intro t _ _; rfl
  | cons p ps ih =>
    intro t hn hp
    rw [List.nodup_cons] at hn
    have e : setTrack t p id = (p, id) :: t := by
      unfold setTrack
      congr 1
      rw [List.filter_eq_self]
      intro e he
      simpa using hp p List.mem_cons_self e he
    rw [List.foldl_cons, e, ih _ hn.2]
    · simp [List.reverse_cons, List.map_append, List.append_assoc]
    · intro q hq e' he'
      rcases List.mem_cons.mp he' with rfl | he'
      · intro e2
        have e3 : p = q := e2
        subst e3
        exact hn.1 hq
      · exact hp q (List.mem_cons_of_mem _ hq) e' he'

/-- a used block without tracked pages gets a fresh tracker and its first `n` pages -/
theorem finv_track {F : Nat} {s : State} (h : FInv F s) {l k n : Nat} (hl : l ≤ F) (hk : k < 2 ^ l)
    (hu : UsedN F s l k) (hnt : NoTrk F s l k) (hn : n * 4096 ≤ szl (4096 * 2 ^ F) l) :
    FInv F { s with trk := s.trk ++ [(addr s.base F l k, n)],
                    track := (pagesFrom (addr s.base F l k) n).foldl (fun t p => setTrack t p s.trk.length) s.track } ∧
    ∀ q, (q ∈ pagesFrom (addr s.base F l k) n ∨ ∃ id, (q, id) ∈ s.track) →
      ∃ id, (q, id) ∈ (pagesFrom (addr s.base F l k) n).foldl (fun t p => setTrack t p s.trk.length) s.track := by
  have hpg : ∀ p ∈ pagesFrom (addr s.base F l k) n,
      addr s.base F l k ≤ p ∧ p < addr s.base F l k + szl (4096 * 2 ^ F) l := by
    intro p hp
    obtain ⟨t, ht, rfl⟩ := (pagesFrom_mem _ _ _).mp hp
    exact ⟨by omega, by omega⟩
  have hfold := foldl_setTrack s.trk.length (pagesFrom (addr s.base F l k) n) s.track (pagesFrom_nodup _ _) (by
    intro p hp e he e1
    obtain ⟨q, id⟩ := e
    simp only at e1
    subst e1
    exact hnt q id he (hpg q hp))
  rw [hfold]
  have hold : ∀ p id, (p, id) ∈ s.track → id < s.trk.length := by
    intro p id hp
    obtain ⟨_, _, _, _, _, e, _⟩ := h.D p id hp
    rcases Nat.lt_or_ge id s.trk.length with hh | hh
    · exact hh
    · rw [List.getElem?_eq_none hh] at e
      cases e
  have hmem : ∀ p id, (p, id) ∈ (pagesFrom (addr s.base F l k) n).reverse.map (fun p => (p, s.trk.length)) ++ s.track ↔
      (p ∈ pagesFrom (addr s.base F l k) n ∧ id = s.trk.length) ∨ (p, id) ∈ s.track := by
    intro p id
    rw [List.mem_append, List.mem_map]
    constructor
    · rintro (⟨q, hq, e⟩ | hh)
      · injection e with e1 e2
        subst e1
        exact Or.inl ⟨List.mem_reverse.mp hq, e2.symm⟩
      · exact Or.inr hh
    · rintro (⟨hq, e⟩ | hh)
      · exact Or.inl ⟨p, List.mem_reverse.mpr hq, by rw [e]⟩
      · exact Or.inr hh
  have hget_old : ∀ id, id < s.trk.length → (s.trk ++ [(addr s.base F l k, n)])[id]? = s.trk[id]? := by
    intro id hid
    rw [List.getElem?_append, if_pos hid]
  have hget_new : (s.trk ++ [(addr s.base F l k, n)])[s.trk.length]? = some (addr s.base F l k, n) := by
    rw [List.getElem?_append, if_neg (Nat.lt_irrefl _)]
    simp
  have hp4 := szl_pos hl
  refine ⟨⟨h.hsize, h.hlen, h.fnode, h.fnodup, h.snodup, h.mnodup, h.tree, ?_, ?_, ?_⟩, ?_⟩
  · intro p id hp
    rcases (hmem p id).mp hp with ⟨hq, rfl⟩ | hh
    · exact ⟨l, k, n, hl, hk, hget_new, hu, (hpg p hq).1, (hpg p hq).2⟩
    · obtain ⟨l', k', num, hl', hk', e, hu', g1, g2⟩ := h.D p id hh
      exact ⟨l', k', num, hl', hk', by rw [← e]; exact hget_old id (hold p id hh), hu', g1, g2⟩
  · -- distinct tracked ids have distinct block addresses
    have hcross : ∀ p2 id2 n2, (p2, id2) ∈ s.track → s.trk[id2]? = some (addr s.base F l k, n2) → False := by
      intro p2 id2 n2 hp2 e2
      obtain ⟨l', k', num, hl', hk', e, hu', g1, g2⟩ := h.D p2 id2 hp2
      rw [e2] at e
      injection e with e
      injection e with e _
      have hp' := szl_pos hl'
      obtain ⟨q1, q2⟩ := leaf_overlap h.tree hl hk hl' hk' hu.1 hu.2.1 hu'.1 hu'.2.1 (Nat.le_refl _) (by omega)
        (by omega : addr s.base F l' k' ≤ addr s.base F l k) (by omega)
      subst q1; subst q2
      exact hnt p2 id2 hp2 ⟨g1, g2⟩
    intro p1 id1 p2 id2 a n1 n2 hp1 hp2 e1 e2
    rcases (hmem p1 id1).mp hp1 with ⟨hq1, rfl⟩ | hh1
    · rcases (hmem p2 id2).mp hp2 with ⟨hq2, rfl⟩ | hh2
      · rfl
      · exfalso
        rw [hget_new] at e1
        injection e1 with e1
        injection e1 with e1 _
        subst e1
        rw [hget_old id2 (hold p2 id2 hh2)] at e2
        exact hcross p2 id2 n2 hh2 e2
    · rcases (hmem p2 id2).mp hp2 with ⟨hq2, rfl⟩ | hh2
      · exfalso
        rw [hget_new] at e2
        injection e2 with e2
        injection e2 with e2 _
        subst e2
        rw [hget_old id1 (hold p1 id1 hh1)] at e1
        exact hcross p1 id1 n1 hh1 e1
      · rw [hget_old id1 (hold p1 id1 hh1)] at e1
        rw [hget_old id2 (hold p2 id2 hh2)] at e2
        exact h.Dinj p1 id1 p2 id2 a n1 n2 hh1 hh2 e1 e2
  · intro id ia num e
    rw [List.filter_append, List.length_append]
    rcases Nat.lt_or_ge id s.trk.length with hid | hid
    · rw [hget_old id hid] at e
      have := h.Dcnt id ia num e
      have z : (List.filter (fun e => e.2 == id)
          ((pagesFrom (addr s.base F l k) n).reverse.map (fun p => (p, s.trk.length)))) = [] := by
        rw [List.filter_eq_nil_iff]
        intro e' he'
        obtain ⟨q, _, rfl⟩ := List.mem_map.mp he'
        simp
        omega
      rw [z]
      simpa using this
    · have z : (List.filter (fun e => e.2 == id) s.track) = [] := by
        rw [List.filter_eq_nil_iff]
        intro e' he'
        obtain ⟨q, j⟩ := e'
        have := hold q j he'
        simp
        omega
      rw [z]
      have e3 : id = s.trk.length := by
        rcases Nat.lt_or_ge s.trk.length id with hh | hh
        · rw [List.getElem?_eq_none (by simp; omega)] at e
          cases e
        · omega
      subst e3
      rw [hget_new] at e
      injection e with e
      injection e with _ e
      subst e
      have := List.length_filter_le (fun e : Nat × Nat => e.2 == s.trk.length)
        ((pagesFrom (addr s.base F l k) n).reverse.map (fun p => (p, s.trk.length)))
      simp only [List.length_map, List.length_reverse, pagesFrom_length] at this
      simpa using this
  · intro q hq
    rcases hq with hq | ⟨id, hq⟩
    · exact ⟨s.trk.length, (hmem _ _).mpr (Or.inl ⟨hq, rfl⟩)⟩
    · exact ⟨id, (hmem _ _).mpr (Or.inr hq)⟩

/-! ## allocateMultiplePages -/

theorem finv_allocMulti {F : Nat} {s s' : State} {n : Nat} {pages : List Nat} (h : FInv F s)
    (ha : allocMultiPos s n = .ok (pages, s')) :
    FInv F s' ∧ s'.base = s.base ∧
      ∀ q, (q ∈ pages ∨ ∃ id, (q, id) ∈ s.track) → ∃ id, (q, id) ∈ s'.track := by
  have hlen := h.hlen
  have hsz := h.hsize
  unfold allocMultiPos at ha
  simp only at ha
  split at ha
  · cases ha
  · rename_i hord
    split at ha
    · cases ha
    · rename_i i hfind
      obtain ⟨hile, hne⟩ := findLevel_some hfind
      split at ha
      · cases ha
      · rename_i s1 h1
        split at ha
        · cases ha
        · rename_i s2 h2
          injection ha with ha
          injection ha with hp hs
          obtain ⟨blk, rest, hbr⟩ := List.exists_cons_of_ne_nil hne
          have hmem : blk ∈ lvl s.free i := by rw [hbr]; exact List.mem_cons_self
          obtain ⟨k, hk, hblk⟩ := h.fnode i blk hmem
          have hiF : i ≤ F := by omega
          have hlevF : s.free.length - 1 - ordOf (n * 4096) ≤ F := by omega
          have hfree : FreeN F s i k := by unfold FreeN; rw [← hblk]; exact hmem
          rw [hbr] at h1 h2 hp hs
          simp only [List.headD_cons, List.tail_cons] at h1 h2 hp hs
          have herase : rest = (lvl s.free i).erase (addr s.base F i k) := by
            rw [hbr, ← hblk, List.erase_cons_head]
          -- the state after the block left its free list
          have hs1 : FInv F s1 ∧ UsedN F s1 i k ∧ NoTrk F s1 i k ∧ s1.base = s.base ∧ s1.track = s.track ∧
              s1.trk = s.trk := by
            cases i with
            | zero =>
              simp only [Nat.lt_irrefl, if_false] at h1
              injection h1 with h1
              subst h1
              obtain ⟨a, b, c⟩ := finv_take (s' := { s with free := setLvl s.free 0 rest }) h hiF hk hfree rfl rfl rfl rfl rfl
                (by rw [herase]) h.mnodup (fun l' k' _ _ => by rw [if_neg (by omega)]; rfl)
              exact ⟨a, b, c, rfl, rfl, rfl⟩
            | succ i0 =>
              simp only [Nat.zero_lt_succ, if_true, Nat.add_sub_cancel] at h1
              have ei : indexOfBlock s.base s.size blk i0 = ix i0 (k / 2) := by
                rw [hblk, hsz]; exact index_parent (by omega)
              rw [ei] at h1
              unfold flipMerge at h1
              split at h1
              · injection h1 with h1
                subst h1
                have pl := pow_succ2 i0
                obtain ⟨a, b, c⟩ := finv_take
                  (s' := { s with free := setLvl s.free (i0 + 1) rest, merge := toggle s.merge (ix i0 (k / 2)) })
                  h hiF hk hfree rfl rfl rfl rfl rfl
                  (by rw [herase]) (toggle_nodup h.mnodup _) (fun l' k' _ hk' => by
                    rw [mergeN_toggle (s := s) rfl h.mnodup (show k / 2 < 2 ^ i0 by omega) hk']
                    by_cases hc : l' = i0 ∧ k' = k / 2
                    · rw [if_pos hc, if_pos ⟨by omega, by omega⟩]
                    · rw [if_neg hc, if_neg (by omega)])
                exact ⟨a, b, c, rfl, rfl, rfl⟩
              · cases h1
          obtain ⟨f1, u1, n1, b1, t1, k1⟩ := hs1
          rw [hblk, ← b1] at h2
          have hcnt : i + (s.free.length - 1 - ordOf (n * 4096) - i) = s.free.length - 1 - ordOf (n * 4096) := by omega
          obtain ⟨f2, b2, t2, k2, u2, n2⟩ := finv_splitLoop _ i k s1 s2 f1 (by omega) hk u1 n1 h2
          rw [hcnt] at u2 n2
          have hadd := addr_desc (base := s2.base) (F := F) (l := i) (k := k)
            (s.free.length - 1 - ordOf (n * 4096) - i) (by omega)
          rw [hcnt] at hadd
          have hnsz : n * 4096 ≤ szl (4096 * 2 ^ F) (s.free.length - 1 - ordOf (n * 4096)) := by
            rw [szl_eq hlevF]
            have : F - (s.free.length - 1 - ordOf (n * 4096)) = ordOf (n * 4096) := by omega
            rw [this]
            exact ordOf_ge _
          have hpk : k * 2 ^ (s.free.length - 1 - ordOf (n * 4096) - i) <
              2 ^ (s.free.length - 1 - ordOf (n * 4096)) := by
            have : 2 ^ (s.free.length - 1 - ordOf (n * 4096)) =
                2 ^ i * 2 ^ (s.free.length - 1 - ordOf (n * 4096) - i) := by
              rw [← Nat.pow_add, hcnt]
            rw [this]
            exact Nat.mul_lt_mul_of_pos_right hk (Nat.pow_pos (by decide))
          obtain ⟨f3, m3⟩ := finv_track f2 hlevF hpk u2 n2 hnsz
          have eblk : addr s2.base F i k = blk := by rw [b2, b1, hblk]
          rw [hadd, eblk] at f3 m3
          rw [← hs, ← hp]
          refine ⟨f3, by simp [b2, b1], ?_⟩
          intro q hq
          apply m3
          rcases hq with hq | hq
          · exact Or.inl hq
          · rw [t2, t1]
            exact Or.inr hq

end C10.Buddy
