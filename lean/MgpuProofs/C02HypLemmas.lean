import MgpuProofs.C02Flat
import MgpuProofs.C02Smem
import MgpuProofs.C02WfConcrete
import MgpuProofs.C02WfDemo
import MgpuProofs.C02WfLemmas
import MgpuProofs.C02WfCU
/-! Helper lemmas for the hypothesis audit of C02 (`Props/C02Hyp.lean`): natural alignment, grouping
    with repeated keys, the SMEM chunk loop never produces a chunk below 4 bytes, FIFO order of the
    outstanding-access counter. -/
namespace C02

/-! ## natural alignment -/

/-- an element of width 1, 2 or 4 at a multiple of its width ends inside its line when the line size
    is a positive multiple of 4 -/
theorem fit_of_aligned (w ls a : Nat) (hw : w = 1 ∨ w = 2 ∨ w = 4) (hls : 0 < ls) (h4 : ls % 4 = 0)
    (ha : a % w = 0) : a % ls + w ≤ ls := by
  have hdvd : w ∣ ls := by
    rcases hw with rfl | rfl | rfl
    · exact Nat.one_dvd _
    · exact Nat.dvd_of_mod_eq_zero (by omega)
    · exact Nat.dvd_of_mod_eq_zero h4
  have hr : a % ls % w = 0 := by rw [Nat.mod_mod_of_dvd _ hdvd]; exact ha
  have hlt : a % ls < ls := Nat.mod_lt _ hls
  generalize a % ls = r at hr hlt
  rcases hw with rfl | rfl | rfl <;> omega

theorem width_cases (k : LKind) : k.width = 1 ∨ k.width = 2 ∨ k.width = 4 := by
  cases k <;> simp [LKind.width]

/-! ## grouping with repeated / spurious keys -/

theorem grouped_at_cover (ws : List Wr) (c : Nat × Nat) (k0 : Nat)
    (hk : ∀ w ∈ ws, w.cell = c → w.key = k0) :
    ∀ (ord : List Nat) (f : St),
      grouped ws ord f c = if k0 ∈ ord then applyW ws f c else f c := by
  intro ord
  induction ord with
  | nil => intro f; rfl
  | cons k ord ih =>
    intro f
    rw [grouped_cons, ih]
    by_cases hkk : k = k0
    · subst hkk
      have hflt : applyW (ws.filter (fun w => w.key = k)) f c = applyW ws f c := by
        apply applyW_filter
        intro w hw hp
        have hne : w.key ≠ k := by simpa using hp
        exact fun e => hne (hk w hw e)
      rw [if_pos (List.mem_cons_self ..)]
      by_cases hin : k ∈ ord
      · rw [if_pos hin, applyW_eq_lastW, hflt, applyW_eq_lastW]
        cases lastW ws c <;> rfl
      · rw [if_neg hin]; exact hflt
    · have hun : applyW (ws.filter (fun w => w.key = k)) f c = f c := by
        apply applyW_untouched
        intro w hw
        have hm := List.mem_filter.mp hw
        have hkey : w.key = k := by simpa using hm.2
        intro e
        exact hkk (hkey ▸ hk w hm.1 e)
      have hmem : (k0 ∈ k :: ord) ↔ k0 ∈ ord := by
        simp only [List.mem_cons]
        constructor
        · rintro (h | h)
          · exact absurd h.symm hkk
          · exact h
        · exact Or.inr
      by_cases hin : k0 ∈ ord
      · rw [if_pos hin, if_pos (hmem.mpr hin)]
        exact applyW_congr_at ws _ _ c hun
      · rw [if_neg hin, if_neg (fun h => hin (hmem.mp h))]
        exact hun

/-- batches by key in ANY order that covers the keys — repeated keys and keys nobody carries included —
    give the same state as the plain list order, provided writes to one cell all carry the same key -/
theorem grouped_eq_cover (ws : List Wr) (ord : List Nat) (f : St)
    (hcov : ∀ w ∈ ws, w.key ∈ ord)
    (hfun : ∀ w1 ∈ ws, ∀ w2 ∈ ws, w1.cell = w2.cell → w1.key = w2.key) :
    grouped ws ord f = applyW ws f := by
  funext c
  by_cases h : ∃ w ∈ ws, w.cell = c
  · obtain ⟨w, hw, hc⟩ := h
    rw [grouped_at_cover ws c w.key (fun w' hw' e => hfun w' hw' w hw (e.trans hc.symm)) ord f,
      if_pos (hcov w hw)]
  · have hno : ∀ w ∈ ws, w.cell ≠ c := fun w hw e => h ⟨w, hw, e⟩
    rw [grouped_untouched ws c hno, applyW_untouched ws f c hno]

/-! ## SMEM: every chunk of a dword-aligned, multiple-of-4 load has at least 4 bytes -/

theorem chunks_ge4 (ls start : Nat) (hls : 0 < ls) (h4 : ls % 4 = 0) (hs : start % 4 = 0) :
    ∀ (fuel p q : Nat), ∀ c ∈ chunks ls fuel (start + 4 * p) (4 * q), 4 ≤ c.2 := by
  intro fuel
  induction fuel with
  | zero => intro p q c hc; simp [chunks] at hc
  | succ fuel ih =>
    intro p q c hc
    by_cases hq0 : q = 0
    · subst hq0; simp [chunks] at hc
    · have hne : ¬ (4 * q = 0) := by omega
      rw [chunks, if_neg hne] at hc
      have hx4 : (start + 4 * p) % ls % 4 = 0 := by
        rw [Nat.mod_mod_of_dvd _ (Nat.dvd_of_mod_eq_zero h4)]; omega
      have hxl : (start + 4 * p) % ls < ls := Nat.mod_lt _ hls
      generalize hx : (start + 4 * p) % ls = x at hx4 hxl hc
      have hcr : ∃ r, min (4 * q) (ls - x) = 4 * r ∧ 1 ≤ r ∧ r ≤ q := by
        refine ⟨min (4 * q) (ls - x) / 4, ?_, ?_, ?_⟩ <;> omega
      obtain ⟨r, hr, hr1, hrq⟩ := hcr
      simp only [hr, List.mem_cons] at hc
      rcases hc with rfl | hc
      · show 4 ≤ 4 * r
        omega
      · have e1 : start + 4 * p + 4 * r = start + 4 * (p + r) := by omega
        have e2 : 4 * q - 4 * r = 4 * (q - r) := by omega
        rw [e1, e2] at hc
        exact ih (p + r) (q - r) c hc

/-! ## outstanding-access counter: FIFO order -/

/-- the responses are the issued transaction ids 0, 1, 2, … in that order, each after its issue:
    `issued` transactions created so far, `returned` of them answered -/
def fifoFrom : Nat → Nat → List COp → Prop
  | _, _, [] => True
  | issued, returned, .issue n :: ops => fifoFrom (issued + n) returned ops
  | issued, returned, .ret id :: ops => id = returned ∧ returned < issued ∧ fifoFrom issued (returned + 1) ops

/-- the in-flight list of the counter state is exactly the id interval [returned, issued) -/
def FifoInv (s : CSt) (issued returned : Nat) : Prop :=
  s.inflight.map (·.id) = List.range' returned (issued - returned) ∧ s.next = issued ∧ returned ≤ issued

theorem mkTxns_ids (base n : Nat) : (mkTxns base n).map (·.id) = List.range' base n := by
  unfold mkTxns
  rw [List.map_map]
  apply List.ext_getElem
  · simp
  · intro i h1 h2
    simp

theorem fifoInv_issue (s : CSt) (issued returned n : Nat) (h : FifoInv s issued returned) :
    FifoInv (cstep s (.issue n)) (issued + n) returned := by
  obtain ⟨h1, h2, h3⟩ := h
  unfold cstep
  by_cases hn : n = 0
  · subst hn; simp only [if_true]; exact ⟨h1, h2, h3⟩
  · simp only [hn, if_false]
    refine ⟨?_, by simp [h2], by omega⟩
    simp only [List.map_append, h1, mkTxns_ids, h2]
    have e1 : issued = returned + (issued - returned) := by omega
    have e2 : issued + n - returned = (issued - returned) + n := by omega
    rw [e2]
    conv => lhs; rhs; rw [e1]
    rw [← List.range'_append_1]

theorem fifoInv_ret (s : CSt) (issued returned : Nat) (h : FifoInv s issued returned) (hlt : returned < issued) :
    (∃ t rest, s.inflight = t :: rest ∧ t.id = returned) ∧
    FifoInv (cstep s (.ret returned)) issued (returned + 1) := by
  obtain ⟨h1, h2, h3⟩ := h
  have hk : issued - returned = (issued - returned - 1) + 1 := by omega
  rw [hk, List.range'_succ] at h1
  cases hi : s.inflight with
  | nil => rw [hi] at h1; simp at h1
  | cons t rest =>
    rw [hi] at h1
    simp only [List.map_cons, List.cons.injEq] at h1
    refine ⟨⟨t, rest, rfl, h1.1⟩, ?_⟩
    have hrm : removeFirst returned s.inflight = some (t, rest) := by simp [hi, removeFirst, h1.1]
    simp only [cstep, hrm]
    refine ⟨?_, h2, by omega⟩
    show rest.map (·.id) = _
    rw [h1.2, Nat.sub_add_eq]

/-- oldest-first responses are in order in the sense of `inOrder` -/
theorem inOrder_of_fifoFrom : ∀ (ops : List COp) (s : CSt) (issued returned : Nat),
    FifoInv s issued returned → fifoFrom issued returned ops → inOrder ops s := by
  intro ops
  induction ops with
  | nil => intro s _ _ _ _; trivial
  | cons op ops ih =>
    intro s issued returned hinv hf
    cases op with
    | issue n =>
      simp only [fifoFrom] at hf
      simp only [inOrder]
      exact ih _ _ _ (fifoInv_issue s issued returned n hinv) hf
    | ret id =>
      simp only [fifoFrom] at hf
      obtain ⟨rfl, hlt, hrest⟩ := hf
      obtain ⟨hhead, hinv'⟩ := fifoInv_ret s issued id hinv hlt
      simp only [inOrder]
      exact ⟨hhead, ih _ _ _ hinv' hrest⟩

/-- … and conversely: `inOrder` is exactly FIFO order of the ids -/
theorem fifoFrom_of_inOrder : ∀ (ops : List COp) (s : CSt) (issued returned : Nat),
    FifoInv s issued returned → inOrder ops s → fifoFrom issued returned ops := by
  intro ops
  induction ops with
  | nil => intro s _ _ _ _; trivial
  | cons op ops ih =>
    intro s issued returned hinv hio
    cases op with
    | issue n =>
      simp only [inOrder] at hio
      simp only [fifoFrom]
      exact ih _ _ _ (fifoInv_issue s issued returned n hinv) hio
    | ret id =>
      simp only [inOrder] at hio
      obtain ⟨⟨t, rest, hi, hid⟩, hrest⟩ := hio
      have hne : returned < issued := by
        obtain ⟨h1, _, h3⟩ := hinv
        rw [hi] at h1
        rcases Nat.lt_or_ge returned issued with h | h
        · exact h
        · have : issued - returned = 0 := by omega
          rw [this] at h1; simp at h1
      obtain ⟨⟨t', rest', hi', hid'⟩, hinv'⟩ := fifoInv_ret s issued returned hinv hne
      have : id = returned := by
        rw [hi] at hi'
        simp only [List.cons.injEq] at hi'
        rw [← hid, ← hid', hi'.1]
      subst this
      unfold fifoFrom
      exact ⟨rfl, hne, ih _ _ _ hinv' hrest⟩

theorem fifoInv_init : FifoInv {} 0 0 := ⟨rfl, rfl, Nat.le_refl _⟩

/-- the ids of the responses, in order -/
def retIds : List COp → List Nat
  | [] => []
  | .issue _ :: ops => retIds ops
  | .ret id :: ops => id :: retIds ops

/-- every response arrives while something is in flight (count only, ids ignored) -/
def causalFrom : Nat → Nat → List COp → Prop
  | _, _, [] => True
  | issued, returned, .issue n :: ops => causalFrom (issued + n) returned ops
  | issued, returned, .ret _ :: ops => returned < issued ∧ causalFrom issued (returned + 1) ops

/-- FIFO order = (responses never outnumber issued transactions) + (the response ids are returned,
    returned+1, …) -/
theorem fifoFrom_iff : ∀ (ops : List COp) (issued returned : Nat),
    fifoFrom issued returned ops ↔
      (causalFrom issued returned ops ∧ retIds ops = List.range' returned (retIds ops).length) := by
  intro ops
  induction ops with
  | nil => intro _ _; simp [fifoFrom, causalFrom, retIds]
  | cons op ops ih =>
    intro issued returned
    cases op with
    | issue n => simp only [fifoFrom, causalFrom, retIds]; exact ih _ _
    | ret id =>
      simp only [fifoFrom, causalFrom, retIds, List.length_cons, List.range'_succ, List.cons.injEq]
      rw [ih]
      constructor
      · rintro ⟨h0, h1, h2, h3⟩; exact ⟨⟨h1, h2⟩, h0, h3⟩
      · rintro ⟨⟨h1, h2⟩, h0, h3⟩; exact ⟨h0, h1, h2, h3⟩

theorem prefix_range (l : List Nat) (n : Nat) (h : l <+: List.range n) : l = List.range l.length := by
  obtain ⟨t, ht⟩ := h
  have hlen : l.length ≤ n := by
    have := congrArg List.length ht
    simp only [List.length_append, List.length_range] at this
    omega
  have h1 : l = (l ++ t).take l.length := by simp
  rw [ht, List.take_range, Nat.min_eq_left hlen] at h1
  exact h1

end C02

/-! ## wavefront machine: programs over arbitrary instructions, `Inst.WF` with one field left out -/
namespace C02.Wf

def ioffsets : List Inst → Nat → List Nat
  | [], _ => []
  | i :: is, o => o :: ioffsets is (o + i.size)

/-- `cprog` for a list of ARBITRARY instructions (same layout and decoder: instruction `k` starts at
    `base + offset k`, its first two bytes hold `k`, the third is the marker 238); all memory owned -/
def iprog (base : Nat) (is : List Inst) : Prog :=
  { imem := fun a =>
      if a < base then 255 else
      match findAt (ioffsets is 0) (is.map (·.size)) (a - base) with
      | some (k, j) => encByte k j
      | none => 255
    dec := fun l =>
      match l with
      | b0 :: b1 :: 238 :: _ =>
        match is[b0 + 256 * b1]? with
        | some i => if i.size ≤ l.length then some i else none
        | none => none
      | _ => none
    own := fun _ => true
    wown := fun _ => true }

theorem iprog_dec_eq (base : Nat) (is : List Inst) (l : List Nat) (i : Inst) :
    (iprog base is).dec l = some i ↔
      ∃ b0 b1 t, l = b0 :: b1 :: 238 :: t ∧ is[b0 + 256 * b1]? = some i ∧ i.size ≤ l.length := by
  simp only [iprog]
  constructor
  · intro h
    split at h
    · rename_i b0 b1 t
      split at h
      · rename_i c hc
        split at h
        · rename_i hsz
          injection h with h
          subst h
          exact ⟨b0, b1, t, rfl, hc, hsz⟩
        · cases h
      · cases h
    · cases h
  · rintro ⟨b0, b1, t, rfl, hc, hsz⟩
    simp only [hc, if_pos hsz]

theorem iprog_dec_some (base : Nat) (is : List Inst) (l : List Nat) (i : Inst)
    (h : (iprog base is).dec l = some i) : i ∈ is := by
  obtain ⟨b0, b1, t, _, hc, _⟩ := (iprog_dec_eq base is l i).1 h
  exact List.mem_of_getElem? hc

theorem iprog_pfx (base : Nat) (is : List Inst) (h3 : ∀ i ∈ is, 3 ≤ i.size) :
    ∀ l i, (iprog base is).dec l = some i → i.size ≤ l.length ∧
      ∀ l', l'.take i.size = l.take i.size → (iprog base is).dec l' = some i := by
  intro l i h
  obtain ⟨b0, b1, t, rfl, hc, hsz⟩ := (iprog_dec_eq base is l i).1 h
  refine ⟨hsz, ?_⟩
  intro l' hl'
  have hge := h3 i (List.mem_of_getElem? hc)
  obtain ⟨n, hn⟩ : ∃ n, i.size = n + 3 := ⟨i.size - 3, by omega⟩
  have hlen : i.size ≤ l'.length := by
    have := congrArg List.length hl'
    rw [List.length_take, List.length_take] at this
    omega
  rw [hn] at hl'
  rw [iprog_dec_eq]
  match l', hl', hlen with
  | x0 :: x1 :: x2 :: t', hl', hlen =>
    simp only [List.take_succ_cons, List.cons.injEq] at hl'
    obtain ⟨rfl, rfl, rfl, _⟩ := hl'
    exact ⟨x0, x1, t', rfl, hc, hlen⟩
  | [], _, hlen => simp only [List.length_nil] at hlen; omega
  | [_], _, hlen => simp only [List.length_cons, List.length_nil] at hlen; omega
  | [_, _], _, hlen => simp only [List.length_cons, List.length_nil] at hlen; omega

/-- `Inst.WF` with the field named `skip` left out (`skip = ""`: nothing left out) -/
structure Inst.WFx (skip : String) (i : Inst) : Prop where
  f_frame : skip = "f_frame" ∨ ∀ p r x, x ∉ i.wr → i.f p r x = r x
  f_dep : skip = "f_dep" ∨ ∀ p r r', (∀ x ∈ i.rd ++ i.wr, r x = r' x) → ∀ x ∈ i.wr, i.f p r x = i.f p r' x
  tgt_dep : skip = "tgt_dep" ∨ ∀ r r' p, (∀ x ∈ i.rd, r x = r' x) → i.tgt r p = i.tgt r' p
  tgt_rel : skip = "tgt_rel" ∨ ∀ r p, i.tgt r (pcAdd p i.size) = pcAdd (i.tgt r p) i.size
  wrD_sub : skip = "wrD_sub" ∨ ∀ r x, x ∈ i.wrD r → x ∈ i.wr
  ld_frame : skip = "ld_frame" ∨ ∀ r m x, x ∉ i.wrD r → i.ld r m x = r x
  dep_static : skip = "dep_static" ∨ ∀ r r', (∀ x ∈ i.rd, r x = r' x) →
    i.wrD r = i.wrD r' ∧ i.fpl r = i.fpl r' ∧ i.noTxn r = i.noTxn r'
  ld_depR : skip = "ld_depR" ∨ ∀ r r' m, (∀ x ∈ i.rd, r x = r' x) → ∀ x ∈ i.wrD r, i.ld r m x = i.ld r' m x
  ld_depM : skip = "ld_depM" ∨ ∀ r m m', (∀ a, i.fp r a = true → m a = m' a) → ∀ x ∈ i.wrD r, i.ld r m x = i.ld r m' x
  st_frame : skip = "st_frame" ∨ (i.isStore = true → ∀ r m a, i.fp r a = false → i.stf r m a = m a)
  st_dep : skip = "st_dep" ∨ (i.isStore = true → ∀ r r' m m' a, (∀ x ∈ i.rd, r x = r' x) → i.fp r a = true →
    i.stf r m a = i.stf r' m' a)
  noTxn_ld : skip = "noTxn_ld" ∨ ∀ r, i.noTxn r = true → i.wrD r = []
  noTxn_st : skip = "noTxn_st" ∨ ∀ r a, i.noTxn r = true → i.fp r a = false
  size_le : skip = "size_le" ∨ i.size ≤ 8

theorem Inst.WF.toWFx {i : Inst} (h : i.WF) (skip : String) : i.WFx skip :=
  ⟨.inr h.f_frame, .inr h.f_dep, .inr h.tgt_dep, .inr h.tgt_rel, .inr h.wrD_sub, .inr h.ld_frame,
   .inr h.dep_static, .inr h.ld_depR, .inr h.ld_depM, .inr h.st_frame, .inr h.st_dep, .inr h.noTxn_ld,
   .inr h.noTxn_st, .inr h.size_le⟩

theorem Inst.WFx.toWF {i : Inst} (h : i.WFx "") : i.WF where
  f_frame := h.f_frame.resolve_left (by decide)
  f_dep := h.f_dep.resolve_left (by decide)
  tgt_dep := h.tgt_dep.resolve_left (by decide)
  tgt_rel := h.tgt_rel.resolve_left (by decide)
  wrD_sub := h.wrD_sub.resolve_left (by decide)
  ld_frame := h.ld_frame.resolve_left (by decide)
  dep_static := h.dep_static.resolve_left (by decide)
  ld_depR := h.ld_depR.resolve_left (by decide)
  ld_depM := h.ld_depM.resolve_left (by decide)
  st_frame := h.st_frame.resolve_left (by decide)
  st_dep := h.st_dep.resolve_left (by decide)
  noTxn_ld := h.noTxn_ld.resolve_left (by decide)
  noTxn_st := h.noTxn_st.resolve_left (by decide)
  size_le := h.size_le.resolve_left (by decide)

/-- an instruction that is not a store, not a load (`wrD`, `ld`, `fpl`, `noTxn` at their defaults): only
    the four ALU / branch fields are left to check -/
theorem wfx_simple (skip : String) (i : Inst) (hst : i.isStore = false)
    (hwrD : ∀ r, i.wrD r = []) (hld : ∀ r m, i.ld r m = r) (hfpl : ∀ r, i.fpl r = [])
    (hno : ∀ r, i.noTxn r = false) (hsz : i.size ≤ 8)
    (h1 : skip = "f_frame" ∨ ∀ p r x, x ∉ i.wr → i.f p r x = r x)
    (h2 : skip = "f_dep" ∨ ∀ p r r', (∀ x ∈ i.rd ++ i.wr, r x = r' x) → ∀ x ∈ i.wr, i.f p r x = i.f p r' x)
    (h3 : skip = "tgt_dep" ∨ ∀ r r' p, (∀ x ∈ i.rd, r x = r' x) → i.tgt r p = i.tgt r' p)
    (h4 : skip = "tgt_rel" ∨ ∀ r p, i.tgt r (pcAdd p i.size) = pcAdd (i.tgt r p) i.size) : i.WFx skip where
  f_frame := h1
  f_dep := h2
  tgt_dep := h3
  tgt_rel := h4
  wrD_sub := .inr (by intro r x hx; rw [hwrD] at hx; cases hx)
  ld_frame := .inr (by intro r m x _; rw [hld])
  dep_static := .inr (by intro r r' _; rw [hwrD, hwrD, hfpl, hfpl, hno, hno]; exact ⟨rfl, rfl, rfl⟩)
  ld_depR := .inr (by intro r r' m _ x hx; rw [hwrD] at hx; cases hx)
  ld_depM := .inr (by intro r m m' _ x hx; rw [hwrD] at hx; cases hx)
  st_frame := .inr (by intro h; rw [hst] at h; cases h)
  st_dep := .inr (by intro h; rw [hst] at h; cases h)
  noTxn_ld := .inr (by intro r _; exact hwrD r)
  noTxn_st := .inr (by intro r a h; rw [hno] at h; cases h)
  size_le := .inr hsz

/-- a completed timing run and the emulator's completed run that disagree on register `x` -/
theorem differ_refutes {P : Prog} {pc : Nat} {regs : RF} {mem : Mem} {evs : List Ev} {k x vT vE : Nat}
    (hT : (trun P (fun _ _ => true) (tinit pc regs mem) evs).map (fun T => (T.ph, T.regs x)) = some (.done, vT))
    (hE : (erun P k (einit pc regs mem)).map (fun E => (E.done, E.regs x)) = some (true, vE))
    (hne : vT ≠ vE) :
    ∃ T, trun P (fun _ _ => true) (tinit pc regs mem) evs = some T ∧ T.ph = .done ∧
      ∀ n E, erun P n (einit pc regs mem) = some E → E.done = true → T.regs ≠ E.regs := by
  cases hTr : trun P (fun _ _ => true) (tinit pc regs mem) evs with
  | none => rw [hTr] at hT; cases hT
  | some T =>
    rw [hTr] at hT
    simp only [Option.map_some, Option.some.injEq, Prod.mk.injEq] at hT
    refine ⟨T, rfl, hT.1, ?_⟩
    intro n E hr hd heq
    cases hEr : erun P k (einit pc regs mem) with
    | none => rw [hEr] at hE; cases hE
    | some Ek =>
      rw [hEr] at hE
      simp only [Option.map_some, Option.some.injEq, Prod.mk.injEq] at hE
      have := erun_done_unique P n k _ E Ek hr hd hEr hE.1
      subst this
      have e := congrFun heq x
      rw [hT.2, hE.2] at e
      exact hne e

/-! event-list shorthands -/
def stp : List Ev := [.decode, .issue, .exec, .complete]
def stq : List Ev := [.decode, .issue, .complete]
def stm : List Ev := [.decode, .issue, .exec]

/-! ## concrete witness programs -/

theorem iprog_ok (skip : String) (base : Nat) (is : List Inst)
    (h : ∀ i ∈ is, i.WFx skip ∧ (skip = "PcOK" ∨ i.PcOK)) :
    ∀ l i, (iprog base is).dec l = some i → i.WFx skip ∧ (skip = "PcOK" ∨ i.PcOK) :=
  fun l i hd => h i (iprog_dec_some base is l i hd)

theorem compile_ok (skip : String) (c : CInst) : (compile c).WFx skip ∧ (skip = "PcOK" ∨ (compile c).PcOK) :=
  ⟨(compile_wf c).toWFx skip, .inr (compile_pcOK c)⟩


/-- writes s7 without declaring it -/
def badFrame : Inst := { kind := .alu 0, size := 4, rd := [], wr := [], f := fun _ r => setR r (sreg 7) 1 }
/-- `s_load_dword s7` in flight, then the undeclared write to s7, then `s_waitcnt 0` -/
def isFrame : List Inst :=
  [compile (.smov 8 16), compile (.smov 9 0), compile (.sld 7 8 0), badFrame, compile (.wait 0 0), compile .endp]
def evsFrame : List Ev :=
  [.fetch, .fetchRet] ++ stp ++ stp ++ stm ++ stp ++ [.serveS 0, .retS 0] ++ stq ++ stq

theorem pcOK_alu0 (i : Inst) (h : i.kind = .alu 0) : i.PcOK := by
  intro u hk hu
  rw [h] at hk
  injection hk with hk
  exact absurd hk.symm hu

theorem badFrame_ok : badFrame.WFx "f_frame" ∧ ("f_frame" = "PcOK" ∨ badFrame.PcOK) :=
  ⟨wfx_simple _ _ rfl (fun _ => rfl) (fun _ _ => rfl) (fun _ => rfl) (fun _ => rfl) (by decide)
    (.inl rfl) (.inr (by intro p r r' _ x hx; cases hx)) (.inr (fun _ _ _ _ => rfl)) (.inr (fun _ _ => rfl)),
   .inr (pcOK_alu0 _ rfl)⟩


/-- copies s7 into s10 without declaring that it reads s7 -/
def badDep : Inst :=
  { kind := .alu 0, size := 4, rd := [], wr := [sreg 10], f := fun _ r => setR r (sreg 10) (r (sreg 7)) }
def isDep : List Inst :=
  [compile (.smov 8 16), compile (.smov 9 0), compile (.sld 7 8 0), badDep, compile (.wait 0 0), compile .endp]

theorem badDep_ok : badDep.WFx "f_dep" ∧ ("f_dep" = "PcOK" ∨ badDep.PcOK) :=
  ⟨wfx_simple _ _ rfl (fun _ => rfl) (fun _ _ => rfl) (fun _ => rfl) (fun _ => rfl) (by decide)
    (.inr (by
      intro p r x hx
      have : x ≠ sreg 10 := by simpa [badDep] using hx
      simp [badDep, setR, this]))
    (.inl rfl) (.inr (fun _ _ _ _ => rfl)) (.inr (fun _ _ => rfl)),
   .inr (pcOK_alu0 _ rfl)⟩


/-- jumps to the absolute address 0x1008 whatever PC `alu.Run` sees -/
def badBr : Inst := { kind := .branch, size := 4, tgt := fun _ _ => 0x1008 }
def isBr : List Inst := [badBr, compile (.smov 4 1), compile (.smov 5 2), compile .endp]
def evsBr : List Ev := [.fetch, .fetchRet] ++ stp ++ [.fetch, .fetchRet] ++ stq

theorem badBr_ok : badBr.WFx "tgt_rel" ∧ ("tgt_rel" = "PcOK" ∨ badBr.PcOK) :=
  ⟨wfx_simple _ _ rfl (fun _ => rfl) (fun _ _ => rfl) (fun _ => rfl) (fun _ => rfl) (by decide)
    (.inr (fun _ _ _ _ => rfl)) (.inr (by intro p r r' _ x hx; cases hx)) (.inr (fun _ _ _ _ => rfl)) (.inl rfl),
   .inr (by intro u hk; cases hk)⟩


/-- declares byte 100, also writes byte 200 -/
def badSt : Inst :=
  { kind := .vstore, size := 4, rd := [], wr := [],
    stf := fun _ m a => if a = 100 then 7 else if a = 200 then 9 else m a,
    fpl := fun _ => [(100, 1)] }
/-- `s_load_dword s7` from byte 200 in flight, then the store -/
def isSt : List Inst :=
  [compile (.smov 8 200), compile (.smov 9 0), compile (.sld 7 8 0), badSt, compile (.wait 0 0), compile .endp]
def evsSt : List Ev :=
  [.fetch, .fetchRet] ++ stp ++ stp ++ stm ++ stm ++ [.serveV 0, .serveS 0, .retS 0, .retV] ++ stq ++ stq

theorem badSt_fp (r : RF) (a : Nat) : badSt.fp r a = decide (a = 100) := by
  simp only [Inst.fp, badSt, inRanges, List.any_cons, List.any_nil, Bool.or_false]
  by_cases h : a = 100 <;> simp [h] <;> omega

theorem badSt_ok : badSt.WFx "st_frame" ∧ ("st_frame" = "PcOK" ∨ badSt.PcOK) :=
  ⟨{ f_frame := .inr (fun _ _ _ _ => rfl)
     f_dep := .inr (by intro p r r' _ x hx; cases hx)
     tgt_dep := .inr (fun _ _ _ _ => rfl)
     tgt_rel := .inr (fun _ _ => rfl)
     wrD_sub := .inr (by intro r x hx; cases hx)
     ld_frame := .inr (fun _ _ _ _ => rfl)
     dep_static := .inr (fun _ _ _ => ⟨rfl, rfl, rfl⟩)
     ld_depR := .inr (by intro r r' m _ x hx; cases hx)
     ld_depM := .inr (by intro r m m' _ x hx; cases hx)
     st_frame := .inl rfl
     st_dep := .inr (by
       intro _ r r' m m' a _ ha
       rw [badSt_fp] at ha
       have : a = 100 := by simpa using ha
       subst this
       rfl)
     noTxn_ld := .inr (fun _ _ => rfl)
     noTxn_st := .inr (by intro r a h; cases h)
     size_le := .inr (by decide) },
   .inr (by intro u hk; cases hk)⟩


/-- byte 1 decodes to `s_mov_b32 s4, 1` when exactly 8 bytes are presented (the emulator's window) and to
    `s_mov_b32 s4, 2` otherwise (the timing side decodes from the fetch buffer: 64 bytes) -/
def Ppfx : Prog :=
  { imem := fun a => if a = 0x1000 then 1 else if a = 0x1004 then 2 else 0
    dec := fun l => match l with
      | 1 :: _ => if l.length = 8 then some (compile (.smov 4 1))
                  else if 4 ≤ l.length then some (compile (.smov 4 2)) else none
      | 2 :: _ => if 4 ≤ l.length then some (compile .endp) else none
      | _ => none
    own := fun _ => true
    wown := fun _ => true }
def evsPfx : List Ev := [.fetch, .fetchRet] ++ stp ++ stq

theorem Ppfx_dec (l : List Nat) (i : Inst) (h : Ppfx.dec l = some i) : ∃ c, i = compile c := by
  simp only [Ppfx] at h
  split at h
  · split at h
    · injection h with h; exact ⟨_, h.symm⟩
    · split at h
      · injection h with h; exact ⟨_, h.symm⟩
      · cases h
  · split at h
    · injection h with h; exact ⟨_, h.symm⟩
    · cases h
  · cases h


/-- a SIMD-unit instruction writing the PC `alu.Run` sees into s4 -/
def badPc : Inst := { kind := .alu 1, size := 4, rd := [], wr := [sreg 4], f := fun p r => setR r (sreg 4) p }
def isPc : List Inst := [badPc, compile .endp]

theorem badPc_ok : badPc.WFx "PcOK" ∧ ("PcOK" = "PcOK" ∨ badPc.PcOK) :=
  ⟨wfx_simple _ _ rfl (fun _ => rfl) (fun _ _ => rfl) (fun _ => rfl) (fun _ => rfl) (by decide)
    (.inr (by
      intro p r x hx
      have : x ≠ sreg 4 := by simpa [badPc] using hx
      simp [badPc, setR, this]))
    (.inr (by
      intro p r r' _ x hx
      have : x = sreg 4 := by simpa [badPc] using hx
      subst this
      simp [badPc, setR]))
    (.inr (fun _ _ _ _ => rfl)) (.inr (fun _ _ => rfl)),
   .inl rfl⟩


/-- a scalar load from the window somebody else writes (`foreignWindow`, 0x300000…) -/
def csForeign : List CInst := [.smov 8 0x300000, .smov 9 0, .sld 7 8 0, .wait 0 0, .endp]
def PForeign : Prog := cprog 0x1000 csForeign foreignWindow
/-- the foreign write lands between the execution of the load and the moment the memory performs it -/
def evsForeign : List Ev :=
  [.fetch, .fetchRet] ++ stp ++ stp ++ stm ++ [.env 0x300000 5, .serveS 0, .retS 0] ++ stq ++ stq


/-- `flat_store_dword` to v[2:3], then `flat_load_dword` from the SAME addresses but tagged with another
    alias class, no `s_waitcnt` between them -/
def isReg : List Inst :=
  [compile (.smov 4 0x200000), compile (.smov 5 0), compile (.vxor 2 4 0), compile (.vmov 3 5),
   compile (.fst 2 0), { compile (.fld 6 2) with region := 1 }, compile (.wait 0 0), compile .endp]
/-- the memory performs the load before the store -/
def evsReg : List Ev :=
  [.fetch, .fetchRet] ++ stp ++ stp ++ stp ++ stp ++ stm ++ stm ++
  [.decode, .issue, .serveV 1, .serveV 0, .retV, .retV, .complete] ++ stq

theorem iprog_instAt_of (base : Nat) (is : List Inst) (pc k : Nat) (i : Inst)
    (hw : ((iprog base is).window pc 8).take 3 = [k, 0, 238]) (hk : is[k]? = some i) (hs : i.size ≤ 8) :
    (iprog base is).instAt pc = some i := by
  unfold Prog.instAt
  rw [iprog_dec_eq]
  have hlen : ((iprog base is).window pc 8).length = 8 := by simp [Prog.window]
  generalize (iprog base is).window pc 8 = l at hw hlen
  match l, hw, hlen with
  | b0 :: b1 :: b2 :: t, hw, hlen =>
    simp only [List.take_succ_cons, List.take_zero, List.cons.injEq, and_true] at hw
    obtain ⟨rfl, rfl, rfl⟩ := hw
    exact ⟨b0, 0, t, rfl, by simpa using hk, by rw [hlen]; exact hs⟩
  | [], _, hlen => simp at hlen
  | [_], _, hlen => simp at hlen
  | [_, _], _, hlen => simp at hlen

theorem isReg_straightLine : StraightLine (iprog 0x1000 isReg) 0x1000 isReg := by
  refine ⟨iprog_instAt_of _ _ _ 0 _ (by decide +kernel) rfl (by decide), by decide, .inr ?_⟩
  refine ⟨iprog_instAt_of _ _ _ 1 _ (by decide +kernel) rfl (by decide), by decide, .inr ?_⟩
  refine ⟨iprog_instAt_of _ _ _ 2 _ (by decide +kernel) rfl (by decide), by decide, .inr ?_⟩
  refine ⟨iprog_instAt_of _ _ _ 3 _ (by decide +kernel) rfl (by decide), by decide, .inr ?_⟩
  refine ⟨iprog_instAt_of _ _ _ 4 _ (by decide +kernel) rfl (by decide), by decide, .inr ?_⟩
  refine ⟨iprog_instAt_of _ _ _ 5 _ (by decide +kernel) rfl (by decide), by decide, .inr ?_⟩
  refine ⟨iprog_instAt_of _ _ _ 6 _ (by decide +kernel) rfl (by decide), by decide, .inr ?_⟩
  exact ⟨iprog_instAt_of _ _ _ 7 _ (by decide +kernel) rfl (by decide), by decide, .inl rfl⟩


/-- wavefront 1 only loads the dwords wavefront 0 (`csGood`) loads, xors and stores back -/
def csLoad : List CInst := [.smov 4 0x200000, .smov 5 0, .vxor 2 4 0, .vmov 3 5, .fld 6 2, .wait 0 0, .endp]
def evsLoad : List Ev :=
  [.fetch, .fetchRet] ++ stp ++ stp ++ stp ++ stp ++ stm ++ [.decode, .issue, .serveV 0, .retV, .complete] ++ stq
def PsRace : List Prog := [cprog 0x1000 csGood noForeign, cprog 0x2000 csLoad noForeign]
def initsRace : List (Nat × RF) := [(0x1000, demoRegs), (0x2000, demoRegs)]
/-- all of wavefront 0, then all of wavefront 1 -/
def cuA : List (Nat × Ev) := evsGood.map (fun e => (0, e)) ++ evsLoad.map (fun e => (1, e))
/-- all of wavefront 1, then all of wavefront 0 -/
def cuB : List (Nat × Ev) := evsLoad.map (fun e => (1, e)) ++ evsGood.map (fun e => (0, e))

theorem PsRace_not_sep : ¬ SepL PsRace := by
  intro h
  have := h 0 1 _ _ rfl rfl (by decide) 0x200000 rfl
  cases this


theorem list_map_eq_pair {α β : Type} (f : α → β) (c : List α) (x y : β) (h : c.map f = [x, y]) :
    ∃ a b, c = [a, b] ∧ f a = x ∧ f b = y := by
  match c, h with
  | [a, b], h =>
    simp only [List.map_cons, List.map_nil, List.cons.injEq, and_true] at h
    exact ⟨a, b, rfl, h.1, h.2⟩
  | [], h => simp at h
  | [_], h => simp at h
  | _ :: _ :: _ :: _, h => simp at h


end C02.Wf
