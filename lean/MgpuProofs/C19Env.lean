import MgpuProofs.C19Stage2
/-! Helper lemmas for C19 (closed system): the moves of the environment (network, memories, control
    side) keep the invariant of a direction. -/
namespace C19

variable {v : DirV} {live : List Live}

theorem perm_eraseIdx {α : Type} (l : List α) (k : Nat) (m : α) (h : l[k]? = some m) :
    l.Perm (m :: l.eraseIdx k) := by
  induction l generalizing k with
  | nil => simp at h
  | cons x l ih =>
    cases k with
    | zero => simp at h; subst h; simp
    | succ k =>
      simp only [List.getElem?_cons_succ] at h
      simp only [List.eraseIdx_cons_succ]
      exact (List.Perm.cons x (ih k h)).trans (List.Perm.swap m x _)

theorem flatMap_eraseIdx {α β : Type} (f : α → List β) (l : List α) (k : Nat) (m : α) (h : l[k]? = some m) :
    (l.flatMap f).Perm (f m ++ (l.eraseIdx k).flatMap f) := by
  have := List.Perm.flatMap_right f (perm_eraseIdx l k m h)
  simpa using this

theorem mem_of_getElem? {α : Type} {l : List α} {k : Nat} {m : α} (h : l[k]? = some m) : m ∈ l :=
  List.mem_of_getElem? h

/-! ### the network picks a message up -/

theorem Dir.pick_rq (h : Dir v live) (m : RMsg) (rest : List RMsg) (hr : v.rq.remOut = m :: rest)
    (hside : ∀ r, m = .rsp r → r.dst ≠ some v.p) :
    Dir { v with rq := { v.rq with remOut := rest }, net := v.net ++ [m] } live := by
  have hnb := h.nobad
  have hT : (toks { v with rq := { v.rq with remOut := rest }, net := v.net ++ [m] }).Perm (toks v) := by
    cases m with
    | req r =>
      have := (h.rt2 r (by simp [hr])).1
      simp only [toks, reqSide, hr, List.flatMap_cons, List.flatMap_append, List.flatMap_nil, outReq, netTok,
        this, if_true]
      count_perm
    | rsp r =>
      have := hside r rfl
      simp only [toks, reqSide, hr, List.flatMap_cons, List.flatMap_append, List.flatMap_nil, outReq, netTok,
        this, if_false]
      count_perm
    | junk d =>
      exfalso; apply hnb
      simp [toks, reqSide, hr, outReq]
  refine h.move _ hT rfl rfl rfl rfl rfl rfl rfl rfl h.wd h.mi h.rt1 ?_ h.rt3 h.rp h.rd1 h.rd2
  intro r hr'; exact h.rt2 r (by simp [hr, hr'])

theorem Dir.pick_ow (h : Dir v live) (m : RMsg) (rest : List RMsg) (hr : v.ow.remOut = m :: rest)
    (hside : ∀ r, m = .req r → r.src ≠ v.p) (hj : ∀ d, m ≠ .junk d) :
    Dir { v with ow := { v.ow with remOut := rest }, net := v.net ++ [m] } live := by
  have hT : (toks { v with ow := { v.ow with remOut := rest }, net := v.net ++ [m] }).Perm (toks v) := by
    cases m with
    | req r =>
      have := hside r rfl
      simp only [toks, ownSide, hr, List.flatMap_cons, List.flatMap_append, List.flatMap_nil, outRsp, netTok,
        this, if_false]
      count_perm
    | rsp r =>
      have := h.rd2 r (by simp [hr])
      simp only [toks, ownSide, hr, List.flatMap_cons, List.flatMap_append, List.flatMap_nil, outRsp, netTok,
        this, if_true]
      count_perm
    | junk d => exact absurd rfl (hj d)
  refine h.move _ hT rfl rfl rfl rfl rfl rfl rfl rfl h.wd h.mi h.rt1 h.rt2 h.rt3 ?_ h.rd1 ?_
  · simpa [ownInner] using h.rp
  · intro r hr'; exact h.rd2 r (by simp [hr, hr'])

/-! ### the network delivers a message -/

theorem Dir.dnet_rq (h : Dir v live) (k : Nat) (m : RMsg) (hm : v.net[k]? = some m)
    (hside : netTok v.p m = inRsp m) :
    Dir { v with rq := { v.rq with remIn := v.rq.remIn ++ [m] }, net := v.net.eraseIdx k } live := by
  have hT : (toks { v with rq := { v.rq with remIn := v.rq.remIn ++ [m] }, net := v.net.eraseIdx k }).Perm
      (toks v) := by
    have hp := flatMap_eraseIdx (netTok v.p) v.net k m hm
    have hc := fun a => List.perm_iff_count.mp hp a
    simp only [toks, reqSide, List.flatMap_append, List.flatMap_cons, List.flatMap_nil, ← hside]
    apply List.perm_iff_count.mpr; intro a
    have := hc a
    simp only [List.count_append, List.count_nil] at this ⊢
    omega
  exact h.move _ hT rfl rfl rfl rfl rfl rfl rfl rfl h.wd h.mi h.rt1 h.rt2 h.rt3 h.rp h.rd1 h.rd2

theorem Dir.dnet_ow (h : Dir v live) (k : Nat) (m : RMsg) (hm : v.net[k]? = some m)
    (hside : netTok v.p m = inReq m) (hsrc : ∀ r, m = .req r → r.src = v.p) :
    Dir { v with ow := { v.ow with remIn := v.ow.remIn ++ [m] }, net := v.net.eraseIdx k } live := by
  have hT : (toks { v with ow := { v.ow with remIn := v.ow.remIn ++ [m] }, net := v.net.eraseIdx k }).Perm
      (toks v) := by
    have hp := flatMap_eraseIdx (netTok v.p) v.net k m hm
    have hc := fun a => List.perm_iff_count.mp hp a
    simp only [toks, ownSide, List.flatMap_append, List.flatMap_cons, List.flatMap_nil, ← hside]
    apply List.perm_iff_count.mpr; intro a
    have := hc a
    simp only [List.count_append, List.count_nil] at this ⊢
    omega
  refine h.move _ hT rfl rfl rfl rfl rfl rfl rfl rfl h.wd h.mi h.rt1 h.rt2 ?_ ?_ h.rd1 h.rd2
  · intro r hr
    rcases List.mem_append.mp hr with hr | hr
    · exact h.rt3 r hr
    · exact hsrc r (by simpa using (List.mem_singleton.mp hr).symm)
  · simpa [ownInner] using h.rp

/-! ### a memory accepts a request / returns a response -/

theorem Dir.mtake_rq (h : Dir v live) (m : MReq) (rest : List MReq) (hr : v.rq.memOut = m :: rest) :
    Dir { v with rq := { v.rq with memOut := rest }, mqR := v.mqR ++ [m] } live := by
  refine h.move _ ?_ rfl rfl rfl rfl rfl rfl rfl rfl h.wd h.mi h.rt1 h.rt2 h.rt3 h.rp h.rd1 h.rd2
  simp only [toks, reqSide, hr, List.flatMap_cons, List.flatMap_append, List.flatMap_nil]
  count_perm

theorem Dir.mtake_ow (h : Dir v live) (m : MReq) (rest : List MReq) (hr : v.ow.memOut = m :: rest) :
    Dir { v with ow := { v.ow with memOut := rest }, mqO := v.mqO ++ [m] } live := by
  refine h.move _ ?_ rfl rfl rfl rfl rfl rfl rfl rfl h.wd h.mi h.rt1 h.rt2 h.rt3 ?_ h.rd1 h.rd2
  · simp only [toks, ownSide, hr, List.flatMap_cons, List.flatMap_append, List.flatMap_nil]
    count_perm
  · rcases h.rp with hp | ⟨hp, hi⟩
    · exact Or.inl hp
    · refine Or.inr ⟨hp, ?_⟩
      simp only [ownInner, hr, List.flatMap_cons, List.flatMap_append, List.flatMap_nil,
        List.append_eq_nil_iff] at hi ⊢
      simp_all

theorem Dir.mrsp_rq (h : Dir v live) (k : Nat) (m : MRsp) (hm : v.mrR[k]? = some m)
    (hroom : v.rq.memIn.length < 1) (hwd : v.rq.wdone = none) :
    Dir { v with rq := { v.rq with memIn := v.rq.memIn ++ [m] }, mrR := v.mrR.eraseIdx k } live := by
  refine h.move _ ?_ rfl rfl rfl rfl rfl rfl rfl rfl ?_ ?_ h.rt1 h.rt2 h.rt3 h.rp h.rd1 h.rd2
  · have hp := flatMap_eraseIdx miDn v.mrR k m hm
    have hc := fun a => List.perm_iff_count.mp hp a
    simp only [toks, reqSide, List.flatMap_append, List.flatMap_cons, List.flatMap_nil]
    apply List.perm_iff_count.mpr; intro a
    have := hc a
    simp only [List.count_append, List.count_nil] at this ⊢
    omega
  · intro hs; simp [hwd] at hs
  · simp only [List.length_append, List.length_singleton]; omega

theorem Dir.mrsp_ow (h : Dir v live) (k : Nat) (m : MRsp) (hm : v.mrO[k]? = some m) :
    Dir { v with ow := { v.ow with memIn := v.ow.memIn ++ [m] }, mrO := v.mrO.eraseIdx k } live := by
  have hp := flatMap_eraseIdx miDt v.mrO k m hm
  refine h.move _ ?_ rfl rfl rfl rfl rfl rfl rfl rfl h.wd h.mi h.rt1 h.rt2 h.rt3 ?_ h.rd1 h.rd2
  · have hc := fun a => List.perm_iff_count.mp hp a
    simp only [toks, ownSide, List.flatMap_append, List.flatMap_cons, List.flatMap_nil]
    apply List.perm_iff_count.mpr; intro a
    have := hc a
    simp only [List.count_append, List.count_nil] at this ⊢
    omega
  · rcases h.rp with hp' | ⟨hp', hi⟩
    · exact Or.inl hp'
    · refine Or.inr ⟨hp', ?_⟩
      simp only [ownInner, List.append_eq_nil_iff] at hi
      have h1 : v.mrO.flatMap miDt = [] := hi.1.1.2
      rw [h1] at hp
      have h2 := List.Perm.nil_eq hp
      simp only [List.nil_eq, List.append_eq_nil_iff] at h2
      simp only [ownInner, List.flatMap_append, List.flatMap_cons, List.flatMap_nil, List.append_eq_nil_iff]
      simp_all

/-! ### the control side delivers a request -/

theorem Phase.setCtlIn {q : Pmc} (x : List CMsg) (h : Phase (key q) ∨ Accepted (key q)) :
    Phase (key { q with ctlIn := x }) ∨ Accepted (key { q with ctlIn := x }) := by
  rcases h with h | h
  · left
    cases h with
    | idle a b c d e => exact Phase.idle a b c d e
    | moving S r a b c d e f g => exact Phase.moving S r a b c d e f g
    | done S r a b c d e f g i => exact Phase.done S r a b c d e f g i
  · right
    cases h with
    | mk S r a b c d e f => exact Accepted.mk S r a b c d e f

theorem migsOf_snoc (l : List CMsg) (c : CMsg) (rest : List CMsg) :
    migsOf (l ++ [c]) ++ migsOf rest = migsOf l ++ migsOf (c :: rest) := by
  rw [migsOf_append, List.append_assoc]
  cases c <;> simp [migsOf]

theorem Dir.ctl (h : Dir v live) (c : CMsg) (rest : List CMsg) (hcq : v.cq = c :: rest) :
    Dir { v with rq := { v.rq with ctlIn := v.rq.ctlIn ++ [c] }, cq := rest } live := by
  obtain ⟨m1, m2⟩ := h.mv_nm (v' := { v with rq := { v.rq with ctlIn := v.rq.ctlIn ++ [c] }, cq := rest })
    (List.Perm.refl _) rfl rfl rfl rfl rfl rfl
  have hmem : ∀ r, r ∈ migsOf (v.rq.ctlIn ++ [c]) ++ migsOf rest ↔ r ∈ migsOf v.rq.ctlIn ++ migsOf v.cq := by
    intro r; rw [migsOf_snoc, hcq]
  exact {
    sf := h.sf
    co := h.co
    ph := Phase.setCtlIn _ h.ph
    idn := h.idn
    lk := by
      have := h.lk
      rw [hcq, ← migsOf_snoc] at this
      exact this
    lm := by
      intro r hr
      refine h.lm r ?_
      rcases hr with hr | hr | hr
      · exact Or.inl hr
      · have := (hmem r).mp (List.mem_append_left _ hr)
        rcases List.mem_append.mp this with t | t
        · exact Or.inr (Or.inl t)
        · exact Or.inr (Or.inr t)
      · have := (hmem r).mp (List.mem_append_right _ hr)
        rcases List.mem_append.mp this with t | t
        · exact Or.inr (Or.inl t)
        · exact Or.inr (Or.inr t)
    cj := by
      have := h.cj
      rw [hcq] at this
      simp only [List.mem_cons, not_or] at this
      refine ⟨?_, this.2.2⟩
      simp only [List.mem_append, List.mem_singleton, not_or]
      exact ⟨this.1, this.2.1⟩
    wd := h.wd
    mi := h.mi
    wf := h.wf
    dn := h.dn
    sr := h.sr
    rt1 := h.rt1
    rt2 := h.rt2
    rt3 := h.rt3
    rp := h.rp
    rd1 := h.rd1
    rd2 := h.rd2
    mv := m1
    nm := m2 }

/-! ### a memory performs a request -/

theorem Dir.mdo_read_rq (h : Dir v live) (k i a n : Nat) (x : List Nat) (hm : v.mqR[k]? = some (.read i a n)) :
    Dir { v with mqR := v.mqR.eraseIdx k, mrR := v.mrR ++ [.data i x] } live := by
  refine h.move _ ?_ rfl rfl rfl rfl rfl rfl rfl rfl h.wd h.mi h.rt1 h.rt2 h.rt3 h.rp h.rd1 h.rd2
  have hp := flatMap_eraseIdx moWr v.mqR k _ hm
  have hc := fun a => List.perm_iff_count.mp hp a
  simp only [toks, List.flatMap_append, List.flatMap_cons, List.flatMap_nil, miDn, moWr] at hc ⊢
  apply List.perm_iff_count.mpr; intro a
  have := hc a
  simp only [List.count_append, List.count_nil] at this ⊢
  omega

theorem Dir.mdo_read_ow (h : Dir v live) (k i a n : Nat) (hm : v.mqO[k]? = some (.read i a n)) :
    a + n ≤ v.memO.size ∧
    Dir { v with mqO := v.mqO.eraseIdx k, mrO := v.mrO ++ [.data i (readBytes v.memO a n)] } live := by
  have hp := flatMap_eraseIdx moRd v.mqO k _ hm
  have hT : (toks v).Perm (Tok.rd i a n :: toks { v with mqO := v.mqO.eraseIdx k }) := by
    have hc := fun a => List.perm_iff_count.mp hp a
    simp only [toks, moRd] at hc ⊢
    apply List.perm_iff_count.mpr; intro a
    have := hc a
    simp only [List.count_append, List.count_cons, List.count_nil] at this ⊢
    omega
  have hT' : (toks { v with mqO := v.mqO.eraseIdx k, mrO := v.mrO ++ [.data i (readBytes v.memO a n)] }).Perm
      (Tok.dt i (readBytes v.memO a n) :: toks { v with mqO := v.mqO.eraseIdx k }) := by
    simp only [toks, List.flatMap_append, List.flatMap_cons, List.flatMap_nil, miDt]
    count_perm
  have hport : v.ow.reqPort = some v.p := by
    rcases h.rp with hp' | ⟨_, hi⟩
    · exact hp'
    · simp only [ownInner, List.append_eq_nil_iff] at hi
      have h1 : v.mqO.flatMap moRd = [] := hi.1.1.1.2
      rw [h1] at hp
      exact absurd (List.Perm.nil_eq hp) (by simp [moRd])
  by_cases hc : v.rq.cur.isSome = true ∧ v.rq.handling = true
  · obtain ⟨hc1, hc2⟩ := hc
    obtain ⟨r, hr⟩ := Option.isSome_iff_exists.mp hc1
    obtain ⟨ℓ, hl, hlp, hlr, b, hmv⟩ := h.mv r hr hc2
    obtain ⟨w1, w2, w3, w4, w5, w6⟩ := h.wf ℓ hl hlp
    have hs := h.sr ℓ hl hlp
    rw [hlr] at w3 w4 hs
    obtain ⟨hle, hmv'⟩ := (hmv.perm hT.symm).read hs w4 w3
    refine ⟨hle, ?_⟩
    exact {
      sf := h.sf
      co := h.co
      ph := h.ph
      idn := h.idn
      lk := h.lk
      lm := h.lm
      cj := h.cj
      wd := h.wd
      mi := h.mi
      wf := h.wf
      dn := h.dn
      sr := h.sr
      rt1 := h.rt1
      rt2 := h.rt2
      rt3 := h.rt3
      rp := Or.inl hport
      rd1 := h.rd1
      rd2 := h.rd2
      mv := by
        intro r' hr' _
        have : r = r' := by
          have : v.rq.cur = some r' := hr'
          rw [hr] at this; injection this
        subst this
        exact ⟨ℓ, hl, hlp, hlr, b, hmv'.perm hT'⟩
      nm := fun hn => absurd ⟨hc1, hc2⟩ hn }
  · rw [(h.nm hc).1] at hT
    exact absurd hT.symm (List.cons_ne_nil _ _ ∘ List.Perm.eq_nil)

/-- requests in flight do not overlap (the harness's validity rule, symmetric form) -/
def Disj (a b : Live) : Prop :=
  (a.p = b.p → disjoint a.r.wr a.r.size b.r.wr b.r.size) ∧
  (a.p ≠ b.p → disjoint a.r.wr a.r.size b.r.rd b.r.size ∧ disjoint b.r.wr b.r.size a.r.rd a.r.size)

theorem Disj.symm {a b : Live} (h : Disj a b) : Disj b a := by
  unfold Disj disjoint at *
  refine ⟨fun e => ?_, fun e => ?_⟩
  · have := h.1 e.symm; omega
  · have := h.2 (fun e' => e e'.symm); exact ⟨this.2, this.1⟩

theorem pairwise_mem {α : Type} {R : α → α → Prop} (hs : ∀ a b, R a b → R b a) {l : List α}
    (h : l.Pairwise R) {a b : α} (ha : a ∈ l) (hb : b ∈ l) (hne : a ≠ b) : R a b := by
  induction l with
  | nil => cases ha
  | cons x l ih =>
    rw [List.pairwise_cons] at h
    rcases List.mem_cons.mp ha with h1 | h1 <;> rcases List.mem_cons.mp hb with h2 | h2
    · exact absurd (h1.trans h2.symm) hne
    · rw [h1]; exact h.1 b h2
    · rw [h2]; exact hs _ _ (h.1 a h1)
    · exact ih h.2 h1 h2

theorem Img.frame {m : Mem} {a : Nat} {S : List Nat} {lo hi : Nat} (h : Img m a S lo hi) (a' : Nat) (d : List Nat)
    (hin : a' + d.length ≤ m.size) (hd : a' + d.length ≤ a + lo ∨ a + hi ≤ a') :
    Img (writeBytes m a' d) a S lo hi := by
  intro j h1 h2
  rw [readByte_writeBytes _ _ _ _ hin, if_neg (by omega)]
  exact h j h1 h2

theorem Dir.mdo_write_ow (h : Dir v live) (k i a : Nat) (d : List Nat) (hm : v.mqO[k]? = some (.write i a d))
    (hin : a + d.length ≤ v.memO.size)
    (hfr : ∀ ℓ ∈ live, ℓ.p = v.p → disjoint a d.length ℓ.r.rd ℓ.r.size) :
    Dir { v with mqO := v.mqO.eraseIdx k, mrO := v.mrO ++ [.done i], memO := writeBytes v.memO a d } live := by
  have hp := flatMap_eraseIdx moRd v.mqO k _ hm
  simp only [moRd, List.nil_append] at hp
  have hT : (toks { v with mqO := v.mqO.eraseIdx k, mrO := v.mrO ++ [.done i], memO := writeBytes v.memO a d }).Perm
      (toks v) := by
    have hc := fun a => List.perm_iff_count.mp hp a
    simp only [toks, List.flatMap_append, List.flatMap_cons, List.flatMap_nil, miDt]
    apply List.perm_iff_count.mpr; intro a
    have := hc a
    simp only [List.count_append, List.count_nil] at this ⊢
    omega
  obtain ⟨m1, m2⟩ := h.mv_nm (v' := { v with mqO := v.mqO.eraseIdx k, mrO := v.mrO ++ [.done i], memO := writeBytes v.memO a d }) hT rfl rfl rfl rfl rfl rfl
  exact {
    sf := h.sf
    co := h.co
    ph := h.ph
    idn := h.idn
    lk := h.lk
    lm := h.lm
    cj := h.cj
    wd := h.wd
    mi := h.mi
    wf := by
      intro ℓ hl hlp
      have := h.wf ℓ hl hlp
      simpa [size_writeBytes] using this
    dn := h.dn
    sr := by
      intro ℓ hl hlp
      refine (h.sr ℓ hl hlp).frame a d hin ?_
      have := hfr ℓ hl hlp
      unfold disjoint at this
      omega
    rt1 := h.rt1
    rt2 := h.rt2
    rt3 := h.rt3
    rp := by
      rcases h.rp with hp' | ⟨hp', hi⟩
      · exact Or.inl hp'
      · refine Or.inr ⟨hp', ?_⟩
        simp only [ownInner, List.append_eq_nil_iff] at hi
        have h1 : v.mqO.flatMap moRd = [] := hi.1.1.1.2
        rw [h1] at hp
        have h2 := List.Perm.nil_eq hp
        simp only [ownInner, List.flatMap_append, List.flatMap_cons, List.flatMap_nil, List.append_eq_nil_iff, miDt]
        simp_all
    rd1 := h.rd1
    rd2 := h.rd2
    mv := m1
    nm := m2 }

theorem Dir.mdo_write_rq (h : Dir v live) (hlo : live.Pairwise Disj) (k i a : Nat) (d : List Nat)
    (hm : v.mqR[k]? = some (.write i a d)) :
    a + d.length ≤ v.memR.size ∧
    (∃ ℓ ∈ live, ℓ.p = v.p ∧ ℓ.r.wr ≤ a ∧ a + d.length ≤ ℓ.r.wr + ℓ.r.size ∧
      v.rq.cur = some ℓ.r ∧ v.rq.handling = true) ∧
    Dir { v with mqR := v.mqR.eraseIdx k, mrR := v.mrR ++ [.done i], memR := writeBytes v.memR a d } live := by
  have hp := flatMap_eraseIdx moWr v.mqR k _ hm
  have hT : (toks v).Perm (Tok.wr a d :: toks { v with mqR := v.mqR.eraseIdx k }) := by
    have hc := fun a => List.perm_iff_count.mp hp a
    simp only [toks, moWr] at hc ⊢
    apply List.perm_iff_count.mpr; intro a
    have := hc a
    simp only [List.count_append, List.count_cons, List.count_nil] at this ⊢
    omega
  have hT' : (toks { v with mqR := v.mqR.eraseIdx k, mrR := v.mrR ++ [.done i], memR := writeBytes v.memR a d }).Perm (Tok.dn :: toks { v with mqR := v.mqR.eraseIdx k }) := by
    simp only [toks, List.flatMap_append, List.flatMap_cons, List.flatMap_nil, miDn]
    count_perm
  by_cases hc : v.rq.cur.isSome = true ∧ v.rq.handling = true
  · obtain ⟨hc1, hc2⟩ := hc
    obtain ⟨r, hr⟩ := Option.isSome_iff_exists.mp hc1
    obtain ⟨ℓ, hl, hlp, hlr, b, hmv⟩ := h.mv r hr hc2
    obtain ⟨w1, w2, w3, w4, w5, w6⟩ := h.wf ℓ hl hlp
    rw [hlr] at w3 w5
    obtain ⟨hin, hlow, hhigh, hmv'⟩ := (hmv.perm hT.symm).write w5 w3
    refine ⟨hin, ⟨ℓ, hl, hlp, by rw [hlr]; exact hlow, by rw [hlr]; exact hhigh, by rw [hlr]; exact hr, hc2⟩, ?_⟩
    -- the active request is neither emitted nor decided
    have hact : activeId v.rq = some r.id := by simp [activeId, hr]
    have htc : v.rq.toCtrl = none := by
      rcases h.ph with ph | ph
      · cases ph with
        | idle _ g2 => simp only [key] at g2; rw [hr] at g2; cases g2
        | moving S r' _ _ _ _ g5 => exact g5
        | done S r' _ g2 => simp only [key] at g2; rw [hr] at g2; cases g2
      · cases ph with
        | mk S r' _ _ _ _ g5 _ => exact g5
    have hnot : r.id ∉ v.rq.ctlOut := by
      have hn := h.idn
      rw [h.lk, hact] at hn
      simp only [Option.toList_some, List.append_assoc, List.singleton_append] at hn
      intro hin'
      have := (List.nodup_append.mp hn).2.2 r.id hin' r.id (List.mem_cons_self ..)
      exact this rfl
    exact {
      sf := h.sf
      co := h.co
      ph := h.ph
      idn := h.idn
      lk := h.lk
      lm := h.lm
      cj := h.cj
      wd := h.wd
      mi := h.mi
      wf := by
        intro ℓ' hl' hlp'
        have := h.wf ℓ' hl' hlp'
        simpa [size_writeBytes] using this
      dn := by
        intro ℓ' hl' hlp' hid
        have hne : ℓ' ≠ ℓ := by
          intro e
          rw [e, hlr] at hid
          rcases hid with hid | hid
          · exact hnot hid
          · rw [htc] at hid; cases hid
        have hd := (pairwise_mem (fun _ _ => Disj.symm) hlo hl' hl hne).1 (hlp'.trans hlp.symm)
        refine (h.dn ℓ' hl' hlp' hid).frame a d hin ?_
        rw [hlr] at hd
        unfold disjoint at hd
        omega
      sr := h.sr
      rt1 := h.rt1
      rt2 := h.rt2
      rt3 := h.rt3
      rp := h.rp
      rd1 := h.rd1
      rd2 := h.rd2
      mv := by
        intro r' hr' _
        have : r = r' := by
          have : v.rq.cur = some r' := hr'
          rw [hr] at this; injection this
        subst this
        exact ⟨ℓ, hl, hlp, hlr, b, hmv'.perm hT'⟩
      nm := fun hn => absurd ⟨hc1, hc2⟩ hn }
  · rw [(h.nm hc).1] at hT
    exact absurd hT.symm (List.cons_ne_nil _ _ ∘ List.Perm.eq_nil)

end C19
