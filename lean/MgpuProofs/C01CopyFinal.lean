import MgpuProofs.C01CopyGrid
/-! # C01 — `copyKernel`: from the byte images the driver installs to the final memory

`get_install`: memory content after a host-to-device copy; `img_of_install`: the kernel-argument image
`KernelMemCopyArgs{src,dst,num}` (+ zero hidden global offset) and a dispatch packet with work-group size 64
provide what the kernel reads; `copy_final`: the emulator's result on the whole dispatch. -/
set_option linter.unusedSimpArgs false
set_option linter.unusedVariables false
set_option maxRecDepth 100000
namespace C01.Emu.Copy
open C03V

theorem lookup_zip (a : Nat) (bs : List Nat) : ∀ (k : Nat) (m : Mem) (x : Nat),
    C03V.lookup ((bs.zipIdx k).map (fun p => (a + p.2, p.1)) ++ m) x =
      if a + k ≤ x ∧ x < a + k + bs.length then bs.getD (x - (a + k)) 0 else C03V.lookup m x := by
  induction bs with
  | nil =>
    intro k m x
    have : ¬ (a + k ≤ x ∧ x < a + k + ([] : List Nat).length) := by simp
    rw [if_neg this]; rfl
  | cons b bs ih =>
    intro k m x
    rw [List.zipIdx_cons, List.map_cons, List.cons_append, lookup_cons, ih (k + 1) m x]
    by_cases h : a + k = x
    · subst h
      simp
    · simp only [h, if_false, List.length_cons]
      by_cases h2 : a + (k + 1) ≤ x ∧ x < a + (k + 1) + bs.length
      · have h3 : a + k ≤ x ∧ x < a + k + (bs.length + 1) := by omega
        rw [if_pos h2, if_pos h3]
        have : x - (a + k) = (x - (a + (k + 1))) + 1 := by omega
        rw [this, List.getD_cons_succ]
      · have h3 : ¬ (a + k ≤ x ∧ x < a + k + (bs.length + 1)) := by omega
        rw [if_neg h2, if_neg h3]

/-- reading a memory after the driver copied a byte image into it -/
theorem get_install (a : Nat) (bs : List Nat) (m : Mem) (x : Nat) :
    get (install a bs m) x = if a ≤ x ∧ x < a + bs.length then bs.getD (x - a) 0 else get m x := by
  unfold get install
  have h := lookup_zip a bs 0 m x
  simp only [Nat.add_zero] at h
  exact h


/-- eight little-endian bytes -/
def le8 (x : Nat) : List Nat :=
  [x % 256, x / 256 % 256, x / 65536 % 256, x / 16777216 % 256, x / 4294967296 % 256,
   x / 1099511627776 % 256, x / 281474976710656 % 256, x / 72057594037927936 % 256]

/-- the first 32 bytes of the kernel-argument segment as `EnqueueMemCopyD2D` fills it
    (`KernelMemCopyArgs{src, dst, int64(num)}`) followed by the hidden global offset x = 0 -/
def kernargImage (c : Cfg) : List Nat := le8 c.src ++ le8 c.dst ++ le8 c.N ++ le8 0

theorem le4_join (x : Nat) :
    x % 256 + x / 256 % 256 * 2 ^ 8 + x / 65536 % 256 * 2 ^ 16 + x / 16777216 % 256 * 2 ^ 24 = x % 2 ^ 32 := by omega

theorem le4_join_hi (x : Nat) (hx : x < 2 ^ 64) :
    x / 4294967296 % 256 + x / 1099511627776 % 256 * 2 ^ 8 + x / 281474976710656 % 256 * 2 ^ 16 +
      x / 72057594037927936 % 256 * 2 ^ 24 = x / 2 ^ 32 := by omega

theorem kernargImage_getD (c : Cfg) (tail : List Nat) (i : Nat) (hi : i < 32) :
    (kernargImage c ++ tail).getD i 0 = (kernargImage c).getD i 0 := by
  have hlen : (kernargImage c).length = 32 := rfl
  rw [List.getD_eq_getElem?_getD, List.getD_eq_getElem?_getD, List.getElem?_append_left (by rw [hlen]; exact hi)]


theorem low16 (b4 b5 b6 b7 : Nat) (h4 : b4 = 64) (h5 : b5 = 0) :
    (b4 + b5 * 2 ^ 8 + b6 * 2 ^ 16 + b7 * 2 ^ 24) % 65536 = 64 := by
  subst h4; subst h5; omega

/-- the launch image the driver builds satisfies what the kernel reads from it -/
theorem img_of_install (c : Cfg) (hv : c.Valid) (tail pk : List Nat) (m : Mem)
    (hpk : 8 ≤ pk.length) (h4 : pk.getD 4 0 = 64) (h5 : pk.getD 5 0 = 0)
    (hsep : c.ka + 32 ≤ c.pa ∨ c.pa + pk.length ≤ c.ka)
    (hsrc : c.src < 2 ^ 64) (hdst : c.dst < 2 ^ 64) :
    Img c (get (install c.pa pk (install c.ka (kernargImage c ++ tail) m))) := by
  generalize hf : get (install c.pa pk (install c.ka (kernargImage c ++ tail) m)) = f
  have fp : ∀ j, j < 4 → f (c.pa + 4 + j) = pk.getD (4 + j) 0 := by
    intro j hj
    rw [← hf, get_install, if_pos ⟨by omega, by omega⟩]
    congr 1
    omega
  have fk : ∀ i, i < 32 → f (c.ka + i) = (kernargImage c).getD i 0 := by
    intro i hi
    rw [← hf, get_install, if_neg (by omega), get_install, if_pos ⟨by omega, by simp [kernargImage, le8]; omega⟩,
      Nat.add_sub_cancel_left, kernargImage_getD c tail i hi]
  have hN := hv.n31
  refine ⟨?_, ?_, ?_, ?_, ?_, ?_, ?_⟩
  · unfold rd32
    rw [show c.pa + 4 = c.pa + 4 + 0 from rfl, fp 0 (by decide), fp 1 (by decide), fp 2 (by decide), fp 3 (by decide)]
    exact low16 _ _ _ _ h4 h5
  · unfold rd32
    rw [Nat.add_assoc c.ka 16 1, Nat.add_assoc c.ka 16 2, Nat.add_assoc c.ka 16 3, fk 16 (by decide), fk (16 + 1) (by decide),
      fk (16 + 2) (by decide), fk (16 + 3) (by decide)]
    show (c.N % 256 + c.N / 256 % 256 * 2 ^ 8 + c.N / 65536 % 256 * 2 ^ 16 + c.N / 16777216 % 256 * 2 ^ 24) % 2 ^ 32 = c.N
    rw [le4_join, Nat.mod_mod]
    exact Nat.mod_eq_of_lt (by omega)
  · unfold rd32
    rw [Nat.add_assoc c.ka 24 1, Nat.add_assoc c.ka 24 2, Nat.add_assoc c.ka 24 3, fk 24 (by decide), fk (24 + 1) (by decide),
      fk (24 + 2) (by decide), fk (24 + 3) (by decide)]
    show ((0 : Nat) % 256 + 0 / 256 % 256 * 2 ^ 8 + 0 / 65536 % 256 * 2 ^ 16 + 0 / 16777216 % 256 * 2 ^ 24) % 2 ^ 32 = 0
    rw [le4_join]
  · unfold rd32
    rw [show c.ka = c.ka + 0 from rfl, Nat.add_assoc c.ka 0 1, Nat.add_assoc c.ka 0 2, Nat.add_assoc c.ka 0 3, fk 0 (by decide),
      fk (0 + 1) (by decide), fk (0 + 2) (by decide), fk (0 + 3) (by decide)]
    show (c.src % 256 + c.src / 256 % 256 * 2 ^ 8 + c.src / 65536 % 256 * 2 ^ 16 + c.src / 16777216 % 256 * 2 ^ 24) % 2 ^ 32 = _
    rw [le4_join, Nat.mod_mod]
  · unfold rd32
    rw [Nat.add_assoc c.ka 4 1, Nat.add_assoc c.ka 4 2, Nat.add_assoc c.ka 4 3, fk 4 (by decide), fk (4 + 1) (by decide),
      fk (4 + 2) (by decide), fk (4 + 3) (by decide)]
    show (c.src / 4294967296 % 256 + c.src / 1099511627776 % 256 * 2 ^ 8 + c.src / 281474976710656 % 256 * 2 ^ 16 +
      c.src / 72057594037927936 % 256 * 2 ^ 24) % 2 ^ 32 = _
    rw [le4_join_hi _ hsrc]
    exact Nat.mod_eq_of_lt (by omega)
  · unfold rd32
    rw [Nat.add_assoc c.ka 8 1, Nat.add_assoc c.ka 8 2, Nat.add_assoc c.ka 8 3, fk 8 (by decide), fk (8 + 1) (by decide),
      fk (8 + 2) (by decide), fk (8 + 3) (by decide)]
    show (c.dst % 256 + c.dst / 256 % 256 * 2 ^ 8 + c.dst / 65536 % 256 * 2 ^ 16 + c.dst / 16777216 % 256 * 2 ^ 24) % 2 ^ 32 = _
    rw [le4_join, Nat.mod_mod]
  · unfold rd32
    rw [Nat.add_assoc c.ka 12 1, Nat.add_assoc c.ka 12 2, Nat.add_assoc c.ka 12 3, fk 12 (by decide), fk (12 + 1) (by decide),
      fk (12 + 2) (by decide), fk (12 + 3) (by decide)]
    show (c.dst / 4294967296 % 256 + c.dst / 1099511627776 % 256 * 2 ^ 8 + c.dst / 281474976710656 % 256 * 2 ^ 16 +
      c.dst / 72057594037927936 % 256 * 2 ^ 24) % 2 ^ 32 = _
    rw [le4_join_hi _ hdst]
    exact Nat.mod_eq_of_lt (by omega)


/-- the memory the kernel starts on: the caller's memory with kernel arguments and packet installed -/
def launchMem (c : Cfg) (tail pk : List Nat) (m : Mem) : Mem :=
  install c.pa pk (install c.ka (kernargImage c ++ tail) m)

/-- **whole dispatch.** The emulator terminates without fault and the final memory is the launch memory
    with `dst[i] = src[i]` for the `4·K` bytes of the `K = min G N` copied elements; every other byte
    (of the destination buffer and of all memory) is unchanged. -/
theorem copy_final (c : Cfg) (hv : c.Valid) (hG : 0 < c.G) (tail pk : List Nat) (m : Mem) (fuel : Nat)
    (hpk : 8 ≤ pk.length) (h4 : pk.getD 4 0 = 64) (h5 : pk.getD 5 0 = 0)
    (hsep : c.ka + 32 ≤ c.pa ∨ c.pa + pk.length ≤ c.ka)
    (hsrc : c.src < 2 ^ 64) (hdst : c.dst < 2 ^ 64)
    (hbytes : ∀ i, i < 4 * c.K → get (launchMem c tail pk m) (c.src + i) < 256) :
    ∃ m', runE P (disp c (kernargImage c ++ tail) pk) (fuel + 27) m = .ok m' ∧
      (∀ i, i < 4 * c.K → get m' (c.dst + i) = get (launchMem c tail pk m) (c.src + i)) ∧
      (∀ a, ¬ c.inDst a → get m' a = get (launchMem c tail pk m) a) := by
  have himg := img_of_install c hv tail pk m hpk h4 h5 hsep hsrc hdst
  obtain ⟨m', hrun, hget⟩ := runE_effect c hv hG (kernargImage c ++ tail) pk m fuel himg
  change get m' = applyWrites (allPairs c (get (launchMem c tail pk m))) (get (launchMem c tail pk m)) at hget
  refine ⟨m', hrun, ?_, ?_⟩
  · intro i hi
    have hin : c.inDst (c.dst + i) := ⟨Nat.le_add_right _ _, by omega⟩
    rw [hget, copy_result c hG _ hbytes, if_pos hin, Nat.add_sub_cancel_left]
  · intro a ha
    rw [hget, copy_result c hG _ hbytes, if_neg ha]

/-- the launch `Driver.EnqueueMemCopyD2D(dst, src, num)` creates: `⌈num/4⌉` work-items, `N = num` -/
def d2dCfg (co ka pa src dst num : Nat) : Cfg := ⟨co, ka, pa, src, dst, num, (num + 3) / 4⟩

theorem d2dCfg_K (co ka pa src dst num : Nat) (h : 0 < num) : (d2dCfg co ka pa src dst num).K = (num + 3) / 4 := by
  unfold Cfg.K d2dCfg
  simp only
  omega


end C01.Emu.Copy
