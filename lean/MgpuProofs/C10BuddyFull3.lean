import MgpuProofs.C10BuddyFull2
/-!
Buddy allocator, histories with frees — part 3: the five elementary state changes preserve `FInv`.
-/
namespace C10.Buddy

abbrev UsedN (F : Nat) (s : State) (l k : Nat) : Prop := Used (FreeN F s) (SplitN F s) l k

/-- changes of the free lists / bit fields only: the tracker clauses carry over as long as every used block that
holds a tracked page stays used -/
theorem FInv.frame {F : Nat} {s s' : State} (h : FInv F s) (hb : s'.base = s.base) (hz : s'.size = s.size)
    (ht : s'.track = s.track) (htk : s'.trk = s.trk) (hlen : s'.free.length = s.free.length)
    (hfn : ∀ l a, a ∈ lvl s'.free l → ∃ k, k < 2 ^ l ∧ a = addr s.base F l k)
    (hfd : ∀ l, (lvl s'.free l).Nodup) (hsn : s'.split.Nodup) (hmn : s'.merge.Nodup)
    (htree : AInv F (FreeN F s') (SplitN F s') (MergeN s'))
    (hU : ∀ l k p id, l ≤ F → k < 2 ^ l → UsedN F s l k → (p, id) ∈ s.track → addr s.base F l k ≤ p →
      p < addr s.base F l k + szl (4096 * 2 ^ F) l → UsedN F s' l k) : FInv F s' := by
  refine ⟨hz.trans h.hsize, hlen.trans h.hlen, ?_, hfd, hsn, hmn, htree, ?_, ?_, ?_⟩
  · intro l a ha
    rw [hb]
    exact hfn l a ha
  · intro p id hp
    rw [ht] at hp
    obtain ⟨l, k, num, hl, hk, e, hu, g1, g2⟩ := h.D p id hp
    rw [hb, htk]
    exact ⟨l, k, num, hl, hk, e, hU l k p id hl hk hu hp g1 g2, g1, g2⟩
  · rw [ht, htk]
    exact h.Dinj
  · rw [ht, htk]
    exact h.Dcnt

/-! ## the free lists under push / erase -/

theorem fnode_set {F : Nat} {s s' : State} {l : Nat} {x : List Nat}
    (hfn : ∀ l a, a ∈ lvl s.free l → ∃ k, k < 2 ^ l ∧ a = addr s.base F l k)
    (hf : s'.free = setLvl s.free l x) (hx : ∀ a ∈ x, ∃ k, k < 2 ^ l ∧ a = addr s.base F l k) :
    ∀ l' a, a ∈ lvl s'.free l' → ∃ k, k < 2 ^ l' ∧ a = addr s.base F l' k := by
  intro l' a ha
  rw [hf, lvl_setLvl] at ha
  split at ha
  · rename_i hc
    obtain ⟨rfl, -⟩ := hc
    exact hx a ha
  · exact hfn l' a ha

theorem fnodup_set {s s' : State} {l : Nat} {x : List Nat} (hfd : ∀ l, (lvl s.free l).Nodup)
    (hf : s'.free = setLvl s.free l x) (hx : x.Nodup) : ∀ l', (lvl s'.free l').Nodup := by
  intro l'
  rw [hf, lvl_setLvl]
  split
  · exact hx
  · exact hfd l'

theorem addr_succ (base F l k : Nat) : addr base F l (k + 1) = addr base F l k + szl (4096 * 2 ^ F) l := by
  unfold addr
  rw [Nat.add_mul k 1, Nat.one_mul, Nat.add_assoc]

/-- a tracked page never lies inside a free block -/
theorem FInv.trk_not_free {F : Nat} {s : State} (h : FInv F s) {l k : Nat} (hl : l ≤ F) (hk : k < 2 ^ l)
    (hf : FreeN F s l k) : NoTrk F s l k := by
  intro p id hp hin
  obtain ⟨l', k', num, hl', hk', -, ⟨uex, uns, unf⟩, g1, g2⟩ := h.D p id hp
  obtain ⟨fex, fns⟩ := h.tree.A l k hl hk hf
  obtain ⟨e1, e2⟩ := leaf_overlap h.tree hl hk hl' hk' fex fns uex uns hin.1 hin.2 g1 g2
  subst e1; subst e2
  exact unf hf

/-! ## the elementary steps -/

/-- a free block is taken off its list (and the merge bit of its parent toggled) -/
theorem finv_take {F : Nat} {s s' : State} (h : FInv F s) {l k : Nat} (hl : l ≤ F) (hk : k < 2 ^ l)
    (hf : FreeN F s l k) (hb : s'.base = s.base) (hz : s'.size = s.size) (ht : s'.track = s.track)
    (htk : s'.trk = s.trk) (hsp : s'.split = s.split)
    (hfr : s'.free = setLvl s.free l ((lvl s.free l).erase (addr s.base F l k)))
    (hmn : s'.merge.Nodup)
    (hmg : ∀ l' k', l' < F → k' < 2 ^ l' →
      (MergeN s' l' k' ↔ if l = l' + 1 ∧ k / 2 = k' then ¬ MergeN s l' k' else MergeN s l' k')) :
    FInv F s' ∧ UsedN F s' l k ∧ NoTrk F s' l k := by
  have hlen1 : l < s.free.length := by rw [h.hlen]; omega
  obtain ⟨t, u, o⟩ := h.tree.take (Fr' := FreeN F s') (Sp' := SplitN F s') (Mg' := MergeN s') hl hk hf
    (fun l' k' _ _ => freeN_erase hb hfr hlen1 hl (h.fnodup l) l' k')
    (fun l' k' _ _ => by unfold SplitN; rw [hsp])
    hmg
  refine ⟨?_, u, ?_⟩
  · refine h.frame hb hz ht htk (by rw [hfr, length_setLvl]) ?_ ?_ (by rw [hsp]; exact h.snodup) hmn t ?_
    · exact fnode_set h.fnode hfr (fun a ha => h.fnode l a (List.mem_of_mem_erase ha))
    · exact fnodup_set h.fnodup hfr ((h.fnodup l).erase _)
    · intro l' k' p id hl' hk' hu _ _ _
      exact o l' k' hl' hk' hu
  · have := h.trk_not_free hl hk hf
    intro p id hp
    rw [ht] at hp
    rw [hb]
    exact this p id hp

/-- a used block is split once -/
theorem finv_split {F : Nat} {s s' : State} (h : FInv F s) {l k : Nat} (hl : l < F) (hk : k < 2 ^ l)
    (hu : UsedN F s l k) (hnt : NoTrk F s l k) (hb : s'.base = s.base) (hz : s'.size = s.size)
    (ht : s'.track = s.track) (htk : s'.trk = s.trk) (hsp : s'.split = toggle s.split (ix l k))
    (hmg : s'.merge = toggle s.merge (ix l k))
    (hfr : s'.free = setLvl s.free (l + 1) (lvl s.free (l + 1) ++ [addr s.base F (l + 1) (2 * k + 1)])) :
    FInv F s' ∧ UsedN F s' (l + 1) (2 * k) ∧ NoTrk F s' (l + 1) (2 * k) := by
  have hlen1 : l + 1 < s.free.length := by rw [h.hlen]; omega
  have pl := pow_succ2 l
  obtain ⟨t, u, o⟩ := h.tree.split (Fr' := FreeN F s') (Sp' := SplitN F s') (Mg' := MergeN s') hl hk hu
    (fun l' k' _ _ => freeN_push hb hfr hlen1 (by omega) l' k')
    (fun l' k' _ hk' => by
      rw [splitN_toggle hsp h.snodup hl hk hk']
      by_cases hc : l' = l ∧ k' = k
      · obtain ⟨rfl, rfl⟩ := hc
        simp [hu.2.1]
      · simp [hc])
    (fun l' k' _ hk' => mergeN_toggle hmg h.mnodup hk hk')
  have f1 : ¬ FreeN F s (l + 1) (2 * k + 1) := by
    intro hf
    have := (h.tree.A _ _ (by omega) (by omega) hf).1 l rfl
    rw [show (2 * k + 1) / 2 = k by omega] at this
    exact hu.2.1 this
  refine ⟨?_, u, ?_⟩
  · refine h.frame hb hz ht htk (by rw [hfr, length_setLvl]) ?_ ?_ (by rw [hsp]; exact toggle_nodup h.snodup _)
      (by rw [hmg]; exact toggle_nodup h.mnodup _) t ?_
    · refine fnode_set h.fnode hfr (fun a ha => ?_)
      rcases List.mem_append.mp ha with ha | ha
      · exact h.fnode _ a ha
      · rw [List.mem_singleton] at ha
        exact ⟨2 * k + 1, by omega, ha⟩
    · refine fnodup_set h.fnodup hfr ?_
      refine List.nodup_append.mpr ⟨h.fnodup _, by simp, ?_⟩
      intro a ha b hb' e
      rw [List.mem_singleton] at hb'
      subst hb'; subst e
      exact f1 ha
    · intro l' k' p id hl' hk' hu' hp g1 g2
      refine o l' k' hl' hk' hu' ?_
      rintro ⟨rfl, rfl⟩
      exact hnt p id hp ⟨g1, g2⟩
  · intro p id hp
    rw [ht] at hp
    rw [hb, addr_child (by omega)]
    have := hnt p id hp
    have := szl_succ (F := F) (l := l) (by omega)
    omega

/-- `freeBlock`: the buddy is allocated, the block goes to its free list -/
theorem finv_free_stop {F : Nat} {s s' : State} (h : FInv F s) {l k : Nat} (hl : l + 1 ≤ F) (hk : k < 2 ^ (l + 1))
    (hu : UsedN F s (l + 1) k) (hnt : NoTrk F s (l + 1) k) (hm : ¬ MergeN s l (k / 2))
    (hb : s'.base = s.base) (hz : s'.size = s.size)
    (ht : s'.track = s.track) (htk : s'.trk = s.trk) (hsp : s'.split = s.split)
    (hmg : s'.merge = toggle s.merge (ix l (k / 2)))
    (hfr : s'.free = setLvl s.free (l + 1) (lvl s.free (l + 1) ++ [addr s.base F (l + 1) k])) : FInv F s' := by
  have hlen1 : l + 1 < s.free.length := by rw [h.hlen]; omega
  have pl := pow_succ2 l
  obtain ⟨t, o⟩ := h.tree.free_stop (Fr' := FreeN F s') (Sp' := SplitN F s') (Mg' := MergeN s') hl hk hu hm
    (fun l' k' _ _ => freeN_push hb hfr hlen1 (by omega) l' k')
    (fun l' k' _ _ => by unfold SplitN; rw [hsp])
    (fun l' k' _ hk' => mergeN_toggle hmg h.mnodup (by omega) hk')
  refine h.frame hb hz ht htk (by rw [hfr, length_setLvl]) ?_ ?_ (by rw [hsp]; exact h.snodup)
    (by rw [hmg]; exact toggle_nodup h.mnodup _) t ?_
  · refine fnode_set h.fnode hfr (fun a ha => ?_)
    rcases List.mem_append.mp ha with ha | ha
    · exact h.fnode _ a ha
    · rw [List.mem_singleton] at ha
      exact ⟨k, hk, ha⟩
  · refine fnodup_set h.fnodup hfr ?_
    refine List.nodup_append.mpr ⟨h.fnodup _, by simp, ?_⟩
    intro a ha b hb' e
    rw [List.mem_singleton] at hb'
    subst hb'; subst e
    exact hu.2.2 ha
  · intro l' k' p id hl' hk' hu' hp g1 g2
    refine o l' k' hl' hk' hu' ?_
    rintro ⟨rfl, rfl⟩
    exact hnt p id hp ⟨g1, g2⟩

/-- `freeBlock`: the buddy is free, both are merged into the parent -/
theorem finv_free_merge {F : Nat} {s s' : State} (h : FInv F s) {l k : Nat} (hl : l + 1 ≤ F) (hk : k < 2 ^ (l + 1))
    (hu : UsedN F s (l + 1) k) (hnt : NoTrk F s (l + 1) k) (hm : MergeN s l (k / 2))
    (hb : s'.base = s.base) (hz : s'.size = s.size)
    (ht : s'.track = s.track) (htk : s'.trk = s.trk) (hsp : s'.split = toggle s.split (ix l (k / 2)))
    (hmg : s'.merge = toggle s.merge (ix l (k / 2)))
    (hfr : s'.free = setLvl s.free (l + 1) ((lvl s.free (l + 1)).erase (addr s.base F (l + 1) (bud k)))) :
    FInv F s' ∧ UsedN F s' l (k / 2) ∧ NoTrk F s' l (k / 2) := by
  have hlen1 : l + 1 < s.free.length := by rw [h.hlen]; omega
  have pl := pow_succ2 l
  have usp : SplitN F s l (k / 2) := hu.1 l rfl
  have hbf : FreeN F s (l + 1) (bud k) := (h.tree.buddy_free hl hk hu).mp hm
  have hbk : bud k < 2 ^ (l + 1) := by unfold bud; split <;> omega
  obtain ⟨t, u, o⟩ := h.tree.free_merge (Fr' := FreeN F s') (Sp' := SplitN F s') (Mg' := MergeN s') hl hk hu hm
    (fun l' k' _ _ => freeN_erase hb hfr hlen1 (by omega) (h.fnodup _) l' k')
    (fun l' k' _ hk' => by
      rw [splitN_toggle hsp h.snodup (by omega) (by omega) hk']
      by_cases hc : l' = l ∧ k' = k / 2
      · obtain ⟨rfl, rfl⟩ := hc
        simp [usp]
      · simp [hc])
    (fun l' k' _ hk' => mergeN_toggle hmg h.mnodup (by omega) hk')
  refine ⟨?_, u, ?_⟩
  · refine h.frame hb hz ht htk (by rw [hfr, length_setLvl]) ?_ ?_ (by rw [hsp]; exact toggle_nodup h.snodup _)
      (by rw [hmg]; exact toggle_nodup h.mnodup _) t ?_
    · exact fnode_set h.fnode hfr (fun a ha => h.fnode _ a (List.mem_of_mem_erase ha))
    · exact fnodup_set h.fnodup hfr ((h.fnodup _).erase _)
    · intro l' k' p id hl' hk' hu' hp g1 g2
      refine o l' k' hl' hk' hu' ?_
      rintro ⟨rfl, rfl⟩
      exact hnt p id hp ⟨g1, g2⟩
  · intro p id hp
    rw [ht] at hp
    rw [hb]
    have n1 := hnt p id hp
    have n2 := h.trk_not_free hl hbk hbf p id hp
    have e1 := addr_child (base := s.base) (F := F) (l := l) (k := k / 2) hl
    have e2 := szl_succ (F := F) (l := l) hl
    have e3 := addr_succ s.base F (l + 1) (2 * (k / 2))
    rw [← e1, e2]
    unfold bud at n2
    rcases Nat.mod_two_eq_zero_or_one k with hmod | hmod
    · rw [if_pos hmod] at n2
      rw [show 2 * (k / 2) = k by omega] at e3 ⊢
      omega
    · rw [if_neg (by omega)] at n2
      rw [show 2 * (k / 2) + 1 = k by omega] at e3
      rw [show 2 * (k / 2) = k - 1 by omega] at e3 ⊢
      omega

/-- `freeBlock` reached level 0: the whole device goes to the free list -/
theorem finv_free_root {F : Nat} {s s' : State} (h : FInv F s)
    (hu : UsedN F s 0 0) (hnt : NoTrk F s 0 0)
    (hb : s'.base = s.base) (hz : s'.size = s.size)
    (ht : s'.track = s.track) (htk : s'.trk = s.trk) (hsp : s'.split = s.split) (hmg : s'.merge = s.merge)
    (hfr : s'.free = setLvl s.free 0 (lvl s.free 0 ++ [addr s.base F 0 0])) : FInv F s' := by
  have hlen1 : 0 < s.free.length := by rw [h.hlen]; omega
  obtain ⟨t, o⟩ := h.tree.free_root (Fr' := FreeN F s') (Sp' := SplitN F s') (Mg' := MergeN s') hu
    (fun l' k' _ _ => freeN_push hb hfr hlen1 (by omega) l' k')
    (fun l' k' _ _ => by unfold SplitN; rw [hsp])
    (fun l' k' _ _ => by unfold MergeN; rw [hmg])
  refine h.frame hb hz ht htk (by rw [hfr, length_setLvl]) ?_ ?_ (by rw [hsp]; exact h.snodup)
    (by rw [hmg]; exact h.mnodup) t ?_
  · refine fnode_set h.fnode hfr (fun a ha => ?_)
    rcases List.mem_append.mp ha with ha | ha
    · exact h.fnode _ a ha
    · rw [List.mem_singleton] at ha
      exact ⟨0, by simp, ha⟩
  · refine fnodup_set h.fnodup hfr ?_
    refine List.nodup_append.mpr ⟨h.fnodup _, by simp, ?_⟩
    intro a ha b hb' e
    rw [List.mem_singleton] at hb'
    subst hb'; subst e
    exact hu.2.2 ha
  · intro l' k' p id hl' hk' hu' hp g1 g2
    refine o l' k' hl' hk' hu' ?_
    rintro ⟨rfl, rfl⟩
    exact hnt p id hp ⟨g1, g2⟩

end C10.Buddy
