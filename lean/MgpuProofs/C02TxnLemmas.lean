import MgpuModel.C02Txn
/-! C02 (transaction path) — lemmas: with ONE lane the concatenation
    departed ++ post buffer ++ pipeline (exit → entry) ++ waiting is the issue sequence. -/
namespace C02.Txn.Old

/-- the items of a lane from the exit to the entry -/
def laneItems (l : Lane) : List Item := l.filterMap id

/-- everything that has been issued, along the flow (meaningful for one lane) -/
def flow (s : St) : List Item := s.out ++ (s.post ++ (s.lanes.flatMap laneItems ++ s.waiting))

theorem laneItems_cons (a : Option Item) (l : Lane) : laneItems (a :: l) = a.toList ++ laneItems l := by
  cases a <;> simp [laneItems]

theorem advance_items (a : Option Item) (l : Lane) :
    laneItems (advance a l) = a.toList ++ laneItems l := by
  induction l generalizing a with
  | nil => cases a <;> simp [advance, laneItems]
  | cons b rest ih =>
    cases a with
    | none =>
      cases b with
      | none => simp [advance, laneItems_cons, ih]
      | some x => simp [advance, laneItems_cons, ih]
    | some y => simp [advance, laneItems_cons, ih]

theorem tickLane_flow (cap : Nat) (post : List Item) (l : Lane) :
    (tickLane cap post l).1 ++ laneItems (tickLane cap post l).2 = post ++ laneItems l := by
  cases l with
  | nil => simp [tickLane]
  | cons e rest =>
    cases e with
    | none => simp [tickLane, advance_items, laneItems_cons]
    | some it =>
      by_cases h : post.length < cap
      · simp [tickLane, h, advance_items, laneItems_cons]
      · simp [tickLane, h, advance_items, laneItems_cons]

theorem acceptLane_items (x : Item) : ∀ (l l' : Lane), acceptLane x l = some l' →
    laneItems l' = laneItems l ++ [x]
  | [], _, h => by simp [acceptLane] at h
  | [s], l', h => by
    cases s with
    | none => simp [acceptLane] at h; subst h; simp [laneItems]
    | some y => simp [acceptLane] at h
  | s :: r :: rest, l', h => by
    simp only [acceptLane, Option.map_eq_some_iff] at h
    obtain ⟨m, hm, rfl⟩ := h
    have := acceptLane_items x (r :: rest) m hm
    rw [laneItems_cons, this, laneItems_cons (a := s)]
    simp

theorem tickLanes_one (cap : Nat) (post : List Item) (l : Lane) :
    tickLanes cap post [l] = ((tickLane cap post l).1, [(tickLane cap post l).2]) := by
  simp [tickLanes]

theorem acceptLanes_one (x : Item) (l : Lane) : acceptLanes x [l] = (acceptLane x l).map ([·]) := by
  unfold acceptLanes
  cases acceptLane x l <;> simp [acceptLanes]

theorem insertGo_one : ∀ (wt : List Item) (l : Lane), ∃ l', (insertGo wt [l]).2.1 = [l'] ∧
    laneItems l' ++ (insertGo wt [l]).1 = laneItems l ++ wt
  | [], l => ⟨l, by simp [insertGo]⟩
  | x :: rest, l => by
    unfold insertGo
    rw [acceptLanes_one]
    cases h : acceptLane x l with
    | none => exact ⟨l, by simp⟩
    | some m =>
      have hm := acceptLane_items x l m h
      by_cases hp : x.pen > 0
      · exact ⟨m, by simp [hp, hm]⟩
      · obtain ⟨l', h1, h2⟩ := insertGo_one rest m
        exact ⟨l', by simp [hp, h1], by simp [hp, h2, hm]⟩

theorem mkItems_idx : ∀ (n : Nat) (arr : List Nat), (mkItems n arr).map (·.idx) = List.range' n arr.length
  | _, [] => by simp [mkItems]
  | n, p :: ps => by simp [mkItems, mkItems_idx (n + 1) ps, List.range']

/-- one lane: a tick only appends the arrivals to the flow -/
theorem tick_flow (c : Cfg) (s : St) (t : Tk) (l : Lane) (hl : s.lanes = [l]) :
    (∃ l', (tick c s t).lanes = [l']) ∧ flow (tick c s t) = flow s ++ mkItems s.next t.arr ∧
      (tick c s t).next = s.next + t.arr.length := by
  unfold tick
  -- send
  have hsend : (send t.p s).out ++ (send t.p s).post = s.out ++ s.post := by
    simp [send, List.append_assoc]
  have hsl : (send t.p s).lanes = [l] := by simp [send, hl]
  have hsw : (send t.p s).waiting = s.waiting := by simp [send]
  have hsn : (send t.p s).next = s.next := by simp [send]
  generalize send t.p s = s1 at hsend hsl hsw hsn
  -- pipeline
  have hp := tickLane_flow c.b s1.post l
  have hpl : (pipe c s1).lanes = [(tickLane c.b s1.post l).2] := by simp [pipe, hsl, tickLanes_one]
  have hpp : (pipe c s1).post = (tickLane c.b s1.post l).1 := by simp [pipe, hsl, tickLanes_one]
  have hpo : (pipe c s1).out = s1.out := by simp [pipe]
  have hpw : (pipe c s1).waiting = s1.waiting := by simp [pipe]
  have hpn : (pipe c s1).next = s1.next := by simp [pipe]
  generalize pipe c s1 = s2 at hpl hpp hpo hpw hpn
  generalize (tickLane c.b s1.post l).2 = l2 at hp hpl
  -- insertion
  have hi : ∃ l3, (insert s2).lanes = [l3] ∧ laneItems l3 ++ (insert s2).waiting = laneItems l2 ++ s2.waiting ∧
      (insert s2).out = s2.out ∧ (insert s2).post = s2.post ∧ (insert s2).next = s2.next := by
    unfold insert
    by_cases hst : s2.stall > 0
    · exact ⟨l2, by simp [hst, hpl]⟩
    · obtain ⟨l3, h1, h2⟩ := insertGo_one s2.waiting l2
      refine ⟨l3, ?_⟩
      simp [hst, hpl, h1, h2]
  obtain ⟨l3, hil, hiw, hio, hip, hin⟩ := hi
  generalize insert s2 = s3 at hil hiw hio hip hin
  refine ⟨⟨l3, by simp [arrive, hil]⟩, ?_, by simp [arrive, hin, hpn, hsn]⟩
  have hflow : flow (arrive t.arr s3) = s3.out ++ (s3.post ++ (laneItems l3 ++ s3.waiting)) ++ mkItems s3.next t.arr := by
    simp [flow, arrive, hil, List.append_assoc]
  rw [hflow, hiw, hio, hip, hin, hpn, hsn, hpo, hpp, hpw, hsw]
  have : flow s = s.out ++ (s.post ++ (laneItems l ++ s.waiting)) := by simp [flow, hl]
  rw [this]
  have e1 : (tickLane c.b s1.post l).1 ++ (laneItems l2 ++ s.waiting) = s1.post ++ (laneItems l ++ s.waiting) := by
    rw [← List.append_assoc, hp, List.append_assoc]
  rw [e1]
  have e2 : s1.out ++ (s1.post ++ (laneItems l ++ s.waiting)) = s.out ++ (s.post ++ (laneItems l ++ s.waiting)) := by
    rw [← List.append_assoc, hsend, List.append_assoc]
  rw [e2]

/-- the invariant of a one-lane run: one lane, and the flow is the issue sequence 0, 1, 2, … -/
def Inv1 (s : St) : Prop := (∃ l, s.lanes = [l]) ∧ (flow s).map (·.idx) = List.range s.next

theorem inv1_tick (c : Cfg) (s : St) (t : Tk) (h : Inv1 s) : Inv1 (tick c s t) := by
  obtain ⟨⟨l, hl⟩, hf⟩ := h
  obtain ⟨h1, h2, h3⟩ := tick_flow c s t l hl
  refine ⟨h1, ?_⟩
  rw [h2, h3, List.map_append, hf, mkItems_idx, List.range_eq_range', List.range_eq_range']
  have := List.range'_append (s := 0) (m := s.next) (n := t.arr.length) (step := 1)
  simpa using this

theorem inv1_foldl (c : Cfg) (ts : List Tk) (s : St) (h : Inv1 s) : Inv1 (ts.foldl (tick c) s) := by
  induction ts generalizing s with
  | nil => exact h
  | cons t rest ih => exact ih _ (inv1_tick c s t h)

theorem inv1_init (c : Cfg) (hw : c.w = 1) : Inv1 (init c) := by
  refine ⟨⟨List.replicate c.s none, by simp [init, hw]⟩, ?_⟩
  have : ∀ n, laneItems (List.replicate n none) = [] := by
    intro n; induction n with
    | zero => rfl
    | succ k ih => rw [List.replicate_succ, laneItems_cons, ih]; rfl
  simp [flow, init, hw, this]

/-- a prefix of `0, 1, 2, …` is `0, …, k-1` -/
theorem prefix_range_eq (a b : List Nat) (n : Nat) (h : a ++ b = List.range n) : a = List.range a.length := by
  have hlen : a.length ≤ n := by
    have := congrArg List.length h
    simp at this
    omega
  have : a = (List.range n).take a.length := by rw [← h]; simp
  rw [List.take_range, Nat.min_eq_left hlen] at this
  exact this

theorem run_fifo_width1 (c : Cfg) (hw : c.w = 1) (ts : List Tk) :
    (run c ts).out.map (·.idx) = List.range (run c ts).out.length := by
  have h := (inv1_foldl c ts (init c) (inv1_init c hw)).2
  unfold flow at h
  rw [List.map_append] at h
  have := prefix_range_eq _ _ _ h
  simpa [run] using this

/-! ## any number of lanes: the order is kept as long as no push into the post-pipeline buffer is refused

Read stage by stage from the exit to the entry, each stage in lane order (`rowFlow`), the pipeline holds
the transactions in issue order as long as all lanes move in lockstep. -/

/-- a lane in which nothing is blocked moves by one stage -/
def shift : Lane → Lane
  | [] => []
  | _ :: r => r ++ [none]

/-- the item in the last stage of a lane -/
def exitItem : Lane → Option Item
  | some x :: _ => some x
  | _ => none

@[simp] theorem exitItem_nil : exitItem [] = none := rfl
@[simp] theorem exitItem_none (r : Lane) : exitItem (none :: r) = none := rfl
@[simp] theorem exitItem_some (x : Item) (r : Lane) : exitItem (some x :: r) = some x := rfl

/-- the items in the last stages, in lane order -/
def heads (ls : List Lane) : List Item := ls.filterMap exitItem

theorem heads_cons (l : Lane) (ls : List Lane) : heads (l :: ls) = (exitItem l).toList ++ heads ls := by
  cases h : exitItem l <;> simp [heads, h]

def tails (ls : List Lane) : List Lane := ls.map List.tail

/-- the pipeline contents stage by stage (exit first), each stage in lane order; `k` = number of stages -/
def rowFlow : Nat → List Lane → List Item
  | 0, _ => []
  | k + 1, ls => heads ls ++ rowFlow k (tails ls)

/-- stage 0 of the lane is free -/
def entryFree : Lane → Bool
  | [] => false
  | [s] => s.isNone
  | _ :: r :: rest => entryFree (r :: rest)

def AllLen (n : Nat) (ls : List Lane) : Prop := ∀ l ∈ ls, l.length = n

theorem advance_none (l : Lane) : advance none l = l ++ [none] := by
  induction l with
  | nil => rfl
  | cons b rest ih => cases b <;> simp [advance, ih]

theorem tickLanes_noStall (cap : Nat) : ∀ (ls : List Lane) (post : List Item),
    post.length + (heads ls).length ≤ cap → tickLanes cap post ls = (post ++ heads ls, ls.map shift)
  | [], post, _ => by simp [tickLanes, heads]
  | l :: ls, post, h => by
    cases l with
    | nil =>
      have h' : post.length + (heads ls).length ≤ cap := by simpa [heads_cons] using h
      simp [tickLanes, tickLane, tickLanes_noStall cap ls post h', heads_cons, shift]
    | cons e rest =>
      cases e with
      | none =>
        have h' : post.length + (heads ls).length ≤ cap := by simpa [heads_cons] using h
        simp [tickLanes, tickLane, tickLanes_noStall cap ls post h', heads_cons, shift, advance_none]
      | some it =>
        have hh : heads ((some it :: rest) :: ls) = it :: heads ls := by simp [heads_cons]
        rw [hh] at h
        simp only [List.length_cons] at h
        have hlt : post.length < cap := by omega
        have h' : (post ++ [it]).length + (heads ls).length ≤ cap := by simp; omega
        simp [tickLanes, tickLane, hlt, tickLanes_noStall cap ls (post ++ [it]) h', hh, shift, advance_none]

theorem exitItem_shift (l : Lane) : exitItem (shift l) = exitItem l.tail := by
  match l with
  | [] => rfl
  | [_] => rfl
  | _ :: r0 :: r' => cases r0 <;> simp [shift]

theorem tail_shift (l : Lane) : (shift l).tail = shift l.tail := by
  match l with
  | [] => rfl
  | [_] => rfl
  | _ :: r0 :: r' => simp [shift]

theorem heads_shift (ls : List Lane) : heads (ls.map shift) = heads (tails ls) := by
  induction ls with
  | nil => rfl
  | cons l ls ih =>
    simp only [heads, tails, List.map_cons, List.filterMap_cons, exitItem_shift] at ih ⊢
    rw [ih]

theorem tails_shift (ls : List Lane) : tails (ls.map shift) = (tails ls).map shift := by
  simp [tails, List.map_map, Function.comp_def, tail_shift]

theorem rowFlow_shift : ∀ (k : Nat) (ls : List Lane), rowFlow k (ls.map shift) = rowFlow k (tails ls)
  | 0, _ => rfl
  | k + 1, ls => by
    simp only [rowFlow]
    rw [heads_shift, tails_shift, rowFlow_shift k (tails ls)]

theorem allLen_tails (n : Nat) (ls : List Lane) (h : AllLen (n + 1) ls) : AllLen n (tails ls) := by
  intro l hl
  simp only [tails, List.mem_map] at hl
  obtain ⟨m, hm, rfl⟩ := hl
  have := h m hm
  simp [this]

theorem rowFlow_nil_lanes : ∀ (k : Nat) (ls : List Lane), AllLen 0 ls → rowFlow k ls = []
  | 0, _, _ => rfl
  | k + 1, ls, h => by
    have hh : heads ls = [] := by
      simp only [heads, List.filterMap_eq_nil_iff]
      intro l hl
      have : l = [] := List.eq_nil_of_length_eq_zero (h l hl)
      subst this; rfl
    have ht : AllLen 0 (tails ls) := by
      intro l hl
      simp only [tails, List.mem_map] at hl
      obtain ⟨m, hm, rfl⟩ := hl
      have : m = [] := List.eq_nil_of_length_eq_zero (h m hm)
      subst this; rfl
    simp [rowFlow, hh, rowFlow_nil_lanes k _ ht]

/-- more fuel than stages adds nothing -/
theorem rowFlow_fuel : ∀ (n : Nat) (ls : List Lane), AllLen n ls → rowFlow (n + 1) ls = rowFlow n ls
  | 0, ls, h => by rw [rowFlow_nil_lanes 1 ls h]; rfl
  | n + 1, ls, h => by
    have := rowFlow_fuel n (tails ls) (allLen_tails n ls h)
    simp only [rowFlow] at this ⊢
    rw [this]

/-- after an unblocked tick the pipeline holds what it held minus the last stages -/
theorem rowFlow_after_shift (n : Nat) (ls : List Lane) (h : AllLen n ls) :
    heads ls ++ rowFlow n (ls.map shift) = rowFlow n ls := by
  rw [rowFlow_shift]
  cases n with
  | zero => simp [rowFlow]; simp only [heads, List.filterMap_eq_nil_iff]; intro l hl; have : l = [] := List.eq_nil_of_length_eq_zero (h l hl); subst this; rfl
  | succ k => rw [rowFlow_fuel k (tails ls) (allLen_tails k ls h)]; rfl

theorem allLen_shift (n : Nat) (ls : List Lane) (h : AllLen n ls) : AllLen n (ls.map shift) := by
  intro l hl
  simp only [List.mem_map] at hl
  obtain ⟨m, hm, rfl⟩ := hl
  have := h m hm
  cases m with
  | nil => simpa [shift] using this
  | cons e r => simpa [shift] using this

theorem entryFree_shift (l : Lane) (h : l ≠ []) : entryFree (shift l) = true := by
  match l, h with
  | e :: r, _ =>
    induction r generalizing e with
    | nil => rfl
    | cons r0 r' ih =>
      cases r' with
      | nil => rfl
      | cons r1 r2 =>
        have := ih r0
        simp only [shift, List.cons_append] at this ⊢
        simpa [entryFree] using this

theorem acceptLane_none_iff (x : Item) : ∀ (l : Lane), acceptLane x l = none ↔ entryFree l = false
  | [] => by simp [acceptLane, entryFree]
  | [s] => by cases s <;> simp [acceptLane, entryFree]
  | s :: r :: rest => by
    simp only [acceptLane, entryFree, Option.map_eq_none_iff]
    exact acceptLane_none_iff x (r :: rest)

theorem acceptLane_length (x : Item) : ∀ (l l' : Lane), acceptLane x l = some l' → l'.length = l.length
  | [], _, h => by simp [acceptLane] at h
  | [s], l', h => by
    cases s with
    | none => simp [acceptLane] at h; subst h; rfl
    | some y => simp [acceptLane] at h
  | s :: r :: rest, l', h => by
    simp only [acceptLane, Option.map_eq_some_iff] at h
    obtain ⟨m, hm, rfl⟩ := h
    simp [acceptLane_length x (r :: rest) m hm]

theorem acceptLane_occupies (x : Item) : ∀ (l l' : Lane), acceptLane x l = some l' → entryFree l' = false
  | [], _, h => by simp [acceptLane] at h
  | [s], l', h => by
    cases s with
    | none => simp [acceptLane] at h; subst h; rfl
    | some y => simp [acceptLane] at h
  | s :: r :: rest, l', h => by
    simp only [acceptLane, Option.map_eq_some_iff] at h
    obtain ⟨m, hm, rfl⟩ := h
    have hlen := acceptLane_length x (r :: rest) m hm
    cases m with
    | nil => simp at hlen
    | cons m0 m' =>
      have := acceptLane_occupies x (r :: rest) (m0 :: m') hm
      simpa [entryFree] using this

theorem acceptLanes_skip (x : Item) : ∀ (A B : List Lane), (∀ l ∈ A, entryFree l = false) →
    acceptLanes x (A ++ B) = (acceptLanes x B).map (A ++ ·)
  | [], B, _ => by simp
  | a :: A, B, h => by
    have ha : acceptLane x a = none := (acceptLane_none_iff x a).mpr (h a (by simp))
    have := acceptLanes_skip x A B (fun l hl => h l (by simp [hl]))
    simp only [List.cons_append, acceptLanes, ha, this, Option.map_map]
    cases acceptLanes x B <;> simp

theorem heads_append (A B : List Lane) : heads (A ++ B) = heads A ++ heads B := by simp [heads]

theorem heads_free_singletons (B : List Lane) (hf : ∀ l ∈ B, entryFree l = true) (hl : AllLen 1 B) : heads B = [] := by
  simp only [heads, List.filterMap_eq_nil_iff]
  intro l hm
  have h1 := hl l hm
  match l, h1 with
  | [s], _ =>
    have := hf [s] hm
    cases s with
    | none => rfl
    | some y => simp [entryFree] at this

/-- a transaction put into the first free entry stage comes last in the stage-by-stage reading -/
theorem rowFlow_accept (x : Item) : ∀ (k : Nat) (A B : List Lane) (b put : Lane), acceptLane x b = some put →
    (∀ l ∈ B, entryFree l = true) → AllLen k (A ++ b :: B) →
    rowFlow k (A ++ put :: B) = rowFlow k (A ++ b :: B) ++ [x]
  | 0, A, B, b, put, hacc, _, hlen => by
    have : b = [] := List.eq_nil_of_length_eq_zero (hlen b (by simp))
    subst this
    simp [acceptLane] at hacc
  | k + 1, A, B, b, put, hacc, hfree, hlen => by
    have hb : b.length = k + 1 := hlen b (by simp)
    match b, hb with
    | [s], hb =>
      have hk : k = 0 := by simpa using hb
      subst hk
      cases s with
      | some y => simp [acceptLane] at hacc
      | none =>
        simp [acceptLane] at hacc
        subst hacc
        have hB : heads B = [] := heads_free_singletons B hfree (fun l hl => hlen l (by simp [hl]))
        have e1 : heads (A ++ [some x] :: B) = heads A ++ [x] := by
          rw [heads_append]; show heads A ++ heads ([some x] :: B) = _
          have : heads ([some x] :: B) = x :: heads B := by simp [heads_cons]
          rw [this, hB]
        have e2 : heads (A ++ [none] :: B) = heads A := by
          rw [heads_append]
          have : heads ([none] :: B) = heads B := by simp [heads_cons]
          rw [this, hB]; simp
        simp only [rowFlow, e1, e2, List.append_nil]
    | s :: r :: rest, hb =>
      simp only [acceptLane, Option.map_eq_some_iff] at hacc
      obtain ⟨m, hm, rfl⟩ := hacc
      have hheads : heads (A ++ (s :: m) :: B) = heads (A ++ (s :: r :: rest) :: B) := by
        cases s <;> simp [heads_append, heads_cons]
      have htl1 : tails (A ++ (s :: m) :: B) = tails A ++ m :: tails B := by simp [tails]
      have htl2 : tails (A ++ (s :: r :: rest) :: B) = tails A ++ (r :: rest) :: tails B := by simp [tails]
      have hk : k = (r :: rest).length := by simpa using hb.symm
      have hfree' : ∀ l ∈ tails B, entryFree l = true := by
        intro l hl
        simp only [tails, List.mem_map] at hl
        obtain ⟨q, hq, rfl⟩ := hl
        have hql : q.length = k + 1 := hlen q (by simp [hq])
        have hqf := hfree q hq
        match q, hql with
        | q0 :: q1 :: q2, _ => simpa [entryFree] using hqf
        | [q0], hql =>
          have : k = 0 := by simpa using hql
          subst this
          simp at hk
      have hlen' : AllLen k (tails A ++ (r :: rest) :: tails B) := by
        rw [← htl2]; exact allLen_tails k _ hlen
      have ih := rowFlow_accept x k (tails A) (tails B) (r :: rest) m hm hfree' hlen'
      simp only [rowFlow, hheads, htl1, htl2, ih, List.append_assoc]

theorem allLen_accept (x : Item) (n : Nat) (A B : List Lane) (b put : Lane) (h : acceptLane x b = some put)
    (hl : AllLen n (A ++ b :: B)) : AllLen n (A ++ put :: B) := by
  intro l hm
  simp only [List.mem_append, List.mem_cons] at hm
  rcases hm with hm | rfl | hm
  · exact hl l (by simp [hm])
  · rw [acceptLane_length x b l h]; exact hl b (by simp)
  · exact hl l (by simp [hm])

/-- `insertTransactionToPipeline` with all lanes behind the occupied ones free: the stage-by-stage
    reading followed by the waiting list does not change -/
theorem insertGo_rowFlow (n : Nat) : ∀ (wt : List Item) (A B : List Lane), (∀ l ∈ A, entryFree l = false) →
    (∀ l ∈ B, entryFree l = true) → AllLen n (A ++ B) →
    rowFlow n (insertGo wt (A ++ B)).2.1 ++ (insertGo wt (A ++ B)).1 = rowFlow n (A ++ B) ++ wt ∧
      AllLen n (insertGo wt (A ++ B)).2.1
  | [], A, B, _, _, hl => by simp [insertGo, hl]
  | x :: rest, A, B, hA, hB, hl => by
    unfold insertGo
    rw [acceptLanes_skip x A B hA]
    cases B with
    | nil => simpa [acceptLanes] using hl
    | cons b B' =>
      have hbf : entryFree b = true := hB b (by simp)
      cases hacc : acceptLane x b with
      | none => rw [(acceptLane_none_iff x b).mp hacc] at hbf; cases hbf
      | some put =>
        have hrf := rowFlow_accept x n A B' b put hacc (fun l hm => hB l (by simp [hm])) hl
        have hal := allLen_accept x n A B' b put hacc hl
        simp only [acceptLanes, hacc, Option.map_some]
        by_cases hp : x.pen > 0
        · simp [hp, hrf, hal]
        · have hA' : ∀ l ∈ A ++ [put], entryFree l = false := by
            intro l hm
            simp only [List.mem_append, List.mem_singleton] at hm
            rcases hm with hm | rfl
            · exact hA l hm
            · exact acceptLane_occupies x b l hacc
          have e : A ++ put :: B' = (A ++ [put]) ++ B' := by simp
          have ih := insertGo_rowFlow n rest (A ++ [put]) B' hA' (fun l hm => hB l (by simp [hm])) (by rw [← e]; exact hal)
          rw [← e] at ih
          simp only [hp, if_false]
          refine ⟨?_, ih.2⟩
          rw [ih.1, hrf]
          simp

/-- the flow with the pipeline read stage by stage -/
def flowR (c : Cfg) (s : St) : List Item := s.out ++ (s.post ++ (rowFlow c.s s.lanes ++ s.waiting))

/-- one tick in which no push into the post-pipeline buffer is refused only appends the arrivals -/
theorem tick_flowR (c : Cfg) (s : St) (t : Tk) (hl : AllLen c.s s.lanes)
    (hok : (send t.p s).post.length + (heads (send t.p s).lanes).length ≤ c.b) :
    AllLen c.s (tick c s t).lanes ∧ flowR c (tick c s t) = flowR c s ++ mkItems s.next t.arr ∧
      (tick c s t).next = s.next + t.arr.length := by
  unfold tick
  have hsend : (send t.p s).out ++ (send t.p s).post = s.out ++ s.post := by
    simp [send, List.append_assoc]
  have hsl : (send t.p s).lanes = s.lanes := by simp [send]
  have hsw : (send t.p s).waiting = s.waiting := by simp [send]
  have hsn : (send t.p s).next = s.next := by simp [send]
  generalize send t.p s = s1 at hsend hsl hsw hsn hok
  rw [hsl] at hok
  have hpl : (pipe c s1).lanes = s.lanes.map shift := by simp [pipe, hsl, tickLanes_noStall c.b s.lanes s1.post hok]
  have hpp : (pipe c s1).post = s1.post ++ heads s.lanes := by simp [pipe, hsl, tickLanes_noStall c.b s.lanes s1.post hok]
  have hpo : (pipe c s1).out = s1.out := by simp [pipe]
  have hpw : (pipe c s1).waiting = s1.waiting := by simp [pipe]
  have hpn : (pipe c s1).next = s1.next := by simp [pipe]
  generalize pipe c s1 = s2 at hpl hpp hpo hpw hpn
  have hl2 : AllLen c.s (s.lanes.map shift) := allLen_shift c.s s.lanes hl
  have hi : AllLen c.s (insert s2).lanes ∧
      rowFlow c.s (insert s2).lanes ++ (insert s2).waiting = rowFlow c.s (s.lanes.map shift) ++ s2.waiting ∧
      (insert s2).out = s2.out ∧ (insert s2).post = s2.post ∧ (insert s2).next = s2.next := by
    unfold insert
    by_cases hst : s2.stall > 0
    · simp [hst, hpl, hl2]
    · -- the shifted lanes are all free (or, without stages, all unusable)
      by_cases hs0 : c.s = 0
      · have hA : ∀ l ∈ s.lanes.map shift, entryFree l = false := by
          intro l hm
          have : l = [] := List.eq_nil_of_length_eq_zero (by rw [hl2 l hm, hs0])
          subst this; rfl
        have := insertGo_rowFlow c.s s2.waiting (s.lanes.map shift) [] hA (by simp) (by simpa using hl2)
        simp only [List.append_nil] at this
        simp [hst, hpl, this.1, this.2]
      · have hB : ∀ l ∈ s.lanes.map shift, entryFree l = true := by
          intro l hm
          simp only [List.mem_map] at hm
          obtain ⟨m, hmm, rfl⟩ := hm
          apply entryFree_shift
          intro hnil
          have := hl m hmm
          rw [hnil] at this
          simp at this
          omega
        have := insertGo_rowFlow c.s s2.waiting [] (s.lanes.map shift) (by simp) hB (by simpa using hl2)
        simp only [List.nil_append] at this
        simp [hst, hpl, this.1, this.2]
  obtain ⟨hil, hiw, hio, hip, hin⟩ := hi
  generalize insert s2 = s3 at hil hiw hio hip hin
  refine ⟨by simpa [arrive] using hil, ?_, by simp [arrive, hin, hpn, hsn]⟩
  have hflow : flowR c (arrive t.arr s3) = s3.out ++ (s3.post ++ (rowFlow c.s s3.lanes ++ s3.waiting)) ++ mkItems s3.next t.arr := by
    simp [flowR, arrive, List.append_assoc]
  rw [hflow, hiw, hio, hip, hin, hpn, hsn, hpo, hpp, hpw, hsw]
  unfold flowR
  have e1 : s1.post ++ heads s.lanes ++ (rowFlow c.s (s.lanes.map shift) ++ s.waiting) = s1.post ++ (rowFlow c.s s.lanes ++ s.waiting) := by
    rw [← rowFlow_after_shift c.s s.lanes hl]; simp [List.append_assoc]
  rw [e1]
  have e2 : s1.out ++ (s1.post ++ (rowFlow c.s s.lanes ++ s.waiting)) = s.out ++ (s.post ++ (rowFlow c.s s.lanes ++ s.waiting)) := by
    rw [← List.append_assoc, hsend, List.append_assoc]
  rw [e2]

/-- in no tick of the run is a push into the post-pipeline buffer refused: when the pipeline ticks, the
    buffer has room for every item that stands in a last stage -/
def noStall (c : Cfg) : St → List Tk → Bool
  | _, [] => true
  | s, t :: ts =>
    decide ((send t.p s).post.length + (heads (send t.p s).lanes).length ≤ c.b) && noStall c (tick c s t) ts

def InvR (c : Cfg) (s : St) : Prop := AllLen c.s s.lanes ∧ (flowR c s).map (·.idx) = List.range s.next

theorem invR_foldl (c : Cfg) : ∀ (ts : List Tk) (s : St), InvR c s → noStall c s ts = true → InvR c (ts.foldl (tick c) s)
  | [], _, h, _ => h
  | t :: ts, s, h, hn => by
    simp only [noStall, Bool.and_eq_true, decide_eq_true_eq] at hn
    obtain ⟨h1, h2, h3⟩ := tick_flowR c s t h.1 hn.1
    refine invR_foldl c ts (tick c s t) ⟨h1, ?_⟩ hn.2
    rw [h2, h3, List.map_append, h.2, mkItems_idx, List.range_eq_range', List.range_eq_range']
    have := List.range'_append (s := 0) (m := s.next) (n := t.arr.length) (step := 1)
    simpa using this

theorem invR_init (c : Cfg) : InvR c (init c) := by
  refine ⟨by intro l hl; simp [init] at hl; simp [hl.2], ?_⟩
  have : ∀ (k : Nat) (ls : List Lane), (∀ l ∈ ls, ∀ e ∈ l, e = none) → rowFlow k ls = [] := by
    intro k
    induction k with
    | zero => intro _ _; rfl
    | succ k ih =>
      intro ls h
      have hh : heads ls = [] := by
        simp only [heads, List.filterMap_eq_nil_iff]
        intro l hl
        match l, h l hl with
        | [], _ => rfl
        | e :: r, he => have := he e (by simp); subst this; rfl
      have ht : ∀ l ∈ tails ls, ∀ e ∈ l, e = none := by
        intro l hl e he
        simp only [tails, List.mem_map] at hl
        obtain ⟨m, hm, rfl⟩ := hl
        exact h m hm e (List.mem_of_mem_tail he)
      simp [rowFlow, hh, ih _ ht]
  have h0 := this c.s (List.replicate c.w (List.replicate c.s none)) (by
    intro l hl e he
    simp at hl
    rw [hl.2] at he
    simp at he
    exact he.2)
  simp [flowR, init, h0]

theorem run_fifo_noStall (c : Cfg) (ts : List Tk) (h : noStall c (init c) ts = true) :
    (run c ts).out.map (·.idx) = List.range (run c ts).out.length := by
  have hi := (invR_foldl c ts (init c) (invR_init c) h).2
  unfold flowR at hi
  rw [List.map_append] at hi
  have := prefix_range_eq _ _ _ hi
  simpa [run] using this

end C02.Txn.Old
