import MgpuProofs.C18SysCount
/-! C18 system level, part 3 (definitions): the *history* invariants of the closed n-engine system.

`SInv` (part 2) counts what is in flight. The invariants here tie the ghost histories of the nodes
together, so that an answer the L1 side of node `a` receives can be traced back, link by link, to
the request issued at `a`, the clone delivered to the owner `b`, the clone the L2 side of `b` got
and the data its responder gave. Every link is either a counting law (same shape as `GInv`) or a
node-local membership fact. -/
namespace C18

/-- the request node `b` saw for a delivery -/
def nameReq (nm : Name) : Req := ⟨nm.k, nm.a, nm.c.pl⟩
/-- the reply the engine saw for an answer of the L2 side -/
def rspOfDone (p : OutReq × Option (List Nat)) : Rsp := ⟨p.1.fid, p.2, false⟩
/-- the answer the engine put into its outgoing buffer, for an answer the network took -/
def outOfNRsp (m : NRsp) : OutRsp := ⟨m.k, m.dst, m.data⟩

/-- node-local history invariant; `b` = index of the node -/
structure NodeHist (b : Nat) (B : Node) : Prop where
  /-- every request the L1 side issued is in the inside port or was forwarded, and nothing else is -/
  sent : ∀ q, B.sent.count q = B.s.io.reqIn.count q + (B.s.io.fwd.map (·.orig)).count q
  /-- every answer the engine sent inside is in the outgoing buffer or was received by the L1 side -/
  got : ∀ o, (B.s.io.ans.map (·.out)).count o = B.s.io.rspOut.count o + B.got.count o
  /-- every delivery from the network is in the outside port or was forwarded (same id, source, payload) -/
  names : ∀ q, (B.namesAll.map nameReq).count q = B.s.oi.reqIn.count q + (B.s.oi.fwd.map (·.orig)).count q
  /-- every clone sent to the L2 side is in the outgoing buffer or was received by the L2 side -/
  l2all : ∀ c, (B.s.oi.fwd.map (·.out)).count c = B.s.oi.reqOut.count c + B.l2all.count c
  l2sub : ∀ c ∈ B.l2, c ∈ B.l2all
  doneSub : ∀ p ∈ B.l2done, p.1 ∈ B.l2all
  /-- the replies the engine got from inside are exactly the responder's answers, in order -/
  del : B.s.oi.del = B.l2done.map rspOfDone
  /-- every answer the engine sent outside is in the outgoing buffer or was taken by the network -/
  out : ∀ o, (B.s.oi.ans.map (·.out)).count o = B.s.oi.rspOut.count o + (B.outAll.map outOfNRsp).count o
  /-- an answer on the network was translated with a name of this node, and addressed to the node the name gives -/
  outName : ∀ m ∈ B.outAll, m.frm = b ∧ ∃ nm ∈ B.namesAll, nm.k = m.k ∧ nm.c.fid = m.fid ∧ nm.a = m.dst
  namesSub : ∀ nm ∈ B.names, nm ∈ B.namesAll
  allLt : ∀ nm ∈ B.namesAll, nm.k < B.s.oi.nextA
  allNodup : (B.namesAll.map (·.k)).Nodup
  /-- the network delivers a clone to the node its `Dst` names -/
  allDst : ∀ nm ∈ B.namesAll, nm.c.dst = b

def tokQC (m : NReq) : Nat × OutReq := (m.frm, m.c)
def nameToksAll (B : Node) : List (Nat × OutReq) := B.namesAll.map fun nm => (nm.a, nm.c)

/-- every clone engine `a` ever sent is in its outgoing buffer, in the network, or was delivered
    (once, by counting) to some node -/
def GHist (y : Sys) : Prop := ∀ (a : Nat) (A : Node), y.nodes[a]? = some A → ∀ c : OutReq,
  (A.s.io.fwd.map (·.out)).count c =
    A.s.io.reqOut.count c + (y.netQ.map tokQC).count (a, c) + (y.nodes.flatMap nameToksAll).count (a, c)

def tokRD (m : NRsp) : Nat × Rsp := (m.dst, ⟨m.fid, m.data, false⟩)
def outToks (B : Node) : List (Nat × Rsp) := B.outAll.map tokRD

/-- every answer the network ever took for engine `a` is in the network or was delivered to `a`,
    and nothing else was delivered to `a` -/
def GHistR (y : Sys) : Prop := ∀ (a : Nat) (A : Node), y.nodes[a]? = some A → ∀ r : Rsp,
  (y.nodes.flatMap outToks).count (a, r) = (y.netR.map tokRD).count (a, r) + A.s.io.del.count r

structure SHist (y : Sys) : Prop where
  node : ∀ (b : Nat) (B : Node), y.nodes[b]? = some B → NodeHist b B
  gq : GHist y
  gr : GHistR y

end C18
