import MgpuProofs.C11CpCopy
/-! The combined invariant of the command processor in every reachable state, absence of faults,
absence of dropped messages, and the consequences used by the
property theorems in `Props/C11Cp.lean`. -/
namespace C11

attribute [local simp] filterMap_single CpEv.isFwd CpEv.isAck CpEv.cacheIdx? CpEv.flushStart? CpEv.flushDone?
  CpEv.popped? CpEv.clone? CpEv.fwdCid? CpEv.rsp? CpEv.doneOrig? CpEv.dropped

/-! ## the combined invariant -/

structure CpInvAll (e : CpEnv) : Prop where
  flush : InvFlush e
  pop : InvPop e
  rsp : InvRsp e
  copy : InvCopy e

theorem CpInvAll.tr {e e' : CpEnv} (h : CpInvAll e) (t : CpTr e e') : CpInvAll e' :=
  ⟨h.flush.tr t, h.pop.tr t, h.rsp.tr t, h.copy.tr h.pop t⟩

theorem CpTr.cfg {e e' : CpEnv} (t : CpTr e e') :
    e'.s.nCaches = e.s.nCaches ∧ e'.s.capCache = e.s.capCache := by
  cases t <;> exact ⟨rfl, rfl⟩

/-- the faulting transitions are excluded by the invariant (`flushCache`'s panic needs `n ≤ ccache`) -/
theorem CpInvAll.no_fault_tr {e e' : CpEnv} (h : CpInvAll e) (hcap : e.s.nCaches ≤ e.s.capCache)
    (hf0 : e.s.fault = none) (t : CpTr e e') : e'.s.fault = none := by
  obtain ⟨⟨ha, q, hq, hw, hg⟩, _, _, hc⟩ := h
  cases t with
  | flushFault m rest k hf hd hn hk hkn hcap' =>
    exfalso
    rw [hn] at ha
    have : e.s.cacheOut.length = 0 := by omega
    omega
  | never c rest hf hd hH hD =>
    exfalso
    obtain ⟨o, ho | ho⟩ := hc.flight_key c (by simp [cpFlight, hd])
    · exact lookup_none_not_mem hH o ho
    · exact lookup_none_not_mem hD o ho
  | nilderef x rest n' hf hd hn hz hcur =>
    exfalso
    have hpos : 0 < e.s.numAck := by rw [ha, hd]; simp; omega
    obtain ⟨g1, g2, _⟩ := (hg hf).2 hpos
    rw [g1, hcur] at g2
    cases g2
  | flushOk m rest hf hd hn hk hpos => exact hf0
  | flushZero m rest b hf hd hn hk hz hb => exact hf0
  | copy m rest b hf hd hn hk hb => exact hf0
  | done c rest o k b hf hd hl hb => exact hf0
  | ackDec x rest n' hf hd hn hz => exact hf0
  | ackFinal x rest n' f b hf hd hn hz hc hb => exact hf0
  | req k hlt => exact hf0
  | takeDma k => exact hf0
  | takeCache k => exact hf0
  | takeDrv k => exact hf0
  | ackEnv j x hj => exact hf0
  | rspEnv j c hj => exact hf0

theorem reach_all (n cin cdrv cdma ccache : Nat) (ops : List CpOp) :
    CpInvAll (reachCp n cin cdrv cdma ccache ops) ∧ (reachCp n cin cdrv cdma ccache ops).s.nCaches = n ∧
    (reachCp n cin cdrv cdma ccache ops).s.capCache = ccache ∧
    (n ≤ ccache → (reachCp n cin cdrv cdma ccache ops).s.fault = none) := by
  refine reach_inv (P := fun e => CpInvAll e ∧ e.s.nCaches = n ∧ e.s.capCache = ccache ∧
    (n ≤ ccache → e.s.fault = none)) ?_ ?_ ops
  · exact ⟨⟨InvFlush.init .., InvPop.init .., InvRsp.init .., InvCopy.init ..⟩, rfl, rfl, fun _ => rfl⟩
  · rintro e e' ⟨h, h1, h2, h3⟩ t
    obtain ⟨c1, c2⟩ := t.cfg
    refine ⟨h.tr t, c1.trans h1, c2.trans h2, fun hle => ?_⟩
    exact h.no_fault_tr (by rw [h1, h2]; exact hle) (h3 hle) t

/-! ## nothing is ever dropped: every `Send` of the repaired code is preceded by its room check -/

/-- no event of the log records a failed `Send` -/
def NoDrop (s : Cp) : Prop := ∀ ev ∈ s.log, ev.dropped = false

theorem handle_nodrop {s : Cp} (h3 : NoDrop s) : NoDrop s.handle.1 := by
  rcases Cp.handle_cases s with h | ⟨m, rest, hf, hd, hn, hk, h | h | h⟩ | ⟨m, rest, hf, hd, hn, hk, hb, h⟩
  · rw [h]; exact h3
  · obtain ⟨k, _, _, h⟩ := h
    rw [h]
    intro ev hev
    simp only [Cp.flushAsk, List.mem_append, List.mem_cons, List.mem_map] at hev
    rcases hev with hev | rfl | ⟨i, _, rfl⟩
    · exact h3 ev hev
    · rfl
    · rfl
  · obtain ⟨_, h⟩ := h
    rw [h]
    intro ev hev
    simp only [Cp.flushAsk, List.mem_append, List.mem_cons, List.mem_map] at hev
    rcases hev with hev | rfl | ⟨i, _, rfl⟩
    · exact h3 ev hev
    · rfl
    · rfl
  · obtain ⟨_, _, h⟩ := h
    rw [h]
    intro ev hev
    simp only [List.mem_append, List.mem_cons, List.not_mem_nil, or_false] at hev
    rcases hev with hev | rfl | rfl
    · exact h3 ev hev
    · rfl
    · rfl
  · rw [h]
    intro ev hev
    simp only [Cp.copyFwd, List.mem_append, List.mem_singleton] at hev
    rcases hev with hev | rfl
    · exact h3 ev hev
    · rfl

theorem dmaRsp_nodrop {s : Cp} (h3 : NoDrop s) : NoDrop s.dmaRsp.1 := by
  rcases Cp.dmaRsp_cases s with h | ⟨c, rest, hf, hd, hb, ⟨o, k, hl, h⟩ | ⟨hH, hD, h⟩⟩
  · rw [h]; exact h3
  · rw [h]
    intro ev hev
    simp only [Cp.copyDone, List.mem_append, List.mem_singleton] at hev
    rcases hev with hev | rfl
    · exact h3 ev hev
    · rfl
  · rw [h]; exact h3

theorem cacheRsp_nodrop {s : Cp} (h3 : NoDrop s) : NoDrop s.cacheRsp.1 := by
  rcases Cp.cacheRsp_cases s with h | ⟨x, rest, n', hf, hd, hn, ⟨hz, h⟩ | ⟨hz, hc, h⟩ | ⟨hz, f, hc, hb, h⟩⟩
  · rw [h]; exact h3
  · rw [h]
    intro ev hev
    simp only [List.mem_append, List.mem_singleton] at hev
    rcases hev with hev | rfl
    · exact h3 ev hev
    · rfl
  · rw [h]
    intro ev hev
    simp only [List.mem_append, List.mem_singleton] at hev
    rcases hev with hev | rfl
    · exact h3 ev hev
    · rfl
  · rw [h]
    intro ev hev
    simp only [List.mem_append, List.mem_cons, List.not_mem_nil, or_false] at hev
    rcases hev with hev | rfl | rfl
    · exact h3 ev hev
    · rfl
    · rfl

theorem pass_nodrop {s : Cp} (h : NoDrop s) : NoDrop s.pass.1 :=
  cacheRsp_nodrop (dmaRsp_nodrop (handle_nodrop h))

theorem tick_nodrop {s : Cp} (h : NoDrop s) : NoDrop s.tick.1 := by
  unfold Cp.tick
  split
  · exact h
  · split
    · exact pass_nodrop h
    · exact pass_nodrop (pass_nodrop h)

theorem step_log_of_ne_tick (e : CpEnv) (op : CpOp) (h : op ≠ .tick) : (e.step op).1.s.log = e.s.log := by
  cases op with
  | tick => exact absurd rfl h
  | req k => simp only [CpEnv.step]; split <;> rfl
  | takeDma k => rfl
  | takeCache k => rfl
  | takeDrv k => rfl
  | ack j =>
    simp only [CpEnv.step]
    split
    · rfl
    · split <;> rfl
  | rsp j =>
    simp only [CpEnv.step]
    split
    · rfl
    · split
      · rfl
      · split <;> rfl

theorem run_nodrop (ops : List CpOp) (e : CpEnv) (h0 : ∀ ev ∈ e.s.log, ev.dropped = false) :
    ∀ ev ∈ (e.run ops).s.log, ev.dropped = false := by
  induction ops generalizing e with
  | nil => exact h0
  | cons op ops ih =>
    refine ih _ ?_
    by_cases hop : op = .tick
    · subst hop
      exact tick_nodrop (s := e.s) h0
    · rw [step_log_of_ne_tick e op hop]; exact h0

/-! ## consequences for the property theorems -/

theorem flushStart_sublist_popped (l : List CpEv) :
    (l.filterMap CpEv.flushStart?).Sublist ((l.filterMap CpEv.popped?).map (·.id)) := by
  induction l with
  | nil => exact List.Sublist.refl _
  | cons ev l ih =>
    cases ev with
    | flushStart f => simpa [List.filterMap_cons] using ih
    | fwd o c k b => simpa [List.filterMap_cons] using ih.cons o
    | cacheReq i => simpa [List.filterMap_cons] using ih
    | ack => simpa [List.filterMap_cons] using ih
    | flushDone f b => simpa [List.filterMap_cons] using ih
    | done o c k b => simpa [List.filterMap_cons] using ih

theorem CpInvAll.flushDone_nodup {e : CpEnv} (h : CpInvAll e) : (e.s.log.filterMap CpEv.flushDone?).Nodup := by
  obtain ⟨q, hq, _, _⟩ := h.flush.spec
  have h1 := (specInv_of_run hq).starts
  have h2 : (e.s.log.filterMap CpEv.flushStart?).Nodup :=
    (flushStart_sublist_popped e.s.log).nodup h.pop.popped_nodup
  rw [h1] at h2
  exact (List.nodup_append.1 h2).1

theorem nodup_of_map {α β} (f : α → β) {l : List α} (h : (l.map f).Nodup) : l.Nodup :=
  List.Pairwise.of_map f (fun _ _ hab e => hab (congrArg f e)) h

theorem filterMap_split_perm {α β} (g g1 g2 : α → Option β) (l : List α)
    (h : ∀ a ∈ l, (g a = g1 a ∧ g2 a = none) ∨ (g a = g2 a ∧ g1 a = none)) :
    (l.filterMap g).Perm (l.filterMap g1 ++ l.filterMap g2) := by
  induction l with
  | nil => exact List.Perm.refl _
  | cons a l ih =>
    have ih' := ih (fun x hx => h x (List.mem_cons_of_mem _ hx))
    rcases h a (List.mem_cons_self) with ⟨e1, e2⟩ | ⟨e1, e2⟩
    · rw [List.filterMap_cons_none e2]
      cases hg : g1 a with
      | none => rw [List.filterMap_cons_none (e1.trans hg), List.filterMap_cons_none hg]; exact ih'
      | some x =>
        rw [List.filterMap_cons_some (e1.trans hg), List.filterMap_cons_some hg]
        exact ih'.cons x
    · rw [List.filterMap_cons_none e2]
      cases hg : g2 a with
      | none => rw [List.filterMap_cons_none (e1.trans hg), List.filterMap_cons_none hg]; exact ih'
      | some x =>
        rw [List.filterMap_cons_some (e1.trans hg), List.filterMap_cons_some hg]
        exact (ih'.cons x).trans List.perm_middle.symm

/-- the answer to a flush / the request taken for a flush -/
def CpEv.flushRsp? : CpEv → Option CpMsg
  | .flushDone f true => some ⟨f, .flush⟩
  | _ => none

def CpEv.flushPop? : CpEv → Option CpMsg
  | .flushStart f => some ⟨f, .flush⟩
  | _ => none

def CpEv.doneRsp? : CpEv → Option CpMsg
  | .done o _ k true => some ⟨o, k⟩
  | _ => none

def CpEv.fwdPop? : CpEv → Option CpMsg
  | .fwd o _ k _ => some ⟨o, k⟩
  | _ => none

theorem rsp_split (l : List CpEv) :
    (l.filterMap CpEv.rsp?).Perm (l.filterMap CpEv.flushRsp? ++ l.filterMap CpEv.doneRsp?) := by
  apply filterMap_split_perm
  intro ev _
  cases ev with
  | flushDone f b => cases b <;> simp [CpEv.flushRsp?, CpEv.doneRsp?]
  | done o c k b => cases b <;> simp [CpEv.flushRsp?, CpEv.doneRsp?]
  | _ => simp [CpEv.flushRsp?, CpEv.doneRsp?]

theorem popped_split (l : List CpEv) :
    (l.filterMap CpEv.popped?).Perm (l.filterMap CpEv.flushPop? ++ l.filterMap CpEv.fwdPop?) := by
  apply filterMap_split_perm
  intro ev _
  cases ev <;> simp [CpEv.flushPop?, CpEv.fwdPop?]

theorem flushRsp_eq (l : List CpEv) (hnd : ∀ ev ∈ l, ev.dropped = false) :
    l.filterMap CpEv.flushRsp? = (l.filterMap CpEv.flushDone?).map (⟨·, .flush⟩) := by
  induction l with
  | nil => rfl
  | cons ev l ih =>
    have ih' := ih (fun x hx => hnd x (List.mem_cons_of_mem _ hx))
    have h0 := hnd ev List.mem_cons_self
    cases ev with
    | flushDone f b =>
      cases b with
      | true => simp [CpEv.flushRsp?, ih']
      | false => simp at h0
    | _ => simp [List.filterMap_cons, CpEv.flushRsp?, ih']

theorem flushPop_eq (l : List CpEv) :
    l.filterMap CpEv.flushPop? = (l.filterMap CpEv.flushStart?).map (⟨·, .flush⟩) := by
  induction l with
  | nil => rfl
  | cons ev l ih => cases ev <;> simp [List.filterMap_cons, CpEv.flushPop?, ih]

theorem fwdPop_sublist (l : List CpEv) :
    ((l.filterMap CpEv.fwdPop?).map (·.id)).Sublist ((l.filterMap CpEv.popped?).map (·.id)) := by
  induction l with
  | nil => exact List.Sublist.refl _
  | cons ev l ih =>
    cases ev with
    | flushStart f => simpa [List.filterMap_cons, CpEv.fwdPop?] using ih.cons f
    | fwd o c k b => simpa [List.filterMap_cons, CpEv.fwdPop?] using ih
    | cacheReq i => simpa [List.filterMap_cons, CpEv.fwdPop?] using ih
    | ack => simpa [List.filterMap_cons, CpEv.fwdPop?] using ih
    | flushDone f b => simpa [List.filterMap_cons, CpEv.fwdPop?] using ih
    | done o c k b => simpa [List.filterMap_cons, CpEv.fwdPop?] using ih

theorem doneRsp_ids (l : List CpEv) (hnd : ∀ ev ∈ l, ev.dropped = false) :
    (l.filterMap CpEv.doneRsp?).map (·.id) = l.filterMap CpEv.doneOrig? := by
  induction l with
  | nil => rfl
  | cons ev l ih =>
    have ih' := ih (fun x hx => hnd x (List.mem_cons_of_mem _ hx))
    have h0 := hnd ev List.mem_cons_self
    cases ev with
    | done o c k b =>
      cases b with
      | true => simp [CpEv.doneRsp?, ih']
      | false => simp at h0
    | _ => simp [List.filterMap_cons, CpEv.doneRsp?, ih']

/-- quiet, no fault, nothing dropped: the answers are a permutation of the requests taken -/
theorem CpInvAll.quiet_perm {e : CpEnv} (h : CpInvAll e) (hq : e.quiet) (hf : e.s.fault = none)
    (hnd : ∀ ev ∈ e.s.log, ev.dropped = false) : e.drained.Perm e.sent := by
  obtain ⟨q1, q2, q3, q4, q5, q6, q7, q8⟩ := hq
  -- both sides as log projections
  have hdr : e.drained = e.s.log.filterMap CpEv.rsp? := by
    have := h.rsp.rsps; rw [q2, List.append_nil] at this; exact this
  have hsent : e.sent = e.s.log.filterMap CpEv.popped? := by
    obtain ⟨r, hr, hg⟩ := h.pop.popped
    rw [hg hf, q1, List.append_nil] at hr; exact hr
  rw [hdr, hsent]
  refine (rsp_split _).trans (List.Perm.trans ?_ (popped_split _).symm)
  -- flush part: equal lists
  obtain ⟨q, hrun, hw, hg⟩ := h.flush.spec
  have hnum : e.s.numAck = 0 := by rw [h.flush.acks, q5, q6, q8]; rfl
  have hcur : q.cur = none := (hg hf).1 hnum
  have hst := (specInv_of_run hrun).starts
  rw [hcur] at hst
  simp only [Option.toList_none, List.append_nil] at hst
  have hflush : e.s.log.filterMap CpEv.flushRsp? = e.s.log.filterMap CpEv.flushPop? := by
    rw [flushRsp_eq _ hnd, flushPop_eq, hst]
  rw [hflush]
  refine List.Perm.append_left _ ?_
  -- copy part: both duplicate-free with the same members
  have hn1 : (e.s.log.filterMap CpEv.doneRsp?).Nodup := by
    have := h.copy.done_orig
    rw [← doneRsp_ids _ hnd] at this
    exact nodup_of_map _ this
  have hn2 : (e.s.log.filterMap CpEv.fwdPop?).Nodup :=
    nodup_of_map _ ((fwdPop_sublist _).nodup h.pop.popped_nodup)
  rw [List.perm_ext_iff_of_nodup hn1 hn2]
  intro msg
  constructor
  · intro hm
    obtain ⟨ev, hev, he⟩ := List.mem_filterMap.1 hm
    cases ev with
    | done o c k b =>
      cases b with
      | false => simp [CpEv.doneRsp?] at he
      | true =>
        simp only [CpEv.doneRsp?, Option.some.injEq] at he
        obtain ⟨pre, post, hdec⟩ := List.append_of_mem hev
        have hfw : CpEv.fwd o c k true ∈ e.s.log := by
          rw [hdec]; exact List.mem_append_left _ (h.copy.done_pre pre post o c k true hdec).1
        exact List.mem_filterMap.2 ⟨_, hfw, by simpa [CpEv.fwdPop?] using he⟩
    | _ => simp [CpEv.doneRsp?] at he
  · intro hm
    obtain ⟨ev, hev, he⟩ := List.mem_filterMap.1 hm
    cases ev with
    | fwd o c k b =>
      simp only [CpEv.fwdPop?, Option.some.injEq] at he
      have hb : b = true := by
        have := hnd _ hev
        cases b <;> simp_all
      subst hb
      have hcl : (⟨c, o, k⟩ : CpClone) ∈ e.dmaSeen := by
        have h1 : (⟨c, o, k⟩ : CpClone) ∈ e.s.log.filterMap CpEv.clone? := List.mem_filterMap.2 ⟨_, hev, rfl⟩
        rw [← h.copy.clones, q3, List.append_nil] at h1
        exact h1
      rcases h.copy.seen_acc _ hcl with h1 | h1 | ⟨o', k', b', h1⟩
      · rw [q7] at h1; cases h1
      · rw [q4] at h1; cases h1
      · have hb' : b' = true := by
          have := hnd _ h1
          cases b' <;> simp_all
        subst hb'
        obtain ⟨pre, post, hdec⟩ := List.append_of_mem h1
        have hfw : CpEv.fwd o' c k' true ∈ e.s.log := by
          rw [hdec]; exact List.mem_append_left _ (h.copy.done_pre pre post o' c k' true hdec).1
        obtain ⟨e1, e2, _⟩ := h.copy.fwd_cid_unique hev hfw
        subst e1; subst e2
        exact List.mem_filterMap.2 ⟨_, h1, by simpa [CpEv.doneRsp?] using he⟩
    | _ => simp [CpEv.fwdPop?] at he


/-! ## pure consequences of acceptance, used for clauses (a) and (c) -/

theorem accepted_fwd_idle {n : Nat} {q : FlushSpec} {pre post : List CpEv} {ev : CpEv} (hf : ev.isFwd = true)
    (hq : specRun n {} (pre ++ ev :: post) = some q) :
    pre.filterMap CpEv.flushStart? = pre.filterMap CpEv.flushDone? ∧
    (pre.filterMap CpEv.cacheIdx?).length = pre.countP CpEv.isAck := by
  obtain ⟨q1, q2, h1, h2, _⟩ := specRun_split hq
  have hi := specInv_of_run h1
  cases ev with
  | fwd o c k b =>
    simp only [specStep] at h2
    split at h2
    · rename_i hc
      refine ⟨?_, ?_⟩
      · have := hi.starts; rw [hc.1] at this; simpa using this
      · have := hi.count; rw [hc.2] at this; simpa using this
    · cases h2
  | _ => simp at hf

theorem accepted_flushDone {n : Nat} {q : FlushSpec} {pre post : List CpEv} {f : Nat} {b : Bool}
    (hq : specRun n {} (pre ++ .flushDone f b :: post) = some q)
    (hnd : ((pre ++ .flushDone f b :: post).filterMap CpEv.flushDone?).Nodup) :
    (∃ p1 p2, pre = p1 ++ .flushStart f :: p2 ∧ p2.filterMap CpEv.cacheIdx? = List.range n ∧
      p2.countP CpEv.isAck = n ∧ ∀ ev ∈ p2, ev.isFwd = false) ∧
    f ∉ pre.filterMap CpEv.flushDone? ∧ f ∉ post.filterMap CpEv.flushDone? := by
  obtain ⟨q1, q2, h1, h2, _⟩ := specRun_split hq
  have hi := specInv_of_run h1
  simp only [specStep] at h2
  split at h2
  · rename_i hc
    obtain ⟨p1, p2, e1, e2, e3, e4, e5⟩ := hi.opened f hc.1
    have hnd' : (pre.filterMap CpEv.flushDone? ++ f :: post.filterMap CpEv.flushDone?).Nodup := by
      simpa [List.filterMap_append, List.filterMap_cons] using hnd
    obtain ⟨_, n2, n3⟩ := List.nodup_append.1 hnd'
    refine ⟨⟨p1, p2, e1, ?_, ?_, e5⟩, ?_, ?_⟩
    · rw [e2, e3, hc.2.2]
    · have := hc.2.1; have := hc.2.2; omega
    · exact fun hm => n3 f hm f List.mem_cons_self rfl
    · exact (List.nodup_cons.1 n2).1
  · cases h2

end C11
