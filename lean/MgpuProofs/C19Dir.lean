import MgpuProofs.C19Tok
import MgpuProofs.C19Inv
/-! Helper definitions for C19 (closed system): the invariant of one direction of migration
    (requester `p`, owner `1-p`). -/
namespace C19

def nCh (r : MigReq) : Nat := r.size / unit
def idOf (p b i : Nat) : Nat := 2 * (b + i) + p % 2

/-- `d` is chunk `i` of the image `S` -/
def chunkOf (S d : List Nat) (i : Nat) : Prop :=
  d.length = unit ∧ ∀ k, k < unit → d.getD k 0 = S.getD (unit * i + k) 0

/-- a token belongs to the migration `r` (ids from `b` on) of requester `p`, whose source image is `S` -/
def GoodTok (p : Nat) (r : MigReq) (S : List Nat) (b : Nat) : Tok → Prop
  | .rd id a sz => ∃ i, i < nCh r ∧ id = idOf p b i ∧ a = r.rd + unit * i ∧ sz = unit
  | .dt id d => ∃ i, i < nCh r ∧ id = idOf p b i ∧ chunkOf S d i
  | .wr a d => ∃ i, i < nCh r ∧ a = r.wr + unit * i ∧ chunkOf S d i
  | .dn => True
  | .bad => False

/-- bytes `[lo,hi)` of the image `S` are at `a + ·` in `m` -/
def Img (m : Mem) (a : Nat) (S : List Nat) (lo hi : Nat) : Prop :=
  ∀ j, lo ≤ j → j < hi → readByte m (a + j) = S.getD j 0

/-- the migration `r` of requester `p` is under way: every token is a chunk of it, the chunks whose
    data did not arrive yet are exactly the entries of the address map, tokens + counted write-dones
    = number of chunks, and a chunk that is neither in the map nor a pending write is in place -/
structure Moving (p : Nat) (r : MigReq) (S : List Nat) (b : Nat) (T : List Tok)
    (am : List (Nat × Nat)) (dones : Nat) (memR : Mem) : Prop where
  good : ∀ t ∈ T, GoodTok p r S b t
  mp : ∀ e ∈ am, ∃ i, i < nCh r ∧ e.1 = idOf p b i ∧ e.2 = r.wr + unit * i
  cn : (idsA T).Perm (am.map Prod.fst)
  nd : (am.map Prod.fst).Nodup
  ln : T.length + dones = nCh r
  lt : dones < nCh r
  wr : ∀ i, i < nCh r → (∀ e ∈ am, e.2 ≠ r.wr + unit * i) → (∀ d, Tok.wr (r.wr + unit * i) d ∉ T) →
    Img memR r.wr S (unit * i) (unit * i + unit)

theorem idsA_perm {T T' : List Tok} (h : T'.Perm T) : (idsA T').Perm (idsA T) :=
  List.Perm.flatMap_right _ h

theorem Moving.perm {p r S b T T' am dones memR} (hp : List.Perm T' T) (h : Moving p r S b T am dones memR) :
    Moving p r S b T' am dones memR where
  good := fun t ht => h.good t (hp.mem_iff.mp ht)
  mp := h.mp
  cn := (idsA_perm hp).trans h.cn
  nd := h.nd
  ln := by rw [hp.length_eq]; exact h.ln
  lt := h.lt
  wr := fun i hi h1 h2 => h.wr i hi h1 (fun d hd => h2 d (hp.mem_iff.mpr hd))

theorem idOf_inj {p b i j : Nat} (h : idOf p b i = idOf p b j) : i = j := by
  unfold idOf at h; omega

@[simp] theorem idsA_cons_dt (i : Nat) (d : List Nat) (T : List Tok) : idsA (Tok.dt i d :: T) = i :: idsA T := by
  simp [idsA, idA]
@[simp] theorem idsA_cons_wr (a : Nat) (d : List Nat) (T : List Tok) : idsA (Tok.wr a d :: T) = idsA T := by
  simp [idsA, idA]
@[simp] theorem idsA_cons_dn (T : List Tok) : idsA (Tok.dn :: T) = idsA T := by
  simp [idsA, idA]
@[simp] theorem idsA_nil : idsA [] = [] := rfl

/-- the data of a chunk arrived: its map entry becomes a write request -/
theorem Moving.pull {p r S b T am dones memR id d a} (h : Moving p r S b (Tok.dt id d :: T) am dones memR)
    (hl : (id, a) ∈ am) :
    Moving p r S b (Tok.wr a d :: T) (am.filter fun e => e.1 != id) dones memR := by
  obtain ⟨i, hi, hid, hc⟩ := h.good _ (List.mem_cons_self ..)
  obtain ⟨i', hi', hid', ha⟩ := h.mp _ hl
  simp only at hid' ha
  have hii : i = i' := idOf_inj (hid.symm.trans hid')
  subst hii
  have hfm : (am.filter fun e => e.1 != id).map Prod.fst = (am.map Prod.fst).filter (· != id) := by
    rw [List.filter_map]; rfl
  have hmem : id ∈ am.map Prod.fst := List.mem_map.mpr ⟨_, hl, rfl⟩
  refine ⟨?_, ?_, ?_, ?_, ?_, h.lt, ?_⟩
  · intro t ht
    rcases List.mem_cons.mp ht with rfl | ht
    · exact ⟨i, hi, ha, hc⟩
    · exact h.good t (List.mem_cons_of_mem _ ht)
  · intro e he; exact h.mp e (List.mem_filter.mp he).1
  · rw [hfm]
    apply List.perm_iff_count.mpr
    intro k
    have hc := List.perm_iff_count.mp h.cn k
    simp only [idsA_cons_dt, idsA_cons_wr, List.count_cons] at hc ⊢
    by_cases hk : k = id
    · subst hk
      have h1 : List.count k (am.map Prod.fst) = 1 := List.Nodup.count h.nd |>.trans (by simp [hmem])
      have h2 : List.count k ((am.map Prod.fst).filter (· != k)) = 0 := by
        rw [List.count_eq_zero]; simp [List.mem_filter]
      simp at hc; omega
    · have h2 : List.count k ((am.map Prod.fst).filter (· != id)) = List.count k (am.map Prod.fst) :=
        List.count_filter (by simp [hk])
      have : (id == k) = false := by simp; exact fun e => hk e.symm
      simp [this] at hc; omega
  · rw [hfm]; exact List.Pairwise.filter _ h.nd
  · simpa using h.ln
  · intro j hj h1 h2
    have hne : a ≠ r.wr + unit * j := fun e => h2 d (e ▸ List.mem_cons_self ..)
    refine h.wr j hj ?_ ?_
    · intro e he
      by_cases hk : e.1 = id
      · obtain ⟨j', _, hj1, hj2⟩ := h.mp e he
        have : j' = i := idOf_inj (hj1.symm.trans (hk.trans hid'))
        subst this; rw [hj2, ← ha]; exact hne
      · exact h1 e (List.mem_filter.mpr ⟨he, by simp [hk]⟩)
    · intro d' hd'
      rcases List.mem_cons.mp hd' with he | hd'
      · cases he
      · exact h2 d' (List.mem_cons_of_mem _ hd')

/-- a write-done is counted -/
theorem Moving.count {p r S b T am dones memR} (h : Moving p r S b (Tok.dn :: T) am dones memR)
    (hlt : dones + 1 < nCh r) : Moving p r S b T am (dones + 1) memR where
  good := fun t ht => h.good t (List.mem_cons_of_mem _ ht)
  mp := h.mp
  cn := by simpa using h.cn
  nd := h.nd
  ln := by have := h.ln; simp only [List.length_cons] at this; omega
  lt := hlt
  wr := fun i hi h1 h2 => h.wr i hi h1 (fun d hd => by
    rcases List.mem_cons.mp hd with he | hd
    · cases he
    · exact h2 d hd)

theorem mkPulls_ids (self peer rd wr base n : Nat) :
    (mkPulls self peer rd wr base n).map (fun x => x.1.id) = (List.range n).map (idOf self base) := by
  induction n with
  | zero => rfl
  | succ n ih => simp [mkPulls, ih, List.range_succ, idOf]

theorem idsA_map_tReq (l : List (PullReq × Nat)) : idsA (l.map fun x => tReq x.1) = l.map fun x => x.1.id := by
  induction l with
  | nil => rfl
  | cons x l ih => simp_all [idsA, idA, tReq]

/-- `processPageMigrationReqFromCtrlPort` creates the chunks -/
theorem Moving.start (p : Nat) (r : MigReq) (S : List Nat) (nid : Nat) (memR : Mem) (hn : 0 < nCh r) :
    Moving p r S nid ((mkPulls p r.peer r.rd r.wr nid (nCh r)).map fun x => tReq x.1)
      ((mkPulls p r.peer r.rd r.wr nid (nCh r)).map fun x => (x.1.id, x.2)) 0 memR where
  good := by
    intro t ht
    obtain ⟨x, hx, rfl⟩ := List.mem_map.mp ht
    obtain ⟨i, hi, rfl⟩ := (mem_mkPulls ..).mp hx
    exact ⟨i, hi, rfl, rfl, rfl⟩
  mp := by
    intro e he
    obtain ⟨x, hx, rfl⟩ := List.mem_map.mp he
    obtain ⟨i, hi, rfl⟩ := (mem_mkPulls ..).mp hx
    exact ⟨i, hi, rfl, rfl⟩
  cn := by rw [idsA_map_tReq, List.map_map]; exact List.Perm.refl _
  nd := by
    rw [List.map_map]
    show ((mkPulls p r.peer r.rd r.wr nid (nCh r)).map fun x => x.1.id).Nodup
    rw [mkPulls_ids, List.Nodup, List.pairwise_map]
    exact List.Pairwise.imp (fun h e => h (idOf_inj e)) List.nodup_range
  ln := by simp [mkPulls_length]
  lt := hn
  wr := by
    intro i hi h1 _
    exact absurd rfl (h1 (_, r.wr + unit * i) (List.mem_map.mpr ⟨_, (mem_mkPulls ..).mpr ⟨i, hi, rfl⟩, rfl⟩))

/-- the last write-done: nothing is left, the destination range holds the source image -/
theorem Moving.finish {p r S b am dones memR} (h : Moving p r S b [Tok.dn] am dones memR)
    (hsz : r.size % unit = 0) : am = [] ∧ Img memR r.wr S 0 r.size := by
  have hnil : am = [] := by
    have := h.cn
    simp only [idsA_cons_dn, idsA_nil] at this
    exact List.map_eq_nil_iff.mp (List.Perm.nil_eq this).symm
  refine ⟨hnil, ?_⟩
  intro j _ hj
  have hdiv : unit * (j / unit) + j % unit = j := Nat.div_add_mod j unit
  have hmod : j % unit < unit := Nat.mod_lt _ (by decide)
  have hlt : j / unit < nCh r := by
    unfold nCh
    have := Nat.div_add_mod r.size unit
    simp only [unit_eq] at *
    omega
  exact h.wr (j / unit) hlt (by simp [hnil]) (by simp) j (by omega) (by omega)

/-- the owner's memory performs a read -/
theorem Moving.read {p r S b T am dones memR id a sz} {memO : Mem}
    (h : Moving p r S b (Tok.rd id a sz :: T) am dones memR) (hs : Img memO r.rd S 0 r.size)
    (hb : r.rd + r.size ≤ memO.size) (hsz : r.size % unit = 0) :
    a + sz ≤ memO.size ∧ Moving p r S b (Tok.dt id (readBytes memO a sz) :: T) am dones memR := by
  obtain ⟨i, hi, hid, ha, hz⟩ := h.good _ (List.mem_cons_self ..)
  subst ha hz
  have hle : unit * i + unit ≤ r.size := by
    unfold nCh at hi
    have := Nat.div_add_mod r.size unit
    simp only [unit_eq] at *
    omega
  refine ⟨by omega, ?_, h.mp, ?_, h.nd, ?_, h.lt, ?_⟩
  · intro t ht
    rcases List.mem_cons.mp ht with rfl | ht
    · refine ⟨i, hi, hid, readBytes_length .., ?_⟩
      intro k hk
      rw [readBytes_getD _ _ _ _ hk, ← hs (unit * i + k) (by omega) (by omega)]
      congr 1; omega
    · exact h.good t (List.mem_cons_of_mem _ ht)
  · simpa [idsA, idA] using h.cn
  · simpa using h.ln
  · intro j hj h1 h2
    refine h.wr j hj h1 ?_
    intro d hd
    rcases List.mem_cons.mp hd with he | hd
    · cases he
    · exact h2 d (List.mem_cons_of_mem _ hd)

/-- the requester's memory performs a write -/
theorem Moving.write {p r S b T am dones memR a d}
    (h : Moving p r S b (Tok.wr a d :: T) am dones memR) (hb : r.wr + r.size ≤ memR.size)
    (hsz : r.size % unit = 0) :
    a + d.length ≤ memR.size ∧ r.wr ≤ a ∧ a + d.length ≤ r.wr + r.size ∧
      Moving p r S b (Tok.dn :: T) am dones (writeBytes memR a d) := by
  obtain ⟨i, hi, ha, hl, hc⟩ := h.good _ (List.mem_cons_self ..)
  subst ha
  have hle : unit * i + unit ≤ r.size := by
    unfold nCh at hi
    have := Nat.div_add_mod r.size unit
    simp only [unit_eq] at *
    omega
  have hin : r.wr + unit * i + d.length ≤ memR.size := by omega
  refine ⟨hin, by omega, by omega, ?_, h.mp, ?_, h.nd, ?_, h.lt, ?_⟩
  · intro t ht
    rcases List.mem_cons.mp ht with rfl | ht
    · trivial
    · exact h.good t (List.mem_cons_of_mem _ ht)
  · simpa [idsA, idA] using h.cn
  · simpa using h.ln
  · intro j hj h1 h2 x hx1 hx2
    rw [readByte_writeBytes _ _ _ _ hin]
    by_cases hij : j = i
    · subst hij
      rw [if_pos (by omega)]
      have := hc (x - unit * j) (by simp only [unit_eq] at *; omega)
      rw [show r.wr + x - (r.wr + unit * j) = x - unit * j by omega, this]
      congr 1; omega
    · have hjl : unit * j + unit ≤ r.size := by
        unfold nCh at hj
        have := Nat.div_add_mod r.size unit
        simp only [unit_eq] at *
        omega
      rw [if_neg (by simp only [unit_eq] at *; omega)]
      refine h.wr j hj h1 ?_ x hx1 hx2
      intro d' hd'
      rcases List.mem_cons.mp hd' with he | hd'
      · injection he with he1 _
        simp only [unit_eq] at he1; omega
      · exact h2 d' (List.mem_cons_of_mem _ hd')

def activeId (q : Pmc) : Option Nat :=
  match q.cur with
  | some r => some r.id
  | none => q.toCtrl

/-- the owner's tokens between its remote port's incoming buffer and its reply queue -/
def ownInner (v : DirV) : List Tok :=
  v.ow.curPull.map tReq ++ v.ow.toRead.map tRd ++ v.ow.memOut.flatMap moRd ++ v.mqO.flatMap moRd ++
  v.mrO.flatMap miDt ++ v.ow.memIn.flatMap miDt ++ v.ow.dataReady.map (fun e => Tok.dt e.1 e.2)

/-- the invariant of one direction -/
structure Dir (v : DirV) (live : List Live) : Prop where
  sf : v.rq.self = v.p ∧ v.p < 2
  co : ∀ c ∈ v.rq.ctlOut, c ∈ v.rq.completed
  ph : Phase (key v.rq) ∨ Accepted (key v.rq)
  idn : ((live.filter (fun ℓ => ℓ.p == v.p)).map (·.r.id)).Nodup
  lk : (live.filter (fun ℓ => ℓ.p == v.p)).map (·.r.id) =
        v.rq.ctlOut ++ (activeId v.rq).toList ++ (migsOf v.rq.ctlIn ++ migsOf v.cq).map (·.id)
  lm : ∀ r, (v.rq.cur = some r ∨ r ∈ migsOf v.rq.ctlIn ∨ r ∈ migsOf v.cq) → ∃ ℓ ∈ live, ℓ.p = v.p ∧ ℓ.r = r
  cj : CMsg.junk ∉ v.rq.ctlIn ∧ CMsg.junk ∉ v.cq
  wd : v.rq.wdone.isSome = true → v.rq.memIn = []
  mi : v.rq.memIn.length ≤ 1
  wf : ∀ ℓ ∈ live, ℓ.p = v.p → ℓ.r.peer = 1 - v.p ∧ 0 < ℓ.r.size ∧ ℓ.r.size % unit = 0 ∧
        ℓ.r.rd + ℓ.r.size ≤ v.memO.size ∧ ℓ.r.wr + ℓ.r.size ≤ v.memR.size ∧ ℓ.snap.length = ℓ.r.size
  dn : ∀ ℓ ∈ live, ℓ.p = v.p → (ℓ.r.id ∈ v.rq.ctlOut ∨ v.rq.toCtrl = some ℓ.r.id) →
        Img v.memR ℓ.r.wr ℓ.snap 0 ℓ.r.size
  sr : ∀ ℓ ∈ live, ℓ.p = v.p → Img v.memO ℓ.r.rd ℓ.snap 0 ℓ.r.size
  rt1 : ∀ r ∈ v.rq.toPull, r.src = v.p ∧ r.dst = 1 - v.p
  rt2 : ∀ r, RMsg.req r ∈ v.rq.remOut → r.src = v.p ∧ r.dst = 1 - v.p
  rt3 : ∀ r, RMsg.req r ∈ v.ow.remIn → r.src = v.p
  rp : v.ow.reqPort = some v.p ∨ (v.ow.reqPort = none ∧ ownInner v = [])
  rd1 : ∀ r ∈ v.ow.toRsp, r.dst = some v.p
  rd2 : ∀ r, RMsg.rsp r ∈ v.ow.remOut → r.dst = some v.p
  mv : ∀ r, v.rq.cur = some r → v.rq.handling = true →
        ∃ ℓ ∈ live, ℓ.p = v.p ∧ ℓ.r = r ∧ ∃ b, Moving v.p r ℓ.snap b (toks v) v.rq.map v.rq.dones v.memR
  nm : ¬ (v.rq.cur.isSome = true ∧ v.rq.handling = true) → toks v = [] ∧ v.rq.map = []

/-- the token part of the invariant depends on the tokens only as a multiset -/
theorem Dir.mv_nm {v v' : DirV} {live : List Live} (h : Dir v live) (hp : (toks v').Perm (toks v))
    (e1 : v'.p = v.p) (e2 : v'.rq.cur = v.rq.cur) (e3 : v'.rq.handling = v.rq.handling)
    (e4 : v'.rq.map = v.rq.map) (e5 : v'.rq.dones = v.rq.dones) (e6 : v'.memR = v.memR) :
    (∀ r, v'.rq.cur = some r → v'.rq.handling = true →
        ∃ ℓ ∈ live, ℓ.p = v'.p ∧ ℓ.r = r ∧ ∃ b, Moving v'.p r ℓ.snap b (toks v') v'.rq.map v'.rq.dones v'.memR) ∧
    (¬ (v'.rq.cur.isSome = true ∧ v'.rq.handling = true) → toks v' = [] ∧ v'.rq.map = []) := by
  rw [e1, e2, e3, e4, e5, e6]
  refine ⟨fun r hr hh => ?_, fun hn => ?_⟩
  · obtain ⟨ℓ, hl, h1, h2, b, hm⟩ := h.mv r hr hh
    exact ⟨ℓ, hl, h1, h2, b, hm.perm hp⟩
  · obtain ⟨h1, h2⟩ := h.nm hn
    rw [h1] at hp
    exact ⟨List.Perm.eq_nil hp, h2⟩

end C19
