import MgpuModel.C20_Header
import MgpuModel.C20_Spec
import MgpuProofs.C20_ParseLemmas
/-! # C20 — round-trip lemmas for the header / kernelslist / benchmark-builder model
(`MgpuModel/C20_Header.lean`) -/
namespace C20
set_option linter.unusedSimpArgs false

/-! ## 1. characters -/

theorem char_le_toNat (a b : Char) : a ≤ b ↔ a.toNat ≤ b.toNat := by
  rw [Char.le_def]
  exact UInt32.le_iff_toNat_le

/-- the characters with a digit value below 16 are `0-9a-fA-F` -/
theorem digitVal_lt16 (c : Char) (h : digitVal c < 16) :
    (48 ≤ c.toNat ∧ c.toNat ≤ 57) ∨ (97 ≤ c.toNat ∧ c.toNat ≤ 102) ∨ (65 ≤ c.toNat ∧ c.toNat ≤ 70) := by
  unfold digitVal at h
  simp only [char_le_toNat] at h
  have e0 : '0'.toNat = 48 := by decide
  have e9 : '9'.toNat = 57 := by decide
  have ea : 'a'.toNat = 97 := by decide
  have ef : 'f'.toNat = 102 := by decide
  have eA : 'A'.toNat = 65 := by decide
  have eF : 'F'.toNat = 70 := by decide
  rw [e0, e9, ea, ef, eA, eF] at h
  split at h
  · omega
  · split at h
    · omega
    · split at h
      · omega
      · omega

/-- a character that is neither Go white space nor `=` (nor a separator of the formats used here) -/
def PlainC (c : Char) : Prop := isSpaceC c = false ∧ c ≠ '='

theorem plainC_of_digit (b : Nat) (hb : b ≤ 16) (c : Char) (h : isDigit b c = true) : PlainC c := by
  have h' : digitVal c < b := of_decide_eq_true h
  have hr := digitVal_lt16 c (by omega)
  constructor
  · unfold isSpaceC
    simp
    omega
  · intro hc
    subst hc
    have : '='.toNat = 61 := by decide
    omega

/-- every character is plain -/
def Plain (v : List Char) : Prop := ∀ c ∈ v, PlainC c

theorem plain_nil : Plain [] := fun _ h => absurd h List.not_mem_nil

theorem plain_cons (c : Char) (v : List Char) (hc : PlainC c) (hv : Plain v) : Plain (c :: v) := by
  intro x hx
  rcases List.mem_cons.mp hx with h | h
  · exact h ▸ hc
  · exact hv x h

theorem plain_append (a b : List Char) (ha : Plain a) (hb : Plain b) : Plain (a ++ b) := by
  intro x hx
  rcases List.mem_append.mp hx with h | h
  · exact ha x h
  · exact hb x h

theorem plain_digits (b : Nat) (hb : b ≤ 16) (s : List Char) (hd : ∀ c ∈ s, isDigit b c = true) : Plain s :=
  fun c hc => plainC_of_digit b hb c (hd c hc)

theorem plain_showNat (b n : Nat) (hb2 : 2 ≤ b) (hb : b ≤ 16) : Plain (showNat b n) :=
  plain_digits b hb _ (showNat_isDigit b n hb2 hb)

theorem plain_showInt (i : Int) : Plain (showInt i) := by
  unfold showInt
  split
  · exact plain_cons _ _ ⟨by decide, by decide⟩ (plain_showNat 10 _ (by omega) (by omega))
  · exact plain_showNat 10 _ (by omega) (by omega)

theorem plain_hex16 (n : Nat) : Plain (hex16 n) :=
  plain_cons _ _ ⟨by decide, by decide⟩ (plain_cons _ _ ⟨by decide, by decide⟩
    (plain_digits 16 (by omega) _ (pad_isDigit 16 16 (by omega) _ (showNat_isDigit 16 n (by omega) (by omega)))))

theorem plain_renderDim (d : Int × Int × Int) : Plain (renderDim d) := by
  unfold renderDim
  refine plain_cons _ _ ⟨by decide, by decide⟩ (plain_append _ _ (plain_showInt _) ?_)
  refine plain_cons _ _ ⟨by decide, by decide⟩ (plain_append _ _ (plain_showInt _) ?_)
  refine plain_cons _ _ ⟨by decide, by decide⟩ (plain_append _ _ (plain_showInt _) ?_)
  exact plain_cons _ _ ⟨by decide, by decide⟩ plain_nil

theorem plain_noEq (v : List Char) (h : Plain v) : '=' ∉ v := fun hm => (h _ hm).2 rfl

/-! ## 2. `strings.TrimSpace`, `strings.Split` -/

theorem dropWhile_head_false {α} (p : α → Bool) (l : List α) (h : ∀ c r, l = c :: r → p c = false) :
    l.dropWhile p = l := by
  cases l with
  | nil => rfl
  | cons c r => simp [List.dropWhile, h c r rfl]

/-- `TrimSpace` leaves a string alone whose first and last characters are not white space -/
theorem trimSp_ends (v : List Char) (h1 : ∀ c r, v = c :: r → isSpaceC c = false)
    (h2 : ∀ c r, v = r ++ [c] → isSpaceC c = false) : trimSp v = v := by
  unfold trimSp skipSp
  rw [dropWhile_head_false _ v h1, dropWhile_head_false _ v.reverse, List.reverse_reverse]
  intro c r hr
  have : v = r.reverse ++ [c] := by
    have := congrArg List.reverse hr
    simpa using this
  exact h2 c _ this

theorem trimSp_plain (v : List Char) (h : Plain v) : trimSp v = v :=
  trimSp_ends v (fun c _ e => (h c (e ▸ List.mem_cons_self)).1)
    (fun c _ e => (h c (e ▸ List.mem_append_right _ List.mem_cons_self)).1)

/-- the blank after the `=` is trimmed -/
theorem trimSp_space_cons (v : List Char) : trimSp (' ' :: v) = trimSp v := by
  have : isSpaceC ' ' = true := by decide
  simp [trimSp, skipSp, List.dropWhile, this]

theorem splitOnC_no (d : Char) (v : List Char) (h : d ∉ v) : splitOnC d v = [v] := by
  induction v with
  | nil => rfl
  | cons c r ih =>
    have hc : c ≠ d := fun e => h (e ▸ List.mem_cons_self)
    have hr : d ∉ r := fun m => h (List.mem_cons_of_mem _ m)
    simp [splitOnC, hc, ih hr]

theorem splitOnC_append (d : Char) (a v : List Char) (h : d ∉ a) :
    splitOnC d (a ++ d :: v) = a :: splitOnC d v := by
  induction a with
  | nil => simp [splitOnC]
  | cons c r ih =>
    have hc : c ≠ d := fun e => h (e ▸ List.mem_cons_self)
    have hr : d ∉ r := fun m => h (List.mem_cons_of_mem _ m)
    simp [splitOnC, hc, ih hr]

/-! ## 3. one header line -/

theorem splitOnC_head (d : Char) (v : List Char) :
    ∃ t, splitOnC d v = v.takeWhile (fun c => c != d) :: t := by
  induction v with
  | nil => exact ⟨[], rfl⟩
  | cons c r ih =>
    obtain ⟨t, e⟩ := ih
    by_cases hc : c = d
    · exact ⟨splitOnC d r, by simp [splitOnC, hc]⟩
    · exact ⟨t, by simp [splitOnC, hc, e]⟩

/-- what the reader kept of a string value BEFORE the repair: the part before its first `=`, trimmed -/
def keptStrOld (v : List Char) : List Char := trimSp (v.takeWhile (fun c => c != '='))

/-- what the (repaired) reader keeps of a string value: all of it, trimmed -/
def keptStr (v : List Char) : List Char := trimSp v

theorem keptStr_noEq (v : List Char) (_h : '=' ∉ v) : keptStr v = trimSp v := rfl

theorem takeWhile_ne_append (d : Char) (a v : List Char) (h : d ∉ a) :
    (a ++ d :: v).takeWhile (fun c => c != d) = a := by
  induction a with
  | nil => simp
  | cons c r ih =>
    have hc : c ≠ d := fun e => h (e ▸ List.mem_cons_self)
    have hr : d ∉ r := fun m => h (List.mem_cons_of_mem _ m)
    simp [hc, ih hr]

theorem afterFirst_append (d : Char) (a v : List Char) (h : d ∉ a) : afterFirst d (a ++ d :: v) = some v := by
  induction a with
  | nil => simp [afterFirst]
  | cons c r ih =>
    have hc : c ≠ d := fun e => h (e ▸ List.mem_cons_self)
    have hr : d ∉ r := fun m => h (List.mem_cons_of_mem _ m)
    simp [afterFirst, hc, ih hr]

/-- a rendered `-key = value` line reaches `updateTraceHeaderParam` with the key and with what is
    kept of the value -/
theorem headerLine_renderKV (h : KernelFileHeader) (key : String) (v : List Char)
    (hk : '=' ∉ '-' :: (key.toList ++ [' ']))
    (hkt : (trimSp ('-' :: (key.toList ++ [' ']))).drop 1 = key.toList) :
    headerLine h (renderKV key v) = updateParam h key.toList (keptStr v) := by
  have e : renderKV key v = ('-' :: (key.toList ++ [' '])) ++ '=' :: (' ' :: v) := by
    simp [renderKV]
  unfold headerLine
  rw [e, takeWhile_ne_append '=' _ _ hk, afterFirst_append '=' _ _ hk]
  simp only [hkt, trimSp_space_cons]
  rfl

/-- the same line under the reader before the repair: the value was cut at its first `=` -/
theorem headerLineOld_renderKV (h : KernelFileHeader) (key : String) (v : List Char)
    (hk : '=' ∉ '-' :: (key.toList ++ [' ']))
    (hkt : (trimSp ('-' :: (key.toList ++ [' ']))).drop 1 = key.toList) :
    headerLineOld h (renderKV key v) = updateParam h key.toList (keptStrOld v) := by
  have e : renderKV key v = ('-' :: (key.toList ++ [' '])) ++ '=' :: (' ' :: v) := by
    simp [renderKV]
  obtain ⟨t, et⟩ := splitOnC_head '=' (' ' :: v)
  have e2 : (' ' :: v).takeWhile (fun c => c != '=') = ' ' :: v.takeWhile (fun c => c != '=') := by
    rw [List.takeWhile_cons_of_pos (by decide)]
  unfold headerLineOld
  rw [e, splitOnC_append '=' _ _ hk, et, e2]
  simp only [List.headD_cons, hkt]
  rw [show (('-' :: (key.toList ++ [' '])) :: (' ' :: v.takeWhile (fun c => c != '=')) :: t)[1]? =
    some (' ' :: v.takeWhile (fun c => c != '=')) from rfl]
  simp only [trimSp_space_cons]
  rfl

/-! ## 4. `%d` -/

/-- what may follow a decimal number: nothing, or a character that is no decimal digit -/
def RestD (rest : List Char) : Prop := rest = [] ∨ ∃ c r, rest = c :: r ∧ isDigit 10 c = false

theorem RestD_nil : RestD [] := Or.inl rfl
theorem RestD_comma (r : List Char) : RestD (',' :: r) := Or.inr ⟨',', r, rfl, by decide⟩
theorem RestD_paren (r : List Char) : RestD (')' :: r) := Or.inr ⟨')', r, rfl, by decide⟩

theorem takeWhile_digits (s rest : List Char) (hd : ∀ c ∈ s, isDigit 10 c = true) (hr : RestD rest) :
    (s ++ rest).takeWhile (isDigit 10) = s ∧ (s ++ rest).dropWhile (isDigit 10) = rest := by
  rw [List.takeWhile_append_of_pos hd, List.dropWhile_append_of_pos hd]
  rcases hr with h | ⟨c, r, h, hc⟩
  · subst h
    simp
  · subst h
    rw [List.takeWhile_cons_of_neg (by simpa using hc), List.dropWhile_cons_of_neg (by simpa using hc)]
    simp

theorem skipSp_plain_append (s rest : List Char) (hs : s ≠ []) (hp : Plain s) : skipSp (s ++ rest) = s ++ rest := by
  cases s with
  | nil => exact absurd rfl hs
  | cons c r =>
    unfold skipSp
    exact dropWhile_head_false _ _ (fun c' r' e => by
      have : c' = c := by
        have := congrArg List.head? e
        simpa using this.symm
      exact this ▸ (hp c List.mem_cons_self).1)

theorem scanD_pos (bits : Nat) (s rest : List Char) (hs : s ≠ [])
    (hd : ∀ c ∈ s, isDigit 10 c = true) (hr : RestD rest)
    (hf : (fits 64 (valOf 10 s : Int) && fits bits (valOf 10 s : Int)) = true) :
    scanD bits (s ++ rest) = some ((valOf 10 s : Int), rest) := by
  unfold scanD
  rw [skipSp_plain_append s rest hs (plain_digits 10 (by omega) s hd)]
  simp only [splitSign_digits 10 (by omega) s rest hs hd, (takeWhile_digits s rest hd hr).1,
    (takeWhile_digits s rest hd hr).2, isEmpty_false_of_ne_nil s hs, signed]
  simp [hf]

theorem scanD_neg (bits : Nat) (s rest : List Char) (hs : s ≠ [])
    (hd : ∀ c ∈ s, isDigit 10 c = true) (hr : RestD rest)
    (hf : (fits 64 (-(valOf 10 s : Int)) && fits bits (-(valOf 10 s : Int))) = true) :
    scanD bits ('-' :: (s ++ rest)) = some (-(valOf 10 s : Int), rest) := by
  unfold scanD
  have hsk : skipSp ('-' :: (s ++ rest)) = '-' :: (s ++ rest) := by
    have : isSpaceC '-' = false := by decide
    simp [skipSp, List.dropWhile, this]
  rw [hsk]
  simp only [splitSign_neg, (takeWhile_digits s rest hd hr).1,
    (takeWhile_digits s rest hd hr).2, isEmpty_false_of_ne_nil s hs, signed]
  simp [hf]

/-- `%d` reads back a printed int32 and leaves the rest of the input -/
theorem scanD_showInt (i : Int) (rest : List Char) (h1 : -2147483648 ≤ i) (h2 : i < 2147483648)
    (hr : RestD rest) : scanD 32 (showInt i ++ rest) = some (i, rest) := by
  have hne := showNat_ne_nil 10 i.natAbs
  have hd := showNat_isDigit 10 i.natAbs (by omega) (by omega)
  have hv := valOf_showNat 10 i.natAbs (by omega) (by omega)
  unfold showInt
  split
  · rename_i hneg
    rw [List.cons_append, scanD_neg 32 _ rest hne hd hr
      (by rw [hv]; exact fits_32 _ (by omega) (by omega))]
    rw [hv]
    congr 2
    omega
  · rename_i hpos
    rw [scanD_pos 32 _ rest hne hd hr
      (by rw [hv]; exact fits_32 _ (by omega) (by omega))]
    rw [hv]
    congr 2
    omega

theorem scanD1_showInt (i : Int) (h1 : -2147483648 ≤ i) (h2 : i < 2147483648) :
    scanD1 (showInt i) = .ok i := by
  have := scanD_showInt i [] h1 h2 RestD_nil
  rw [List.append_nil] at this
  simp [scanD1, this]

/-- in-range dimension -/
def DimOK (d : Int × Int × Int) : Prop :=
  (-2147483648 ≤ d.1 ∧ d.1 < 2147483648) ∧ (-2147483648 ≤ d.2.1 ∧ d.2.1 < 2147483648) ∧
  (-2147483648 ≤ d.2.2 ∧ d.2.2 < 2147483648)

theorem scanDim1_render (d : Int × Int × Int) (h : DimOK d) : scanDim1 (renderDim d) = .ok d := by
  obtain ⟨a, b, c⟩ := d
  obtain ⟨⟨a1, a2⟩, ⟨b1, b2⟩, ⟨c1, c2⟩⟩ := h
  simp only at a1 a2 b1 b2 c1 c2
  unfold scanDim1 scanDim renderDim
  simp only [scanD_showInt a _ a1 a2 (RestD_comma _), scanD_showInt b _ b1 b2 (RestD_comma _),
    scanD_showInt c _ c1 c2 (RestD_paren _)]

/-! ## 5. `%v` -/

theorem usOK_noUs (s : List Char) (h : ∀ c ∈ s, c ≠ '_') : ∀ p, p ≠ 2 → usOK p s = true := by
  induction s with
  | nil => intro p hp; simp [usOK, hp]
  | cons c r ih =>
    intro p _
    have hc := h c List.mem_cons_self
    simp only [usOK, hc, if_false]
    exact ih (fun x hx => h x (List.mem_cons_of_mem _ hx)) 1 (by omega)

theorem digits_noUs (b : Nat) (hb : b ≤ 16) (s : List Char) (hd : ∀ c ∈ s, isDigit b c = true) :
    ∀ c ∈ s, c ≠ '_' := fun c hc => (isDigit_not_special b c hb (hd c hc)).1

/-- a non-empty run of digits of the base, followed by something that is neither a digit nor `_` -/
theorem vGo_digits (b : Nat) (hb : b ≤ 16) (s rest : List Char) (hne : s ≠ [])
    (hd : ∀ c ∈ s, isDigit b c = true) (hr : RestOK b rest) (z nd : Bool) :
    vGo b (s ++ rest) z nd = some (valOf b s, rest) := by
  have hus := digits_noUs b hb s hd
  have hf : s.filter (fun c => c != '_') = s := by
    rw [List.filter_eq_self]
    intro c hc
    simpa using hus c hc
  unfold vGo
  simp only [(takeWhile_run b s rest hd hr).1, (takeWhile_run b s rest hd hr).2,
    isEmpty_false_of_ne_nil s hne, hf, Bool.and_false, Bool.false_or]
  rw [usOK_noUs s hus _ (by cases z <;> simp)]
  rfl

theorem skipSp_zero (r : List Char) : skipSp ('0' :: r) = '0' :: r := by
  have : isSpaceC '0' = false := by decide
  simp [skipSp, List.dropWhile, this]

theorem hex16_digits (n : Nat) : pad 16 (showNat 16 n) ≠ [] ∧ (∀ c ∈ pad 16 (showNat 16 n), isDigit 16 c = true) ∧
    valOf 16 (pad 16 (showNat 16 n)) = n :=
  ⟨pad_ne_nil 16 _ (showNat_ne_nil 16 n), pad_isDigit 16 16 (by omega) _ (showNat_isDigit 16 n (by omega) (by omega)),
   by rw [valOf_pad, valOf_showNat 16 n (by omega) (by omega)]⟩

theorem scanVMag_hex16 (n : Nat) (rest : List Char) (hr : RestOK 16 rest) :
    scanVMag (hex16 n ++ rest) = some (n, rest) := by
  obtain ⟨hne, hd, hv⟩ := hex16_digits n
  have : scanVMag (hex16 n ++ rest) = vGo 16 (pad 16 (showNat 16 n) ++ rest) true true := rfl
  rw [this, vGo_digits 16 (by omega) _ rest hne hd hr, hv]

/-- `%v` reads back a `0x%016x` address into an `int64` -/
theorem scanV1_hex16 (n : Nat) (h : n < 9223372036854775808) : scanV1 (hex16 n) = .ok (n : Int) := by
  have hm := scanVMag_hex16 n [] (RestOK_nil 16)
  rw [List.append_nil] at hm
  have hf : fits 64 (n : Int) = true := (fits64_iff _).2 (by omega)
  have hs : splitSign (skipSp (hex16 n)) = (false, hex16 n) := by
    unfold hex16
    rw [skipSp_zero]
    rfl
  unfold scanV1 scanVI
  simp only [hs, hm, signed]
  simp [hf]

/-- `%v` reads back a `0x%016x` address into a `uint64` -/
theorem scanVU_hex16 (n : Nat) (rest : List Char) (h : n < 18446744073709551616) (hr : RestOK 16 rest) :
    scanVU (hex16 n ++ rest) = some (n, rest) := by
  have hs : skipSp (hex16 n ++ rest) = hex16 n ++ rest := by
    unfold hex16
    exact skipSp_zero _
  unfold scanVU
  rw [hs, scanVMag_hex16 n rest hr]
  simp [h]

/-! ### decimal numbers: the first digit of a positive number is not `0` -/

theorem digitChar_ne_zero_fin : ∀ d : Fin 16, d.val ≠ 0 → digitChar d.val ≠ '0' := by decide

theorem digitsRev_last (b : Nat) (hb2 : 2 ≤ b) (hb : b ≤ 16) :
    ∀ fuel n, n ≤ fuel → 0 < n → ∃ l d, digitsRev b fuel n = l ++ [d] ∧ d ≠ '0' := by
  intro fuel
  induction fuel with
  | zero => intro n h1 h2; omega
  | succ k ih =>
    intro n hn hpos
    unfold digitsRev
    split
    · rename_i hlt
      exact ⟨[], digitChar n, rfl, digitChar_ne_zero_fin ⟨n, by omega⟩ (by simp; omega)⟩
    · rename_i hge
      have hlt : n / b < n := Nat.div_lt_self (by omega) (by omega)
      have hq : 0 < n / b := Nat.div_pos (by omega) (by omega)
      obtain ⟨l, d, e, hd⟩ := ih (n / b) (by omega) hq
      exact ⟨digitChar (n % b) :: l, d, by rw [e]; rfl, hd⟩

theorem showNat_head (b n : Nat) (hb2 : 2 ≤ b) (hb : b ≤ 16) (hn : 0 < n) :
    ∃ d r, showNat b n = d :: r ∧ d ≠ '0' := by
  obtain ⟨l, d, e, hd⟩ := digitsRev_last b hb2 hb n n (Nat.le_refl n) hn
  exact ⟨d, l.reverse, by unfold showNat; rw [e]; simp, hd⟩

theorem scanVMag_nonzero (c : Char) (r : List Char) (h : c ≠ '0') :
    scanVMag (c :: r) = vGo 10 (c :: r) false true := by
  unfold scanVMag
  split
  all_goals first
    | rfl
    | (rename_i heq; exact absurd (List.cons.inj heq).1 h)

/-- `%v` reads back a decimal `uint64` at the end of the input -/
theorem scanVU_showNat (n : Nat) (h : n < 18446744073709551616) : scanVU (showNat 10 n) = some (n, []) := by
  rcases Nat.eq_zero_or_pos n with h0 | hpos
  · subst h0
    decide
  · obtain ⟨d, r, e, hd⟩ := showNat_head 10 n (by omega) (by omega) hpos
    have hdig := showNat_isDigit 10 n (by omega) (by omega)
    have hs : skipSp (showNat 10 n) = showNat 10 n := by
      have := skipSp_plain_append (showNat 10 n) [] (showNat_ne_nil 10 n) (plain_showNat 10 n (by omega) (by omega))
      rwa [List.append_nil] at this
    have hg := vGo_digits 10 (by omega) (showNat 10 n) [] (showNat_ne_nil 10 n) hdig (RestOK_nil 10) false true
    rw [List.append_nil, valOf_showNat 10 n (by omega) (by omega)] at hg
    unfold scanVU
    rw [hs]
    rw [e] at hg ⊢
    rw [scanVMag_nonzero d r hd, hg]
    simp [h]

/-! ## 6. the header block -/

/-- a string value the `-key = value` format can carry: no white space at either end (it may contain `=` since the
    reader splits at the first `=` only) -/
def StrOK (s : List Char) : Prop := trimSp s = s

/-- the numeric fields are in the ranges of their Go types (`int32`; the two base addresses are
    printed as `0x%016x`, so non-negative `int64`) -/
structure KernelFileHeader.Ranges (h : KernelFileHeader) : Prop where
  id_lo : -2147483648 ≤ h.kernelID
  id_hi : h.kernelID < 2147483648
  grid_ok : DimOK h.gridDim
  block_ok : DimOK h.blockDim
  shmem_lo : -2147483648 ≤ h.shmem
  shmem_hi : h.shmem < 2147483648
  nregs_lo : -2147483648 ≤ h.nregs
  nregs_hi : h.nregs < 2147483648
  bin_lo : -2147483648 ≤ h.binaryVersion
  bin_hi : h.binaryVersion < 2147483648
  stream_lo : -2147483648 ≤ h.cudaStreamID
  stream_hi : h.cudaStreamID < 2147483648
  shbase_lo : 0 ≤ h.shmemBaseAddr
  shbase_hi : h.shmemBaseAddr < 9223372036854775808
  locbase_lo : 0 ≤ h.localMemBaseAddr
  locbase_hi : h.localMemBaseAddr < 9223372036854775808

/-- well-formed header: ranges, and the three strings are values the format can carry -/
structure KernelFileHeader.WF (h : KernelFileHeader) : Prop where
  ranges : h.Ranges
  name_ok : StrOK h.kernelName
  nvbit_ok : StrOK h.nvbitVersion
  accel_ok : StrOK h.accelsimTracerVersion

/-- what may follow the header block: nothing, or a first line that is not empty and does not start with `-` -/
def RestHdr (rest : List (List Char)) : Prop :=
  rest = [] ∨ ∃ l ls, rest = l :: ls ∧ l ≠ [] ∧ l.head? ≠ some '-'

theorem readHeader_dash (h0 h1 : KernelFileHeader) (l : List Char) (ls : List (List Char))
    (hne : l.isEmpty = false) (hd : l.head? = some '-') (hl : headerLine h0 l = .ok h1) :
    readHeader h0 (l :: ls) = readHeader h1 ls := by
  simp [readHeader, hne, hd, hl]

theorem readHeader_kv (h0 h1 : KernelFileHeader) (key : String) (v : List Char) (ls : List (List Char))
    (hl : headerLine h0 (renderKV key v) = .ok h1) :
    readHeader h0 (renderKV key v :: ls) = readHeader h1 ls :=
  readHeader_dash h0 h1 _ ls rfl rfl hl

theorem readHeader_empty (h : KernelFileHeader) (ls : List (List Char)) :
    readHeader h ([] :: ls) = readHeader h ls := by
  simp [readHeader]

theorem readHeader_stop (h : KernelFileHeader) (rest : List (List Char)) (hr : RestHdr rest) :
    readHeader h rest = .ok (h, rest) := by
  rcases hr with e | ⟨l, ls, e, hne, hd⟩
  · subst e
    rfl
  · subst e
    have : l.isEmpty = false := isEmpty_false_of_ne_nil l hne
    simp [readHeader, this, hd]

theorem line_str (h0 h1 : KernelFileHeader) (key : String) (v : List Char)
    (hk : '=' ∉ '-' :: (key.toList ++ [' ']))
    (hkt : (trimSp ('-' :: (key.toList ++ [' ']))).drop 1 = key.toList)
    (hu : updateParam h0 key.toList (keptStr v) = .ok h1) :
    headerLine h0 (renderKV key v) = .ok h1 := by
  rw [headerLine_renderKV h0 key v hk hkt, hu]

theorem line_plain (h0 h1 : KernelFileHeader) (key : String) (v : List Char) (hv : Plain v)
    (hk : '=' ∉ '-' :: (key.toList ++ [' ']))
    (hkt : (trimSp ('-' :: (key.toList ++ [' ']))).drop 1 = key.toList)
    (hu : updateParam h0 key.toList v = .ok h1) :
    headerLine h0 (renderKV key v) = .ok h1 := by
  rw [headerLine_renderKV h0 key v hk hkt, keptStr_noEq v (plain_noEq v hv), trimSp_plain v hv, hu]

theorem toNat_cast (a : Int) (h : 0 ≤ a) : ((a.toNat : Nat) : Int) = a := Int.toNat_of_nonneg h

/-- what the reader keeps of a header: the three strings are trimmed -/
def KernelFileHeader.kept (h : KernelFileHeader) : KernelFileHeader :=
  { h with kernelName := keptStr h.kernelName, nvbitVersion := keptStr h.nvbitVersion,
           accelsimTracerVersion := keptStr h.accelsimTracerVersion }

theorem keptStr_ok (v : List Char) (h : StrOK v) : keptStr v = v := h

theorem KernelFileHeader.WF.kept {h : KernelFileHeader} (wf : h.WF) : h.kept = h := by
  unfold KernelFileHeader.kept
  rw [keptStr_ok _ wf.name_ok, keptStr_ok _ wf.nvbit_ok, keptStr_ok _ wf.accel_ok]

/-- **header round trip, general form**: whatever the header held before, reading the rendered block
    of a header with in-range numbers gives what is kept of it and leaves `rest` to the body parser -/
theorem readHeader_render_kept (h0 h : KernelFileHeader) (rg : h.Ranges) (rest : List (List Char)) (hr : RestHdr rest) :
    readHeader h0 (renderHeader h ++ rest) = .ok (h.kept, rest) := by
  obtain ⟨name, id, grid, block, shmem, nregs, bin, stream, shb, locb, nvbit, accel, li⟩ := h
  have r := rg
  obtain ⟨i1, i2, g, b, s1, s2, n1, n2, b1, b2, c1, c2, sb1, sb2, lb1, lb2⟩ := r
  simp only at i1 i2 g b s1 s2 n1 n2 b1 b2 c1 c2 sb1 sb2 lb1 lb2
  unfold renderHeader
  simp only [List.cons_append, List.nil_append]
  rw [readHeader_kv _ _ _ _ _ (line_str _ _ "kernel name" name (by decide) (by decide) (by simp [updateParam]; rfl))]
  rw [readHeader_kv _ _ _ _ _ (line_plain _ _ "kernel id" _ (plain_showInt id) (by decide) (by decide)
    (by simp [updateParam, scanD1_showInt id i1 i2, Except.map]; rfl))]
  rw [readHeader_kv _ _ _ _ _ (line_plain _ _ "grid dim" _ (plain_renderDim grid) (by decide) (by decide)
    (by simp [updateParam, scanDim1_render grid g, Except.map]; rfl))]
  rw [readHeader_kv _ _ _ _ _ (line_plain _ _ "block dim" _ (plain_renderDim block) (by decide) (by decide)
    (by simp [updateParam, scanDim1_render block b, Except.map]; rfl))]
  rw [readHeader_kv _ _ _ _ _ (line_plain _ _ "shmem" _ (plain_showInt shmem) (by decide) (by decide)
    (by simp [updateParam, scanD1_showInt shmem s1 s2, Except.map]; rfl))]
  rw [readHeader_kv _ _ _ _ _ (line_plain _ _ "nregs" _ (plain_showInt nregs) (by decide) (by decide)
    (by simp [updateParam, scanD1_showInt nregs n1 n2, Except.map]; rfl))]
  rw [readHeader_kv _ _ _ _ _ (line_plain _ _ "binary version" _ (plain_showInt bin) (by decide) (by decide)
    (by simp [updateParam, scanD1_showInt bin b1 b2, Except.map]; rfl))]
  rw [readHeader_kv _ _ _ _ _ (line_plain _ _ "cuda stream id" _ (plain_showInt stream) (by decide) (by decide)
    (by simp [updateParam, scanD1_showInt stream c1 c2, Except.map]; rfl))]
  rw [readHeader_kv _ _ _ _ _ (line_plain _ _ "shmem base_addr" _ (plain_hex16 _) (by decide) (by decide)
    (by simp [updateParam, scanV1_hex16 shb.toNat (by omega), Except.map, toNat_cast shb sb1]; rfl))]
  rw [readHeader_kv _ _ _ _ _ (line_plain _ _ "local mem base_addr" _ (plain_hex16 _) (by decide) (by decide)
    (by simp [updateParam, scanV1_hex16 locb.toNat (by omega), Except.map, toNat_cast locb lb1]; rfl))]
  rw [readHeader_kv _ _ _ _ _ (line_str _ _ "nvbit version" nvbit (by decide) (by decide) (by simp [updateParam]; rfl))]
  rw [readHeader_kv _ _ _ _ _ (line_str _ _ "accelsim tracer version" accel (by decide) (by decide) (by simp [updateParam]; rfl))]
  rw [readHeader_kv _ _ _ _ _ (line_plain _ _ "enable lineinfo" (if li = true then ['1'] else ['0'])
    (by cases li <;> exact plain_cons _ _ ⟨by decide, by decide⟩ plain_nil) (by decide) (by decide)
    (by simp [updateParam]; rfl))]
  rw [readHeader_empty, readHeader_stop _ rest hr]
  rfl

/-- **header round trip** for well-formed headers -/
theorem readHeader_render (h0 h : KernelFileHeader) (wf : h.WF) (rest : List (List Char)) (hr : RestHdr rest) :
    readHeader h0 (renderHeader h ++ rest) = .ok (h, rest) := by
  rw [readHeader_render_kept h0 h wf.ranges rest hr, wf.kept]

/-! ## 7. whole trace file -/

theorem renderBody_restHdr (op : Inst → List Char) (ts : List TBT) : RestHdr (renderBody op ts) :=
  Or.inr ⟨_, _, rfl, by decide, by decide⟩

theorem parseFile_render (h : KernelFileHeader) (wf : h.WF) (ts : List TBT) (hwf : ∀ t ∈ ts, t.WF true) :
    parseFile (renderHeader h ++ renderBody opText ts) = .ok (h, ts) := by
  unfold parseFile
  rw [readHeader_render {} h wf _ (renderBody_restHdr opText ts)]
  simp only [parseBody_render ts hwf]

/-! ### counting the instruction lines -/

theorem joinSp_head (t : List Char) (ts : List (List Char)) (c : Char) (r : List Char) (ht : t = c :: r) :
    ∃ r', joinSp (t :: ts) = c :: r' := by
  subst ht
  cases ts with
  | nil => exact ⟨r, rfl⟩
  | cons u us => exact ⟨r ++ sp ++ joinSp (u :: us), rfl⟩

theorem isInstLine_renderInst (op : Inst → List Char) (i : Inst) : isInstLine (renderInst op i) = true := by
  have hne := pad_ne_nil 4 _ (showNat_ne_nil 16 i.pc.toNat)
  have hd := pad_isDigit 16 4 (by omega) _ (showNat_isDigit 16 i.pc.toNat (by omega) (by omega))
  cases hp : pad 4 (showNat 16 i.pc.toNat) with
  | nil => exact absurd hp hne
  | cons c r =>
    have hc : isDigit 16 c = true := hd c (hp ▸ List.mem_cons_self)
    obtain ⟨rest, e⟩ : ∃ rest, renderToks (op i) i = pad 4 (showNat 16 i.pc.toNat) :: rest := ⟨_, rfl⟩
    obtain ⟨r', e'⟩ := joinSp_head _ rest c r hp
    unfold renderInst
    rw [e, e']
    exact hc

theorem filter_inst_lines (op : Inst → List Char) (l : List Inst) :
    (l.map (renderInst op)).filter isInstLine = l.map (renderInst op) := by
  rw [List.filter_eq_self]
  intro x hx
  obtain ⟨i, _, e⟩ := List.mem_map.mp hx
  exact e ▸ isInstLine_renderInst op i

theorem count_renderWarp (op : Inst → List Char) (w : WarpT) :
    ((renderWarp op w).filter isInstLine).length = w.insts.length := by
  unfold renderWarp
  rw [List.filter_append, List.filter_append, filter_inst_lines]
  have h1 : List.filter isInstLine ["warp = ".toList ++ showInt w.id, "insts = ".toList ++ showNat 10 w.insts.length] = [] := by
    simp [List.filter, isInstLine]
    constructor <;> decide
  have h2 : List.filter isInstLine [([] : List Char)] = [] := rfl
  rw [h1, h2]
  simp

theorem count_renderWarps (op : Inst → List Char) (ws : List WarpT) :
    (((ws.map (renderWarp op)).flatten).filter isInstLine).length = sum (ws.map (fun w => w.insts.length)) := by
  induction ws with
  | nil => rfl
  | cons w r ih =>
    simp only [List.map_cons, List.flatten_cons, List.filter_append, List.length_append, count_renderWarp, ih]
    rfl

theorem count_renderTB (op : Inst → List Char) (t : TBT) :
    ((renderTB op t).filter isInstLine).length = sum (t.warps.map (fun w => w.insts.length)) := by
  unfold renderTB
  rw [List.filter_append, List.filter_append, List.length_append, List.length_append, count_renderWarps]
  have h1 : List.filter isInstLine ["#BEGIN_TB".toList, [],
      "thread block = ".toList ++ showInt t.id.1 ++ [','] ++ showInt t.id.2.1 ++ [','] ++ showInt t.id.2.2, []] = [] := by
    simp [List.filter, isInstLine]
    constructor <;> decide
  have h2 : List.filter isInstLine ["#END_TB".toList, []] = [] := by decide
  rw [h1, h2]
  simp

theorem count_renderTBs (op : Inst → List Char) (ts : List TBT) :
    (((ts.map (renderTB op)).flatten).filter isInstLine).length = instsOfKernel (kernelOf ts) := by
  induction ts with
  | nil => rfl
  | cons t r ih =>
    simp only [List.map_cons, List.flatten_cons, List.filter_append, List.length_append, count_renderTB, ih]
    simp [instsOfKernel, kernelOf, instsOfBlock, sum]

theorem filter_renderHeader (h : KernelFileHeader) : (renderHeader h).filter isInstLine = [] := by
  have hd : isDigit 16 '-' = false := by decide
  simp [renderHeader, renderKV, List.filter, isInstLine, hd]

/-- the instruction lines of a rendered trace file are exactly the instructions of its warps -/
theorem count_file (h : KernelFileHeader) (op : Inst → List Char) (ts : List TBT) :
    ((renderHeader h ++ renderBody op ts).filter isInstLine).length = instsOfKernel (kernelOf ts) := by
  rw [List.filter_append, filter_renderHeader, List.nil_append]
  unfold renderBody
  have h1 : ∀ rest, List.filter isInstLine ("#traces format = …".toList :: [] :: rest) = List.filter isInstLine rest := by
    intro rest
    have h0 : isDigit 16 '#' = false := by decide
    simp [List.filter, isInstLine, h0]
  rw [h1, count_renderTBs]

/-! ## 8. `kernelslist.g` -/

theorem hasPrefix_append (p : String) (a b : List Char) (h : hasPrefix p a = true) : hasPrefix p (a ++ b) = true := by
  unfold hasPrefix at *
  rw [List.isPrefixOf_iff_prefix] at *
  exact h.trans (List.prefix_append a b)

theorem kernel_not_memcpy (f : List Char) (h : hasPrefix "kernel" f = true) :
    hasPrefix "Memcpy" f = false ∧ f ≠ [] := by
  unfold hasPrefix at h
  rw [List.isPrefixOf_iff_prefix] at h
  obtain ⟨t, e⟩ := h
  subst e
  exact ⟨rfl, by simp⟩

/-- entries whose numbers are in range: kernel file names start with `kernel`; a memcpy direction is
    any text that starts with `Memcpy` and has no comma -/
def Exec.Ranges : Exec → Prop
  | .kernel f => hasPrefix "kernel" f = true
  | .memcpy d a n => hasPrefix "Memcpy" d = true ∧ ',' ∉ d ∧ a < 18446744073709551616 ∧ n < 18446744073709551616

/-- well-formed entry: in range, and the direction is one of the two the configuration names (the hypothesis of
    `klist_parse_render`, kept from before the repair; `klist_parse_render_full_holds` needs `Ranges` only) -/
def Exec.WF : Exec → Prop
  | .kernel f => hasPrefix "kernel" f = true
  | .memcpy d a n => (d = h2d ∨ d = d2h) ∧ a < 18446744073709551616 ∧ n < 18446744073709551616

theorem Exec.WF.ranges {e : Exec} (h : e.WF) : e.Ranges := by
  cases e with
  | kernel f => exact h
  | memcpy d a n =>
    obtain ⟨hd, ha, hn⟩ := h
    refine ⟨?_, ?_, ha, hn⟩ <;> rcases hd with rfl | rfl <;> decide

/-- what the reader keeps of an entry -/
def Exec.kept : Exec → Exec
  | .kernel f => .kernel f
  | .memcpy d a n => .memcpy (keptDir d) a n

theorem Exec.WF.kept {e : Exec} (h : e.WF) : e.kept = e := by
  cases e with
  | kernel f => rfl
  | memcpy d a n => rfl

theorem buildExec_render (e : Exec) (h : e.Ranges) : buildExec (renderExec e) = .ok e.kept := by
  cases e with
  | kernel f =>
    have := kernel_not_memcpy f h
    have h' : hasPrefix "kernel" f = true := h
    simp [buildExec, buildExecWith, renderExec, this.1, h', Exec.kept]
  | memcpy d a n =>
    obtain ⟨hp, hc, ha, hn⟩ := h
    have hpos : ∀ c ∈ d, (c != ',') = true := by
      intro c hm
      have : c ≠ ',' := fun e => hc (e ▸ hm)
      simpa using this
    have htw : ∀ r, (d ++ ',' :: r).takeWhile (fun c => c != ',') = d := by
      intro r
      rw [List.takeWhile_append_of_pos hpos, List.takeWhile_cons_of_neg (by simp)]
      simp
    have hdw : ∀ r, (d ++ ',' :: r).dropWhile (fun c => c != ',') = ',' :: r := by
      intro r
      rw [List.dropWhile_append_of_pos hpos, List.dropWhile_cons_of_neg (by simp)]
    unfold buildExec buildExecWith renderExec
    simp only [hasPrefix_append "Memcpy" d _ hp, if_true, htw, hdw,
      scanVU_hex16 a _ ha (RestOK_comma 16 (by omega) _), scanVU_showNat n hn]
    rfl

theorem renderExec_ne_nil (e : Exec) (h : e.Ranges) : (renderExec e).isEmpty = false := by
  cases e with
  | kernel f => exact isEmpty_false_of_ne_nil _ (kernel_not_memcpy f h).2
  | memcpy d a n => exact isEmpty_false_of_ne_nil _ (by simp [renderExec])

theorem readKernelsList_render (es : List Exec) (h : ∀ e ∈ es, e.Ranges) :
    readKernelsList (renderKernelsList es) = .ok (es.map Exec.kept) := by
  induction es with
  | nil => rfl
  | cons e r ih =>
    have he := h e List.mem_cons_self
    have hr := ih (fun x hx => h x (List.mem_cons_of_mem _ hx))
    unfold renderKernelsList at hr ⊢
    simp only [List.map_cons, readKernelsList, renderExec_ne_nil e he, buildExec_render e he, hr]
    rfl

/-! ## 9. the benchmark builder -/

/-- the exec the builder makes of a list entry, given what each kernel file serialises -/
def benchOf (src : List Char → List TBT) : Exec → BenchExec
  | .kernel f => .kernel (kernelOf (src f))
  | .memcpy d a n => .memcpy d a n

theorem benchExecs_render (files : List Char → List (List Char)) (hdr : List Char → KernelFileHeader)
    (src : List Char → List TBT) (es : List Exec)
    (hf : ∀ f, Exec.kernel f ∈ es → files f = renderHeader (hdr f) ++ renderBody opText (src f) ∧
      (hdr f).WF ∧ ∀ t ∈ src f, t.WF true) :
    benchExecs files es = .ok (es.map (benchOf src)) := by
  induction es with
  | nil => rfl
  | cons e r ih =>
    have hr := ih (fun f hm => hf f (List.mem_cons_of_mem _ hm))
    cases e with
    | memcpy d a n => simp [benchExecs, hr, benchOf]
    | kernel f =>
      obtain ⟨e1, e2, e3⟩ := hf f List.mem_cons_self
      simp [benchExecs, hr, benchOf, e1, parseFile_render (hdr f) e2 (src f) e3]

theorem driverKernels_benchOf (src : List Char → List TBT) (es : List Exec) :
    driverKernels (es.map (benchOf src)) =
      es.filterMap (fun e => match e with | .kernel f => some (kernelOf (src f)) | .memcpy _ _ _ => none) := by
  induction es with
  | nil => rfl
  | cons e r ih =>
    cases e with
    | memcpy d a n => simp [driverKernels, benchOf, ih]
    | kernel f => simp [driverKernels, benchOf, ih]

theorem buildBench_render (files : List Char → List (List Char)) (hdr : List Char → KernelFileHeader)
    (src : List Char → List TBT) (es : List Exec) (hes : ∀ e ∈ es, e.WF)
    (hf : ∀ f, Exec.kernel f ∈ es → files f = renderHeader (hdr f) ++ renderBody opText (src f) ∧
      (hdr f).WF ∧ ∀ t ∈ src f, t.WF true) :
    buildBench files (renderKernelsList es) = .ok (es.map (benchOf src)) := by
  have hk : es.map Exec.kept = es := by
    have : es.map Exec.kept = es.map id := List.map_congr_left (fun e he => (hes e he).kept)
    rw [this, List.map_id]
  unfold buildBench
  rw [readKernelsList_render es (fun e he => (hes e he).ranges), hk]
  exact benchExecs_render files hdr src es hf

theorem warps_kernelOf (ts : List TBT) : warpsOfKernel (kernelOf ts) = sum (ts.map (fun t => t.warps.length)) := by
  induction ts with
  | nil => rfl
  | cons t r ih =>
    simp only [warpsOfKernel, kernelOf, List.map_cons, List.map_map, sum, List.foldr_cons] at ih ⊢
    rw [ih]
    simp

end C20
