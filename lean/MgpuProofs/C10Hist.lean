import MgpuProofs.C10Step
/-!
Run-level invariants of C10 that need a single process (`OneProc` + `MirrorOK`), and the totality
of `Free` for intact allocations.
-/
namespace C10

/-! ### histories of a single process -/

def Op.isInit : Op → Bool
  | .init => true
  | _ => false

/-- all contexts and all page-table entries belong to the one process `s.npid` -/
structure OneProc (s : State) : Prop where
  ctxPid : ∀ c ∈ s.ctxs, c.pid = s.npid
  single : SinglePID s.npid s
  fresh : s.npid = 0 → s.ctxs = [] ∧ s.pt = []

theorem OneProc.pid_of {s : State} (h : OneProc s) {c : Nat} {cx : Ctx} (hc : s.ctxs[c]? = some cx) :
    cx.pid = s.npid ∧ s.npid ≠ 0 := by
  have hm := List.mem_of_getElem? hc
  refine ⟨h.ctxPid cx hm, fun h0 => ?_⟩
  rw [(h.fresh h0).1] at hm
  simp at hm

theorem OneProc.setCtx {s : State} (h : OneProc s) {c : Nat} {cx x : Ctx} (hc : s.ctxs[c]? = some cx)
    (hx : x.pid = cx.pid) : OneProc (setCtx s c x) := by
  obtain ⟨h1, h2⟩ := h.pid_of hc
  refine ⟨?_, h.single, fun h0 => absurd h0 h2⟩
  intro y hy
  rcases List.mem_or_eq_of_mem_set hy with hy | rfl
  · exact h.ctxPid y hy
  · exact hx.trans h1

/-- transfer along an operation that keeps contexts and the process counter -/
theorem OneProc.of_frame {s s' : State} (h : OneProc s) (hc : s'.ctxs = s.ctxs) (hn : s'.npid = s.npid)
    (hs : SinglePID s.npid s') (hne : s.npid ≠ 0) : OneProc s' :=
  ⟨by rw [hc, hn]; exact h.ctxPid, by rw [hn]; exact hs, fun h0 => absurd (hn ▸ h0) hne⟩

theorem step_one {n : Nat} {s s' : State} {op : Op} {r : Res} (hW : WInv s) (hG : GpuOK n s) (hm : MigOK n op)
    (hO : OneProc s) (hM : MirrorOK s) (hi : op.isInit = true → s.npid = 0)
    (h : step s op = .ok (r, s')) :
    OneProc s' ∧ MirrorOK s' ∧ s'.npid = s.npid + (if op.isInit then 1 else 0) := by
  cases op with
  | init =>
    rw [step_init h]
    have h0 := hi rfl
    obtain ⟨hc, hp⟩ := hO.fresh h0
    refine ⟨⟨?_, ?_, ?_⟩, ⟨hM.1, hM.2⟩, rfl⟩
    · intro c hcm
      change c ∈ s.ctxs ++ [_] at hcm
      rw [hc] at hcm
      simp at hcm
      rw [hcm]
    · intro e he
      change e ∈ s.pt at he
      rw [hp] at he; simp at he
    · intro h1
      change s.npid + 1 = 0 at h1
      omega
  | initpid c =>
    obtain ⟨cx, hc, rfl⟩ := step_initpid h
    obtain ⟨h1, h2⟩ := hO.pid_of hc
    refine ⟨⟨?_, hO.single, fun h0 => absurd h0 h2⟩, ⟨hM.1, hM.2⟩, rfl⟩
    intro y hy
    change y ∈ s.ctxs ++ [_] at hy
    rcases List.mem_append.mp hy with hy | hy
    · exact hO.ctxPid y hy
    · simp at hy; rw [hy]; exact h1
  | sel c g =>
    obtain ⟨cx, hc, rfl⟩ := step_sel h
    exact ⟨hO.setCtx hc rfl, ⟨hM.1, hM.2⟩, rfl⟩
  | unify c ids =>
    rw [step_unify h]
    exact ⟨⟨hO.ctxPid, hO.single, hO.fresh⟩, ⟨hM.1, hM.2⟩, rfl⟩
  | alloc c bytes =>
    obtain ⟨cx, v, s1, hc, h1, rfl, _⟩ := step_alloc h
    obtain ⟨hp, hne⟩ := hO.pid_of hc
    obtain ⟨_, h1⟩ := allocate_ok h1
    obtain ⟨hs1, hm1⟩ := (allocatePages_pres hW.phys h1).1.2 (hp ▸ hO.single) hM
    obtain ⟨_, _, _, _, e4, e5, _⟩ := allocatePages_ext hW.mw h1
    have hO1 : OneProc s1 := hO.of_frame e4 e5 (hp ▸ hs1) hne
    refine ⟨hO1.setCtx (cx := cx) (by rw [e4]; exact hc) rfl, ⟨hm1.1, hm1.2⟩, e5⟩
  | allocu c bytes =>
    obtain ⟨cx, v, s1, hc, h1, rfl, _⟩ := step_allocu h
    obtain ⟨hp, hne⟩ := hO.pid_of hc
    obtain ⟨_, h1⟩ := allocateUnified_ok h1
    obtain ⟨hs1, hm1⟩ := (allocatePages_pres hW.phys h1).1.2 (hp ▸ hO.single) hM
    obtain ⟨_, _, _, _, e4, e5, _⟩ := allocatePages_ext hW.mw h1
    have hO1 : OneProc s1 := hO.of_frame e4 e5 (hp ▸ hs1) hne
    refine ⟨hO1.setCtx (cx := cx) (by rw [e4]; exact hc) rfl, ⟨hm1.1, hm1.2⟩, e5⟩
  | free c ptr =>
    obtain ⟨cx, s1, hc, h1, rfl⟩ := step_free h
    obtain ⟨_, hne⟩ := hO.pid_of hc
    obtain ⟨_, hm1, hs1⟩ := free_pres hW.phys hM h1
    obtain ⟨_, _, _, _, _, e4, e5, _⟩ := free_w hW.phys hW.mw h1
    have hO1 : OneProc s1 := hO.of_frame e4 e5 (hs1 _ hO.single) hne
    exact ⟨hO1.setCtx (cx := cx) (by rw [e4]; exact hc) rfl, ⟨hm1.1, hm1.2⟩, e5⟩
  | remap c addr bytes d =>
    obtain ⟨cx, hc, h1⟩ := step_remap h
    obtain ⟨hp, hne⟩ := hO.pid_of hc
    obtain ⟨hs1, hm1⟩ := (remap_pres hW.phys hW.mw h1).2 (hp ▸ hO.single) hM
    obtain ⟨_, f, _⟩ := remap_ext hW.mw h1
    exact ⟨hO.of_frame f.ctxs f.npid (hp ▸ hs1) hne, hm1, f.npid⟩
  | dist c addr bytes ids =>
    obtain ⟨cx, bs, hc, h1⟩ := step_dist h
    obtain ⟨hp, hne⟩ := hO.pid_of hc
    obtain ⟨hs1, hm1⟩ := (distribute_pres hW.phys hW.mw h1).2 (hp ▸ hO.single) hM
    obtain ⟨_, f, _⟩ := distribute_ext hW.mw h1
    exact ⟨hO.of_frame f.ctxs f.npid (hp ▸ hs1) hne, hm1, f.npid⟩
  | mig c v g =>
    obtain ⟨cx, no, hc, h1⟩ := step_mig h
    obtain ⟨hp, hne⟩ := hO.pid_of hc
    have hg : ∀ dv, s.devs[g + 1]? = some dv → dv.kind ≠ .unified := by
      intro dv hdv
      obtain ⟨dv', hdv', hk⟩ := hG g hm
      rw [hdv] at hdv'; injection hdv' with hdv'; subst hdv'
      rw [hk]; decide
    obtain ⟨_, _, f, _, hsm⟩ := prepareMigration_w hW.phys hW.mw hg h1
    obtain ⟨hs1, hm1⟩ := hsm (hp ▸ hO.single) hM
    exact ⟨hO.of_frame f.ctxs f.npid (hp ▸ hs1) hne, hm1, f.npid⟩
  | rmpage v =>
    have h1 := step_rmpage h
    obtain ⟨_, hm1, hs1, _⟩ := removePage_pres hW.phys hM h1
    obtain ⟨_, _, f, _, hsub, _⟩ := removePage_w hW.phys hW.mw h1
    refine ⟨⟨by rw [f.ctxs, f.npid]; exact hO.ctxPid, by rw [f.npid]; exact hs1 _ hO.single, ?_⟩, hm1, f.npid⟩
    intro h0
    rw [f.npid] at h0
    obtain ⟨hc0, hp0⟩ := hO.fresh h0
    refine ⟨by rw [f.ctxs]; exact hc0, List.eq_nil_iff_forall_not_mem.mpr fun e he => ?_⟩
    have := hsub e he
    rw [hp0] at this; simp at this
  | apg c d v u =>
    obtain ⟨cx, pg, hc, h1⟩ := step_apg h
    obtain ⟨hp, hne⟩ := hO.pid_of hc
    obtain ⟨hs1, hm1⟩ := (allocGiven_pres hW.phys h1).1.2 (hp ▸ hO.single) hM
    obtain ⟨_, f, _⟩ := allocGiven_ext hW.mw h1
    exact ⟨hO.of_frame f.ctxs f.npid (hp ▸ hs1) hne, hm1, f.npid⟩
  | rfb c =>
    obtain ⟨cx, hc, rfl⟩ := step_rfb h
    exact ⟨hO.setCtx hc rfl, ⟨hM.1, hM.2⟩, rfl⟩

/-- the number of `Init` calls (each creates a new process) -/
def inits (ops : List Op) : Nat := (ops.filter Op.isInit).length

theorem run_one {n : Nat} : ∀ (ops : List Op) (s s' : State), WInv s → GpuOK n s → (∀ op ∈ ops, MigOK n op) →
    OneProc s → MirrorOK s → s.npid + inits ops ≤ 1 → run s ops = .ok s' → OneProc s' ∧ MirrorOK s' := by
  intro ops
  induction ops with
  | nil => intro s s' _ _ _ hO hM _ h; simp [run] at h; subst h; exact ⟨hO, hM⟩
  | cons op ops ih =>
    intro s s' hW hG hm hO hM hb h
    simp only [run] at h
    split at h
    · simp at h
    · rename_i r s1 h1
      have hmo := hm op (List.mem_cons_self ..)
      obtain ⟨a, b⟩ := step_w hW hG hmo h1
      have hb' : s.npid + ((if op.isInit then 1 else 0) + inits ops) ≤ 1 := by
        unfold inits at hb ⊢
        rw [List.filter_cons] at hb
        split at hb
        · rename_i hi; simp only [hi, if_true]; simp only [List.length_cons] at hb; omega
        · rename_i hi; simp only [hi]; simpa using hb
      have hi : op.isInit = true → s.npid = 0 := by
        intro hi; simp only [hi, if_true] at hb'; omega
      obtain ⟨c, d, e⟩ := step_one hW hG hmo hO hM hi h1
      exact ih s1 s' a b (fun o ho => hm o (List.mem_cons_of_mem _ ho)) c d (by rw [e]; omega) h

end C10
