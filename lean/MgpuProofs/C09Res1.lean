import MgpuModel.C09_Res
/-! # C09 — resource bookkeeping, part 1: byte-offset arithmetic, the scan specification,
    and the list-level mask lemmas (pending / reserved regions). -/
namespace C09

/-! ## arithmetic: unit offsets → byte offsets -/

/-- `unitsOccupy` rounds up: `g * units amt g` covers `amt` -/
theorem units_mul_ge (amt g : Nat) (hg : 0 < g) : amt ≤ g * units amt g := by
  have h1 := Nat.div_add_mod amt g
  have h2 := Nat.mod_lt amt hg
  unfold units
  split
  · omega
  · rw [Nat.mul_add]; omega

/-- a wavefront with `s` SGPRs (4 bytes each) fits in the bytes of its `units s 16` units of 64 bytes -/
theorem sgpr_bytes_fit (g bpu s : Nat) (hg : g = 16) (hb : bpu = 64) : 4 * s ≤ bpu * units s g := by
  subst hg hb; have := units_mul_ge s 16 (by omega); omega

/-- SGPR byte ranges `[u*64, u*64+4*s)` of wavefronts at disjoint unit regions are disjoint -/
theorem sgpr_bytes_disjoint (g bpu s1 u1 u2 : Nat) (hg : g = 16) (hb : bpu = 64)
    (h : u1 + units s1 g ≤ u2) : u1 * bpu + 4 * s1 ≤ u2 * bpu := by
  subst hg hb; have := units_mul_ge s1 16 (by omega); omega

/-- an SGPR unit region inside `n` units gives a byte range inside the `64*n`-byte scalar register file -/
theorem sgpr_bytes_inside (g bpu s u n : Nat) (hg : g = 16) (hb : bpu = 64)
    (h : u + units s g ≤ n) : u * bpu + 4 * s ≤ bpu * n := by
  subst hg hb; have := units_mul_ge s 16 (by omega); omega

/-- a lane's `v` VGPRs (4 bytes each) fit in the bytes of `units v 4` units of 16 bytes -/
theorem vgpr_bytes_fit (g bpu v : Nat) (hg : g = 4) (hb : bpu = 16) : 4 * v ≤ bpu * units v g := by
  subst hg hb; have := units_mul_ge v 4 (by omega); omega

/-- lane `ℓ`'s VGPR byte range stays inside lane `ℓ`'s 1024-byte slice, hence inside the 65536-byte file -/
theorem vgpr_bytes_inside (g bpu stride nl fileB v u ℓ : Nat) (hg : g = 4) (hb : bpu = 16)
    (hs : stride = 1024) (hn : nl = 64) (hf : fileB = 65536) (hl : ℓ < nl) (h : u + units v g ≤ 64) :
    ℓ * stride ≤ ℓ * stride + u * bpu ∧
    ℓ * stride + u * bpu + 4 * v ≤ (ℓ + 1) * stride ∧ ℓ * stride + u * bpu + 4 * v ≤ fileB := by
  subst hg hb hs hn hf; have := units_mul_ge v 4 (by omega); omega

/-- VGPR byte ranges of different lanes are disjoint -/
theorem vgpr_bytes_disjoint_lanes (g bpu stride v1 u1 u2 ℓ1 ℓ2 : Nat) (hg : g = 4) (hb : bpu = 16)
    (hs : stride = 1024) (hl : ℓ1 < ℓ2) (h : u1 + units v1 g ≤ 64) :
    ℓ1 * stride + u1 * bpu + 4 * v1 ≤ ℓ2 * stride + u2 * bpu := by
  subst hg hb hs; have := units_mul_ge v1 4 (by omega); omega

/-- VGPR byte ranges (same lane) of wavefronts at disjoint unit regions are disjoint -/
theorem vgpr_bytes_disjoint_units (g bpu stride v1 u1 u2 ℓ : Nat) (hg : g = 4) (hb : bpu = 16)
    (h : u1 + units v1 g ≤ u2) :
    ℓ * stride + u1 * bpu + 4 * v1 ≤ ℓ * stride + u2 * bpu := by
  subst hg hb; have := units_mul_ge v1 4 (by omega); omega

/-- LDS: `l` bytes fit in `units l 256` units; disjoint unit regions give disjoint byte ranges; inside `256*n` -/
theorem lds_bytes (g l u u2 n : Nat) (hg : g = 256) :
    l ≤ g * units l g ∧ (u + units l g ≤ u2 → u * g + l ≤ u2 * g) ∧
    (u + units l g ≤ n → u * g + l ≤ g * n) := by
  subst hg; have := units_mul_ge l 256 (by omega); omega

/-- how unit offsets become byte offsets: ranges fit, stay inside the files, and are disjoint for
    disjoint unit regions (`a` before `b`: `ua + units … ≤ ub`) and for different lanes -/
theorem byte_offsets_disjoint (sg sb vg vb stride nl fileB lg : Nat)
    (hsg : sg = 16) (hsb : sb = 64) (hvg : vg = 4) (hvb : vb = 16) (hst : stride = 1024)
    (hnl : nl = 64) (hf : fileB = 65536) (hlg : lg = 256) :
    -- SGPR
    (∀ s, 4 * s ≤ sb * units s sg) ∧
    (∀ s ua ub, ua + units s sg ≤ ub → ua * sb + 4 * s ≤ ub * sb) ∧
    (∀ s u n, u + units s sg ≤ n → u * sb + 4 * s ≤ sb * n) ∧
    -- VGPR
    (∀ v, 4 * v ≤ vb * units v vg) ∧
    (∀ v u ℓ, ℓ < nl → u + units v vg ≤ 64 →
      ℓ * stride + u * vb + 4 * v ≤ (ℓ + 1) * stride ∧ ℓ * stride + u * vb + 4 * v ≤ fileB) ∧
    (∀ v ua ub ℓa ℓb, ℓa < ℓb → ua + units v vg ≤ 64 →
      ℓa * stride + ua * vb + 4 * v ≤ ℓb * stride + ub * vb) ∧
    (∀ v ua ub ℓ, ua + units v vg ≤ ub → ℓ * stride + ua * vb + 4 * v ≤ ℓ * stride + ub * vb) ∧
    -- LDS
    (∀ l, l ≤ lg * units l lg) ∧
    (∀ l ua ub, ua + units l lg ≤ ub → ua * lg + l ≤ ub * lg) ∧
    (∀ l u n, u + units l lg ≤ n → u * lg + l ≤ lg * n) := by
  refine ⟨fun s => sgpr_bytes_fit sg sb s hsg hsb,
    fun s ua ub h => sgpr_bytes_disjoint sg sb s ua ub hsg hsb h,
    fun s u n h => sgpr_bytes_inside sg sb s u n hsg hsb h,
    fun v => vgpr_bytes_fit vg vb v hvg hvb,
    fun v u ℓ hl h => (vgpr_bytes_inside vg vb stride nl fileB v u ℓ hvg hvb hst hnl hf hl h).2,
    fun v ua ub ℓa ℓb hl h => vgpr_bytes_disjoint_lanes vg vb stride v ua ub ℓa ℓb hvg hvb hst hl h,
    fun v ua ub ℓ h => vgpr_bytes_disjoint_units vg vb stride v ua ub ℓ hvg hvb h,
    fun l => (lds_bytes lg l 0 0 0 hlg).1,
    fun l ua ub h => (lds_bytes lg l ua ub 0 hlg).2.1 h,
    fun l u n h => (lds_bytes lg l u 0 n hlg).2.2 h⟩

/-! ## the scan meets its specification -/

theorem scan_spec (m : List Nat) (len st : Nat) (hlen : 0 < len) :
    ∀ fuel off cur r, cur ≤ off → cur < len →
      (∀ i, i < cur → ∃ h : off - cur + i < m.length, m[off - cur + i] = st) →
      scan m len st off cur fuel = some r →
      r + len ≤ m.length ∧ ∀ i, i < len → ∃ h : r + i < m.length, m[r + i] = st := by
  intro fuel
  induction fuel with
  | zero => intro off cur r _ _ _ h; simp [scan] at h
  | succ fuel ih =>
    intro off cur r hco hcl hprev h
    simp only [scan] at h
    split at h
    · rename_i hoff
      split at h
      · rename_i hm
        split at h
        · rename_i hfull
          injection h with h; subst h
          refine ⟨by omega, ?_⟩
          intro i hi
          by_cases hic : i < cur
          · obtain ⟨hh, he⟩ := hprev i hic
            have : off + 1 - len + i = off - cur + i := by omega
            exact ⟨by omega, by simpa [this] using he⟩
          · have : off + 1 - len + i = off := by omega
            exact ⟨by omega, by simpa [this] using hm⟩
        · apply ih (off+1) (cur+1) r (by omega) (by omega) _ h
          intro i hi
          by_cases hic : i < cur
          · obtain ⟨hh, he⟩ := hprev i hic
            have : off + 1 - (cur + 1) + i = off - cur + i := by omega
            exact ⟨by omega, by simpa [this] using he⟩
          · have : off + 1 - (cur + 1) + i = off := by omega
            exact ⟨by omega, by simp only [this]; exact hm⟩
      · apply ih (off+1) 0 r (by omega) (by omega) _ h
        intro i hi; omega
    · simp at h

theorem nextRegion_spec (m : List Nat) (len st r : Nat) (h : nextRegionL m len st = some r) :
    r + len ≤ m.length ∧ ∀ i, i < len → ∃ h : r + i < m.length, m[r + i] = st := by
  unfold nextRegionL at h
  split at h
  · injection h with h; subst h; rename_i h0; subst h0; simp
  · rename_i hne
    exact scan_spec m len st (by omega) _ 0 0 r (by omega) (by omega) (by intro i hi; omega) h

/-! ## regions and list-level mask predicates -/

/-- cell i lies in unit region r = (start,len) -/
def inR (r : Nat × Nat) (i : Nat) : Prop := r.1 ≤ i ∧ i < r.1 + r.2

/-- two unit regions share no cell -/
def disj (a b : Nat × Nat) : Prop := ∀ i, ¬ (inR a i ∧ inR b i)

/-- list-level mask predicate with reserved regions `rs` (cells = 2) and pending regions `ps` (cells = 1) -/
def LOK2 (m : List Nat) (rs ps : List (Nat × Nat)) : Prop :=
  (∀ i x, m[i]? = some x → (x = 0 ∨ x = 1 ∨ x = 2) ∧ (x = 2 ↔ ∃ r ∈ rs, inR r i) ∧ (x = 1 ↔ ∃ r ∈ ps, inR r i))
  ∧ (∀ r ∈ rs ++ ps, r.1 + r.2 ≤ m.length)
  ∧ (rs ++ ps).Pairwise disj

/-- `nextRegion` in region form: the region is inside the mask and every cell of it has the status -/
theorem nextRegion_inR (m : List Nat) (len st r : Nat) (h : nextRegionL m len st = some r) :
    r + len ≤ m.length ∧ ∀ i, inR (r, len) i → m[i]? = some st := by
  obtain ⟨h1, h2⟩ := nextRegion_spec m len st r h
  refine ⟨h1, ?_⟩
  intro i hi
  obtain ⟨hlo, hhi⟩ := hi
  simp only at hlo hhi
  obtain ⟨hh, he⟩ := h2 (i - r) (by omega)
  have e : r + (i - r) = i := by omega
  simp only [e] at he hh
  rw [List.getElem?_eq_getElem hh, he]

theorem getElem?_setStatusL (m : List Nat) (off n s i : Nat) :
    (setStatusL m off n s)[i]? = (m[i]?).map (fun x => if off ≤ i ∧ i < off + n then s else x) := by
  simp [setStatusL, List.getElem?_mapIdx]

theorem length_setStatusL (m : List Nat) (off n s : Nat) : (setStatusL m off n s).length = m.length := by
  simp [setStatusL]

theorem getElem?_convertL (m : List Nat) (a b i : Nat) :
    (convertL m a b)[i]? = (m[i]?).map (fun x => if x = a then b else x) := by
  simp [convertL]

theorem length_convertL (m : List Nat) (a b : Nat) : (convertL m a b).length = m.length := by
  simp [convertL]

/-- finding a free region and marking it to-reserve pushes it onto the pending list -/
theorem LOK2_find (m : List Nat) (rs ps : List (Nat × Nat)) (req off : Nat)
    (hok : LOK2 m rs ps) (hf : nextRegionL m req 0 = some off) :
    LOK2 (setStatusL m off req 1) rs (ps ++ [(off, req)]) := by
  obtain ⟨hc, hcap, hpw⟩ := hok
  obtain ⟨hin, hfree⟩ := nextRegion_inR m req 0 off hf
  refine ⟨?_, ?_, ?_⟩
  · intro i x hx
    rw [getElem?_setStatusL] at hx
    cases hmi : m[i]? with
    | none => simp [hmi] at hx
    | some y =>
      simp only [hmi, Option.map_some, Option.some.injEq] at hx
      obtain ⟨hy0, hy2, hy1⟩ := hc i y hmi
      by_cases hr : off ≤ i ∧ i < off + req
      · have hy : y = 0 := by
          have := hfree i hr; rw [hmi] at this; exact Option.some.inj this
        simp only [hr, and_self, if_true] at hx
        subst hx
        refine ⟨by omega, ?_, ?_⟩
        · constructor
          · intro h; omega
          · intro h; have := hy2.2 h; omega
        · constructor
          · intro _; exact ⟨(off, req), by simp, hr⟩
          · intro _; rfl
      · simp only [hr, if_false] at hx
        subst hx
        refine ⟨hy0, hy2, ?_⟩
        rw [hy1]
        constructor
        · rintro ⟨r, hr1, hr2⟩; exact ⟨r, by simp [hr1], hr2⟩
        · rintro ⟨r, hr1, hr2⟩
          simp only [List.mem_append, List.mem_singleton] at hr1
          rcases hr1 with hr1 | hr1
          · exact ⟨r, hr1, hr2⟩
          · subst hr1; exact absurd hr2 hr
  · intro r hr
    rw [length_setStatusL]
    rw [← List.append_assoc] at hr
    rcases List.mem_append.1 hr with hr | hr
    · exact hcap r hr
    · simp only [List.mem_singleton] at hr; subst hr; exact hin
  · rw [← List.append_assoc, List.pairwise_append]
    refine ⟨hpw, by simp, ?_⟩
    intro a ha b hb
    simp only [List.mem_singleton] at hb; subst hb
    intro i ⟨hai, hbi⟩
    have h0 := hfree i hbi
    obtain ⟨_, h2, h1⟩ := hc i 0 h0
    rcases List.mem_append.1 ha with ha | ha
    · have := h2.2 ⟨a, ha, hai⟩; omega
    · have := h1.2 ⟨a, ha, hai⟩; omega

/-- `convertStatus(ToReserve, Reserved)` moves the pending regions to the reserved ones -/
theorem LOK2_commit (m : List Nat) (rs ps : List (Nat × Nat)) (hok : LOK2 m rs ps) :
    LOK2 (convertL m 1 2) (rs ++ ps) [] := by
  obtain ⟨hc, hcap, hpw⟩ := hok
  refine ⟨?_, ?_, ?_⟩
  · intro i x hx
    rw [getElem?_convertL] at hx
    cases hmi : m[i]? with
    | none => simp [hmi] at hx
    | some y =>
      simp only [hmi, Option.map_some, Option.some.injEq] at hx
      obtain ⟨hy0, hy2, hy1⟩ := hc i y hmi
      have hmem : (∃ r ∈ rs ++ ps, inR r i) ↔ (y = 2 ∨ y = 1) := by
        rw [hy2, hy1]
        constructor
        · rintro ⟨r, hr1, hr2⟩
          rcases List.mem_append.1 hr1 with h | h
          · exact Or.inl ⟨r, h, hr2⟩
          · exact Or.inr ⟨r, h, hr2⟩
        · rintro (⟨r, h, hr2⟩ | ⟨r, h, hr2⟩)
          · exact ⟨r, List.mem_append_left _ h, hr2⟩
          · exact ⟨r, List.mem_append_right _ h, hr2⟩
      rw [hmem]
      by_cases h1 : y = 1
      · simp only [h1, if_true] at hx; subst hx; simp [h1]
      · simp only [h1, if_false] at hx; subst hx
        refine ⟨hy0, by omega, by simp [h1]⟩
  · intro r hr; rw [length_convertL]; simp only [List.append_nil] at hr; exact hcap r hr
  · simpa using hpw

/-- `convertStatus(ToReserve, Free)` drops the pending regions -/
theorem LOK2_abort (m : List Nat) (rs ps : List (Nat × Nat)) (hok : LOK2 m rs ps) :
    LOK2 (convertL m 1 0) rs [] := by
  obtain ⟨hc, hcap, hpw⟩ := hok
  refine ⟨?_, ?_, ?_⟩
  · intro i x hx
    rw [getElem?_convertL] at hx
    cases hmi : m[i]? with
    | none => simp [hmi] at hx
    | some y =>
      simp only [hmi, Option.map_some, Option.some.injEq] at hx
      obtain ⟨hy0, hy2, hy1⟩ := hc i y hmi
      by_cases h1 : y = 1
      · simp only [h1, if_true] at hx; subst hx
        refine ⟨by omega, ?_, by simp⟩
        rw [← hy2]; omega
      · simp only [h1, if_false] at hx; subst hx
        refine ⟨hy0, hy2, by simp [h1]⟩
  · intro r hr; rw [length_convertL]; simp only [List.append_nil] at hr
    exact hcap r (List.mem_append_left _ hr)
  · simpa using (List.pairwise_append.1 hpw).1

/-- `FreeResourcesForWG` on one mask: set the listed regions to free, one after the other -/
def clearL (m : List Nat) (E : List (Nat × Nat)) : List Nat :=
  E.foldl (fun m r => setStatusL m r.1 r.2 0) m

theorem length_clearL (E : List (Nat × Nat)) : ∀ m, (clearL m E).length = m.length := by
  induction E with
  | nil => intro m; rfl
  | cons r E ih => intro m; simp only [clearL, List.foldl_cons] at *; rw [ih]; exact length_setStatusL ..

theorem getElem?_clearL_in (E : List (Nat × Nat)) : ∀ (m : List Nat) (i : Nat), (∃ r ∈ E, inR r i) →
    (clearL m E)[i]? = (m[i]?).map (fun _ => 0) := by
  induction E with
  | nil => intro m i h; simp at h
  | cons r E ih =>
    intro m i h
    simp only [clearL, List.foldl_cons] at *
    by_cases hE : ∃ r ∈ E, inR r i
    · rw [ih _ i hE, getElem?_setStatusL]; cases m[i]? <;> simp
    · have hr : inR r i := by
        obtain ⟨r', hr', hi⟩ := h
        rcases List.mem_cons.1 hr' with h | h
        · subst h; exact hi
        · exact absurd ⟨r', h, hi⟩ hE
      have hnot : ∀ (m' : List Nat), (List.foldl (fun m r => setStatusL m r.1 r.2 0) m' E)[i]? = m'[i]? := by
        clear ih h
        induction E with
        | nil => intro m'; rfl
        | cons r2 E ih2 =>
          intro m'
          simp only [List.foldl_cons]
          rw [ih2 (fun ⟨r', h1, h2⟩ => hE ⟨r', List.mem_cons_of_mem _ h1, h2⟩), getElem?_setStatusL]
          have : ¬ (r2.1 ≤ i ∧ i < r2.1 + r2.2) := fun h => hE ⟨r2, List.mem_cons_self, h⟩
          cases m'[i]? <;> simp [this]
      rw [hnot, getElem?_setStatusL]
      have : r.1 ≤ i ∧ i < r.1 + r.2 := hr
      cases m[i]? <;> simp [this]

theorem getElem?_clearL_out (E : List (Nat × Nat)) : ∀ (m : List Nat) (i : Nat), (¬ ∃ r ∈ E, inR r i) →
    (clearL m E)[i]? = m[i]? := by
  induction E with
  | nil => intro m i _; rfl
  | cons r2 E ih =>
    intro m i hE
    simp only [clearL, List.foldl_cons] at *
    rw [ih _ i (fun ⟨r', h1, h2⟩ => hE ⟨r', List.mem_cons_of_mem _ h1, h2⟩), getElem?_setStatusL]
    have : ¬ (r2.1 ≤ i ∧ i < r2.1 + r2.2) := fun h => hE ⟨r2, List.mem_cons_self, h⟩
    cases m[i]? <;> simp [this]

/-- freeing the regions `E` of one entry: the remaining recorded regions `rs'` still describe the mask -/
theorem LOK2_clear (m : List Nat) (rs rs' E : List (Nat × Nat)) (hok : LOK2 m rs [])
    (hsub : rs'.Sublist rs) (hcover : ∀ r ∈ rs, r ∈ rs' ∨ r ∈ E)
    (hdisj : ∀ a ∈ E, ∀ b ∈ rs', disj a b) : LOK2 (clearL m E) rs' [] := by
  obtain ⟨hc, hcap, hpw⟩ := hok
  simp only [List.append_nil] at hcap hpw
  refine ⟨?_, ?_, ?_⟩
  · intro i x hx
    by_cases hE : ∃ r ∈ E, inR r i
    · rw [getElem?_clearL_in E m i hE] at hx
      cases hmi : m[i]? with
      | none => simp [hmi] at hx
      | some y =>
        simp only [hmi, Option.map_some, Option.some.injEq] at hx
        subst hx
        refine ⟨by omega, ?_, by simp⟩
        constructor
        · intro h; omega
        · rintro ⟨r, hr, hi⟩
          obtain ⟨a, ha, hai⟩ := hE
          exact absurd ⟨hai, hi⟩ (hdisj a ha r hr i)
    · rw [getElem?_clearL_out E m i hE] at hx
      obtain ⟨hy0, hy2, hy1⟩ := hc i x hx
      refine ⟨hy0, ?_, hy1⟩
      rw [hy2]
      constructor
      · rintro ⟨r, hr, hi⟩
        rcases hcover r hr with h | h
        · exact ⟨r, h, hi⟩
        · exact absurd ⟨r, h, hi⟩ hE
      · rintro ⟨r, hr, hi⟩; exact ⟨r, hsub.subset hr, hi⟩
  · intro r hr; rw [length_clearL]; simp only [List.append_nil] at hr; exact hcap r (hsub.subset hr)
  · simpa using hpw.sublist hsub

end C09
