import MgpuModel.C04
/-! Helper lemmas for C04 (format matching). -/
namespace C04
open Gen

def hit (w : Nat) (f : Format) : Bool := (w ^^^ f.encoding) &&& f.mask == 0
def cand (w : Nat) (f : Format) : Bool := f.ft != FT_VOP3b && hit w f

def SortedDesc (l : List Format) : Prop := l.Pairwise (fun a b => b.mask ≤ a.mask)

/-- candidates with the same mask and the same masked encoding are the same entry -/
def Distinct (l : List Format) : Prop :=
  ∀ a ∈ l, ∀ b ∈ l, a.ft ≠ FT_VOP3b → b.ft ≠ FT_VOP3b →
    a.mask = b.mask → a.encoding &&& a.mask = b.encoding &&& b.mask → a = b

theorem hit_same_mask {w : Nat} {a b : Format} (hm : a.mask = b.mask)
    (ha : hit w a = true) (hb : hit w b = true) : a.encoding &&& a.mask = b.encoding &&& b.mask := by
  simp only [hit, beq_iff_eq] at ha hb
  rw [hm] at ha ⊢
  apply Nat.eq_of_testBit_eq
  intro i
  have ha' := congrArg (fun x => x.testBit i) ha
  have hb' := congrArg (fun x => x.testBit i) hb
  simp only [Nat.testBit_and, Nat.testBit_xor, Nat.zero_testBit] at ha' hb' ⊢
  revert ha' hb'
  cases w.testBit i <;> cases a.encoding.testBit i <;> cases b.encoding.testBit i <;> cases b.mask.testBit i <;> simp

def firstCand (l : List Format) (w : Nat) : Option Format := l.find? (cand w)

theorem first_hit_max {l : List Format} (hs : SortedDesc l) {w : Nat} {f : Format}
    (hf : firstCand l w = some f) : ∀ g ∈ l, cand w g = true → g.mask ≤ f.mask := by
  induction l with
  | nil => simp [firstCand] at hf
  | cons a as ih =>
    intro g hg hgh
    simp only [firstCand, List.find?_cons] at hf
    rw [SortedDesc, List.pairwise_cons] at hs
    split at hf
    · injection hf with hf; subst hf
      rcases List.mem_cons.mp hg with rfl | hg
      · exact Nat.le_refl _
      · exact hs.1 g hg
    · rename_i hna
      rcases List.mem_cons.mp hg with rfl | hg
      · simp [hgh] at hna
      · exact ih hs.2 hf g hg hgh

theorem firstCand_mem {l : List Format} {w} {f} (h : firstCand l w = some f) : f ∈ l ∧ cand w f = true := by
  unfold firstCand at h
  exact ⟨List.mem_of_find?_eq_some h, by simpa using List.find?_some h⟩

theorem firstCand_perm (l₁ l₂ : List Format) (hp : l₁.Perm l₂) (hs₁ : SortedDesc l₁) (hs₂ : SortedDesc l₂)
    (hd : Distinct l₁) (w : Nat) : firstCand l₁ w = firstCand l₂ w := by
  cases h1 : firstCand l₁ w with
  | none =>
    cases h2 : firstCand l₂ w with
    | none => rfl
    | some g =>
      have ⟨hg, hgh⟩ := firstCand_mem h2
      have : g ∈ l₁ := hp.symm.subset hg
      simp only [firstCand, List.find?_eq_none] at h1
      exact absurd hgh (h1 g this)
  | some f =>
    have ⟨hf, hfh⟩ := firstCand_mem h1
    cases h2 : firstCand l₂ w with
    | none =>
      simp only [firstCand, List.find?_eq_none] at h2
      exact absurd hfh (h2 f (hp.subset hf))
    | some g =>
      have ⟨hg, hgh⟩ := firstCand_mem h2
      have hg1 : g ∈ l₁ := hp.symm.subset hg
      have hf2 : f ∈ l₂ := hp.subset hf
      have le1 := first_hit_max hs₁ h1 g hg1 hgh
      have le2 := first_hit_max hs₂ h2 f hf2 hfh
      have hm : f.mask = g.mask := Nat.le_antisymm le2 le1
      simp only [cand, Bool.and_eq_true, bne_iff_ne, ne_eq] at hfh hgh
      have := hd f hf g hg1 hfh.1 hgh.1 hm (hit_same_mask hm hfh.2 hgh.2)
      rw [this]

theorem matchFormatIn_eq (l : List Format) (w : Nat) :
    matchFormatIn l w =
      match firstCand l w with
      | none => none
      | some f => if f.ft == FT_VOP3a && isVOP3bOpcode (extractBits w f.opLo f.opHi) then formatOf FT_VOP3b else some f := by
  rfl

theorem formats_distinct : Distinct formats := by
  intro a ha b hb
  revert a b
  decide

theorem formatList_sorted : SortedDesc formatList := by
  unfold SortedDesc
  decide

theorem formatList_perm : formatList.Perm formats := by
  decide

end C04

namespace C04
open Gen

/-! ## Duplicate-freeness through a bit set (cheap for the kernel: big-number operations) -/

def bitsStep (acc : Option Nat) (k : Nat) : Option Nat :=
  match acc with
  | none => none
  | some s => if s.testBit k then none else some (s ||| (1 <<< k))

def noDupBits (l : List Nat) : Option Nat := l.foldl bitsStep (some 0)

theorem foldl_bits_none (l : List Nat) : l.foldl bitsStep none = none := by
  induction l with
  | nil => rfl
  | cons a as ih => simpa [List.foldl, bitsStep] using ih

theorem testBit_or_shift (s k j : Nat) : (s ||| (1 <<< k)).testBit j = (s.testBit j || decide (j = k)) := by
  rw [Nat.testBit_or, Nat.one_shiftLeft, Nat.testBit_two_pow]
  congr 1
  simp [eq_comm]

theorem noDup_of_bits_aux (l : List Nat) (s : Nat) (seen : List Nat)
    (hs : ∀ j, s.testBit j = true ↔ j ∈ seen) (hn : seen.Nodup)
    (h : (l.foldl bitsStep (some s)).isSome = true) : (seen ++ l).Nodup := by
  induction l generalizing s seen with
  | nil => simpa using hn
  | cons a as ih =>
    simp only [List.foldl, bitsStep] at h
    by_cases hb : s.testBit a = true
    · simp [hb, foldl_bits_none] at h
    · simp only [hb] at h
      have ha : a ∉ seen := fun hm => hb ((hs a).2 hm)
      have := ih (s ||| (1 <<< a)) (seen ++ [a])
        (by
          intro j
          rw [testBit_or_shift]
          simp only [Bool.or_eq_true, decide_eq_true_eq, List.mem_append, List.mem_singleton]
          rw [hs j])
        (by
          rw [List.nodup_append]
          refine ⟨hn, by simp, ?_⟩
          intro x hx y hy
          simp only [List.mem_singleton] at hy
          subst hy
          intro he; subst he; exact ha hx)
        (by simpa using h)
      simpa using this

theorem nodup_of_noDupBits (l : List Nat) (h : (noDupBits l).isSome = true) : l.Nodup := by
  have := noDup_of_bits_aux l 0 [] (by simp) (by simp) h
  simpa using this

/-! ## With duplicate-free keys, the last registration is the only one -/

def rkey (r : Row) : Nat := r.ft * 1024 + r.opcode

theorem lastRow_of_mem (rows : List Row) (hk : (rows.map rkey).Nodup)
    (hop : ∀ r ∈ rows, r.opcode < 1024) (r : Row) (hr : r ∈ rows) :
    lastRow rows r.ft r.opcode = some r := by
  unfold lastRow
  -- generalise the accumulator: either already `some r` with no later match, or r is still ahead
  suffices H : ∀ (l : List Row) (acc : Option Row), (l.map rkey).Nodup → (∀ x ∈ l, x.opcode < 1024) →
      r.opcode < 1024 →
      ((r ∈ l) ∨ (acc = some r ∧ ∀ x ∈ l, rkey x ≠ rkey r)) →
      l.foldl (fun acc x => if x.ft == r.ft && x.opcode == r.opcode then some x else acc) acc = some r by
    exact H rows none hk hop (hop r hr) (Or.inl hr)
  intro l
  induction l with
  | nil =>
    intro acc _ _ _ h
    rcases h with h | h
    · simp at h
    · simpa using h.1
  | cons a as ih =>
    intro acc hnd hlt hrlt h
    simp only [List.map_cons, List.nodup_cons] at hnd
    simp only [List.foldl]
    have hlt' : ∀ x ∈ as, x.opcode < 1024 := fun x hx => hlt x (List.mem_cons_of_mem _ hx)
    have keyeq : ∀ x : Row, x.opcode < 1024 → ((x.ft == r.ft && x.opcode == r.opcode) = true ↔ rkey x = rkey r) := by
      intro x hx
      simp only [Bool.and_eq_true, beq_iff_eq, rkey]
      constructor
      · rintro ⟨a1, a2⟩; rw [a1, a2]
      · intro he; omega
    rcases h with h | h
    · rcases List.mem_cons.mp h with rfl | h
      · simp only [BEq.rfl, Bool.and_self, if_true]
        apply ih _ hnd.2 hlt' hrlt
        right
        refine ⟨rfl, ?_⟩
        intro x hx he
        exact hnd.1 (by rw [← he]; exact List.mem_map_of_mem hx)
      · by_cases hc : (a.ft == r.ft && a.opcode == r.opcode) = true
        · exfalso
          have := (keyeq a (hlt a (List.mem_cons_self))).1 hc
          exact hnd.1 (by rw [this]; exact List.mem_map_of_mem h)
        · simp only [hc]
          exact ih _ hnd.2 hlt' hrlt (Or.inl h)
    · have hne : ¬ (a.ft == r.ft && a.opcode == r.opcode) = true := by
        intro hc
        exact h.2 a List.mem_cons_self ((keyeq a (hlt a List.mem_cons_self)).1 hc)
      simp only [hne]
      exact ih _ hnd.2 hlt' hrlt (Or.inr ⟨h.1, fun x hx => h.2 x (List.mem_cons_of_mem _ hx)⟩)

end C04

namespace C04
open Gen

theorem setSize_ok {o : Outcome} {n : Nat} {i : Inst} (h : o.setSize n = .ok i) : i.size = n := by
  cases o with
  | ok j => simp only [Outcome.setSize, Outcome.ok.injEq] at h; subst h; rfl
  | err => simp [Outcome.setSize] at h
  | notImpl => simp [Outcome.setSize] at h

theorem decodeRow_size (c : Bool) (f : Format) (row : Row) (w0 : Nat) (w1? : Option Nat) (i : Inst)
    (h : decodeRow c f row w0 w1? = .ok i) : i.size = 4 ∨ (i.size = 8 ∧ w1?.isSome = true) := by
  unfold decodeRow at h
  simp only at h
  generalize dec4 _ row w0 = d4 at h
  generalize (f.size == 8) = b at h
  cases b with
  | true =>
    simp only [if_true] at h
    cases w1? with
    | none => simp at h
    | some w1 => exact Or.inr ⟨setSize_ok h, rfl⟩
  | false =>
    simp only [Bool.false_eq_true, if_false] at h
    cases d4 with
    | none => simp at h
    | some d =>
      cases d with
      | done j => simp only [Outcome.ok.injEq] at h; subst h; exact Or.inl rfl
      | err => simp at h
      | more k =>
        cases w1? with
        | none => simp at h
        | some w1 => exact Or.inr ⟨setSize_ok h, rfl⟩

theorem decodeCore_size (look : Nat → Nat → Option Row) (c : Bool) (w0 : Nat) (w1? : Option Nat) (i : Inst)
    (h : decodeCore look c w0 w1? = .ok i) : i.size = 4 ∨ (i.size = 8 ∧ w1?.isSome = true) := by
  unfold decodeCore at h
  generalize matchFormat w0 = mf at h
  cases mf with
  | none => simp at h
  | some f =>
    simp only at h
    generalize look f.ft _ = lr at h
    cases lr with
    | none => simp at h
    | some row => exact decodeRow_size c f row w0 w1? i h


theorem getD_take_append (buf t : List Nat) (n k : Nat) (hk : k < n) (hn : n ≤ buf.length) :
    (buf.take n ++ t).getD k 0 = buf.getD k 0 := by
  have h1 : k < (buf.take n).length := by simp [List.length_take]; omega
  simp only [List.getD_eq_getElem?_getD]
  rw [List.getElem?_append_left h1, List.getElem?_take]
  simp [hk]

theorem le32_take_append (buf t : List Nat) (n off : Nat) (h : off + 4 ≤ n) (hn : n ≤ buf.length) :
    le32 (buf.take n ++ t) off = le32 buf off := by
  unfold le32
  rw [getD_take_append buf t n off (by omega) hn, getD_take_append buf t n (off+1) (by omega) hn,
      getD_take_append buf t n (off+2) (by omega) hn, getD_take_append buf t n (off+3) (by omega) hn]

theorem decodeRow_indep4 (c : Bool) (f : Format) (row : Row) (w0 : Nat) (w1? w1' : Option Nat) (i : Inst)
    (h : decodeRow c f row w0 w1? = .ok i) (h4 : i.size = 4) : decodeRow c f row w0 w1' = .ok i := by
  unfold decodeRow at h ⊢
  simp only at h ⊢
  generalize dec4 _ row w0 = d4 at h ⊢
  generalize (f.size == 8) = b at h ⊢
  cases b with
  | true =>
    simp only [if_true] at h
    cases w1? with
    | none => simp at h
    | some w1 => have := setSize_ok h; omega
  | false =>
    simp only [Bool.false_eq_true, if_false] at h ⊢
    cases d4 with
    | none => simp at h
    | some d =>
      cases d with
      | done j => exact h
      | err => simp at h
      | more k =>
        cases w1? with
        | none => simp at h
        | some w1 => have := setSize_ok h; omega

theorem decodeCore_indep4 (look : Nat → Nat → Option Row) (c : Bool) (w0 : Nat) (w1? w1' : Option Nat) (i : Inst)
    (h : decodeCore look c w0 w1? = .ok i) (h4 : i.size = 4) : decodeCore look c w0 w1' = .ok i := by
  unfold decodeCore at h ⊢
  generalize matchFormat w0 = mf at h ⊢
  cases mf with
  | none => simp at h
  | some f =>
    simp only at h ⊢
    generalize look f.ft _ = lr at h ⊢
    cases lr with
    | none => simp at h
    | some row => exact decodeRow_indep4 c f row w0 w1? w1' i h h4


end C04

namespace C04
open Gen

theorem lastRow_none (rows : List Row) (ft op : Nat) (h : ∀ x ∈ rows, ¬ (x.ft = ft ∧ x.opcode = op)) :
    lastRow rows ft op = none := by
  unfold lastRow
  suffices H : ∀ (l : List Row), (∀ x ∈ l, ¬ (x.ft = ft ∧ x.opcode = op)) →
      l.foldl (fun acc x => if x.ft == ft && x.opcode == op then some x else acc) none = none from H rows h
  intro l
  induction l with
  | nil => intro _; rfl
  | cons a as ih =>
    intro h
    simp only [List.foldl]
    have : ¬ (a.ft == ft && a.opcode == op) = true := by
      intro hc
      simp only [Bool.and_eq_true, beq_iff_eq] at hc
      exact h a List.mem_cons_self hc
    simp only [this]
    exact ih (fun x hx => h x (List.mem_cons_of_mem _ hx))

/-- with pairwise distinct (format, opcode) keys, table lookups do not depend on the order in
    which rows were registered -/
theorem lastRow_perm (r₁ r₂ : List Row) (hp : r₁.Perm r₂) (hk : (r₁.map rkey).Nodup)
    (hop : ∀ r ∈ r₁, r.opcode < 1024) (ft op : Nat) : lastRow r₁ ft op = lastRow r₂ ft op := by
  have hk2 : (r₂.map rkey).Nodup := (hp.map _).nodup_iff.mp hk
  have hop2 : ∀ r ∈ r₂, r.opcode < 1024 := fun r hr => hop r (hp.symm.subset hr)
  by_cases h : ∃ r ∈ r₁, r.ft = ft ∧ r.opcode = op
  · obtain ⟨r, hm, rfl, rfl⟩ := h
    rw [lastRow_of_mem r₁ hk hop r hm, lastRow_of_mem r₂ hk2 hop2 r (hp.subset hm)]
  · have h1 : ∀ x ∈ r₁, ¬ (x.ft = ft ∧ x.opcode = op) := fun x hx he => h ⟨x, hx, he⟩
    have h2 : ∀ x ∈ r₂, ¬ (x.ft = ft ∧ x.opcode = op) := fun x hx => h1 x (hp.symm.subset hx)
    rw [lastRow_none r₁ ft op h1, lastRow_none r₂ ft op h2]

end C04
