import MgpuModel.C04
import MgpuProofs.C04
import MgpuProofs.C04Bits
import MgpuProofs.C04Enc
/-! # Converse direction of the round trip: the decoder's image

`normRow`  — the canonical form of a (first dword, second dword) pair under a (format, row): every bit the decoder of
             that format does not read is cleared, a second dword that is not consumed is dropped.
`descOf`   — the description read back from a decoded instruction (operand codes, modifiers, literal).
Per format `X`:  `norm_X`  : decoding the canonical form = decoding the original words  (the cleared bits are ignored);
                 `desc_X`  : `decodeRow … = ok i` → the ISA encoding of `descOf i` is exactly the canonical form
                             (so nothing else is ignored: two words with the same instruction have the same canonical form). -/
namespace C04
open Gen

/-! ## shared small facts -/

theorem getOperand_code_tab : ∀ n, n < 512 →
    (match getOperand n with | some o => o.code == n | none => true) = true := by decide +kernel

theorem getOperand_code {n : Nat} (hn : n < 512) {o : Opnd} (h : getOperand n = some o) : o.code = n := by
  have := getOperand_code_tab n hn
  rw [h] at this
  simpa using this

theorem setCount_code (o : Opnd) (n : Nat) : (o.setCount n).code = o.code := by cases o <;> rfl
theorem with64_code (w : Nat) (o : Opnd) : (with64 w o).code = o.code := by
  unfold with64; split
  · exact setCount_code o 2
  · rfl
theorem setLit_code (o : Opnd) (v : Nat) : (setLit o v).code = o.code := by cases o <;> rfl
theorem vreg_code (a b n : Nat) : (vreg a b n).code = a := rfl
theorem sreg_code (a b n : Nat) : (sreg a b n).code = a := rfl

theorem selInv_sdwaSel : ∀ s, s < 8 → selInv (sdwaSel s) = s := by decide

theorem extractBits_lt (w lo hi : Nat) : extractBits w lo hi < 2 ^ (hi - lo + 1) := by
  unfold extractBits
  exact Nat.mod_lt _ (Nat.pow_pos (by decide))

end C04

namespace C04
/-- closes goals of the form `extractBits (clr w l h) a b = extractBits w a b` (concrete disjoint ranges) and other
    linear facts about `extractBits` / `clr` with literal bit positions -/
macro "ebclr" : tactic => `(tactic| (unfold clr extractBits; omega))
end C04
