import MgpuModel.C04
import MgpuProofs.C04
import MgpuProofs.C04Bits
import MgpuProofs.C04Enc
/-! # Converse direction of the round trip: the decoder's image

`normRow`  — the canonical form of a (first dword, second dword) pair under a (format, row): every bit the decoder of
             that format does not read is cleared, a second dword that is not consumed is dropped.
`descOf`   — the description read back from a decoded instruction (operand codes, modifiers, literal).
Per format `X`:  `norm_X`  : decoding the canonical form = decoding the original words  (the cleared bits are ignored);
                 `desc_X`  : `decodeRow … = ok i` → the ISA encoding of `descOf i` is exactly the canonical form
                             (so nothing else is ignored: two words with the same instruction have the same canonical form). -/
namespace C04
open Gen

/-- clear bits `lo..hi` -/
def clr (w lo hi : Nat) : Nat := w - extractBits w lo hi * 2 ^ lo

/-- does a 4-byte format consume the dword behind the first one (literal, SDWA dword, K constant) -/
def usesSecond4 (ft : Nat) (row : Row) (w0 : Nat) : Bool :=
  if ft == FT_SOP2 || ft == FT_SOPC then extractBits w0 0 7 == 255 || extractBits w0 8 15 == 255
  else if ft == FT_SOP1 then extractBits w0 0 7 == 255
  else if ft == FT_VOP1 || ft == FT_VOPC then extractBits w0 0 8 == 255
  else if ft == FT_VOP2 then extractBits w0 0 8 == 249 || extractBits w0 0 8 == 255 || isKOpcode row.opcode
  else false

/-- SDWA dword: OMOD (14..15), the reserved bit 22 and bit 23 (the ISA's S0 — the decoder reads bit 30 instead) are not
    read; DST_UNUSED 3 is decoded like 0 -/
def normSdwa (sd : Nat) : Nat :=
  let a := clr (clr sd 14 15) 22 23
  if extractBits sd 11 12 == 3 then clr a 11 12 else a

def normRow (c : Bool) (ft : Nat) (row : Row) (w0 : Nat) (w1? : Option Nat) : Nat × Option Nat :=
  if ft == FT_SMEM then
    -- first dword: bits 13..15 (SOE/NV and a reserved bit) are not read; second dword: a 20-bit offset
    -- (21 bits for a CDNA3 immediate)
    (clr w0 13 15,
     w1?.map fun w1 => if c && extractBits w0 17 17 != 0 then extractBits w1 0 20 else extractBits w1 0 19)
  else if ft == FT_VOP3a then
    -- OP_SEL bits 11..14 are read only by the packed rows 944 (all four) and 945/946 (11..12); SRC2 only by
    -- three-source rows
    ((if row.opcode == 944 then w0 else if 945 ≤ row.opcode && row.opcode ≤ 946 then clr w0 13 14 else clr w0 11 14),
     w1?.map fun w1 => if row.src2W != 0 then w1 else clr w1 18 26)
  else if ft == FT_VOP3b then
    ((if row.opcode > 255 then w0 else clr w0 0 7),
     w1?.map fun w1 => if row.opcode > 255 && row.src2W > 0 then w1 else clr w1 18 26)
  else if ft == FT_DS then
    -- bit 25 is neither encoding nor opcode; DATA0 / DATA1 / VDST are read only when the row has that operand
    (clr w0 25 25,
     w1?.map fun w1 =>
       let a := if row.src0W > 0 then w1 else clr w1 8 15
       let b := if row.src1W > 0 then a else clr a 16 23
       if row.dstW > 0 then b else clr b 24 31)
  else if ft == FT_FLAT then
    -- bit 13 (LDS) and bit 25 are not read; SEG (14..15) is read only by a CDNA3 disassembler, only when
    -- SADDR ≠ 0x7F, and then only as "SEG ≠ 0" (canonical value 1)
    (let a := clr (clr (clr w0 13 13) 14 15) 25 25
     match w1? with
     | none => a
     | some w1 =>
       if c && extractBits w1 16 22 != 0x7F && extractBits w0 14 15 != 0 then a + 2 ^ 14 else a,
     w1?)
  else if ft == FT_VOP2 && extractBits w0 0 8 == 249 then (w0, w1?.map normSdwa)
  else (w0, if usesSecond4 ft row w0 then w1? else none)

/-! ## reading a description back from an instruction -/

def Opnd.code : Opnd → Nat
  | .reg c _ _ => c
  | .int c _ => c
  | .float c => c
  | .lit c _ => c

def ocode (o : Option Opnd) : Nat :=
  match o with
  | some x => x.code
  | none => 0

def olit (o : Option Opnd) : Option Nat :=
  match o with
  | some (.lit _ v) => some v
  | _ => none

def oint (o : Option Opnd) : Int :=
  match o with
  | some (.int _ v) => v
  | _ => 0

def ocount (o : Option Opnd) : Nat :=
  match o with
  | some (.reg _ _ n) => n
  | _ => 0

/-- 1 when the operand is a scalar register `s<k>` (register index from `R_S0` up), 0 for a VGPR -/
def oIsSreg (o : Option Opnd) : Nat :=
  match o with
  | some (.reg _ idx _) => if idx ≥ R_S0 then 1 else 0
  | _ => 0

def orr (a b : Option Nat) : Option Nat :=
  match a with
  | some v => some v
  | none => b

def b2n (b : Bool) : Nat := if b then 1 else 0

/-- inverse of `sdwaSel` (the reserved selector 7 gives mask 0) -/
def selInv (m : Nat) : Nat :=
  if m == 0xff then 0 else if m == 0xff00 then 1 else if m == 0xff0000 then 2 else if m == 0xff000000 then 3
  else if m == 0xffff then 4 else if m == 0xFFFF0000 then 5 else if m == 0xFFFFFFFF then 6 else 7

/-- the description a decoded instruction came from (fields the decoder does not read: 0) -/
def descOf (c : Bool) (i : Inst) : Desc :=
  let d : Desc := { ft := i.ft, op := i.opcode }
  if i.ft == FT_SOP2 then
    { d with ssrc0 := ocode i.src0, ssrc1 := ocode i.src1, sdst := ocode i.dst, lit := orr (olit i.src0) (olit i.src1) }
  else if i.ft == FT_SOPK then { d with sdst := ocode i.dst, simm16 := (oint i.simm16).toNat }
  else if i.ft == FT_SOP1 then { d with ssrc0 := ocode i.src0, sdst := ocode i.dst, lit := olit i.src0 }
  else if i.ft == FT_SOPC then
    { d with ssrc0 := ocode i.src0, ssrc1 := ocode i.src1, lit := orr (olit i.src0) (olit i.src1) }
  else if i.ft == FT_SOPP then { d with simm16 := (oint i.simm16).toNat }
  else if i.ft == FT_VOP2 then
    if i.isSdwa then
      { d with sdwa := 1, src0 := ocode i.src0, vsrc1 := ocode i.src1, vdst := ocode i.dst, s0 := 0, s1 := oIsSreg i.src1,
               dstSel := selInv i.dstSel, dstUnused := i.dstUnused, src0Sel := selInv i.src0Sel,
               src1Sel := selInv i.src1Sel }
    else
      { d with src0 := ocode i.src0, vsrc1 := ocode i.src1, vdst := ocode i.dst, lit := orr (olit i.src0) (olit i.src2) }
  else if i.ft == FT_VOP1 then
    { d with src0 := ocode i.src0, vdst := (if i.opcode == 2 then ocode i.dst else ocode i.dst - 256), lit := olit i.src0 }
  else if i.ft == FT_VOPC then { d with src0 := ocode i.src0, vsrc1 := ocode i.src1, lit := olit i.src0 }
  else if i.ft == FT_SMEM then
    { d with sbase := ocode i.base / 2, sdata := ocode i.data, imm := b2n i.imm, glc := b2n i.glc,
             offset := (if i.imm then (oint i.offset % 2 ^ 21).toNat else ocode i.offset) }
  else if i.ft == FT_VOP3a then
    { d with vdst := ocode i.dst, abs := i.abs, clamp := b2n i.clamp,
             opsel := (if i.opcode == 944 then i.opSel + i.opSelHi / 4 * 8
                       else if 945 ≤ i.opcode && i.opcode ≤ 946 then i.opSel else 0),
             src0 := ocode i.src0, src1 := ocode i.src1, src2 := ocode i.src2, omod := i.omod, neg := i.neg }
  else if i.ft == FT_VOP3b then
    { d with vdst := ocode i.dst, sdst := ocode i.sdst, clamp := b2n i.clamp,
             src0 := ocode i.src0, src1 := ocode i.src1, src2 := ocode i.src2, omod := i.omod, neg := i.neg }
  else if i.ft == FT_DS then
    { d with offset0 := (if dsSeparateOffsets i.opcode then i.offset0 else i.offset0 % 256), offset1 := i.offset1,
             gds := b2n i.gds, addr := ocode i.addr, data0 := ocode i.data, data1 := ocode i.data1, vdst := ocode i.dst }
  else if i.ft == FT_FLAT then
    { d with offset := i.offset0 % 8192, seg := (if c && ocount i.addr == 1 then 1 else 0),
             glc := b2n i.glc, slc := b2n i.slc, tfe := b2n i.tfe,
             addr := ocode i.addr, data := ocode i.data, saddr := (oint i.saddr).toNat, vdst := ocode i.dst }
  else d

/-! ## shared small facts -/

theorem getOperand_code_tab : ∀ n, n < 512 →
    (match getOperand n with | some o => o.code == n | none => true) = true := by decide +kernel

theorem getOperand_code {n : Nat} (hn : n < 512) {o : Opnd} (h : getOperand n = some o) : o.code = n := by
  have := getOperand_code_tab n hn
  rw [h] at this
  simpa using this

theorem setCount_code (o : Opnd) (n : Nat) : (o.setCount n).code = o.code := by cases o <;> rfl
theorem with64_code (w : Nat) (o : Opnd) : (with64 w o).code = o.code := by
  unfold with64; split
  · exact setCount_code o 2
  · rfl
theorem setLit_code (o : Opnd) (v : Nat) : (setLit o v).code = o.code := by cases o <;> rfl
theorem vreg_code (a b n : Nat) : (vreg a b n).code = a := rfl
theorem sreg_code (a b n : Nat) : (sreg a b n).code = a := rfl

theorem selInv_sdwaSel : ∀ s, s < 8 → selInv (sdwaSel s) = s := by decide

theorem extractBits_lt (w lo hi : Nat) : extractBits w lo hi < 2 ^ (hi - lo + 1) := by
  unfold extractBits
  exact Nat.mod_lt _ (Nat.pow_pos (by decide))

end C04

namespace C04
/-- closes goals of the form `extractBits (clr w l h) a b = extractBits w a b` (concrete disjoint ranges) and other
    linear facts about `extractBits` / `clr` with literal bit positions -/
macro "ebclr" : tactic => `(tactic| (unfold clr extractBits; omega))
end C04
