import MgpuProofs.C02WfStep
/-! The static hazard check implies the address-exact one (straight-line programs, one alias class,
    no FLAT instruction with EXEC = 0). -/
namespace C02.Wf

variable {P : Prog}

/-- the dynamic state tracks the same instructions as the static one (the byte ranges are ignored) -/
structure HRel (Hs Hd : HState) : Prop where
  pv : Hd.pv.map Prod.fst = Hs.pv.map Prod.fst
  ps : Hd.ps.map Prod.fst = Hs.ps.map Prod.fst

theorem all_map_fst (l : List (Inst × Ranges)) (f : Inst → Bool) : l.all (fun q => f q.1) = (l.map Prod.fst).all f := by
  induction l with
  | nil => rfl
  | cons a as ih => simp [ih]

theorem HRel.reg_ok {Hs Hd : HState} (h : HRel Hs Hd) (i : Inst) : regOK Hd i = regOK Hs i := by
  unfold regOK
  rw [all_map_fst (Hd.pv ++ Hd.ps) (fun q => !q.isLoad || disj (i.rd ++ i.wr) q.wr),
    all_map_fst (Hs.pv ++ Hs.ps) (fun q => !q.isLoad || disj (i.rd ++ i.wr) q.wr)]
  simp only [List.map_append, h.pv, h.ps]

theorem HRel.mem_ok {Hs Hd : HState} (h : HRel Hs Hd) (i : Inst) (fp : Ranges)
    (hreg : ∀ q ∈ Hs.pv ++ Hs.ps, q.1.region = i.region) (hs : memOK true Hs i [] = true) :
    memOK false Hd i fp = true := by
  have h1 : ((Hs.pv ++ Hs.ps).map Prod.fst).all (fun q => !(q.isStore || i.isStore)) = true := by
    rw [← all_map_fst (Hs.pv ++ Hs.ps) (fun q => !(q.isStore || i.isStore))]
    simp only [memOK, if_true, List.all_eq_true] at hs ⊢
    intro q hq
    have := hs q hq
    have hr := hreg q hq
    simpa [hr] using this
  have h2 : ((Hd.pv ++ Hd.ps).map Prod.fst).all (fun q => !(q.isStore || i.isStore)) = true := by
    simpa only [List.map_append, h.pv, h.ps] using h1
  rw [← all_map_fst (Hd.pv ++ Hd.ps) (fun q => !(q.isStore || i.isStore))] at h2
  simp only [memOK, List.all_eq_true] at h2 ⊢
  intro q hq
  simp [h2 q hq]

theorem HRel.after_wait {Hs Hd : HState} (h : HRel Hs Hd) (a b : Nat) : HRel (afterWait Hs a b) (afterWait Hd a b) := by
  unfold C02.Wf.afterWait
  by_cases hb : b = 0
  · simp only [hb, if_true]; exact ⟨rfl, rfl⟩
  · simp only [hb, if_false]
    have hl : Hd.pv.length = Hs.pv.length := by
      have := congrArg List.length h.pv
      simpa using this
    refine ⟨?_, h.ps⟩
    show (Hd.pv.drop (Hd.pv.length - a)).map Prod.fst = (Hs.pv.drop (Hs.pv.length - a)).map Prod.fst
    rw [List.map_drop, List.map_drop, h.pv, hl]

theorem estep_some {E : EState} {i : Inst} (hi : P.instAt E.pc = some i) (hd : E.done = false) :
    ∃ E', estep P E = some E' ∧ E'.done = decide (i.kind = .endpgm) ∧
      (i.kind ≠ .branch → E'.pc = pcAdd E.pc i.size) := by
  unfold estep
  rw [if_neg (by simp [hd])]
  simp only [hi]
  cases hk : i.kind <;> simp [hd]

theorem hazardFreeRun_done (n : Nat) (x : EState × HState) (h : x.1.done = true) : hazardFreeRun P n x = true := by
  cases n with
  | zero => exact h
  | succ n => simp [hazardFreeRun, h]

theorem static_sound_aux (all : List Inst) (hall : ∀ i ∈ all, ∀ j ∈ all, i.region = j.region) :
    ∀ (is : List Inst) (E : EState) (Hs Hd : HState), (∀ i ∈ is, i ∈ all) →
      (∀ q ∈ Hs.pv ++ Hs.ps, q.1 ∈ all) → HRel Hs Hd → E.done = false →
      StraightLine P E.pc is → hcheckFrom Hs is = true → noEmptyRun P is.length E = true →
      hazardFreeRun P is.length (E, Hd) = true := by
  intro is
  induction is with
  | nil => intro E Hs Hd _ _ _ _ hsl; exact hsl.elim
  | cons i rest ih =>
    intro E Hs Hd hsub hHs hrel hd hsl hc hne
    obtain ⟨hi, hnb, hrest⟩ := hsl
    obtain ⟨E', he, hd', hpc'⟩ := estep_some hi hd
    simp only [hcheckFrom] at hc
    cases hh : hstep true Hs i [] false with
    | none => simp [hh] at hc
    | some Hs' =>
      simp only [hh] at hc
      simp only [List.length_cons, noEmptyRun, hd, Bool.false_eq_true, if_false, hi, he, Bool.and_eq_true] at hne
      have hiall := hsub i (List.mem_cons_self ..)
      have hregq : ∀ q ∈ Hs.pv ++ Hs.ps, q.1.region = i.region := fun q hq => hall _ (hHs q hq) _ hiall
      -- the dynamic step
      have hdyn : ∃ Hd', hstep false Hd i (i.fpl E.regs) (i.noTxn E.regs) = some Hd' ∧ HRel Hs' Hd' ∧
          (∀ q ∈ Hs'.pv ++ Hs'.ps, q.1 ∈ all) := by
        unfold hstep at hh ⊢
        cases hk : i.kind with
        | wait a b =>
          simp only [hk] at hh ⊢; cases hh
          refine ⟨_, rfl, hrel.after_wait a b, ?_⟩
          intro q hq
          apply hHs q
          unfold C02.Wf.afterWait at hq
          by_cases hb : b = 0
          · simp [hb] at hq
          · simp only [hb, if_false] at hq
            rcases List.mem_append.mp hq with h | h
            · exact List.mem_append_left _ (List.mem_of_mem_drop h)
            · exact List.mem_append_right _ h
        | endpgm =>
          simp only [hk] at hh ⊢; cases hh
          exact ⟨_, rfl, ⟨rfl, rfl⟩, by intro q hq; simp at hq⟩
        | nop =>
          simp only [hk] at hh ⊢; cases hh
          exact ⟨_, rfl, hrel, hHs⟩
        | alu u =>
          simp only [hk] at hh ⊢
          split at hh
          · rename_i hr; cases hh
            rw [hrel.reg_ok i, hr]
            exact ⟨_, rfl, hrel, hHs⟩
          · cases hh
        | branch => exact absurd hk hnb
        | vload =>
          simp only [hk] at hh ⊢
          split at hh
          · rename_i hr; cases hh
            simp only [Bool.and_eq_true] at hr
            have hnt : i.noTxn E.regs = false := by
              have := hne.1.1
              simpa [Inst.isVMem, hk] using this
            rw [hrel.reg_ok i, hr.1, hrel.mem_ok i _ hregq hr.2, hnt]
            refine ⟨_, rfl, ⟨?_, hrel.ps⟩, ?_⟩
            · simp [hrel.pv]
            · intro q hq
              simp only [Bool.false_eq_true, if_false, List.mem_append, List.mem_singleton] at hq
              rcases hq with (h | h) | h
              · exact hHs q (List.mem_append_left _ h)
              · rw [h]; exact hiall
              · exact hHs q (List.mem_append_right _ h)
          · cases hh
        | vstore =>
          simp only [hk] at hh ⊢
          split at hh
          · rename_i hr; cases hh
            simp only [Bool.and_eq_true] at hr
            have hnt : i.noTxn E.regs = false := by
              have := hne.1.1
              simpa [Inst.isVMem, hk] using this
            rw [hrel.reg_ok i, hr.1, hrel.mem_ok i _ hregq hr.2, hnt]
            refine ⟨_, rfl, ⟨?_, hrel.ps⟩, ?_⟩
            · simp [hrel.pv]
            · intro q hq
              simp only [Bool.false_eq_true, if_false, List.mem_append, List.mem_singleton] at hq
              rcases hq with (h | h) | h
              · exact hHs q (List.mem_append_left _ h)
              · rw [h]; exact hiall
              · exact hHs q (List.mem_append_right _ h)
          · cases hh
        | sload =>
          simp only [hk] at hh ⊢
          split at hh
          · rename_i hr; cases hh
            simp only [Bool.and_eq_true] at hr
            rw [hrel.reg_ok i, hr.1, hrel.mem_ok i _ hregq hr.2]
            refine ⟨_, rfl, ⟨hrel.pv, ?_⟩, ?_⟩
            · simp [hrel.ps]
            · intro q hq
              simp only [List.mem_append, List.mem_singleton] at hq
              rcases hq with h | h | h
              · exact hHs q (List.mem_append_left _ h)
              · exact hHs q (List.mem_append_right _ h)
              · rw [h]; exact hiall
          · cases hh
      obtain ⟨Hd', hdh, hrel', hHs'⟩ := hdyn
      have hes : ehstep P (E, Hd) = some (E', Hd') := by
        unfold ehstep
        simp only [hd, Bool.false_eq_true, if_false, hi, hdh, he, hne.1.2, if_true]
      simp only [List.length_cons, hazardFreeRun, hd, Bool.false_eq_true, if_false, hes]
      by_cases hk' : i.kind = .endpgm
      · exact hazardFreeRun_done _ _ (by simp [hd', hk'])
      · rcases hrest with hend | hsl'
        · exact absurd hend hk'
        · rw [← hpc' hnb] at hsl'
          exact ih E' Hs' Hd' (fun j hj => hsub j (List.mem_cons_of_mem _ hj)) hHs' hrel'
            (by simp [hd', hk']) hsl' hc hne.2

end C02.Wf
