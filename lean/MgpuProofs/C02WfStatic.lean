import MgpuProofs.C02WfStep
/-! The static hazard check implies the address-exact one (straight-line programs, one alias class). -/
namespace C02.Wf

variable {P : Prog}

/-- the dynamic state tracks a suffix of the vector accesses the static one tracks (an access without
    transactions retires everything older) and the same scalar loads; byte ranges are ignored -/
structure HRel (Hs Hd : HState) : Prop where
  pv : Hd.pv.map Prod.fst <:+ Hs.pv.map Prod.fst
  ps : Hd.ps.map Prod.fst = Hs.ps.map Prod.fst

theorem all_map_fst (l : List (Inst × Ranges)) (f : Inst → Bool) : l.all (fun q => f q.1) = (l.map Prod.fst).all f := by
  induction l with
  | nil => rfl
  | cons a as ih => simp [ih]

theorem HRel.sub {Hs Hd : HState} (h : HRel Hs Hd) : ∀ q ∈ (Hd.pv ++ Hd.ps).map Prod.fst,
    q ∈ (Hs.pv ++ Hs.ps).map Prod.fst := by
  intro q hq
  simp only [List.map_append, List.mem_append] at hq ⊢
  rcases hq with hq | hq
  · exact Or.inl (h.pv.subset hq)
  · exact Or.inr (h.ps ▸ hq)

theorem HRel.all_mono {Hs Hd : HState} (h : HRel Hs Hd) (f : Inst → Bool)
    (hs : (Hs.pv ++ Hs.ps).all (fun q => f q.1) = true) : (Hd.pv ++ Hd.ps).all (fun q => f q.1) = true := by
  rw [all_map_fst] at hs ⊢
  simp only [List.all_eq_true] at hs ⊢
  exact fun q hq => hs q (h.sub q hq)

theorem HRel.reg_ok {Hs Hd : HState} (h : HRel Hs Hd) (i : Inst) (hs : regOK Hs i = true) : regOK Hd i = true :=
  h.all_mono (fun q => !q.isLoad || disj (i.rd ++ i.wr) q.wr) hs

theorem HRel.mem_ok {Hs Hd : HState} (h : HRel Hs Hd) (i : Inst) (fp : Ranges)
    (hreg : ∀ q ∈ Hs.pv ++ Hs.ps, q.1.region = i.region) (hs : memOK true Hs i [] = true) :
    memOK false Hd i fp = true := by
  have h1 : (Hs.pv ++ Hs.ps).all (fun q => !(q.1.isStore || i.isStore)) = true := by
    simp only [memOK, if_true, List.all_eq_true] at hs ⊢
    intro q hq
    have := hs q hq
    have hr := hreg q hq
    simpa [hr] using this
  have h2 := h.all_mono (fun q => !(q.isStore || i.isStore)) h1
  simp only [memOK, List.all_eq_true] at h2 ⊢
  intro q hq
  simp [h2 q hq]

theorem suffix_drop_youngest {α : Type} (d s : List α) (n : Nat) (h : d <:+ s) :
    d.drop (d.length - n) <:+ s.drop (s.length - n) := by
  obtain ⟨t, rfl⟩ := h
  by_cases hn : d.length ≤ n
  · have h0 : d.length - n = 0 := by omega
    rw [h0, List.drop_zero]
    have hk : (t ++ d).length - n ≤ t.length := by simp; omega
    rw [List.drop_append_of_le_length hk]
    exact List.suffix_append _ _
  · have hk : (t ++ d).length - n = t.length + (d.length - n) := by simp; omega
    rw [hk, List.drop_append]
    have e1 : t.length + (d.length - n) - t.length = d.length - n := by omega
    rw [e1]
    exact List.suffix_append _ _

theorem HRel.after_wait {Hs Hd : HState} (h : HRel Hs Hd) (a b : Nat) : HRel (afterWait Hs a b) (afterWait Hd a b) := by
  unfold C02.Wf.afterWait
  by_cases hb : b = 0
  · simp only [hb, if_true]; exact ⟨List.suffix_refl _, rfl⟩
  · simp only [hb, if_false]
    refine ⟨?_, h.ps⟩
    show (Hd.pv.drop (Hd.pv.length - a)).map Prod.fst <:+ (Hs.pv.drop (Hs.pv.length - a)).map Prod.fst
    rw [List.map_drop, List.map_drop]
    have := suffix_drop_youngest _ _ a h.pv
    simpa using this

theorem estep_some {E : EState} {i : Inst} (hi : P.instAt E.pc = some i) (hd : E.done = false) :
    ∃ E', estep P E = some E' ∧ E'.done = decide (i.kind = .endpgm) ∧
      (i.kind ≠ .branch → E'.pc = pcAdd E.pc i.size) := by
  unfold estep
  rw [if_neg (by simp [hd])]
  simp only [hi]
  cases hk : i.kind <;> simp [hd]

theorem hazardFreeRun_done (n : Nat) (x : EState × HState) (h : x.1.done = true) : hazardFreeRun P n x = true := by
  cases n with
  | zero => exact h
  | succ n => simp [hazardFreeRun, h]

theorem static_sound_aux (hfix : P.oldCU = false) (all : List Inst)
    (hall : ∀ i ∈ all, ∀ j ∈ all, i.region = j.region) :
    ∀ (is : List Inst) (E : EState) (Hs Hd : HState), (∀ i ∈ is, i ∈ all) →
      (∀ q ∈ Hs.pv ++ Hs.ps, q.1 ∈ all) → HRel Hs Hd → E.done = false →
      StraightLine P E.pc is → hcheckFrom Hs is = true → accRun P is.length E = true →
      hazardFreeRun P is.length (E, Hd) = true := by
  intro is
  induction is with
  | nil => intro E Hs Hd _ _ _ _ hsl; exact hsl.elim
  | cons i rest ih =>
    intro E Hs Hd hsub hHs hrel hd hsl hc hne
    obtain ⟨hi, hnb, hrest⟩ := hsl
    obtain ⟨E', he, hd', hpc'⟩ := estep_some hi hd
    simp only [hcheckFrom] at hc
    cases hh : hstep true false Hs i [] false with
    | none => simp [hh] at hc
    | some Hs' =>
      simp only [hh] at hc
      simp only [List.length_cons, accRun, hd, Bool.false_eq_true, if_false, hi, he, Bool.and_eq_true] at hne
      have hiall := hsub i (List.mem_cons_self ..)
      have hregq : ∀ q ∈ Hs.pv ++ Hs.ps, q.1.region = i.region := fun q hq => hall _ (hHs q hq) _ hiall
      have hpush : ∀ q ∈ (Hs.pv ++ [(i, ([] : Ranges))]) ++ Hs.ps, q.1 ∈ all := by
        intro q hq
        simp only [List.mem_append, List.mem_singleton] at hq
        rcases hq with (h | h) | h
        · exact hHs q (List.mem_append_left _ h)
        · rw [h]; exact hiall
        · exact hHs q (List.mem_append_right _ h)
      -- the dynamic step
      have hdyn : ∃ Hd', hstep false P.oldCU Hd i (i.fpl E.regs) (i.noTxn E.regs) = some Hd' ∧ HRel Hs' Hd' ∧
          (∀ q ∈ Hs'.pv ++ Hs'.ps, q.1 ∈ all) := by
        rw [hfix]
        unfold hstep at hh ⊢
        cases hk : i.kind with
        | wait a b =>
          simp only [hk] at hh ⊢; cases hh
          refine ⟨_, rfl, hrel.after_wait a b, ?_⟩
          intro q hq
          apply hHs q
          unfold C02.Wf.afterWait at hq
          by_cases hb : b = 0
          · simp [hb] at hq
          · simp only [hb, if_false] at hq
            rcases List.mem_append.mp hq with h | h
            · exact List.mem_append_left _ (List.mem_of_mem_drop h)
            · exact List.mem_append_right _ h
        | endpgm =>
          simp only [hk] at hh ⊢; cases hh
          exact ⟨_, rfl, ⟨List.suffix_refl _, rfl⟩, by intro q hq; simp at hq⟩
        | nop =>
          simp only [hk] at hh ⊢; cases hh
          exact ⟨_, rfl, hrel, hHs⟩
        | alu u =>
          simp only [hk] at hh ⊢
          split at hh
          · rename_i hr; cases hh
            rw [hrel.reg_ok i hr]
            exact ⟨_, rfl, hrel, hHs⟩
          · cases hh
        | branch => exact absurd hk hnb
        | vload =>
          simp only [hk] at hh ⊢
          split at hh
          · rename_i hr; cases hh
            simp only [Bool.and_eq_true] at hr
            rw [hrel.reg_ok i hr.1, hrel.mem_ok i _ hregq hr.2]
            refine ⟨_, rfl, ⟨?_, ?_⟩, hpush⟩
            · cases i.noTxn E.regs
              · simp only [Bool.false_eq_true, if_false, List.map_append, List.map_cons, List.map_nil]
                obtain ⟨t, ht⟩ := hrel.pv
                exact ⟨t, by rw [← ht]; simp⟩
              · simp
            · cases i.noTxn E.regs <;> simp [hrel.ps]
          · cases hh
        | vstore =>
          simp only [hk] at hh ⊢
          split at hh
          · rename_i hr; cases hh
            simp only [Bool.and_eq_true] at hr
            rw [hrel.reg_ok i hr.1, hrel.mem_ok i _ hregq hr.2]
            refine ⟨_, rfl, ⟨?_, ?_⟩, hpush⟩
            · cases i.noTxn E.regs
              · simp only [Bool.false_eq_true, if_false, List.map_append, List.map_cons, List.map_nil]
                obtain ⟨t, ht⟩ := hrel.pv
                exact ⟨t, by rw [← ht]; simp⟩
              · simp
            · cases i.noTxn E.regs <;> simp [hrel.ps]
          · cases hh
        | sload =>
          simp only [hk] at hh ⊢
          split at hh
          · rename_i hr; cases hh
            simp only [Bool.and_eq_true] at hr
            rw [hrel.reg_ok i hr.1, hrel.mem_ok i _ hregq hr.2]
            refine ⟨_, rfl, ⟨hrel.pv, ?_⟩, ?_⟩
            · simp [hrel.ps]
            · intro q hq
              simp only [List.mem_append, List.mem_singleton] at hq
              rcases hq with h | h | h
              · exact hHs q (List.mem_append_left _ h)
              · exact hHs q (List.mem_append_right _ h)
              · rw [h]; exact hiall
          · cases hh
      obtain ⟨Hd', hdh, hrel', hHs'⟩ := hdyn
      have hes : ehstep P (E, Hd) = some (E', Hd') := by
        unfold ehstep
        simp only [hd, Bool.false_eq_true, if_false, hi, hdh, he, hne.1, if_true]
      simp only [List.length_cons, hazardFreeRun, hd, Bool.false_eq_true, if_false, hes]
      by_cases hk' : i.kind = .endpgm
      · exact hazardFreeRun_done _ _ (by simp [hd', hk'])
      · rcases hrest with hend | hsl'
        · exact absurd hend hk'
        · rw [← hpc' hnb] at hsl'
          exact ih E' Hs' Hd' (fun j hj => hsub j (List.mem_cons_of_mem _ hj)) hHs' hrel'
            (by simp [hd', hk']) hsl' hc hne.2

end C02.Wf
