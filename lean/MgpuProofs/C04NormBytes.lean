import MgpuProofs.C04NormDisp
/-! Byte-level plumbing for the converse direction. -/
namespace C04
open Gen
set_option linter.unusedSimpArgs false
set_option linter.unusedVariables false

def BytesOK (b : List Nat) : Prop := ∀ x ∈ b, x < 256

theorem encode_eq_bytesOf (d : Desc) : encode d = bytesOf (encWord d, encSecond d) := rfl

theorem getD_lt {b : List Nat} (hb : BytesOK b) (k : Nat) : b.getD k 0 < 256 := by
  rw [List.getD_eq_getElem?_getD]
  cases h : b[k]? with
  | none => simp
  | some x => simp only [Option.getD_some]; exact hb x (List.mem_of_getElem? h)

theorem le32_lt {b : List Nat} (hb : BytesOK b) (off : Nat) : le32 b off < 2 ^ 32 := by
  unfold le32
  have := getD_lt hb off
  have := getD_lt hb (off + 1)
  have := getD_lt hb (off + 2)
  have := getD_lt hb (off + 3)
  omega

theorem decode_wordsOf (c : Bool) (b : List Nat) (h4 : 4 ≤ b.length) :
    decode c b = decodeCore (lookUpArch c) c (wordsOf b).1 (wordsOf b).2 := by
  unfold decode decodeWith wordsOf
  have : ¬ b.length < 4 := by omega
  simp only [this, if_false]

theorem wordsOf_bounds {b : List Nat} (hb : BytesOK b) :
    (wordsOf b).1 < 2 ^ 32 ∧ ∀ w1, (wordsOf b).2 = some w1 → w1 < 2 ^ 32 := by
  refine ⟨le32_lt hb 0, ?_⟩
  intro w1 h
  unfold wordsOf at h
  simp only [] at h
  split at h
  · injection h with h; subst h; exact le32_lt hb 4
  · simp at h

theorem decode_bytesOf (c : Bool) (p : Nat × Option Nat) (h0 : p.1 < 2 ^ 32) (h1 : ∀ l, p.2 = some l → l < 2 ^ 32) :
    decode c (bytesOf p) = decodeCore (lookUpArch c) c p.1 p.2 := by
  obtain ⟨w0, w1?⟩ := p
  unfold bytesOf
  rw [decode_bytes32 c w0 h0]
  cases w1? with
  | none => simp [second]
  | some l =>
    simp only []
    have := second_bytes32 l (h1 l rfl) []
    rw [List.append_nil] at this
    rw [this]

theorem normCore_bounds (c : Bool) (w0 : Nat) (w1? : Option Nat) (hw0 : w0 < 2 ^ 32)
    (hw1 : ∀ w1, w1? = some w1 → w1 < 2 ^ 32) :
    (normCore c w0 w1?).1 < 2 ^ 32 ∧ ∀ l, (normCore c w0 w1?).2 = some l → l < 2 ^ 32 := by
  unfold normCore
  cases hm : matchFormat w0 with
  | none => exact ⟨hw0, hw1⟩
  | some f =>
    simp only []
    cases hl : lookUpArch c f.ft (extractBits w0 f.opLo f.opHi) with
    | none => exact ⟨hw0, hw1⟩
    | some row =>
      simp only []
      by_cases h13 : ft13.contains f.ft = true
      · simp only [h13, if_true]
        refine ⟨(norm_dispatch c f row w0 w1? hm h13 hw0).1, ?_⟩
        intro l hl'
        obtain ⟨w1, e, hle⟩ := normRow_snd_le c f.ft row w0 w1? l hl'
        exact Nat.lt_of_le_of_lt hle (hw1 w1 e)
      · simp only [h13]
        exact ⟨hw0, hw1⟩

/-- row-level "iff": two word pairs under the same (format, row), both decoded successfully, give the same
    instruction exactly when their canonical forms coincide -/
theorem ignored_bits_row (c : Bool) (f : Format) (row : Row) (w0 w0' : Nat) (w1? w1'? : Option Nat) (i i' : Inst)
    (hfm : f ∈ formats) (h13 : ft13.contains f.ft = true)
    (hw0 : w0 < 2 ^ 32) (hw1 : ∀ w1, w1? = some w1 → w1 < 2 ^ 32)
    (hw0' : w0' < 2 ^ 32) (hw1' : ∀ w1, w1'? = some w1 → w1 < 2 ^ 32)
    (hhit : w0 / 2 ^ shiftOf f = f.encoding / 2 ^ shiftOf f) (hop : extractBits w0 f.opLo f.opHi = row.opcode)
    (hhit' : w0' / 2 ^ shiftOf f = f.encoding / 2 ^ shiftOf f) (hop' : extractBits w0' f.opLo f.opHi = row.opcode)
    (h : decodeRow c f row w0 w1? = .ok i) (h' : decodeRow c f row w0' w1'? = .ok i') :
    i = i' ↔ normRow c f.ft row w0 w1? = normRow c f.ft row w0' w1'? := by
  constructor
  · intro e
    subst e
    obtain ⟨a1, a2⟩ := desc_row c f row w0 w1? i hfm h13 hw0 hw1 hhit hop h
    obtain ⟨b1, b2⟩ := desc_row c f row w0' w1'? i hfm h13 hw0' hw1' hhit' hop' h'
    exact Prod.ext (a1.symm.trans b1) (a2.symm.trans b2)
  · intro e
    have a := norm_row c f row w0 w1? hfm h13 hw0 hw1
    have b := norm_row c f row w0' w1'? hfm h13 hw0' hw1'
    rw [e, b, h'] at a
    rw [h] at a
    injection a with a
    exact a.symm

end C04
