import MgpuProofs.C18SysHist
/-! C18 system level, part 3a: the node-local history invariant `NodeHist` holds initially and is
kept by every move of the closed system. -/
namespace C18

theorem nodeHist_init (b : Nat) (c : Cfg) : NodeHist b { cfg := c } := by
  constructor <;> simp

/-- updating node `i`: the node history invariants (the index is kept) -/
theorem nodeHist_set {y : Sys} {i : Nat} {nd' : Node} {ns : List Node}
    (h : ∀ (b : Nat) (B : Node), y.nodes[b]? = some B → NodeHist b B) (hn : NodeHist i nd')
    (hs : ns = y.nodes.set i nd') : ∀ (b : Nat) (B : Node), ns[b]? = some B → NodeHist b B := by
  intro b B hb
  subst hs
  rcases getElem?_set' hb with ⟨h1, h2, _⟩ | ⟨_, h2⟩
  · subst h1; subst h2; exact hn
  · exact h b B h2

/-- a move that changes only the engine state of a node, as an engine step may (`ChHist`, no
    request id consumed), keeps the node history invariant -/
theorem nodeHist_st {b : Nat} {A B : Node} (h : NodeHist b A)
    (hio : ChHist A.s.io B.s.io) (hoi : ChHist A.s.oi B.s.oi) (hn : B.s.oi.nextA = A.s.oi.nextA)
    (e1 : B.sent = A.sent) (e2 : B.got = A.got) (e3 : B.namesAll = A.namesAll) (e4 : B.l2all = A.l2all)
    (e5 : B.l2 = A.l2) (e6 : B.l2done = A.l2done) (e7 : B.outAll = A.outAll) (e8 : B.names = A.names) :
    NodeHist b B := by
  constructor
  · intro q; have := h.sent q; have := hio.fwIn q; rw [e1]; omega
  · intro o; have := h.got o; have := hio.anOut o; rw [e2]; omega
  · intro q; have := h.names q; have := hoi.fwIn q; rw [e3]; omega
  · intro c; have := h.l2all c; have := hoi.fwOut c; rw [e4]; omega
  · rw [e5, e4]; exact h.l2sub
  · rw [e6, e4]; exact h.doneSub
  · rw [hoi.del, e6]; exact h.del
  · intro o; have := h.out o; have := hoi.anOut o; rw [e7]; omega
  · rw [e7, e3]; exact h.outName
  · rw [e8, e3]; exact h.namesSub
  · rw [e3, hn]; exact h.allLt
  · rw [e3]; exact h.allNodup
  · rw [e3]; exact h.allDst

theorem nodeHist_step (y : Sys) (o : SOp) (hs : SInv y)
    (h : ∀ (b : Nat) (B : Node), y.nodes[b]? = some B → NodeHist b B) :
    ∀ (b : Nat) (B : Node), (sstep y o).nodes[b]? = some B → NodeHist b B := by
  cases o with
  | issue a src pl =>
    simp only [sstep, setNode]
    split
    · exact h
    · next A hA =>
      split
      · next hsp =>
        have hA' := h a A hA
        refine nodeHist_set h ?_ rfl
        refine { sent := ?_, got := ?_, names := hA'.names, l2all := hA'.l2all, l2sub := hA'.l2sub,
                 doneSub := hA'.doneSub, del := hA'.del, out := hA'.out, outName := hA'.outName,
                 namesSub := hA'.namesSub, allLt := hA'.allLt, allNodup := hA'.allNodup, allDst := hA'.allDst }
        · intro q
          have := hA'.sent q
          simp only [step, deliverReq, hsp, if_true, List.count_cons, List.count_append, List.count_nil] at this ⊢
          omega
        · intro x
          simp only [step, deliverReq, hsp, if_true]
          exact hA'.got x
      · exact h
  | ctl a k =>
    simp only [sstep, setNode]
    split
    · exact h
    · next A hA =>
      have hc := step_ctl_io A.cfg A.s k
      refine nodeHist_set h ?_ rfl
      refine nodeHist_st (h a A hA) ?_ ?_ ?_ rfl rfl rfl rfl rfl rfl rfl rfl
      · dsimp only; rw [hc.1]; exact ChHist.refl _
      · dsimp only; rw [hc.2]; exact ChHist.refl _
      · dsimp only; rw [hc.2]
  | tick a =>
    simp only [sstep, setNode]
    split
    · exact h
    · next A hA =>
      have hr := stRel_tick A.cfg A.s
      refine nodeHist_set h ?_ rfl
      exact nodeHist_st (h a A hA) hr.2.1 hr.2.2 hr.1.2.nextA rfl rfl rfl rfl rfl rfl rfl rfl
  | sendQ a =>
    simp only [sstep]
    split
    · exact h
    · next A hA =>
      split
      · exact h
      · next q rest hq =>
        have hA' := h a A hA
        refine nodeHist_set h ?_ rfl
        exact { sent := hA'.sent, got := hA'.got, names := hA'.names, l2all := hA'.l2all, l2sub := hA'.l2sub,
                doneSub := hA'.doneSub, del := hA'.del, out := hA'.out, outName := hA'.outName,
                namesSub := hA'.namesSub, allLt := hA'.allLt, allNodup := hA'.allNodup, allDst := hA'.allDst }
  | delivQ j =>
    simp only [sstep]
    split
    · exact h
    · next m hm =>
      split
      · exact h
      · next B hB =>
        split
        · next hsp =>
          have hB' := h _ B hB
          refine nodeHist_set h ?_ rfl
          refine { sent := hB'.sent, got := hB'.got, names := ?_, l2all := ?_, l2sub := hB'.l2sub,
                   doneSub := hB'.doneSub, del := ?_, out := ?_, outName := ?_,
                   namesSub := ?_, allLt := ?_, allNodup := ?_, allDst := ?_ }
          · intro q
            have := hB'.names q
            simp only [step, deliverReq, hsp, if_true, nameReq, List.map_cons, List.count_cons, List.count_append,
              List.count_nil] at this ⊢
            omega
          · intro c
            simp only [step, deliverReq, hsp, if_true]
            exact hB'.l2all c
          · simp only [step, deliverReq, hsp, if_true]
            exact hB'.del
          · intro x
            simp only [step, deliverReq, hsp, if_true]
            exact hB'.out x
          · intro m' hm'
            obtain ⟨h1, n, hn, h2⟩ := hB'.outName m' hm'
            exact ⟨h1, n, List.mem_cons_of_mem _ hn, h2⟩
          · intro x hx
            rcases List.mem_cons.mp hx with e | hx
            · rw [e]; exact List.mem_cons_self
            · exact List.mem_cons_of_mem _ (hB'.namesSub x hx)
          · intro x hx
            simp only [step, deliverReq, hsp, if_true]
            rcases List.mem_cons.mp hx with e | hx
            · rw [e]; exact Nat.lt_succ_self _
            · exact Nat.lt_succ_of_lt (hB'.allLt x hx)
          · simp only [List.map_cons, List.nodup_cons]
            refine ⟨?_, hB'.allNodup⟩
            intro hmem
            obtain ⟨x, hx, he⟩ := List.mem_map.mp hmem
            have := hB'.allLt x hx
            omega
          · intro x hx
            rcases List.mem_cons.mp hx with e | hx
            · rw [e]
            · exact hB'.allDst x hx
        · exact h
  | l2take b =>
    simp only [sstep, setNode]
    split
    · exact h
    · next B hB =>
      split
      · exact h
      · next q rest hq =>
        have hB' := h b B hB
        refine nodeHist_set h ?_ rfl
        refine { sent := hB'.sent, got := hB'.got, names := hB'.names, l2all := ?_, l2sub := ?_,
                 doneSub := ?_, del := hB'.del, out := hB'.out, outName := hB'.outName,
                 namesSub := hB'.namesSub, allLt := hB'.allLt, allNodup := hB'.allNodup, allDst := hB'.allDst }
        · intro c
          have := hB'.l2all c
          simp only [step, hq, List.tail_cons, List.count_cons] at this ⊢
          omega
        · intro c hc
          rcases List.mem_append.mp hc with hc | hc
          · exact List.mem_cons_of_mem _ (hB'.l2sub c hc)
          · rw [List.mem_singleton.mp hc]; exact List.mem_cons_self
        · intro p hp
          exact List.mem_cons_of_mem _ (hB'.doneSub p hp)
  | l2ans b j d =>
    simp only [sstep, setNode]
    split
    · exact h
    · next B hB =>
      split
      · exact h
      · next q hq =>
        split
        · next hsp =>
          have hB' := h b B hB
          refine nodeHist_set h ?_ rfl
          refine { sent := hB'.sent, got := hB'.got, names := ?_, l2all := ?_, l2sub := ?_,
                   doneSub := ?_, del := ?_, out := ?_, outName := hB'.outName,
                   namesSub := hB'.namesSub, allLt := ?_, allNodup := hB'.allNodup, allDst := hB'.allDst }
          · intro x
            simp only [step, deliverRsp, hsp, if_true]
            exact hB'.names x
          · intro c
            simp only [step, deliverRsp, hsp, if_true]
            exact hB'.l2all c
          · intro c hc
            exact hB'.l2sub c (mem_eraseIdx' hc)
          · intro p hp
            rcases List.mem_cons.mp hp with e | hp
            · rw [e]; exact hB'.l2sub q (List.mem_of_getElem? hq)
            · exact hB'.doneSub p hp
          · simp only [step, deliverRsp, hsp, if_true, List.map_cons, hB'.del]
            rfl
          · intro x
            simp only [step, deliverRsp, hsp, if_true]
            exact hB'.out x
          · intro x hx
            simp only [step, deliverRsp, hsp, if_true]
            exact hB'.allLt x hx
        · exact h
  | sendR b =>
    simp only [sstep]
    split
    · exact h
    · next B hB =>
      split
      · exact h
      · next o rest ho =>
        split
        · exact h
        · next nm r ht =>
          have hB' := h b B hB
          have hp := takeName_perm ht
          have hdst := sendR_name (hs.node b B hB) ho ht
          have hnm : nm ∈ B.names := hp.1.mem_iff.mpr List.mem_cons_self
          have he : outOfNRsp ⟨o.dst, nm.c.fid, o.data, b, o.rspTo⟩ = o := rfl
          refine nodeHist_set h ?_ rfl
          refine { sent := hB'.sent, got := hB'.got, names := hB'.names, l2all := hB'.l2all, l2sub := hB'.l2sub,
                   doneSub := hB'.doneSub, del := hB'.del, out := ?_, outName := ?_,
                   namesSub := ?_, allLt := hB'.allLt, allNodup := hB'.allNodup, allDst := hB'.allDst }
          · intro x
            have := hB'.out x
            simp only [step, ho, List.tail_cons, List.map_cons, List.count_cons, he] at this ⊢
            omega
          · intro m' hm'
            rcases List.mem_cons.mp hm' with e | hm'
            · rw [e]
              exact ⟨rfl, nm, hB'.namesSub nm hnm, hp.2, rfl, hdst⟩
            · exact hB'.outName m' hm'
          · intro x hx
            exact hB'.namesSub x (hp.1.mem_iff.mpr (List.mem_cons_of_mem _ hx))
  | delivR j =>
    simp only [sstep]
    split
    · exact h
    · next m hm =>
      split
      · exact h
      · next A hA =>
        split
        · next hsp =>
          have hA' := h _ A hA
          refine nodeHist_set h ?_ rfl
          refine { sent := ?_, got := ?_, names := hA'.names, l2all := hA'.l2all, l2sub := hA'.l2sub,
                   doneSub := hA'.doneSub, del := hA'.del, out := hA'.out, outName := hA'.outName,
                   namesSub := hA'.namesSub, allLt := hA'.allLt, allNodup := hA'.allNodup, allDst := hA'.allDst }
          · intro q
            simp only [step, deliverRsp, hsp, if_true]
            exact hA'.sent q
          · intro x
            simp only [step, deliverRsp, hsp, if_true]
            exact hA'.got x
        · exact h
  | l1take a =>
    simp only [sstep, setNode]
    split
    · exact h
    · next A hA =>
      split
      · exact h
      · next o rest ho =>
        have hA' := h a A hA
        refine nodeHist_set h ?_ rfl
        refine { sent := hA'.sent, got := ?_, names := hA'.names, l2all := hA'.l2all, l2sub := hA'.l2sub,
                 doneSub := hA'.doneSub, del := hA'.del, out := hA'.out, outName := hA'.outName,
                 namesSub := hA'.namesSub, allLt := hA'.allLt, allNodup := hA'.allNodup, allDst := hA'.allDst }
        intro x
        have := hA'.got x
        simp only [step, ho, List.tail_cons, List.count_cons] at this ⊢
        omega
  | ctake a =>
    simp only [sstep, setNode]
    split
    · exact h
    · next A hA =>
      split
      · exact h
      · next x rest hx =>
        refine nodeHist_set h ?_ rfl
        exact nodeHist_st (h a A hA) (ChHist.refl _) (ChHist.refl _) rfl rfl rfl rfl rfl rfl rfl rfl rfl

end C18
