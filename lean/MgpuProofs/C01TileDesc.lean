import MgpuProofs.C01TileInit
/-! # C01 — `WGDesc` from per-wavefront phase descriptions with the canonical write lists

`TT.WGDesc` asks for write-list functions on wavefronts whose concatenations are `lwAll` / `wrAll`.  For the real
wavefronts of a work-group (`transpose_wave_init`) these exist canonically: wavefront `k` is recognised by the local
id y of its lane 0 (`v1 = 4 k`), and gets `lwWave … k` / `wrWave … k`.  So what remains to be shown of the shipped
code is, per wavefront `k < 4` of every work-group, `Phase1 … (lwWave T f0 k)` and `Phase2 … (wrWave T L k)`. -/
set_option linter.unusedSimpArgs false
set_option maxRecDepth 100000
namespace C01
namespace Emu
namespace TT
open C03V (St)

/-- wavefront `k` of the `n`-th work-group as `initWfs` builds it -/
def waveT (D : Dispatch) (nb n k : Nat) : Wave := initWave D (wgT nb n) ⟨64 * k, fullMask, 64⟩

/-- which wavefront of its work-group this is: local id y of lane 0, divided by 4 -/
def waveIdx (w : Wave) : Nat := w.st.rv 1 0 / 4

theorem waveIdx_waveT (D : Dispatch) (nb n k : Nat) (hgeo : D.geo = geoT nb) (hv5 : D.v5 = false) (hwi : D.vgprWI = 1)
    (hk : k < 4) : waveIdx (waveT D nb n k) = k := by
  unfold waveIdx waveT
  rw [(initWave_ids D nb hgeo hv5 hwi (wgT nb n) k 0 hk (by omega)).2.1]
  omega

theorem flatMap_waves (D : Dispatch) (nb n : Nat) (hgeo : D.geo = geoT nb) (hv5 : D.v5 = false) (hwi : D.vgprWI = 1)
    (F : Nat → List (Nat × Nat)) :
    (wavesOf D (wgT nb n)).flatMap (fun w => F (waveIdx w)) = (List.range 4).flatMap F := by
  rw [wavesOf_geoT D nb n hgeo, flatMap_map']
  apply flatMap_congr'
  intro k hk
  show F (waveIdx (waveT D nb n k)) = F k
  rw [waveIdx_waveT D nb n k hgeo hv5 hwi (List.mem_range.mp hk)]

/-- the remaining obligation, wavefront by wavefront: `WGDesc` follows from `Phase1` / `Phase2` of the four
    wavefronts with the canonical lists `lwWave` / `wrWave` -/
theorem wgDesc_of_phases (P : Program) (D : Dispatch) (fuel : Nat) (Ok : Mem → Prop) (inp out nb : Nat) (f0 : Nat → Nat) (n : Nat)
    (hgeo : D.geo = geoT nb) (hv5 : D.v5 = false) (hwi : D.vgprWI = 1) (Q : Nat → Wave → Prop)
    (h1 : ∀ k, k < 4 → Phase1 P D.kernelObject fuel Ok (waveT D nb n k) (lwWave (gridTile inp out nb n) f0 k) (Q k))
    (h2 : ∀ k, k < 4 → ∀ w1, Q k w1 → w1.completed = false →
      Phase2 P D.kernelObject fuel Ok (applyWrites (lwAll (gridTile inp out nb n) f0) (fun _ => 0))
        { w1 with atBarrier := false }
        (wrWave (gridTile inp out nb n) (applyWrites (lwAll (gridTile inp out nb n) f0) (fun _ => 0)) k)) :
    WGDesc P D fuel Ok inp out nb f0 n := by
  refine ⟨fun w => lwWave (gridTile inp out nb n) f0 (waveIdx w),
    fun w => wrWave (gridTile inp out nb n) (applyWrites (lwAll (gridTile inp out nb n) f0) (fun _ => 0)) (waveIdx w),
    fun w w1 => Q (waveIdx w) w1, ?_, ?_, ?_, ?_, ?_⟩
  · rw [wavesOf_geoT D nb n hgeo]
    exact fun h => by cases h
  · exact flatMap_waves D nb n hgeo hv5 hwi _
  · exact flatMap_waves D nb n hgeo hv5 hwi _
  · intro w hw
    rw [wavesOf_geoT D nb n hgeo] at hw
    obtain ⟨k, hk, rfl⟩ := List.mem_map.mp hw
    have hk' : k < 4 := List.mem_range.mp hk
    show Phase1 P D.kernelObject fuel Ok (waveT D nb n k) (lwWave _ f0 (waveIdx (waveT D nb n k))) (Q (waveIdx (waveT D nb n k)))
    rw [waveIdx_waveT D nb n k hgeo hv5 hwi hk']
    exact h1 k hk'
  · intro w hw w1 hq hc
    rw [wavesOf_geoT D nb n hgeo] at hw
    obtain ⟨k, hk, rfl⟩ := List.mem_map.mp hw
    have hk' : k < 4 := List.mem_range.mp hk
    have hq' : Q (waveIdx (waveT D nb n k)) w1 := hq
    show Phase2 P D.kernelObject fuel Ok _ _ (wrWave _ _ (waveIdx (waveT D nb n k)))
    rw [waveIdx_waveT D nb n k hgeo hv5 hwi hk'] at hq' ⊢
    exact h2 k hk' w1 hq' hc

/-- the grid statement from the per-wavefront obligations -/
theorem runE_transpose_of_phases (P : Program) (D : Dispatch) (nb : Nat) (hnb : 0 < nb) (hgeo : D.geo = geoT nb)
    (hv5 : D.v5 = false) (hwi : D.vgprWI = 1) (inp out r : Nat) (f0 : Nat → Nat) (Ok : Mem → Prop)
    (Q : Nat → Nat → Wave → Prop)
    (h1 : ∀ n k, n < nb * nb → k < 4 →
      Phase1 P D.kernelObject (r + 2) Ok (waveT D nb n k) (lwWave (gridTile inp out nb n) f0 k) (Q n k))
    (h2 : ∀ n k, n < nb * nb → k < 4 → ∀ w1, Q n k w1 → w1.completed = false →
      Phase2 P D.kernelObject (r + 2) Ok (applyWrites (lwAll (gridTile inp out nb n) f0) (fun _ => 0))
        { w1 with atBarrier := false }
        (wrWave (gridTile inp out nb n) (applyWrites (lwAll (gridTile inp out nb n) f0) (fun _ => 0)) k))
    (m : Mem) (hok : Ok (install D.packetAddr D.packet (install D.kernargAddr D.kernarg m))) :
    ∃ m', runE P D (r + 2) m = .ok m' ∧ Ok m' ∧
      (∀ Rg Cg b, Rg < 64 * nb → Cg < 64 * nb → b < 4 →
        get m' (out + 4 * (64 * nb * Rg + Cg) + b) = f0 (inp + 4 * (64 * nb * Cg + Rg) + b)) ∧
      (∀ a, (a < out ∨ out + 4 * (64 * nb * (64 * nb)) ≤ a) →
        get m' a = get (install D.packetAddr D.packet (install D.kernargAddr D.kernarg m)) a) :=
  runE_transpose P D nb hnb hgeo inp out r f0 Ok
    (fun n hn => wgDesc_of_phases P D (r + 2) Ok inp out nb f0 n hgeo hv5 hwi (Q n)
      (fun k hk => h1 n k hn hk) (fun k hk => h2 n k hn hk)) m hok

end TT
end Emu
end C01
