import MgpuProofs.C16Epoch
/-! # C16 — width 0, and liveness under a fair schedule

* `W0`: with `numReqPerCycle = 0` every port buffer of the translator has capacity 0; nothing but the
  control port ever holds anything. With it the hypothesis `0 < c.width` of the sleep invariant and of
  "never stuck" disappears (`reach_quiet'`, `stuck_free'`).
* `hstep_dichotomy`: a move of the component or of an honest neighbour either strictly decreases the
  lexicographic measure (`wmu`, awake) or changes nothing at all.
* `fair_settles`: along every infinite schedule of such moves in which each kind of move (tick,
  translation reply, memory response, the four retrievals) recurs for ever, the world becomes settled. -/
namespace C16

/-! ## width 0 -/

structure W0 (w : CW) : Prop where
  topIn : w.s.topIn = []
  botIn : w.s.botIn = []
  trIn : w.s.trIn = []
  topOut : w.s.topOut = []
  botOut : w.s.botOut = []
  trOut : w.s.trOut = []
  txs : w.s.txs = []
  infl : w.s.infl = []
  envT : w.envT = []
  envM : w.envM = []
  recv : w.s.received = []
  q : w.awake = false → ctlQ w.s

theorem pipe_w0 (c : Cfg) (s : St) (h0 : c.width = 0) : pipe c s = (s, false) := by
  unfold pipe runPipeline
  rw [h0]
  split <;> rfl

theorem tick_w0 (c : Cfg) (s : St) (h0 : c.width = 0) :
    tick c s = ((handleCtrl s).1, (handleCtrl s).2) := by
  rw [tick_eq, pipe_w0 c s h0]
  simp

theorem w0_step (c : Cfg) (e : Env) (w : CW) (o : HOp) (h0 : c.width = 0) (hw : WInv c e w)
    (hb : BInv c w.s) (h : W0 w) : W0 (hstep c e w o) := by
  cases o with
  | access pid va pl =>
    have hnl : ¬ w.s.topIn.length < c.width := by omega
    simp only [hstep, step, hnl, if_false]
    refine ⟨h.topIn, h.botIn, h.trIn, h.topOut, h.botOut, h.trOut, h.txs, h.infl, h.envT, h.envM, h.recv, ?_⟩
    intro ha
    simp only [Bool.or_eq_false_iff] at ha
    exact h.q ha.1
  | tick =>
    simp only [hstep]
    split
    · rw [tick_w0 c w.s h0]
      have key : (handleCtrl w.s).1.topIn = [] ∧ (handleCtrl w.s).1.botIn = [] ∧ (handleCtrl w.s).1.trIn = [] ∧
          (handleCtrl w.s).1.topOut = [] ∧ (handleCtrl w.s).1.botOut = [] ∧ (handleCtrl w.s).1.trOut = [] ∧
          (handleCtrl w.s).1.txs = [] ∧ (handleCtrl w.s).1.infl = [] ∧ (handleCtrl w.s).1.received = [] := by
        unfold handleCtrl
        split
        · exact ⟨h.topIn, h.botIn, h.trIn, h.topOut, h.botOut, h.trOut, h.txs, h.infl, h.recv⟩
        · split
          · exact ⟨h.topIn, h.botIn, h.trIn, h.topOut, h.botOut, h.trOut, rfl, rfl, h.recv⟩
          · exact ⟨h.topIn, h.botIn, h.trIn, h.topOut, h.botOut, h.trOut, h.txs, h.infl, h.recv⟩
        · split
          · exact ⟨rfl, rfl, rfl, h.topOut, h.botOut, h.trOut, h.txs, h.infl, h.recv⟩
          · exact ⟨h.topIn, h.botIn, h.trIn, h.topOut, h.botOut, h.trOut, h.txs, h.infl, h.recv⟩
        · exact ⟨h.topIn, h.botIn, h.trIn, h.topOut, h.botOut, h.trOut, h.txs, h.infl, h.recv⟩
      obtain ⟨k1, k2, k3, k4, k5, k6, k7, k8, k9⟩ := key
      refine ⟨k1, k2, k3, k4, k5, k6, k7, k8, h.envT, h.envM, k9, ?_⟩
      intro ha
      have := ctl_false w.s hw.noBad ha
      show ctlQ (handleCtrl w.s).1
      rw [this.1]; exact this.2
    · exact h
  | ansT j => simp only [hstep, h.envT]; exact h
  | ansM j => simp only [hstep, h.envM]; exact h
  | drainTop => simp only [hstep, h.topOut]; exact h
  | drainBot => simp only [hstep, h.botOut]; exact h
  | drainTr => simp only [hstep, h.trOut]; exact h
  | drainCtl =>
    simp only [hstep]
    split
    · rename_i hpos
      have := hb.ctlO
      have h1 : w.s.ctlOut = 1 := by omega
      refine ⟨h.topIn, h.botIn, h.trIn, h.topOut, h.botOut, h.trOut, h.txs, h.infl, h.envT, h.envM, h.recv, ?_⟩
      intro ha
      simp [h1] at ha
    · exact h
  | flush =>
    simp only [hstep, step]
    split
    · rename_i hlt
      refine ⟨h.topIn, h.botIn, h.trIn, h.topOut, h.botOut, h.trOut, h.txs, h.infl, h.envT, h.envM, h.recv, ?_⟩
      intro ha
      have : w.s.ctlIn = [] := List.eq_nil_of_length_eq_zero (by omega)
      simp [this] at ha
    · refine ⟨h.topIn, h.botIn, h.trIn, h.topOut, h.botOut, h.trOut, h.txs, h.infl, h.envT, h.envM, h.recv, ?_⟩
      intro ha
      simp only [Bool.or_eq_false_iff] at ha
      exact h.q ha.1
  | restart =>
    simp only [hstep]
    split
    · simp only [step]
      split
      · rename_i hlt
        refine ⟨h.topIn, h.botIn, h.trIn, h.topOut, h.botOut, h.trOut, h.txs, h.infl, h.envT, h.envM, h.recv, ?_⟩
        intro ha
        have : w.s.ctlIn = [] := List.eq_nil_of_length_eq_zero (by omega)
        simp [this] at ha
      · refine ⟨h.topIn, h.botIn, h.trIn, h.topOut, h.botOut, h.trOut, h.txs, h.infl, h.envT, h.envM, h.recv, ?_⟩
        intro ha
        simp only [Bool.or_eq_false_iff] at ha
        exact h.q ha.1
    · exact h

theorem w0_init : W0 {} :=
  ⟨rfl, rfl, rfl, rfl, rfl, rfl, rfl, rfl, rfl, rfl, rfl, fun _ => Or.inl rfl⟩

theorem reach_w0 {c : Cfg} {e : Env} {w : CW} (h0 : c.width = 0) (h : Reach c e w) : W0 w := by
  induction h with
  | init => exact w0_init
  | step w o hr ih =>
    obtain ⟨ops, hops⟩ := reach_run hr
    exact w0_step c e w o h0 (reach_winv hr) (hops ▸ run_binv c ops) ih

theorem quiet_of_w0 (c : Cfg) {w : CW} (h : W0 w) (ha : w.awake = false) : Quiet c w.s := by
  refine ⟨fun _ => ?_, ?_, fun _ => ?_, h.q ha⟩
  · unfold respondQ; rw [h.botIn]; trivial
  · unfold parseQ; rw [h.txs]; exact h.trIn
  · unfold translateQ; rw [h.topIn]; trivial

/-- the sleep invariant for every width, 0 included -/
theorem reach_quiet' {c : Cfg} {e : Env} {w : CW} (h : Reach c e w) : w.awake = false → Quiet c w.s := by
  by_cases hw : 0 < c.width
  · exact reach_quiet hw h
  · exact quiet_of_w0 c (reach_w0 (by omega) h)

/-- all accepted accesses are answered, the control handshake is complete and nothing is left in any
    outgoing buffer; unless a flush awaits its restart nothing at all is left anywhere -/
def SettledC (w : CW) : Prop :=
  Settled w ∧ w.s.ctlIn = [] ∧ w.s.ctlOut = 0 ∧ w.s.topOut = [] ∧ w.s.botOut = [] ∧ w.s.trOut = []

theorem stuck_free_w0 {c : Cfg} {e : Env} {w : CW} (h0 : c.width = 0) (hr : Reach c e w) :
    SettledC w ∨ ∃ o, Productive c e w o := by
  have h := reach_w0 h0 hr
  have hw := reach_winv hr
  by_cases h4 : w.s.ctlOut = 0
  case neg => exact Or.inr ⟨_, prod_drainCtl c e w (by omega)⟩
  by_cases h5 : w.s.ctlIn = []
  case neg =>
    have hf := tick_enabled_ctl c w.s hw.noBad h5 (by omega)
    have ha : w.awake = true := by
      cases ha : w.awake with
      | true => rfl
      | false =>
        rcases h.q ha with k | k
        · exact absurd k h5
        · omega
    exact Or.inr ⟨_, prod_tick c e w ha hf⟩
  refine Or.inl ⟨⟨?_, fun _ => ?_⟩, h5, h4, h.topOut, h.botOut, h.trOut⟩
  · intro p hp; rw [h.recv] at hp; simp at hp
  · simp [wmu, smu, mu, h.topIn, h.botIn, h.trIn, h.topOut, h.botOut, h.trOut, h.txs, h.infl, h.envT, h.envM, h4, h5]

/-- never stuck, for every width: either the world is settled with the control handshake complete and
    all outgoing buffers taken, or a productive move is enabled -/
theorem stuck_free' {c : Cfg} {e : Env} {w : CW} (hr : Reach c e w) :
    SettledC w ∨ ∃ o, Productive c e w o := by
  by_cases hw : 0 < c.width
  · rcases stuck_free hw hr with h | h
    · by_cases h1 : w.s.topOut = []
      case neg => exact Or.inr ⟨_, prod_drainTop c e w h1⟩
      by_cases h2 : w.s.botOut = []
      case neg => exact Or.inr ⟨_, prod_drainBot c e w h2⟩
      by_cases h3 : w.s.trOut = []
      case neg => exact Or.inr ⟨_, prod_drainTr c e w h3⟩
      by_cases h4 : w.s.ctlOut = 0
      case neg => exact Or.inr ⟨_, prod_drainCtl c e w (by omega)⟩
      by_cases h5 : w.s.ctlIn = []
      case neg =>
        have hwi := reach_winv hr
        have hf := tick_enabled_ctl c w.s hwi.noBad h5 (by omega)
        have ha : w.awake = true := by
          cases ha : w.awake with
          | true => rfl
          | false =>
            rcases (reach_quiet' hr ha).k with k | k
            · exact absurd k h5
            · omega
        exact Or.inr ⟨_, prod_tick c e w ha hf⟩
      exact Or.inl ⟨h, h5, h4, h1, h2, h3⟩
    · exact Or.inr h
  · exact stuck_free_w0 (by omega) hr

theorem prodseq_exists' {c : Cfg} {e : Env} : ∀ (n : Nat) (w : CW), Reach c e w → wmu w ≤ n →
    ∃ os, ProdSeq c e w os ∧ SettledC (hrun c e w os) := by
  intro n
  induction n with
  | zero =>
    intro w hr hle
    rcases stuck_free' hr with h | ⟨o, _, h⟩
    · exact ⟨[], trivial, h⟩
    · omega
  | succ n ih =>
    intro w hr hle
    rcases stuck_free' hr with h | ⟨o, ho, h⟩
    · exact ⟨[], trivial, h⟩
    · obtain ⟨os, h1, h2⟩ := ih (hstep c e w o) (Reach.step w o hr) (by omega)
      exact ⟨o :: os, ⟨⟨ho, h⟩, h1⟩, h2⟩

/-! ## every move makes lexicographic progress or changes nothing -/

/-- `(wmu, awake)` lexicographically -/
def lmu (w : CW) : Nat := 2 * wmu w + (if w.awake then 1 else 0)

theorem lmu_lt_of_wmu_lt {w w' : CW} (h : wmu w' < wmu w) : lmu w' < lmu w := by
  unfold lmu
  split <;> split <;> omega

theorem prod_ansT_any (c : Cfg) (e : Env) (w : CW) (j : Nat) (h : w.envT ≠ [])
    (hlt : w.s.trIn.length < c.width) : Productive c e w (.ansT j) := by
  refine ⟨rfl, ?_⟩
  cases hq : w.envT with
  | nil => exact absurd hq h
  | cons a l =>
    have hi : j % (a :: l).length < (a :: l).length := Nat.mod_lt _ (by simp)
    have := length_removeNth (a :: l) _ hi
    simp only [List.length_cons] at this
    simp [hstep, hq, hlt, wmu, smu, mu, step]; omega

theorem prod_ansM_any (c : Cfg) (e : Env) (w : CW) (j : Nat) (h : w.envM ≠ [])
    (hlt : w.s.botIn.length < c.width) : Productive c e w (.ansM j) := by
  refine ⟨rfl, ?_⟩
  cases hq : w.envM with
  | nil => exact absurd hq h
  | cons a l =>
    have hi : j % (a :: l).length < (a :: l).length := Nat.mod_lt _ (by simp)
    have := length_removeNth (a :: l) _ hi
    simp only [List.length_cons] at this
    simp [hstep, hq, hlt, wmu, smu, mu, step]; omega

/-- a move of the component or of an honest neighbour other than the tick is productive or a no-op -/
theorem hstep_prod_or_id (c : Cfg) (e : Env) (w : CW) (o : HOp) (ho : o.internal = true)
    (hnt : o ≠ .tick) : Productive c e w o ∨ hstep c e w o = w := by
  cases o with
  | tick => exact absurd rfl hnt
  | access pid va pl => simp [HOp.internal] at ho
  | flush => simp [HOp.internal] at ho
  | restart => simp [HOp.internal] at ho
  | ansT j =>
    by_cases h : w.envT = []
    · right; simp [hstep, h]
    · by_cases hlt : w.s.trIn.length < c.width
      · exact Or.inl (prod_ansT_any c e w j h hlt)
      · right
        cases hq : w.envT with
        | nil => exact absurd hq h
        | cons a l => simp [hstep, hq, hlt]
  | ansM j =>
    by_cases h : w.envM = []
    · right; simp [hstep, h]
    · by_cases hlt : w.s.botIn.length < c.width
      · exact Or.inl (prod_ansM_any c e w j h hlt)
      · right
        cases hq : w.envM with
        | nil => exact absurd hq h
        | cons a l => simp [hstep, hq, hlt]
  | drainTop =>
    by_cases h : w.s.topOut = []
    · right; simp [hstep, h]
    · exact Or.inl (prod_drainTop c e w h)
  | drainBot =>
    by_cases h : w.s.botOut = []
    · right; simp [hstep, h]
    · exact Or.inl (prod_drainBot c e w h)
  | drainTr =>
    by_cases h : w.s.trOut = []
    · right; simp [hstep, h]
    · exact Or.inl (prod_drainTr c e w h)
  | drainCtl =>
    by_cases h : 0 < w.s.ctlOut
    · exact Or.inl (prod_drainCtl c e w h)
    · right; simp [hstep, h]

/-- every move of the component or of an honest neighbour strictly decreases `(wmu, awake)` or
    leaves the whole world as it is -/
theorem hstep_dichotomy (c : Cfg) (e : Env) (w : CW) (o : HOp) (ho : o.internal = true) :
    lmu (hstep c e w o) < lmu w ∨ hstep c e w o = w := by
  by_cases hnt : o = .tick
  · subst hnt
    cases ha : w.awake with
    | false => right; simp [hstep, ha]
    | true =>
      left
      have hd := tick_sdec c w.s
      cases hf : (tick c w.s).2 with
      | true =>
        have := hd.2 hf
        apply lmu_lt_of_wmu_lt
        simp only [hstep, ha, if_true, wmu]
        omega
      | false =>
        have := hd.1
        simp only [lmu, hstep, ha, if_true, wmu, hf]
        simp
        omega
  · rcases hstep_prod_or_id c e w o ho hnt with h | h
    · exact Or.inl (lmu_lt_of_wmu_lt h.2)
    · exact Or.inr h

/-! ## fair schedules -/

def HOp.kind : HOp → Nat
  | .tick => 0
  | .ansT _ => 1
  | .ansM _ => 2
  | .drainTop => 3
  | .drainBot => 4
  | .drainTr => 5
  | .drainCtl => 6
  | .access .. => 7
  | .flush => 8
  | .restart => 9

theorem kind_lt_of_internal (o : HOp) (h : o.internal = true) : o.kind < 7 := by
  cases o <;> simp [HOp.internal] at h <;> simp [HOp.kind]

/-- An infinite schedule of moves of the component and its honest neighbours (no new access, no new
    control command) in which each of the seven kinds of move — the engine runs a tick event if one
    is scheduled, the translation service answers a lookup, the memory answers a request, the
    requester / memory / service / controller takes a message from the translator's outgoing buffer —
    recurs for ever. Which lookup / request is answered, and everything about the order, is free. -/
structure Fair (sched : Nat → HOp) : Prop where
  int : ∀ i, (sched i).internal = true
  recur : ∀ k, k < 7 → ∀ n, ∃ m, n ≤ m ∧ (sched m).kind = k

/-- the first `n` moves of a schedule -/
def pre (sched : Nat → HOp) : Nat → List HOp
  | 0 => []
  | n + 1 => sched 0 :: pre (fun i => sched (i + 1)) n

theorem Fair.shift {sched : Nat → HOp} (h : Fair sched) : Fair (fun i => sched (i + 1)) := by
  refine ⟨fun i => h.int _, ?_⟩
  intro k hk n
  obtain ⟨m, hm, hkm⟩ := h.recur k hk (n + 1)
  exact ⟨m - 1, by omega, by show (sched (m - 1 + 1)).kind = k; rw [show m - 1 + 1 = m by omega]; exact hkm⟩

theorem hrun_pre_succ (c : Cfg) (e : Env) (w : CW) (sched : Nat → HOp) (n : Nat) :
    hrun c e w (pre sched (n + 1)) = hrun c e (hstep c e w (sched 0)) (pre (fun i => sched (i + 1)) n) := by
  simp [pre, hrun]

/-- productivity depends only on the kind of the move (which lookup / request is answered is immaterial) -/
theorem prod_kind (c : Cfg) (e : Env) (w : CW) (o o' : HOp) (h : Productive c e w o)
    (hk : o'.kind = o.kind) : Productive c e w o' := by
  have hi := h.1
  cases o with
  | access pid va pl => simp [HOp.internal] at hi
  | flush => simp [HOp.internal] at hi
  | restart => simp [HOp.internal] at hi
  | tick => cases o' <;> simp [HOp.kind] at hk; exact h
  | drainTop => cases o' <;> simp [HOp.kind] at hk; exact h
  | drainBot => cases o' <;> simp [HOp.kind] at hk; exact h
  | drainTr => cases o' <;> simp [HOp.kind] at hk; exact h
  | drainCtl => cases o' <;> simp [HOp.kind] at hk; exact h
  | ansT j =>
    cases o' <;> simp [HOp.kind] at hk
    rename_i j'
    rcases hstep_prod_or_id c e w (.ansT j') rfl (by simp) with h' | h'
    · exact h'
    · exfalso
      have h2 := h.2
      by_cases he : w.envT = []
      · simp [hstep, he] at h2
      · by_cases hlt : w.s.trIn.length < c.width
        · have := (prod_ansT_any c e w j' he hlt).2
          rw [h'] at this; omega
        · cases hq : w.envT with
          | nil => exact absurd hq he
          | cons a l => simp [hstep, hq, hlt] at h2
  | ansM j =>
    cases o' <;> simp [HOp.kind] at hk
    rename_i j'
    rcases hstep_prod_or_id c e w (.ansM j') rfl (by simp) with h' | h'
    · exact h'
    · exfalso
      have h2 := h.2
      by_cases he : w.envM = []
      · simp [hstep, he] at h2
      · by_cases hlt : w.s.botIn.length < c.width
        · have := (prod_ansM_any c e w j' he hlt).2
          rw [h'] at this; omega
        · cases hq : w.envM with
          | nil => exact absurd hq he
          | cons a l => simp [hstep, hq, hlt] at h2

/-- **Liveness under fairness.** From every reachable world, along every fair schedule, the world
    becomes settled after finitely many moves. -/
theorem fair_settles {c : Cfg} {e : Env} : ∀ (N : Nat) (w : CW), lmu w = N → Reach c e w →
    ∀ sched, Fair sched → ∃ n, SettledC (hrun c e w (pre sched n)) := by
  intro N
  induction N using Nat.strongRecOn with
  | _ N ih =>
    intro w hN hr sched hf
    rcases stuck_free' hr with h | ⟨o, ho⟩
    · exact ⟨0, h⟩
    · obtain ⟨m, _, hm⟩ := hf.recur o.kind (kind_lt_of_internal o ho.1) 0
      -- inner induction: distance to the next move of `o`'s kind
      have inner : ∀ (m : Nat) (sched : Nat → HOp), Fair sched → (sched m).kind = o.kind →
          ∃ n, SettledC (hrun c e w (pre sched n)) := by
        intro m
        induction m with
        | zero =>
          intro sched hf hm
          rcases hstep_dichotomy c e w (sched 0) (hf.int 0) with hd | hd
          · obtain ⟨n, hn⟩ := ih (lmu (hstep c e w (sched 0))) (by omega) (hstep c e w (sched 0)) rfl
              (Reach.step w _ hr) _ hf.shift
            exact ⟨n + 1, by rw [hrun_pre_succ]; exact hn⟩
          · have := (prod_kind c e w o (sched 0) ho hm).2
            rw [hd] at this; omega
        | succ m ihm =>
          intro sched hf hm
          rcases hstep_dichotomy c e w (sched 0) (hf.int 0) with hd | hd
          · obtain ⟨n, hn⟩ := ih (lmu (hstep c e w (sched 0))) (by omega) (hstep c e w (sched 0)) rfl
              (Reach.step w _ hr) _ hf.shift
            exact ⟨n + 1, by rw [hrun_pre_succ]; exact hn⟩
          · obtain ⟨n, hn⟩ := ihm (fun i => sched (i + 1)) hf.shift hm
            exact ⟨n + 1, by rw [hrun_pre_succ, hd]; exact hn⟩
      exact inner m sched hf hm

/-- the round-robin schedule -/
def rr (i : Nat) : HOp :=
  match i % 7 with
  | 0 => .tick
  | 1 => .ansT 0
  | 2 => .ansM 0
  | 3 => .drainTop
  | 4 => .drainBot
  | 5 => .drainTr
  | _ => .drainCtl

theorem rr_kind (i : Nat) : (rr i).kind = i % 7 := by
  have h : i % 7 < 7 := Nat.mod_lt _ (by decide)
  unfold rr
  generalize i % 7 = r at h
  match r, h with
  | 0, _ => rfl
  | 1, _ => rfl
  | 2, _ => rfl
  | 3, _ => rfl
  | 4, _ => rfl
  | 5, _ => rfl
  | 6, _ => rfl

theorem rr_fair : Fair rr := by
  refine ⟨?_, ?_⟩
  · intro i
    have h := rr_kind i
    have h7 : i % 7 < 7 := Nat.mod_lt _ (by decide)
    generalize rr i = o at h
    cases o <;> simp [HOp.kind] at h <;> first | rfl | omega
  · intro k hk n
    refine ⟨7 * n + k, by omega, ?_⟩
    rw [rr_kind]; omega

/-! ## bounded fairness: a bound on the number of moves -/

/-- every kind of move recurs within every window of `K` consecutive moves -/
structure FairK (K : Nat) (sched : Nat → HOp) : Prop where
  int : ∀ i, (sched i).internal = true
  recur : ∀ k, k < 7 → ∀ n, ∃ m, n ≤ m ∧ m < n + K ∧ (sched m).kind = k

theorem FairK.shift {K : Nat} {sched : Nat → HOp} (h : FairK K sched) : FairK K (fun i => sched (i + 1)) := by
  refine ⟨fun i => h.int _, ?_⟩
  intro k hk n
  obtain ⟨m, hm, hm2, hkm⟩ := h.recur k hk (n + 1)
  exact ⟨m - 1, by omega, by omega,
    by show (sched (m - 1 + 1)).kind = k; rw [show m - 1 + 1 = m by omega]; exact hkm⟩

/-- under `K`-bounded fairness the world is settled after at most `K · (lmu w + 1)` moves -/
theorem fair_settles_bound {c : Cfg} {e : Env} (K : Nat) : ∀ (N : Nat) (w : CW), lmu w = N → Reach c e w →
    ∀ sched, FairK K sched → ∃ n, n ≤ K * (N + 1) ∧ SettledC (hrun c e w (pre sched n)) := by
  intro N
  induction N using Nat.strongRecOn with
  | _ N ih =>
    intro w hN hr sched hf
    rcases stuck_free' hr with h | ⟨o, ho⟩
    · exact ⟨0, Nat.zero_le _, h⟩
    · obtain ⟨m, _, hmK, hm⟩ := hf.recur o.kind (kind_lt_of_internal o ho.1) 0
      have inner : ∀ (m : Nat) (sched : Nat → HOp), FairK K sched → (sched m).kind = o.kind →
          ∃ n, n ≤ m + 1 + K * N ∧ SettledC (hrun c e w (pre sched n)) := by
        intro m
        induction m with
        | zero =>
          intro sched hf hm
          rcases hstep_dichotomy c e w (sched 0) (hf.int 0) with hd | hd
          · obtain ⟨n, hle, hn⟩ := ih (lmu (hstep c e w (sched 0))) (by omega) (hstep c e w (sched 0)) rfl
              (Reach.step w _ hr) _ hf.shift
            have : K * (lmu (hstep c e w (sched 0)) + 1) ≤ K * N := Nat.mul_le_mul_left K (by omega)
            exact ⟨n + 1, by omega, by rw [hrun_pre_succ]; exact hn⟩
          · have := (prod_kind c e w o (sched 0) ho hm).2
            rw [hd] at this; omega
        | succ m ihm =>
          intro sched hf hm
          rcases hstep_dichotomy c e w (sched 0) (hf.int 0) with hd | hd
          · obtain ⟨n, hle, hn⟩ := ih (lmu (hstep c e w (sched 0))) (by omega) (hstep c e w (sched 0)) rfl
              (Reach.step w _ hr) _ hf.shift
            have : K * (lmu (hstep c e w (sched 0)) + 1) ≤ K * N := Nat.mul_le_mul_left K (by omega)
            exact ⟨n + 1, by omega, by rw [hrun_pre_succ]; exact hn⟩
          · obtain ⟨n, hle, hn⟩ := ihm (fun i => sched (i + 1)) hf.shift hm
            exact ⟨n + 1, by omega, by rw [hrun_pre_succ, hd]; exact hn⟩
      obtain ⟨n, hle, hn⟩ := inner m sched hf hm
      refine ⟨n, ?_, hn⟩
      have : K * (N + 1) = K * N + K := Nat.mul_succ K N
      omega

theorem rr_fairK : FairK 7 rr := by
  refine ⟨rr_fair.int, ?_⟩
  intro k hk n
  refine ⟨n + (k + 7 - n % 7) % 7, by omega, by omega, ?_⟩
  rw [rr_kind]; omega

theorem hstep_tick_asleep (c : Cfg) (e : Env) (w : CW) (h : w.awake = false) : hstep c e w .tick = w := by
  simp [hstep, h]

end C16
