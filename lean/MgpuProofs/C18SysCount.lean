import MgpuProofs.C18SysBase
/-! C18 system level, part 2: the conservation invariant of the closed n-engine system.

Every entry of a transaction table has exactly one *token* somewhere in the system:
* `NodeInv.l2` — table from outside (`oi`) of a node: clone in the outgoing buffer | outstanding at
  the node's L2 side | reply in the incoming buffer;
* `GInv` — table from inside (`io`) of node `a`: clone in a's outgoing buffer | in the network |
  *named* at some node (request delivered there and its answer not yet on the network) | answer in
  the network | answer in a's incoming buffer;
* `NodeInv.nm` — the live names of a node are exactly the outside requests it holds (in the port,
  in the table, answer in the outgoing buffer), with the same source. -/
namespace C18

def tokQ (m : NReq) : Nat × Nat := (m.frm, m.c.fid)
def tokR (m : NRsp) : Nat × Nat := (m.dst, m.fid)
def nameToks (B : Node) : List (Nat × Nat) := B.names.map fun nm => (nm.a, nm.c.fid)
def nameKA (B : Node) : List (Nat × Nat) := B.names.map fun nm => (nm.k, nm.a)

structure NodeInv (B : Node) : Prop where
  l2 : ∀ t, (txF B.s.oi).count t = (dnF B.s.oi).count t + (B.l2.map (·.fid)).count t
  nm : ∀ p, (nameKA B).count p = (upKA B.s.oi).count p
  kLt : ∀ x ∈ B.names, x.k < B.s.oi.nextA
  kNodup : (B.names.map (·.k)).Nodup

def GInv (y : Sys) : Prop := ∀ (a : Nat) (A : Node), y.nodes[a]? = some A → ∀ f,
  (txF A.s.io).count f = (dnF A.s.io).count f + (y.netQ.map tokQ).count (a, f) +
    (y.nodes.flatMap nameToks).count (a, f) + (y.netR.map tokR).count (a, f)

structure SInv (y : Sys) : Prop where
  node : ∀ (b : Nat) (B : Node), y.nodes[b]? = some B → NodeInv B
  g : GInv y

theorem nodeInv_init (c : Cfg) : NodeInv { cfg := c } := by
  constructor <;> simp [txF, dnF, nameKA, upKA]

theorem flatMap_nameToks_init (cfgs : List Cfg) :
    (cfgs.map fun c => ({ cfg := c } : Node)).flatMap nameToks = [] := by
  induction cfgs with
  | nil => rfl
  | cons c cs ih => simp [nameToks, ih]

theorem sinv_init (cfgs : List Cfg) : SInv (initSys cfgs) := by
  constructor
  · intro b B hb
    simp only [initSys, List.getElem?_map, Option.map_eq_some_iff] at hb
    obtain ⟨c, _, rfl⟩ := hb
    exact nodeInv_init c
  · intro a A ha f
    simp only [initSys, List.getElem?_map, Option.map_eq_some_iff] at ha
    obtain ⟨c, _, rfl⟩ := ha
    simp only [initSys, flatMap_nameToks_init]
    simp [txF, dnF]

/-- updating one node: the node invariants -/
theorem node_set {y : Sys} {i : Nat} {nd' : Node} {ns : List Node}
    (h : ∀ (b : Nat) (B : Node), y.nodes[b]? = some B → NodeInv B) (hn : NodeInv nd') (hs : ns = y.nodes.set i nd') :
    ∀ (b : Nat) (B : Node), ns[b]? = some B → NodeInv B := by
  intro b B hb
  subst hs
  rcases getElem?_set' hb with ⟨_, rfl, _⟩ | ⟨_, h2⟩
  · exact hn
  · exact h b B h2

/-- a move that touches only node `i`, keeps its live names and changes its inside channel as an
    engine step may (`ChRel.dn`) keeps the invariant -/
theorem sinv_setNode {y : Sys} {i : Nat} {A nd' : Node} (h : SInv y) (hi : y.nodes[i]? = some A)
    (hn : NodeInv nd')
    (hio : ∀ f, (txF nd'.s.io).count f + (dnF A.s.io).count f = (txF A.s.io).count f + (dnF nd'.s.io).count f)
    (hnames : nd'.names = A.names) : SInv (setNode y i nd') := by
  constructor
  · exact node_set h.node hn rfl
  · intro a A' ha f
    have hfm := count_flatMap_set nameToks hi nd' (a, f)
    have hnt : nameToks nd' = nameToks A := by simp only [nameToks, hnames]
    rw [hnt] at hfm
    dsimp only [setNode] at ha hfm ⊢
    rcases getElem?_set' ha with ⟨rfl, rfl, _⟩ | ⟨_, h2⟩
    · have := h.g a A hi f
      have := hio f
      omega
    · have := h.g a A' h2 f
      omega

theorem nodeInv_congr_oi {A B : Node} (h : NodeInv A) (hs : B.s.oi = A.s.oi) (hl : B.l2 = A.l2)
    (hn : B.names = A.names) : NodeInv B := by
  constructor
  · intro t; rw [hs, hl]; exact h.l2 t
  · intro p; simp only [nameKA, hn, hs]; exact h.nm p
  · intro x hx; rw [hn] at hx; rw [hs]; exact h.kLt x hx
  · rw [hn]; exact h.kNodup

theorem step_ctl_io (c : Cfg) (s : St) (k : Ctl) :
    (step c s (.ctl k)).io = s.io ∧ (step c s (.ctl k)).oi = s.oi := by
  simp only [step]
  split <;> exact ⟨rfl, rfl⟩

theorem names_unique {l : List Name} (hn : (l.map (·.k)).Nodup) {x y : Name} (hx : x ∈ l) (hy : y ∈ l)
    (hk : x.k = y.k) : x = y := by
  induction l with
  | nil => cases hx
  | cons z zs ih =>
    simp only [List.map_cons, List.nodup_cons] at hn
    simp only [List.mem_cons] at hx hy
    rcases hx with rfl | hx <;> rcases hy with rfl | hy
    · rfl
    · exact absurd (List.mem_map.mpr ⟨y, hy, hk.symm⟩) hn.1
    · exact absurd (List.mem_map.mpr ⟨x, hx, hk⟩) hn.1
    · exact ih hn.2 hx hy

/-- the name the network finds for the answer at the head of the outgoing buffer carries the
    node the engine addressed the answer to -/
theorem sendR_name {B : Node} (h : NodeInv B) {o : OutRsp} {rest : List OutRsp}
    (ho : B.s.oi.rspOut = o :: rest) {nm : Name} {r : List Name}
    (ht : takeName o.rspTo B.names = some (nm, r)) : nm.a = o.dst := by
  have hp := takeName_perm ht
  have hc := h.nm (o.rspTo, o.dst)
  have hpos : 0 < (upKA B.s.oi).count (o.rspTo, o.dst) := by
    simp only [upKA, ho, List.map_cons, List.count_append, List.count_cons, beq_self_eq_true, if_true]
    omega
  rw [← hc] at hpos
  have hm := List.count_pos_iff.mp hpos
  simp only [nameKA, List.mem_map] at hm
  obtain ⟨x, hx, he⟩ := hm
  simp only [Prod.mk.injEq] at he
  have hnm : nm ∈ B.names := hp.1.mem_iff.mpr List.mem_cons_self
  have := names_unique h.kNodup hx hnm (he.1.trans hp.2.symm)
  rw [← this]; exact he.2

/-- one move seen from the conservation law: tokens leave / enter the network (`qm`/`qp`, `rm`/`rp`),
    the live names of node `i` (`nm`/`np`) and the downstream side of node `i`'s inside channel
    (`dout`/`din`, relative to its table); if what leaves one place enters another, `GInv` is kept -/
theorem ginv_delta {y y' : Sys} {i : Nat} {A nd' : Node} (h : GInv y) (hi : y.nodes[i]? = some A)
    (hn : y'.nodes = y.nodes.set i nd')
    (qm qp rm rp nm np : Nat × Nat → Nat) (dout din : Nat → Nat)
    (hQ : ∀ t, (y'.netQ.map tokQ).count t + qm t = (y.netQ.map tokQ).count t + qp t)
    (hR : ∀ t, (y'.netR.map tokR).count t + rm t = (y.netR.map tokR).count t + rp t)
    (hN : ∀ t, (nameToks nd').count t + nm t = (nameToks A).count t + np t)
    (hIO : ∀ f, (txF nd'.s.io).count f + (dnF A.s.io).count f + din f =
      (txF A.s.io).count f + (dnF nd'.s.io).count f + dout f)
    (hbi : ∀ f, dout f + qm (i, f) + nm (i, f) + rm (i, f) = din f + qp (i, f) + np (i, f) + rp (i, f))
    (hbo : ∀ a f, a ≠ i → qm (a, f) + nm (a, f) + rm (a, f) = qp (a, f) + np (a, f) + rp (a, f)) :
    GInv y' := by
  intro a A' ha f
  rw [hn] at ha ⊢
  have hfm := count_flatMap_set nameToks hi nd' (a, f)
  have := hQ (a, f)
  have := hR (a, f)
  have := hN (a, f)
  rcases getElem?_set' ha with ⟨rfl, rfl, _⟩ | ⟨hne, h2⟩
  · have := h a A hi f
    have := hIO f
    have := hbi f
    omega
  · have := h a A' h2 f
    have := hbo a f hne
    omega

theorem sinv_step (y : Sys) (o : SOp) (h : SInv y) : SInv (sstep y o) := by
  cases o with
  | issue a src pl =>
    simp only [sstep]
    split
    · exact h
    · next A hA =>
      split
      · next hsp =>
        refine sinv_setNode h hA ?_ ?_ rfl
        · exact nodeInv_congr_oi (h.node a A hA) rfl rfl rfl
        · intro f
          simp only [step, deliverReq, hsp, if_true, txF, dnF] <;> omega
      · exact h
  | ctl a k =>
    simp only [sstep]
    split
    · exact h
    · next A hA =>
      have hc := step_ctl_io A.cfg A.s k
      refine sinv_setNode h hA ?_ ?_ rfl
      · exact nodeInv_congr_oi (h.node a A hA) hc.2 rfl rfl
      · intro f; dsimp only; rw [hc.1]
  | tick a =>
    simp only [sstep]
    split
    · exact h
    · next A hA =>
      have hr := stRel_tick A.cfg A.s
      have hA' := h.node a A hA
      refine sinv_setNode h hA ?_ ?_ rfl
      · constructor
        · intro t
          have := hr.1.2.dn t
          have := hA'.l2 t
          show (txF (tick A.cfg A.s).1.oi).count t = (dnF (tick A.cfg A.s).1.oi).count t + (A.l2.map (·.fid)).count t
          omega
        · intro p
          show (nameKA A).count p = (upKA (tick A.cfg A.s).1.oi).count p
          rw [hr.1.2.up p]; exact hA'.nm p
        · intro x hx
          show x.k < (tick A.cfg A.s).1.oi.nextA
          rw [hr.1.2.nextA]; exact hA'.kLt x hx
        · exact hA'.kNodup
      · intro f
        exact hr.1.1.dn f
  | sendQ a =>
    simp only [sstep]
    split
    · exact h
    · next A hA =>
      split
      · exact h
      · next q rest hq =>
        constructor
        · refine node_set h.node ?_ rfl
          exact nodeInv_congr_oi (h.node a A hA) rfl rfl rfl
        · refine ginv_delta h.g hA rfl (fun _ => 0) (fun t => if (a, q.fid) == t then 1 else 0)
            (fun _ => 0) (fun _ => 0) (fun _ => 0) (fun _ => 0) (fun f => if q.fid == f then 1 else 0) (fun _ => 0)
            ?_ ?_ ?_ ?_ ?_ ?_
          · intro t
            simp only [List.map_append, List.map_cons, List.map_nil, count_snoc, tokQ, Nat.add_zero]
          · intro t; rfl
          · intro t; rfl
          · intro f
            simp only [step, txF, dnF, hq, List.tail_cons, List.map_cons, List.count_append, List.count_cons]
            omega
          · intro f
            simp only [Nat.add_zero, Nat.zero_add, beq_iff_eq, Prod.mk.injEq, true_and]
          · intro a' f hne
            have : ¬ (a = a' ∧ q.fid = f) := fun e => hne e.1.symm
            simp only [beq_iff_eq, Prod.mk.injEq, this, if_false]
  | delivQ j =>
    simp only [sstep]
    split
    · exact h
    · next m hm =>
      split
      · exact h
      · next B hB =>
        split
        · next hsp =>
          have hB' := h.node _ B hB
          constructor
          · refine node_set h.node ?_ rfl
            constructor
            · intro t
              have := hB'.l2 t
              simp only [step, deliverReq, hsp, if_true, txF, dnF] at this ⊢
              exact this
            · intro p
              have := hB'.nm p
              simp only [step, deliverReq, hsp, if_true, nameKA, upKA, List.map_cons, List.map_append,
                List.map_nil, List.count_cons, List.count_append, List.count_nil] at this ⊢
              omega
            · intro x hx
              simp only [List.mem_cons] at hx
              simp only [step, deliverReq, hsp, if_true]
              rcases hx with rfl | hx
              · exact Nat.lt_succ_self _
              · exact Nat.lt_succ_of_lt (hB'.kLt x hx)
            · simp only [List.map_cons, List.nodup_cons]
              refine ⟨?_, hB'.kNodup⟩
              intro hmem
              obtain ⟨x, hx, he⟩ := List.mem_map.mp hmem
              have := hB'.kLt x hx
              omega
          · refine ginv_delta h.g hB rfl (fun t => if tokQ m == t then 1 else 0) (fun _ => 0)
              (fun _ => 0) (fun _ => 0) (fun _ => 0) (fun t => if tokQ m == t then 1 else 0) (fun _ => 0) (fun _ => 0)
              ?_ ?_ ?_ ?_ ?_ ?_
            · intro t
              have := count_map_eraseIdx tokQ hm t
              simp only [Nat.add_zero]
              exact this
            · intro t; rfl
            · intro t
              simp only [nameToks, List.map_cons, List.count_cons, tokQ, Nat.add_zero]
              rfl
            · intro f
              simp only [step, txF, dnF]
            · intro f; omega
            · intro a' f _; omega
        · exact h
  | l2take b =>
    simp only [sstep]
    split
    · exact h
    · next B hB =>
      split
      · exact h
      · next q rest hq =>
        have hB' := h.node b B hB
        refine sinv_setNode h hB ?_ ?_ rfl
        · constructor
          · intro t
            have := hB'.l2 t
            simp only [step, txF, dnF, hq, List.tail_cons, List.map_cons, List.map_append, List.map_nil,
              List.count_append, List.count_cons, List.count_nil] at this ⊢
            omega
          · exact hB'.nm
          · exact hB'.kLt
          · exact hB'.kNodup
        · intro f; simp only [step] <;> omega
  | l2ans b j d =>
    simp only [sstep]
    split
    · exact h
    · next B hB =>
      split
      · exact h
      · next q hq =>
        split
        · next hsp =>
          have hB' := h.node b B hB
          refine sinv_setNode h hB ?_ ?_ rfl
          · constructor
            · intro t
              have := hB'.l2 t
              have he := count_map_eraseIdx (fun x : OutReq => x.fid) hq t
              simp only [step, deliverRsp, hsp, if_true, txF, dnF, List.map_append, List.map_cons, List.map_nil,
                List.count_append, List.count_cons, List.count_nil] at this he ⊢
              omega
            · intro p
              have := hB'.nm p
              simp only [step, deliverRsp, hsp, if_true, nameKA, upKA] at this ⊢
              exact this
            · intro x hx
              have := hB'.kLt x hx
              simp only [step, deliverRsp, hsp, if_true]
              exact this
            · exact hB'.kNodup
          · intro f; simp only [step] <;> omega
        · exact h
  | sendR b =>
    simp only [sstep]
    split
    · exact h
    · next B hB =>
      split
      · exact h
      · next o rest ho =>
        split
        · exact h
        · next nm r ht =>
          have hB' := h.node b B hB
          have hp := takeName_perm ht
          have hdst := sendR_name hB' ho ht
          constructor
          · refine node_set h.node ?_ rfl
            constructor
            · intro t
              have := hB'.l2 t
              simp only [step, txF, dnF] at this ⊢
              exact this
            · intro p
              have := hB'.nm p
              have hc := (hp.1.map (fun nm : Name => (nm.k, nm.a))).count_eq p
              simp only [step, nameKA, upKA, ho, List.tail_cons, List.map_cons, List.count_append,
                List.count_cons, hp.2, hdst] at this hc ⊢
              omega
            · intro x hx
              exact hB'.kLt x (hp.1.mem_iff.mpr (List.mem_cons_of_mem _ hx))
            · have := (hp.1.map (·.k)).nodup_iff.mp hB'.kNodup
              simp only [List.map_cons, List.nodup_cons] at this
              exact this.2
          · refine ginv_delta h.g hB rfl (fun _ => 0) (fun _ => 0)
              (fun _ => 0) (fun t => if (o.dst, nm.c.fid) == t then 1 else 0)
              (fun t => if (o.dst, nm.c.fid) == t then 1 else 0) (fun _ => 0) (fun _ => 0) (fun _ => 0)
              ?_ ?_ ?_ ?_ ?_ ?_
            · intro t; rfl
            · intro t
              simp only [List.map_append, List.map_cons, List.map_nil, count_snoc, tokR, Nat.add_zero]
            · intro t
              have hc := (hp.1.map (fun nm : Name => (nm.a, nm.c.fid))).count_eq t
              simp only [nameToks, List.map_cons, List.count_cons, hdst, Nat.add_zero] at hc ⊢
              omega
            · intro f
              simp only [step, txF, dnF]
            · intro f; omega
            · intro a' f _; omega
  | delivR j =>
    simp only [sstep]
    split
    · exact h
    · next m hm =>
      split
      · exact h
      · next A hA =>
        split
        · next hsp =>
          constructor
          · refine node_set h.node ?_ rfl
            exact nodeInv_congr_oi (h.node _ A hA) rfl rfl rfl
          · refine ginv_delta h.g hA rfl (fun _ => 0) (fun _ => 0)
              (fun t => if tokR m == t then 1 else 0) (fun _ => 0) (fun _ => 0) (fun _ => 0)
              (fun _ => 0) (fun f => if m.fid == f then 1 else 0) ?_ ?_ ?_ ?_ ?_ ?_
            · intro t; rfl
            · intro t
              have := count_map_eraseIdx tokR hm t
              simp only [Nat.add_zero]
              exact this
            · intro t; rfl
            · intro f
              simp only [step, deliverRsp, hsp, if_true, txF, dnF, List.map_append, List.map_cons, List.map_nil,
                List.count_append, List.count_cons, List.count_nil]
              omega
            · intro f
              simp only [tokR, Nat.add_zero, Nat.zero_add, beq_iff_eq, Prod.mk.injEq, true_and]
            · intro a' f hne
              have : ¬ (m.dst = a' ∧ m.fid = f) := fun e => hne e.1.symm
              simp only [tokR, beq_iff_eq, Prod.mk.injEq, this, if_false]
        · exact h
  | l1take a =>
    simp only [sstep]
    split
    · exact h
    · next A hA =>
      split
      · exact h
      · next o rest ho =>
        refine sinv_setNode h hA ?_ ?_ rfl
        · exact nodeInv_congr_oi (h.node a A hA) rfl rfl rfl
        · intro f; simp only [step, txF, dnF] <;> omega
  | ctake a =>
    simp only [sstep]
    split
    · exact h
    · next A hA =>
      split
      · exact h
      · next x rest hx =>
        refine sinv_setNode h hA ?_ ?_ rfl
        · exact nodeInv_congr_oi (h.node a A hA) rfl rfl rfl
        · intro f; simp only [step] <;> omega

theorem sinv_run (y : Sys) (ops : List SOp) (h : SInv y) : SInv (srun y ops) := by
  unfold srun
  induction ops generalizing y with
  | nil => exact h
  | cons o os ih => exact ih _ (sinv_step y o h)

end C18
