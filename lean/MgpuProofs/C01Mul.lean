import MgpuModel.C01_Kernels
import MgpuProofs.C01Emu
import MgpuProofs.C01Step
import MgpuProofs.C01Insts
import MgpuProofs.C01Insts2
import MgpuProofs.C01MulDefs
/-! # C01 — `mul` (operator.hsaco), instruction by instruction: decoding and execution facts

(listing in `C01MulDefs.lean`) -/
set_option linter.unusedSimpArgs false
set_option maxRecDepth 100000
namespace C01
namespace Emu
namespace Mul
open C03V

/-- the instruction window at byte offset `k` -/
abbrev win (k : Nat) : List Nat := (P.code.drop k).take 8

/-! ## decoding -/
theorem dec0 : DecV (win 0) 5 0 8 := DecV_of_ok (by decide +kernel)
theorem dec8 : DecS (win 8) 4 12 4 ⟨4, 12, 0, 0, 0, 0x7f, 0⟩ := DecS_of_ok (by decide +kernel)
theorem dec12 : DecS (win 12) 0 12 8 ⟨0, 12, 2, 0, 255, 0, 0xffff⟩ := by
  have h := DecS_sop2 (win 12) ⟨0, "sop2", 0x80000000, 0xC0000000, 4, 23, 29⟩
    ⟨"s_and_b32", 12, 0, 1, 32, 32, 32, 0, 0⟩ (.reg 0 (Gen.R_S0 + 0) 0) (.lit 255 0) (.reg 2 (Gen.R_S0 + 2) 0)
    (by decide) (by decide +kernel) rfl rfl (by decide +kernel) (by decide +kernel) (by decide +kernel) (by decide +kernel)
  exact h
theorem dec20 : DecV (win 20) 5 0 8 := DecV_of_ok (by decide +kernel)
theorem dec28 : DecV (win 28) 5 1 8 := DecV_of_ok (by decide +kernel)
theorem dec36 : DecS (win 36) 0 36 4 ⟨0, 36, 8, 8, 2, 0, 0⟩ := by
  have h := DecS_sop2 (win 36) ⟨0, "sop2", 0x80000000, 0xC0000000, 4, 23, 29⟩
    ⟨"s_mul_i32", 36, 0, 1, 32, 32, 32, 0, 0⟩ (.reg 8 (Gen.R_S0 + 8) 0) (.reg 2 (Gen.R_S0 + 2) 0) (.reg 8 (Gen.R_S0 + 8) 0)
    (by decide) (by decide +kernel) rfl rfl (by decide +kernel) (by decide +kernel) (by decide +kernel) (by decide +kernel)
  exact h
theorem dec40 : DecV (win 40) 6 25 4 := DecV_of_ok (by decide +kernel)
theorem dec44 : DecS (win 44) 4 12 4 ⟨4, 12, 0, 0, 0, 0x7f, 0⟩ := DecS_of_ok (by decide +kernel)
theorem dec48 : DecV (win 48) 6 25 4 := DecV_of_ok (by decide +kernel)
theorem dec52 : DecV (win 52) 10 198 4 := DecV_of_ok (by decide +kernel)
theorem dec56 : DecS (win 56) 2 32 4 ⟨2, 32, 0, 106, 0, 0, 0⟩ := DecS_of_ok (by decide +kernel)
theorem dec60 : DecS (win 60) 4 8 4 ⟨4, 8, 0, 0, 0, 25, 0⟩ := DecS_of_ok (by decide +kernel)
theorem dec64 : DecV (win 64) 5 2 8 := DecV_of_ok (by decide +kernel)
theorem dec72 : DecV (win 72) 5 2 8 := DecV_of_ok (by decide +kernel)
theorem dec80 : DecV (win 80) 7 1 4 := DecV_of_ok (by decide +kernel)
theorem dec84 : DecV (win 84) 8 657 8 := DecV_of_ok (by decide +kernel)
theorem dec92 : DecS (win 92) 4 12 4 ⟨4, 12, 0, 0, 0, 0x7f, 0⟩ := DecS_of_ok (by decide +kernel)
theorem dec96 : DecV (win 96) 7 1 4 := DecV_of_ok (by decide +kernel)
theorem dec100 : DecV (win 100) 6 25 4 := DecV_of_ok (by decide +kernel)
theorem dec104 : DecV (win 104) 6 28 4 := DecV_of_ok (by decide +kernel)
theorem dec108 : DecV (win 108) 17 20 8 := DecV_of_ok (by decide +kernel)
theorem dec116 : DecV (win 116) 7 1 4 := DecV_of_ok (by decide +kernel)
theorem dec120 : DecV (win 120) 6 25 4 := DecV_of_ok (by decide +kernel)
theorem dec124 : DecV (win 124) 6 28 4 := DecV_of_ok (by decide +kernel)
theorem dec128 : DecV (win 128) 17 20 8 := DecV_of_ok (by decide +kernel)
theorem dec136 : DecV (win 136) 7 1 4 := DecV_of_ok (by decide +kernel)
theorem dec140 : DecV (win 140) 6 25 4 := DecV_of_ok (by decide +kernel)
theorem dec144 : DecV (win 144) 6 28 4 := DecV_of_ok (by decide +kernel)
theorem dec148 : DecS (win 148) 4 12 4 ⟨4, 12, 0, 0, 0, 0x70, 0⟩ := DecS_of_ok (by decide +kernel)
theorem dec152 : DecV (win 152) 6 5 4 := DecV_of_ok (by decide +kernel)
theorem dec156 : DecV (win 156) 17 28 8 := DecV_of_ok (by decide +kernel)
theorem dec164 : DecV (win 164) 4 1 4 := DecV_of_ok (by decide +kernel)

/-! ## execution -/
theorem ex0 (st : St) : exec false st [0x2, 0x0, 0x2, 0xc0, 0x4, 0x0, 0x0, 0x0] =
    some ("s_load_dword", (List.range 1).flatMap fun i => wrS32 st (0 + i) (st.memRead (sAddr st 4 4 + 4 * i) 4)) := rfl
theorem ex20 (st : St) : exec false st [0xc3, 0x0, 0x2, 0xc0, 0x18, 0x0, 0x0, 0x0] =
    some ("s_load_dword", (List.range 1).flatMap fun i => wrS32 st (3 + i) (st.memRead (sAddr st 6 24 + 4 * i) 4)) := rfl
theorem ex28 (st : St) : exec false st [0x3, 0x0, 0x6, 0xc0, 0x20, 0x0, 0x0, 0x0] =
    some ("s_load_dwordx2", (List.range 2).flatMap fun i => wrS32 st (0 + i) (st.memRead (sAddr st 6 32 + 4 * i) 4)) := rfl
theorem ex64 (st : St) : exec false st [0x3, 0x0, 0xa, 0xc0, 0x0, 0x0, 0x0, 0x0] =
    some ("s_load_dwordx4", (List.range 4).flatMap fun i => wrS32 st (0 + i) (st.memRead (sAddr st 6 0 + 4 * i) 4)) := rfl
theorem ex72 (st : St) : exec false st [0x3, 0x1, 0xa, 0xc0, 0x10, 0x0, 0x0, 0x0] =
    some ("s_load_dwordx4", (List.range 4).flatMap fun i => wrS32 st (4 + i) (st.memRead (sAddr st 6 16 + 4 * i) 4)) := rfl
theorem ex40 (st : St) : exec false st [0x8, 0x0, 0x0, 0x32] = some ("v_add_co_u32", execVALU st (eAdd 8 0 0)) := rfl
theorem ex48 (st : St) : exec false st [0x0, 0x0, 0x2, 0x32] = some ("v_add_co_u32", execVALU st (eAdd 0 0 1)) := rfl
theorem ex100 (st : St) : exec false st [0x2, 0x0, 0x4, 0x32] = some ("v_add_co_u32", execVALU st (eAdd 2 0 2)) := rfl
theorem ex120 (st : St) : exec false st [0x4, 0x0, 0x4, 0x32] = some ("v_add_co_u32", execVALU st (eAdd 4 0 2)) := rfl
theorem ex140 (st : St) : exec false st [0x0, 0x0, 0x0, 0x32] = some ("v_add_co_u32", execVALU st (eAdd 0 0 0)) := rfl
theorem ex104 (st : St) : exec false st [0x3, 0x3, 0x6, 0x38] = some ("v_addc_co_u32", execVALU st (eAddc 3 1 3)) := rfl
theorem ex144 (st : St) : exec false st [0x3, 0x3, 0x2, 0x38] = some ("v_addc_co_u32", execVALU st (eAddc 3 1 1)) := rfl
theorem ex80 (st : St) : exec false st [0x80, 0x2, 0x0, 0x7e] = some ("v_mov_b32", execVALU st (eMov 128 0)) := rfl
theorem ex96 (st : St) : exec false st [0x3, 0x2, 0x6, 0x7e] = some ("v_mov_b32", execVALU st (eMov 3 3)) := rfl
theorem ex116 (st : St) : exec false st [0x5, 0x2, 0x6, 0x7e] = some ("v_mov_b32", execVALU st (eMov 5 3)) := rfl
theorem ex136 (st : St) : exec false st [0x1, 0x2, 0x6, 0x7e] = some ("v_mov_b32", execVALU st (eMov 1 3)) := rfl

def eCmp : VEnc := { op := (vopcTable 198).getD (un32 "" id), src0 := 3, src1 := 256 + 1, vdst := 0, lit := 0 }
theorem ex52 (st : St) : exec false st [0x3, 0x2, 0x8c, 0x7d] = some ("v_cmp_ge_i32", execVALU st eCmp) := rfl

def eAshr : VEnc := { op := (vop3Table false 657).getD (un32 "" id), src0 := 128 + 30, src1 := 256 + 0, src2 := 0, vdst := 0 }
theorem ex84 (st : St) : exec false st [0x0, 0x0, 0x91, 0xd2, 0x9e, 0x0, 0x2, 0x0] = some ("v_ashrrev_i64", execVALU st eAshr) := rfl

theorem ex152 (st : St) : exec false st [0x4, 0x5, 0x4, 0xa] = some ("v_mul_f32", execVALU st eMulVV) := rfl

theorem ex108 (st : St) : exec false st [0x0, 0x0, 0x50, 0xdc, 0x2, 0x0, 0x0, 0x4] =
    some ("load_dword", (activeLanes st).flatMap fun l => wrVN 4 l 1 (st.memRead (gAddr st 2 l) 4)) := rfl
theorem ex128 (st : St) : exec false st [0x0, 0x0, 0x50, 0xdc, 0x2, 0x0, 0x0, 0x2] =
    some ("load_dword", (activeLanes st).flatMap fun l => wrVN 2 l 1 (st.memRead (gAddr st 2 l) 4)) := rfl
theorem ex156 (st : St) : exec false st [0x0, 0x0, 0x70, 0xdc, 0x0, 0x2, 0x0, 0x0] =
    some ("store_dword", (activeLanes st).flatMap fun l => wrMemBytes (gAddr st 0 l) 4 (st.rvN 2 l 1)) := rfl

theorem wn0 : (win 0).take 8 = [0x2, 0x0, 0x2, 0xc0, 0x4, 0x0, 0x0, 0x0] := by decide
theorem wn20 : (win 20).take 8 = [0xc3, 0x0, 0x2, 0xc0, 0x18, 0x0, 0x0, 0x0] := by decide
theorem wn28 : (win 28).take 8 = [0x3, 0x0, 0x6, 0xc0, 0x20, 0x0, 0x0, 0x0] := by decide
theorem wn64 : (win 64).take 8 = [0x3, 0x0, 0xa, 0xc0, 0x0, 0x0, 0x0, 0x0] := by decide
theorem wn72 : (win 72).take 8 = [0x3, 0x1, 0xa, 0xc0, 0x10, 0x0, 0x0, 0x0] := by decide
theorem wn40 : (win 40).take 4 = [0x8, 0x0, 0x0, 0x32] := by decide
theorem wn48 : (win 48).take 4 = [0x0, 0x0, 0x2, 0x32] := by decide
theorem wn100 : (win 100).take 4 = [0x2, 0x0, 0x4, 0x32] := by decide
theorem wn120 : (win 120).take 4 = [0x4, 0x0, 0x4, 0x32] := by decide
theorem wn140 : (win 140).take 4 = [0x0, 0x0, 0x0, 0x32] := by decide
theorem wn104 : (win 104).take 4 = [0x3, 0x3, 0x6, 0x38] := by decide
theorem wn124 : (win 124).take 4 = [0x3, 0x3, 0x6, 0x38] := by decide
theorem wn144 : (win 144).take 4 = [0x3, 0x3, 0x2, 0x38] := by decide
theorem wn80 : (win 80).take 4 = [0x80, 0x2, 0x0, 0x7e] := by decide
theorem wn96 : (win 96).take 4 = [0x3, 0x2, 0x6, 0x7e] := by decide
theorem wn116 : (win 116).take 4 = [0x5, 0x2, 0x6, 0x7e] := by decide
theorem wn136 : (win 136).take 4 = [0x1, 0x2, 0x6, 0x7e] := by decide
theorem wn52 : (win 52).take 4 = [0x3, 0x2, 0x8c, 0x7d] := by decide
theorem wn84 : (win 84).take 8 = [0x0, 0x0, 0x91, 0xd2, 0x9e, 0x0, 0x2, 0x0] := by decide
theorem wn152 : (win 152).take 4 = [0x4, 0x5, 0x4, 0xa] := by decide
theorem wn108 : (win 108).take 8 = [0x0, 0x0, 0x50, 0xdc, 0x2, 0x0, 0x0, 0x4] := by decide
theorem wn128 : (win 128).take 8 = [0x0, 0x0, 0x50, 0xdc, 0x2, 0x0, 0x0, 0x2] := by decide
theorem wn156 : (win 156).take 8 = [0x0, 0x0, 0x70, 0xdc, 0x0, 0x2, 0x0, 0x0] := by decide

end Mul
end Emu
end C01
